import GdcVerif.Model.Rle
