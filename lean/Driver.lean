import GdcVerif.Driver.Util
import GdcVerif.Driver.Rle
/-!
  Line-protocol driver: one operation per input line, one canonical output line each.
  Core Lean only (linkable as `lean_exe gdcdriver`).  Each codec contributes a
  `step? : List String → Option String` in `GdcVerif/Driver/<X>.lean`; the first that
  recognises the op answers.
-/

def steppers : List (List String → Option String) := [
  Drv.Rle.step?
]

def step (line : String) : String :=
  let toks := (line.trimAscii.toString.splitOn " ").filter (· ≠ "")
  match steppers.findSome? (· toks) with
  | some r => r
  | none => "bad-op"

partial def loop (h : IO.FS.Stream) (out : IO.FS.Stream) : IO Unit := do
  let line ← h.getLine
  if line.isEmpty then return ()
  out.putStrLn (step line)
  loop h out

def main : IO Unit := do
  loop (← IO.getStdin) (← IO.getStdout)
