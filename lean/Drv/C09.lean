import GdcVerif.Driver.Main
import GdcVerif.Driver.Parsers
import GdcVerif.Driver.Rle
def main : IO Unit := Drv.run [Drv.Parsers.step?, Drv.Rle.step?]
