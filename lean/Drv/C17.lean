import GdcVerif.Driver.Main
import GdcVerif.Driver.C17
import GdcVerif.Driver.Rle
import GdcVerif.Driver.Adapters
def main : IO Unit := Drv.run [Drv.C17.step?, Drv.Rle.step?, Drv.Adapters.step?]
