import GdcVerif.Driver.Main
import GdcVerif.Driver.JpegLs
def main : IO Unit := Drv.run [Drv.JpegLs.step?]
