import GdcVerif.Driver.Main
import GdcVerif.Driver.Rle
def main : IO Unit := Drv.run [Drv.Rle.step?]
