import GdcVerif.Driver.Main
import GdcVerif.Driver.JpegContainer
def main : IO Unit := Drv.run [Drv.JpegContainer.step?]
