import GdcVerif.Driver.Main
import GdcVerif.Driver.JpegLossless
import GdcVerif.Driver.T81H
def main : IO Unit := Drv.run [Drv.JpegLossless.step?, Drv.T81H.step?]
