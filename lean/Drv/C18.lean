import GdcVerif.Driver.Main
import GdcVerif.Driver.Facts
def main : IO Unit := Drv.run [Drv.Facts.step?]
