import GdcVerif.Driver.Main
import GdcVerif.Driver.J2k
import GdcVerif.Driver.J2kGlue
def main : IO Unit := Drv.run [Drv.J2k.step?, Drv.Glue.step?]
