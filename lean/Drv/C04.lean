import GdcVerif.Driver.Main
import GdcVerif.Driver.J2k
def main : IO Unit := Drv.run [Drv.J2k.step?]
