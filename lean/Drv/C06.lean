import GdcVerif.Driver.Main
import GdcVerif.Driver.Htj2k
def main : IO Unit := Drv.run [Drv.Htj2k.step?]
