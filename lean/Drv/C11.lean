import GdcVerif.Driver.Main
import GdcVerif.Driver.Dct
def main : IO Unit := Drv.run [Drv.Dct.step?]
