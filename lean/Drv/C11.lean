import GdcVerif.Driver.Main
import GdcVerif.Driver.Dct
import GdcVerif.Driver.JpegLossless
def main : IO Unit := Drv.run [Drv.Dct.step?, Drv.JpegLossless.step?]
