import GdcVerif.Driver.Main
import GdcVerif.Driver.C20
def main : IO Unit := Drv.run [Drv.C20.step?]
