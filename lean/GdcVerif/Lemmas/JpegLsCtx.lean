import GdcVerif.Lemmas.JpegLs
/-!
  Invariants of the regular-mode context update (generated `Context.UpdateContext`,
  context.go, T.87 A.6): `1 ≤ N ≤ RESET`, `−128 ≤ C ≤ 127` are preserved, and `−N < B ≤ 0`
  holds after every update whatever `B` was before.  Proof staged over the generated `let`s.
-/
namespace JpegLsLemmas
open Gen.JpegLs

theorem updateContext_inv (ctx : Context) (e near reset : Int) (hr : 1 ≤ reset)
    (hN : 1 ≤ ctx.N ∧ ctx.N ≤ reset) (hC : -128 ≤ ctx.C ∧ ctx.C ≤ 127) :
    (1 ≤ (Context.UpdateContext ctx e near reset).N ∧ (Context.UpdateContext ctx e near reset).N ≤ reset) ∧
    (-128 ≤ (Context.UpdateContext ctx e near reset).C ∧ (Context.UpdateContext ctx e near reset).C ≤ 127) ∧
    (-(Context.UpdateContext ctx e near reset).N < (Context.UpdateContext ctx e near reset).B ∧
       (Context.UpdateContext ctx e near reset).B ≤ 0) := by
  unfold Context.UpdateContext
  extract_lets maxC minC ov c1 c2 c3 c4 c5 c6 d1 d2 d3 h1 h2 h3 d4 n1 p1 p2 p3 p4 p5 q1 q2 q3 q4 q5 q6 r1
  -- stage 1 (A/B bookkeeping and the overflow guard) leaves N and C alone
  have s1 : d3.N = ctx.N ∧ d3.C = ctx.C := by
    simp only [d3, d2, d1, c6, c5, c4, c3, c2, c1]
    repeat' split
    all_goals exact ⟨rfl, rfl⟩
  -- stage 2 (reset halving) and N++
  have s2 : (1 ≤ n1.N ∧ n1.N ≤ reset) ∧ n1.C = ctx.C := by
    have sh : ∀ x : Int, Go.shr x 1 = x / 2 := fun x => by have := shr_eq x 1; simpa using this
    simp only [n1, d4, h3, h2, h1]
    split <;> rename_i hreq <;> simp only [beq_iff_eq, s1.1] at hreq <;> simp only [sh, s1.1, s1.2] <;>
      (constructor; (omega); (first | rfl | trivial))
  -- stage 3 (bias update) only looks at n1
  have hCn : -128 ≤ n1.C ∧ n1.C ≤ 127 := by rw [s2.2]; exact hC
  have hNn := s2.1
  clear_value n1
  obtain ⟨A, N, B, C⟩ := n1
  simp only [r1, q6, q5, q4, q3, q2, q1, p5, p4, p3, p2, p1, maxC, minC, decide_eq_true_eq] at *
  repeat' split
  all_goals (simp only [] at *)
  all_goals omega

end JpegLsLemmas
