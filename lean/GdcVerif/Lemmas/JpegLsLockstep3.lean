import GdcVerif.Lemmas.JpegLsLockstep2
/-! Lock-step composition, part 3: one line (`Lockstep.lockstep_var`), all lines, whole images. -/
namespace JpegLsScanL
open Gen.JpegLs JpegLsLemmas JpegLsNear JpegLsRun Golomb Lockstep

/-- per-step agreement in the shape `Lockstep.lockstep_var2` asks for -/
theorem step_agree (P : Nat) (N : Int) (h : Admissible P N) (comps : Nat) (hc : 1 ≤ comps) (line : List Pixel)
    (s : LSt) (todo : List Pixel) (hne : todo ≠ []) (hinv : LInv comps ((2 : Int) ^ P - 1) N line s todo) :
    ∃ ws s' todo', encStep (traits P N) (List.range comps) s todo = .ok (ws, s', todo') ∧
      todo'.length < todo.length ∧ LInv comps ((2 : Int) ^ P - 1) N line s' todo' ∧ WritesFit ws ∧
      ∀ rest, decStep (traits P N) (List.range comps) s todo.length (writesBits ws ++ rest) = .ok (s', todo'.length, rest) := by
  cases todo with
  | nil => exact absurd rfl hne
  | cons xi rest =>
    by_cases hq : ((ids (traits P N) s (List.range comps)).all (fun i => i.1 == 0)) = true
    · obtain ⟨ws, s', todo', he, hlt, hi, hd, hf⟩ := step_run P N h comps hc line s xi rest hinv hq
      exact ⟨ws, s', todo', he, hlt, hi, hf, hd⟩
    · obtain ⟨ws, s', he, hi, hd, hf⟩ := step_regular P N h comps line s xi rest hinv hq
      exact ⟨ws, s', rest, he, by simp, hi, hf, hd⟩

/-- one line: the decoder walk on the encoder walk's bits reaches the encoder's final state -/
theorem line_roundtrip (P : Nat) (N : Int) (h : Admissible P N) (comps : Nat) (hc : 1 ≤ comps) (line : List Pixel)
    (s : LSt) (hinv : LInv comps ((2 : Int) ^ P - 1) N line s line) :
    ∃ ws sf, encLine (traits P N) (List.range comps) s line = .ok (ws, sf) ∧
      LInv comps ((2 : Int) ^ P - 1) N line sf [] ∧ WritesFit ws ∧
      ∀ rest, decLine (traits P N) (List.range comps) line.length s (writesBits ws ++ rest) = .ok (sf, rest) :=
  lockstep_var2 writesBits writesBits_nil writesBits_append WritesFit fit_nil (fun _ _ => fit_append) Fail.err
    (encStep (traits P N) (List.range comps)) (decStep (traits P N) (List.range comps))
    (LInv comps ((2 : Int) ^ P - 1) N line)
    (fun s todo hne hinv => step_agree P N h comps hc line s todo hne hinv)
    (line.length + 1) s line (by omega) hinv

/-- invariant between lines -/
def BInv (comps : Nat) (M : Int) (w : Nat) (s : LSt) : Prop := SInv comps M w s ∧ s.done = []

def LineOk (comps : Nat) (M : Int) (w : Nat) (line : List Pixel) : Prop :=
  line.length = w ∧ ∀ p ∈ line, PixOk comps M p

theorem nextLine_inv {comps : Nat} {M N : Int} {line : List Pixel} {sf : LSt}
    (hi : LInv comps M N line sf []) : BInv comps M line.length (nextLine sf) ∧
      sf.done.reverse.length = line.length ∧ AllRel (PixClose N) sf.done.reverse line ∧
      (∀ p ∈ sf.done.reverse, PixOk comps M p) := by
  obtain ⟨hS, hline, hle, htodo, hclose⟩ := hi
  have hlen : sf.done.length = line.length := by
    have := congrArg List.length htodo
    simp at this; omega
  rw [hlen, List.take_length] at hclose
  refine ⟨⟨⟨?_, by simp [nextLine], by simp [nextLine, hlen], hS.2.2.2.1, hS.2.2.2.2⟩, rfl⟩, by simp [hlen], hclose, ?_⟩
  · intro p hp
    simp only [nextLine, List.mem_reverse] at hp
    exact hS.2.1 p hp
  · intro p hp
    simp only [List.mem_reverse] at hp
    exact hS.2.1 p hp

/-- all lines -/
theorem lines_roundtrip (P : Nat) (N : Int) (h : Admissible P N) (comps : Nat) (hc : 1 ≤ comps) (w : Nat) :
    ∀ (lines : List (List Pixel)) (s : LSt), BInv comps ((2 : Int) ^ P - 1) w s →
      (∀ l ∈ lines, LineOk comps ((2 : Int) ^ P - 1) w l) →
      ∃ ws recs, encLines (traits P N) (List.range comps) lines s = .ok (ws, recs) ∧
        AllRel (AllRel (PixClose N)) recs lines ∧
        (∀ l ∈ recs, ∀ p ∈ l, PixOk comps ((2 : Int) ^ P - 1) p) ∧ WritesFit ws ∧
        ∀ rest, decLines (traits P N) (List.range comps) w lines.length s (writesBits ws ++ rest) = .ok (recs, rest)
  | [], s, _, _ => ⟨[], [], rfl, AllRel.nil, by simp, fit_nil, fun rest => by simp [decLines, writesBits]⟩
  | line :: more, s, hb, hl => by
    obtain ⟨hlw, hlok⟩ := hl line (by simp)
    have hinv : LInv comps ((2 : Int) ^ P - 1) N line s line := by
      refine ⟨by rw [hlw]; exact hb.1, hlok, by rw [hb.2]; simp, by rw [hb.2]; simp, ?_⟩
      rw [hb.2]; simp; exact AllRel.nil
    obtain ⟨ws, sf, he, hi, hfw, hd⟩ := line_roundtrip P N h comps hc line s hinv
    obtain ⟨hbn, _, hcl, hok⟩ := nextLine_inv hi
    rw [hlw] at hbn
    obtain ⟨ws2, recs, he2, hc2, hok2, hfw2, hd2⟩ :=
      lines_roundtrip P N h comps hc w more (nextLine sf) hbn (fun l hl' => hl l (by simp [hl']))
    refine ⟨ws ++ ws2, sf.done.reverse :: recs, ?_, AllRel.cons hcl hc2, ?_, fit_append hfw hfw2, ?_⟩
    · simp only [encLines, he, he2]
    · intro l hl'
      simp only [List.mem_cons] at hl'
      rcases hl' with rfl | hl'
      · exact hok
      · exact hok2 l hl'
    · intro rest
      simp only [List.length_cons, decLines]
      rw [writesBits_append, List.append_assoc]
      have := hd (writesBits ws2 ++ rest)
      rw [hlw] at this
      rw [this]
      simp only [hd2 rest]

end JpegLsScanL

namespace JpegLsScanL
open Gen.JpegLs JpegLsLemmas JpegLsNear JpegLsRun Golomb Lockstep

theorem initL_inv (P : Nat) (N : Int) (h : Admissible P N) (w comps : Nat) :
    BInv comps ((2 : Int) ^ P - 1) w (initL (traits P N) w comps) := by
  obtain ⟨_, _, _, hR2, hR16⟩ := traits_run_facts P N h
  have hpos : (0 : Int) < 2 ^ P := Int.pow_pos (by decide)
  have hz : PixOk comps ((2 : Int) ^ P - 1) (List.replicate comps 0) := by
    refine ⟨by simp, ?_⟩
    intro v hv
    simp only [List.mem_replicate] at hv
    rw [hv.2]; unfold SampOk; omega
  refine ⟨⟨?_, by simp [initL], by simp [initL], by simp [initL, JpegLsScan.initSt], ?_⟩, rfl⟩
  · intro p hp
    simp only [initL, List.mem_replicate] at hp
    rw [hp.2]; exact hz
  · refine ⟨by simp [initL, JpegLsScan.initSt], ?_, rfl, ?_, rfl⟩
    · exact newRunModeContext_inv 0 _ (Or.inl rfl) ⟨hR2, hR16⟩
    · exact newRunModeContext_inv 1 _ (Or.inr rfl) ⟨hR2, hR16⟩

/-- whole images: the decoder model on the encoder model's bits returns the encoder's reconstructed
    image, which is within NEAR of the source image and inside [0, MAXVAL] -/
theorem image_roundtrip (P : Nat) (N : Int) (h : Admissible P N) (comps : Nat) (hc : 1 ≤ comps) (w : Nat)
    (lines : List (List Pixel)) (hl : ∀ l ∈ lines, LineOk comps ((2 : Int) ^ P - 1) w l) :
    ∃ ws recs, encodeImage (traits P N) w comps lines = .ok (ws, recs) ∧
      AllRel (AllRel (PixClose N)) recs lines ∧
      (∀ l ∈ recs, ∀ p ∈ l, PixOk comps ((2 : Int) ^ P - 1) p) ∧ WritesFit ws ∧
      ∀ rest, decodeImage (traits P N) w lines.length comps (writesBits ws ++ rest) = .ok (recs, rest) :=
  lines_roundtrip P N h comps hc w lines _ (initL_inv P N h w comps) hl

theorem allRel_mono {α : Type} {R Q : α → α → Prop} (hrq : ∀ a b, R a b → Q a b) {x y : List α}
    (hxy : AllRel R x y) : AllRel Q x y := by
  induction hxy with
  | nil => exact AllRel.nil
  | cons h0 _ ih => exact AllRel.cons (hrq _ _ h0) ih

theorem pixClose_zero_eq {r p : Pixel} (hrp : PixClose 0 r p) : r = p :=
  AllRel.eq (allRel_mono (fun a b hab => by unfold SClose at hab; omega) hrp)

theorem image_close_zero_eq {recs lines : List (List Pixel)} (hrl : AllRel (AllRel (PixClose 0)) recs lines) :
    recs = lines :=
  AllRel.eq (allRel_mono (fun _ _ hab => AllRel.eq (allRel_mono (fun _ _ => pixClose_zero_eq) hab)) hrl)

end JpegLsScanL

namespace JpegLsScanL
open Gen.JpegLs JpegLsLemmas JpegLsNear JpegLsRun Golomb Lockstep

/-- BYTE level: the scan bytes the `GolombWriter` model produces for the encoder's calls, un-stuffed
    by the T.87 rule, decode to the encoder's reconstructed image; only zero padding is left over -/
theorem image_bytes_roundtrip (P : Nat) (N : Int) (h : Admissible P N) (comps : Nat) (hc : 1 ≤ comps) (w : Nat)
    (lines : List (List Pixel)) (hl : ∀ l ∈ lines, LineOk comps ((2 : Int) ^ P - 1) w l) :
    ∃ ws recs k, encodeImage (traits P N) w comps lines = .ok (ws, recs) ∧
      AllRel (AllRel (PixClose N)) recs lines ∧
      (∀ l ∈ recs, ∀ p ∈ l, PixOk comps ((2 : Int) ^ P - 1) p) ∧
      decodeImage (traits P N) w lines.length comps
        (destuff (finish (writeAll Writer.new ws)).out false) = .ok (recs, List.replicate k false) := by
  obtain ⟨ws, recs, he, hcl, hok, hfit, hd⟩ := image_roundtrip P N h comps hc w lines hl
  obtain ⟨k, hk⟩ := writer_destuff ws hfit
  exact ⟨ws, recs, k, he, hcl, hok, by rw [hk]; exact hd _⟩

end JpegLsScanL
