import GdcVerif.Spec.T81HStream
import GdcVerif.Lemmas.JllScan
import GdcVerif.Lemmas.JllCanon
import GdcVerif.Lemmas.JllBits
import GdcVerif.Lemmas.T81H
import GdcVerif.Lemmas.JpegFrames
/-!
  C13 at stream level: the INDEPENDENT T.81 Annex H decoder of `Spec/T81HStream.lean`
  (`T81H.specDecode`: strict Annex B reader, B.1.1.5 unstuffing, Annex C code generation, F.2.2.3
  DECODE by prefix search, RECEIVE / EXTEND, H.1.2.1 prediction, modulo-2^16 reconstruction)
  recovers the source image from the stream of the MODEL encoder (`JLL.encodeScan` behind the
  `JpegC.losslessHeader` / `sv1Header` container), exactly on the (predictor, geometry) classes
  (every predictor 1..7 and SV1 since fix 946feeb; the former `EdgeConform` restriction is gone).

  * R1  `ecsBits_eq`, `ecsBits_writeAll`     the two unstuffing / byte→bit definitions agree
  * R2  `codeTable_eq`, `codeTable_entry`    Annex C (Figures C.1–C.3) = the model's canonical codes
  * R3  `decodeSym_code`                     DECODE by prefix search finds the model's symbol
  * R4  `decodeDiff_sym`, `recon_extend`     one difference
  * R5  `recon_sample`                       one sample
  * R6  `decodeSamples_scan`                 the whole scan
  * R7  `specDecode_model_stream`            the stream theorem (scan given as `writeAll … scanSyms`)
        `specDecode_encodeScan`              the same, end to end from `encodeScan` (scan ≠ [] proved)
  * R8  regression example for the former first-line / line-start deviation; formerly: it held iff the
                                             code's prediction equals Px at every position of the image
-/
namespace T81H
open JLL

/-! ## R1: bits of the entropy-coded segment -/

theorem unstuffEcs_eq : ∀ (n : Nat) (l : List Nat), l.length ≤ n → unstuffEcs l = unstuff l := by
  intro n
  induction n with
  | zero =>
    intro l hl
    have : l = [] := List.eq_nil_of_length_eq_zero (by omega)
    subst this
    simp [unstuffEcs, unstuff]
  | succ n ih =>
    intro l hl
    match l with
    | [] => simp [unstuffEcs, unstuff]
    | [b] => simp [unstuffEcs, unstuff]
    | b :: x :: rest =>
      simp only [List.length_cons] at hl
      have h1 := ih rest (by omega)
      have h2 := ih (x :: rest) (by simp only [List.length_cons]; omega)
      simp only [unstuffEcs, unstuff, h1]
      rw [← h2]

theorem byteBits_eq (b : Nat) : byteBits b = bitsOf b 8 := by
  simp [byteBits, bitsOf, List.range, List.range.loop]

/-- R1: the specification's bit sequence of an entropy-coded segment is the model's -/
theorem ecsBits_eq (scan : List Nat) :
    ecsBits scan = (unstuff scan).flatMap (fun b => bitsOf b 8) := by
  unfold ecsBits
  rw [unstuffEcs_eq scan.length scan (Nat.le_refl _)]
  congr 1

/-- R1 with `writeAll_bits`: the bits of a `WriteBits*; Flush` sequence, then < 8 one-bits -/
theorem ecsBits_writeAll (ws : List (Nat × Nat)) (hn : ∀ w ∈ ws, w.2 ≤ 16) :
    ∃ pad : List Bool, pad.length < 8 ∧ (∀ b ∈ pad, b = true) ∧
      ecsBits (writeAll {} ws) = ws.flatMap (fun w => bitsOf w.1 w.2) ++ pad := by
  obtain ⟨pad, h1, h2, h3⟩ := writeAll_bits ws hn
  exact ⟨pad, h1, h2, by rw [ecsBits_eq, h3]⟩

/-! ## R2: Annex C code generation = the model's canonical codes -/

/-- HUFFSIZE from length `l + 1` on -/
def sizesFrom : List Nat → Nat → List Nat
  | [], _ => []
  | n :: rest, l => List.replicate n (l + 1) ++ sizesFrom rest (l + 1)

theorem huffSize_from : ∀ (bits : List Nat) (l : Nat),
    (bits.zipIdx l).flatMap (fun (p : Nat × Nat) => List.replicate p.1 (p.2 + 1)) = sizesFrom bits l
  | [], _ => rfl
  | n :: rest, l => by
    simp only [List.zipIdx_cons, List.flatMap_cons, sizesFrom, huffSize_from rest (l + 1)]

theorem huffSize_eq (bits : List Nat) : huffSize bits = sizesFrom bits 0 :=
  huffSize_from bits 0

/-- Figure C.2 run over the sizes of the lengths `l+1 ..`, from state (CODE, SI) with
    `CODE · 2^(l+1−SI) = F`, yields the clean recursion `specCodes` started at first code `F` -/
theorem huffCodeGo_spec : ∀ (rest : List Nat) (l F C si : Nat), si ≤ l + 1 → C * 2 ^ (l + 1 - si) = F →
    (huffCodeGo (sizesFrom rest l) C si).zip (sizesFrom rest l) = specCodes rest l F
  | [], _, _, _, _, _, _ => by simp [sizesFrom, huffCodeGo, specCodes]
  | n :: rest, l, F, C, si, hsi, hF => by
    simp only [sizesFrom, specCodes]
    induction n generalizing F C si with
    | zero =>
      simp only [List.replicate_zero, List.nil_append, specLen, Nat.add_zero]
      apply huffCodeGo_spec rest (l + 1) (F * 2) C si (by omega)
      rw [show l + 1 + 1 - si = (l + 1 - si) + 1 by omega, Nat.pow_succ, ← Nat.mul_assoc, hF]
    | succ n ih =>
      simp only [List.replicate_succ, List.cons_append, huffCodeGo, List.zip_cons_cons, specLen, hF]
      have := ih (F + 1) (F + 1) (l + 1) (Nat.le_refl _) (by simp)
      rw [this, show F + 1 + n = F + (n + 1) by omega]

theorem huffCode_eq (sizes : List Nat) : huffCode sizes = huffCodeGo sizes 0 1 := by
  cases sizes with
  | nil => rfl
  | cons s rest => simp [huffCode, huffCodeGo]

/-- R2: the table specification's (symbol, code, length) triples are HUFFVAL zipped with the
    clean Annex C recursion of `JllCanon` -/
theorem codeTable_eq (bits vals : List Nat) : codeTable bits vals = vals.zip (specCodes bits 0 0) := by
  unfold codeTable
  simp only
  rw [huffCode_eq, huffSize_eq, huffCodeGo_spec bits 0 0 0 1 (by omega) (by simp)]
  have : (fun (x : Nat × Nat × Nat) => match x with | (v, c, s) => (v, c, s)) = id := by
    funext x; rfl
  rw [this, List.map_id]

/-- R2, entry form: for a valid table, the `j`-th triple of the specification's code table is
    the `j`-th HUFFVAL with exactly the (code, length) the model's `BuildHuffmanCodes` assigns it -/
theorem codeTable_entry {bits : List Nat} {values : Array Nat} (hv : ValidTable bits values = true)
    {j sym : Nat} (hj : values[j]? = some sym) :
    ∃ c len, (codeTable bits values.toList)[j]? = some (sym, c, len) ∧
      (buildHuffmanCodes bits values)[sym]? = some (c, len) := by
  obtain ⟨c, len, h1, h2⟩ := huff_at hv hj
  refine ⟨c, len, ?_, h2⟩
  rw [codeTable_eq, List.getElem?_zip_eq_some]
  exact ⟨by simpa using hj, h1⟩

theorem codeTable_length {bits : List Nat} {values : Array Nat} (hv : ValidTable bits values = true) :
    (codeTable bits values.toList).length = values.size := by
  obtain ⟨_, hs, _⟩ := ValidTable.unpack hv
  rw [codeTable_eq, List.length_zip, specCodes_length, hs]
  simp

/-! ## R3: DECODE by prefix search -/

theorem ofBits_lt : ∀ l : List Bool, ofBits l < 2 ^ l.length
  | [] => by simp [ofBits]
  | b :: r => by
    have ih := ofBits_lt r
    simp only [ofBits, List.length_cons, Nat.pow_succ]
    cases b <;> simp <;> omega

theorem bitsOf_ofBits : ∀ l : List Bool, bitsOf (ofBits l) l.length = l
  | [] => rfl
  | b :: r => by
    have hlt := ofBits_lt r
    have ih := bitsOf_ofBits r
    have e : ofBits (b :: r) = 2 ^ r.length * (if b then 1 else 0) + ofBits r := by
      simp only [ofBits]; rw [Nat.mul_comm]
    simp only [List.length_cons, bitsOf]
    congr 1
    · rw [e, Nat.testBit_two_pow_mul_add _ hlt]
      cases b <;> simp
    · refine Eq.trans ?_ ih
      apply bitsOf_congr
      intro i hi
      rw [e, Nat.testBit_two_pow_mul_add _ hlt, if_pos hi]

/-- the accumulator loop of `isPrefix` / RECEIVE computes `ofBits` -/
theorem foldl_bits : ∀ (l : List Bool) (a : Nat),
    l.foldl (fun acc b => acc * 2 + (if b then 1 else 0)) a = a * 2 ^ l.length + ofBits l
  | [], a => by simp [ofBits]
  | b :: r, a => by
    rw [List.foldl_cons, foldl_bits r]
    simp only [ofBits, List.length_cons, Nat.pow_succ, Nat.add_mul]
    rw [Nat.mul_assoc, Nat.mul_comm (2 ^ r.length) 2, Nat.add_assoc]

theorem isPrefix_iff (c len : Nat) (bs : List Bool) :
    isPrefix c len bs = true ↔ len ≤ bs.length ∧ ofBits (bs.take len) = c := by
  simp only [isPrefix, foldl_bits, Nat.zero_mul, Nat.zero_add, Bool.and_eq_true, decide_eq_true_eq,
    beq_iff_eq]

theorem isPrefix_self (c len : Nat) (hc : c < 2 ^ len) (rest : List Bool) :
    isPrefix c len (bitsOf c len ++ rest) = true := by
  rw [isPrefix_iff]
  refine ⟨by simp [bitsOf_length], ?_⟩
  rw [List.take_left' (bitsOf_length c len), ofBits_bitsOf, Nat.mod_eq_of_lt hc]

/-- a code word that is a prefix of the bit string: the string starts with its `bitsOf` -/
theorem isPrefix_split (c len : Nat) (bs : List Bool) (h : isPrefix c len bs = true) :
    bs = bitsOf c len ++ bs.drop len := by
  rw [isPrefix_iff] at h
  obtain ⟨h1, h2⟩ := h
  have hl : (bs.take len).length = len := by simp; omega
  have := bitsOf_ofBits (bs.take len)
  rw [h2, hl] at this
  rw [this, List.take_append_drop]

/-- R3: on the model's code of `sym` followed by anything, the specification's DECODE (first
    table entry whose code word is a prefix) returns `sym` and consumes exactly the code word.
    No other entry matches: the model's `decodeLoop` is a function of the bit string. -/
theorem decodeSym_code (bits : List Nat) (values : Array Nat) (hv : ValidTable bits values = true)
    (sym : Nat) (hs : sym ∈ values.toList) (c len : Nat)
    (hc : (buildHuffmanCodes bits values)[sym]? = some (c, len)) (rest : List Bool) :
    decodeSym (codeTable bits values.toList) (bitsOf c len ++ rest) = some (sym, rest) := by
  obtain ⟨j, hj⟩ := List.mem_iff_getElem?.1 hs
  have hj' : values[j]? = some sym := by simpa using hj
  obtain ⟨c0, len0, he, hc0⟩ := codeTable_entry hv hj'
  rw [hc] at hc0
  simp only [Option.some.injEq, Prod.mk.injEq] at hc0
  obtain ⟨rfl, rfl⟩ := hc0
  obtain ⟨c1, len1, hc1, _, _, hlt⟩ := codes_wf bits values hv sym hs
  rw [hc] at hc1
  simp only [Option.some.injEq, Prod.mk.injEq] at hc1
  obtain ⟨rfl, rfl⟩ := hc1
  obtain ⟨_, _, hnd, _, _⟩ := ValidTable.unpack hv
  have hjl : j < (codeTable bits values.toList).length := by
    rcases List.getElem?_eq_some_iff.1 he with ⟨h, _⟩; exact h
  have hfind : (codeTable bits values.toList).find?
      (fun (x : Nat × Nat × Nat) => isPrefix x.2.1 x.2.2 (bitsOf c len ++ rest)) = some (sym, c, len) := by
    rw [List.find?_eq_some_iff_getElem]
    refine ⟨isPrefix_self c len hlt rest, j, hjl, ?_, ?_⟩
    · rcases List.getElem?_eq_some_iff.1 he with ⟨_, h⟩; exact h
    · intro i hi
      have hil : i < (codeTable bits values.toList).length := by omega
      have hiv : i < values.size := by rw [← codeTable_length hv]; exact hil
      have hvi : values[i]? = some values[i] := Array.getElem?_eq_getElem hiv
      obtain ⟨c', len', he', hc'⟩ := codeTable_entry hv hvi
      have hget : (codeTable bits values.toList)[i] = (values[i], c', len') := by
        rcases List.getElem?_eq_some_iff.1 he' with ⟨_, h⟩; exact h
      rw [hget]
      simp only [Bool.not_eq_eq_eq_not, Bool.not_true]
      refine Decidable.byContradiction fun hp => ?_
      have hp' : isPrefix c' len' (bitsOf c len ++ rest) = true := by simpa using hp
      have hsplit := isPrefix_split c' len' _ hp'
      have hm' : values[i] ∈ values.toList := by simp
      have d1 := canonical_decode_encode bits values hv sym hs c len hc rest
      have d2 := canonical_decode_encode bits values hv values[i] hm' c' len' hc'
        ((bitsOf c len ++ rest).drop len')
      rw [← hsplit, d1] at d2
      simp only [Outcome.ok.injEq, Prod.mk.injEq] at d2
      have e1 : values.toList[i]? = some sym := by simp [hiv, d2.1]
      have := (List.getElem?_inj (by simpa using hiv) hnd).1 (e1.trans hj.symm)
      omega
  unfold decodeSym
  have : (fun (x : Nat × Nat × Nat) => match x with | (_, c', l) => isPrefix c' l (bitsOf c len ++ rest))
      = (fun (x : Nat × Nat × Nat) => isPrefix x.2.1 x.2.2 (bitsOf c len ++ rest)) := by
    funext x; rfl
  rw [this, hfind]
  simp [bitsOf_length]

/-! ## R4: one difference -/

theorem receive_bits (v n : Nat) (hv : v < 2 ^ n) (rest : List Bool) :
    receive n (bitsOf v n ++ rest) = some (v, rest) := by
  have hl : ¬ (bitsOf v n ++ rest).length < n := by simp [bitsOf_length]
  unfold receive
  rw [if_neg hl, foldl_bits, List.take_left' (bitsOf_length v n), List.drop_left' (bitsOf_length v n),
    ofBits_bitsOf, Nat.mod_eq_of_lt hv]
  simp

/-- EXTEND of the model's (category, amplitude) is the difference; the model's int16 −32768
    is the standard's 32768 (Table H.2, SSSS = 16) -/
theorem extend_symOfDiff (d : Int) (hlo : -32768 ≤ d) (hhi : d ≤ 32767) :
    extend (symOfDiff d).2 (symOfDiff d).1 = if d = -32768 then 32768 else d := by
  obtain ⟨hr, h0, h16, hb0, hb, h16'⟩ := category_roundtrip' d hlo hhi
  simp only [symOfDiff]
  generalize hE : encodeLosslessDifference d = e at *
  obtain ⟨cat, amp⟩ := e
  simp only at hr h0 h16 hb0 hb h16' ⊢
  obtain ⟨k, rfl⟩ : ∃ k : Nat, cat = k := ⟨cat.toNat, by omega⟩
  obtain ⟨a, rfl⟩ : ∃ a : Nat, amp = a := ⟨amp.toNat, by omega⟩
  simp only [Int.toNat_natCast] at hb ⊢
  by_cases hz : k = 0
  · subst hz
    have : d = 0 := by rw [← hr]; simp [receiveLosslessDifference, JLL.extend]
    subst this
    simp [extend]
  by_cases hs : k = 16
  · subst hs
    have : d = -32768 := h16'.1 rfl
    subst this
    simp [extend]
  have hd : d ≠ -32768 := fun h => hs (by have := h16'.2 h; omega)
  rw [if_neg hd]
  have hkk : ((k : Int) - 1) = ((k - 1 : Nat) : Int) := by omega
  unfold receiveLosslessDifference JLL.extend at hr
  rw [if_neg (by omega), if_neg (by omega)] at hr
  simp only at hr
  rw [hkk, shl_one, shl_negone] at hr
  unfold extend
  rw [if_neg hz, if_neg hs]
  have hc : ((2 ^ (k - 1) : Nat) : Int) = (2 : Int) ^ (k - 1) := by simp
  by_cases hlt : a < 2 ^ (k - 1)
  · have hlt' : (a : Int) < (2 : Int) ^ (k - 1) := by omega
    rw [if_pos hlt]
    rw [if_pos hlt'] at hr
    omega
  · have hlt' : ¬ (a : Int) < (2 : Int) ^ (k - 1) := by omega
    rw [if_neg hlt]
    rw [if_neg hlt'] at hr
    omega

/-- decoder side: adding the EXTENDed value modulo 2^16 is adding the model's difference -/
theorem recon_extend (p d : Int) (hlo : -32768 ≤ d) (hhi : d ≤ 32767) :
    recon p (extend (symOfDiff d).2 (symOfDiff d).1) = (p + d) % 65536 := by
  rw [extend_symOfDiff d hlo hhi]
  unfold recon
  split <;> omega

/-- R4: on the `WriteBits` image of the model's symbol for the 16-bit difference `d` (Huffman
    code of the category, then the additional bits), the specification's difference decoder
    (DECODE, RECEIVE, EXTEND) consumes exactly those bits and returns EXTEND of the symbol -/
theorem decodeDiff_sym (bits : List Nat) (values : Array Nat) (hv : ValidTable bits values = true)
    (d : Int) (hlo : -32768 ≤ d) (hhi : d ≤ 32767) (hm : (symOfDiff d).1 ∈ values.toList)
    (rest : List Bool) :
    decodeDiff (codeTable bits values.toList)
      ((symWrite (buildHuffmanCodes bits values) (symOfDiff d)).flatMap (fun w => bitsOf w.1 w.2) ++ rest)
      = some (extend (symOfDiff d).2 (symOfDiff d).1, rest) := by
  have hx := symOfDiff_ok d hlo hhi
  generalize symOfDiff d = x at hx hm ⊢
  obtain ⟨cat, amp⟩ := x
  obtain ⟨h16, hamp, hz⟩ := hx
  simp only at h16 hamp hz hm ⊢
  obtain ⟨c, len, hc, _, _, _⟩ := codes_wf bits values hv cat hm
  by_cases hcat : 0 < cat ∧ cat ≠ 16
  · have hb : (symWrite (buildHuffmanCodes bits values) (cat, amp)).flatMap (fun w => bitsOf w.1 w.2) ++ rest
        = bitsOf c len ++ (bitsOf amp cat ++ rest) := by
      simp [symWrite, hc, hcat]
    rw [hb]
    unfold decodeDiff
    rw [decodeSym_code bits values hv cat hm c len hc]
    simp only
    rw [if_neg (by omega), if_neg (by omega), receive_bits amp cat hamp]
  · have hb : (symWrite (buildHuffmanCodes bits values) (cat, amp)).flatMap (fun w => bitsOf w.1 w.2) ++ rest
        = bitsOf c len ++ rest := by
      simp [symWrite, hc, hcat]
    have he : cat = 0 ∨ cat = 16 := by omega
    have ha : amp = 0 := hz he
    subst ha
    rw [hb]
    unfold decodeDiff
    rw [decodeSym_code bits values hv cat hm c len hc]
    simp only
    rw [if_neg (by omega), if_pos he]

/-! ## R5: one sample -/

/-- R5: reconstruction (prediction + difference modulo 2^16) from the model's difference
    `encDiff sample p` returns the sample, for ANY prediction `p` and any 16-bit sample -/
theorem recon_sample (sample p : Int) (hs : 0 ≤ sample ∧ sample < 65536) :
    recon p (extend (symOfDiff (encDiff sample p)).2 (symOfDiff (encDiff sample p)).1) = sample := by
  have hr := encDiff_range' sample p
  rw [recon_extend p _ hr.1 hr.2]
  simp only [encDiff, Gen.JpegLossless.losslessDifference, Go.wrap16]
  omega

/-! ## R6: the scan -/

/-- the scan position of loop index `k` (position k: pixel k / nc in raster order, component k % nc) -/
def posOf (w nc k : Nat) : Pos := (k / nc / w, k / nc % w, k % nc)

theorem flatMap_range_map {α : Type} (b : Nat) (f : Nat → Nat → α) : ∀ a : Nat,
    (List.range a).flatMap (fun i => (List.range b).map (f i)) =
      (List.range (a * b)).map (fun k => f (k / b) (k % b))
  | 0 => by simp
  | a + 1 => by
    rw [List.range_succ, List.flatMap_append, flatMap_range_map b f a, Nat.succ_mul, List.range_add,
      List.map_append, List.map_map]
    simp only [List.flatMap_cons, List.flatMap_nil, List.append_nil]
    congr 1
    apply List.map_congr_left
    intro x hx
    have hx' : x < b := List.mem_range.1 hx
    have hb : 0 < b := by omega
    simp only [Function.comp]
    rw [Nat.mul_comm a b, Nat.mul_add_div hb, Nat.mul_add_mod, Nat.div_eq_of_lt hx', Nat.mod_eq_of_lt hx',
      Nat.add_zero]

/-- the enumeration lemma: the three nested loops visit `posOf 0, posOf 1, …` -/
theorem scanOrder_eq (w h nc : Nat) :
    scanOrder w h nc = (List.range (h * (w * nc))).map (posOf w nc) := by
  unfold scanOrder
  have inner : ∀ row : Nat, ((List.range w).flatMap fun col => (List.range nc).map fun c => (row, col, c))
      = (List.range (w * nc)).map (fun k => (row, k / nc, k % nc)) := by
    intro row
    exact flatMap_range_map nc (fun col c => (row, col, c)) w
  simp only [inner]
  rw [flatMap_range_map (w * nc) (fun row k => (row, k / nc, k % nc)) h]
  apply List.map_congr_left
  intro K _
  simp only [posOf]
  rw [Nat.mod_mul_left_div_self, Nat.mod_mul_left_mod, Nat.div_div_eq_div_mul, Nat.mul_comm nc w]

theorem scanSyms_eq (sv1 : Bool) (P pred w h nc : Nat) (s : Planes) :
    scanSyms sv1 P pred w h nc s =
      (List.range (h * (w * nc))).map (fun k => symOf sv1 P pred w s (posOf w nc k)) := by
  simp only [scanSyms, scanOrder_eq, List.map_map, Function.comp_def]

/-- the planes decoded before loop index `i`: component `c` has the samples of the pixels
    `0 .. i / nc` (one more if `c` has already been visited in the current pixel) -/
def planesAt (s : Planes) (nc i : Nat) : List (List Int) :=
  (List.range nc).map fun c => (List.range (i / nc + (if c < i % nc then 1 else 0))).map (cell s c)

theorem succ_divmod (nc i : Nat) (hnc : 0 < nc) :
    (i % nc + 1 < nc ∧ (i + 1) / nc = i / nc ∧ (i + 1) % nc = i % nc + 1) ∨
    (i % nc + 1 = nc ∧ (i + 1) / nc = i / nc + 1 ∧ (i + 1) % nc = 0) := by
  have hr : i % nc < nc := Nat.mod_lt _ hnc
  have hi : nc * (i / nc) + i % nc = i := Nat.div_add_mod i nc
  by_cases h : i % nc + 1 < nc
  · left
    have e : i + 1 = nc * (i / nc) + (i % nc + 1) := by omega
    refine ⟨h, ?_, ?_⟩
    · rw [e, Nat.mul_add_div hnc, Nat.div_eq_of_lt h, Nat.add_zero]
    · rw [e, Nat.mul_add_mod, Nat.mod_eq_of_lt h]
  · right
    have h' : i % nc + 1 = nc := by omega
    have e : i + 1 = nc * (i / nc + 1) := by rw [Nat.mul_add, Nat.mul_one]; omega
    refine ⟨h', ?_, ?_⟩
    · rw [e, Nat.mul_div_cancel_left _ hnc]
    · rw [e, Nat.mul_mod_right]

theorem planesAt_zero (s : Planes) (nc : Nat) : planesAt s nc 0 = List.replicate nc [] := by
  simp [planesAt, List.map_const']

theorem planesAt_full (s : Planes) (nc n : Nat) (hnc : 0 < nc) :
    planesAt s nc (n * nc) = (List.range nc).map fun c => (List.range n).map (cell s c) := by
  simp [planesAt, Nat.mul_div_cancel _ hnc]

theorem planesAt_get (s : Planes) (nc i : Nat) (hnc : 0 < nc) :
    (planesAt s nc i)[i % nc]? = some ((List.range (i / nc)).map (cell s (i % nc))) := by
  have hr : i % nc < nc := Nat.mod_lt _ hnc
  simp [planesAt, hr]

theorem planesAt_succ (s : Planes) (nc i : Nat) (hnc : 0 < nc) :
    (planesAt s nc i).set (i % nc)
        ((List.range (i / nc)).map (cell s (i % nc)) ++ [cell s (i % nc) (i / nc)])
      = planesAt s nc (i + 1) := by
  have hr : i % nc < nc := Nat.mod_lt _ hnc
  apply List.ext_getElem?
  intro c
  rw [List.getElem?_set]
  simp only [planesAt, List.length_map, List.length_range, List.getElem?_map]
  by_cases hc : c < nc
  · simp only [List.getElem?_range hc, Option.map_some, hr, if_true]
    by_cases hcr : i % nc = c
    · subst hcr
      simp only [if_true, Option.some.injEq]
      have e : (i + 1) / nc + (if i % nc < (i + 1) % nc then 1 else 0) = i / nc + 1 := by
        rcases succ_divmod nc i hnc with ⟨h1, h2, h3⟩ | ⟨h1, h2, h3⟩
        · rw [h2, h3, if_pos (by omega)]
        · rw [h2, h3, if_neg (by omega)]
      rw [e, List.range_succ, List.map_append]
      rfl
    · simp only [hcr, if_false, Option.some.injEq]
      have e : (i + 1) / nc + (if c < (i + 1) % nc then 1 else 0) = i / nc + (if c < i % nc then 1 else 0) := by
        rcases succ_divmod nc i hnc with ⟨h1, h2, h3⟩ | ⟨h1, h2, h3⟩
        · rw [h2, h3]
          by_cases hlt : c < i % nc
          · rw [if_pos hlt, if_pos (by omega)]
          · rw [if_neg hlt, if_neg (by omega)]
        · rw [h2, h3, if_neg (by omega), if_pos (by omega)]
      rw [e]
  · have hne : ¬ i % nc = c := by omega
    have hn : (List.range nc)[c]? = none := by simp; omega
    simp only [hne, if_false, hn, Option.map_none]

theorem getD_map_range (f : Nat → Int) (n j : Nat) :
    ((List.range n).map f).getD j 0 = if j < n then f j else 0 := by
  by_cases h : j < n
  · simp [List.getD, h]
  · simp [List.getD, h]

/-- `px` only reads Ra when col > 0, Rb when row > 0, Rc when both -/
theorem px_congr (P Pt sel row col : Nat) (a b c a' b' c' : Int)
    (ha : col > 0 → a = a') (hb : row > 0 → b = b') (hc : row > 0 ∧ col > 0 → c = c') :
    px P Pt sel row col a b c = px P Pt sel row col a' b' c' := by
  unfold px
  by_cases hr : row = 0 <;> by_cases hcl : col = 0
  · simp [hr, hcl]
  · simp only [hr, hcl, if_true, if_false]; exact ha (by omega)
  · simp only [hr, hcl, if_true, if_false]; exact hb (by omega)
  · simp only [hr, hcl, if_false]
    rw [ha (by omega), hb (by omega), hc ⟨by omega, by omega⟩]

/-- on a conforming class the model's prediction at (row, col) is the standard's Px -/
theorem predOf_px (sv1 : Bool) (P pred w h : Nat) (s : Planes) (hP : 1 ≤ P)
    (hpred : 1 ≤ pred ∧ pred ≤ 7) (hsv1 : sv1 = true → pred = 1)
    (row col c : Nat) (hrow : row < h) (hcol : col < w) :
    predOf sv1 P pred w s (row, col, c) =
      px P 0 pred row col (nbOf s c w row col).left (nbOf s c w row col).up (nbOf s c w row col).upLeft := by
  cases sv1 with
  | true =>
    have hp1 : pred = 1 := hsv1 rfl
    subst hp1
    simp only [predOf, if_true]
    exact sv1Predicted_conforms P row col _ hP
  | false =>
    simp only [predOf, Bool.false_eq_true, if_false]
    exact encPredicted_conforms P pred row col _ hP hpred

/-- the prediction the specification's decoder forms at pixel `pix` from the already decoded
    prefix of the plane is the model's prediction from the source planes -/
theorem px_plane (sv1 : Bool) (P pred w h : Nat) (s : Planes) (hP : 1 ≤ P)
    (hpred : 1 ≤ pred ∧ pred ≤ 7) (hsv1 : sv1 = true → pred = 1)
    (pix c : Nat) (hpix : pix < w * h) :
    px P 0 pred (pix / w) (pix % w)
        (((List.range pix).map (cell s c)).getD (pix - 1) 0)
        (((List.range pix).map (cell s c)).getD (pix - w) 0)
        (((List.range pix).map (cell s c)).getD (pix - w - 1) 0)
      = predOf sv1 P pred w s (pix / w, pix % w, c) := by
  have hw : 0 < w := by
    rcases Nat.eq_zero_or_pos w with h0 | h0
    · subst h0; simp at hpix
    · exact h0
  have hrow : pix / w < h := Nat.div_lt_of_lt_mul hpix
  have hcol : pix % w < w := Nat.mod_lt _ hw
  have hdm : w * (pix / w) + pix % w = pix := Nat.div_add_mod pix w
  rw [predOf_px sv1 P pred w h s hP hpred hsv1 _ _ c hrow hcol]
  generalize hR : pix / w = row at *
  generalize hC : pix % w = col at *
  rw [Nat.mul_comm] at hdm
  simp only [getD_map_range, nbOf]
  apply px_congr
  · intro hc0
    rw [if_pos (by omega), if_pos hc0]
    congr 1; omega
  · intro hr0
    obtain ⟨r', rfl⟩ : ∃ r', row = r' + 1 := ⟨row - 1, by omega⟩
    rw [Nat.succ_mul] at hdm
    rw [if_pos (by omega), if_pos hr0]
    congr 1
    simp only [Nat.add_sub_cancel]
    omega
  · intro ⟨hr0, hc0⟩
    obtain ⟨r', rfl⟩ : ∃ r', row = r' + 1 := ⟨row - 1, by omega⟩
    rw [Nat.succ_mul] at hdm
    rw [if_pos (by omega), if_pos ⟨hr0, hc0⟩]
    congr 1
    simp only [Nat.add_sub_cancel]
    omega

theorem decodeSamples_step (P Pt sel w nc : Nat) (tbls : List (List (Nat × Nat × Nat))) (n i : Nat)
    (planes : List (List Int)) (bs : List Bool) (tbl : List (Nat × Nat × Nat)) (plane : List Int)
    (d : Int) (rest : List Bool)
    (ht : tbls[i % nc]? = some tbl) (hp : planes[i % nc]? = some plane)
    (hd : decodeDiff tbl bs = some (d, rest)) :
    decodeSamples P Pt sel w nc tbls (n + 1) i planes bs =
      decodeSamples P Pt sel w nc tbls n (i + 1)
        (planes.set (i % nc) (plane ++ [recon (px P Pt sel (i / nc / w) (i / nc % w)
          (plane.getD (i / nc - 1) 0) (plane.getD (i / nc - w) 0) (plane.getD (i / nc - w - 1) 0)) d]))
        rest := by
  simp only [decodeSamples, ht, hp, hd]

/-- R6, inductive form: from loop index `i` on, over the remaining `n` positions -/
theorem decodeSamples_from (sv1 : Bool) (P pred w h nc : Nat) (bits : List Nat) (values : Array Nat)
    (s : Planes) (hv : ValidTable bits values = true) (hP : 2 ≤ P ∧ P ≤ 16)
    (hpred : 1 ≤ pred ∧ pred ≤ 7) (hsv1 : sv1 = true → pred = 1)
    (hnc : 0 < nc) (hrng : InRange P s)
    (hm : ∀ k, k < w * h * nc → (symOf sv1 P pred w s (posOf w nc k)).1 ∈ values.toList)
    (pad : List Bool) :
    ∀ (n i : Nat), i + n = w * h * nc →
      decodeSamples P 0 pred w nc (List.replicate nc (codeTable bits values.toList)) n i (planesAt s nc i)
        ((symWrites (buildHuffmanCodes bits values)
            ((List.range' i n).map (fun k => symOf sv1 P pred w s (posOf w nc k)))).flatMap
          (fun x => bitsOf x.1 x.2) ++ pad)
      = some (planesAt s nc (w * h * nc)) := by
  intro n
  induction n with
  | zero =>
    intro i hi
    simp only [Nat.add_zero] at hi
    subst hi
    simp [decodeSamples]
  | succ n ih =>
    intro i hi
    have hilt : i < w * h * nc := by omega
    have hr : i % nc < nc := Nat.mod_lt _ hnc
    have hpix : i / nc < w * h := Nat.div_lt_of_lt_mul (by rw [Nat.mul_comm]; exact hilt)
    have hw : 0 < w := by
      rcases Nat.eq_zero_or_pos w with h0 | h0
      · subst h0; simp at hpix
      · exact h0
    have hdm : i / nc / w * w + i / nc % w = i / nc := by
      rw [Nat.mul_comm]; exact Nat.div_add_mod _ _
    -- the symbol at this position
    have hsym : symOf sv1 P pred w s (posOf w nc i) =
        symOfDiff (encDiff (cell s (i % nc) (i / nc)) (predOf sv1 P pred w s (i / nc / w, i / nc % w, i % nc))) := by
      simp only [symOf, diffOf, posOf, hdm]
    have hdr := encDiff_range' (cell s (i % nc) (i / nc)) (predOf sv1 P pred w s (i / nc / w, i / nc % w, i % nc))
    have hmem := hm i hilt
    rw [hsym] at hmem
    rw [List.range'_succ, List.map_cons, hsym]
    simp only [symWrites, List.flatMap_cons, List.flatMap_append, List.append_assoc]
    have hd := decodeDiff_sym bits values hv _ hdr.1 hdr.2 hmem
      (((List.range' (i + 1) n).map (fun k => symOf sv1 P pred w s (posOf w nc k))).flatMap
          (symWrite (buildHuffmanCodes bits values)) |>.flatMap (fun x => bitsOf x.1 x.2) |> (· ++ pad))
    have ht : (List.replicate nc (codeTable bits values.toList))[i % nc]? = some (codeTable bits values.toList) := by
      simp [hr]
    rw [decodeSamples_step P 0 pred w nc _ n i _ _ _ _ _ _ ht (planesAt_get s nc i hnc) hd]
    rw [px_plane sv1 P pred w h s (by omega) hpred hsv1 (i / nc) (i % nc) hpix]
    have hs := hrng (i % nc) (i / nc)
    have hf := pow_facts (P : Int) (by omega) (by omega)
    simp only at hf
    rw [recon_sample _ _ ⟨hs.1, by omega⟩, planesAt_succ s nc i hnc]
    have := ih (i + 1) (by omega)
    simp only [symWrites] at this
    exact this

/-- R6: the specification's decoding loop, run over the entropy-coded segment the model's
    `encodeScan` produces (`encodeScan_ok`: `writeAll {} (symWrites codes (scanSyms …))`), returns
    the source planes, on every conforming (predictor, geometry) class -/
theorem decodeSamples_scan (sv1 : Bool) (P pred w h nc : Nat) (bits : List Nat) (values : Array Nat)
    (s : Planes) (hv : ValidTable bits values = true) (hP : 2 ≤ P ∧ P ≤ 16)
    (hpred : 1 ≤ pred ∧ pred ≤ 7) (hsv1 : sv1 = true → pred = 1)
    (hnc : 0 < nc) (hrng : InRange P s)
    (hcat : ∀ k ∈ emittedCats sv1 P pred w h nc s, k ∈ values.toList) :
    decodeSamples P 0 pred w nc (List.replicate nc (codeTable bits values.toList)) (w * h * nc) 0
        (List.replicate nc [])
        (ecsBits (writeAll {} (symWrites (buildHuffmanCodes bits values) (scanSyms sv1 P pred w h nc s))))
      = some ((List.range nc).map fun c => (List.range (w * h)).map fun i => cell s c i) := by
  have hN : h * (w * nc) = w * h * nc := by rw [← Nat.mul_assoc, Nat.mul_comm h w]
  have hm : ∀ k, k < w * h * nc → (symOf sv1 P pred w s (posOf w nc k)).1 ∈ values.toList := by
    intro k hk
    apply hcat
    simp only [emittedCats, scanSyms_eq, List.map_map, List.mem_map, List.mem_range, hN]
    exact ⟨k, hk, rfl⟩
  have hok : ∀ x ∈ scanSyms sv1 P pred w h nc s, SymOk x ∧ x.1 ∈ values.toList := by
    intro x hx
    simp only [scanSyms_eq, List.mem_map, List.mem_range, hN] at hx
    obtain ⟨k, hk, rfl⟩ := hx
    exact ⟨symOfDiff_ok _ (encDiff_range' _ _).1 (encDiff_range' _ _).2, hm k hk⟩
  have hw := symWrites_width bits values hv _ hok
  obtain ⟨pad, _, _, hbits⟩ := ecsBits_writeAll _ hw
  rw [hbits, scanSyms_eq, hN, List.range_eq_range']
  have := decodeSamples_from sv1 P pred w h nc bits values s hv hP hpred hsv1 hnc hrng hm pad
    (w * h * nc) 0 (by omega)
  rw [planesAt_zero, planesAt_full s nc (w * h) hnc] at this
  exact this

/-! ## R7: the stream theorem -/

theorem stuffOk_eq_noMarker : ∀ (n : Nat) (l : List Nat), l.length ≤ n →
    StuffOk l = StrictJpeg.NoMarker l := by
  intro n
  induction n with
  | zero =>
    intro l hl
    have : l = [] := List.eq_nil_of_length_eq_zero (by omega)
    subst this
    simp [StuffOk, StrictJpeg.NoMarker]
  | succ n ih =>
    intro l hl
    match l with
    | [] => simp [StuffOk, StrictJpeg.NoMarker]
    | [b] => simp [StuffOk, StrictJpeg.NoMarker]
    | b :: x :: rest =>
      simp only [List.length_cons] at hl
      have h1 := ih rest (by omega)
      have h2 := ih (x :: rest) (by simp only [List.length_cons]; omega)
      simp only [StuffOk, StrictJpeg.NoMarker, h1]
      rw [← h2]

theorem mapM_const_some {α β : Type} (f : α → Option β) (b : β) : ∀ (l : List α),
    (∀ x ∈ l, f x = some b) → l.mapM f = some (List.replicate l.length b)
  | [], _ => rfl
  | a :: l, h => by
    rw [List.mapM_cons, h a (by simp), mapM_const_some f b l (fun x hx => h x (by simp [hx]))]
    rfl

/-- R7 (C13, stream level).  The independent T.81 decoder `specDecode` (Annex B strict reader,
    Annex C tables, F.2.2.3 DECODE, H.1.2.1 prediction, modulo-2^16 reconstruction), applied to
    the complete stream of the model encoder — `losslessHeader` / `sv1Header`, the
    entropy-coded segment of `encodeScan` (`encodeScan_ok`), EOI — returns exactly the source
    image, for every predictor / geometry class on which the code's edge rule coincides with
    H.1.2.1. -/
theorem specDecode_model_stream (sv1 : Bool) (P pred w h nc : Nat) (tb : JpegC.HuffTable)
    (s : Planes) (hdr scan : List Nat)
    (hw : 1 ≤ w ∧ w ≤ 65535) (hh : 1 ≤ h ∧ h ≤ 65535) (hnc : nc = 1 ∨ nc = 3)
    (hP : 2 ≤ P ∧ P ≤ 16) (hpred : 1 ≤ pred ∧ pred ≤ 7) (hsv1 : sv1 = true → pred = 1)
    (htb : JpegC.TableOk tb)
    (hv : ValidTable (tb.bits.map Int.toNat) tb.values.toArray = true)
    (hcat : ∀ k ∈ emittedCats sv1 P pred w h nc s, k ∈ tb.values)
    (_hsz : Sized w h nc s) (hrng : InRange P s)
    (hhdr : (if sv1 then JpegC.sv1Header w h nc P tb else JpegC.losslessHeader w h nc P pred tb) = .ok hdr)
    (hscan : scan = writeAll {} (symWrites (buildHuffmanCodes (tb.bits.map Int.toNat) tb.values.toArray)
        (scanSyms sv1 P pred w h nc s)))
    (hne : scan ≠ []) :
    specDecode (hdr ++ scan ++ [0xFF, 0xD9]) =
      some { width := w, height := h, precision := P,
             planes := (List.range nc).map fun c => (List.range (w * h)).map fun i => cell s c i } := by
  have hnc0 : 0 < nc := by omega
  -- the header is `losslessHeader … pred` in both cases
  have hhdr' : JpegC.losslessHeader w h nc P pred tb = .ok hdr := by
    cases sv1 with
    | false => simpa using hhdr
    | true =>
      have : pred = 1 := hsv1 rfl
      subst this
      simpa [JpegC.sv1Header] using hhdr
  -- table as Nat lists
  have hbits : tb.bits.map JpegC.byteOf = tb.bits.map Int.toNat := by
    apply List.map_congr_left
    intro b hb
    have := htb.range b hb
    unfold JpegC.byteOf; omega
  have hvl : tb.values.toArray.toList = tb.values := by simp
  have hcat' : ∀ k ∈ emittedCats sv1 P pred w h nc s, k ∈ tb.values.toArray.toList := by
    rw [hvl]; exact hcat
  -- the entropy-coded segment is marker-free
  have hok : ∀ x ∈ scanSyms sv1 P pred w h nc s, SymOk x ∧ x.1 ∈ tb.values.toArray.toList := by
    intro x hx
    simp only [scanSyms, List.mem_map] at hx
    obtain ⟨p, hp, rfl⟩ := hx
    refine ⟨symOfDiff_ok _ (encDiff_range' _ _).1 (encDiff_range' _ _).2, hcat' _ ?_⟩
    simp only [emittedCats, scanSyms, List.map_map, List.mem_map]
    exact ⟨p, hp, rfl⟩
  have hst : StrictJpeg.NoMarker scan = true := by
    rw [← stuffOk_eq_noMarker scan.length scan (Nat.le_refl _), hscan]
    exact writeAll_stuffOk _ (symWrites_width _ _ hv _ hok)
  -- C16: the strict reader accepts the frame and recovers the header fields
  obtain ⟨bytes, r, hbytes, hparse, hframe, hsh, _, hdht, hlen, hse, _⟩ :=
    JpegC.lossless_frame (w : Int) (h : Int) (P : Int) (pred : Int) nc tb scan (by omega) (by omega) hnc
      (by omega) (by omega) htb hst hne
  rw [hhdr'] at hbytes
  simp only [JpegC.withScan, JpegC.Outcome.map, JpegC.mEOI, JpegC.Outcome.ok.injEq] at hbytes
  subst hbytes
  simp only [Int.toNat_natCast] at hframe hsh
  have hhe : r.hdrEnd = hdr.length := by
    simp only [List.length_append, List.length_cons, List.length_nil] at hlen
    omega
  have hslice : ((hdr ++ scan ++ [0xFF, 0xD9]).drop r.hdrEnd).take (r.scanEnd - r.hdrEnd) = scan := by
    have e : r.scanEnd - r.hdrEnd = scan.length := by omega
    rw [e, hhe, List.append_assoc, List.drop_left, List.take_left]
  have hany : (JpegC.comps111 nc).any (fun c => c.h ≠ 1 ∨ c.v ≠ 1) = false := by
    simp [JpegC.comps111]
  have hlenc : (JpegC.comps111 nc).length = nc := by simp [JpegC.comps111]
  have htbls : ((List.range nc).map (fun i => (⟨i + 1, 0, 0⟩ : StrictJpeg.Sel))).mapM
      (fun sl => tableAt r.dht sl.td) =
      some (List.replicate nc (codeTable (tb.bits.map Int.toNat) tb.values.toArray.toList)) := by
    have := mapM_const_some (fun sl : StrictJpeg.Sel => tableAt r.dht sl.td)
      (codeTable (tb.bits.map Int.toNat) tb.values.toArray.toList)
      ((List.range nc).map (fun i => (⟨i + 1, 0, 0⟩ : StrictJpeg.Sel))) (by
        intro x hx
        simp only [List.mem_map] at hx
        obtain ⟨i, _, rfl⟩ := hx
        simp [tableAt, hdht, hbits])
    simpa using this
  have hdec := decodeSamples_scan sv1 P pred w h nc (tb.bits.map Int.toNat) tb.values.toArray s hv hP
    hpred hsv1 hnc0 hrng hcat'
  rw [← hscan] at hdec
  unfold specDecode
  simp only [hparse, hslice]
  simp only [hframe, hsh, hany, hlenc, htbls, hdec]
  simp

/-- the entropy-coded segment of a non-empty symbol sequence is not empty (every Huffman code
    has at least one bit) -/
theorem writeAll_symWrites_ne_nil (bits : List Nat) (values : Array Nat) (hv : ValidTable bits values = true)
    (syms : List (Nat × Nat)) (hok : ∀ x ∈ syms, SymOk x ∧ x.1 ∈ values.toList) (hne : syms ≠ []) :
    writeAll {} (symWrites (buildHuffmanCodes bits values) syms) ≠ [] := by
  intro h0
  obtain ⟨pad, _, _, hb⟩ := ecsBits_writeAll _ (symWrites_width bits values hv syms hok)
  rw [h0] at hb
  match syms, hne, hok with
  | x :: xs, _, hok =>
    obtain ⟨c, len, hc, hl, _, _⟩ := codes_wf bits values hv x.1 (hok x (by simp)).2
    obtain ⟨m, rfl⟩ : ∃ m, len = m + 1 := ⟨len - 1, by omega⟩
    simp [ecsBits, unstuffEcs, symWrites, symWrite, hc, bitsOf] at hb

/-- R7, end to end: the model encoder's scan (`encodeScan` succeeds) inside the model
    container is decoded by the independent specification to the source image -/
theorem specDecode_encodeScan (sv1 : Bool) (P pred w h nc : Nat) (tb : JpegC.HuffTable)
    (s : Planes) (hdr : List Nat)
    (hw : 1 ≤ w ∧ w ≤ 65535) (hh : 1 ≤ h ∧ h ≤ 65535) (hnc : nc = 1 ∨ nc = 3)
    (hP : 2 ≤ P ∧ P ≤ 16) (hpred : 1 ≤ pred ∧ pred ≤ 7) (hsv1 : sv1 = true → pred = 1)
    (htb : JpegC.TableOk tb)
    (hv : ValidTable (tb.bits.map Int.toNat) tb.values.toArray = true)
    (hcat : ∀ k ∈ emittedCats sv1 P pred w h nc s, k ∈ tb.values)
    (hsz : Sized w h nc s) (hrng : InRange P s)
    (hhdr : (if sv1 then JpegC.sv1Header w h nc P tb else JpegC.losslessHeader w h nc P pred tb) = .ok hdr) :
    ∃ scan, encodeScan sv1 P pred w h nc
        (buildHuffmanCodes (tb.bits.map Int.toNat) tb.values.toArray) s = .ok scan ∧
      specDecode (hdr ++ scan ++ [0xFF, 0xD9]) =
        some { width := w, height := h, precision := P,
               planes := (List.range nc).map fun c => (List.range (w * h)).map fun i => cell s c i } := by
  have hcat' : ∀ k ∈ emittedCats sv1 P pred w h nc s, k ∈ tb.values.toArray.toList := by
    simpa using hcat
  obtain ⟨t, ht, _, _⟩ := build_ok _ _ hv
  obtain ⟨scan, henc, hscan, _, _⟩ := lossless_scan_roundtrip' sv1 P pred w h nc _ _ t s hP hv ht hcat' hsz hrng
  refine ⟨scan, henc, ?_⟩
  have hok : ∀ x ∈ scanSyms sv1 P pred w h nc s, SymOk x ∧ x.1 ∈ tb.values.toArray.toList := by
    intro x hx
    simp only [scanSyms, List.mem_map] at hx
    obtain ⟨p, hp, rfl⟩ := hx
    refine ⟨symOfDiff_ok _ (encDiff_range' _ _).1 (encDiff_range' _ _).2, hcat' _ ?_⟩
    simp only [emittedCats, scanSyms, List.map_map, List.mem_map]
    exact ⟨p, hp, rfl⟩
  have hne : scanSyms sv1 P pred w h nc s ≠ [] := by
    apply List.ne_nil_of_length_pos
    rw [scanSyms_eq, List.length_map, List.length_range]
    exact Nat.mul_pos (by omega) (Nat.mul_pos (by omega) (by omega))
  exact specDecode_model_stream sv1 P pred w h nc tb s hdr scan hw hh hnc hP hpred hsv1 htb hv hcat
    hsz hrng hhdr hscan (by rw [hscan]; exact writeAll_symWrites_ne_nil _ _ hv _ hok hne)

/-! ## R8: the former first-line / line-start deviation (regression)

  Before fix 946feeb jpeg/lossless applied the selected predictor on the first line and at line
  starts with 2^(P-1) stand-ins; the witnesses of that deviation (P = 8; first line, col 1, Ra = 10;
  second line, col 0, Rb = 10) now agree with H.1.2.1 for every predictor. -/

example : ∀ sel ∈ [1, 2, 3, 4, 5, 6, 7],
    encPredicted 8 (sel : Nat) 0 1 ⟨10, 0, 0⟩ = px 8 0 sel 0 1 10 0 0 ∧
    encPredicted 8 (sel : Nat) 1 0 ⟨0, 10, 0⟩ = px 8 0 sel 1 0 0 10 0 := by decide

end T81H
