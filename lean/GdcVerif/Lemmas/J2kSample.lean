import GdcVerif.Model.J2kSample
import GdcVerif.Lemmas.GoBits
/-! Lemmas for C04: sample (de)serialisation, header codes, bit writer. -/
namespace J2k

theorem Go_or_nat (a c : Nat) (ha : a < 2^63) (hc : c < 2^63) : Go.or a c = ((a ||| c : Nat) : Int) := by
  unfold Go.or
  have hlt : a ||| c < 2 ^ 63 := Nat.or_lt_two_pow ha hc
  have e1 : ((a : Int) % ((2 ^ 64 : Nat) : Int)).toNat = a := by omega
  have e2 : ((c : Int) % ((2 ^ 64 : Nat) : Int)).toNat = c := by omega
  rw [BitVec.toInt_eq_toNat_of_lt]
  · rw [BitVec.toNat_or, BitVec.toNat_ofInt, BitVec.toNat_ofInt, e1, e2]
  · rw [BitVec.toNat_or, BitVec.toNat_ofInt, BitVec.toNat_ofInt, e1, e2]; omega

/-- `lo | hi<<8` reassembles a 16-bit value from its little-endian bytes -/
theorem Go_or_lohi (u : Int) (h0 : 0 ≤ u) (h1 : u < 65536) : Go.or (u % 256) (Go.shl (u / 256) 8) = u := by
  have ea : u % 256 = ((u % 256).toNat : Int) := by omega
  have eb : Go.shl (u / 256) 8 = (((u / 256).toNat <<< 8 : Nat) : Int) := by
    unfold Go.shl; rw [Nat.shiftLeft_eq]; simp; omega
  rw [ea, eb, Go_or_nat _ _ (by omega) (by rw [Nat.shiftLeft_eq]; omega), Nat.or_comm,
    ← Nat.shiftLeft_add_eq_or_of_lt (by omega : (u % 256).toNat < 2 ^ 8), Nat.shiftLeft_eq]
  omega

theorem shl_one (k : Nat) : Go.shl 1 (k : Int) = 2 ^ k := by unfold Go.shl; simp

theorem shr8 (v : Int) : Go.shr v 8 = v / 256 := by
  unfold Go.shr; show v >>> (8 : Nat) = _; rw [Int.shiftRight_eq_div_pow]; rfl

theorem two_pow_le (a b : Nat) (h : a ≤ b) : (2:Int)^a ≤ 2^b := by
  have h1 : (2:Nat)^a ≤ 2^b := Nat.pow_le_pow_right (by decide) h
  have : ((2^a : Nat) : Int) ≤ ((2^b : Nat) : Int) := Int.ofNat_le.mpr h1
  simpa using this

theorem shl_one_int (P : Int) (h : 0 ≤ P) : Go.shl 1 P = 2 ^ P.toNat := by unfold Go.shl; simp

theorem sample_roundtrip' (P : Int) (signed : Bool) (s : Int) (hP1 : 1 ≤ P) (hP2 : P ≤ 16)
    (hr : inRange P signed s) :
    sampleRoundTrip P signed s = container P s := by
  -- M = 2^P, Hf = 2^(P-1)
  have hk1 : 1 ≤ P.toNat := by omega
  have hM2 : (2 : Int) ^ P.toNat = 2 * 2 ^ (P.toNat - 1) := by
    have : P.toNat = (P.toNat - 1) + 1 := by omega
    rw [this, Int.pow_succ]; simp; omega
  have hHfpos : (0 : Int) < 2 ^ (P.toNat - 1) := Int.pow_pos (by decide)
  have hMle : (2 : Int) ^ P.toNat ≤ 65536 := by
    have : (2 : Int) ^ P.toNat ≤ 2 ^ 16 := two_pow_le _ _ (by omega)
    simpa using this
  have hM8 : P ≤ 8 → (2 : Int) ^ P.toNat ≤ 256 := by
    intro h
    have : (2 : Int) ^ P.toNat ≤ 2 ^ 8 := two_pow_le _ _ (by omega)
    simpa using this
  have hM9 : ¬ P ≤ 8 → (512 : Int) ≤ 2 ^ P.toNat := by
    intro h
    have : (2 : Int) ^ 9 ≤ 2 ^ P.toNat := two_pow_le _ _ (by omega)
    simpa using this
  have hsh1 : Go.shl 1 (P - 1) = 2 ^ (P.toNat - 1) := by
    rw [shl_one_int _ (by omega)]; congr 1; omega
  have hsh : Go.shl 1 P = 2 ^ P.toNat := shl_one_int _ (by omega)
  have hmask : ∀ u : Int, Go.and u (2 ^ P.toNat - 1) = u % 2 ^ P.toNat :=
    fun u => Go.and_mask u P.toNat (by omega)
  unfold inRange at hr
  -- u = s mod 2^P
  have hu_nonneg : 0 ≤ s → s < 2 ^ P.toNat → s % 2 ^ P.toNat = s := fun a b => Int.emod_eq_of_lt a b
  have hu_neg : s < 0 → -(2 ^ P.toNat) ≤ s → s % 2 ^ P.toNat = s + 2 ^ P.toNat := by
    intro a b
    have : s % 2 ^ P.toNat = (s + 2 ^ P.toNat) % 2 ^ P.toNat := by simp
    rw [this]; exact Int.emod_eq_of_lt (by omega) (by omega)
  have hidem : ∀ u : Int, 0 ≤ u → u < 2 ^ P.toNat → u % 2 ^ P.toNat = u := fun u a b => Int.emod_eq_of_lt a b
  unfold sampleRoundTrip container writeSample dcUnshift dcShift readSample Go.uwrap8
  simp only [shr8, hsh1, hsh, hmask]
  generalize hMd : (2 : Int) ^ P.toNat = M at *
  generalize hHd : (2 : Int) ^ (P.toNat - 1) = Hf at *
  cases signed <;> simp only [↓reduceIte, Bool.true_and, Bool.false_and, Bool.false_eq_true] at hr ⊢
  · -- unsigned
    have hu := hu_nonneg hr.1 hr.2
    rw [hu]
    by_cases h8 : P ≤ 8
    · have := hM8 h8
      simp only [h8, if_true]
      have c1 : ¬ (s - Hf + Hf < 0) := by omega
      have c2 : ¬ (s - Hf + Hf > M - 1) := by omega
      simp only [c1, c2, if_false]
      congr 1; omega
    · have := hM9 h8
      simp only [h8, if_false]
      rw [Go_or_lohi s (by omega) (by omega)]
      have c1 : ¬ (s - Hf + Hf < 0) := by omega
      have c2 : ¬ (s - Hf + Hf > M - 1) := by omega
      simp only [c1, c2, if_false]
      have e : s - Hf + Hf = s := by omega
      rw [e]
      congr 1; omega
  · -- signed
    by_cases hs : 0 ≤ s
    · have hu := hu_nonneg hs (by omega)
      rw [hu]
      have c1 : ¬ (s < -Hf) := by omega
      have c2 : ¬ (s > Hf - 1) := by omega
      have c3 : ¬ (s < 0) := by omega
      have c0 : ¬ (s ≥ Hf) := by omega
      by_cases h8 : P ≤ 8
      · have := hM8 h8
        simp only [h8, if_true]
        rw [hidem s hs (by omega)]
        simp only [c0, c1, c2, c3, if_false]
        congr 1; omega
      · have := hM9 h8
        simp only [h8, if_false]
        rw [Go_or_lohi s (by omega) (by omega)]
        simp only [c0, decide_false, Bool.false_eq_true, if_false, c1, c2, c3]
        congr 1; omega
    · have hneg : s < 0 := by omega
      have hu := hu_neg hneg (by omega)
      rw [hu]
      have c0 : s + M ≥ Hf := by omega
      have e : s + M - M = s := by omega
      have c1 : ¬ (s < -Hf) := by omega
      have c2 : ¬ (s > Hf - 1) := by omega
      by_cases h8 : P ≤ 8
      · have := hM8 h8
        simp only [h8, if_true]
        rw [hidem (s + M) (by omega) (by omega)]
        simp only [c0, if_true, e, c1, c2, if_false, hneg]
        congr 1; omega
      · have := hM9 h8
        simp only [h8, if_false]
        rw [Go_or_lohi (s + M) (by omega) (by omega)]
        simp only [c0, decide_true, if_true, e, c1, c2, if_false, hneg]
        congr 1; omega

end J2k
