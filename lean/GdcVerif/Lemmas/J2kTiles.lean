import GdcVerif.Model.J2kTiles
/-! Lemmas for C19 (tile geometry). -/
namespace J2k
open Gen.J2kTiles

/-! ### Go's `value & 1` -/

theorem Go_and_one (x : Int) : Go.and x 1 = x % 2 := by
  unfold Go.and
  have h1 : BitVec.ofInt 64 1 = 1#64 := by decide
  rw [h1, BitVec.and_one_eq_setWidth_ofBool_getLsbD]
  simp
  have hb : (BitVec.ofInt 64 x)[0] = decide (x % 2 = 1) := by
    rw [BitVec.getElem_eq_testBit_toNat, Nat.testBit_zero, BitVec.toNat_ofInt]
    have h2 : (x % ((2 ^ 64 : Nat) : Int)).toNat % 2 = (x % 2).toNat := by omega
    rw [h2]
    by_cases h : x % 2 = 1
    · simp [h]
    · have : x % 2 = 0 := by omega
      simp [this]
  rw [hb]
  by_cases h : x % 2 = 1
  · simp [h]
  · have : x % 2 = 0 := by omega
    simp [this]

theorem isEven_eq (x : Int) : isEven x = decide (x % 2 = 0) := by
  unfold isEven; rw [Go_and_one]; by_cases h : x % 2 = 0 <;> simp [h]

theorem isEvenT2_eq (x : Int) : Gen.J2kT2.isEven x = decide (x % 2 = 0) := by
  unfold Gen.J2kT2.isEven; rw [Go_and_one]; by_cases h : x % 2 = 0 <;> simp [h]

theorem nextCoord_eq (x : Int) : nextCoord x = (x + 1) / 2 := by
  unfold nextCoord Go.shr
  show (x + 1) >>> (1 : Nat) = _
  rw [Int.shiftRight_eq_div_pow]; rfl

theorem nextCoordT2_eq (x : Int) : Gen.J2kT2.nextCoord x = (x + 1) / 2 := by
  unfold Gen.J2kT2.nextCoord Go.shr
  show (x + 1) >>> (1 : Nat) = _
  rw [Int.shiftRight_eq_div_pow]; rfl

/-! ### division facts with a variable divisor -/

theorem tdiv_eq_ediv {a b : Int} (ha : 0 ≤ a) : Int.tdiv a b = a / b :=
  Int.tdiv_eq_ediv_of_nonneg ha

theorem tmod_eq_emod {a b : Int} (ha : 0 ≤ a) : Int.tmod a b = a % b :=
  Int.tmod_eq_emod_of_nonneg ha

/-- `a*T ≤ x < a*T + T` pins the quotient -/
theorem ediv_unique {x a T : Int} (hT : 0 < T) (h1 : a * T ≤ x) (h2 : x < a * T + T) : x / T = a := by
  have hx : x = (x - a * T) + a * T := by omega
  rw [hx, Int.add_mul_ediv_right _ _ (by omega : T ≠ 0)]
  have : (x - a * T) / T = 0 := Int.ediv_eq_zero_of_lt (by omega) (by omega)
  omega

theorem ediv_mul_le' (x : Int) {T : Int} (hT : 0 < T) : x / T * T ≤ x := by
  have h := Int.mul_ediv_add_emod x T
  have h2 := Int.emod_nonneg x (by omega : T ≠ 0)
  rw [Int.mul_comm T (x / T)] at h; omega

theorem lt_ediv_mul_add (x : Int) {T : Int} (hT : 0 < T) : x < x / T * T + T := by
  have h := Int.mul_ediv_add_emod x T
  have h2 := Int.emod_lt_of_pos x hT
  rw [Int.mul_comm T (x / T)] at h; omega

/-- number of tiles: `q < (n + t - 1)/t  ↔  q*t < n` for the quotient of an in-range coordinate -/
theorem quot_lt_numTiles {x n t : Int} (ht : 0 < t) (hx : x < n) :
    x / t < (n + t - 1) / t := by
  have h1 := ediv_mul_le' x ht
  -- x/t * t ≤ x ≤ n - 1, so (x/t + 1) * t ≤ n + t - 1
  have h2 : (x / t + 1) * t ≤ n + t - 1 := by
    have : (x / t + 1) * t = x / t * t + t := by rw [Int.add_mul]; omega
    omega
  have h3 : x / t + 1 ≤ (n + t - 1) / t := Int.le_ediv_of_mul_le ht h2
  omega

theorem numTiles_pos {n t : Int} (ht : 0 < t) (hn : 1 ≤ n) : 0 < (n + t - 1) / t := by
  have : (0 : Int) / t < (n + t - 1) / t := quot_lt_numTiles ht (by omega)
  simpa using this

/-- a tile column that exists starts inside the image: `q < (n+t-1)/t → q*t < n` -/
theorem tile_start_lt {q n t : Int} (ht : 0 < t) (hq : q < (n + t - 1) / t) : q * t < n := by
  have h1 : (q + 1) ≤ (n + t - 1) / t := by omega
  have h2 : (q + 1) * t ≤ (n + t - 1) / t * t := Int.mul_le_mul_of_nonneg_right h1 (by omega)
  have h3 := ediv_mul_le' (n + t - 1) ht
  have : (q + 1) * t = q * t + t := by rw [Int.add_mul]; omega
  omega

/-! ### tile bounds: unfolded forms -/

theorem encTileBounds_eq (W H TW TH idx : Int) (hW : 1 ≤ W) (hTW : 1 ≤ TW) (hidx : 0 ≤ idx) :
    encTileBounds W H TW TH idx =
      let nx := (W + TW - 1) / TW
      let x0 := idx % nx * TW
      let y0 := idx / nx * TH
      (x0, y0, (if x0 + TW > W then W else x0 + TW), (if y0 + TH > H then H else y0 + TH)) := by
  unfold encTileBounds Encoder.tileBounds encNumTiles encOf
  simp only []
  rw [tdiv_eq_ediv (by omega : 0 ≤ W + TW - 1), tdiv_eq_ediv hidx, tmod_eq_emod hidx]
  simp only [gt_iff_lt, decide_eq_true_eq]

theorem ceilDiv_eq {a b : Int} (ha : 0 ≤ a) (hb : 1 ≤ b) : ceilDiv a b = (a + b - 1) / b := by
  unfold ceilDiv
  have h1 : ¬ b ≤ 0 := by omega
  simp only [h1, decide_false, ge_iff_le, ha, decide_true, if_true]
  simp
  exact tdiv_eq_ediv (by omega)

theorem decTileBounds_eq (W H TW TH idx : Int) (hW : 1 ≤ W) (hH : 1 ≤ H) (hTW : 1 ≤ TW) (hTH : 1 ≤ TH)
    (hidx : 0 ≤ idx) (hlt : idx < (W + TW - 1) / TW * ((H + TH - 1) / TH)) :
    decTileBounds W H TW TH idx =
      let nx := (W + TW - 1) / TW
      let x0 := idx % nx * TW
      let y0 := idx / nx * TH
      (x0, y0, (if x0 + TW > W then W else x0 + TW), (if y0 + TH > H then H else y0 + TH)) := by
  have hnx : 0 < (W + TW - 1) / TW := numTiles_pos (by omega) hW
  have hm0 : 0 ≤ idx % ((W + TW - 1) / TW) := Int.emod_nonneg _ (by omega)
  have hd0 : 0 ≤ idx / ((W + TW - 1) / TW) := Int.ediv_nonneg hidx (by omega)
  have hx0 : 0 ≤ idx % ((W + TW - 1) / TW) * TW := Int.mul_nonneg hm0 (by omega)
  have hy0 : 0 ≤ idx / ((W + TW - 1) / TW) * TH := Int.mul_nonneg hd0 (by omega)
  unfold decTileBounds TileLayout.GetTileBounds TileLayout.GetTileCount decLayout
  simp only [Int.sub_zero, Int.add_zero]
  rw [ceilDiv_eq (by omega) hTW, ceilDiv_eq (by omega) hTH]
  rw [tdiv_eq_ediv hidx, tmod_eq_emod hidx]
  have c1 : ¬ idx < 0 := by omega
  have c2 : ¬ idx ≥ (W + TW - 1) / TW * ((H + TH - 1) / TH) := by omega
  have c3 : ¬ idx % ((W + TW - 1) / TW) * TW < 0 := by omega
  have c4 : ¬ idx / ((W + TW - 1) / TW) * TH < 0 := by omega
  -- the clamps are written either as if-chains or with the builtin max/min (both forms of the source close)
  first
    | (simp only [c1, c2, c3, c4, decide_false, Bool.or_self, Bool.false_eq_true, if_false, gt_iff_lt, decide_eq_true_eq]; done)
    | (simp only [c1, c2, c3, c4, decide_false, Bool.or_self, Bool.false_eq_true, if_false, gt_iff_lt, decide_eq_true_eq,
         Int.max_def, Int.min_def]
       generalize idx % ((W + TW - 1) / TW) * TW = X at *
       generalize idx / ((W + TW - 1) / TW) * TH = Y at *
       repeat' split
       all_goals (first | omega | (simp only [Prod.mk.injEq, and_true, true_and]; first | done | omega)))

end J2k

namespace J2k
open Gen.J2kTiles

/-- the common closed form of a tile rectangle -/
def rectOf (W H TW TH idx : Int) : Int × Int × Int × Int :=
  let nx := (W + TW - 1) / TW
  let x0 := idx % nx * TW
  let y0 := idx / nx * TH
  (x0, y0, (if x0 + TW > W then W else x0 + TW), (if y0 + TH > H then H else y0 + TH))

theorem enc_eq_dec' (W H TW TH idx : Int) (hW : 1 ≤ W) (hH : 1 ≤ H) (hTW : 1 ≤ TW) (hTH : 1 ≤ TH)
    (hidx : 0 ≤ idx) (hlt : idx < (W + TW - 1) / TW * ((H + TH - 1) / TH)) :
    encTileBounds W H TW TH idx = decTileBounds W H TW TH idx := by
  rw [encTileBounds_eq W H TW TH idx hW hTW hidx, decTileBounds_eq W H TW TH idx hW hH hTW hTH hidx hlt]

/-- index decomposition: `idx = r*nx + c` with `0 ≤ c < nx` -/
theorem idx_decomp {r c nx : Int} (hc0 : 0 ≤ c) (hc : c < nx) :
    (r * nx + c) % nx = c ∧ (r * nx + c) / nx = r := by
  constructor
  · rw [Int.add_comm, Int.add_mul_emod_self_right]; exact Int.emod_eq_of_lt hc0 hc
  · rw [Int.add_comm, Int.add_mul_ediv_right _ _ (by omega : nx ≠ 0), Int.ediv_eq_zero_of_lt hc0 hc]; omega

theorem cover' (W H TW TH x y : Int) (hTW : 1 ≤ TW) (hTH : 1 ≤ TH)
    (hx0 : 0 ≤ x) (hx : x < W) (hy0 : 0 ≤ y) (hy : y < H) :
    let nx := (W + TW - 1) / TW
    let ny := (H + TH - 1) / TH
    let idx := y / TH * nx + x / TW
    0 ≤ idx ∧ idx < nx * ny ∧ inRect (rectOf W H TW TH idx) x y := by
  intro nx ny idx
  have hcx : x / TW < nx := quot_lt_numTiles (by omega) hx
  have hcy : y / TH < ny := quot_lt_numTiles (by omega) hy
  have hqx : 0 ≤ x / TW := Int.ediv_nonneg hx0 (by omega)
  have hqy : 0 ≤ y / TH := Int.ediv_nonneg hy0 (by omega)
  have hd := idx_decomp (r := y / TH) hqx hcx
  have hmul : 0 ≤ y / TH * nx := Int.mul_nonneg hqy (by omega)
  refine ⟨by omega, ?_, ?_⟩
  · -- idx < nx*ny:  y/TH ≤ ny - 1
    have h1 : y / TH * nx ≤ (ny - 1) * nx := Int.mul_le_mul_of_nonneg_right (by omega) (by omega)
    have h2 : (ny - 1) * nx = nx * ny - nx := by rw [Int.sub_mul, Int.mul_comm ny nx]; omega
    omega
  · unfold inRect rectOf
    simp only []
    show idx % nx * TW ≤ x ∧ _
    rw [hd.1, hd.2]
    have a1 := ediv_mul_le' x (by omega : 0 < TW)
    have a2 := lt_ediv_mul_add x (by omega : 0 < TW)
    have b1 := ediv_mul_le' y (by omega : 0 < TH)
    have b2 := lt_ediv_mul_add y (by omega : 0 < TH)
    refine ⟨a1, ?_, b1, ?_⟩
    · split <;> omega
    · split <;> omega

theorem unique' (W H TW TH x y idx : Int) (hW : 1 ≤ W) (hTW : 1 ≤ TW) (hTH : 1 ≤ TH)
    (hin : inRect (rectOf W H TW TH idx) x y) :
    idx = y / TH * ((W + TW - 1) / TW) + x / TW := by
  have hnx : 0 < (W + TW - 1) / TW := numTiles_pos (by omega) hW
  unfold inRect rectOf at hin
  simp only [] at hin
  obtain ⟨h1, h2, h3, h4⟩ := hin
  have hx : x / TW = idx % ((W + TW - 1) / TW) := by
    apply ediv_unique (by omega) h1
    split at h2 <;> omega
  have hy : y / TH = idx / ((W + TW - 1) / TW) := by
    apply ediv_unique (by omega) h3
    split at h4 <;> omega
  rw [hx, hy]
  have := Int.mul_ediv_add_emod idx ((W + TW - 1) / TW)
  rw [Int.mul_comm] at this; omega

/-- every tile of the grid is a non-empty rectangle inside the image -/
theorem rect_in_image' (W H TW TH idx : Int) (hW : 1 ≤ W) (hH : 1 ≤ H) (hTW : 1 ≤ TW) (hTH : 1 ≤ TH)
    (hidx : 0 ≤ idx) (hlt : idx < (W + TW - 1) / TW * ((H + TH - 1) / TH)) :
    let r := rectOf W H TW TH idx
    0 ≤ r.1 ∧ r.1 < r.2.2.1 ∧ r.2.2.1 ≤ W ∧ 0 ≤ r.2.1 ∧ r.2.1 < r.2.2.2 ∧ r.2.2.2 ≤ H := by
  have hnx : 0 < (W + TW - 1) / TW := numTiles_pos (by omega) hW
  have hm0 : 0 ≤ idx % ((W + TW - 1) / TW) := Int.emod_nonneg _ (by omega)
  have hm1 : idx % ((W + TW - 1) / TW) < (W + TW - 1) / TW := Int.emod_lt_of_pos _ hnx
  have hd0 : 0 ≤ idx / ((W + TW - 1) / TW) := Int.ediv_nonneg hidx (by omega)
  have hd1 : idx / ((W + TW - 1) / TW) < (H + TH - 1) / TH := by
    apply Int.ediv_lt_of_lt_mul hnx
    rw [Int.mul_comm]; exact hlt
  have hx := tile_start_lt (by omega : 0 < TW) hm1
  have hy := tile_start_lt (by omega : 0 < TH) hd1
  have hx0 : 0 ≤ idx % ((W + TW - 1) / TW) * TW := Int.mul_nonneg hm0 (by omega)
  have hy0 : 0 ≤ idx / ((W + TW - 1) / TW) * TH := Int.mul_nonneg hd0 (by omega)
  show 0 ≤ (rectOf W H TW TH idx).1 ∧ (rectOf W H TW TH idx).1 < (rectOf W H TW TH idx).2.2.1 ∧
    (rectOf W H TW TH idx).2.2.1 ≤ W ∧ 0 ≤ (rectOf W H TW TH idx).2.1 ∧
    (rectOf W H TW TH idx).2.1 < (rectOf W H TW TH idx).2.2.2 ∧ (rectOf W H TW TH idx).2.2.2 ≤ H
  unfold rectOf
  simp only []
  refine ⟨hx0, ?_, ?_, hy0, ?_, ?_⟩ <;> split <;> omega

end J2k
