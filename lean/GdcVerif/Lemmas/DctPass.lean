import GdcVerif.Gen.JpegStd
/-!
  Per-pass analysis of the fixed-point DCT pair (GENERATED 1-D passes of standard.DCTISlow / IDCTISlow).
  Core Lean has no real numbers, so "exact" cannot mean cosines here.  What is proved:
  * each pass output is an integer LINEAR form of its inputs (literal 13-bit-constant matrix rows, listed below)
    followed by ONE rounding `descale` — so  |2^s·out − form(inputs)| ≤ 2^(s−1)  for every input (rows 0 and 4 of
    the first forward pass are exact);
  * the forward and inverse constant matrices are mutually consistent: G·F = 2^29·I + E with |E_ij| ≤ 31601
    (relative 5.9e-5 ≈ 2^-14) — a finite computation on the literal matrices.
  This file is produced from the same literal tables as the theorems' statements (scratch generator, see report).
-/
namespace Dct
open Gen.JpegStd
set_option maxRecDepth 100000

/-- forward pass 1 (rows): outputs (0,4,2,6,7,5,3,1) -/
theorem fdct_row_pass (y d0 d1 d2 d3 d4 d5 d6 d7 : Int) :
    let r := DCTISlow.row 8 y d0 d7 d1 d6 d2 d5 d3 d4
    r.1 = 4 * ((1) * d0 + (1) * d1 + (1) * d2 + (1) * d3 + (1) * d4 + (1) * d5 + (1) * d6 + (1) * d7) ∧
    r.2.fst = 4 * ((1) * d0 + (-1) * d1 + (-1) * d2 + (1) * d3 + (1) * d4 + (-1) * d5 + (-1) * d6 + (1) * d7) ∧
    (-1024 ≤ 2048 * r.2.snd.fst - ((10703) * d0 + (4433) * d1 + (-4433) * d2 + (-10703) * d3 + (-10703) * d4 + (-4433) * d5 + (4433) * d6 + (10703) * d7) ∧ 2048 * r.2.snd.fst - ((10703) * d0 + (4433) * d1 + (-4433) * d2 + (-10703) * d3 + (-10703) * d4 + (-4433) * d5 + (4433) * d6 + (10703) * d7) ≤ 1024) ∧
    (-1024 ≤ 2048 * r.2.snd.snd.fst - ((4433) * d0 + (-10704) * d1 + (10704) * d2 + (-4433) * d3 + (-4433) * d4 + (10704) * d5 + (-10704) * d6 + (4433) * d7) ∧ 2048 * r.2.snd.snd.fst - ((4433) * d0 + (-10704) * d1 + (10704) * d2 + (-4433) * d3 + (-4433) * d4 + (10704) * d5 + (-10704) * d6 + (4433) * d7) ≤ 1024) ∧
    (-1024 ≤ 2048 * r.2.snd.snd.snd.fst - ((2260) * d0 + (-6436) * d1 + (9633) * d2 + (-11363) * d3 + (11363) * d4 + (-9633) * d5 + (6436) * d6 + (-2260) * d7) ∧ 2048 * r.2.snd.snd.snd.fst - ((2260) * d0 + (-6436) * d1 + (9633) * d2 + (-11363) * d3 + (11363) * d4 + (-9633) * d5 + (6436) * d6 + (-2260) * d7) ≤ 1024) ∧
    (-1024 ≤ 2048 * r.2.snd.snd.snd.snd.fst - ((6437) * d0 + (-11362) * d1 + (2261) * d2 + (9633) * d3 + (-9633) * d4 + (-2261) * d5 + (11362) * d6 + (-6437) * d7) ∧ 2048 * r.2.snd.snd.snd.snd.fst - ((6437) * d0 + (-11362) * d1 + (2261) * d2 + (9633) * d3 + (-9633) * d4 + (-2261) * d5 + (11362) * d6 + (-6437) * d7) ≤ 1024) ∧
    (-1024 ≤ 2048 * r.2.snd.snd.snd.snd.snd.fst - ((9633) * d0 + (-2259) * d1 + (-11362) * d2 + (-6436) * d3 + (6436) * d4 + (11362) * d5 + (2259) * d6 + (-9633) * d7) ∧ 2048 * r.2.snd.snd.snd.snd.snd.fst - ((9633) * d0 + (-2259) * d1 + (-11362) * d2 + (-6436) * d3 + (6436) * d4 + (11362) * d5 + (2259) * d6 + (-9633) * d7) ≤ 1024) ∧
    (-1024 ≤ 2048 * r.2.snd.snd.snd.snd.snd.snd - ((11363) * d0 + (9633) * d1 + (6437) * d2 + (2260) * d3 + (-2260) * d4 + (-6437) * d5 + (-9633) * d6 + (-11363) * d7) ∧ 2048 * r.2.snd.snd.snd.snd.snd.snd - ((11363) * d0 + (9633) * d1 + (6437) * d2 + (2260) * d3 + (-2260) * d4 + (-6437) * d5 + (-9633) * d6 + (-11363) * d7) ≤ 1024) := by
  intro r
  simp only [r, DCTISlow.row, ijgDescale, Go.shr, Go.shl, Int.shiftRight_eq_div_pow, ijgConstBits, ijgPass1Bits,
    ijgFix0298631336, ijgFix0390180644, ijgFix0541196100, ijgFix0765366865, ijgFix0899976223, ijgFix1175875602,
    ijgFix1501321110, ijgFix1847759065, ijgFix1961570560, ijgFix2053119869, ijgFix2562915447, ijgFix3072711026]
  simp
  refine ⟨by omega, by omega, by omega, by omega, by omega, by omega, by omega, by omega⟩

/-- forward pass 2 (columns): outputs (0,4,2,6,7,5,3,1) -/
theorem fdct_col_pass (x d0 d1 d2 d3 d4 d5 d6 d7 a0 a1 a2 a3 a4 a5 a6 a7 : Int) :
    let r := DCTISlow.col 8 x d0 d7 d1 d6 d2 d5 d3 d4 a0 a1 a2 a3 a4 a5 a6 a7
    (-2 ≤ 4 * r.1 - ((1) * d0 + (1) * d1 + (1) * d2 + (1) * d3 + (1) * d4 + (1) * d5 + (1) * d6 + (1) * d7) ∧ 4 * r.1 - ((1) * d0 + (1) * d1 + (1) * d2 + (1) * d3 + (1) * d4 + (1) * d5 + (1) * d6 + (1) * d7) ≤ 2) ∧
    (-2 ≤ 4 * r.2.fst - ((1) * d0 + (-1) * d1 + (-1) * d2 + (1) * d3 + (1) * d4 + (-1) * d5 + (-1) * d6 + (1) * d7) ∧ 4 * r.2.fst - ((1) * d0 + (-1) * d1 + (-1) * d2 + (1) * d3 + (1) * d4 + (-1) * d5 + (-1) * d6 + (1) * d7) ≤ 2) ∧
    (-16384 ≤ 32768 * r.2.snd.fst - ((10703) * d0 + (4433) * d1 + (-4433) * d2 + (-10703) * d3 + (-10703) * d4 + (-4433) * d5 + (4433) * d6 + (10703) * d7) ∧ 32768 * r.2.snd.fst - ((10703) * d0 + (4433) * d1 + (-4433) * d2 + (-10703) * d3 + (-10703) * d4 + (-4433) * d5 + (4433) * d6 + (10703) * d7) ≤ 16384) ∧
    (-16384 ≤ 32768 * r.2.snd.snd.fst - ((4433) * d0 + (-10704) * d1 + (10704) * d2 + (-4433) * d3 + (-4433) * d4 + (10704) * d5 + (-10704) * d6 + (4433) * d7) ∧ 32768 * r.2.snd.snd.fst - ((4433) * d0 + (-10704) * d1 + (10704) * d2 + (-4433) * d3 + (-4433) * d4 + (10704) * d5 + (-10704) * d6 + (4433) * d7) ≤ 16384) ∧
    (-16384 ≤ 32768 * r.2.snd.snd.snd.fst - ((2260) * d0 + (-6436) * d1 + (9633) * d2 + (-11363) * d3 + (11363) * d4 + (-9633) * d5 + (6436) * d6 + (-2260) * d7) ∧ 32768 * r.2.snd.snd.snd.fst - ((2260) * d0 + (-6436) * d1 + (9633) * d2 + (-11363) * d3 + (11363) * d4 + (-9633) * d5 + (6436) * d6 + (-2260) * d7) ≤ 16384) ∧
    (-16384 ≤ 32768 * r.2.snd.snd.snd.snd.fst - ((6437) * d0 + (-11362) * d1 + (2261) * d2 + (9633) * d3 + (-9633) * d4 + (-2261) * d5 + (11362) * d6 + (-6437) * d7) ∧ 32768 * r.2.snd.snd.snd.snd.fst - ((6437) * d0 + (-11362) * d1 + (2261) * d2 + (9633) * d3 + (-9633) * d4 + (-2261) * d5 + (11362) * d6 + (-6437) * d7) ≤ 16384) ∧
    (-16384 ≤ 32768 * r.2.snd.snd.snd.snd.snd.fst - ((9633) * d0 + (-2259) * d1 + (-11362) * d2 + (-6436) * d3 + (6436) * d4 + (11362) * d5 + (2259) * d6 + (-9633) * d7) ∧ 32768 * r.2.snd.snd.snd.snd.snd.fst - ((9633) * d0 + (-2259) * d1 + (-11362) * d2 + (-6436) * d3 + (6436) * d4 + (11362) * d5 + (2259) * d6 + (-9633) * d7) ≤ 16384) ∧
    (-16384 ≤ 32768 * r.2.snd.snd.snd.snd.snd.snd - ((11363) * d0 + (9633) * d1 + (6437) * d2 + (2260) * d3 + (-2260) * d4 + (-6437) * d5 + (-9633) * d6 + (-11363) * d7) ∧ 32768 * r.2.snd.snd.snd.snd.snd.snd - ((11363) * d0 + (9633) * d1 + (6437) * d2 + (2260) * d3 + (-2260) * d4 + (-6437) * d5 + (-9633) * d6 + (-11363) * d7) ≤ 16384) := by
  intro r
  simp only [r, DCTISlow.col, ijgDescale, Go.shr, Go.shl, Int.shiftRight_eq_div_pow, ijgConstBits, ijgPass1Bits,
    ijgFix0298631336, ijgFix0390180644, ijgFix0541196100, ijgFix0765366865, ijgFix0899976223, ijgFix1175875602,
    ijgFix1501321110, ijgFix1847759065, ijgFix1961570560, ijgFix2053119869, ijgFix2562915447, ijgFix3072711026]
  simp
  refine ⟨by omega, by omega, by omega, by omega, by omega, by omega, by omega, by omega⟩

/-- inverse pass 1 (columns, with dequantisation p_k = coef_k·q_k): outputs (0,7,1,6,2,5,3,4) -/
theorem idct_col_pass (x c0 c1 c2 c3 c4 c5 c6 c7 q0 q1 q2 q3 q4 q5 q6 q7 a0 a1 a2 a3 a4 a5 a6 a7 p0 p1 p2 p3 p4 p5 p6 p7 : Int)
    (h0 : c0 * q0 = p0) (h1 : c1 * q1 = p1) (h2 : c2 * q2 = p2) (h3 : c3 * q3 = p3) (h4 : c4 * q4 = p4) (h5 : c5 * q5 = p5) (h6 : c6 * q6 = p6) (h7 : c7 * q7 = p7) :
    let r := IDCTISlow.col 8 x c2 q2 c6 q6 c0 q0 c4 q4 c7 q7 c5 q5 c3 q3 c1 q1 a0 a1 a2 a3 a4 a5 a6 a7
    (-1024 ≤ 2048 * r.1 - ((8192) * p0 + (11363) * p1 + (10703) * p2 + (9633) * p3 + (8192) * p4 + (6437) * p5 + (4433) * p6 + (2260) * p7) ∧ 2048 * r.1 - ((8192) * p0 + (11363) * p1 + (10703) * p2 + (9633) * p3 + (8192) * p4 + (6437) * p5 + (4433) * p6 + (2260) * p7) ≤ 1024) ∧
    (-1024 ≤ 2048 * r.2.fst - ((8192) * p0 + (-11363) * p1 + (10703) * p2 + (-9633) * p3 + (8192) * p4 + (-6437) * p5 + (4433) * p6 + (-2260) * p7) ∧ 2048 * r.2.fst - ((8192) * p0 + (-11363) * p1 + (10703) * p2 + (-9633) * p3 + (8192) * p4 + (-6437) * p5 + (4433) * p6 + (-2260) * p7) ≤ 1024) ∧
    (-1024 ≤ 2048 * r.2.snd.fst - ((8192) * p0 + (9633) * p1 + (4433) * p2 + (-2259) * p3 + (-8192) * p4 + (-11362) * p5 + (-10704) * p6 + (-6436) * p7) ∧ 2048 * r.2.snd.fst - ((8192) * p0 + (9633) * p1 + (4433) * p2 + (-2259) * p3 + (-8192) * p4 + (-11362) * p5 + (-10704) * p6 + (-6436) * p7) ≤ 1024) ∧
    (-1024 ≤ 2048 * r.2.snd.snd.fst - ((8192) * p0 + (-9633) * p1 + (4433) * p2 + (2259) * p3 + (-8192) * p4 + (11362) * p5 + (-10704) * p6 + (6436) * p7) ∧ 2048 * r.2.snd.snd.fst - ((8192) * p0 + (-9633) * p1 + (4433) * p2 + (2259) * p3 + (-8192) * p4 + (11362) * p5 + (-10704) * p6 + (6436) * p7) ≤ 1024) ∧
    (-1024 ≤ 2048 * r.2.snd.snd.snd.fst - ((8192) * p0 + (6437) * p1 + (-4433) * p2 + (-11362) * p3 + (-8192) * p4 + (2261) * p5 + (10704) * p6 + (9633) * p7) ∧ 2048 * r.2.snd.snd.snd.fst - ((8192) * p0 + (6437) * p1 + (-4433) * p2 + (-11362) * p3 + (-8192) * p4 + (2261) * p5 + (10704) * p6 + (9633) * p7) ≤ 1024) ∧
    (-1024 ≤ 2048 * r.2.snd.snd.snd.snd.fst - ((8192) * p0 + (-6437) * p1 + (-4433) * p2 + (11362) * p3 + (-8192) * p4 + (-2261) * p5 + (10704) * p6 + (-9633) * p7) ∧ 2048 * r.2.snd.snd.snd.snd.fst - ((8192) * p0 + (-6437) * p1 + (-4433) * p2 + (11362) * p3 + (-8192) * p4 + (-2261) * p5 + (10704) * p6 + (-9633) * p7) ≤ 1024) ∧
    (-1024 ≤ 2048 * r.2.snd.snd.snd.snd.snd.fst - ((8192) * p0 + (2260) * p1 + (-10703) * p2 + (-6436) * p3 + (8192) * p4 + (9633) * p5 + (-4433) * p6 + (-11363) * p7) ∧ 2048 * r.2.snd.snd.snd.snd.snd.fst - ((8192) * p0 + (2260) * p1 + (-10703) * p2 + (-6436) * p3 + (8192) * p4 + (9633) * p5 + (-4433) * p6 + (-11363) * p7) ≤ 1024) ∧
    (-1024 ≤ 2048 * r.2.snd.snd.snd.snd.snd.snd - ((8192) * p0 + (-2260) * p1 + (-10703) * p2 + (6436) * p3 + (8192) * p4 + (-9633) * p5 + (-4433) * p6 + (11363) * p7) ∧ 2048 * r.2.snd.snd.snd.snd.snd.snd - ((8192) * p0 + (-2260) * p1 + (-10703) * p2 + (6436) * p3 + (8192) * p4 + (-9633) * p5 + (-4433) * p6 + (11363) * p7) ≤ 1024) := by
  intro r
  simp only [r, IDCTISlow.col, ijgDescale, Go.shr, Go.shl, Int.shiftRight_eq_div_pow, ijgConstBits, ijgPass1Bits,
    ijgFix0298631336, ijgFix0390180644, ijgFix0541196100, ijgFix0765366865, ijgFix0899976223, ijgFix1175875602,
    ijgFix1501321110, ijgFix1847759065, ijgFix1961570560, ijgFix2053119869, ijgFix2562915447, ijgFix3072711026]
  rw [h0, h1, h2, h3, h4, h5, h6, h7]
  simp
  refine ⟨by omega, by omega, by omega, by omega, by omega, by omega, by omega, by omega⟩

/-- inverse pass 2 (rows): outputs (0,7,1,6,2,5,3,4), each `byte(Clamp(descale(form, 18) + 128, 0, 255))` -/
theorem idct_row_pass (y w0 w1 w2 w3 w4 w5 w6 w7 a0 a1 a2 a3 a4 a5 a6 a7 : Int) :
    let r := IDCTISlow.row 8 y w2 w6 w0 w4 w7 w5 w3 w1 a0 a1 a2 a3 a4 a5 a6 a7
    (∃ t, r.1 = Go.uwrap8 (Clamp (t + 128) 0 255) ∧ -131072 ≤ 262144 * t - ((8192) * w0 + (11363) * w1 + (10703) * w2 + (9633) * w3 + (8192) * w4 + (6437) * w5 + (4433) * w6 + (2260) * w7) ∧ 262144 * t - ((8192) * w0 + (11363) * w1 + (10703) * w2 + (9633) * w3 + (8192) * w4 + (6437) * w5 + (4433) * w6 + (2260) * w7) ≤ 131072) ∧
    (∃ t, r.2.fst = Go.uwrap8 (Clamp (t + 128) 0 255) ∧ -131072 ≤ 262144 * t - ((8192) * w0 + (-11363) * w1 + (10703) * w2 + (-9633) * w3 + (8192) * w4 + (-6437) * w5 + (4433) * w6 + (-2260) * w7) ∧ 262144 * t - ((8192) * w0 + (-11363) * w1 + (10703) * w2 + (-9633) * w3 + (8192) * w4 + (-6437) * w5 + (4433) * w6 + (-2260) * w7) ≤ 131072) ∧
    (∃ t, r.2.snd.fst = Go.uwrap8 (Clamp (t + 128) 0 255) ∧ -131072 ≤ 262144 * t - ((8192) * w0 + (9633) * w1 + (4433) * w2 + (-2259) * w3 + (-8192) * w4 + (-11362) * w5 + (-10704) * w6 + (-6436) * w7) ∧ 262144 * t - ((8192) * w0 + (9633) * w1 + (4433) * w2 + (-2259) * w3 + (-8192) * w4 + (-11362) * w5 + (-10704) * w6 + (-6436) * w7) ≤ 131072) ∧
    (∃ t, r.2.snd.snd.fst = Go.uwrap8 (Clamp (t + 128) 0 255) ∧ -131072 ≤ 262144 * t - ((8192) * w0 + (-9633) * w1 + (4433) * w2 + (2259) * w3 + (-8192) * w4 + (11362) * w5 + (-10704) * w6 + (6436) * w7) ∧ 262144 * t - ((8192) * w0 + (-9633) * w1 + (4433) * w2 + (2259) * w3 + (-8192) * w4 + (11362) * w5 + (-10704) * w6 + (6436) * w7) ≤ 131072) ∧
    (∃ t, r.2.snd.snd.snd.fst = Go.uwrap8 (Clamp (t + 128) 0 255) ∧ -131072 ≤ 262144 * t - ((8192) * w0 + (6437) * w1 + (-4433) * w2 + (-11362) * w3 + (-8192) * w4 + (2261) * w5 + (10704) * w6 + (9633) * w7) ∧ 262144 * t - ((8192) * w0 + (6437) * w1 + (-4433) * w2 + (-11362) * w3 + (-8192) * w4 + (2261) * w5 + (10704) * w6 + (9633) * w7) ≤ 131072) ∧
    (∃ t, r.2.snd.snd.snd.snd.fst = Go.uwrap8 (Clamp (t + 128) 0 255) ∧ -131072 ≤ 262144 * t - ((8192) * w0 + (-6437) * w1 + (-4433) * w2 + (11362) * w3 + (-8192) * w4 + (-2261) * w5 + (10704) * w6 + (-9633) * w7) ∧ 262144 * t - ((8192) * w0 + (-6437) * w1 + (-4433) * w2 + (11362) * w3 + (-8192) * w4 + (-2261) * w5 + (10704) * w6 + (-9633) * w7) ≤ 131072) ∧
    (∃ t, r.2.snd.snd.snd.snd.snd.fst = Go.uwrap8 (Clamp (t + 128) 0 255) ∧ -131072 ≤ 262144 * t - ((8192) * w0 + (2260) * w1 + (-10703) * w2 + (-6436) * w3 + (8192) * w4 + (9633) * w5 + (-4433) * w6 + (-11363) * w7) ∧ 262144 * t - ((8192) * w0 + (2260) * w1 + (-10703) * w2 + (-6436) * w3 + (8192) * w4 + (9633) * w5 + (-4433) * w6 + (-11363) * w7) ≤ 131072) ∧
    (∃ t, r.2.snd.snd.snd.snd.snd.snd = Go.uwrap8 (Clamp (t + 128) 0 255) ∧ -131072 ≤ 262144 * t - ((8192) * w0 + (-2260) * w1 + (-10703) * w2 + (6436) * w3 + (8192) * w4 + (-9633) * w5 + (-4433) * w6 + (11363) * w7) ∧ 262144 * t - ((8192) * w0 + (-2260) * w1 + (-10703) * w2 + (6436) * w3 + (8192) * w4 + (-9633) * w5 + (-4433) * w6 + (11363) * w7) ≤ 131072) := by
  intro r
  simp only [r, IDCTISlow.row]
  refine ⟨⟨_, rfl, ?_⟩, ⟨_, rfl, ?_⟩, ⟨_, rfl, ?_⟩, ⟨_, rfl, ?_⟩, ⟨_, rfl, ?_⟩, ⟨_, rfl, ?_⟩, ⟨_, rfl, ?_⟩, ⟨_, rfl, ?_⟩⟩ <;>
  · simp only [IDCTISlow.row, ijgDescale, Go.shr, Go.shl, Int.shiftRight_eq_div_pow, ijgConstBits, ijgPass1Bits,
    ijgFix0298631336, ijgFix0390180644, ijgFix0541196100, ijgFix0765366865, ijgFix0899976223, ijgFix1175875602,
    ijgFix1501321110, ijgFix1847759065, ijgFix1961570560, ijgFix2053119869, ijgFix2562915447, ijgFix3072711026]
    simp
    omega

/-- forward constant matrix, rows = frequencies, common scale 2^13 (rows 0 and 4 are exact: 8192·(±1)) -/
def fwdMatrix : List (List Int) :=
  [[8192, 8192, 8192, 8192, 8192, 8192, 8192, 8192],
   [11363, 9633, 6437, 2260, -2260, -6437, -9633, -11363],
   [10703, 4433, -4433, -10703, -10703, -4433, 4433, 10703],
   [9633, -2259, -11362, -6436, 6436, 11362, 2259, -9633],
   [8192, -8192, -8192, 8192, 8192, -8192, -8192, 8192],
   [6437, -11362, 2261, 9633, -9633, -2261, 11362, -6437],
   [4433, -10704, 10704, -4433, -4433, 10704, -10704, 4433],
   [2260, -6436, 9633, -11363, 11363, -9633, 6436, -2260]]
/-- inverse constant matrix, rows = sample positions, scale 2^13 -/
def invMatrix : List (List Int) :=
  [[8192, 11363, 10703, 9633, 8192, 6437, 4433, 2260],
   [8192, 9633, 4433, -2259, -8192, -11362, -10704, -6436],
   [8192, 6437, -4433, -11362, -8192, 2261, 10704, 9633],
   [8192, 2260, -10703, -6436, 8192, 9633, -4433, -11363],
   [8192, -2260, -10703, 6436, 8192, -9633, -4433, 11363],
   [8192, -6437, -4433, 11362, -8192, -2261, 10704, -9633],
   [8192, -9633, 4433, 2259, -8192, 11362, -10704, 6436],
   [8192, -11363, 10703, -9633, 8192, -6437, 4433, -2260]]
def matMul (a b : List (List Int)) : List (List Int) :=
  a.map fun row => (List.range 8).map fun j => ((List.range 8).map fun k => row.getD k 0 * (b.getD k []).getD j 0).foldl (· + ·) 0
/-- consistency of the 13-bit constants: invMatrix · fwdMatrix = 2^29·I + E with every |E_ij| ≤ 31601 (2^29 = 536870912) -/
theorem dct_matrices_consistent :
    ((matMul invMatrix fwdMatrix).zipIdx.all fun (row, i) => row.zipIdx.all fun (v, j) =>
      let e := v - (if i = j then 536870912 else 0)
      decide (-31601 ≤ e ∧ e ≤ 31601)) = true := by decide

end Dct
