import GdcVerif.Lemmas.T1LockStyles

/-! C20 — EBCOT T1 with a truncated pass count: the decoder returns every coefficient truncated below the plane
reached by the last coded pass. -/

namespace T1
open Gen

/-- `n` coding passes from position `(bp, pi, pt)`, none of them terminated -/
def encPassesN (w h orient style : Nat) (V : Array Int) : Nat → EncSt → (bp pi pt : Nat) → Option EncSt
  | 0, st, _, _, _ => some st
  | n + 1, st, bp, pi, pt =>
    (passE w h orient V bp pt (cvE pi pt st)).bind fun st =>
      (segE style pt st).bind fun st =>
        (resetE style st).bind fun st =>
          if pt = 2 then encPassesN w h orient style V n st (bp - 1) (pi + 1) 0
          else encPassesN w h orient style V n st bp (pi + 1) (pt + 1)

theorem decLoop_exitN (w h orient style np fuel : Nat) (st : DecSt) (bp : Int) (pi pt : Nat) (hp : np ≤ pi) :
    decLoop w h orient style np fuel st bp pi pt = some st := by
  cases fuel with
  | zero => rfl
  | succ f => unfold decLoop; rw [if_neg (by omega)]

theorem encLoop_exitN (w h orient style : Nat) (data : Array Int) (mb np fuel : Nat) (st : EncSt) (bp : Int) (pi pt : Nat) (t : Bool)
    (hp : np ≤ pi) : encLoop w h orient style data mb np fuel st bp pi pt t = some (st, t) := by
  cases fuel with
  | zero => rfl
  | succ f => unfold encLoop; rw [if_neg (by omega)]

section Lock
variable (w h : Nat) (V : Array Int) (F : Mqc.Enc → Prop) (R : Mqc.Enc → Mqc.Dec → Prop)
  (hC : Coder F R) (hX : CoderCtx F R) (hV : ∀ j, (gi V j).natAbs < 2147483648)
include hC hX hV

theorem passesN_lock (orient style np : Nat) : ∀ (n : Nat) (es : EncSt) (bp pi pt : Nat), EncOk w h V es → pt ≤ 2 →
    n + 1 ≤ 3 * bp + 3 - pt →
    ∃ esP, encPassesN w h orient style V (n + 1) es bp pi pt = some esP ∧ EncOk w h V esP ∧
      (F esP.mq → F es.mq) ∧
      (F esP.mq → ∀ (ds : DecSt), PInv w h V R bp pi pt es ds → pi + (n + 1) = np → ∀ fuel, n + 1 ≤ fuel →
        ∃ (ds' : DecSt) (bpL ptL : Nat) (lev : Nat → Nat), decLoop w h orient style np fuel ds (bp : Int) pi pt = some ds' ∧
          ptL ≤ 2 ∧ 3 * bpL + 3 - ptL + n = 3 * bp + 3 - pt ∧ ptL ≤ 3 * bpL + 3 ∧
          ds'.data.size = (w + 2) * (h + 2) ∧
          ∀ j, InB w h j → gi ds'.data j = tr (lev j) (gi V j) ∧ (lev j = bpL ∨ lev j = bpL + 1) ∧
            (ptL = 2 → lev j = bpL)) := by
  intro n
  induction n with
  | zero =>
    intro es bp pi pt hs hpt hf
    obtain ⟨es2, he2, hok2, hback2, hlock2⟩ := step_lock w h V F R hC hX hV orient bp pi pt hpt es hs
    obtain ⟨es3, he3, hok3, hback3, hlock3⟩ := segE_lock w h V F R hC hX style bp pt pt es2 hok2
    obtain ⟨es4, he4, hok4, hback4, _⟩ := resetE_lock w h V F R hX style bp pt es3 hok3
    refine ⟨es4, ?_, hok4, fun hF => hback2 (hback3 (hback4 hF)), ?_⟩
    · unfold encPassesN
      rw [he2]; simp only [Option.bind_some]
      rw [he3]; simp only [Option.bind_some]
      rw [he4]; simp only [Option.bind_some]
      unfold encPassesN
      split <;> rfl
    · intro hF ds hP hnp fuel hfu
      obtain ⟨ds2, hd2, hP2⟩ := hlock2 (hback3 (hback4 hF)) ds hP
      obtain ⟨ds3, hd3, hdd3, lev, hL3, _, _, h2⟩ := hlock3 (hback4 hF) ds2 hP2
      obtain ⟨f, rfl⟩ : ∃ f, fuel = f + 1 := ⟨fuel - 1, by omega⟩
      rw [decLoop_step w h orient style np f ds bp pi pt hpt (by omega), hd2]
      simp only [Option.bind_some]
      rw [hd3]; simp only [Option.bind_some]
      rw [if_neg (fun hh => absurd hh.2 (by omega))]; simp only [Option.bind_some]
      refine ⟨ds3, bp, pt, lev, ?_, hpt, by omega, by omega, hL3.dsz, fun j hj => ⟨(hL3.smp j hj).d, (hL3.smp j hj).l, fun hh => h2 hh j hj⟩⟩
      split
      · exact decLoop_exitN _ _ _ _ _ _ _ _ _ _ (by omega)
      · exact decLoop_exitN _ _ _ _ _ _ _ _ _ _ (by omega)
  | succ n ih =>
    intro es bp pi pt hs hpt hf
    obtain ⟨es2, he2, hok2, hback2, hlock2⟩ := step_lock w h V F R hC hX hV orient bp pi pt hpt es hs
    obtain ⟨es3, he3, hok3, hback3, hlock3⟩ := segE_lock w h V F R hC hX style bp pt pt es2 hok2
    obtain ⟨es4, he4, hok4, hback4, hlock4⟩ := resetE_lock w h V F R hX style bp pt es3 hok3
    by_cases hp2 : pt = 2
    · obtain ⟨esP, heP, hokP, hbackP, hlockP⟩ := ih es4 (bp - 1) (pi + 1) 0 hok4 (by omega) (by omega)
      refine ⟨esP, ?_, hokP, fun hF => hback2 (hback3 (hback4 (hbackP hF))), ?_⟩
      · conv => lhs; unfold encPassesN
        rw [he2]; simp only [Option.bind_some]
        rw [he3]; simp only [Option.bind_some]
        rw [he4]; simp only [Option.bind_some]
        rw [if_pos hp2]; exact heP
      · intro hF ds hP hnp fuel hfu
        have hF4 := hbackP hF
        obtain ⟨ds2, hd2, hP2⟩ := hlock2 (hback3 (hback4 hF4)) ds hP
        obtain ⟨ds3, hd3, _, hP3⟩ := hlock3 (hback4 hF4) ds2 hP2
        obtain ⟨ds4, hd4, _, lev, hL4, _, _, h2⟩ := hlock4 ds3 hP3
        have hall := h2 hp2
        obtain ⟨f, rfl⟩ : ∃ f, fuel = f + 1 := ⟨fuel - 1, by omega⟩
        obtain ⟨ds', bpL, ptL, lev', hd', hr1, hr2, hr3, hr4, hr5⟩ := hlockP hF ds4 ⟨lev, hL4.replane hall (by omega),
          fun _ j hj => by rw [hall j hj]; omega, fun hh => absurd hh (by decide), fun hh => absurd hh (by decide)⟩ (by omega) f (by omega)
        refine ⟨ds', bpL, ptL, lev', ?_, hr1, by omega, hr3, hr4, hr5⟩
        rw [decLoop_step w h orient style np f ds bp pi pt hpt (by omega), hd2]
        simp only [Option.bind_some]
        rw [hd3]; simp only [Option.bind_some]
        unfold resetD at hd4
        by_cases hr : styReset style = true
        · rw [if_pos ⟨hr, by omega⟩]
          rw [if_pos hr] at hd4
          rw [hd4]; simp only [Option.bind_some]
          rw [if_pos hp2, show ((bp : Int) - 1) = ((bp - 1 : Nat) : Int) by omega]
          exact hd'
        · rw [if_neg (fun hh => hr hh.1)]
          rw [if_neg hr] at hd4
          simp only [Option.bind_some]
          rw [Option.some.inj hd4]
          rw [if_pos hp2, show ((bp : Int) - 1) = ((bp - 1 : Nat) : Int) by omega]
          exact hd'
    · obtain ⟨esP, heP, hokP, hbackP, hlockP⟩ := ih es4 bp (pi + 1) (pt + 1) hok4 (by omega) (by omega)
      refine ⟨esP, ?_, hokP, fun hF => hback2 (hback3 (hback4 (hbackP hF))), ?_⟩
      · conv => lhs; unfold encPassesN
        rw [he2]; simp only [Option.bind_some]
        rw [he3]; simp only [Option.bind_some]
        rw [he4]; simp only [Option.bind_some]
        rw [if_neg hp2]; exact heP
      · intro hF ds hP hnp fuel hfu
        have hF4 := hbackP hF
        obtain ⟨ds2, hd2, hP2⟩ := hlock2 (hback3 (hback4 hF4)) ds hP
        obtain ⟨ds3, hd3, _, hP3⟩ := hlock3 (hback4 hF4) ds2 hP2
        obtain ⟨ds4, hd4, _, lev, hL4, h0, h1, _⟩ := hlock4 ds3 hP3
        obtain ⟨f, rfl⟩ : ∃ f, fuel = f + 1 := ⟨fuel - 1, by omega⟩
        obtain ⟨ds', bpL, ptL, lev', hd', hr1, hr2, hr3, hr4, hr5⟩ := hlockP hF ds4 ⟨lev, hL4, fun hh => absurd hh (by omega),
          fun hh => h0 (by omega), fun hh => ⟨fun hh' => absurd hh' (by omega), fun _ => h1 (by omega)⟩⟩ (by omega) f (by omega)
        refine ⟨ds', bpL, ptL, lev', ?_, hr1, by omega, hr3, hr4, hr5⟩
        rw [decLoop_step w h orient style np f ds bp pi pt hpt (by omega), hd2]
        simp only [Option.bind_some]
        rw [hd3]; simp only [Option.bind_some]
        unfold resetD at hd4
        by_cases hr : styReset style = true
        · rw [if_pos ⟨hr, by omega⟩]
          rw [if_pos hr] at hd4
          rw [hd4]; simp only [Option.bind_some]
          rw [if_neg hp2]
          exact hd'
        · rw [if_neg (fun hh => hr hh.1)]
          rw [if_neg hr] at hd4
          simp only [Option.bind_some]
          rw [Option.some.inj hd4]
          rw [if_neg hp2]
          exact hd'
end Lock

/-- `Encode`'s loop with a pass budget that ends before the last pass: no termination inside the loop -/
theorem encLoopN_split (w h orient style : Nat) (V : Array Int) (mb np : Nat)
    (hT : Go.and (style : Int) J2kT1.CblkStyleTermAll = 0) (hL : Go.and (style : Int) J2kT1.CblkStyleLazy = 0) :
    ∀ (n : Nat) (fuel : Nat) (es : EncSt) (bp pi pt : Nat),
    pt ≤ 2 → n < 3 * bp + 3 - pt → pi + n = np → n ≤ fuel →
    encLoop w h orient style V mb np fuel es (bp : Int) pi pt false =
      (encPassesN w h orient style V n es bp pi pt).map fun st => (st, false) := by
  intro n
  induction n with
  | zero =>
    intro fuel es bp pi pt _ _ hnp _
    rw [encLoop_exitN _ _ _ _ _ _ _ _ _ _ _ _ _ (by omega)]
    rfl
  | succ n ih =>
    intro fuel es bp pi pt hpt hf hnp hfu
    obtain ⟨f, rfl⟩ : ∃ f, fuel = f + 1 := ⟨fuel - 1, by omega⟩
    rw [encLoop_step w h orient style V mb np f es bp pi pt hpt (by omega)]
    conv => rhs; unfold encPassesN
    cases passE w h orient V bp pt (cvE pi pt es) with
    | none => rfl
    | some st =>
      simp only [Option.bind_some]
      cases segE style pt st with
      | none => rfl
      | some st1 =>
        simp only [Option.bind_some]
        rw [nontermS _ _ _ _ hT hL (by omega)]
        simp only [Bool.false_eq_true, if_false, Option.bind_some]
        cases resetE style st1 with
        | none => rfl
        | some st2 =>
          simp only [Option.bind_some]
          by_cases hp2 : pt = 2
          · rw [if_pos hp2, if_pos hp2, show ((bp : Int) - 1) = ((bp - 1 : Nat) : Int) by omega]
            exact ih f st2 (bp - 1) (pi + 1) 0 (by omega) (by omega) (by omega) (by omega)
          · rw [if_neg hp2, if_neg hp2]
            exact ih f st2 bp (pi + 1) (pt + 1) (by omega) (by omega) (by omega) (by omega)

/-- **T1 with a truncated pass count** (style without LAZY and TERMALL, `1 ≤ np < 3·mb+1`): the decoder, given the
same pass count, returns every coefficient truncated below plane `lev x y`, which is the plane of the last coded
pass or the one above it (exactly that plane after a cleanup pass) -/
theorem t1_truncated (w h orient style mb np : Nat) (coeffs : List Int) (hlen : coeffs.length = w * h)
    (hbnd : ∀ c ∈ coeffs, c.natAbs < 2147483648) (hmb : findMaxBitplane (padBlock w h coeffs) = some mb)
    (hT : Go.and (style : Int) J2kT1.CblkStyleTermAll = 0) (hL : Go.and (style : Int) J2kT1.CblkStyleLazy = 0)
    (h1 : 1 ≤ np) (h2 : np < 3 * mb + 1) :
    ∃ (bytes : List Nat) (lev : Nat → Nat → Nat), encodeBlock w h orient style coeffs np = .ok bytes ∧
      decodeBlock w h orient style np (mb : Int) bytes =
        .ok ((List.range h).flatMap fun y => (List.range w).map fun x => tr (lev x y) (coeffs.getD (y * w + x) 0)) ∧
      ∀ x y, x < w → y < h → (lev x y = mb - (np + 1) / 3 ∨ lev x y = mb - (np + 1) / 3 + 1) ∧
        (np % 3 = 1 → lev x y = mb - (np + 1) / 3) := by
  obtain ⟨n, rfl⟩ : ∃ n, np = n + 1 := ⟨np - 1, by omega⟩
  obtain ⟨hVsz, hVget⟩ := padBlock_get w h coeffs
  have hVb := padBlock_bound w h coeffs hbnd
  have hz := maxbp_zero _ mb hmb
  obtain ⟨h0, n0, s0⟩ := Mqc.new_ok NUMCONTEXTS
  have hi0 := initCtx_eq (Mqc.Enc.new NUMCONTEXTS) s0
  obtain ⟨e0, he0, hr0, hn0, hsz0⟩ := initCtx_ok
  have hee : e0 = { Mqc.Enc.new NUMCONTEXTS with ctx := ctx3 (Mqc.Enc.new NUMCONTEXTS).ctx } :=
    Option.some.inj (he0.symm.trans hi0)
  subst hee
  have hs0 : EncOk w h (padBlock w h coeffs)
      { flags := Array.replicate ((w + 2) * (h + 2)) 0,
        mq := { Mqc.Enc.new NUMCONTEXTS with ctx := ctx3 (Mqc.Enc.new NUMCONTEXTS).ctx } } :=
    ⟨by simp, hVsz, hr0, hn0, hsz0⟩
  obtain ⟨esP, hP1, hokP, _, _⟩ := passesN_lock w h (padBlock w h coeffs) _ _ (coder_mq _ 1 1 bok_dummy) (coderCtx_mq _ 1 1) hVb orient style (n + 1)
    n _ mb 0 2 hs0 (by omega) (by omega)
  obtain ⟨ef, bytes, last, len, hfl, hB, hfe, hblen, hbytes, _, hl1⟩ := Mqc.flush_facts esP.mq hokP.reg hokP.norm
  obtain ⟨esP', hP', _, hbackP, hlockP⟩ := passesN_lock w h (padBlock w h coeffs) _ _ (coder_mq _ last len hB) (coderCtx_mq _ last len) hVb orient style (n + 1)
    n _ mb 0 2 hs0 (by omega) (by omega)
  have hpp : esP' = esP := Option.some.inj (hP'.symm.trans hP1)
  subst hpp
  have hfe0 : Mqc.FE (Mqc.finalB ef.buf last) last (Mqc.Enc.new NUMCONTEXTS) := hbackP hfe
  obtain ⟨d0, hd0, hrel0⟩ := Mqc.decNew_rel _ last len hB NUMCONTEXTS bytes hblen hbytes hl1 hfe0
  have hd0sz : d0.ctx.size = 19 := by rw [hrel0.ctx]; exact s0
  have hid0 := initCtxDec_eq d0 hd0sz
  have hrel1 : Mqc.Rel (Mqc.finalB ef.buf last) last len
      { Mqc.Enc.new NUMCONTEXTS with ctx := ctx3 (Mqc.Enc.new NUMCONTEXTS).ctx } { d0 with ctx := ctx3 d0.ctx } :=
    ⟨hrel0.a, congrArg ctx3 hrel0.ctx, hrel0.size, hrel0.data, hrel0.bple, hrel0.eos, hrel0.ctlo, hrel0.cthi,
      hrel0.ahead, hrel0.wdeq, hrel0.eq⟩
  have hrep : ∀ j, gi (Array.replicate ((w + 2) * (h + 2)) (0 : Int)) j = 0 := by
    intro j; unfold gi; rw [Array.getElem?_replicate]; split <;> rfl
  have hrepf : ∀ j, sigA (Array.replicate ((w + 2) * (h + 2)) (0 : Nat)) j = false := by
    intro j; unfold sigA gf; rw [Array.getElem?_replicate]; split <;> rfl
  obtain ⟨ds', bpL, ptL, lev, hd', hr1, hr2, hr3, hdsz', hdata'⟩ := hlockP hfe
    { flags := Array.replicate ((w + 2) * (h + 2)) 0, data := Array.replicate ((w + 2) * (h + 2)) 0,
      mq := { d0 with ctx := ctx3 d0.ctx } }
    ⟨fun _ => mb + 1, ⟨rfl, by simp, hrel1, fun j _ =>
        ⟨Or.inr rfl, by show gi (Array.replicate _ 0) j = _; rw [hrep, tr_zero _ _ (hz j)],
         by show sigA (Array.replicate _ 0) j = true ↔ _; rw [hrepf, hz j]; simp⟩⟩,
      fun hh => absurd hh (by decide), fun hh => absurd hh (by decide),
      fun _ => ⟨fun _ => ⟨fun j _ => rfl, fun j _ => hrepf j⟩, fun hh => absurd rfl hh⟩⟩ (by omega) (n + 1 + 1) (by omega)
  refine ⟨bytes, fun x y => lev (idxOf w x y), ?_, ?_, ?_⟩
  · unfold encodeBlock
    rw [if_neg (by rw [hlen]; exact fun hc => hc rfl)]
    simp only []
    rw [hmb]
    simp only []
    rw [hi0]
    simp only []
    rw [encLoopN_split w h orient style _ mb (n + 1) hT hL (n + 1) (n + 1 + 1) _ mb 0 2 (by omega) (by omega) (by omega) (by omega), hP']
    simp only [Option.map_some, Bool.false_eq_true, if_false, hfl]
  · unfold decodeBlock
    rw [if_neg (by omega), hd0]
    simp only []
    rw [hid0]
    simp only []
    rw [hd']
    simp only []
    rw [mapM_get ds'.data _ (by
      intro i hi
      simp only [List.mem_flatMap, List.mem_range, List.mem_map] at hi
      obtain ⟨y, hy, x, hx, rfl⟩ := hi
      rw [hdsz']; exact idx_lt w h x y hx hy)]
    simp only []
    congr 1
    rw [List.map_flatMap]
    apply flatMap_congr'
    intro y hy
    rw [List.map_map]
    apply List.map_congr_left
    intro x hx
    have hy' := List.mem_range.mp hy
    have hx' := List.mem_range.mp hx
    show gi ds'.data (idxOf w x y) = _
    rw [(hdata' _ ⟨x, y, hx', hy', rfl⟩).1, hVget x y hx' hy']
  · intro x y hx hy
    obtain ⟨_, hl, hl2⟩ := hdata' _ ⟨x, y, hx, hy, rfl⟩
    have hpl : (ptL = 2 → mb - (n + 1 + 1) / 3 = bpL ∧ (n + 1) % 3 = 1) ∧ (ptL ≠ 2 → mb - (n + 1 + 1) / 3 = bpL ∧ (n + 1) % 3 ≠ 1) := by
      omega
    by_cases hp : ptL = 2
    · rw [(hpl.1 hp).1]; exact ⟨hl, fun _ => hl2 hp⟩
    · rw [(hpl.2 hp).1]; exact ⟨hl, fun hh => absurd hh (hpl.2 hp).2⟩

end T1
