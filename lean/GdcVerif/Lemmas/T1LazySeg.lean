import GdcVerif.Lemmas.T1LazyStep
/-!
  C20 — the raw codeword segments of the LAZY mode at T1 level: one pass (under TERMALL, and the refinement pass
  alone) or the significance + refinement pair, against the raw reader on the bytes of the segment.
-/
namespace T1
open Gen

theorem rawOk_init (e : Mqc.Enc) (h : TermOk e) : Mqc.RawOk e.bp (Mqc.bypassInitEnc e) := by
  have hect : Mqc.ect (Mqc.bypassInitEnc e) = 8 := by unfold Mqc.ect Mqc.bypassInitEnc; simp
  refine ⟨h.bp1, Nat.le_refl _, h.sz, h.bytes, h.marker, h.last, fun _ => ⟨rfl, rfl⟩, by rw [hect]; omega, by rw [hect]; omega,
    by show (0 : Nat) < 256; omega, by show 0 % _ = 0; exact Nat.zero_mod _, fun hh => absurd hh h.last, fun hh => ?_⟩
  have : Mqc.bypassCtInit = 8 := hh
  unfold Mqc.bypassCtInit at this; omega

theorem rawOk_ctx (p0 : Nat) (e : Mqc.Enc) (C : Array Nat) (h : Mqc.RawOk p0 e) : Mqc.RawOk p0 { e with ctx := C } :=
  ⟨h.p1, h.hp, h.sz, h.bytes, h.marker, h.prev, h.init, h.ctlo, h.cthi, h.c8, h.cmod, h.ff, h.first⟩

theorem fr_ctx (p0 : Nat) (Bt : Nat → Nat) (nt : Nat) (e : Mqc.Enc) (C : Array Nat) (h : Mqc.FR p0 Bt nt { e with ctx := C }) :
    Mqc.FR p0 Bt nt e := ⟨h.agree, h.le, h.pend, h.cur⟩

theorem rr_ctx (p0 : Nat) (Bt : Nat → Nat) (nt drop : Nat) (e : Mqc.Enc) (C : Array Nat) (d : Mqc.Dec)
    (h : Mqc.RR p0 Bt nt drop e d) : Mqc.RR p0 Bt nt drop { e with ctx := C } d := h

/-- the context reset after a pass -/
theorem reset_after (style : Nat) (fl : Array Nat) (ef : Mqc.Enc) (hsz : ef.ctx.size = 19) (hcok : Mqc.CtxOk ef.ctx) :
    ∃ C, resetE style { flags := fl, mq := ef } = some { flags := fl, mq := { ef with ctx := C } } ∧ C.size = 19 ∧
      Mqc.CtxOk C ∧ (styReset style = true → C = ctx3 (Array.replicate 19 0)) ∧ (styReset style = false → C = ef.ctx) := by
  unfold resetE
  by_cases hr : styReset style = true
  · rw [if_pos hr]
    have hsz' : (Mqc.resetContexts ef).ctx.size = 19 := by
      unfold Mqc.resetContexts; simp only [Array.size_replicate]; exact hsz
    obtain ⟨m', em', hs', _, _, _, _, _, hc'⟩ := resetInit_some ef hsz
    have hm'' := initCtx_eq (Mqc.resetContexts ef) hsz'
    have hmm : m' = { Mqc.resetContexts ef with ctx := ctx3 (Mqc.resetContexts ef).ctx } :=
      Option.some.inj (em'.symm.trans hm'')
    rw [hm'']
    have hC : ctx3 (Mqc.resetContexts ef).ctx = ctx3 (Array.replicate 19 0) := by
      show ctx3 (Array.replicate ef.ctx.size 0) = _; rw [hsz]
    refine ⟨ctx3 (Array.replicate 19 0), ?_, ?_, ?_, fun _ => rfl, fun hh => absurd hr (by rw [hh]; simp)⟩
    · simp only [Option.map_some]; rw [hC]; rfl
    · rw [← hC, ← show m'.ctx = ctx3 (Mqc.resetContexts ef).ctx by rw [hmm]]; exact hs'
    · rw [← hC, ← show m'.ctx = ctx3 (Mqc.resetContexts ef).ctx by rw [hmm]]; exact hc'
  · rw [if_neg hr]
    exact ⟨ef.ctx, rfl, hsz, hcok, fun hh => absurd hh hr, fun _ => rfl⟩

theorem cv_startG (raw : Bool) (pi pt : Nat) (prevT : Bool) (es : EncSt) :
    startG raw prevT (cvE pi pt es) = cvE pi pt (startG raw prevT es) := by
  unfold startG cvE
  cases prevT <;> simp only [Bool.false_eq_true, if_false, if_true] <;> split <;> rfl

/-- `BypassExtraBytes` is total inside a raw segment and adds at most one byte -/
theorem extra_ok (p0 : Nat) (e : Mqc.Enc) (h : Mqc.RawOk p0 e) (erterm : Bool) :
    ∃ x, bypassExtraBytes e erterm = some x ∧ x ≤ 1 := by
  unfold bypassExtraBytes
  split
  · exact ⟨1, rfl, by omega⟩
  · split
    · split
      · exact ⟨1, rfl, by omega⟩
      · split
        · rw [Mqc.rd_some e.buf (e.bp - 1) (by have := h.sz; have := h.hp; have := h.p1; omega)]
          simp only []
          split
          · exact ⟨1, rfl, by omega⟩
          · exact ⟨0, rfl, by omega⟩
        · exact ⟨0, rfl, by omega⟩
    · exact ⟨0, rfl, by omega⟩

/-- encoder invariant inside the raw segment that starts at `p0`: contexts `C` untouched, bytes in front of `p0` frozen -/
def PR (p0 : Nat) (C b0 : Array Nat) (e : Mqc.Enc) : Prop :=
  Mqc.RawOk p0 e ∧ e.ctx = C ∧ ∀ j, j < p0 → Mqc.rd e.buf j = Mqc.rd b0 j

theorem pr_total (p0 : Nat) (C b0 : Array Nat) (e : Mqc.Enc) (bit : Nat) (h : PR p0 C b0 e) (hb : bit ≤ 1) :
    ∃ e1, Mqc.bypassEncode e bit = some e1 ∧ PR p0 C b0 e1 := by
  obtain ⟨k, hk, _⟩ := Mqc.ect_nat p0 e h.1
  obtain ⟨e1, he, h1, hctx, _, hcase⟩ := Mqc.bypassEncode_spec p0 e h.1 bit k hk hb
  refine ⟨e1, he, h1, by rw [hctx]; exact h.2.1, fun j hj => ?_⟩
  rcases hcase with ⟨_, hbuf, _⟩ | ⟨_, _, _, hrd, _⟩
  · rw [hbuf]; exact h.2.2 j hj
  · rw [hrd, if_neg (by have := h.1.hp; omega)]; exact h.2.2 j hj

theorem rawCoderC_seg (p0 : Nat) (Bt : Nat → Nat) (nt drop : Nat) (hfin : Mqc.RawFin p0 Bt nt drop) (C b0 : Array Nat) :
    RawCoder (PR p0 C b0) (Mqc.FR p0 Bt nt) (Mqc.RR p0 Bt nt drop) :=
  ⟨fun e bit h hb => pr_total p0 C b0 e bit h hb,
   fun e e1 bit h hb he hf => Mqc.raw_back p0 Bt nt e e1 bit h.1 hb he hf,
   fun e e1 d bit h hb hr he hf => Mqc.raw_step p0 Bt nt drop hfin e e1 d bit h.1 hb hr he hf⟩

theorem rawCoderC_fwd (p0 : Nat) (C b0 : Array Nat) : RawCoder (PR p0 C b0) (fun _ => True) (fun _ _ => False) :=
  ⟨fun e bit h hb => pr_total p0 C b0 e bit h hb, fun _ _ _ _ _ _ _ => True.intro, fun _ _ _ _ _ _ hr _ _ => hr.elim⟩

theorem startG_raw (es : EncSt) : startG true true es = { es with mq := Mqc.bypassInitEnc es.mq } := by
  unfold startG; simp

section Seg
variable (w h : Nat) (V : Array Int) (hV : ∀ j, (gi V j).natAbs < 2147483648)
include hV

/-- a raw codeword segment of one pass -/
theorem rseg1_lock (orient style bp pi pt : Nat) (hpt : pt ≤ 1) (es : EncSt)
    (hfs : es.flags.size = (w + 2) * (h + 2)) (hds : V.size = (w + 2) * (h + 2)) (hT : TermOk es.mq)
    (hcs : es.mq.ctx.size = 19) :
    ∃ es2 ef es4, passER w h orient V bp pt (cvE pi pt (startG true true es)) = some es2 ∧
      Mqc.bypassFlushEnc es2.mq (styPterm style) = some ef ∧
      resetE style { es2 with mq := ef } = some es4 ∧
      es4.flags.size = (w + 2) * (h + 2) ∧ es4.mq.buf = ef.buf ∧ es4.mq.bp = ef.bp ∧ TermOk es4.mq ∧ es4.mq.ctx.size = 19 ∧
      (styReset style = true → es4.mq.ctx = ctx3 (Array.replicate 19 0)) ∧
      (styReset style = false → es4.mq.ctx = es.mq.ctx) ∧
      (∀ j, j < es.mq.bp → Mqc.rd ef.buf j = Mqc.rd es.mq.buf j) ∧ es.mq.bp ≤ ef.bp ∧
      (∀ (bytesF : List Nat), Agree bytesF ef → ∀ (ds : DecSt), PInv w h V (fun _ _ => True) bp pi pt es ds →
        ∃ ds3, passDR w h orient bp pt
            { cvD pi pt ds with mq := Mqc.Dec.newRaw ((bytesF.take (ef.bp - 1)).drop (es.mq.bp - 1)) } = some ds3 ∧
          Post w h V (fun _ _ => True) bp pt es4 ds3) := by
  rw [startG_raw]
  have hr0 := rawOk_init es.mq hT
  have hs1 : EncOkR w h V (PR es.mq.bp es.mq.ctx es.mq.buf) { es with mq := Mqc.bypassInitEnc es.mq } :=
    ⟨hfs, hds, hr0, rfl, fun _ _ => rfl⟩
  obtain ⟨es2, he2, hok2, _, _⟩ := rstep_lock w h V _ _ _ (rawCoderC_fwd es.mq.bp es.mq.ctx es.mq.buf) hV orient bp pi pt hpt _ hs1
  obtain ⟨ef, Bt, nt, drop, hfl, hfin, hfr, hend, hbpf, hagr⟩ := Mqc.raw_flush_facts es.mq.bp es2.mq hok2.raw.1 (styPterm style)
  have hefctx : ef.ctx = es.mq.ctx := by rw [hend.ctx]; exact hok2.raw.2.1
  obtain ⟨C, hre, hCsz, hCok, hC1, hC2⟩ := reset_after style es2.flags ef (by rw [hefctx]; exact hcs) (by rw [hefctx]; exact hT.ctx)
  have hp1 := hT.bp1
  refine ⟨es2, ef, _, he2, hfl, hre, hok2.fsz, rfl, rfl,
    ⟨by show 1 ≤ ef.bp; have := hend.bp1; omega, hend.sz, hend.bytes, hend.marker, hend.last, hCok⟩, hCsz, hC1,
    fun hh => by show C = _; rw [hC2 hh, hefctx],
    fun j hj => by rw [hend.frozen j hj]; exact hok2.raw.2.2 j hj, hend.bp1, ?_⟩
  intro bytesF hag ds hP
  have hdle := hfin.dle
  have hlen : ((bytesF.take (ef.bp - 1)).drop (es.mq.bp - 1)).length = nt - drop := by
    rw [List.length_drop, List.length_take]; have := hag.2; omega
  have hseg : ∀ k, k < nt - drop → ((bytesF.take (ef.bp - 1)).drop (es.mq.bp - 1))[k]? = some (Bt (es.mq.bp + k)) := by
    intro k hk
    rw [List.getElem?_drop, List.getElem?_take, if_pos (by omega), hag.1 (es.mq.bp - 1 + k) (by omega),
      show es.mq.bp - 1 + k + 1 = es.mq.bp + k by omega, hagr (es.mq.bp + k) (by omega) (by omega)]
  have hCr := rawCoderC_seg es.mq.bp Bt nt drop hfin es.mq.ctx es.mq.buf
  obtain ⟨es2', he2', _, _, hl2⟩ := rstep_lock w h V _ _ _ hCr hV orient bp pi pt hpt _ hs1
  have e22 : es2' = es2 := Option.some.inj (he2'.symm.trans he2)
  subst e22
  have hrel := Mqc.raw_init es.mq.bp Bt nt drop (Mqc.bypassInitEnc es.mq) hr0 rfl _ hlen hseg
  obtain ⟨lev, hL, c0, c1, c2⟩ := hP
  obtain ⟨ds2, hd2, lev2, hL2, q0, q1, q2⟩ := hl2 hfr { ds with mq := Mqc.Dec.newRaw ((bytesF.take (ef.bp - 1)).drop (es.mq.bp - 1)) }
    ⟨lev, ⟨hL.fl, hL.dsz, hrel, hL.smp⟩, c0, c1, c2⟩
  refine ⟨ds2, by rw [← cvD_mq]; exact hd2, lev2, ⟨hL2.fl, hL2.dsz, True.intro, hL2.smp⟩, q0, q1, q2⟩

/-- a raw codeword segment of two passes: significance propagation (not terminated), then magnitude refinement -/
theorem rseg2_lock (orient style bp pi : Nat) (es : EncSt)
    (hfs : es.flags.size = (w + 2) * (h + 2)) (hds : V.size = (w + 2) * (h + 2)) (hT : TermOk es.mq)
    (hcs : es.mq.ctx.size = 19) :
    ∃ es2 es3 x1 es4 ef es5, passER w h orient V bp 0 (cvE pi 0 (startG true true es)) = some es2 ∧
      resetE style es2 = some es3 ∧ bypassExtraBytes es3.mq (styPterm style) = some x1 ∧ x1 ≤ 1 ∧
      es.mq.bp ≤ es3.mq.bp ∧
      passER w h orient V bp 1 es3 = some es4 ∧
      Mqc.bypassFlushEnc es4.mq (styPterm style) = some ef ∧
      resetE style { es4 with mq := ef } = some es5 ∧
      es5.flags.size = (w + 2) * (h + 2) ∧ es5.mq.buf = ef.buf ∧ es5.mq.bp = ef.bp ∧ TermOk es5.mq ∧ es5.mq.ctx.size = 19 ∧
      (styReset style = true → es5.mq.ctx = ctx3 (Array.replicate 19 0)) ∧
      (styReset style = false → es5.mq.ctx = es.mq.ctx) ∧
      (∀ j, j < es.mq.bp → Mqc.rd ef.buf j = Mqc.rd es.mq.buf j) ∧ es.mq.bp ≤ ef.bp ∧
      (∀ (bytesF : List Nat), Agree bytesF ef → ∀ (ds : DecSt), PInv w h V (fun _ _ => True) bp pi 0 es ds →
        ∃ ds2 ds4, passDR w h orient bp 0
            { cvD pi 0 ds with mq := Mqc.Dec.newRaw ((bytesF.take (ef.bp - 1)).drop (es.mq.bp - 1)) } = some ds2 ∧
          passDR w h orient bp 1 ds2 = some ds4 ∧
          Post w h V (fun _ _ => True) bp 1 es5 ds4) := by
  rw [startG_raw]
  have hr0 := rawOk_init es.mq hT
  have hs1 : EncOkR w h V (PR es.mq.bp es.mq.ctx es.mq.buf) { es with mq := Mqc.bypassInitEnc es.mq } :=
    ⟨hfs, hds, hr0, rfl, fun _ _ => rfl⟩
  obtain ⟨es2, he2, hok2, _, _⟩ := rstep_lock w h V _ _ _ (rawCoderC_fwd es.mq.bp es.mq.ctx es.mq.buf) hV orient bp pi 0 (by omega) _ hs1
  -- the reset between the two passes
  obtain ⟨C1, hre1, hC1sz, hC1ok, hC1a, hC1b⟩ := reset_after style es2.flags es2.mq (by rw [hok2.raw.2.1]; exact hcs)
    (by rw [hok2.raw.2.1]; exact hT.ctx)
  have hs3 : EncOkR w h V (PR es.mq.bp C1 es.mq.buf) { flags := es2.flags, mq := { es2.mq with ctx := C1 } } :=
    ⟨hok2.fsz, hds, rawOk_ctx _ _ C1 hok2.raw.1, rfl, hok2.raw.2.2⟩
  obtain ⟨x1, hx1, hx1le⟩ := extra_ok es.mq.bp _ hs3.raw.1 (styPterm style)
  have hcv3 : ∀ (st : EncSt), cvE (pi + 1) 1 st = st := by
    intro st; unfold cvE; rw [if_neg (by omega)]
  obtain ⟨es4, he4, hok4, _, _⟩ := rstep_lock w h V _ _ _ (rawCoderC_fwd es.mq.bp C1 es.mq.buf) hV orient bp (pi + 1) 1 (by omega) _ hs3
  rw [hcv3] at he4
  obtain ⟨ef, Bt, nt, drop, hfl, hfin, hfr, hend, hbpf, hagr⟩ := Mqc.raw_flush_facts es.mq.bp es4.mq hok4.raw.1 (styPterm style)
  have hefctx : ef.ctx = C1 := by rw [hend.ctx]; exact hok4.raw.2.1
  obtain ⟨C, hre, hCsz, hCok, hCa, hCb⟩ := reset_after style es4.flags ef (by rw [hefctx]; exact hC1sz) (by rw [hefctx]; exact hC1ok)
  have hp1 := hT.bp1
  refine ⟨es2, _, x1, es4, ef, _, he2, hre1, hx1, hx1le, hok2.raw.1.hp, he4, hfl, hre, hok4.fsz, rfl, rfl,
    ⟨by show 1 ≤ ef.bp; have := hend.bp1; omega, hend.sz, hend.bytes, hend.marker, hend.last, hCok⟩, hCsz, hCa,
    fun hh => by show C = _; rw [hCb hh, hefctx, hC1b hh, hok2.raw.2.1],
    fun j hj => by rw [hend.frozen j hj]; exact hok4.raw.2.2 j hj, hend.bp1, ?_⟩
  intro bytesF hag ds hP
  have hdle := hfin.dle
  have hlen : ((bytesF.take (ef.bp - 1)).drop (es.mq.bp - 1)).length = nt - drop := by
    rw [List.length_drop, List.length_take]; have := hag.2; omega
  have hseg : ∀ k, k < nt - drop → ((bytesF.take (ef.bp - 1)).drop (es.mq.bp - 1))[k]? = some (Bt (es.mq.bp + k)) := by
    intro k hk
    rw [List.getElem?_drop, List.getElem?_take, if_pos (by omega), hag.1 (es.mq.bp - 1 + k) (by omega),
      show es.mq.bp - 1 + k + 1 = es.mq.bp + k by omega, hagr (es.mq.bp + k) (by omega) (by omega)]
  obtain ⟨es2', he2', _, hb2, hl2⟩ := rstep_lock w h V _ _ _ (rawCoderC_seg es.mq.bp Bt nt drop hfin es.mq.ctx es.mq.buf) hV orient bp pi 0 (by omega) _ hs1
  have e22 : es2' = es2 := Option.some.inj (he2'.symm.trans he2)
  subst e22
  obtain ⟨es4', he4', _, hb4, hl4⟩ := rstep_lock w h V _ _ _ (rawCoderC_seg es.mq.bp Bt nt drop hfin C1 es.mq.buf) hV orient bp (pi + 1) 1 (by omega) _ hs3
  rw [hcv3] at he4'
  have e44 : es4' = es4 := Option.some.inj (he4'.symm.trans he4)
  subst e44
  have hF3 : Mqc.FR es.mq.bp Bt nt ({ es2'.mq with ctx := C1 } : Mqc.Enc) := hb4 hfr
  have hF2 : Mqc.FR es.mq.bp Bt nt es2'.mq := fr_ctx _ _ _ _ C1 hF3
  have hrel := Mqc.raw_init es.mq.bp Bt nt drop (Mqc.bypassInitEnc es.mq) hr0 rfl _ hlen hseg
  obtain ⟨lev, hL, c0, c1, c2⟩ := hP
  obtain ⟨ds2, hd2, lev2, hL2, q0, q1, q2⟩ := hl2 hF2 { ds with mq := Mqc.Dec.newRaw ((bytesF.take (ef.bp - 1)).drop (es.mq.bp - 1)) }
    ⟨lev, ⟨hL.fl, hL.dsz, hrel, hL.smp⟩, c0, c1, c2⟩
  have hcvd : ∀ (st : DecSt), cvD (pi + 1) 1 st = st := by
    intro st; unfold cvD; rw [if_neg (by omega)]
  obtain ⟨ds4, hd4, lev4, hL4, r0, r1, r2⟩ := hl4 hfr ds2
    ⟨lev2, ⟨hL2.fl, hL2.dsz, rr_ctx _ _ _ _ _ C1 _ hL2.rel, hL2.smp⟩, fun hh => absurd hh (by decide), fun _ => q0 rfl,
      fun hh => absurd hh (by decide)⟩
  rw [hcvd] at hd4
  exact ⟨ds2, ds4, by rw [← cvD_mq]; exact hd2, hd4, lev4, ⟨hL4.fl, hL4.dsz, True.intro, hL4.smp⟩, r0, r1, r2⟩
end Seg

end T1
