import GdcVerif.Model.JpegContainer
import GdcVerif.Spec.StrictJpeg
/-!
  Helper lemmas of C16: the bridge between the code-shaped container model
  (`Model/JpegContainer.lean`) and the independent strict reader (`Spec/StrictJpeg.lean`).
-/
namespace JpegC
open StrictJpeg

/-! ## arithmetic of the Go conversions -/

theorem byteOf_natCast (n : Nat) : byteOf (n : Int) = n % 256 := by
  unfold byteOf; omega

theorem byteOf_lt (x : Int) : byteOf x < 256 := by
  unfold byteOf; omega

theorem u16Of_small (n : Nat) (h : n < 65536) : u16Of (n : Int) = n := by
  unfold u16Of; omega

theorem u32Of_small (n : Nat) (h : n < 4294967296) : u32Of (n : Int) = n := by
  unfold u32Of; omega

theorem shr8_natCast (n : Nat) : Go.shr (n : Int) 8 = ((n / 256 : Nat) : Int) := by
  unfold Go.shr
  rw [Int.shiftRight_eq_div_pow]
  simp

/-- `x & 0xFF` keeps the low byte: `byte(x & 0xFF) = byte(x)` for every non-negative `x < 2^63`. -/
theorem byteOf_and255 (n : Nat) : byteOf (Go.and (n : Int) 0xFF) = n % 256 := by
  unfold Go.and
  have h1 : (BitVec.ofInt 64 (n : Int)) = BitVec.ofNat 64 n := by
    apply BitVec.eq_of_toNat_eq; simp
  have h2 : (BitVec.ofInt 64 (0xFF : Int)) = BitVec.ofNat 64 255 := by decide
  rw [h1, h2]
  have h3 : (BitVec.ofNat 64 n &&& BitVec.ofNat 64 255).toNat = n % 256 := by
    rw [BitVec.toNat_and]
    simp only [BitVec.toNat_ofNat]
    have : (255 : Nat) % 2 ^ 64 = 2 ^ 8 - 1 := by decide
    rw [this, Nat.and_two_pow_sub_one_eq_mod]
    omega
  have h4 : (BitVec.ofNat 64 n &&& BitVec.ofNat 64 255).toInt = ((n % 256 : Nat) : Int) := by
    rw [BitVec.toInt_eq_toNat_of_lt (by rw [h3]; omega), h3]
  rw [h4, byteOf_natCast]
  omega

/-! ## spec-side view of a marker segment -/

def encSeg (m : Nat) (pl : List Nat) : List Nat :=
  [0xFF, m, (pl.length + 2) / 256, (pl.length + 2) % 256] ++ pl

theorem writeSegment_encSeg (marker : Int) (lo : Nat) (hm : writeMarker marker = [0xFF, lo]) (data : List Nat)
    (hl : data.length + 2 < 65536) : writeSegment marker data = encSeg lo data := by
  unfold writeSegment encSeg
  rw [hm]
  have : u16Of ((data.length : Int) + 2) = data.length + 2 := by
    have := u16Of_small (data.length + 2) hl
    simpa using this
  simp only [writeUint16, be16, this]
  have : (data.length + 2) / 256 % 256 = (data.length + 2) / 256 := by omega
  simp [this]

theorem nextSegment_encSeg (m : Nat) (pl rest : List Nat) (hm : standalone m = false)
    (hl : pl.length + 2 < 65536) : nextSegment (encSeg m pl ++ rest) = some (m, pl, rest) := by
  have e : (pl.length + 2) / 256 * 256 + (pl.length + 2) % 256 - 2 = pl.length := by omega
  simp [encSeg, nextSegment, hm, e]
  omega

def foldSteps (st : St) : List (Nat × List Nat) → Option St
  | [] => some st
  | s :: r => (step st s.1 s.2).bind fun st1 => foldSteps st1 r

def encSegs (segs : List (Nat × List Nat)) : List Nat := (segs.map fun s => encSeg s.1 s.2).flatten
def segsLen (segs : List (Nat × List Nat)) : Nat := (segs.map fun s => 4 + s.2.length).sum

def SegOk (s : Nat × List Nat) : Prop := standalone s.1 = false ∧ s.1 ≠ 0xDA ∧ s.2.length + 2 < 65536

instance (s : Nat × List Nat) : Decidable (SegOk s) := by unfold SegOk; infer_instance

theorem headerLoop_segs (segs : List (Nat × List Nat)) : ∀ (st st' : St) (fuel : Nat) (tail : List Nat) (off : Nat),
    (∀ s ∈ segs, SegOk s) → foldSteps st segs = some st' →
    headerLoop (fuel + segs.length) st (encSegs segs ++ tail) off = headerLoop fuel st' tail (off + segsLen segs) := by
  induction segs with
  | nil => intro st st' fuel tail off _ h; simp [foldSteps] at h; subst h; simp [encSegs, segsLen]
  | cons s r ih =>
    intro st st' fuel tail off hok h
    have hs : SegOk s := hok s (by simp)
    obtain ⟨h1, h2, h3⟩ := hs
    simp only [foldSteps] at h
    cases hst : step st s.1 s.2 with
    | none => simp [hst] at h
    | some st1 =>
      simp [hst] at h
      have e : encSegs (s :: r) ++ tail = encSeg s.1 s.2 ++ (encSegs r ++ tail) := by simp [encSegs]
      have el : fuel + (s :: r).length = (fuel + r.length) + 1 := by simp; omega
      rw [e, el, headerLoop, nextSegment_encSeg _ _ _ h1 h3]
      simp only [h2, if_false, hst]
      rw [ih st1 st' fuel tail _ (fun x hx => hok x (by simp [hx])) h]
      simp only [segsLen, List.map_cons, List.sum_cons]
      congr 1; omega

theorem headerLoop_sos (st : St) (fuel : Nat) (sos tail : List Nat) (off : Nat) (hl : sos.length + 2 < 65536) :
    headerLoop (fuel + 1) st (encSeg 0xDA sos ++ tail) off =
      (parseSos st sos).map fun sh => (st, sh, tail, off + 4 + sos.length) := by
  rw [headerLoop, nextSegment_encSeg _ _ _ (by decide) hl]
  simp

theorem entropy_noMarker (rst : Bool) (rest : List Nat) : ∀ scan : List Nat, NoMarker scan = true →
    entropy false rst (scan ++ 0xFF :: 0xD9 :: rest) = some (scan, rest) := by
  intro scan
  induction scan using NoMarker.induct with
  | case1 => intro _; simp [entropy]
  | case2 => intro h; simp [NoMarker] at h
  | case3 b2 rest2 ih =>
    intro h
    simp [NoMarker] at h
    obtain ⟨h1, h2⟩ := h
    subst h1
    simp [entropy, ih h2]
  | case4 b rest' hb ih =>
    intro h
    cases rest' with
    | nil => simp [entropy, hb]
    | cons b2 r2 =>
      simp [NoMarker, hb] at h
      have := ih (by simpa [NoMarker] using h.2)
      rw [List.cons_append] at this
      rw [List.cons_append, List.cons_append, entropy]
      simp [hb, this]

theorem entropy_noMarkerLS (rst : Bool) (rest : List Nat) : ∀ scan : List Nat, NoMarkerLS scan = true →
    entropy true rst (scan ++ 0xFF :: 0xD9 :: rest) = some (scan, rest) := by
  intro scan
  induction scan using NoMarkerLS.induct with
  | case1 => intro _; simp [entropy]
  | case2 => intro h; simp [NoMarkerLS] at h
  | case3 b2 rest2 ih =>
    intro h
    simp [NoMarkerLS] at h
    obtain ⟨h1, h2⟩ := h
    have : b2 ≠ 0xD9 := by omega
    simp [entropy, ih h2, h1, this]
  | case4 b rest' hb ih =>
    intro h
    cases rest' with
    | nil => simp [entropy, hb]
    | cons b2 r2 =>
      simp [NoMarkerLS, hb] at h
      have := ih (by simpa [NoMarkerLS] using h.2)
      rw [List.cons_append] at this
      rw [List.cons_append, List.cons_append, entropy]
      simp [hb, this]

theorem encSegs_length (segs : List (Nat × List Nat)) : (encSegs segs).length = segsLen segs := by
  induction segs with
  | nil => rfl
  | cons s r ih => simp [encSegs, segsLen, encSeg] at ih ⊢; omega

theorem segs_le_len (segs : List (Nat × List Nat)) : segs.length ≤ segsLen segs := by
  induction segs with
  | nil => simp [segsLen]
  | cons s r ih => simp [segsLen] at ih ⊢; omega

/-- the scan predicate the frame's process requires -/
def ScanOk (sof : Nat) (scan : List Nat) : Prop :=
  if sof = 0xF7 then NoMarkerLS scan = true else NoMarker scan = true

/-- CONTAINER THEOREM: a stream made of SOI, well-formed segments accepted by `step`, an SOS segment
    accepted by `parseSos`, ANY entropy-coded byte string without an unescaped marker, and EOI parses
    strictly, with the header ending where the scan starts and EOI being the last two bytes. -/
theorem parse_stream (segs : List (Nat × List Nat)) (sos scan : List Nat) (st : St) (sh : ScanHdr) (f : Frame)
    (hsegs : ∀ s ∈ segs, SegOk s) (hfold : foldSteps {} segs = some st)
    (hsosl : sos.length + 2 < 65536) (hsos : parseSos st sos = some sh)
    (hf : st.frame = some f) (hdri : st.dri = 0) (hscan : ScanOk f.sof scan) (hne : scan ≠ []) :
    parse ([0xFF, 0xD8] ++ encSegs segs ++ encSeg 0xDA sos ++ scan ++ [0xFF, 0xD9]) =
      some { frame := f, scan := sh, dqt := st.dqt, dht := st.dht,
             hdrEnd := 2 + segsLen segs + 4 + sos.length,
             scanEnd := 2 + segsLen segs + 4 + sos.length + scan.length } := by
  have hlen : (encSegs segs ++ (encSeg 0xDA sos ++ (scan ++ [0xFF, 0xD9]))).length
      = (segsLen segs - segs.length + sos.length + 3 + scan.length + 2 + 0) + 1 + segs.length := by
    have := segs_le_len segs
    simp [encSegs_length, encSeg]; omega
  have e : [0xFF, 0xD8] ++ encSegs segs ++ encSeg 0xDA sos ++ scan ++ [0xFF, 0xD9]
      = 0xFF :: 0xD8 :: (encSegs segs ++ (encSeg 0xDA sos ++ (scan ++ [0xFF, 0xD9]))) := by simp
  rw [e, parse]
  simp only [ne_eq, not_true_eq_false, or_self, if_false]
  rw [hlen, headerLoop_segs segs {} st _ _ _ hsegs hfold, headerLoop_sos _ _ _ _ _ hsosl, hsos]
  simp only [Option.map_some, hf, hdri]
  have hent : entropy (decide (f.sof = 0xF7)) (decide (0 > 0)) (scan ++ [0xFF, 0xD9]) = some (scan, []) := by
    unfold ScanOk at hscan
    by_cases h7 : f.sof = 0xF7
    · simp [h7] at hscan ⊢; exact entropy_noMarkerLS _ _ _ hscan
    · simp [h7] at hscan ⊢; exact entropy_noMarker _ _ _ hscan
  simp only [hent]
  cases scan with
  | nil => exact absurd rfl hne
  | cons a r => simp
theorem take_len_append {α} (a b : List α) (n : Nat) (h : a.length = n) : (a ++ b).take n = a := by
  subst h; simp
theorem drop_len_append {α} (a b : List α) (n : Nat) (h : a.length = n) : (a ++ b).drop n = b := by
  subst h; simp

theorem parseDht_single (fuel b tc th : Nat) (bits vals : List Nat) (hb1 : b / 16 = tc) (hb2 : b % 16 = th)
    (htc : tc ≤ 1) (hth : th ≤ 3) (hlen : bits.length = 16) (hs : bits.sum = vals.length) (h256 : vals.length ≤ 256)
    (hk : kraft bits < 65536) (hn : vals.Nodup) :
    parseDht (fuel + 1) (b :: (bits ++ vals)) = some [{ tc := tc, th := th, bits := bits, vals := vals }] := by
  have t16 : (bits ++ vals).take 16 = bits := take_len_append _ _ _ hlen
  have d16 : (bits ++ vals).drop 16 = vals := drop_len_append _ _ _ hlen
  simp only [parseDht, hb1, hb2, t16, d16, hs]
  simp [hn, hlen]
  omega

theorem parseDqt_single (fuel b tq : Nat) (q : List Nat) (hb1 : b / 16 = 0) (hb2 : b % 16 = tq) (htq : tq ≤ 3)
    (hlen : q.length = 64) (hnz : ∀ x ∈ q, x ≠ 0) :
    parseDqt (fuel + 1) (b :: q) = some [{ pq := 0, tq := tq, q := q }] := by
  have hany : q.any (fun x => decide (x = 0)) = false := by
    simp; exact hnz
  simp only [parseDqt, hb1, hb2]
  have t : q.take 64 = q := by rw [← hlen]; simp
  have d : q.drop 64 = [] := by rw [← hlen]; simp
  simp [t, d, hany]
  omega
/-- side conditions of B.2.2 on a component list, as one decidable Bool -/
def compsOk (sof : Nat) (comps : List Comp) : Bool :=
  decide (1 ≤ comps.length) &&
  !(comps.any fun c => decide (c.h < 1 ∨ c.h > 4 ∨ c.v < 1 ∨ c.v > 4 ∨ c.tq > 3)) &&
  decide ((comps.map (·.id)).Nodup) &&
  !(decide (sof = 0xC3 ∨ sof = 0xF7) && comps.any fun c => decide (c.tq ≠ 0))

theorem parseSof_ok (sof P H W : Nat) (comps : List Comp) (cb : List Nat)
    (hcb : parseComps comps.length cb = some comps) (hc : compsOk sof comps = true)
    (hP : precisionOk sof P = true) (hW : 1 ≤ W ∧ W < 65536) (hH : 1 ≤ H ∧ H < 65536) :
    parseSof sof ([P, H / 256, H % 256, W / 256, W % 256, comps.length] ++ cb) =
      some { sof := sof, p := P, y := H, x := W, comps := comps } := by
  have ey : H / 256 * 256 + H % 256 = H := Nat.div_add_mod' H 256
  have ex : W / 256 * 256 + W % 256 = W := Nat.div_add_mod' W 256
  simp only [compsOk, Bool.and_eq_true, Bool.not_eq_true', decide_eq_true_eq] at hc
  obtain ⟨⟨⟨h1, h2⟩, h3⟩, h4⟩ := hc
  simp only [List.cons_append, List.nil_append, parseSof, hcb, ey, ex]
  have c1 : ¬ (comps.length < 1 ∨ W < 1 ∨ H < 1 ∨ ¬ precisionOk sof P = true) := by
    intro h
    rcases h with h | h | h | h
    · omega
    · omega
    · omega
    · exact h hP
  rw [if_neg c1]
  simp only [h2, h3]
  simp
  intro hs
  simp [hs] at h4
  intro x hx
  have := h4 x hx
  simpa using this

end JpegC
