import GdcVerif.Model.T1
import GdcVerif.Lemmas.T1Tables
import GdcVerif.Lemmas.Mqc
import GdcVerif.Lemmas.MqcDec
/-!
  Facts about the code-shaped T1 model (`Model/T1.lean`): every context label it hands to the MQ coder is
  produced without a table-index panic and is `< NUMCONTEXTS = 19`.
-/
set_option linter.unusedVariables false
namespace T1
open Gen.J2kT1

theorem bit_le (f m : Nat) : bit f m ≤ 1 := by unfold bit; split <;> omega

theorem tabN_some (t : Array Int) (i : Nat) (h : i < t.size) : tabN t i = some (t[i]).toNat := by
  unfold tabN; rw [Array.getElem?_eq_getElem h]; rfl

/-- zero-coding context: no table panic, label in `0..8` -/
theorem zcCtx_ok (f orient : Nat) : ∃ c, zcCtx f orient = some c ∧ c ≤ 8 := by
  unfold zcCtx
  have b1 := bit_le f fSigNW; have b2 := bit_le f fSigN; have b3 := bit_le f fSigNE; have b4 := bit_le f fSigW
  have b5 := bit_le f fSigE; have b6 := bit_le f fSigSW; have b7 := bit_le f fSigS; have b8 := bit_le f fSigSE
  simp only []
  have hlt : (if orient > 3 then 0 else orient) * 512 +
      (bit f fSigNW + 2 * bit f fSigN + 4 * bit f fSigNE + 8 * bit f fSigW + 32 * bit f fSigE +
        64 * bit f fSigSW + 128 * bit f fSigS + 256 * bit f fSigSE) < lutCtxnoZc.size := by
    rw [zc_all.1]; split <;> omega
  rw [tabN_some _ _ hlt]
  have := zc_range _ hlt
  simp only [CTXZCSTART, CTXZCEND] at this
  exact ⟨_, rfl, by omega⟩

theorem scIdx_lt (f : Nat) : scIdx f < 256 := by
  unfold scIdx
  split <;> split <;> split <;> split <;> (try split) <;> (try split) <;> (try split) <;> (try split) <;> omega

/-- sign-coding context: label in `9..13` -/
theorem scCtx_ok (f : Nat) : ∃ c, scCtx f = some c ∧ 9 ≤ c ∧ c ≤ 13 := by
  unfold scCtx
  have hlt : scIdx f < lutCtxnoSc.size := by rw [sc_all.1]; exact scIdx_lt f
  rw [tabN_some _ _ hlt]
  have := sc_range _ hlt
  simp only [CTXSCSTART, CTXSCEND] at this
  exact ⟨_, rfl, by omega, by omega⟩

/-- sign prediction: a bit -/
theorem spb_ok (f : Nat) : ∃ b, spb f = some b ∧ b ≤ 1 := by
  unfold spb
  have hlt : scIdx f < lutSpb.size := by rw [spb_all.1]; exact scIdx_lt f
  rw [tabN_some _ _ hlt]
  have := spb_range _ hlt
  exact ⟨_, rfl, by omega⟩

/-- magnitude-refinement context: label in `14..16` -/
theorem mrCtx_ok (f : Nat) : 14 ≤ mrCtx f ∧ mrCtx f ≤ 16 := by
  unfold mrCtx
  have := mr_range (f : Int)
  simp only [CTXMRSTART, CTXMREND] at this
  omega

/-! ### the encoder passes never index-panic -/

theorem foldlM_inv {α σ : Type} (P : σ → Prop) (Q : α → Prop) (f : σ → α → Option σ) :
    ∀ (l : List α), (∀ a ∈ l, Q a) → (∀ s a, P s → Q a → ∃ s', f s a = some s' ∧ P s') →
    ∀ s, P s → ∃ s', l.foldlM f s = some s' ∧ P s' := by
  intro l
  induction l with
  | nil => intro _ _ s hs; exact ⟨s, rfl, hs⟩
  | cons a l ih =>
    intro hQ hstep s hs
    obtain ⟨s1, h1, hp1⟩ := hstep s a hs (hQ a List.mem_cons_self)
    obtain ⟨s2, h2, hp2⟩ := ih (fun b hb => hQ b (List.mem_cons_of_mem _ hb)) hstep s1 hp1
    exact ⟨s2, by rw [List.foldlM_cons, h1]; exact h2, hp2⟩

theorem coords_mem (w h x y : Nat) (hm : (x, y) ∈ coords w h) : x < w ∧ y < h := by
  unfold coords at hm
  simp only [List.mem_flatMap, List.mem_range, List.mem_map, List.mem_filter, decide_eq_true_eq] at hm
  obtain ⟨s, _, x', hx', dy, ⟨_, hdy⟩, heq⟩ := hm
  injection heq with h1 h2
  subst h1 h2
  exact ⟨hx', hdy⟩

theorem idx_lt (w h x y : Nat) (hx : x < w) (hy : y < h) : idxOf w x y < (w + 2) * (h + 2) := by
  unfold idxOf
  have : (y + 1) * (w + 2) ≤ h * (w + 2) := Nat.mul_le_mul_right _ hy
  have e : (w + 2) * (h + 2) = h * (w + 2) + 2 * (w + 2) := by rw [Nat.mul_comm, Nat.add_mul]
  omega

/-- all nine cells around `(x, y)` are inside the padded array -/
theorem nbr_lt (w h x y a b : Nat) (hx : x < w) (hy : y < h) (ha : a ≤ 2) (hb : b ≤ 2) :
    (y + a) * (w + 2) + (x + b) < (w + 2) * (h + 2) := by
  have : (y + a) * (w + 2) ≤ (h + 1) * (w + 2) := Nat.mul_le_mul_right _ (by omega)
  have e : (w + 2) * (h + 2) = (h + 1) * (w + 2) + (w + 2) := by
    rw [Nat.mul_comm, show h + 2 = (h + 1) + 1 from rfl, Nat.add_mul (h + 1) 1, Nat.one_mul]
  omega

theorem orAt_ok (fl : Array Nat) (i m : Nat) (h : i < fl.size) : ∃ fl', orAt fl i m = some fl' ∧ fl'.size = fl.size := by
  unfold orAt
  rw [Array.getElem?_eq_getElem h]
  exact ⟨_, rfl, by simp⟩

theorem updateNeighborFlags_ok (w h : Nat) (fl : Array Nat) (x y : Nat) (hsz : fl.size = (w + 2) * (h + 2))
    (hx : x < w) (hy : y < h) :
    ∃ fl', updateNeighborFlags w fl x y (idxOf w x y) = some fl' ∧ fl'.size = fl.size := by
  unfold updateNeighborFlags
  have hi := idx_lt w h x y hx hy
  rw [Array.getElem?_eq_getElem (by omega)]
  simp only [Option.bind_eq_bind, Option.bind_some]
  have n := fun a b ha hb => nbr_lt w h x y a b hx hy ha hb
  obtain ⟨f1, e1, s1⟩ := orAt_ok fl (y * (w + 2) + (x + 1)) (fSigS ||| (if has fl[idxOf w x y] fSign then fSignS else 0))
    (by have := n 0 1 (by omega) (by omega); simp only [Nat.add_zero] at this; omega)
  rw [e1]; simp only [Option.bind_some]
  obtain ⟨f2, e2, s2⟩ := orAt_ok f1 ((y + 2) * (w + 2) + (x + 1)) (fSigN ||| (if has fl[idxOf w x y] fSign then fSignN else 0))
    (by have := n 2 1 (by omega) (by omega); omega)
  rw [e2]; simp only [Option.bind_some]
  obtain ⟨f3, e3, s3⟩ := orAt_ok f2 ((y + 1) * (w + 2) + x) (fSigE ||| (if has fl[idxOf w x y] fSign then fSignE else 0))
    (by have := n 1 0 (by omega) (by omega); simp only [Nat.add_zero] at this; omega)
  rw [e3]; simp only [Option.bind_some]
  obtain ⟨f4, e4, s4⟩ := orAt_ok f3 ((y + 1) * (w + 2) + (x + 2)) (fSigW ||| (if has fl[idxOf w x y] fSign then fSignW else 0))
    (by have := n 1 2 (by omega) (by omega); omega)
  rw [e4]; simp only [Option.bind_some]
  obtain ⟨f5, e5, s5⟩ := orAt_ok f4 (y * (w + 2) + x) fSigSE
    (by have := n 0 0 (by omega) (by omega); simp only [Nat.add_zero] at this; omega)
  rw [e5]; simp only [Option.bind_some]
  obtain ⟨f6, e6, s6⟩ := orAt_ok f5 (y * (w + 2) + (x + 2)) fSigSW
    (by have := n 0 2 (by omega) (by omega); simp only [Nat.add_zero] at this; omega)
  rw [e6]; simp only [Option.bind_some]
  obtain ⟨f7, e7, s7⟩ := orAt_ok f6 ((y + 2) * (w + 2) + x) fSigNE
    (by have := n 2 0 (by omega) (by omega); simp only [Nat.add_zero] at this; omega)
  rw [e7]; simp only [Option.bind_some]
  obtain ⟨f8, e8, s8⟩ := orAt_ok f7 ((y + 2) * (w + 2) + (x + 2)) fSigNW
    (by have := n 2 2 (by omega) (by omega); omega)
  exact ⟨f8, e8, by omega⟩

/-- encoder-side invariant of the pass state -/
structure EncOk (w h : Nat) (data : Array Int) (st : EncSt) : Prop where
  fsz : st.flags.size = (w + 2) * (h + 2)
  dsz : data.size = (w + 2) * (h + 2)
  reg : Mqc.RegOk st.mq
  norm : 0x8000 ≤ st.mq.a
  nctx : st.mq.ctx.size = 19

theorem mqEncode_ok (w h : Nat) (data : Array Int) (st : EncSt) (hs : EncOk w h data st) (b cx : Nat) (hcx : cx < 19) :
    ∃ mq, Mqc.encode st.mq b cx = some mq ∧ EncOk w h data { st with mq := mq } := by
  obtain ⟨mq, he, hr, hn, hsz, _⟩ := Mqc.encode_spec st.mq b cx hs.reg hs.norm (by rw [hs.nctx]; exact hcx)
  exact ⟨mq, he, ⟨hs.fsz, hs.dsz, hr, hn, by rw [hsz]; exact hs.nctx⟩⟩

theorem encSign_ok (w h : Nat) (data : Array Int) (st : EncSt) (hs : EncOk w h data st) (f x y : Nat)
    (hx : x < w) (hy : y < h) :
    ∃ st', encSign w data st f x y (idxOf w x y) = some st' ∧ EncOk w h data st' := by
  unfold encSign
  have hi := idx_lt w h x y hx hy
  rw [Array.getElem?_eq_getElem (by rw [hs.dsz]; exact hi)]
  simp only [Option.bind_eq_bind, Option.bind_some]
  by_cases hv : data[idxOf w x y]'(by rw [hs.dsz]; exact hi) < 0
  · simp only [hv, if_true]
    obtain ⟨fl1, e1, s1⟩ := orAt_ok st.flags (idxOf w x y) fSign (by rw [hs.fsz]; exact hi)
    rw [e1]; simp only [Option.bind_some]
    obtain ⟨sc, esc, hsc1, hsc2⟩ := scCtx_ok f
    obtain ⟨sp, esp, _⟩ := spb_ok f
    rw [esc, esp]; simp only [Option.bind_some]
    obtain ⟨mq, em, hm⟩ := mqEncode_ok w h data st hs (1 ^^^ sp) sc (by omega)
    rw [em]; simp only [Option.bind_some]
    obtain ⟨fl2, e2, s2⟩ := orAt_ok fl1 (idxOf w x y) fSig (by rw [s1, hs.fsz]; exact hi)
    rw [e2]; simp only [Option.bind_some]
    obtain ⟨fl3, e3, s3⟩ := updateNeighborFlags_ok w h fl2 x y (by rw [s2, s1, hs.fsz]) hx hy
    rw [e3]
    exact ⟨_, rfl, ⟨by show fl3.size = _; rw [s3, s2, s1, hs.fsz], hs.dsz, hm.reg, hm.norm, hm.nctx⟩⟩
  · simp only [hv, if_false]
    obtain ⟨sc, esc, hsc1, hsc2⟩ := scCtx_ok f
    obtain ⟨sp, esp, _⟩ := spb_ok f
    rw [esc, esp]; simp only [Option.bind_some]
    obtain ⟨mq, em, hm⟩ := mqEncode_ok w h data st hs (0 ^^^ sp) sc (by omega)
    rw [em]; simp only [Option.bind_some]
    obtain ⟨fl2, e2, s2⟩ := orAt_ok st.flags (idxOf w x y) fSig (by rw [hs.fsz]; exact hi)
    rw [e2]; simp only [Option.bind_some]
    obtain ⟨fl3, e3, s3⟩ := updateNeighborFlags_ok w h fl2 x y (by rw [s2, hs.fsz]) hx hy
    rw [e3]
    exact ⟨_, rfl, ⟨by show fl3.size = _; rw [s3, s2, hs.fsz], hs.dsz, hm.reg, hm.norm, hm.nctx⟩⟩

/-- `encodeSigPropPass`: no index panic (flags, data, context tables, MQ contexts), invariant kept -/
theorem encSigProp_ok (w h orient bp : Nat) (data : Array Int) (st : EncSt) (hs : EncOk w h data st) :
    ∃ st', encSigProp w h orient bp data st = some st' ∧ EncOk w h data st' := by
  unfold encSigProp
  apply foldlM_inv (EncOk w h data) (fun (p : Nat × Nat) => p.1 < w ∧ p.2 < h) _ (coords w h)
    (fun p hp => coords_mem w h p.1 p.2 hp) _ st hs
  intro s p hps hq
  obtain ⟨x, y⟩ := p
  have hi := idx_lt w h x y hq.1 hq.2
  simp only []
  rw [Array.getElem?_eq_getElem (by rw [hps.fsz]; exact hi)]
  simp only [Option.bind_eq_bind, Option.bind_some]
  split
  · exact ⟨s, rfl, hps⟩
  · split
    · exact ⟨s, rfl, hps⟩
    · rw [Array.getElem?_eq_getElem (by rw [hps.dsz]; exact hi)]
      simp only [Option.bind_some]
      obtain ⟨c, ec, hc⟩ := zcCtx_ok (s.flags[idxOf w x y]'(by rw [hps.fsz]; exact hi)) orient
      rw [ec]; simp only [Option.bind_some]
      obtain ⟨mq, em, hm⟩ := mqEncode_ok w h data s hps (magBit (data[idxOf w x y]'(by rw [hps.dsz]; exact hi)) bp) c (by omega)
      rw [em]; simp only [Option.bind_some]
      obtain ⟨fl, efl, sfl⟩ := orAt_ok s.flags (idxOf w x y) fVisit (by rw [hps.fsz]; exact hi)
      rw [efl]; simp only [Option.bind_some]
      have hok : EncOk w h data { flags := fl, mq := mq } := ⟨by show fl.size = _; rw [sfl, hps.fsz], hps.dsz, hm.reg, hm.norm, hm.nctx⟩
      split
      · exact encSign_ok w h data _ hok _ x y hq.1 hq.2
      · exact ⟨_, rfl, hok⟩

/-- `encodeMagRefPass`: no index panic, invariant kept -/
theorem encMagRef_ok (w h bp : Nat) (data : Array Int) (st : EncSt) (hs : EncOk w h data st) :
    ∃ st', encMagRef w h bp data st = some st' ∧ EncOk w h data st' := by
  unfold encMagRef
  apply foldlM_inv (EncOk w h data) (fun (p : Nat × Nat) => p.1 < w ∧ p.2 < h) _ (coords w h)
    (fun p hp => coords_mem w h p.1 p.2 hp) _ st hs
  intro s p hps hq
  obtain ⟨x, y⟩ := p
  have hi := idx_lt w h x y hq.1 hq.2
  simp only []
  rw [Array.getElem?_eq_getElem (by rw [hps.fsz]; exact hi)]
  simp only [Option.bind_eq_bind, Option.bind_some]
  split
  · exact ⟨s, rfl, hps⟩
  · rw [Array.getElem?_eq_getElem (by rw [hps.dsz]; exact hi)]
    simp only [Option.bind_some]
    have hmr := mrCtx_ok (s.flags[idxOf w x y]'(by rw [hps.fsz]; exact hi))
    obtain ⟨mq, em, hm⟩ := mqEncode_ok w h data s hps (magBit (data[idxOf w x y]'(by rw [hps.dsz]; exact hi)) bp)
      (mrCtx (s.flags[idxOf w x y]'(by rw [hps.fsz]; exact hi))) (by omega)
    rw [em]; simp only [Option.bind_some]
    obtain ⟨fl, efl, sfl⟩ := orAt_ok s.flags (idxOf w x y) fRefine (by rw [hps.fsz]; exact hi)
    rw [efl]
    exact ⟨_, rfl, ⟨by show fl.size = _; rw [sfl, hps.fsz], hps.dsz, hm.reg, hm.norm, hm.nctx⟩⟩


theorem clean_tail (w h : Nat) (data : Array Int) (s : EncSt) (hs : EncOk w h data s) (x y : Nat) (b : Bool)
    (hx : x < w) (hy : y < h) :
    ∃ r, (s.flags[idxOf w x y]?.bind fun f' =>
        some (({ flags := s.flags.setIfInBounds (idxOf w x y) (clr f' fVisit), mq := s.mq } : EncSt), b)) = some r ∧
      EncOk w h data r.1 := by
  have hi := idx_lt w h x y hx hy
  rw [Array.getElem?_eq_getElem (by rw [hs.fsz]; exact hi)]
  exact ⟨_, rfl, ⟨by simp [hs.fsz], hs.dsz, hs.reg, hs.norm, hs.nctx⟩⟩

theorem sign_tail (w h : Nat) (data : Array Int) (s : EncSt) (hs : EncOk w h data s) (f x y : Nat) (b : Bool)
    (hx : x < w) (hy : y < h) :
    ∃ r, ((encSign w data s f x y (idxOf w x y)).bind fun st =>
        st.flags[idxOf w x y]?.bind fun f' =>
          some (({ flags := st.flags.setIfInBounds (idxOf w x y) (clr f' fVisit), mq := st.mq } : EncSt), b)) = some r ∧
      EncOk w h data r.1 := by
  obtain ⟨s1, e1, h1⟩ := encSign_ok w h data s hs f x y hx hy
  rw [e1]; simp only [Option.bind_some]
  exact clean_tail w h data s1 h1 x y b hx hy

theorem encCleanSample_ok (w h orient bp : Nat) (data : Array Int) (st : EncSt) (hs : EncOk w h data st) (x y : Nat) (p : Bool)
    (hx : x < w) (hy : y < h) :
    ∃ r, encCleanSample w orient bp data st x y p = some r ∧ EncOk w h data r.1 := by
  unfold encCleanSample
  have hi := idx_lt w h x y hx hy
  simp only []
  rw [Array.getElem?_eq_getElem (by rw [hs.fsz]; exact hi)]
  simp only [Option.bind_eq_bind, Option.bind_some]
  split
  · exact ⟨_, rfl, ⟨by simp [hs.fsz], hs.dsz, hs.reg, hs.norm, hs.nctx⟩⟩
  · rw [Array.getElem?_eq_getElem (by rw [hs.dsz]; exact hi)]
    simp only [Option.bind_some]
    cases p
    · simp only [Bool.false_eq_true, if_false]
      obtain ⟨c, ec, hc⟩ := zcCtx_ok (st.flags[idxOf w x y]'(by rw [hs.fsz]; exact hi)) orient
      rw [ec]; simp only [Option.bind_some]
      obtain ⟨mq, em, hm⟩ := mqEncode_ok w h data st hs (magBit (data[idxOf w x y]'(by rw [hs.dsz]; exact hi)) bp) c (by omega)
      rw [em]; simp only [Option.bind_some]
      split
      · exact sign_tail w h data _ hm _ x y false hx hy
      · exact clean_tail w h data _ hm x y false hx hy
    · simp only [if_true, Option.bind_some]
      rw [if_pos (by decide)]
      exact sign_tail w h data st hs _ x y false hx hy

theorem rlScan_ok (w h bp : Nat) (data : Array Int) (fl : Array Nat) (k i : Nat)
    (hf : fl.size = (w + 2) * (h + 2)) (hd : data.size = (w + 2) * (h + 2)) (hi : i < w) (hk : k + 3 < h) :
    ∃ r, rlScan w bp data fl k i = some r ∧ (r.2 ≤ 4) := by
  unfold rlScan
  obtain ⟨r, er, hr⟩ := foldlM_inv (fun (acc : Bool × Nat × Bool) => acc.2.1 ≤ 4) (fun dy => dy < 4)
    (fun (acc : Bool × Nat × Bool) dy =>
      match acc with
      | (can, pos, stopped) =>
        if stopped then some acc else
        (fl[idxOf w i (k + dy)]?).bind fun f =>
        if has f fVisit then some (false, pos, true)
        else if has f fSig ∨ has f fSigNeighbors then some (false, pos, true)
        else (data[idxOf w i (k + dy)]?).bind fun v =>
          some (can, if pos = 4 ∧ magBit v bp ≠ 0 then dy else pos, false))
    (List.range 4) (fun a ha => List.mem_range.mp ha)
    (by
      intro s dy hs hdy
      obtain ⟨can, pos, stopped⟩ := s
      have hix := idx_lt w h i (k + dy) hi (by omega)
      simp only []
      split
      · exact ⟨_, rfl, hs⟩
      · rw [Array.getElem?_eq_getElem (by rw [hf]; exact hix)]
        simp only [Option.bind_some]
        split
        · exact ⟨_, rfl, hs⟩
        · split
          · exact ⟨_, rfl, hs⟩
          · rw [Array.getElem?_eq_getElem (by rw [hd]; exact hix)]
            simp only [Option.bind_some]
            refine ⟨_, rfl, ?_⟩
            show (if pos = 4 ∧ _ then dy else pos) ≤ 4
            split
            · omega
            · exact hs)
    (true, 4, false) (Nat.le_refl 4)
  refine ⟨(r.1, r.2.1), ?_, hr⟩
  show Option.map _ _ = _
  have : ∀ (o : Option (Bool × Nat × Bool)), o = some r → Option.map (fun (r : Bool × Nat × Bool) => (r.1, r.2.1)) o = some (r.1, r.2.1) := by
    intro o ho; rw [ho]; rfl
  apply this
  exact er

theorem columns_mem (w h k i : Nat) (hm : (k, i) ∈ columns w h) : i < w ∧ k < h := by
  unfold columns at hm
  simp only [List.mem_flatMap, List.mem_range, List.mem_map] at hm
  obtain ⟨s, hs, i', hi', heq⟩ := hm
  injection heq with h1 h2
  subst h1 h2
  exact ⟨hi', by omega⟩

theorem normal_ok (w h orient bp : Nat) (data : Array Int) (st : EncSt) (hs : EncOk w h data st) (k i : Nat) (hi : i < w) :
    ∃ st', ((List.range 4).filter (fun dy => k + dy < h)).foldlM (fun st dy => do
        let (st, _) ← encCleanSample w orient bp data st i (k + dy) false
        some st) st = some st' ∧ EncOk w h data st' := by
  apply foldlM_inv (EncOk w h data) (fun dy => k + dy < h) _ _ _ _ st hs
  · intro a ha
    simp only [List.mem_filter, decide_eq_true_eq] at ha
    exact ha.2
  · intro s dy hps hdy
    obtain ⟨r, er, hr⟩ := encCleanSample_ok w h orient bp data s hps i (k + dy) false hi hdy
    simp only [Option.bind_eq_bind]
    rw [er]
    exact ⟨r.1, rfl, hr⟩

theorem encCleanup_ok (w h orient bp : Nat) (data : Array Int) (st : EncSt) (hs : EncOk w h data st) :
    ∃ st', encCleanup w h orient bp data st = some st' ∧ EncOk w h data st' := by
  unfold encCleanup
  apply foldlM_inv (EncOk w h data) (fun (p : Nat × Nat) => p.2 < w ∧ p.1 < h) _ (columns w h)
    (fun p hp => columns_mem w h p.1 p.2 hp) _ st hs
  intro s p hps hq
  obtain ⟨k, i⟩ := p
  simp only [Option.bind_eq_bind]
  split
  · rename_i hk3
    obtain ⟨r, er, hr⟩ := rlScan_ok w h bp data s.flags k i hps.fsz hps.dsz hq.1 hk3
    rw [er]; simp only [Option.bind_some]
    split
    · by_cases hp : r.2 < 4
      · simp only [hp, if_true]
        obtain ⟨mq, em, hm⟩ := mqEncode_ok w h data s hps 1 CTXRL (by decide)
        rw [em]; simp only [Option.bind_some]
        rw [if_neg (by decide)]
        obtain ⟨mq2, em2, hm2⟩ := mqEncode_ok w h data _ hm ((r.2 >>> 1) % 2) CTXUNI (by decide)
        rw [em2]; simp only [Option.bind_some]
        obtain ⟨mq3, em3, hm3⟩ := mqEncode_ok w h data _ hm2 (r.2 % 2) CTXUNI (by decide)
        rw [em3]; simp only [Option.bind_some]
        obtain ⟨r2, er2, hr2⟩ := foldlM_inv (fun (acc : EncSt × Bool) => EncOk w h data acc.1) (fun dy => dy < 4)
          (fun (acc : EncSt × Bool) dy => encCleanSample w orient bp data acc.1 i (k + dy) acc.2)
          ((List.range 4).filter (fun dy => r.2 ≤ dy))
          (by intro a ha; simp only [List.mem_filter, List.mem_range] at ha; exact ha.1)
          (by intro acc dy hacc hdy; exact encCleanSample_ok w h orient bp data acc.1 hacc i (k + dy) acc.2 hq.1 (by omega))
          (({ flags := s.flags, mq := mq3 } : EncSt), true) hm3
        rw [er2]
        exact ⟨_, rfl, hr2⟩
      · simp only [hp, if_false]
        obtain ⟨mq, em, hm⟩ := mqEncode_ok w h data s hps 0 CTXRL (by decide)
        rw [em]; simp only [Option.bind_some]
        rw [if_pos True.intro]
        exact ⟨_, rfl, hm⟩
    · exact normal_ok w h orient bp data s hps k i hq.1
  · exact normal_ok w h orient bp data s hps k i hq.1
open Gen

theorem setCtx_ok (e : Mqc.Enc) (cx v : Nat) (h : Mqc.RegOk e) (hn : 0x8000 ≤ e.a) (hcx : cx < e.ctx.size) (hv : v < 47) :
    ∃ e', Mqc.setContextState e cx v = some e' ∧ Mqc.RegOk e' ∧ 0x8000 ≤ e'.a ∧ e'.ctx.size = e.ctx.size := by
  unfold Mqc.setContextState
  rw [if_pos hcx]
  refine ⟨_, rfl, ⟨h.buf, h.apos, h.ahi, h.ctlo, h.cthi, h.A, h.B, ?_⟩, hn, by simp⟩
  apply Mqc.ctxOk_set _ _ _ h.ctx
  unfold Mqc.u8
  omega

theorem initCtx_ok : ∃ e, initCtx (Mqc.Enc.new NUMCONTEXTS) = some e ∧ Mqc.RegOk e ∧ 0x8000 ≤ e.a ∧ e.ctx.size = 19 := by
  obtain ⟨h0, n0, s0⟩ := Mqc.new_ok NUMCONTEXTS
  unfold initCtx
  obtain ⟨e1, q1, h1, n1, s1⟩ := setCtx_ok _ CTXUNI 46 h0 n0 (by rw [s0]; decide) (by decide)
  rw [q1]; simp only [Option.bind_eq_bind, Option.bind_some]
  obtain ⟨e2, q2, h2, n2, s2⟩ := setCtx_ok _ CTXRL 3 h1 n1 (by rw [s1, s0]; decide) (by decide)
  rw [q2]; simp only [Option.bind_some]
  obtain ⟨e3, q3, h3, n3, s3⟩ := setCtx_ok _ 0 4 h2 n2 (by rw [s2, s1, s0]; decide) (by decide)
  exact ⟨e3, q3, h3, n3, by rw [s3, s2, s1, s0]; rfl⟩


theorem byteout_ctx (e e' : Mqc.Enc) (h : Mqc.byteout e = some e') : e'.ctx = e.ctx := by
  unfold Mqc.byteout at h
  simp only [] at h
  split at h
  · exact absurd h (by simp)
  · split at h
    · injection h with h; rw [← h]
    · split at h
      · injection h with h; rw [← h]
      · split at h
        · injection h with h; rw [← h]
        · injection h with h; rw [← h]

theorem flushToOutput_ctx (e e' : Mqc.Enc) (h : Mqc.flushToOutput e = some e') : e'.ctx = e.ctx := by
  unfold Mqc.flushToOutput at h
  simp only [] at h
  split at h
  · exact absurd h (by simp)
  · rename_i e1 h1
    have c1 := byteout_ctx _ _ h1
    split at h
    · exact absurd h (by simp)
    · rename_i e2 h2
      have c2 := byteout_ctx _ _ h2
      split at h
      · exact absurd h (by simp)
      · injection h with h
        rw [← h]
        split
        · show e2.ctx = _; rw [c2]; exact c1
        · rw [c2]; exact c1

section Erterm
open Mqc

/-- invariant of the `ErtermEnc` loop (the register `a` no longer matters: one unit above `c` is kept free) -/
structure EI (e : Enc) : Prop where
  buf : BufOk e.buf e.bp
  ctlo : 0 ≤ e.ct
  cthi : e.ct ≤ 13
  A : (e.c + 1) * 2 ^ e.ct.toNat ≤ 150994944
  B : 1 ≤ e.bp → rd e.buf (e.bp - 1) = 255 → rd e.buf e.bp * 134217728 + (e.c + 1) * 2 ^ e.ct.toNat ≤ 19327352832

theorem erterm_step (e : Enc) (h : EI e) :
    ∃ e', byteout { e with c := shl32 e.c e.ct.toNat, ct := 0 } = some e' ∧ EI e' ∧ e'.ctx = e.ctx ∧ 7 ≤ e'.ct := by
  have hK := pow_pos2 e.ct.toNat
  have hA1 : e.c * 2 ^ e.ct.toNat + 1 ≤ 150994944 := mul_succ_le hK h.A
  have hshl : shl32 e.c e.ct.toNat = e.c * 2 ^ e.ct.toNat := by
    unfold shl32 u32; rw [if_neg (by have := h.cthi; omega)]; omega
  rw [hshl]
  obtain ⟨e2, he2, hbuf2, hbp2, _, hctx2, hct2, hA2, hB2⟩ :=
    byteout_spec { e with c := e.c * 2 ^ e.ct.toNat, ct := 0 } 1 h.buf (by omega) (by omega) hA1
      (by
        intro h1 h255
        have hb := h.B h1 h255
        have : e.c * 2 ^ e.ct.toNat + 1 ≤ (e.c + 1) * 2 ^ e.ct.toNat := mul_succ_le hK (Nat.le_refl _)
        show rd e.buf e.bp * 134217728 + e.c * 2 ^ e.ct.toNat + 1 ≤ 19327352832
        exact Nat.le_trans (by rw [Nat.add_assoc]; exact Nat.add_le_add_left this _) hb)
  simp only [] at hbp2
  refine ⟨e2, he2, ⟨hbuf2, by omega, by omega, hA2, fun _ h255 => hB2 h255⟩, hctx2, by omega⟩

theorem ertermLoop_ok : ∀ (fuel : Nat) (k : Int) (e : Enc), EI e → k ≤ 7 * (fuel : Int) →
    ∃ e', ertermLoop fuel k e = some e' ∧ EI e' ∧ e'.ctx = e.ctx := by
  intro fuel
  induction fuel with
  | zero =>
    intro k e h hk
    unfold ertermLoop
    rw [if_neg (by omega)]
    exact ⟨e, rfl, h, rfl⟩
  | succ f ih =>
    intro k e h hk
    unfold ertermLoop
    split
    · obtain ⟨e2, he2, h2, hc2, hct2⟩ := erterm_step e h
      simp only []
      rw [he2]
      simp only []
      obtain ⟨e3, he3, h3, hc3⟩ := ih (k - e2.ct) e2 h2 (by omega)
      exact ⟨e3, he3, h3, by rw [hc3, hc2]⟩
    · exact ⟨e, rfl, h, rfl⟩

/-- `ErtermEnc()` from any reachable encoder state: never panics, keeps the contexts -/
theorem ertermEnc_ok (e : Enc) (h : RegOk e) : ∃ e', ertermEnc e = some e' ∧ e'.ctx = e.ctx := by
  have hK := pow_pos2 e.ct.toNat
  have hapos := h.apos
  have hle : (e.c + 1) * 2 ^ e.ct.toNat ≤ (e.c + e.a) * 2 ^ e.ct.toNat := Nat.mul_le_mul_right _ (by omega)
  have h0 : EI e := ⟨h.buf, by have := h.ctlo; omega, h.cthi, Nat.le_trans hle h.A,
    fun h1 h255 => Nat.le_trans (Nat.add_le_add_left hle _) (h.B h1 h255)⟩
  obtain ⟨e1, he1, h1, hc1⟩ := ertermLoop_ok 64 (11 - e.ct + 1) e h0 (by have := h.ctlo; omega)
  unfold ertermEnc
  simp only []
  rw [he1]
  simp only [rd_some e1.buf e1.bp h1.buf.inb]
  split
  · have hK1 := pow_pos2 e1.ct.toNat
    have hge : (e1.c + 1) * 1 ≤ (e1.c + 1) * 2 ^ e1.ct.toNat := Nat.mul_le_mul_left _ hK1
    obtain ⟨e2, he2, _, _, _, hctx2, _⟩ :=
      byteout_spec e1 1 h1.buf (by omega) (by omega) (by have := h1.A; omega)
        (by
          intro hb h255
          have hB := h1.B hb h255
          have hge' : e1.c + 1 ≤ (e1.c + 1) * 2 ^ e1.ct.toNat := by rw [Nat.mul_one] at hge; exact hge
          show rd e1.buf e1.bp * 134217728 + e1.c + 1 ≤ 19327352832
          rw [Nat.add_assoc]
          exact Nat.le_trans (Nat.add_le_add_left hge' _) hB)
    exact ⟨e2, he2, by rw [hctx2, hc1]⟩
  · exact ⟨e1, rfl, hc1⟩
end Erterm

/-- for a style without TERMALL and LAZY the only terminated pass is the cleanup pass of bit-plane 0 -/
theorem terminating_plain (bp mb pt style : Int) (hT : Go.and style J2kT1.CblkStyleTermAll = 0)
    (hL : Go.and style J2kT1.CblkStyleLazy = 0) (h : J2kT1.isTerminatingPass bp mb pt style = true) : pt = 2 ∧ bp = 0 := by
  unfold J2kT1.isTerminatingPass at h
  split at h
  · rename_i hc; simpa using hc
  · rw [hT, hL] at h
    simp at h

theorem segmarkEnc_ok (w h : Nat) (data : Array Int) (st : EncSt) (hs : EncOk w h data st) :
    ∃ m, Mqc.segmarkEnc st.mq = some m ∧ EncOk w h data { st with mq := m } := by
  unfold Mqc.segmarkEnc
  obtain ⟨m1, e1, h1⟩ := mqEncode_ok w h data st hs 1 18 (by decide)
  obtain ⟨m2, e2, h2⟩ := mqEncode_ok w h data _ h1 0 18 (by decide)
  obtain ⟨m3, e3, h3⟩ := mqEncode_ok w h data _ h2 1 18 (by decide)
  obtain ⟨m4, e4, h4⟩ := mqEncode_ok w h data _ h3 0 18 (by decide)
  simp only [Option.bind_eq_bind]
  rw [e1]; simp only [Option.bind_some]
  rw [e2]; simp only [Option.bind_some]
  rw [e3]; simp only [Option.bind_some]
  exact ⟨m4, e4, h4⟩

/-- `ResetContexts()` followed by the three `SetContextState` calls needs only the 19 contexts -/
theorem resetInit_some (e : Mqc.Enc) (hsz : e.ctx.size = 19) :
    ∃ m, initCtx (Mqc.resetContexts e) = some m ∧ m.ctx.size = 19 ∧ m.buf = e.buf ∧ m.bp = e.bp ∧ m.a = e.a ∧
      m.c = e.c ∧ m.ct = e.ct ∧ Mqc.CtxOk m.ctx := by
  unfold initCtx Mqc.resetContexts Mqc.setContextState
  simp only [Option.bind_eq_bind, Array.size_replicate, hsz, Array.size_setIfInBounds]
  rw [if_pos (by decide)]; simp only [Option.bind_some, Array.size_setIfInBounds, Array.size_replicate]
  rw [if_pos (by decide)]; simp only [Option.bind_some, Array.size_setIfInBounds, Array.size_replicate]
  rw [if_pos (by decide)]
  refine ⟨_, rfl, by simp, rfl, rfl, rfl, rfl, rfl, ?_⟩
  apply Mqc.ctxOk_set; apply Mqc.ctxOk_set; apply Mqc.ctxOk_set
  · intro i; rw [Mqc.rd_replicate0]; decide
  all_goals decide

theorem resetInit_ok (w h : Nat) (data : Array Int) (st : EncSt) (hs : EncOk w h data st) :
    ∃ m, initCtx (Mqc.resetContexts st.mq) = some m ∧ EncOk w h data { st with mq := m } := by
  obtain ⟨m, em, hsz, hb, hbp, ha, hc, hct, hctx⟩ := resetInit_some st.mq hs.nctx
  refine ⟨m, em, ⟨hs.fsz, hs.dsz, ⟨?_, ?_, ?_, ?_, ?_, ?_, ?_, hctx⟩, ?_, hsz⟩⟩
  · show Mqc.BufOk m.buf m.bp; rw [hb, hbp]; exact hs.reg.buf
  · show 0 < m.a; rw [ha]; exact hs.reg.apos
  · show m.a < 65536; rw [ha]; exact hs.reg.ahi
  · show 1 ≤ m.ct; rw [hct]; exact hs.reg.ctlo
  · show m.ct ≤ 13; rw [hct]; exact hs.reg.cthi
  · show (m.c + m.a) * 2 ^ m.ct.toNat ≤ _; rw [hc, ha, hct]; exact hs.reg.A
  · show 1 ≤ m.bp → Mqc.rd m.buf (m.bp - 1) = 255 → Mqc.rd m.buf m.bp * 134217728 + (m.c + m.a) * 2 ^ m.ct.toNat ≤ _
    rw [hb, hbp, hc, ha, hct]; exact hs.reg.B
  · show 32768 ≤ m.a; rw [ha]; exact hs.norm

theorem flushToOutput_ok (e : Mqc.Enc) (h : Mqc.RegOk e) (hn : 0x8000 ≤ e.a) : ∃ e', Mqc.flushToOutput e = some e' := by
  obtain ⟨e', bytes, hf, _⟩ := Mqc.flush_spec e h hn
  unfold Mqc.flush at hf
  cases hq : Mqc.flushToOutput e with
  | none => rw [hq] at hf; exact absurd hf (by simp)
  | some e2 => exact ⟨e2, rfl⟩

theorem encLoop_exit (w h orient style : Nat) (data : Array Int) (mb np fuel : Nat) (st : EncSt) (bp : Int) (pi pt : Nat) (t : Bool)
    (hbp : bp < 0) : encLoop w h orient style data mb np fuel st bp pi pt t = some (st, t) := by
  cases fuel with
  | zero => rfl
  | succ f => unfold encLoop; rw [if_neg (by omega)]

/-- the pass loop (style without LAZY, TERMALL) never index-panics -/
theorem encLoop_ok (w h orient style : Nat) (data : Array Int) (mb np : Nat)
    (hT : Go.and (style : Int) J2kT1.CblkStyleTermAll = 0) (hL : Go.and (style : Int) J2kT1.CblkStyleLazy = 0) :
    ∀ (fuel : Nat) (st : EncSt) (bp : Int) (pi pt : Nat), EncOk w h data st → pt ≤ 2 →
      ∃ r, encLoop w h orient style data mb np fuel st bp pi pt false = some r ∧
        (r.2 = false → Mqc.RegOk r.1.mq ∧ 0x8000 ≤ r.1.mq.a) := by
  intro fuel
  induction fuel with
  | zero => intro st bp pi pt hs _; exact ⟨_, rfl, fun _ => ⟨hs.reg, hs.norm⟩⟩
  | succ f ih =>
    intro st bp pi pt hs hpt
    unfold encLoop
    split
    · simp only [Bool.false_eq_true, if_false]
      generalize hst1 : (if pt = 0 ∨ pt = 2 ∧ pi = 0 then ({ flags := clearVisit st.flags, mq := st.mq } : EncSt) else st) = st1
      have hs1 : EncOk w h data st1 := by
        rw [← hst1]; split
        · exact ⟨by show (clearVisit st.flags).size = _; unfold clearVisit; rw [Array.size_map]; exact hs.fsz, hs.dsz, hs.reg, hs.norm, hs.nctx⟩
        · exact hs
      rcases (show pt = 0 ∨ pt = 1 ∨ pt = 2 by omega) with rfl | rfl | rfl
      · obtain ⟨st2, e2, hs2⟩ := encSigProp_ok w h orient bp.toNat data st1 hs1
        simp only []
        rw [e2]
        simp only [Option.bind_some]
        cases ht : J2kT1.isTerminatingPass bp (mb : Int) ((0 : Nat) : Int) (style : Int) with
        | true =>
          have h20 := terminating_plain bp mb _ style hT hL ht
          exact absurd h20.1 (by decide)
        | false =>
          simp only [Bool.false_eq_true, if_false]
          obtain ⟨st4, e4, hs4⟩ : ∃ st4, (if styReset style = true then
              (initCtx (Mqc.resetContexts st2.mq)).map (fun m => ({ flags := st2.flags, mq := m } : EncSt)) else some st2) = some st4 ∧
              EncOk w h data st4 := by
            split
            · obtain ⟨m, em, hm⟩ := resetInit_ok w h data st2 hs2
              rw [em]; exact ⟨_, rfl, hm⟩
            · exact ⟨_, rfl, hs2⟩
          rw [e4]; simp only []
          rw [if_neg (by decide)]; exact ih st4 _ _ _ hs4 (by omega)
      · obtain ⟨st2, e2, hs2⟩ := encMagRef_ok w h bp.toNat data st1 hs1
        simp only []
        rw [e2]
        simp only [Option.bind_some]
        cases ht : J2kT1.isTerminatingPass bp (mb : Int) ((1 : Nat) : Int) (style : Int) with
        | true =>
          have h20 := terminating_plain bp mb _ style hT hL ht
          exact absurd h20.1 (by decide)
        | false =>
          simp only [Bool.false_eq_true, if_false]
          obtain ⟨st4, e4, hs4⟩ : ∃ st4, (if styReset style = true then
              (initCtx (Mqc.resetContexts st2.mq)).map (fun m => ({ flags := st2.flags, mq := m } : EncSt)) else some st2) = some st4 ∧
              EncOk w h data st4 := by
            split
            · obtain ⟨m, em, hm⟩ := resetInit_ok w h data st2 hs2
              rw [em]; exact ⟨_, rfl, hm⟩
            · exact ⟨_, rfl, hs2⟩
          rw [e4]; simp only []
          rw [if_neg (by decide)]; exact ih st4 _ _ _ hs4 (by omega)
      · obtain ⟨st2, e2, hs2⟩ := encCleanup_ok w h orient bp.toNat data st1 hs1
        simp only []
        rw [e2]
        simp only [Option.bind_some]
        obtain ⟨st3, e3, hs3⟩ : ∃ st3, (if stySegsym style = true then
            (Mqc.segmarkEnc st2.mq).map (fun m => ({ flags := st2.flags, mq := m } : EncSt)) else some st2) = some st3 ∧
            EncOk w h data st3 := by
          split
          · obtain ⟨m, em, hm⟩ := segmarkEnc_ok w h data st2 hs2
            rw [em]; exact ⟨_, rfl, hm⟩
          · exact ⟨_, rfl, hs2⟩
        rw [e3]; simp only []
        cases ht : J2kT1.isTerminatingPass bp (mb : Int) ((2 : Nat) : Int) (style : Int) with
        | true =>
          have h20 := terminating_plain bp mb _ style hT hL ht
          obtain ⟨m, em, hmc⟩ : ∃ m, (if styPterm style = true then Mqc.ertermEnc st3.mq else Mqc.flushToOutput st3.mq) = some m ∧
              m.ctx.size = 19 := by
            split
            · obtain ⟨m, em, hc⟩ := ertermEnc_ok st3.mq hs3.reg
              exact ⟨m, em, by rw [hc]; exact hs3.nctx⟩
            · obtain ⟨m, em⟩ := flushToOutput_ok st3.mq hs3.reg hs3.norm
              exact ⟨m, em, by rw [flushToOutput_ctx _ _ em]; exact hs3.nctx⟩
          simp only [if_true, em, Option.map_some]
          obtain ⟨st4, e4⟩ : ∃ st4, (if styReset style = true then
              (initCtx (Mqc.resetContexts m)).map (fun m' => ({ flags := st3.flags, mq := m' } : EncSt))
              else some ({ flags := st3.flags, mq := m } : EncSt)) = some st4 := by
            split
            · obtain ⟨m', em', _⟩ := resetInit_some m hmc
              rw [em']; exact ⟨_, rfl⟩
            · exact ⟨_, rfl⟩
          rw [e4]; simp only []
          rw [encLoop_exit _ _ _ _ _ _ _ _ _ _ _ _ _ (by omega)]
          exact ⟨_, rfl, fun hc => absurd hc (by simp)⟩
        | false =>
          simp only [Bool.false_eq_true, if_false]
          obtain ⟨st4, e4, hs4⟩ : ∃ st4, (if styReset style = true then
              (initCtx (Mqc.resetContexts st3.mq)).map (fun m => ({ flags := st3.flags, mq := m } : EncSt)) else some st3) = some st4 ∧
              EncOk w h data st4 := by
            split
            · obtain ⟨m, em, hm⟩ := resetInit_ok w h data st3 hs3
              rw [em]; exact ⟨_, rfl, hm⟩
            · exact ⟨_, rfl, hs3⟩
          rw [e4]; simp only []
          rw [if_pos True.intro]; exact ih st4 _ _ _ hs4 (by omega)
    · exact ⟨_, rfl, fun _ => ⟨hs.reg, hs.norm⟩⟩

theorem foldl_size {α : Type} (f : Array Int → α → Array Int) (hf : ∀ a x, (f a x).size = a.size) :
    ∀ (l : List α) (a : Array Int), (l.foldl f a).size = a.size := by
  intro l
  induction l with
  | nil => intro a; rfl
  | cons x l ih => intro a; rw [List.foldl_cons, ih, hf]

theorem padBlock_size (w h : Nat) (coeffs : List Int) : (padBlock w h coeffs).size = (w + 2) * (h + 2) := by
  unfold padBlock
  simp only []
  rw [foldl_size]
  · simp
  · intro a y
    rw [foldl_size]
    intro a x
    simp

/-- **the block encoder never index-panics** (styles without LAZY and TERMALL — i.e. any combination of
RESET, VSC, PTERM, SEGSYM): every access to the padded flag and coefficient arrays, to the three context tables, and to
the 19 MQ contexts is in range, and the MQ coder's own buffer accesses are in range (`Mqc.encode_spec`,
`Mqc.flush_spec`) -/
theorem encodeBlock_no_panic (w h orient style : Nat) (coeffs : List Int) (np : Nat) (hlen : coeffs.length = w * h)
    (hT : Go.and (style : Int) J2kT1.CblkStyleTermAll = 0) (hL : Go.and (style : Int) J2kT1.CblkStyleLazy = 0) :
    ∃ bytes, encodeBlock w h orient style coeffs np = .ok bytes := by
  unfold encodeBlock
  rw [if_neg (by rw [hlen]; exact fun hc => hc rfl)]
  · 
    simp only []
    split
    · obtain ⟨h0, n0, _⟩ := Mqc.new_ok NUMCONTEXTS
      obtain ⟨e', bytes, hf, _⟩ := Mqc.flush_spec _ h0 n0
      rw [hf]; exact ⟨_, rfl⟩
    · rename_i mb _
      obtain ⟨e, he, hr, hn, hsz⟩ := initCtx_ok
      rw [he]; simp only []
      obtain ⟨r, er, hr2⟩ := encLoop_ok w h orient style (padBlock w h coeffs) mb np hT hL (np + 1)
        { flags := Array.replicate ((w + 2) * (h + 2)) 0, mq := e } mb 0 2
        ⟨by simp, padBlock_size w h coeffs, hr, hn, hsz⟩ (by omega)
      rw [er]
      obtain ⟨st, t⟩ := r
      simp only []
      cases t with
      | true => exact ⟨_, rfl⟩
      | false =>
        simp only [Bool.false_eq_true, if_false]
        obtain ⟨hreg, hnorm⟩ := hr2 rfl
        obtain ⟨e', bytes, hf, _⟩ := Mqc.flush_spec _ hreg hnorm
        rw [hf]; exact ⟨_, rfl⟩

/-! ### the decoder passes never index-panic -/

/-- decoder-side invariant of the pass state -/
structure DecStOk (w h : Nat) (st : DecSt) : Prop where
  fsz : st.flags.size = (w + 2) * (h + 2)
  dsz : st.data.size = (w + 2) * (h + 2)
  reg : Mqc.DecOk st.mq
  norm : 0x8000 ≤ st.mq.a
  nctx : st.mq.ctx.size = 19

theorem mqDecode_ok (w h : Nat) (st : DecSt) (hs : DecStOk w h st) (cx : Nat) (hcx : cx < 19) :
    ∃ b mq, Mqc.decode st.mq cx = some (b, mq) ∧ DecStOk w h { st with mq := mq } := by
  obtain ⟨b, mq, he, _, hr, hn, hsz, _⟩ := Mqc.decode_spec st.mq cx hs.reg hs.norm (by rw [hs.nctx]; exact hcx)
  exact ⟨b, mq, he, ⟨hs.fsz, hs.dsz, hr, hn, by rw [hsz]; exact hs.nctx⟩⟩

theorem decSign_ok (w h bp : Nat) (st : DecSt) (hs : DecStOk w h st) (f x y : Nat) (hx : x < w) (hy : y < h) :
    ∃ st', decSign w bp st f x y (idxOf w x y) = some st' ∧ DecStOk w h st' := by
  unfold decSign
  have hi := idx_lt w h x y hx hy
  obtain ⟨sc, esc, hsc1, hsc2⟩ := scCtx_ok f
  obtain ⟨sp, esp, _⟩ := spb_ok f
  rw [esc, esp]; simp only [Option.bind_eq_bind, Option.bind_some]
  obtain ⟨b, mq, em, hm⟩ := mqDecode_ok w h st hs sc (by omega)
  rw [em]; simp only [Option.bind_some]
  have tail : ∀ (fl1 : Array Nat) (v : Int), fl1.size = st.flags.size →
      ∃ st', (if idxOf w x y ≥ st.data.size then none
        else (orAt fl1 (idxOf w x y) fSig).bind fun fl =>
          (updateNeighborFlags w fl x y (idxOf w x y)).bind fun fl =>
            some ({ flags := fl, data := st.data.setIfInBounds (idxOf w x y) v, mq := mq } : DecSt)) = some st' ∧
        DecStOk w h st' := by
    intro fl1 v s1
    rw [if_neg (by rw [hs.dsz]; omega)]
    obtain ⟨fl2, e2, s2⟩ := orAt_ok fl1 (idxOf w x y) fSig (by rw [s1, hs.fsz]; exact hi)
    rw [e2]; simp only [Option.bind_some]
    obtain ⟨fl3, e3, s3⟩ := updateNeighborFlags_ok w h fl2 x y (by rw [s2, s1, hs.fsz]) hx hy
    rw [e3]
    exact ⟨_, rfl, ⟨by show fl3.size = _; rw [s3, s2, s1, hs.fsz], by simp [hs.dsz], hm.reg, hm.norm, hm.nctx⟩⟩
  split
  · obtain ⟨fl1, e1, s1⟩ := orAt_ok st.flags (idxOf w x y) fSign (by rw [hs.fsz]; exact hi)
    rw [e1]; simp only [Option.bind_some]
    exact tail fl1 _ s1
  · exact tail st.flags _ rfl

theorem decSigProp_ok (w h orient bp : Nat) (st : DecSt) (hs : DecStOk w h st) :
    ∃ st', decSigProp w h orient bp st = some st' ∧ DecStOk w h st' := by
  unfold decSigProp
  apply foldlM_inv (DecStOk w h) (fun (p : Nat × Nat) => p.1 < w ∧ p.2 < h) _ (coords w h)
    (fun p hp => coords_mem w h p.1 p.2 hp) _ st hs
  intro s p hps hq
  obtain ⟨x, y⟩ := p
  have hi := idx_lt w h x y hq.1 hq.2
  simp only []
  rw [Array.getElem?_eq_getElem (by rw [hps.fsz]; exact hi)]
  simp only [Option.bind_eq_bind, Option.bind_some]
  split
  · exact ⟨s, rfl, hps⟩
  · split
    · exact ⟨s, rfl, hps⟩
    · obtain ⟨c, ec, hc⟩ := zcCtx_ok (s.flags[idxOf w x y]'(by rw [hps.fsz]; exact hi)) orient
      rw [ec]; simp only [Option.bind_some]
      obtain ⟨b, mq, em, hm⟩ := mqDecode_ok w h s hps c (by omega)
      rw [em]; simp only [Option.bind_some]
      obtain ⟨fl, efl, sfl⟩ := orAt_ok s.flags (idxOf w x y) fVisit (by rw [hps.fsz]; exact hi)
      rw [efl]; simp only [Option.bind_some]
      have hok : DecStOk w h { flags := fl, data := s.data, mq := mq } :=
        ⟨by show fl.size = _; rw [sfl, hps.fsz], hps.dsz, hm.reg, hm.norm, hm.nctx⟩
      split
      · exact decSign_ok w h bp _ hok _ x y hq.1 hq.2
      · exact ⟨_, rfl, hok⟩

theorem decMagRef_ok (w h bp : Nat) (st : DecSt) (hs : DecStOk w h st) :
    ∃ st', decMagRef w h bp st = some st' ∧ DecStOk w h st' := by
  unfold decMagRef
  apply foldlM_inv (DecStOk w h) (fun (p : Nat × Nat) => p.1 < w ∧ p.2 < h) _ (coords w h)
    (fun p hp => coords_mem w h p.1 p.2 hp) _ st hs
  intro s p hps hq
  obtain ⟨x, y⟩ := p
  have hi := idx_lt w h x y hq.1 hq.2
  simp only []
  rw [Array.getElem?_eq_getElem (by rw [hps.fsz]; exact hi)]
  simp only [Option.bind_eq_bind, Option.bind_some]
  split
  · exact ⟨s, rfl, hps⟩
  · have hmr := mrCtx_ok (s.flags[idxOf w x y]'(by rw [hps.fsz]; exact hi))
    obtain ⟨b, mq, em, hm⟩ := mqDecode_ok w h s hps (mrCtx (s.flags[idxOf w x y]'(by rw [hps.fsz]; exact hi))) (by omega)
    rw [em]; simp only [Option.bind_some]
    rw [Array.getElem?_eq_getElem (by rw [hps.dsz]; exact hi)]
    simp only [Option.bind_some]
    obtain ⟨fl, efl, sfl⟩ := orAt_ok s.flags (idxOf w x y) fRefine (by rw [hps.fsz]; exact hi)
    rw [efl]
    exact ⟨_, rfl, ⟨by show fl.size = _; rw [sfl, hps.fsz], by simp [hps.dsz], hm.reg, hm.norm, hm.nctx⟩⟩

theorem dclean_tail (w h : Nat) (s : DecSt) (hs : DecStOk w h s) (x y : Nat) (b : Bool)
    (hx : x < w) (hy : y < h) :
    ∃ r, (s.flags[idxOf w x y]?.bind fun f' =>
        some (({ flags := s.flags.setIfInBounds (idxOf w x y) (clr f' fVisit), data := s.data, mq := s.mq } : DecSt), b)) = some r ∧
      DecStOk w h r.1 := by
  have hi := idx_lt w h x y hx hy
  rw [Array.getElem?_eq_getElem (by rw [hs.fsz]; exact hi)]
  exact ⟨_, rfl, ⟨by simp [hs.fsz], hs.dsz, hs.reg, hs.norm, hs.nctx⟩⟩

theorem dsign_tail (w h bp : Nat) (s : DecSt) (hs : DecStOk w h s) (f x y : Nat) (b : Bool)
    (hx : x < w) (hy : y < h) :
    ∃ r, ((decSign w bp s f x y (idxOf w x y)).bind fun st =>
        st.flags[idxOf w x y]?.bind fun f' =>
          some (({ flags := st.flags.setIfInBounds (idxOf w x y) (clr f' fVisit), data := st.data, mq := st.mq } : DecSt), b)) = some r ∧
      DecStOk w h r.1 := by
  obtain ⟨s1, e1, h1⟩ := decSign_ok w h bp s hs f x y hx hy
  rw [e1]; simp only [Option.bind_some]
  exact dclean_tail w h s1 h1 x y b hx hy

theorem decCleanSample_ok (w h orient bp : Nat) (st : DecSt) (hs : DecStOk w h st) (x y : Nat) (p : Bool)
    (hx : x < w) (hy : y < h) :
    ∃ r, decCleanSample w orient bp st x y p = some r ∧ DecStOk w h r.1 := by
  unfold decCleanSample
  have hi := idx_lt w h x y hx hy
  simp only []
  rw [Array.getElem?_eq_getElem (by rw [hs.fsz]; exact hi)]
  simp only [Option.bind_eq_bind, Option.bind_some]
  split
  · exact ⟨_, rfl, ⟨by simp [hs.fsz], hs.dsz, hs.reg, hs.norm, hs.nctx⟩⟩
  · cases p
    · simp only [Bool.false_eq_true, if_false]
      obtain ⟨c, ec, hc⟩ := zcCtx_ok (st.flags[idxOf w x y]'(by rw [hs.fsz]; exact hi)) orient
      rw [ec]; simp only [Option.bind_some]
      obtain ⟨b, mq, em, hm⟩ := mqDecode_ok w h st hs c (by omega)
      rw [em]; simp only [Option.bind_some]
      split
      · exact dsign_tail w h bp _ hm _ x y false hx hy
      · exact dclean_tail w h _ hm x y false hx hy
    · simp only [if_true, Option.bind_some]
      rw [if_pos (by decide)]
      exact dsign_tail w h bp st hs _ x y false hx hy

theorem rlScanDec_ok (w h : Nat) (fl : Array Nat) (k i : Nat)
    (hf : fl.size = (w + 2) * (h + 2)) (hi : i < w) (hk : k + 3 < h) :
    ∃ r, rlScanDec w fl k i = some r := by
  unfold rlScanDec
  obtain ⟨r, er, _⟩ := foldlM_inv (fun (_ : Bool × Bool) => True) (fun dy => dy < 4)
    (fun (acc : Bool × Bool) dy =>
        if acc.2 then some acc else
        (fl[idxOf w i (k + dy)]?).bind fun f =>
        if has f fVisit then some (false, true)
        else if has f fSig ∨ has f fSigNeighbors then some (false, true)
        else some acc)
    (List.range 4) (fun a ha => List.mem_range.mp ha)
    (by
      intro s dy _ hdy
      have hix := idx_lt w h i (k + dy) hi (by omega)
      split
      · exact ⟨_, rfl, True.intro⟩
      · rw [Array.getElem?_eq_getElem (by rw [hf]; exact hix)]
        simp only [Option.bind_some]
        split
        · exact ⟨_, rfl, True.intro⟩
        · split
          · exact ⟨_, rfl, True.intro⟩
          · exact ⟨_, rfl, True.intro⟩)
    (true, false) True.intro
  refine ⟨r.1, ?_⟩
  show Option.map _ _ = _
  have : ∀ (o : Option (Bool × Bool)), o = some r → Option.map (fun (r : Bool × Bool) => r.1) o = some r.1 := by
    intro o ho; rw [ho]; rfl
  apply this
  exact er

theorem dnormal_ok (w h orient bp : Nat) (st : DecSt) (hs : DecStOk w h st) (k i : Nat) (hi : i < w) :
    ∃ st', ((List.range 4).filter (fun dy => k + dy < h)).foldlM (fun st dy => do
        let (st, _) ← decCleanSample w orient bp st i (k + dy) false
        some st) st = some st' ∧ DecStOk w h st' := by
  apply foldlM_inv (DecStOk w h) (fun dy => k + dy < h) _ _ _ _ st hs
  · intro a ha
    simp only [List.mem_filter, decide_eq_true_eq] at ha
    exact ha.2
  · intro s dy hps hdy
    obtain ⟨r, er, hr⟩ := decCleanSample_ok w h orient bp s hps i (k + dy) false hi hdy
    simp only [Option.bind_eq_bind]
    rw [er]
    exact ⟨r.1, rfl, hr⟩

theorem decCleanup_ok (w h orient bp : Nat) (st : DecSt) (hs : DecStOk w h st) :
    ∃ st', decCleanup w h orient bp st = some st' ∧ DecStOk w h st' := by
  unfold decCleanup
  apply foldlM_inv (DecStOk w h) (fun (p : Nat × Nat) => p.2 < w ∧ p.1 < h) _ (columns w h)
    (fun p hp => columns_mem w h p.1 p.2 hp) _ st hs
  intro s p hps hq
  obtain ⟨k, i⟩ := p
  simp only [Option.bind_eq_bind]
  split
  · rename_i hk3
    obtain ⟨r, er⟩ := rlScanDec_ok w h s.flags k i hps.fsz hq.1 hk3
    rw [er]; simp only [Option.bind_some]
    split
    · obtain ⟨b, mq, em, hm⟩ := mqDecode_ok w h s hps CTXRL (by decide)
      rw [em]; simp only [Option.bind_some]
      split
      · exact ⟨_, rfl, hm⟩
      · obtain ⟨b2, mq2, em2, hm2⟩ := mqDecode_ok w h _ hm CTXUNI (by decide)
        rw [em2]; simp only [Option.bind_some]
        obtain ⟨b3, mq3, em3, hm3⟩ := mqDecode_ok w h _ hm2 CTXUNI (by decide)
        rw [em3]; simp only [Option.bind_some]
        obtain ⟨r2, er2, hr2⟩ := foldlM_inv (fun (acc : DecSt × Bool) => DecStOk w h acc.1) (fun dy => dy < 4)
          (fun (acc : DecSt × Bool) dy => decCleanSample w orient bp acc.1 i (k + dy) acc.2)
          ((List.range 4).filter (fun dy => b2 * 2 + b3 ≤ dy))
          (by intro a ha; simp only [List.mem_filter, List.mem_range] at ha; exact ha.1)
          (by intro acc dy hacc hdy; exact decCleanSample_ok w h orient bp acc.1 hacc i (k + dy) acc.2 hq.1 (by omega))
          (({ flags := s.flags, data := s.data, mq := mq3 } : DecSt), true) hm3
        rw [er2]
        exact ⟨_, rfl, hr2⟩
    · exact dnormal_ok w h orient bp s hps k i hq.1
  · exact dnormal_ok w h orient bp s hps k i hq.1

theorem initCtxDec_ok (d : Mqc.Dec) (h : Mqc.DecOk d) (hn : 0x8000 ≤ d.a) (hsz : d.ctx.size = 19) :
    ∃ d', initCtxDec d = some d' ∧ Mqc.DecOk d' ∧ 0x8000 ≤ d'.a ∧ d'.ctx.size = 19 := by
  have step : ∀ (d : Mqc.Dec) (cx v : Nat), Mqc.DecOk d → 0x8000 ≤ d.a → d.ctx.size = 19 → cx < 19 → v < 47 →
      ∃ d', (if cx < d.ctx.size then some ({ d with ctx := d.ctx.setIfInBounds cx (Mqc.u8 v) } : Mqc.Dec) else none) = some d' ∧
        Mqc.DecOk d' ∧ 0x8000 ≤ d'.a ∧ d'.ctx.size = 19 := by
    intro d cx v h hn hsz hcx hv
    rw [if_pos (by omega)]
    refine ⟨_, rfl, ⟨h.bpin, h.apos, h.ahi, h.ctlo, h.cthi, h.chi, ?_⟩, hn, by simp [hsz]⟩
    apply Mqc.ctxOk_set _ _ _ h.ctx
    unfold Mqc.u8
    omega
  unfold initCtxDec
  simp only [Option.bind_eq_bind]
  obtain ⟨d1, q1, h1, n1, s1⟩ := step d CTXUNI 46 h hn hsz (by decide) (by decide)
  rw [q1]; simp only [Option.bind_some]
  obtain ⟨d2, q2, h2, n2, s2⟩ := step d1 CTXRL 3 h1 n1 s1 (by decide) (by decide)
  rw [q2]; simp only [Option.bind_some]
  exact step d2 0 4 h2 n2 s2 (by decide) (by decide)


theorem resetCtxDec_ok (w h : Nat) (st : DecSt) (hs : DecStOk w h st) :
    ∃ m, resetCtxDec st.mq = some m ∧ DecStOk w h { st with mq := m } := by
  unfold resetCtxDec
  obtain ⟨d', ed, hd, hn, hsz⟩ := initCtxDec_ok { st.mq with ctx := Array.replicate st.mq.ctx.size 0 }
    ⟨hs.reg.bpin, hs.reg.apos, hs.reg.ahi, hs.reg.ctlo, hs.reg.cthi, hs.reg.chi,
      by intro i; show Mqc.rd (Array.replicate _ 0) i % 128 < 47 ∧ _; rw [Mqc.rd_replicate0]; decide⟩
    hs.norm (by show (Array.replicate _ 0).size = 19; rw [Array.size_replicate]; exact hs.nctx)
  exact ⟨d', ed, ⟨hs.fsz, hs.dsz, hd, hn, hsz⟩⟩

theorem segmarkDec_ok (w h : Nat) (st : DecSt) (hs : DecStOk w h st) :
    ∃ m, segmarkDec st.mq = some m ∧ DecStOk w h { st with mq := m } := by
  unfold segmarkDec
  obtain ⟨b1, m1, e1, h1⟩ := mqDecode_ok w h st hs CTXUNI (by decide)
  obtain ⟨b2, m2, e2, h2⟩ := mqDecode_ok w h _ h1 CTXUNI (by decide)
  obtain ⟨b3, m3, e3, h3⟩ := mqDecode_ok w h _ h2 CTXUNI (by decide)
  obtain ⟨b4, m4, e4, h4⟩ := mqDecode_ok w h _ h3 CTXUNI (by decide)
  simp only [Option.bind_eq_bind]
  rw [e1]; simp only [Option.bind_some]
  rw [e2]; simp only [Option.bind_some]
  rw [e3]; simp only [Option.bind_some]
  rw [e4]; simp only [Option.bind_some]
  exact ⟨m4, rfl, h4⟩

theorem decLoop_ok (w h orient style np : Nat) :
    ∀ (fuel : Nat) (st : DecSt) (bp : Int) (pi pt : Nat), DecStOk w h st → pt ≤ 2 →
      ∃ r, decLoop w h orient style np fuel st bp pi pt = some r ∧ DecStOk w h r := by
  intro fuel
  induction fuel with
  | zero => intro st bp pi pt hs _; exact ⟨_, rfl, hs⟩
  | succ f ih =>
    intro st bp pi pt hs hpt
    unfold decLoop
    split
    · simp only []
      generalize hst1 : (if pt = 0 ∨ pt = 2 ∧ pi = 0 then ({ flags := clearVisit st.flags, data := st.data, mq := st.mq } : DecSt) else st) = st1
      have hs1 : DecStOk w h st1 := by
        rw [← hst1]; split
        · exact ⟨by show (clearVisit st.flags).size = _; unfold clearVisit; rw [Array.size_map]; exact hs.fsz, hs.dsz, hs.reg, hs.norm, hs.nctx⟩
        · exact hs
      rcases (show pt = 0 ∨ pt = 1 ∨ pt = 2 by omega) with rfl | rfl | rfl
      · obtain ⟨st2, e2, hs2⟩ := decSigProp_ok w h orient bp.toNat st1 hs1
        simp only []
        rw [e2]
        simp only [Option.bind_some]
        obtain ⟨st4, e4, hs4⟩ : ∃ st4, (if styReset style = true ∧ pi + 1 < np then
            (resetCtxDec st2.mq).map (fun m => ({ flags := st2.flags, data := st2.data, mq := m } : DecSt)) else some st2) = some st4 ∧
            DecStOk w h st4 := by
          split
          · obtain ⟨m, em, hm⟩ := resetCtxDec_ok w h st2 hs2
            rw [em]; exact ⟨_, rfl, hm⟩
          · exact ⟨_, rfl, hs2⟩
        rw [e4]; simp only []
        rw [if_neg (by decide)]; exact ih st4 _ _ _ hs4 (by omega)
      · obtain ⟨st2, e2, hs2⟩ := decMagRef_ok w h bp.toNat st1 hs1
        simp only []
        rw [e2]
        simp only [Option.bind_some]
        obtain ⟨st4, e4, hs4⟩ : ∃ st4, (if styReset style = true ∧ pi + 1 < np then
            (resetCtxDec st2.mq).map (fun m => ({ flags := st2.flags, data := st2.data, mq := m } : DecSt)) else some st2) = some st4 ∧
            DecStOk w h st4 := by
          split
          · obtain ⟨m, em, hm⟩ := resetCtxDec_ok w h st2 hs2
            rw [em]; exact ⟨_, rfl, hm⟩
          · exact ⟨_, rfl, hs2⟩
        rw [e4]; simp only []
        rw [if_neg (by decide)]; exact ih st4 _ _ _ hs4 (by omega)
      · obtain ⟨st2, e2, hs2⟩ := decCleanup_ok w h orient bp.toNat st1 hs1
        simp only []
        rw [e2]
        simp only [Option.bind_some]
        obtain ⟨st3, e3, hs3⟩ : ∃ st3, (if stySegsym style = true then
            (segmarkDec st2.mq).map (fun m => ({ flags := st2.flags, data := st2.data, mq := m } : DecSt)) else some st2) = some st3 ∧
            DecStOk w h st3 := by
          split
          · obtain ⟨m, em, hm⟩ := segmarkDec_ok w h st2 hs2
            rw [em]; exact ⟨_, rfl, hm⟩
          · exact ⟨_, rfl, hs2⟩
        rw [e3]; simp only []
        obtain ⟨st4, e4, hs4⟩ : ∃ st4, (if styReset style = true ∧ pi + 1 < np then
            (resetCtxDec st3.mq).map (fun m => ({ flags := st3.flags, data := st3.data, mq := m } : DecSt)) else some st3) = some st4 ∧
            DecStOk w h st4 := by
          split
          · obtain ⟨m, em, hm⟩ := resetCtxDec_ok w h st3 hs3
            rw [em]; exact ⟨_, rfl, hm⟩
          · exact ⟨_, rfl, hs3⟩
        rw [e4]; simp only []
        rw [if_pos True.intro]; exact ih st4 _ _ _ hs4 (by omega)
    · exact ⟨_, rfl, hs⟩

theorem mapM_get_some (a : Array Int) : ∀ (l : List Nat), (∀ i ∈ l, i < a.size) → ∃ out, l.mapM (fun i => a[i]?) = some out := by
  intro l
  induction l with
  | nil => intro _; exact ⟨[], rfl⟩
  | cons i l ih =>
    intro hl
    obtain ⟨out, ho⟩ := ih (fun j hj => hl j (List.mem_cons_of_mem _ hj))
    refine ⟨a[i]'(hl i List.mem_cons_self) :: out, ?_⟩
    rw [List.mapM_cons, Array.getElem?_eq_getElem (hl i List.mem_cons_self), ho]
    rfl

/-- **the block decoder never index-panics, on any byte string and any claimed pass count and bit-plane**
(single-segment decoding, RESET / SEGSYM as given by `style`): all flag/coefficient/table/context accesses are in
range and the MQ decoder (with its sentinel and the c50eb7d guard) never reads outside its buffer -/
theorem decodeBlock_no_panic (w h orient style np : Nat) (mb : Int) (bytes : List Nat) (hb : bytes.length ≠ 0) :
    ∃ out, decodeBlock w h orient style np mb bytes = .ok out := by
  unfold decodeBlock
  rw [if_neg hb]
  · 
    obtain ⟨d, ed, hd, hn, hsz, _⟩ := Mqc.decNew_spec bytes NUMCONTEXTS
    rw [ed]; simp only []
    obtain ⟨d', ed', hd', hn', hsz'⟩ := initCtxDec_ok d hd hn hsz
    rw [ed']; simp only []
    obtain ⟨r, er, hr⟩ := decLoop_ok w h orient style np (np + 1)
      { flags := Array.replicate ((w + 2) * (h + 2)) 0, data := Array.replicate ((w + 2) * (h + 2)) 0, mq := d' } mb 0 2
      ⟨by simp, by simp, hd', hn', hsz'⟩ (by omega)
    rw [er]; simp only []
    obtain ⟨out, ho⟩ := mapM_get_some r.data ((List.range h).flatMap fun y => (List.range w).map fun x => idxOf w x y)
      (by
        intro i hi
        simp only [List.mem_flatMap, List.mem_range, List.mem_map] at hi
        obtain ⟨y, hy, x, hx, rfl⟩ := hi
        rw [hr.dsz]; exact idx_lt w h x y hx hy)
    rw [ho]; exact ⟨_, rfl⟩
end T1
