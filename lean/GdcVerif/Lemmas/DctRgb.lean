import GdcVerif.Lemmas.DctBlock
/-! C11 for RGB: the per-component block bounds composed with the generated colour matrices. -/
namespace Dct
open Gen.JpegBaseline Gen.JpegStd

/-- R channel: deviations dy, dcr of the decoded Y, Cr samples from the encoder's plane values propagate as
    |R' − r| ≤ dy + 1.402·dcr + 2.289 (units 1/65536; 150000/65536 = 2.289 covers the colour round trip and both floors) -/
theorem rgb_r (enc : Encoder) (row col sr st a1 a2 a3 r g b y' cb' cr' dy dcr : Int)
    (hr : 0 ≤ r ∧ r ≤ 255) (hg : 0 ≤ g ∧ g ≤ 255) (hb : 0 ≤ b ∧ b ≤ 255)
    (h1 : -dy ≤ y' - (rgbToYCbCr.entry enc row col sr st r g b a1 a2 a3).1 ∧ y' - (rgbToYCbCr.entry enc row col sr st r g b a1 a2 a3).1 ≤ dy)
    (h3 : -dcr ≤ cr' - (rgbToYCbCr.entry enc row col sr st r g b a1 a2 a3).2.snd ∧ cr' - (rgbToYCbCr.entry enc row col sr st r g b a1 a2 a3).2.snd ≤ dcr) :
    -(65536 * dy + 91881 * dcr + 150000) ≤ 65536 * ((ycbcrToRGB y' cb' cr').1 - r) ∧
    65536 * ((ycbcrToRGB y' cb' cr').1 - r) ≤ 65536 * dy + 91881 * dcr + 150000 := by
  have hf := fwd_entry_eq enc row col sr st r g b a1 a2 a3
  have hrange := fwd_ranges r g b hr hg hb
  rw [hf] at h1 h3
  have c1 := fun v => (clamp_byte v).2.2
  simp only [c1] at h1 h3
  simp only [inv_eq, c1]
  simp only [fwdY, fwdCb, fwdCr] at hrange h1 h3
  omega

/-- B channel: |B' − b| ≤ dy + 1.772·dcb + 2.594 -/
theorem rgb_b (enc : Encoder) (row col sr st a1 a2 a3 r g b y' cb' cr' dy dcb : Int)
    (hr : 0 ≤ r ∧ r ≤ 255) (hg : 0 ≤ g ∧ g ≤ 255) (hb : 0 ≤ b ∧ b ≤ 255)
    (h1 : -dy ≤ y' - (rgbToYCbCr.entry enc row col sr st r g b a1 a2 a3).1 ∧ y' - (rgbToYCbCr.entry enc row col sr st r g b a1 a2 a3).1 ≤ dy)
    (h2 : -dcb ≤ cb' - (rgbToYCbCr.entry enc row col sr st r g b a1 a2 a3).2.fst ∧ cb' - (rgbToYCbCr.entry enc row col sr st r g b a1 a2 a3).2.fst ≤ dcb) :
    -(65536 * dy + 116130 * dcb + 170000) ≤ 65536 * ((ycbcrToRGB y' cb' cr').2.snd - b) ∧
    65536 * ((ycbcrToRGB y' cb' cr').2.snd - b) ≤ 65536 * dy + 116130 * dcb + 170000 := by
  have hf := fwd_entry_eq enc row col sr st r g b a1 a2 a3
  have hrange := fwd_ranges r g b hr hg hb
  rw [hf] at h1 h2
  have c1 := fun v => (clamp_byte v).2.2
  simp only [c1] at h1 h2
  simp only [inv_eq, c1]
  simp only [fwdY, fwdCb, fwdCr] at hrange h1 h2
  omega

/-- G channel of `ycbcrToRGB` is 1-Lipschitz in y and (0.344, 0.714)-Lipschitz in cb, cr, up to one floor -/
theorem inv_lipschitz_g (y cb cr y' cb' cr' dy dcb dcr : Int)
    (h1 : -dy ≤ y' - y ∧ y' - y ≤ dy) (h2 : -dcb ≤ cb' - cb ∧ cb' - cb ≤ dcb) (h3 : -dcr ≤ cr' - cr ∧ cr' - cr ≤ dcr) :
    -(65536 * dy + 22554 * dcb + 46802 * dcr + 65536) ≤ 65536 * ((ycbcrToRGB y' cb' cr').2.fst - (ycbcrToRGB y cb cr).2.fst) ∧
    65536 * ((ycbcrToRGB y' cb' cr').2.fst - (ycbcrToRGB y cb cr).2.fst) ≤ 65536 * dy + 22554 * dcb + 46802 * dcr + 65536 := by
  have c1 := fun v => (clamp_byte v).2.2
  simp only [inv_eq, c1]
  omega

/-- G channel: |G' − g| ≤ dy + 0.344·dcb + 0.714·dcr + 3 (colour round trip 2 + one floor) -/
theorem rgb_g (enc : Encoder) (row col sr st a1 a2 a3 r g b y' cb' cr' dy dcb dcr : Int)
    (hr : 0 ≤ r ∧ r ≤ 255) (hg : 0 ≤ g ∧ g ≤ 255) (hb : 0 ≤ b ∧ b ≤ 255)
    (h1 : -dy ≤ y' - (rgbToYCbCr.entry enc row col sr st r g b a1 a2 a3).1 ∧ y' - (rgbToYCbCr.entry enc row col sr st r g b a1 a2 a3).1 ≤ dy)
    (h2 : -dcb ≤ cb' - (rgbToYCbCr.entry enc row col sr st r g b a1 a2 a3).2.fst ∧ cb' - (rgbToYCbCr.entry enc row col sr st r g b a1 a2 a3).2.fst ≤ dcb)
    (h3 : -dcr ≤ cr' - (rgbToYCbCr.entry enc row col sr st r g b a1 a2 a3).2.snd ∧ cr' - (rgbToYCbCr.entry enc row col sr st r g b a1 a2 a3).2.snd ≤ dcr) :
    -(65536 * dy + 22554 * dcb + 46802 * dcr + 196608) ≤ 65536 * ((ycbcrToRGB y' cb' cr').2.fst - g) ∧
    65536 * ((ycbcrToRGB y' cb' cr').2.fst - g) ≤ 65536 * dy + 22554 * dcb + 46802 * dcr + 196608 := by
  have hl := inv_lipschitz_g _ _ _ y' cb' cr' dy dcb dcr h1 h2 h3
  have hrt := colour_roundtrip enc row col sr st a1 a2 a3 r g b hr hg hb
  simp only [] at hrt
  generalize (ycbcrToRGB y' cb' cr').2.fst = G' at hl ⊢
  generalize (ycbcrToRGB (rgbToYCbCr.entry enc row col sr st r g b a1 a2 a3).1 (rgbToYCbCr.entry enc row col sr st r g b a1 a2 a3).2.fst
    (rgbToYCbCr.entry enc row col sr st r g b a1 a2 a3).2.snd).2.fst = G0 at hl hrt
  omega

theorem abs_witness (d B : Int) (h : -B ≤ 288230376151711744 * d ∧ 288230376151711744 * d ≤ B) :
    ∃ a, (-a ≤ d ∧ d ≤ a) ∧ 288230376151711744 * a ≤ B := by
  by_cases hd : d < 0
  · exact ⟨-d, by omega, by omega⟩
  · exact ⟨d, by omega, by omega⟩

/-- inside the image the padded plane holds the generated forward conversion of the pixel -/
theorem planeOf_inside (img : Rgb) (w h : Nat) (c X Y : Nat) (hX : X < w) (hY : Y < h) :
    planeOf img w h c Y X =
      (let f := rgbToYCbCr.entry default Y X Y 0 (img Y X).1 (img Y X).2.fst (img Y X).2.snd 0 0 0
       match c with | 0 => f.1 | 1 => f.2.fst | _ => f.2.snd) := by
  have e1 : min (Y : Int) ((h : Int) - 1) = (Y : Int) := by omega
  have e2 : min (X : Int) ((w : Int) - 1) = (X : Int) := by omega
  simp only [planeOf, e1, e2, Int.toNat_natCast]
  rcases c with _ | _ | c <;> rfl

theorem planeOf_byte (img : Rgb) (w h : Int) (c : Nat)
    (himg : ∀ y x, (0 ≤ (img y x).1 ∧ (img y x).1 ≤ 255) ∧ (0 ≤ (img y x).2.fst ∧ (img y x).2.fst ≤ 255) ∧ (0 ≤ (img y x).2.snd ∧ (img y x).2.snd ≤ 255))
    (row col : Nat) : 0 ≤ planeOf img w h c row col ∧ planeOf img w h c row col ≤ 255 := by
  simp only [planeOf]
  generalize img (min (row : Int) (h - 1)).toNat (min (col : Int) (w - 1)).toNat = p
  rw [fwd_entry_eq]
  have c1 := fun v => (clamp_byte v)
  rcases c with _ | _ | c
  · exact ⟨(c1 _).1, (c1 _).2.1⟩
  · exact ⟨(c1 _).1, (c1 _).2.1⟩
  · exact ⟨(c1 _).1, (c1 _).2.1⟩

theorem decodedPlane_lin (pl q : Blk) (hb : ∀ y j, 0 ≤ pl y j ∧ pl y j ≤ 255) (hq : ∀ v k, 1 ≤ q v k) (X Y : Nat) :
    -(415051741658464912 + 268435456 * LinB q) ≤ 288230376151711744 * (decodedPlane pl q X Y - pl Y X) ∧
    288230376151711744 * (decodedPlane pl q X Y - pl Y X) ≤ 415051741658464912 + 268435456 * LinB q := by
  have h := block_bound_lin (blockOfPlane pl (X / 8) (Y / 8)) q (fun y j => hb _ _) hq (Y % 8) (X % 8)
    (Nat.mod_lt _ (by decide)) (Nat.mod_lt _ (by decide))
  have e : blockOfPlane pl (X / 8) (Y / 8) (Y % 8) (X % 8) = pl Y X := by
    simp only [blockOfPlane]
    have h1 : Y / 8 * 8 + Y % 8 = Y := by have := Nat.div_add_mod Y 8; omega
    have h2 : X / 8 * 8 + X % 8 = X := by have := Nat.div_add_mod X 8; omega
    rw [h1, h2]
  rw [e] at h
  exact h

/-- RGB THEOREM (4:4:4 baseline path on the model): every channel of every pixel inside the image -/
theorem rgb_bound (img : Rgb) (w h : Nat) (qY qC : Blk)
    (himg : ∀ y x, (0 ≤ (img y x).1 ∧ (img y x).1 ≤ 255) ∧ (0 ≤ (img y x).2.fst ∧ (img y x).2.fst ≤ 255) ∧ (0 ≤ (img y x).2.snd ∧ (img y x).2.snd ≤ 255))
    (hqY : ∀ v k, 1 ≤ qY v k) (hqC : ∀ v k, 1 ≤ qC v k) (X Y : Nat) (hX : X < w) (hY : Y < h) :
    let o := decodedRgb img w h qY qC X Y
    let K : Int := 415051741658464912
    let s : Int := 288230376151711744
    (-(65536 * (K + 268435456 * LinB qY) + 91881 * (K + 268435456 * LinB qC) + 150000 * s) ≤ s * (65536 * (o.1 - (img Y X).1)) ∧
      s * (65536 * (o.1 - (img Y X).1)) ≤ 65536 * (K + 268435456 * LinB qY) + 91881 * (K + 268435456 * LinB qC) + 150000 * s) ∧
    (-(65536 * (K + 268435456 * LinB qY) + (22554 + 46802) * (K + 268435456 * LinB qC) + 196608 * s) ≤ s * (65536 * (o.2.fst - (img Y X).2.fst)) ∧
      s * (65536 * (o.2.fst - (img Y X).2.fst)) ≤ 65536 * (K + 268435456 * LinB qY) + (22554 + 46802) * (K + 268435456 * LinB qC) + 196608 * s) ∧
    (-(65536 * (K + 268435456 * LinB qY) + 116130 * (K + 268435456 * LinB qC) + 170000 * s) ≤ s * (65536 * (o.2.snd - (img Y X).2.snd)) ∧
      s * (65536 * (o.2.snd - (img Y X).2.snd)) ≤ 65536 * (K + 268435456 * LinB qY) + 116130 * (K + 268435456 * LinB qC) + 170000 * s) := by
  intro o K s
  have hpY := decodedPlane_lin (planeOf img w h 0) qY (planeOf_byte img w h 0 himg) hqY X Y
  have hpB := decodedPlane_lin (planeOf img w h 1) qC (planeOf_byte img w h 1 himg) hqC X Y
  have hpR := decodedPlane_lin (planeOf img w h 2) qC (planeOf_byte img w h 2 himg) hqC X Y
  rw [planeOf_inside img w h 0 X Y hX hY] at hpY
  rw [planeOf_inside img w h 1 X Y hX hY] at hpB
  rw [planeOf_inside img w h 2 X Y hX hY] at hpR
  simp only [] at hpY hpB hpR
  obtain ⟨dy, hdy, hBy⟩ := abs_witness _ _ hpY
  obtain ⟨dcb, hdcb, hBcb⟩ := abs_witness _ _ hpB
  obtain ⟨dcr, hdcr, hBcr⟩ := abs_witness _ _ hpR
  obtain ⟨hr, hg, hb⟩ := himg Y X
  have hR := rgb_r default Y X Y 0 0 0 0 (img Y X).1 (img Y X).2.fst (img Y X).2.snd _ (decodedPlane (planeOf img w h 1) qC X Y) _ dy dcr hr hg hb hdy hdcr
  have hG := rgb_g default Y X Y 0 0 0 0 (img Y X).1 (img Y X).2.fst (img Y X).2.snd _ _ _ dy dcb dcr hr hg hb hdy hdcb hdcr
  have hB := rgb_b default Y X Y 0 0 0 0 (img Y X).1 (img Y X).2.fst (img Y X).2.snd _ _ (decodedPlane (planeOf img w h 2) qC X Y) dy dcb hr hg hb hdy hdcb
  have eo : o = ycbcrToRGB (decodedPlane (planeOf img w h 0) qY X Y) (decodedPlane (planeOf img w h 1) qC X Y)
      (decodedPlane (planeOf img w h 2) qC X Y) := rfl
  rw [eo]
  simp only [K, s]
  generalize (ycbcrToRGB (decodedPlane (planeOf img w h 0) qY X Y) (decodedPlane (planeOf img w h 1) qC X Y)
      (decodedPlane (planeOf img w h 2) qC X Y)) = O at hR hG hB ⊢
  generalize LinB qY = LY at *
  generalize LinB qC = LC at *
  refine ⟨⟨?_, ?_⟩, ⟨?_, ?_⟩, ⟨?_, ?_⟩⟩ <;> omega

end Dct
