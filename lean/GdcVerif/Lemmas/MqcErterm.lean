import GdcVerif.Lemmas.T1Model
import GdcVerif.Lemmas.MqcSegDec
import GdcVerif.Lemmas.T1Termall
/-!
  `ErtermEnc()` (predictable termination) as the end of a codeword segment: the bytes it emits, read with the
  stuffing rule and 1-padding, denote a value inside the encoder's final interval — the analogue of `Mqc.flush_facts`.
-/
namespace T1
open Mqc

/-- total left shift the code register undergoes from a loop head of `ErtermEnc` to its end: the pending `ct` plus
the widths (7 or 8) of the bytes still to be emitted -/
def ertermT : Nat → Int → Enc → Nat
  | 0, _, e => e.ct.toNat
  | f + 1, k, e =>
    if k > 0 then
      match byteout { e with c := shl32 e.c e.ct.toNat, ct := 0 } with
      | none => e.ct.toNat
      | some e2 => e.ct.toNat + ertermT f (k - e2.ct) e2
    else e.ct.toNat

/-- facts for a loop-head state whose interval is `[c, c + x)` before the pending shift -/
def Fx (B : Nat → Nat) (last : Nat) (e : Enc) (x : Nat) : Prop :=
  FA B last e.buf e.bp (e.c * 2 ^ e.ct.toNat) ((e.c + x) * 2 ^ e.ct.toNat)

/-- room for the interval of width `2^(27-T)` at a loop head that is followed by at least one byte -/
structure HW (e : Enc) (T : Nat) : Prop where
  t27 : T ≤ 27
  A : (e.c + 2 ^ (27 - T)) * 2 ^ e.ct.toNat ≤ 150994944
  B : 1 ≤ e.bp → rd e.buf (e.bp - 1) = 255 →
        rd e.buf e.bp * 134217728 + (e.c + 2 ^ (27 - T)) * 2 ^ e.ct.toNat ≤ 19327352832

theorem pow_split27 (T ct : Nat) (h1 : ct ≤ T) (h2 : T ≤ 27) : 2 ^ (27 - T) * 2 ^ ct = 2 ^ (27 - (T - ct)) := by
  rw [← Nat.pow_add]; congr 1; omega

theorem ertermLoop_facts : ∀ (fuel : Nat) (k : Int) (e : Enc), EI e → k ≤ 7 * (fuel : Int) →
    ∃ e', ertermLoop fuel k e = some e' ∧ EI e' ∧ e'.ctx = e.ctx ∧ e.bp ≤ e'.bp ∧
      (k ≤ 0 → e' = e ∧ ertermT fuel k e = e.ct.toNat) ∧
      (0 < k → e'.c * 2 ^ e'.ct.toNat < 134217728 ∧ 7 ≤ e'.ct ∧ e.bp < e'.bp ∧
        e.ct.toNat + 7 ≤ ertermT fuel k e ∧ (e.ct.toNat : Int) + k ≤ (ertermT fuel k e : Int) ∧
        (ertermT fuel k e : Int) ≤ (e.ct.toNat : Int) + k + 7) ∧
      e'.ct.toNat ≤ ertermT fuel k e ∧
      (∀ (B : Nat → Nat) (last : Nat), (0 < k → HW e (ertermT fuel k e)) →
        Fx B last e' (2 ^ (27 - e'.ct.toNat)) → Fx B last e (2 ^ (27 - ertermT fuel k e))) := by
  intro fuel
  induction fuel with
  | zero =>
    intro k e h hk
    refine ⟨e, by unfold ertermLoop; rw [if_neg (by omega)], h, rfl, Nat.le_refl _, fun _ => ⟨rfl, rfl⟩,
      fun hh => absurd hh (by omega), Nat.le_refl _, fun B last _ hf => hf⟩
  | succ f ih =>
    intro k e h hk
    by_cases hk0 : 0 < k
    · -- one more byte
      have hK := pow_pos2 e.ct.toNat
      have hA1 : e.c * 2 ^ e.ct.toNat + 1 ≤ 150994944 := mul_succ_le hK h.A
      have hshl : shl32 e.c e.ct.toNat = e.c * 2 ^ e.ct.toNat := by
        unfold shl32 u32; rw [if_neg (by have := h.cthi; omega)]; omega
      obtain ⟨e2, he2, h2, hc2, hct2⟩ := erterm_step e h
      rw [hshl] at he2
      have hB1 : 1 ≤ e.bp → rd e.buf (e.bp - 1) = 255 → rd e.buf e.bp * 134217728 + e.c * 2 ^ e.ct.toNat + 1 ≤ 19327352832 := by
        intro h1 h255
        have hb := h.B h1 h255
        have : e.c * 2 ^ e.ct.toNat + 1 ≤ (e.c + 1) * 2 ^ e.ct.toNat := mul_succ_le hK (Nat.le_refl _)
        exact Nat.le_trans (by rw [Nat.add_assoc]; exact Nat.add_le_add_left this _) hb
      obtain ⟨w, W, nb, δ, hwW, hbp2, hct2', hM, hc1, hδ, hnb, hcur, hpre, hw7, _, _⟩ :=
        byteout_decomp { e with c := e.c * 2 ^ e.ct.toNat, ct := 0 } 1 h.buf (by omega) hA1 hB1 e2 he2
      simp only [] at hbp2 hM hcur hpre hnb
      have hW : 2 ^ e2.ct.toNat = W := by
        rcases hwW with ⟨rfl, rfl⟩ | ⟨rfl, rfl⟩ <;> rw [hct2'] <;> decide
      have hct2c : e2.ct = 7 ∨ e2.ct = 8 := by rcases hwW with ⟨rfl, _⟩ | ⟨rfl, _⟩ <;> rw [hct2'] <;> simp
      obtain ⟨e', he', h', hc', hbp', hz', hp', hT', hback'⟩ := ih (k - e2.ct) e2 h2 (by omega)
      have hloop : ertermLoop (f + 1) k e = some e' := by
        unfold ertermLoop
        rw [if_pos hk0]
        simp only [hshl, he2]
        exact he'
      have hTdef : ertermT (f + 1) k e = e.ct.toNat + ertermT f (k - e2.ct) e2 := by
        rw [ertermT, if_pos hk0]
        simp only [hshl, he2]
      have hct2n : e2.ct.toNat = 7 ∨ e2.ct.toNat = 8 := by rcases hct2c with h' | h' <;> rw [h'] <;> simp
      have hc2W : e2.c * 2 ^ e2.ct.toNat < 134217728 := by rw [hW]; exact hc1
      -- arithmetic facts about the total shift
      have hT2lo : e2.ct.toNat ≤ ertermT f (k - e2.ct) e2 := by
        by_cases hk2 : 0 < k - e2.ct
        · have := (hp' hk2).2.2.2.1; omega
        · have := (hz' (by omega)).2; omega
      refine ⟨e', hloop, h', by rw [hc', hc2], by omega, fun hh => absurd hh (by omega), fun _ => ?_, ?_, ?_⟩
      · refine ⟨?_, ?_, by omega, by rw [hTdef]; omega, ?_, ?_⟩
        · by_cases hk2 : 0 < k - e2.ct
          · exact (hp' hk2).1
          · rw [(hz' (by omega)).1]; exact hc2W
        · by_cases hk2 : 0 < k - e2.ct
          · exact (hp' hk2).2.1
          · rw [(hz' (by omega)).1]; exact hct2
        · rw [hTdef]
          by_cases hk2 : 0 < k - e2.ct
          · have := (hp' hk2).2.2.2.2.1; push_cast; omega
          · have := (hz' (by omega)).2
            rw [this]; push_cast
            have : e2.ct = (e2.ct.toNat : Int) := by omega
            omega
        · rw [hTdef]
          by_cases hk2 : 0 < k - e2.ct
          · have := (hp' hk2).2.2.2.2.2; push_cast; omega
          · have := (hz' (by omega)).2
            rw [this]; push_cast
            have : e2.ct = (e2.ct.toNat : Int) := by omega
            omega
      · rw [hTdef]; omega
      · intro B last hHW hf
        have hHW := hHW hk0
        rw [hTdef] at hHW ⊢
        have ht27 := hHW.t27
        have hxeq : 2 ^ (27 - (e.ct.toNat + ertermT f (k - e2.ct) e2)) * 2 ^ e.ct.toNat = 2 ^ (27 - ertermT f (k - e2.ct) e2) := by
          rw [pow_split27 _ _ (by omega) ht27]; congr 2; omega
        have hApre : e.c * 2 ^ e.ct.toNat + 2 ^ (27 - ertermT f (k - e2.ct) e2) ≤ 150994944 := by
          have := hHW.A; rw [Nat.add_mul, hxeq] at this; exact this
        have hBpre : 1 ≤ e.bp → rd e.buf (e.bp - 1) = 255 →
            rd e.buf e.bp * 134217728 + e.c * 2 ^ e.ct.toNat + 2 ^ (27 - ertermT f (k - e2.ct) e2) ≤ 19327352832 := by
          intro h1 h255
          have := hHW.B h1 h255; rw [Nat.add_mul, hxeq, ← Nat.add_assoc] at this; exact this
        -- room at the next loop head
        have hHW2 : 0 < k - e2.ct → HW e2 (ertermT f (k - e2.ct) e2) := by
          intro hk2
          have hT7 := (hp' hk2).2.2.2.1
          have hx2 : 2 ^ (27 - ertermT f (k - e2.ct) e2) * 2 ^ e2.ct.toNat ≤ 1048576 := by
            rw [pow_split27 _ _ (by omega) (by omega)]
            calc 2 ^ (27 - (ertermT f (k - e2.ct) e2 - e2.ct.toNat)) ≤ 2 ^ 20 := Nat.pow_le_pow_right (by decide) (by omega)
              _ = 1048576 := by decide
          refine ⟨by omega, ?_, ?_⟩
          · rw [Nat.add_mul]; omega
          · intro _ h255
            have hw : w = 7 := hw7.mpr (by rw [hbp2, Nat.add_sub_cancel] at h255; exact h255)
            have hW128 : W = 128 := by rcases hwW with ⟨_, h'⟩ | ⟨h', _⟩ <;> omega
            have hct7 : e2.ct.toNat = 7 := by rw [hct2', hw]; rfl
            rw [hbp2, hnb, Nat.add_mul, hct7]
            rw [hW128] at hM
            have h128 : (2 : Nat) ^ 7 = 128 := by decide
            rw [h128]
            have hle : (e.c * 2 ^ e.ct.toNat + 2 ^ (27 - ertermT f (k - e2.ct) e2)) * 128 ≤ 150994944 * 128 :=
              Nat.mul_le_mul_right _ hApre
            rw [Nat.add_mul] at hle
            have hd : δ * 128 * 134217728 + nb * 134217728 + e2.c * 128 = e.c * 2 ^ e.ct.toNat * 128 := by
              rw [hM, Nat.add_mul]
            omega
        have hf2 := hback' B last hHW2 hf
        have hfa := byteout_back B last { e with c := e.c * 2 ^ e.ct.toNat, ct := 0 } (2 ^ (27 - ertermT f (k - e2.ct) e2))
          h.buf (Nat.two_pow_pos _) hApre hBpre e2 he2 hf2
        unfold Fx
        rw [Nat.add_mul, hxeq]
        exact hfa
    · refine ⟨e, by unfold ertermLoop; rw [if_neg hk0], h, rfl, Nat.le_refl _, fun _ => ⟨rfl, by rw [ertermT, if_neg hk0]⟩,
        fun hh => absurd hh hk0, by rw [ertermT, if_neg hk0]; exact Nat.le_refl _, fun B last _ hf => ?_⟩
      have : ertermT (f + 1) k e = e.ct.toNat := by rw [ertermT, if_neg hk0]
      rw [this]; exact hf

/-- the loop of `ErtermEnc` leaves the bytes in front of the segment alone -/
theorem ertermLoop_seg (p0 : Nat) (b0 : Array Nat) : ∀ (fuel : Nat) (k : Int) (e e' : Enc), EI e →
    (∀ j, j ≤ p0 → rd e.buf j = rd b0 j) → p0 ≤ e.bp → (e.bp = p0 → e.c * 2 ^ e.ct.toNat + 1 ≤ 134217728) →
    ertermLoop fuel k e = some e' → (∀ j, j ≤ p0 → rd e'.buf j = rd b0 j) := by
  intro fuel
  induction fuel with
  | zero =>
    intro k e e' _ hfr _ _ he
    unfold ertermLoop at he
    split at he
    · exact absurd he (by simp)
    · injection he with he; rw [← he]; exact hfr
  | succ f ih =>
    intro k e e' h hfr hp h0 he
    unfold ertermLoop at he
    by_cases hk0 : k > 0
    · rw [if_pos hk0] at he
      have hK := pow_pos2 e.ct.toNat
      have hA1 : e.c * 2 ^ e.ct.toNat + 1 ≤ 150994944 := mul_succ_le hK h.A
      have hshl : shl32 e.c e.ct.toNat = e.c * 2 ^ e.ct.toNat := by
        unfold shl32 u32; rw [if_neg (by have := h.cthi; omega)]; omega
      obtain ⟨e2, he2, h2, _, _⟩ := erterm_step e h
      rw [hshl] at he2
      have hB1 : 1 ≤ e.bp → rd e.buf (e.bp - 1) = 255 → rd e.buf e.bp * 134217728 + e.c * 2 ^ e.ct.toNat + 1 ≤ 19327352832 := by
        intro h1 h255
        have hb := h.B h1 h255
        have : e.c * 2 ^ e.ct.toNat + 1 ≤ (e.c + 1) * 2 ^ e.ct.toNat := mul_succ_le hK (Nat.le_refl _)
        exact Nat.le_trans (by rw [Nat.add_assoc]; exact Nat.add_le_add_left this _) hb
      have hs2 := seg_byteout p0 b0 { e with c := e.c * 2 ^ e.ct.toNat, ct := 0 } 1 h.buf (by omega) hA1 hB1 hfr hp h0 e2 he2
      simp only [hshl, he2] at he
      exact ih _ e2 e' h2 hs2.1 (Nat.le_of_lt hs2.2.1) (fun hh => by have := hs2.2.1; omega) he
    · rw [if_neg hk0] at he
      injection he with he; rw [← he]; exact hfr

/-- **the end of a segment under PTERM**: `ErtermEnc()` succeeds; with `B` the final buffer (0xFF beyond `last`) the
facts hold at the state before it, `B` is a well-formed decoder input of absolute length `len = ef.bp - 1`, and the
bytes in front of the segment are untouched -/
theorem erterm_facts (e : Enc) (h : RegOk e) (hn : 0x8000 ≤ e.a) (p0 : Nat) (b0 : Array Nat) (hs : InSeg p0 b0 e)
    (hnf : rd b0 p0 ≠ 255) :
    ∃ ef last len, ertermEnc e = some ef ∧ ef.ctx = e.ctx ∧ TermOk ef ∧
      BOk (finalB ef.buf last) last len ∧ FE (finalB ef.buf last) last e ∧ len = ef.bp - 1 ∧
      (∀ k, k < len → finalB ef.buf last (k + 1) = rd ef.buf (k + 1)) ∧
      (∀ j, j ≤ p0 → rd ef.buf j = rd b0 j) ∧ p0 + 1 ≤ ef.bp := by
  have hK := pow_pos2 e.ct.toNat
  have hapos := h.apos
  have hle : (e.c + 1) * 2 ^ e.ct.toNat ≤ (e.c + e.a) * 2 ^ e.ct.toNat := Nat.mul_le_mul_right _ (by omega)
  have h0 : EI e := ⟨h.buf, by have := h.ctlo; omega, h.cthi, Nat.le_trans hle h.A,
    fun h1 h255 => Nat.le_trans (Nat.add_le_add_left hle _) (h.B h1 h255)⟩
  obtain ⟨e1, he1, h1, hc1, hbp1, hz1, hp1, hT1, hback1⟩ := ertermLoop_facts 64 (11 - e.ct + 1) e h0 (by have := h.ctlo; omega)
  have hcl := h.ctlo; have hch := h.cthi
  have hctn : (e.ct.toNat : Int) = e.ct := by omega
  -- the total shift is between 12 and 27
  have hT12 : 12 ≤ ertermT 64 (11 - e.ct + 1) e := by
    by_cases hk : 0 < 11 - e.ct + 1
    · have := (hp1 hk).2.2.2.2.1; omega
    · have := (hz1 (by omega)).2; omega
  have hT27 : ertermT 64 (11 - e.ct + 1) e ≤ 27 := by
    by_cases hk : 0 < 11 - e.ct + 1
    · have := (hp1 hk).2.2.2.2.2; omega
    · have := (hz1 (by omega)).2; omega
  have hp0bp : p0 ≤ e.bp := by rcases hs.2 with ⟨h', _⟩ | ⟨h', _⟩ <;> omega
  have hmodeA : e.bp = p0 → (e.c + e.a) * 2 ^ e.ct.toNat ≤ 134217728 := by
    intro hb; rcases hs.2 with ⟨_, h'⟩ | ⟨h', _⟩
    · exact h'
    · omega
  have hq1 : e1.c * 2 ^ e1.ct.toNat < 134217728 := by
    by_cases hk : 0 < 11 - e.ct + 1
    · exact (hp1 hk).1
    · rw [(hz1 (by omega)).1]
      rcases hs.2 with ⟨_, h'⟩ | ⟨_, h'⟩
      · have : (e.c + 1) * 2 ^ e.ct.toNat ≤ 134217728 := Nat.le_trans hle h'
        rw [Nat.add_mul, Nat.one_mul] at this; omega
      · omega
  have hfr1 : ∀ j, j ≤ p0 → rd e1.buf j = rd b0 j :=
    ertermLoop_seg p0 b0 64 _ e e1 h0 hs.1 hp0bp (fun hb => by
      have := hmodeA hb
      have h2 : (e.c + 1) * 2 ^ e.ct.toNat ≤ 134217728 := Nat.le_trans hle this
      rw [Nat.add_mul, Nat.one_mul] at h2; omega) he1
  have hc27 : e1.c < 134217728 := by
    have : e1.c * 1 ≤ e1.c * 2 ^ e1.ct.toNat := Nat.mul_le_mul_left _ (pow_pos2 _)
    omega
  -- facts at the end of the loop imply the facts before `ErtermEnc`
  have hfacts : ∀ (B : Nat → Nat) (last : Nat), Fx B last e1 (2 ^ (27 - e1.ct.toNat)) → FE B last e := by
    intro B last hf
    have hfx := hback1 B last (fun _ => ⟨hT27, by
        have hx : 2 ^ (27 - ertermT 64 (11 - e.ct + 1) e) ≤ e.a := by
          calc 2 ^ (27 - ertermT 64 (11 - e.ct + 1) e) ≤ 2 ^ 15 := Nat.pow_le_pow_right (by decide) (by omega)
            _ ≤ e.a := by omega
        exact Nat.le_trans (Nat.mul_le_mul_right _ (by omega)) h.A, by
        intro hb h255
        have hx : 2 ^ (27 - ertermT 64 (11 - e.ct + 1) e) ≤ e.a := by
          calc 2 ^ (27 - ertermT 64 (11 - e.ct + 1) e) ≤ 2 ^ 15 := Nat.pow_le_pow_right (by decide) (by omega)
            _ ≤ e.a := by omega
        exact Nat.le_trans (Nat.add_le_add_left (Nat.mul_le_mul_right _ (by omega)) _) (h.B hb h255)⟩) hf
    have hx : 2 ^ (27 - ertermT 64 (11 - e.ct + 1) e) ≤ e.a := by
      calc 2 ^ (27 - ertermT 64 (11 - e.ct + 1) e) ≤ 2 ^ 15 := Nat.pow_le_pow_right (by decide) (by omega)
        _ ≤ e.a := by omega
    unfold FE
    exact FA_mono _ _ _ _ _ _ _ _ (Nat.le_refl _) (Nat.mul_le_mul_right _ (by omega)) hfx
  have hin1 := h1.buf.inb
  have hK1 := pow_pos2 e1.ct.toNat
  have hct1 : e1.ct.toNat ≤ 27 := by have := h1.cthi; omega
  have hpw : 2 ^ (27 - e1.ct.toNat) * 2 ^ e1.ct.toNat = 134217728 := by
    rw [← Nat.pow_add, show 27 - e1.ct.toNat + e1.ct.toNat = 27 by omega]
  have hctxok : CtxOk e1.ctx := by rw [hc1]; exact h.ctx
  unfold ertermEnc
  simp only []
  rw [he1]
  simp only [rd_some e1.buf e1.bp hin1]
  by_cases hff : rd e1.buf e1.bp ≠ 255
  · -- one more byte-out; the stream ends with the byte at `e1.bp`
    rw [if_pos hff]
    have hge : (e1.c + 1) * 1 ≤ (e1.c + 1) * 2 ^ e1.ct.toNat := Nat.mul_le_mul_left _ hK1
    have hA1 : e1.c + 1 ≤ 150994944 := by have := h1.A; omega
    have hB1 : 1 ≤ e1.bp → rd e1.buf (e1.bp - 1) = 255 → rd e1.buf e1.bp * 134217728 + e1.c + 1 ≤ 19327352832 := by
      intro hb h255
      have hB := h1.B hb h255
      have hge' : e1.c + 1 ≤ (e1.c + 1) * 2 ^ e1.ct.toNat := by rw [Nat.mul_one] at hge; exact hge
      rw [Nat.add_assoc]
      exact Nat.le_trans (Nat.add_le_add_left hge' _) hB
    obtain ⟨ef, hef, hbuff, hbpf, _, hctxf, _⟩ := byteout_spec e1 1 h1.buf (by omega) (by omega) hA1 hB1
    have hkeep := byteout_keep e1 h1.buf hff hc27 ef hef
    obtain ⟨_, _, _, _, _, _, _, _, _, _, _, _, hpre, _⟩ := byteout_decomp e1 1 h1.buf (by omega) hA1 hB1 ef hef
    have hsame : ∀ j, j ≤ e1.bp → rd ef.buf j = rd e1.buf j := by
      intro j hj
      rcases Nat.lt_or_ge j e1.bp with h' | h'
      · exact hpre j h'
      · have : j = e1.bp := by omega
        rw [this]; exact hkeep
    have hBdef : ∀ j, finalB ef.buf e1.bp j = if j ≤ e1.bp then rd ef.buf j else 255 := fun j => rfl
    have hpad : ∀ j, e1.bp < j → finalB ef.buf e1.bp j = 255 := by intro j hj; rw [hBdef, if_neg (by omega)]
    have hst : ∀ j, j ≤ e1.bp → rd e1.buf j = finalB ef.buf e1.bp j := by
      intro j hj; rw [hBdef, if_pos hj, hsame j hj]
    have hf1 : Fx (finalB ef.buf e1.bp) e1.bp e1 (2 ^ (27 - e1.ct.toNat)) := by
      unfold Fx
      exact FA_base _ _ _ _ _ hpad hst hq1 (by rw [Nat.add_mul, hpw]; omega)
    have hlastnf : rd ef.buf e1.bp ≠ 255 := by rw [hkeep]; exact hff
    refine ⟨ef, e1.bp, e1.bp, hef, by rw [hctxf, hc1], ?_, ?_, hfacts _ _ hf1, by omega, ?_, ?_, by omega⟩
    · exact ⟨by omega, by have := hbuff.inb; omega, hbuff.bytes, fun i hi h255 => hbuff.marker i (by omega) h255,
        by rw [hbpf, Nat.add_sub_cancel]; exact hlastnf, by rw [hctxf]; exact hctxok⟩
    · refine ⟨fun j hj => hpad j (by omega), by omega, Nat.le_refl _, ?_, by rw [hBdef, if_pos (Nat.le_refl _)]; exact hlastnf, ?_⟩
      · intro j hj h255
        rw [hBdef, if_pos (by omega)] at h255
        rw [hBdef, if_pos hj]
        exact hbuff.marker j (by omega) h255
      · intro j; rw [hBdef]; split
        · exact hbuff.bytes j
        · decide
    · intro k hk; rw [hBdef, if_pos (by omega)]
    · intro j hj; rw [hsame j (by omega)]; exact hfr1 j hj
  · -- the last byte is 0xFF and stays outside the stream
    rw [if_neg hff]
    have hff' : rd e1.buf e1.bp = 255 := by
      rcases Nat.lt_trichotomy (rd e1.buf e1.bp) 255 with h' | h' | h'
      · exact absurd (by omega) hff
      · exact h'
      · exact absurd (by omega) hff
    have hk : 0 < 11 - e.ct + 1 := by
      rcases Int.lt_or_le 0 (11 - e.ct + 1) with h' | h'
      · exact h'
      · exfalso
        have he := (hz1 h').1
        rw [he] at hff'
        rcases hs.2 with ⟨hb, _⟩ | ⟨_, hct⟩
        · rw [hb, hs.1 p0 (Nat.le_refl _)] at hff'; exact hnf hff'
        · omega
    have hbpl := (hp1 hk).2.2.1
    have hBdef : ∀ j, finalB e1.buf e1.bp j = if j ≤ e1.bp then rd e1.buf j else 255 := fun j => rfl
    have hpad : ∀ j, e1.bp < j → finalB e1.buf e1.bp j = 255 := by intro j hj; rw [hBdef, if_neg (by omega)]
    have hst : ∀ j, j ≤ e1.bp → rd e1.buf j = finalB e1.buf e1.bp j := by intro j hj; rw [hBdef, if_pos hj]
    have hf1 : Fx (finalB e1.buf e1.bp) e1.bp e1 (2 ^ (27 - e1.ct.toNat)) := by
      unfold Fx
      exact FA_base _ _ _ _ _ hpad hst hq1 (by rw [Nat.add_mul, hpw]; omega)
    have hprev : rd e1.buf (e1.bp - 1) ≠ 255 := by
      intro h255
      have := h1.buf.marker (e1.bp - 1) (by omega) h255
      rw [show e1.bp - 1 + 1 = e1.bp by omega, hff'] at this
      omega
    refine ⟨e1, e1.bp, e1.bp - 1, rfl, hc1, ?_, ?_, hfacts _ _ hf1, rfl, ?_, hfr1, by omega⟩
    · exact ⟨by omega, by omega, h1.buf.bytes, fun i hi h255 => h1.buf.marker i (by omega) h255, hprev, hctxok⟩
    · refine ⟨?_, by omega, by omega, ?_, ?_, ?_⟩
      · intro j hj
        rcases Nat.lt_or_ge e1.bp j with h' | h'
        · exact hpad j h'
        · have : j = e1.bp := by omega
          rw [this, hBdef, if_pos (Nat.le_refl _)]; exact hff'
      · intro j hj h255
        rw [hBdef, if_pos (by omega)] at h255
        rw [hBdef, if_pos hj]
        exact h1.buf.marker j (by omega) h255
      · rw [hBdef, if_pos (by omega)]; exact hprev
      · intro j; rw [hBdef]; split
        · exact h1.buf.bytes j
        · decide
    · intro k hk'; rw [hBdef, if_pos (by omega)]

/-- termination of an MQ codeword segment: `ErtermEnc()` under PTERM, else `FlushToOutput()` -/
def termMq (style : Nat) (e : Enc) : Option Enc :=
  if styPterm style = true then ertermEnc e else flushToOutput e

theorem getBuffer_get' (e : Enc) (hsz : e.bp ≤ e.buf.size) (h1 : 1 ≤ e.bp) :
    (getBuffer e).length = e.bp - 1 ∧ ∀ k, k < e.bp - 1 → (getBuffer e)[k]? = some (rd e.buf (k + 1)) := by
  unfold getBuffer
  rw [if_neg (by unfold start; omega)]
  constructor
  · simp [Array.size_extract, start]; omega
  · intro k hk
    rw [Array.getElem?_toList, Array.getElem?_extract]
    have : min e.bp e.buf.size - start = e.bp - 1 := by unfold start; omega
    rw [this, if_pos hk]
    unfold start
    rw [rd_some e.buf (1 + k) (by omega), show 1 + k = k + 1 by omega]

/-- **the end of an MQ codeword segment**, both terminations: the facts hold before it against the final buffer, which
is a well-formed decoder input; the bytes in front of the segment are untouched -/
theorem term_facts (style : Nat) (e : Enc) (h : RegOk e) (hn : 0x8000 ≤ e.a) (p0 : Nat) (b0 : Array Nat)
    (hs : InSeg p0 b0 e) (hnf : rd b0 p0 ≠ 255) :
    ∃ ef last len, termMq style e = some ef ∧ ef.ctx = e.ctx ∧ TermOk ef ∧
      BOk (finalB ef.buf last) last len ∧ FE (finalB ef.buf last) last e ∧ len = ef.bp - 1 ∧
      (∀ k, k < len → finalB ef.buf last (k + 1) = rd ef.buf (k + 1)) ∧
      (∀ j, j ≤ p0 → rd ef.buf j = rd b0 j) ∧ p0 + 1 ≤ ef.bp ∧ (styPterm style = false → p0 + 2 ≤ ef.bp) := by
  unfold termMq
  by_cases hP : styPterm style = true
  · rw [if_pos hP]
    obtain ⟨ef, last, len, h1, h2, h3, h4, h5, h6, h7, h8, h9⟩ := erterm_facts e h hn p0 b0 hs hnf
    exact ⟨ef, last, len, h1, h2, h3, h4, h5, h6, h7, h8, h9, fun hh => absurd hP (by rw [hh]; simp)⟩
  · rw [if_neg hP]
    obtain ⟨ef, hef, hterm, hctx⟩ := flushToOutput_state e h hn
    obtain ⟨hfroz, hbp2⟩ := seg_flush p0 b0 e h hn hs ef hef
    obtain ⟨ef', bytes', last, len, hfl, hB, hfe, hblen, hbytes, _, _⟩ := flush_facts e h hn
    have hff : ef' = ef ∧ bytes' = getBuffer ef := by
      unfold flush at hfl
      rw [hef] at hfl
      simp only [Option.map_some, Option.some.injEq, Prod.mk.injEq] at hfl
      exact ⟨hfl.1.symm, hfl.2.symm⟩
    obtain ⟨hgl, hgg⟩ := getBuffer_get' ef hterm.sz hterm.bp1
    have hlen : len = ef.bp - 1 := by rw [← hblen, hff.2, hgl]
    rw [hff.1] at hB hfe hbytes
    refine ⟨ef, last, len, hef, hctx, hterm, hB, hfe, hlen, ?_, hfroz, by omega, fun _ => hbp2⟩
    intro k hk
    have h1 := hbytes k hk
    rw [hff.2, hgg k (by omega)] at h1
    exact (Option.some.inj h1).symm
end T1
