import GdcVerif.Model.JpegLosslessScan
import GdcVerif.Lemmas.JpegLossless
import GdcVerif.Lemmas.JllBits
import GdcVerif.Lemmas.JllCanon
import GdcVerif.Lemmas.Lockstep
/-!
  Layer L7 of C02: the whole-scan round trip of the JPEG Lossless model
  (`Model/JpegLossless.lean` + `Model/JpegLosslessScan.lean`).

  * T0  `decodeLoop_sim`, `decode_code`: `HuffDec.readBit` simulates the bit list `pending`, so
        `HuffDec.decode` returns the symbol whose canonical code heads the pending bits.
  * T1  `symWrites`, `readSym(s)`, `readSyms_spec`, `entropy_roundtrip`: the `WriteBits*; Flush`
        image of a (category, amplitude) sequence is read back by `Decode` / `ReadBits`.
  * T2  `sample_roundtrip_gen`, `sample_lockstep` (via `Lockstep.lockstep_exact`), `decStep_ok`,
        `decFold_ok`: prediction from visited neighbours, difference, reconstruction, over the
        whole scan order.
  * T3  `lossless_scan_roundtrip'` (Sized / InRange form, emitted categories only),
        `lossless_scan_roundtrip_emitted`, `lossless_scan_roundtrip` (last in the file).
-/
namespace JLL
open Gen.JpegLossless

/-! ## Outcome monad -/

@[simp] theorem Outcome.ok_bind {α β : Type} (a : α) (f : α → Outcome β) :
    (Outcome.ok a >>= f) = f a := rfl
@[simp] theorem Outcome.err_bind {α β : Type} (f : α → Outcome β) :
    ((Outcome.err : Outcome α) >>= f) = .err := rfl
@[simp] theorem Outcome.panic_bind {α β : Type} (f : α → Outcome β) :
    ((Outcome.panic : Outcome α) >>= f) = .panic := rfl
@[simp] theorem Outcome.pure_eq {α : Type} (a : α) : (pure a : Outcome α) = .ok a := rfl

theorem Outcome.bind_eq_ok {α β : Type} {x : Outcome α} {f : α → Outcome β} {b : β}
    (h : (x >>= f) = .ok b) : ∃ a, x = .ok a ∧ f a = .ok b := by
  cases x with
  | ok a => exact ⟨a, rfl, h⟩
  | err => exact absurd h (by simp)
  | panic => exact absurd h (by simp)

theorem foldlM_nil' {α β : Type} (f : β → α → Outcome β) (b : β) :
    List.foldlM f b [] = .ok b := rfl

theorem foldlM_cons_ok {α β : Type} (f : β → α → Outcome β) (b b' : β) (a : α) (l : List α)
    (h : f b a = .ok b') : List.foldlM f b (a :: l) = List.foldlM f b' l := by
  rw [List.foldlM_cons, h]; rfl

/-- general invariant rule for `foldlM` in `Outcome`: an invariant indexed by the processed
    prefix, preserved by each successful step that is guaranteed to succeed -/
theorem foldlM_inv {α β : Type} (f : β → α → Outcome β) (I : List α → β → Prop) :
    ∀ (post pre : List α) (b : β), I pre b →
      (∀ pre' a post' b, pre ++ post = pre' ++ a :: post' → I pre' b →
         ∃ b', f b a = .ok b' ∧ I (pre' ++ [a]) b') →
      ∃ b', List.foldlM f b post = .ok b' ∧ I (pre ++ post) b' := by
  intro post
  induction post with
  | nil => intro pre b hI _; exact ⟨b, rfl, by simpa using hI⟩
  | cons a post ih =>
    intro pre b hI hstep
    obtain ⟨b1, h1, hI1⟩ := hstep pre a post b rfl hI
    obtain ⟨b2, h2, hI2⟩ := ih (pre ++ [a]) b1 hI1 (by
      intro pre' a' post' b' heq hI'
      exact hstep pre' a' post' b' (by simpa using heq) hI')
    exact ⟨b2, by rw [foldlM_cons_ok f b b1 a post h1]; exact h2, by simpa using hI2⟩

/-! ## T0: the reader simulates the bit list -/

/-- the shift register update of the DECODE loop -/
def stepCode (code : Nat) (bit : Bool) : Nat := u32 (u32 (code <<< 1) ||| (if bit then 1 else 0))

theorem decodeLoop_cons {σ : Type} (values : Array Nat) (rd : σ → Option (Bool × σ))
    (minC maxC vp : Int) (rest : List (Int × Int × Int)) (code : Nat) (s : σ) :
    decodeLoop values rd ((minC, maxC, vp) :: rest) code s =
      match rd s with
      | none => .err
      | some (bit, s') =>
        if Go.wrap32 (stepCode code bit) ≤ maxC ∧ maxC ≥ 0 then
          if h : Go.wrap32 (vp + Go.wrap32 (stepCode code bit) - minC) ≥ 0 ∧
              (Go.wrap32 (vp + Go.wrap32 (stepCode code bit) - minC)).toNat < values.size then
            .ok (values[(Go.wrap32 (vp + Go.wrap32 (stepCode code bit) - minC)).toNat], s')
          else decodeLoop values rd rest (stepCode code bit) s'
        else decodeLoop values rd rest (stepCode code bit) s' := by
  simp only [decodeLoop, stepCode]
  rfl

theorem decodeLoop_sim (values : Array Nat) :
    ∀ (codes : List (Int × Int × Int)) (code : Nat) (d : HuffDec) (sym : Nat) (rest : List Bool),
      StuffOk d.data = true → d.nBits ≤ 7 →
      decodeLoop values listBit codes code (pending d) = .ok (sym, rest) →
      ∃ d', decodeLoop values HuffDec.readBit codes code d = .ok (sym, d') ∧ pending d' = rest ∧
        StuffOk d'.data = true ∧ d'.nBits ≤ 7 := by
  intro codes
  induction codes with
  | nil => intro code d sym rest _ _ h; simp [decodeLoop] at h
  | cons e codes ih =>
    intro code d sym rest hs hb h
    obtain ⟨minC, maxC, vp⟩ := e
    cases hp : pending d with
    | nil =>
      rw [hp] at h
      simp [decodeLoop, listBit] at h
    | cons b r =>
      obtain ⟨d1, hr, hp1, hs1, hb1⟩ := readBit_spec d hs hb b r hp
      rw [hp] at h
      rw [decodeLoop_cons] at h ⊢
      simp only [listBit] at h
      simp only [hr]
      by_cases h1 : Go.wrap32 ↑(stepCode code b) ≤ maxC ∧ maxC ≥ 0
      · simp only [h1, and_self, if_true] at h ⊢
        by_cases h2 : Go.wrap32 (vp + Go.wrap32 ↑(stepCode code b) - minC) ≥ 0 ∧
            (Go.wrap32 (vp + Go.wrap32 ↑(stepCode code b) - minC)).toNat < values.size
        · simp only [h2, and_self, dite_true] at h ⊢
          injection h with h
          injection h with e1 e2
          exact ⟨d1, by rw [e1], by rw [hp1, e2], hs1, hb1⟩
        · simp only [h2, dite_false] at h ⊢
          rw [← hp1] at h
          exact ih _ d1 sym rest hs1 hb1 h
      · simp only [h1, if_false] at h ⊢
        rw [← hp1] at h
        exact ih _ d1 sym rest hs1 hb1 h

/-- `HuffDec.decode` on a state whose pending bits start with the code of `sym` -/
theorem decode_code (bits : List Nat) (values : Array Nat) (t : Table)
    (hv : ValidTable bits values = true) (ht : Table.build bits values = .ok t)
    (sym : Nat) (hsym : sym ∈ values.toList) (c len : Nat)
    (hc : (buildHuffmanCodes bits values)[sym]? = some (c, len))
    (d : HuffDec) (hs : StuffOk d.data = true) (hb : d.nBits ≤ 7) (rest : List Bool)
    (hp : pending d = bitsOf c len ++ rest) :
    ∃ d', d.decode t = .ok (sym, d') ∧ pending d' = rest ∧ StuffOk d'.data = true ∧ d'.nBits ≤ 7 := by
  obtain ⟨t', ht', hv', hc'⟩ := build_ok bits values hv
  rw [ht] at ht'
  injection ht' with ht'
  subst ht'
  rw [decode_fast_path_dead d t hb, hv', hc']
  apply decodeLoop_sim values _ 0 d sym rest hs hb
  rw [hp]
  exact canonical_decode_encode bits values hv sym hsym c len hc rest


/-! ## T1: the entropy layer at sequence level -/

/-- admissible (category, amplitude) symbol -/
def SymOk (x : Nat × Nat) : Prop :=
  x.1 ≤ 16 ∧ x.2 < 2 ^ x.1 ∧ ((x.1 = 0 ∨ x.1 = 16) → x.2 = 0)

/-- the `WriteBits` calls of one symbol: its Huffman code, then the amplitude bits unless the
    category is 0 or 16 (encodeScan: `cat > 0 && cat != 16`) -/
def symWrite (codes : Array (Nat × Nat)) (x : Nat × Nat) : List (Nat × Nat) :=
  (codes[x.1]?.getD (0, 0)) :: (if 0 < x.1 ∧ x.1 ≠ 16 then [(x.2, x.1)] else [])

def symWrites (codes : Array (Nat × Nat)) (syms : List (Nat × Nat)) : List (Nat × Nat) :=
  syms.flatMap (symWrite codes)

/-- one symbol read, as in `decodeScan`: `Decode`, then `ReadBits(category)` unless 0 / 16 -/
def readSym (t : Table) (d : HuffDec) : Outcome ((Nat × Nat) × HuffDec) :=
  match d.decode t with
  | .err => .err
  | .panic => .panic
  | .ok (category, d1) =>
    if category = 0 ∨ category = 16 then .ok ((category, 0), d1)
    else match d1.readBits category with
      | none => .err
      | some (v, d2) => .ok ((category, v), d2)

def readSyms (t : Table) : Nat → HuffDec → Outcome (List (Nat × Nat) × HuffDec)
  | 0, d => .ok ([], d)
  | n + 1, d =>
    match readSym t d with
    | .err => .err
    | .panic => .panic
    | .ok (x, d1) =>
      match readSyms t n d1 with
      | .err => .err
      | .panic => .panic
      | .ok (xs, d2) => .ok (x :: xs, d2)

theorem symWrite_width (bits : List Nat) (values : Array Nat) (hv : ValidTable bits values = true)
    (x : Nat × Nat) (hx : SymOk x) (hm : x.1 ∈ values.toList) :
    ∀ w ∈ symWrite (buildHuffmanCodes bits values) x, w.2 ≤ 16 := by
  obtain ⟨c, len, hc, _, hl, _⟩ := codes_wf bits values hv x.1 hm
  intro w hw
  simp only [symWrite, hc, Option.getD_some, List.mem_cons] at hw
  rcases hw with hw | hw
  · rw [hw]; exact hl
  · split at hw
    · simp only [List.mem_singleton] at hw
      rw [hw]; exact hx.1
    · simp at hw

theorem symWrites_width (bits : List Nat) (values : Array Nat) (hv : ValidTable bits values = true)
    (syms : List (Nat × Nat)) (hok : ∀ x ∈ syms, SymOk x ∧ x.1 ∈ values.toList) :
    ∀ w ∈ symWrites (buildHuffmanCodes bits values) syms, w.2 ≤ 16 := by
  intro w hw
  simp only [symWrites, List.mem_flatMap] at hw
  obtain ⟨x, hx, hw⟩ := hw
  exact symWrite_width bits values hv x (hok x hx).1 (hok x hx).2 w hw

/-- one symbol, in the shape of the `decodeScan` loop body: `Decode` returns the category, and
    (only for categories 1..15) `ReadBits(category)` returns the amplitude -/
theorem readSym_parts (bits : List Nat) (values : Array Nat) (t : Table)
    (hv : ValidTable bits values = true) (ht : Table.build bits values = .ok t)
    (x : Nat × Nat) (hx : SymOk x) (hm : x.1 ∈ values.toList)
    (d : HuffDec) (hs : StuffOk d.data = true) (hb : d.nBits ≤ 7) (rest : List Bool)
    (hp : pending d =
      (symWrite (buildHuffmanCodes bits values) x).flatMap (fun w => bitsOf w.1 w.2) ++ rest) :
    ∃ d1 d2, d.decode t = .ok (x.1, d1) ∧
      ((0 < x.1 ∧ x.1 ≠ 16) → d1.readBits x.1 = some (x.2, d2)) ∧
      (¬ (0 < x.1 ∧ x.1 ≠ 16) → d2 = d1) ∧
      pending d2 = rest ∧ StuffOk d2.data = true ∧ d2.nBits ≤ 7 := by
  obtain ⟨c, len, hc, _, hl, _⟩ := codes_wf bits values hv x.1 hm
  obtain ⟨cat, amp⟩ := x
  obtain ⟨h16, hamp, hz⟩ := hx
  simp only at h16 hamp hz hc hm ⊢
  by_cases hcat : 0 < cat ∧ cat ≠ 16
  · have hp' : pending d = bitsOf c len ++ (bitsOf amp cat ++ rest) := by
      rw [hp]; simp [symWrite, hc, hcat]
    obtain ⟨d1, hd1, hp1, hs1, hb1⟩ :=
      decode_code bits values t hv ht cat hm c len hc d hs hb _ hp'
    obtain ⟨d2, hd2, hp2, hs2, hb2⟩ :=
      readBits_spec d1 hs1 hb1 cat h16 (bitsOf amp cat) rest (bitsOf_length amp cat) hp1
    rw [ofBits_bitsOf, Nat.mod_eq_of_lt hamp] at hd2
    exact ⟨d1, d2, hd1, fun _ => hd2, fun h => absurd hcat h, hp2, hs2, hb2⟩
  · have hp' : pending d = bitsOf c len ++ rest := by
      rw [hp]; simp [symWrite, hc, hcat]
    obtain ⟨d1, hd1, hp1, hs1, hb1⟩ :=
      decode_code bits values t hv ht cat hm c len hc d hs hb _ hp'
    exact ⟨d1, d1, hd1, fun h => absurd h hcat, fun _ => rfl, hp1, hs1, hb1⟩

/-- one symbol: the reader returns what the writer wrote and consumes exactly its bits -/
theorem readSym_spec (bits : List Nat) (values : Array Nat) (t : Table)
    (hv : ValidTable bits values = true) (ht : Table.build bits values = .ok t)
    (x : Nat × Nat) (hx : SymOk x) (hm : x.1 ∈ values.toList)
    (d : HuffDec) (hs : StuffOk d.data = true) (hb : d.nBits ≤ 7) (rest : List Bool)
    (hp : pending d =
      (symWrite (buildHuffmanCodes bits values) x).flatMap (fun w => bitsOf w.1 w.2) ++ rest) :
    ∃ d', readSym t d = .ok (x, d') ∧ pending d' = rest ∧ StuffOk d'.data = true ∧ d'.nBits ≤ 7 := by
  obtain ⟨c, len, hc, _, hl, _⟩ := codes_wf bits values hv x.1 hm
  obtain ⟨cat, amp⟩ := x
  obtain ⟨h16, hamp, hz⟩ := hx
  simp only at h16 hamp hz hc hm
  by_cases hcat : 0 < cat ∧ cat ≠ 16
  · have hp' : pending d = bitsOf c len ++ (bitsOf amp cat ++ rest) := by
      rw [hp]; simp [symWrite, hc, hcat]
    obtain ⟨d1, hd1, hp1, hs1, hb1⟩ :=
      decode_code bits values t hv ht cat hm c len hc d hs hb _ hp'
    obtain ⟨d2, hd2, hp2, hs2, hb2⟩ :=
      readBits_spec d1 hs1 hb1 cat h16 (bitsOf amp cat) rest (bitsOf_length amp cat) hp1
    rw [ofBits_bitsOf, Nat.mod_eq_of_lt hamp] at hd2
    refine ⟨d2, ?_, hp2, hs2, hb2⟩
    have hne : ¬ (cat = 0 ∨ cat = 16) := by omega
    simp only [readSym, hd1, hne, if_false, hd2]
  · have hp' : pending d = bitsOf c len ++ rest := by
      rw [hp]; simp [symWrite, hc, hcat]
    obtain ⟨d1, hd1, hp1, hs1, hb1⟩ :=
      decode_code bits values t hv ht cat hm c len hc d hs hb _ hp'
    have he : cat = 0 ∨ cat = 16 := by omega
    have ha : amp = 0 := hz he
    subst ha
    exact ⟨d1, by simp only [readSym, hd1, he, if_true], hp1, hs1, hb1⟩

theorem readSyms_spec (bits : List Nat) (values : Array Nat) (t : Table)
    (hv : ValidTable bits values = true) (ht : Table.build bits values = .ok t) :
    ∀ (syms : List (Nat × Nat)), (∀ x ∈ syms, SymOk x ∧ x.1 ∈ values.toList) →
    ∀ (d : HuffDec), StuffOk d.data = true → d.nBits ≤ 7 → ∀ (rest : List Bool),
    pending d =
      (symWrites (buildHuffmanCodes bits values) syms).flatMap (fun w => bitsOf w.1 w.2) ++ rest →
    ∃ d', readSyms t syms.length d = .ok (syms, d') ∧ pending d' = rest ∧
      StuffOk d'.data = true ∧ d'.nBits ≤ 7 := by
  intro syms
  induction syms with
  | nil =>
    intro _ d hs hb rest hp
    exact ⟨d, rfl, by simpa [symWrites] using hp, hs, hb⟩
  | cons x syms ih =>
    intro hok d hs hb rest hp
    have hp' : pending d =
        (symWrite (buildHuffmanCodes bits values) x).flatMap (fun w => bitsOf w.1 w.2) ++
        ((symWrites (buildHuffmanCodes bits values) syms).flatMap (fun w => bitsOf w.1 w.2) ++ rest) := by
      rw [hp]; simp [symWrites]
    obtain ⟨d1, hd1, hp1, hs1, hb1⟩ :=
      readSym_spec bits values t hv ht x (hok x (by simp)).1 (hok x (by simp)).2 d hs hb _ hp'
    obtain ⟨d2, hd2, hp2, hs2, hb2⟩ :=
      ih (fun y hy => hok y (by simp [hy])) d1 hs1 hb1 rest hp1
    refine ⟨d2, ?_, hp2, hs2, hb2⟩
    simp only [List.length_cons, readSyms, hd1, hd2]

/-- T1: the symbols written by the encoder's `WriteBits` sequence (+ `Flush`) are read back by
    the decoder's `Decode` / `ReadBits` sequence; the bytes satisfy the stuffing invariant -/
theorem entropy_roundtrip (bits : List Nat) (values : Array Nat) (t : Table)
    (hv : ValidTable bits values = true) (ht : Table.build bits values = .ok t)
    (syms : List (Nat × Nat)) (hok : ∀ x ∈ syms, SymOk x ∧ x.1 ∈ values.toList) :
    (∃ d', readSyms t syms.length
        { data := writeAll {} (symWrites (buildHuffmanCodes bits values) syms) } = .ok (syms, d')) ∧
    StuffOk (writeAll {} (symWrites (buildHuffmanCodes bits values) syms)) = true := by
  have hw := symWrites_width bits values hv syms hok
  have hst := writeAll_stuffOk _ hw
  obtain ⟨pad, _, _, hp⟩ := huffbits_roundtrip _ hw
  obtain ⟨d', hd', _⟩ := readSyms_spec bits values t hv ht syms hok
    { data := writeAll {} (symWrites (buildHuffmanCodes bits values) syms) } hst (Nat.zero_le 7) pad hp
  exact ⟨⟨d', hd'⟩, hst⟩


/-! ## T2: sample planes, scan geometry -/

abbrev Planes := Array (Array Int)
abbrev Pos := Nat × Nat × Nat

/-- total read of a sample plane cell (0 outside the planes) -/
def cell (s : Planes) (c i : Nat) : Int := (s[c]?.getD #[])[i]?.getD 0

/-- `nc` planes of `w * h` samples -/
def Sized (w h nc : Nat) (s : Planes) : Prop :=
  s.size = nc ∧ ∀ c, c < nc → (s[c]?.getD #[]).size = w * h

/-- all samples are P-bit values -/
def InRange (P : Nat) (s : Planes) : Prop :=
  ∀ c i, 0 ≤ cell s c i ∧ cell s c i < Go.shl 1 (P : Int)

theorem idx_lt {w h row col : Nat} (hr : row < h) (hc : col < w) : row * w + col < w * h := by
  have h1 : (row + 1) * w ≤ h * w := Nat.mul_le_mul_right w hr
  rw [Nat.add_mul, Nat.one_mul, Nat.mul_comm h w] at h1
  omega

theorem idx_inj {w row col row' col' : Nat} (hc : col < w) (hc' : col' < w)
    (h : row * w + col = row' * w + col') : row = row' ∧ col = col' := by
  have key : ∀ {a b x y : Nat}, x < w → a < b → a * w + x < b * w + y := by
    intro a b x y hx hab
    have h1 : (a + 1) * w ≤ b * w := Nat.mul_le_mul_right w hab
    rw [Nat.add_mul, Nat.one_mul] at h1
    omega
  rcases Nat.lt_trichotomy row row' with h1 | h1 | h1
  · have := key (y := col') hc h1; omega
  · subst h1; exact ⟨rfl, by omega⟩
  · have := key (y := col) hc' h1; omega

theorem readS_ok {w h nc : Nat} {s : Planes} (hs : Sized w h nc s) {c i : Nat} (hc : c < nc)
    (hi : i < w * h) (idx : Int) (hidx : idx = (i : Int)) : readS s c idx = .ok (cell s c i) := by
  have h1 : c < s.size := by rw [hs.1]; exact hc
  have h2 := hs.2 c hc
  have h3 : s[c]? = some s[c] := Array.getElem?_eq_getElem h1
  rw [h3, Option.getD_some] at h2
  have h4 : i < s[c].size := by rw [h2]; exact hi
  have h5 : s[c][i]? = some s[c][i] := Array.getElem?_eq_getElem h4
  subst hidx
  have h6 : ¬ ((i : Int) < 0) := by omega
  simp only [readS, h6, if_false, h3, Int.toNat_natCast, h5, cell, Option.getD_some]

/-- the neighbourhood at (row, col) of component `c` (0 where the scan does not read) -/
def nbOf (s : Planes) (c w row col : Nat) : Nb :=
  ⟨if col > 0 then cell s c (row * w + (col - 1)) else 0,
   if row > 0 then cell s c ((row - 1) * w + col) else 0,
   if row > 0 ∧ col > 0 then cell s c ((row - 1) * w + (col - 1)) else 0⟩

theorem readNb_ok {w h nc : Nat} {s : Planes} (hs : Sized w h nc s) {row col c : Nat}
    (hr : row < h) (hcl : col < w) (hc : c < nc) :
    readNb s c (w : Int) (row : Int) (col : Int) = .ok (nbOf s c w row col) := by
  have r1 : col > 0 → readS s c ((row : Int) * (w : Int) + ((col : Int) - 1))
      = .ok (cell s c (row * w + (col - 1))) := fun h0 =>
    readS_ok hs hc (idx_lt hr (by omega)) _ (by
      have c2 : ((col - 1 : Nat) : Int) = (col : Int) - 1 := by omega
      rw [Int.natCast_add, Int.natCast_mul, c2])
  have r2 : row > 0 → readS s c (((row : Int) - 1) * (w : Int) + (col : Int))
      = .ok (cell s c ((row - 1) * w + col)) := fun h0 =>
    readS_ok hs hc (idx_lt (by omega) hcl) _ (by
      have c1 : ((row - 1 : Nat) : Int) = (row : Int) - 1 := by omega
      rw [Int.natCast_add, Int.natCast_mul, c1])
  have r3 : row > 0 → col > 0 → readS s c (((row : Int) - 1) * (w : Int) + ((col : Int) - 1))
      = .ok (cell s c ((row - 1) * w + (col - 1))) := fun h0 h1 =>
    readS_ok hs hc (idx_lt (by omega) (by omega)) _ (by
      have c1 : ((row - 1 : Nat) : Int) = (row : Int) - 1 := by omega
      have c2 : ((col - 1 : Nat) : Int) = (col : Int) - 1 := by omega
      rw [Int.natCast_add, Int.natCast_mul, c1, c2])
  unfold readNb nbOf
  by_cases hc0 : col > 0 <;> by_cases hr0 : row > 0
  · simp [hc0, hr0, r1 hc0, r2 hr0, r3 hr0 hc0]
  · simp [hc0, hr0, r1 hc0]
  · simp [hc0, hr0, r2 hr0]
  · simp [hc0, hr0]

theorem cell_eq_getElem (s : Planes) (c i : Nat) (hc : c < s.size) (hi : i < s[c].size) :
    cell s c i = s[c][i] := by
  simp [cell, hc, hi]

theorem writeS_ok {w h nc : Nat} {s : Planes} (hs : Sized w h nc s) {c i : Nat} (hc : c < nc)
    (hi : i < w * h) (v : Int) :
    ∃ s', writeS s c i v = .ok s' ∧ Sized w h nc s' ∧
      ∀ c' i', cell s' c' i' = if c' = c ∧ i' = i then v else cell s c' i' := by
  have h1 : c < s.size := by rw [hs.1]; exact hc
  have h2 := hs.2 c hc
  have h3 : s[c]? = some s[c] := Array.getElem?_eq_getElem h1
  rw [h3, Option.getD_some] at h2
  have h4 : i < s[c].size := by rw [h2]; exact hi
  refine ⟨s.setIfInBounds c (s[c].setIfInBounds i v), ?_, ⟨?_, ?_⟩, ?_⟩
  · simp only [writeS, h3, h4, if_true]
  · rw [Array.size_setIfInBounds]; exact hs.1
  · intro c' hc'
    rw [Array.getElem?_setIfInBounds]
    by_cases hcc : c = c'
    · subst hcc
      simp only [if_true, h1, Option.getD_some, Array.size_setIfInBounds, h2]
    · simp only [hcc, if_false]
      exact hs.2 c' hc'
  · intro c' i'
    simp only [cell]
    rw [Array.getElem?_setIfInBounds]
    by_cases hcc : c = c'
    · subst hcc
      simp only [if_true, h1, Option.getD_some, h3, true_and]
      rw [Array.getElem?_setIfInBounds]
      by_cases hii : i = i'
      · subst hii
        simp [h4]
      · have : ¬ i' = i := fun h => hii h.symm
        simp [hii, this]
    · have : ¬ c' = c := fun h => hcc h.symm
      simp [hcc, this]

/-! ### the scan order -/

theorem mem_scanOrder {w h nc : Nat} {p : Pos} :
    p ∈ scanOrder w h nc ↔ p.1 < h ∧ p.2.1 < w ∧ p.2.2 < nc := by
  obtain ⟨row, col, c⟩ := p
  simp only [scanOrder, List.mem_flatMap, List.mem_map, List.mem_range, Prod.mk.injEq]
  constructor
  · rintro ⟨r, hr, cl, hcl, c', hc', e1, e2, e3⟩
    subst e1 e2 e3
    exact ⟨hr, hcl, hc'⟩
  · rintro ⟨h1, h2, h3⟩
    exact ⟨row, h1, col, h2, c, h3, rfl, rfl, rfl⟩

/-- the (lexicographic) order of the three nested loops -/
def posLt (p q : Pos) : Prop :=
  p.1 < q.1 ∨ (p.1 = q.1 ∧ (p.2.1 < q.2.1 ∨ (p.2.1 = q.2.1 ∧ p.2.2 < q.2.2)))

theorem posLt_mk (a b c a' b' c' : Nat) : posLt (a, b, c) (a', b', c') ↔
    (a < a' ∨ (a = a' ∧ (b < b' ∨ (b = b' ∧ c < c')))) := Iff.rfl

theorem scanOrder_pairwise (w h nc : Nat) : (scanOrder w h nc).Pairwise posLt := by
  unfold scanOrder
  rw [List.pairwise_flatMap]
  constructor
  · intro row _
    rw [List.pairwise_flatMap]
    constructor
    · intro col _
      rw [List.pairwise_map]
      exact List.pairwise_lt_range.imp (fun hab => Or.inr ⟨rfl, Or.inr ⟨rfl, hab⟩⟩)
    · refine List.pairwise_lt_range.imp (fun hab => ?_)
      intro x hx y hy
      simp only [List.mem_map, List.mem_range] at hx hy
      obtain ⟨_, _, rfl⟩ := hx
      obtain ⟨_, _, rfl⟩ := hy
      exact Or.inr ⟨rfl, Or.inl hab⟩
  · refine List.pairwise_lt_range.imp (fun hab => ?_)
    intro x hx y hy
    simp only [List.mem_flatMap, List.mem_map, List.mem_range] at hx hy
    obtain ⟨_, _, _, _, rfl⟩ := hx
    obtain ⟨_, _, _, _, rfl⟩ := hy
    exact Or.inl hab

/-- a position that precedes `p` in loop order has been visited before `p` -/
theorem before_mem {w h nc : Nat} {pre post : List Pos} {p q : Pos}
    (hsplit : scanOrder w h nc = pre ++ p :: post) (hq : q ∈ scanOrder w h nc) (hlt : posLt q p) :
    q ∈ pre := by
  have hpw := scanOrder_pairwise w h nc
  rw [hsplit] at hpw hq
  rw [List.pairwise_append] at hpw
  obtain ⟨_, h2, _⟩ := hpw
  rw [List.pairwise_cons] at h2
  rcases List.mem_append.1 hq with hq | hq
  · exact hq
  · exfalso
    rcases List.mem_cons.1 hq with hq | hq
    · subst hq; simp only [posLt] at hlt; omega
    · have := h2.1 q hq
      simp only [posLt] at hlt this; omega

/-- visited positions are distinct from the current one -/
theorem pre_lt {w h nc : Nat} {pre post : List Pos} {p q : Pos}
    (hsplit : scanOrder w h nc = pre ++ p :: post) (hq : q ∈ pre) : posLt q p := by
  have hpw := scanOrder_pairwise w h nc
  rw [hsplit, List.pairwise_append] at hpw
  exact hpw.2.2 q hq p (by simp)

/-! ### what the encoder computes at one position (pure) -/

/-- the prediction at position `p`, from the planes `s` -/
def predOf (sv1 : Bool) (P predictor w : Nat) (s : Planes) (p : Pos) : Int :=
  if sv1 then sv1Predicted (P : Int) (p.1 : Int) (p.2.1 : Int) (nbOf s p.2.2 w p.1 p.2.1)
  else encPredicted (P : Int) (predictor : Int) (p.1 : Int) (p.2.1 : Int) (nbOf s p.2.2 w p.1 p.2.1)

/-- the int16 difference the encoder codes at position `p` -/
def diffOf (sv1 : Bool) (P predictor w : Nat) (s : Planes) (p : Pos) : Int :=
  encDiff (cell s p.2.2 (p.1 * w + p.2.1)) (predOf sv1 P predictor w s p)

/-- (category, amplitude) of a difference -/
def symOfDiff (d : Int) : Nat × Nat :=
  ((encodeLosslessDifference d).1.toNat, (encodeLosslessDifference d).2.toNat)

/-- the symbol the encoder emits at position `p` -/
def symOf (sv1 : Bool) (P predictor w : Nat) (s : Planes) (p : Pos) : Nat × Nat :=
  symOfDiff (diffOf sv1 P predictor w s p)

/-- the symbol sequence of the scan -/
def scanSyms (sv1 : Bool) (P predictor w h nc : Nat) (s : Planes) : List (Nat × Nat) :=
  (scanOrder w h nc).map (symOf sv1 P predictor w s)

/-- the categories this scan emits (executable; the table must contain exactly these) -/
def emittedCats (sv1 : Bool) (P predictor w h nc : Nat) (s : Planes) : List Nat :=
  (scanSyms sv1 P predictor w h nc s).map (·.1)

theorem encDiff_range' (sample predicted : Int) :
    -32768 ≤ encDiff sample predicted ∧ encDiff sample predicted ≤ 32767 := by
  simp only [encDiff, Go.wrap16]; omega

theorem symOfDiff_ok (d : Int) (hlo : -32768 ≤ d) (hhi : d ≤ 32767) : SymOk (symOfDiff d) := by
  obtain ⟨_, h0, h16, hb0, hb, h16'⟩ := category_roundtrip' d hlo hhi
  have hc : ((2 ^ (encodeLosslessDifference d).1.toNat : Nat) : Int)
      = (2 : Int) ^ (encodeLosslessDifference d).1.toNat := by simp
  refine ⟨?_, ?_, ?_⟩
  · simp only [symOfDiff]; omega
  · simp only [symOfDiff]; omega
  · simp only [symOfDiff]
    rintro (hz | hs)
    · rw [hz] at hb; simp at hb; omega
    · have : (encodeLosslessDifference d).1 = 16 := by omega
      have hd := h16'.1 this
      subst hd
      decide

/-- the decoder's difference from the symbol (the three branches of `decodeScan`) is the
    encoder's difference -/
theorem symDiff_eq (d : Int) (hlo : -32768 ≤ d) (hhi : d ≤ 32767) (cat amp : Nat)
    (hx : symOfDiff d = (cat, amp)) :
    (if cat = 0 then (0 : Int)
     else if cat = 16 then receiveLosslessDifference 16 0
     else receiveLosslessDifference (cat : Int) (amp : Int)) = d := by
  obtain ⟨hr, h0, h16, hb0, hb, h16'⟩ := category_roundtrip' d hlo hhi
  simp only [symOfDiff, Prod.mk.injEq] at hx
  obtain ⟨hx1, hx2⟩ := hx
  have e1 : (cat : Int) = (encodeLosslessDifference d).1 := by omega
  have e2 : (amp : Int) = (encodeLosslessDifference d).2 := by omega
  by_cases hz : cat = 0
  · rw [if_pos hz]
    have : (encodeLosslessDifference d).1 = 0 := by omega
    rw [this] at hr
    rw [← hr]
    simp [receiveLosslessDifference, extend]
  · rw [if_neg hz]
    by_cases hs : cat = 16
    · rw [if_pos hs]
      have : (encodeLosslessDifference d).1 = 16 := by omega
      rw [h16'.1 this]
      decide
    · rw [if_neg hs, e1, e2]
      exact hr

theorem nbOf_in (P : Nat) (hP : 2 ≤ P ∧ P ≤ 16) (s : Planes) (hrng : InRange P s) (c w row col : Nat) :
    NbIn (P : Int) (nbOf s c w row col) := by
  have hf := pow_facts (P : Int) (by omega) (by omega)
  simp only at hf
  obtain ⟨hM, hH, _⟩ := hf
  have hz : (0 : Int) ≤ 0 ∧ (0 : Int) < Go.shl 1 (P : Int) := by omega
  unfold NbIn nbOf
  simp only
  refine ⟨?_, ?_, ?_, ?_, ?_, ?_⟩ <;> split <;> first | exact (hrng _ _).1 | exact (hrng _ _).2 | omega

/-- sample layer, one position: the decoder's reconstruction from the encoder's difference
    (prediction taken from the same planes `s`) is the sample, for any P-bit sample `x` -/
theorem sample_roundtrip_gen (sv1 : Bool) (P predictor w : Nat) (hP : 2 ≤ P ∧ P ≤ 16)
    (s : Planes) (hrng : InRange P s) (p : Pos) (x : Int) (hx : 0 ≤ x ∧ x < Go.shl 1 (P : Int)) :
    (if sv1 then sv1DecSample (P : Int) (predOf sv1 P predictor w s p)
        (encDiff x (predOf sv1 P predictor w s p))
     else decSample (P : Int) (predOf sv1 P predictor w s p)
        (encDiff x (predOf sv1 P predictor w s p))) = x := by
  have hP' : (2 : Int) ≤ (P : Int) ∧ (P : Int) ≤ 16 := by omega
  cases sv1 with
  | false =>
    simp only [Bool.false_eq_true, if_false]
    exact diff_wrap_inverse' (P : Int) _ _ hP' hx
  | true =>
    simp only [if_true, predOf]
    rw [sv1Predicted_eq_enc (P : Int) _ _ _ (by omega) (by omega)]
    exact wrap_once_inverse' (P : Int) 1 _ _ _ _ hP' (by decide) (nbOf_in P hP s hrng _ _ _ _)
      hx (Or.inl rfl)

theorem sample_roundtrip (sv1 : Bool) (P predictor w : Nat) (hP : 2 ≤ P ∧ P ≤ 16)
    (s : Planes) (hrng : InRange P s) (p : Pos) :
    (if sv1 then sv1DecSample (P : Int) (predOf sv1 P predictor w s p) (diffOf sv1 P predictor w s p)
     else decSample (P : Int) (predOf sv1 P predictor w s p) (diffOf sv1 P predictor w s p))
      = cell s p.2.2 (p.1 * w + p.2.1) :=
  sample_roundtrip_gen sv1 P predictor w hP s hrng p _ (hrng _ _)

/-! ### the sample layer as a lock-step pair (`Lockstep.lockstep_exact`)

  Encoder and decoder both carry the planes reconstructed so far; the generic lock-step
  induction then gives exact reconstruction of any sequence of (position, sample) pairs, in any
  visiting order.  (`decFold_ok` below is the same induction carried out on the monadic loops of
  the model, where the encoder reads the *source* planes instead.) -/

/-- total store into the planes (no effect outside) -/
def setCell (pl : Planes) (c i : Nat) (v : Int) : Planes :=
  pl.setIfInBounds c ((pl[c]?.getD #[]).setIfInBounds i v)

theorem cell_setCell (pl : Planes) (c i : Nat) (v : Int) (c' i' : Nat) :
    cell (setCell pl c i v) c' i' = cell pl c' i' ∨ cell (setCell pl c i v) c' i' = v := by
  simp only [cell, setCell]
  rw [Array.getElem?_setIfInBounds]
  by_cases hcc : c = c'
  · subst hcc
    by_cases hc : c < pl.size
    · simp only [if_true, hc, Option.getD_some]
      rw [Array.getElem?_setIfInBounds]
      by_cases hii : i = i'
      · subst hii
        by_cases hi : i < (pl[c]?.getD #[]).size
        · right; simp [hi]
        · left; simp only [if_true, hi, if_false, Option.getD_none]
          have : (pl[c]?.getD #[])[i]? = none := Array.getElem?_eq_none (by omega)
          rw [this]; rfl
      · left; simp [hii]
    · left
      simp [hc]
  · left; simp [hcc]

theorem inRange_setCell (P : Nat) (pl : Planes) (h : InRange P pl) (c i : Nat) (v : Int)
    (hv : 0 ≤ v ∧ v < Go.shl 1 (P : Int)) : InRange P (setCell pl c i v) := by
  intro c' i'
  rcases cell_setCell pl c i v c' i' with e | e <;> rw [e]
  · exact h c' i'
  · exact hv

/-- encoder step on the reconstructed planes: emit (position, int16 difference) -/
def lsEnc (sv1 : Bool) (P predictor w : Nat) : Planes → Pos × Int → Planes × (Pos × Int) :=
  fun pl x => (setCell pl x.1.2.2 (x.1.1 * w + x.1.2.1) x.2,
    (x.1, encDiff x.2 (predOf sv1 P predictor w pl x.1)))

/-- decoder step: reconstruct the sample from the difference and store it -/
def lsDec (sv1 : Bool) (P predictor w : Nat) : Planes → Pos × Int → Planes × (Pos × Int) :=
  fun pl e =>
    let v := if sv1 then sv1DecSample (P : Int) (predOf sv1 P predictor w pl e.1) e.2
             else decSample (P : Int) (predOf sv1 P predictor w pl e.1) e.2
    (setCell pl e.1.2.2 (e.1.1 * w + e.1.2.1) v, (e.1, v))

/-- T2 in lock-step form: decoding the differences of any sequence of P-bit samples, from any
    in-range initial planes, returns the sequence -/
theorem sample_lockstep (sv1 : Bool) (P predictor w : Nat) (hP : 2 ≤ P ∧ P ≤ 16)
    (pl0 : Planes) (h0 : InRange P pl0) (xs : List (Pos × Int))
    (hx : ∀ x ∈ xs, 0 ≤ x.2 ∧ x.2 < Go.shl 1 (P : Int)) :
    (Lockstep.decAll (lsDec sv1 P predictor w) pl0
      (Lockstep.encAll (lsEnc sv1 P predictor w) pl0 xs).2).2 = xs := by
  apply Lockstep.lockstep_exact (lsEnc sv1 P predictor w) (lsDec sv1 P predictor w)
    (InRange P) (fun x => 0 ≤ x.2 ∧ x.2 < Go.shl 1 (P : Int)) _ pl0 xs h0 hx
  intro pl x hpl hxr
  have hs := sample_roundtrip_gen sv1 P predictor w hP pl hpl x.1 x.2 hxr
  simp only [lsEnc, lsDec]
  rw [hs]
  exact ⟨rfl, rfl, inRange_setCell P pl hpl _ _ _ hxr⟩

/-! ### the encoder scan loop -/

/-- the body of `encodeScan`'s loop (verbatim) -/
def encStepFn (sv1 : Bool) (P predictor w : Nat) (codes : Array (Nat × Nat)) (s : Planes) :
    HuffEnc × List (List Nat) → Pos → Outcome (HuffEnc × List (List Nat)) :=
  fun (e, out) (row, col, c) => do
    let sample ← readS s c ((row : Int) * w + col)
    let nb ← readNb s c w row col
    let predicted := if sv1 then sv1Predicted P row col nb else encPredicted P predictor row col nb
    let diff := encDiff sample predicted
    let (cat, bits) := encodeLosslessDifference diff
    match codes[cat.toNat]? with
    | none => Outcome.panic
    | some (code, len) =>
      let r1 := e.writeBits code len
      let r2 := if cat > 0 ∧ cat ≠ 16 then r1.1.writeBits bits.toNat cat.toNat else (r1.1, [])
      pure (r2.1, r2.2 :: r1.2 :: out)

theorem encodeScan_eq (sv1 : Bool) (P predictor w h nc : Nat) (codes : Array (Nat × Nat)) (s : Planes) :
    encodeScan sv1 P predictor w h nc codes s =
      ((scanOrder w h nc).foldlM (encStepFn sv1 P predictor w codes s) (({} : HuffEnc), ([] : List (List Nat)))
        >>= fun r => pure ((r.1.flush.2 :: r.2).reverse.flatten)) := rfl

theorem encStep_ok (sv1 : Bool) (P predictor w h nc : Nat) (codes : Array (Nat × Nat)) (s : Planes)
    (hs : Sized w h nc s) (p : Pos) (hp : p ∈ scanOrder w h nc)
    (code len : Nat) (hcode : codes[(symOf sv1 P predictor w s p).1]? = some (code, len))
    (e : HuffEnc) (out : List (List Nat)) :
    ∃ e' out', encStepFn sv1 P predictor w codes s (e, out) p = .ok (e', out') ∧
      ∀ ws, out.reverse.flatten ++ writeAll e (symWrite codes (symOf sv1 P predictor w s p) ++ ws)
        = out'.reverse.flatten ++ writeAll e' ws := by
  obtain ⟨row, col, c⟩ := p
  obtain ⟨hr, hcl, hc⟩ := mem_scanOrder.1 hp
  simp only at hr hcl hc
  have hrd : readS s c ((row : Int) * (w : Int) + (col : Int)) = .ok (cell s c (row * w + col)) :=
    readS_ok hs hc (idx_lt hr hcl) _ (by rw [Int.natCast_add, Int.natCast_mul])
  have hnb := readNb_ok hs hr hcl hc
  obtain ⟨_, h0, h16, hb0, _, _⟩ := category_roundtrip' (diffOf sv1 P predictor w s (row, col, c))
    (encDiff_range' _ _).1 (encDiff_range' _ _).2
  simp only [symOf, symOfDiff] at hcode
  simp only [encStepFn, hrd, hnb, Outcome.ok_bind]
  simp only [symOf, symOfDiff]
  simp only [diffOf, predOf] at hcode h0 h16 hb0 ⊢
  generalize hE : encodeLosslessDifference _ = r at hcode h0 h16 hb0
  obtain ⟨cat, bits⟩ := r
  simp only at hcode h0 h16 hb0 ⊢
  simp only [hcode, symWrite, Option.getD_some, Outcome.pure_eq]
  by_cases hcat : cat > 0 ∧ cat ≠ 16
  · have hcat' : 0 < cat.toNat ∧ cat.toNat ≠ 16 := by omega
    refine ⟨_, _, rfl, ?_⟩
    intro ws
    simp only [hcat, hcat', and_self, if_true, writeAll, List.cons_append, List.nil_append,
      List.reverse_cons, List.flatten_append, List.flatten_cons, List.flatten_nil,
      List.append_nil, List.append_assoc, ne_eq, not_false_eq_true]
  · have hcat' : ¬ (0 < cat.toNat ∧ cat.toNat ≠ 16) := by omega
    refine ⟨_, _, rfl, ?_⟩
    intro ws
    simp only [hcat, hcat', if_false, writeAll, List.cons_append, List.nil_append,
      List.reverse_cons, List.flatten_append, List.flatten_cons, List.flatten_nil,
      List.append_nil, List.append_assoc]

theorem encFold_ok (sv1 : Bool) (P predictor w h nc : Nat) (codes : Array (Nat × Nat)) (s : Planes)
    (hs : Sized w h nc s) :
    ∀ (ps : List Pos), (∀ p ∈ ps, p ∈ scanOrder w h nc) →
      (∀ p ∈ ps, ∃ code len, codes[(symOf sv1 P predictor w s p).1]? = some (code, len)) →
      ∀ (e : HuffEnc) (out : List (List Nat)),
      ∃ e' out', ps.foldlM (encStepFn sv1 P predictor w codes s) (e, out) = .ok (e', out') ∧
        ∀ ws, out.reverse.flatten ++
            writeAll e (symWrites codes (ps.map (symOf sv1 P predictor w s)) ++ ws)
          = out'.reverse.flatten ++ writeAll e' ws := by
  intro ps
  induction ps with
  | nil => intro _ _ e out; exact ⟨e, out, rfl, fun ws => by simp [symWrites]⟩
  | cons p ps ih =>
    intro hmem hcodes e out
    obtain ⟨code, len, hcode⟩ := hcodes p (by simp)
    obtain ⟨e1, out1, h1, hw1⟩ :=
      encStep_ok sv1 P predictor w h nc codes s hs p (hmem p (by simp)) code len hcode e out
    obtain ⟨e2, out2, h2, hw2⟩ := ih (fun q hq => hmem q (by simp [hq]))
      (fun q hq => hcodes q (by simp [hq])) e1 out1
    refine ⟨e2, out2, ?_, ?_⟩
    · rw [foldlM_cons_ok _ _ _ _ _ h1]; exact h2
    · intro ws
      rw [← hw2 ws, ← hw1]
      simp [symWrites, List.append_assoc]

/-- the encoder's output is the `WriteBits`/`Flush` image of the scan's symbol sequence -/
theorem encodeScan_ok (sv1 : Bool) (P predictor w h nc : Nat) (codes : Array (Nat × Nat)) (s : Planes)
    (hs : Sized w h nc s)
    (hcodes : ∀ p ∈ scanOrder w h nc, ∃ code len,
      codes[(symOf sv1 P predictor w s p).1]? = some (code, len)) :
    encodeScan sv1 P predictor w h nc codes s
      = .ok (writeAll {} (symWrites codes (scanSyms sv1 P predictor w h nc s))) := by
  obtain ⟨e', out', h1, h2⟩ := encFold_ok sv1 P predictor w h nc codes s hs (scanOrder w h nc)
    (fun p hp => hp) hcodes {} []
  rw [encodeScan_eq, h1]
  have := h2 []
  simp only [List.reverse_nil, List.flatten_nil, List.nil_append, List.append_nil] at this
  simp only [Outcome.ok_bind, Outcome.pure_eq, scanSyms, this, writeAll, List.reverse_cons,
    List.flatten_append, List.flatten_cons, List.flatten_nil, List.append_nil]

/-! ### the decoder scan loop -/

/-- the body of `decodeScan`'s loop (verbatim) -/
def decStepFn (sv1 : Bool) (P predictor w : Nat) (t : Table) :
    HuffDec × Planes → Pos → Outcome (HuffDec × Planes) :=
  fun (d, s) (row, col, c) => do
    let (category, d1) ← d.decode t
    let (diff, d2) ←
      if category = 0 then pure ((0 : Int), d1)
      else if category = 16 then pure (receiveLosslessDifference 16 0, d1)
      else match d1.readBits category with
        | none => Outcome.err
        | some (v, d2) => pure (if category ≥ 64 then (v : Int) else receiveLosslessDifference category v, d2)
    let nb ← readNb s c w row col
    let predicted := if sv1 then sv1Predicted P row col nb else decPredicted P predictor row col nb
    let sample := if sv1 then sv1DecSample P predicted diff else decSample P predicted diff
    let s' ← writeS s c (row * w + col) sample
    pure (d2, s')

theorem decodeScan_eq (sv1 : Bool) (P predictor w h nc : Nat) (t : Table) (data : List Nat) :
    decodeScan sv1 P predictor w h nc t data =
      ((scanOrder w h nc).foldlM (decStepFn sv1 P predictor w t)
          (({ data := data } : HuffDec), Array.replicate nc (Array.replicate (w * h) 0))
        >>= fun r => pure r.2) := rfl

/-- the decoder's planes agree with the source on the visited positions -/
def Agree (w : Nat) (s pl : Planes) (pre : List Pos) : Prop :=
  ∀ q ∈ pre, cell pl q.2.2 (q.1 * w + q.2.1) = cell s q.2.2 (q.1 * w + q.2.1)

/-- the neighbours the scan reads at `p` have been visited, so both sides see the same values -/
theorem nbOf_agree {w h nc : Nat} {s pl : Planes} {pre post : List Pos} {row col c : Nat}
    (hsplit : scanOrder w h nc = pre ++ (row, col, c) :: post) (hag : Agree w s pl pre) :
    nbOf pl c w row col = nbOf s c w row col := by
  have hp : (row, col, c) ∈ scanOrder w h nc := by rw [hsplit]; simp
  obtain ⟨hr, hcl, hc⟩ := mem_scanOrder.1 hp
  simp only at hr hcl hc
  have key : ∀ row' col', row' < h → col' < w → posLt (row', col', c) (row, col, c) →
      cell pl c (row' * w + col') = cell s c (row' * w + col') := by
    intro row' col' h1 h2 hlt
    exact hag (row', col', c) (before_mem hsplit (mem_scanOrder.2 ⟨h1, h2, hc⟩) hlt)
  unfold nbOf
  congr 1
  · split
    · exact key row (col - 1) hr (by omega) (by rw [posLt_mk]; omega)
    · rfl
  · split
    · exact key (row - 1) col (by omega) hcl (by rw [posLt_mk]; omega)
    · rfl
  · split
    · exact key (row - 1) (col - 1) (by omega) (by omega) (by rw [posLt_mk]; omega)
    · rfl

/-- T2, one position: on the code + amplitude bits the encoder wrote for position `p`, the
    decoder's loop body consumes exactly those bits and stores the source sample -/
theorem decStep_ok (sv1 : Bool) (P predictor w h nc : Nat) (bits : List Nat) (values : Array Nat)
    (t : Table) (hv : ValidTable bits values = true) (ht : Table.build bits values = .ok t)
    (s : Planes) (hrng : InRange P s) (hP : 2 ≤ P ∧ P ≤ 16)
    (pre post : List Pos) (p : Pos) (hsplit : scanOrder w h nc = pre ++ p :: post)
    (hm : (symOf sv1 P predictor w s p).1 ∈ values.toList)
    (d : HuffDec) (hsd : StuffOk d.data = true) (hb : d.nBits ≤ 7) (rest : List Bool)
    (hpend : pending d = (symWrite (buildHuffmanCodes bits values)
        (symOf sv1 P predictor w s p)).flatMap (fun w => bitsOf w.1 w.2) ++ rest)
    (pl : Planes) (hpl : Sized w h nc pl) (hag : Agree w s pl pre) :
    ∃ d' pl', decStepFn sv1 P predictor w t (d, pl) p = .ok (d', pl') ∧ pending d' = rest ∧
      StuffOk d'.data = true ∧ d'.nBits ≤ 7 ∧ Sized w h nc pl' ∧ Agree w s pl' (pre ++ [p]) := by
  obtain ⟨row, col, c⟩ := p
  have hp : (row, col, c) ∈ scanOrder w h nc := by rw [hsplit]; simp
  obtain ⟨hr, hcl, hc⟩ := mem_scanOrder.1 hp
  simp only at hr hcl hc
  have hdr := encDiff_range' (cell s c (row * w + col)) (predOf sv1 P predictor w s (row, col, c))
  have hx : SymOk (symOf sv1 P predictor w s (row, col, c)) := symOfDiff_ok _ hdr.1 hdr.2
  obtain ⟨d1, d2, hdec, hrb, hnrb, hp2, hs2, hb2⟩ :=
    readSym_parts bits values t hv ht _ hx hm d hsd hb rest hpend
  have hdiff := symDiff_eq (diffOf sv1 P predictor w s (row, col, c)) hdr.1 hdr.2
    (symOf sv1 P predictor w s (row, col, c)).1 (symOf sv1 P predictor w s (row, col, c)).2 rfl
  have h16 := hx.1
  generalize symOf sv1 P predictor w s (row, col, c) = x at hdec hrb hnrb hdiff h16
  obtain ⟨cat, amp⟩ := x
  simp only at hdec hrb hnrb hdiff h16
  have hnb : readNb pl c (w : Int) (row : Int) (col : Int) = .ok (nbOf s c w row col) := by
    rw [readNb_ok hpl hr hcl hc, nbOf_agree hsplit hag]
  have hsamp := sample_roundtrip sv1 P predictor w hP s hrng (row, col, c)
  obtain ⟨pl', hw, hpl', hcell⟩ := writeS_ok hpl hc (idx_lt hr hcl) (cell s c (row * w + col))
  have hag' : Agree w s pl' (pre ++ [(row, col, c)]) := by
    intro q hq
    rw [hcell]
    rcases List.mem_append.1 hq with hq | hq
    · have hlt := pre_lt hsplit hq
      have hqm : q ∈ scanOrder w h nc := by rw [hsplit]; simp [hq]
      obtain ⟨row', col', c'⟩ := q
      obtain ⟨_, hcl', _⟩ := mem_scanOrder.1 hqm
      simp only at hcl' ⊢
      rw [posLt_mk] at hlt
      have hne : ¬ (c' = c ∧ row' * w + col' = row * w + col) := by
        rintro ⟨e1, e2⟩
        obtain ⟨e3, e4⟩ := idx_inj hcl' hcl e2
        omega
      rw [if_neg hne]
      exact hag (row', col', c') hq
    · simp only [List.mem_singleton] at hq
      subst hq
      simp
  simp only [predOf] at hsamp
  have fin : ∀ (dd : HuffDec) (v : Int), dd = d2 → v = cell s c (row * w + col) →
      ∃ d' pl'', (writeS pl c (row * w + col) v >>= fun s' => Outcome.ok (dd, s')) = .ok (d', pl'') ∧
        pending d' = rest ∧ StuffOk d'.data = true ∧ d'.nBits ≤ 7 ∧ Sized w h nc pl'' ∧
        Agree w s pl'' (pre ++ [(row, col, c)]) := by
    intro dd v hdd hvv
    subst hdd hvv
    exact ⟨dd, pl', by rw [hw]; rfl, hp2, hs2, hb2, hpl', hag'⟩
  by_cases hz : cat = 0
  · have hd2 : d2 = d1 := hnrb (by omega)
    rw [if_pos hz] at hdiff
    rw [← hdiff] at hsamp
    simp only [decStepFn, hdec, Outcome.ok_bind, Outcome.pure_eq, hz, if_true, hnb,
      decPredicted_eq_enc]
    exact fin _ _ hd2.symm hsamp
  · by_cases hs : cat = 16
    · have hd2 : d2 = d1 := hnrb (by omega)
      rw [if_neg hz, if_pos hs] at hdiff
      rw [← hdiff] at hsamp
      simp only [decStepFn, hdec, Outcome.ok_bind, Outcome.pure_eq, hs, if_true, hnb,
        decPredicted_eq_enc]
      exact fin _ _ hd2.symm hsamp
    · have hrb' := hrb (by omega)
      rw [if_neg hz, if_neg hs] at hdiff
      rw [← hdiff] at hsamp
      have h64 : ¬ cat ≥ 64 := by omega
      simp only [decStepFn, hdec, Outcome.ok_bind, Outcome.pure_eq, hz, hs, if_false, hnb,
        decPredicted_eq_enc, hrb', h64]
      exact fin _ _ rfl hsamp

/-- T2, whole scan order: the decoder loop over the remaining positions, started on the bits the
    encoder wrote for them, fills the planes with the source samples -/
theorem decFold_ok (sv1 : Bool) (P predictor w h nc : Nat) (bits : List Nat) (values : Array Nat)
    (t : Table) (hv : ValidTable bits values = true) (ht : Table.build bits values = .ok t)
    (s : Planes) (hrng : InRange P s) (hP : 2 ≤ P ∧ P ≤ 16)
    (hm : ∀ p ∈ scanOrder w h nc, (symOf sv1 P predictor w s p).1 ∈ values.toList) :
    ∀ (post pre : List Pos), scanOrder w h nc = pre ++ post →
    ∀ (d : HuffDec), StuffOk d.data = true → d.nBits ≤ 7 → ∀ (rest : List Bool),
      pending d = (symWrites (buildHuffmanCodes bits values)
        (post.map (symOf sv1 P predictor w s))).flatMap (fun w => bitsOf w.1 w.2) ++ rest →
    ∀ (pl : Planes), Sized w h nc pl → Agree w s pl pre →
    ∃ d' pl', post.foldlM (decStepFn sv1 P predictor w t) (d, pl) = .ok (d', pl') ∧
      pending d' = rest ∧ Sized w h nc pl' ∧ Agree w s pl' (pre ++ post) := by
  intro post
  induction post with
  | nil =>
    intro pre _ d _ _ rest hpend pl hpl hag
    exact ⟨d, pl, rfl, by simpa [symWrites] using hpend, hpl, by simpa using hag⟩
  | cons p post ih =>
    intro pre hsplit d hsd hb rest hpend pl hpl hag
    have hpm : p ∈ scanOrder w h nc := by rw [hsplit]; simp
    have hpend' : pending d = (symWrite (buildHuffmanCodes bits values)
          (symOf sv1 P predictor w s p)).flatMap (fun w => bitsOf w.1 w.2) ++
        ((symWrites (buildHuffmanCodes bits values)
          (post.map (symOf sv1 P predictor w s))).flatMap (fun w => bitsOf w.1 w.2) ++ rest) := by
      rw [hpend]; simp [symWrites]
    obtain ⟨d1, pl1, h1, hp1, hs1, hb1, hpl1, hag1⟩ :=
      decStep_ok sv1 P predictor w h nc bits values t hv ht s hrng hP pre post p hsplit
        (hm p hpm) d hsd hb _ hpend' pl hpl hag
    obtain ⟨d2, pl2, h2, hp2, hpl2, hag2⟩ :=
      ih (pre ++ [p]) (by rw [hsplit]; simp) d1 hs1 hb1 rest hp1 pl1 hpl1 hag1
    refine ⟨d2, pl2, ?_, hp2, hpl2, by simpa using hag2⟩
    rw [foldlM_cons_ok _ _ _ _ _ h1]; exact h2

/-- planes of the same shape that agree on every scan position are equal -/
theorem planes_ext {w h nc : Nat} {s pl : Planes} (hs : Sized w h nc s) (hpl : Sized w h nc pl)
    (hag : Agree w s pl (scanOrder w h nc)) : pl = s := by
  have hcell : ∀ c i, c < nc → i < w * h → cell pl c i = cell s c i := by
    intro c i hc hi
    have hw : 0 < w := by
      rcases Nat.eq_zero_or_pos w with h0 | h0
      · subst h0; simp at hi
      · exact h0
    have h1 : i / w < h := Nat.div_lt_of_lt_mul hi
    have h2 : i % w < w := Nat.mod_lt _ hw
    have h3 : i / w * w + i % w = i := by rw [Nat.mul_comm]; exact Nat.div_add_mod i w
    have := hag (i / w, i % w, c) (mem_scanOrder.2 ⟨h1, h2, hc⟩)
    simp only [h3] at this
    exact this
  apply Array.ext
  · rw [hs.1, hpl.1]
  · intro c hc1 hc2
    have hc : c < nc := by rw [← hpl.1]; exact hc1
    have e1 := hpl.2 c hc
    have e2 := hs.2 c hc
    rw [Array.getElem?_eq_getElem hc1, Option.getD_some] at e1
    rw [Array.getElem?_eq_getElem hc2, Option.getD_some] at e2
    apply Array.ext
    · rw [e1, e2]
    · intro i hi1 hi2
      have := hcell c i hc (by rw [← e1]; exact hi1)
      rw [cell_eq_getElem pl c i hc1 hi1, cell_eq_getElem s c i hc2 hi2] at this
      exact this

theorem sized_init (w h nc : Nat) :
    Sized w h nc (Array.replicate nc (Array.replicate (w * h) (0 : Int))) := by
  refine ⟨Array.size_replicate, ?_⟩
  intro c hc
  simp [hc]

/-! ## T3: the whole-scan round trip -/

/-- T3 (general form): sizes/ranges in `Sized` / `InRange` form, and only the categories this
    scan emits need to be in the table -/
theorem lossless_scan_roundtrip' (sv1 : Bool) (P predictor w h nc : Nat) (bits : List Nat)
    (values : Array Nat) (t : Table) (s : Planes)
    (hP : 2 ≤ P ∧ P ≤ 16)
    (hv : ValidTable bits values = true) (ht : Table.build bits values = .ok t)
    (hcat : ∀ k ∈ emittedCats sv1 P predictor w h nc s, k ∈ values.toList)
    (hsz : Sized w h nc s) (hrng : InRange P s) :
    ∃ scan, encodeScan sv1 P predictor w h nc (buildHuffmanCodes bits values) s = .ok scan ∧
      scan = writeAll {} (symWrites (buildHuffmanCodes bits values) (scanSyms sv1 P predictor w h nc s)) ∧
      StuffOk scan = true ∧ decodeScan sv1 P predictor w h nc t scan = .ok s := by
  have hm : ∀ p ∈ scanOrder w h nc, (symOf sv1 P predictor w s p).1 ∈ values.toList := by
    intro p hp
    apply hcat
    simp only [emittedCats, scanSyms, List.map_map, List.mem_map]
    exact ⟨p, hp, rfl⟩
  have hok : ∀ x ∈ scanSyms sv1 P predictor w h nc s, SymOk x ∧ x.1 ∈ values.toList := by
    intro x hx
    simp only [scanSyms, List.mem_map] at hx
    obtain ⟨p, hp, rfl⟩ := hx
    exact ⟨symOfDiff_ok _ (encDiff_range' _ _).1 (encDiff_range' _ _).2, hm p hp⟩
  have hcodes : ∀ p ∈ scanOrder w h nc, ∃ code len,
      (buildHuffmanCodes bits values)[(symOf sv1 P predictor w s p).1]? = some (code, len) := by
    intro p hp
    obtain ⟨c, len, hc, _⟩ := codes_wf bits values hv _ (hm p hp)
    exact ⟨c, len, hc⟩
  have henc := encodeScan_ok sv1 P predictor w h nc (buildHuffmanCodes bits values) s hsz hcodes
  have hw := symWrites_width bits values hv _ hok
  have hst := writeAll_stuffOk _ hw
  obtain ⟨pad, _, _, hpend⟩ := huffbits_roundtrip _ hw
  refine ⟨_, henc, rfl, hst, ?_⟩
  obtain ⟨d', pl', hf, _, hpl', hag'⟩ :=
    decFold_ok sv1 P predictor w h nc bits values t hv ht s hrng hP hm (scanOrder w h nc) []
      rfl _ hst (Nat.zero_le 7) pad hpend _ (sized_init w h nc) (by intro q hq; simp at hq)
  rw [decodeScan_eq, hf]
  have : pl' = s := planes_ext hsz hpl' (by simpa using hag')
  subst this
  rfl

theorem sized_of (w h nc : Nat) (s : Planes)
    (hsz : s.size = nc ∧ ∀ c (hc : c < s.size), s[c].size = w * h) : Sized w h nc s := by
  refine ⟨hsz.1, ?_⟩
  intro c hc
  have hc' : c < s.size := by rw [hsz.1]; exact hc
  rw [Array.getElem?_eq_getElem hc', Option.getD_some]
  exact hsz.2 c hc'

theorem inRange_of (P : Nat) (hP : 2 ≤ P ∧ P ≤ 16) (s : Planes)
    (hrng : ∀ c (hc : c < s.size) i (hi : i < s[c].size), 0 ≤ s[c][i] ∧ s[c][i] < Go.shl 1 P) :
    InRange P s := by
  have hf := pow_facts (P : Int) (by omega) (by omega)
  simp only at hf
  obtain ⟨hM, hH, _⟩ := hf
  intro c i
  by_cases hc : c < s.size
  · by_cases hi : i < s[c].size
    · rw [cell_eq_getElem s c i hc hi]; exact hrng c hc i hi
    · have : cell s c i = 0 := by simp [cell, hc, hi]
      rw [this]; omega
  · have : cell s c i = 0 := by simp [cell, hc]
    rw [this]; omega

/-- T3 with the weakest table hypothesis: only the categories this scan emits (the executable
    list `emittedCats`) have to be symbols of the table -/
theorem lossless_scan_roundtrip_emitted (sv1 : Bool) (P predictor w h nc : Nat) (bits : List Nat)
    (values : Array Nat) (t : Table) (s : Array (Array Int))
    (hP : 2 ≤ P ∧ P ≤ 16)
    (hv : ValidTable bits values = true) (ht : Table.build bits values = .ok t)
    (hcat : ∀ k ∈ emittedCats sv1 P predictor w h nc s, k ∈ values.toList)
    (hsz : s.size = nc ∧ ∀ c (hc : c < s.size), s[c].size = w * h)
    (hrng : ∀ c (hc : c < s.size) i (hi : i < s[c].size), 0 ≤ s[c][i] ∧ s[c][i] < Go.shl 1 P) :
    ∃ scan, encodeScan sv1 P predictor w h nc (buildHuffmanCodes bits values) s = .ok scan ∧
      StuffOk scan = true ∧ decodeScan sv1 P predictor w h nc t scan = .ok s := by
  obtain ⟨scan, h1, _, h2, h3⟩ := lossless_scan_roundtrip' sv1 P predictor w h nc bits values t s hP
    hv ht hcat (sized_of w h nc s hsz) (inRange_of P hP s hrng)
  exact ⟨scan, h1, h2, h3⟩

/-- every emitted category is ≤ 16 -/
theorem emittedCats_le (sv1 : Bool) (P predictor w h nc : Nat) (s : Planes) :
    ∀ k ∈ emittedCats sv1 P predictor w h nc s, k ≤ 16 := by
  intro k hk
  simp only [emittedCats, scanSyms, List.map_map, List.mem_map] at hk
  obtain ⟨p, _, rfl⟩ := hk
  exact (symOfDiff_ok _ (encDiff_range' _ _).1 (encDiff_range' _ _).2).1

/-- T3 (C02 L7): the whole-scan round trip of the JPEG Lossless model (jpeg/lossless for
    `sv1 = false`, lossless14sv1 for `sv1 = true`): for every precision 2..16, every sample
    array of the declared shape with P-bit samples, and every valid Huffman table that has all 17
    categories, `encodeScan` succeeds, its bytes satisfy the stuffing invariant and `decodeScan`
    returns exactly the source planes.  (`_hp` is not needed: the `& (2^P-1)` reconstruction of
    jpeg/lossless inverts the int16 difference for any prediction, and SV1 ignores `predictor`.) -/
theorem lossless_scan_roundtrip (sv1 : Bool) (P predictor w h nc : Nat) (bits : List Nat)
    (values : Array Nat) (t : Table) (s : Array (Array Int))
    (hP : 2 ≤ P ∧ P ≤ 16) (_hp : 1 ≤ predictor ∧ predictor ≤ 7)
    (hv : ValidTable bits values = true) (ht : Table.build bits values = .ok t)
    (hcat : ∀ k, k ≤ 16 → k ∈ values.toList)
    (hsz : s.size = nc ∧ ∀ c (hc : c < s.size), s[c].size = w * h)
    (hrng : ∀ c (hc : c < s.size) i (hi : i < s[c].size), 0 ≤ s[c][i] ∧ s[c][i] < Go.shl 1 P) :
    ∃ scan, encodeScan sv1 P predictor w h nc (buildHuffmanCodes bits values) s = .ok scan ∧
      StuffOk scan = true ∧ decodeScan sv1 P predictor w h nc t scan = .ok s :=
  lossless_scan_roundtrip_emitted sv1 P predictor w h nc bits values t s hP hv ht
    (fun k hk => hcat k (emittedCats_le sv1 P predictor w h nc s k hk)) hsz hrng

end JLL

