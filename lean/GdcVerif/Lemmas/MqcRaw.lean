import GdcVerif.Lemmas.Mqc
/-!
  C20 — the raw (bypass) bit writer `BypassEncode` / `BypassFlushEnc` against the raw bit reader `RawDecode`:
  step-wise round trip in the same "facts from the future" form as the MQ coder.  Bits go MSB first into bytes,
  the byte after a 0xFF carries 7 bits; the flush pads with 0,1,0,1,…, and (without `erterm`) drops a trailing 0xFF
  or a trailing 0xFF 0x7F, which the reader reproduces from its 0xFF 0xFF sentinel.
-/
namespace Mqc

/-- the bit counter with the start sentinel read as 8 -/
def ect (e : Enc) : Int := if e.ct = bypassCtInit then 8 else e.ct

/-- invariant of the encoder inside a raw segment that starts at buffer position `p0` -/
structure RawOk (p0 : Nat) (e : Enc) : Prop where
  p1 : 1 ≤ p0
  hp : p0 ≤ e.bp
  sz : e.bp ≤ e.buf.size
  bytes : ∀ i, rd e.buf i < 256
  marker : ∀ i, i + 1 < e.bp → rd e.buf i = 255 → rd e.buf (i + 1) ≤ 143
  prev : rd e.buf (p0 - 1) ≠ 255
  init : e.ct = bypassCtInit → e.c = 0 ∧ e.bp = p0
  ctlo : 1 ≤ ect e
  cthi : ect e ≤ 8
  c8 : e.c < 256
  cmod : e.c % 2 ^ (ect e).toNat = 0
  ff : rd e.buf (e.bp - 1) = 255 → ect e ≤ 7 ∧ e.c < 128
  first : e.ct = 8 → p0 < e.bp

theorem pow_le_128 (k : Nat) (hk : k ≤ 7) : 2 ^ k ≤ 128 :=
  calc 2 ^ k ≤ 2 ^ 7 := Nat.pow_le_pow_right (by omega) hk
    _ = 128 := rfl

theorem bypassEncode_eq (e : Enc) (bit k : Nat) (hk : ect e = (k : Int) + 1) (hk7 : k ≤ 7) (hb : bit ≤ 1)
    (hc : e.c + bit * 2 ^ k < 256) :
    bypassEncode e bit =
      if k = 0 then some { e with buf := (if e.bp ≥ e.buf.size then ensureIndex e.buf e.bp else e.buf).setIfInBounds e.bp (e.c + bit),
                                   bp := e.bp + 1, c := 0, ct := if e.c + bit = 255 then 7 else 8 }
      else some { e with c := e.c + bit * 2 ^ k, ct := (k : Int) } := by
  have hp := pow_le_128 k hk7
  have hsh : shl32 (u32 bit) ((k : Int)).toNat = bit * 2 ^ k := by
    unfold shl32 u32
    rw [Int.toNat_natCast, if_neg (by omega)]
    rcases (show bit = 0 ∨ bit = 1 by omega) with rfl | rfl
    · simp
    · rw [show 1 % 4294967296 = 1 from rfl, Nat.one_mul, Nat.mod_eq_of_lt (by omega)]
  unfold bypassEncode
  unfold ect at hk
  simp only [hk, show ((k : Int) + 1 - 1) = (k : Int) by omega, show ¬((k : Int) < 0) by omega, if_false, hsh]
  have hu : u32 (e.c + bit * 2 ^ k) = e.c + bit * 2 ^ k := by
    unfold u32; exact Nat.mod_eq_of_lt (by omega)
  rw [hu]
  by_cases h0 : k = 0
  · subst h0
    simp only [Int.natCast_zero, if_true, Nat.pow_zero, Nat.mul_one]
    have h8 : u8 (e.c + bit) = e.c + bit := by
      unfold u8; exact Nat.mod_eq_of_lt (by simpa using hc)
    rw [h8]
  · rw [if_neg (by omega), if_neg h0]

theorem ect_of_ct (e : Enc) (v : Int) (hv : ¬(v = bypassCtInit)) (h : e.ct = v) : ect e = v := by
  unfold ect; rw [h, if_neg hv]

theorem ect_nat (p0 : Nat) (e : Enc) (h : RawOk p0 e) : ∃ k : Nat, ect e = (k : Int) + 1 ∧ k ≤ 7 :=
  ⟨(ect e - 1).toNat, by have := h.ctlo; omega, by have := h.ctlo; have := h.cthi; omega⟩

theorem mod_half (c P : Nat) (h : c % (2 * P) = 0) : c % P = 0 := by
  have := Nat.mod_mod_of_dvd c (show P ∣ 2 * P from ⟨2, by omega⟩)
  rw [h] at this
  rw [← this]; exact Nat.zero_mod P

/-- arithmetic of one more bit below the bits already written -/
theorem bit_arith (c k bit lim : Nat) (hk7 : k ≤ 7) (hb : bit ≤ 1) (hmod : c % 2 ^ (k + 1) = 0)
    (hlim : lim = 256 ∨ lim = 128) (hkl : lim = 128 → k ≤ 6) (hc : c < lim) :
    c + bit * 2 ^ k < lim ∧ (c + bit * 2 ^ k) % 2 ^ k = 0 ∧ (c + bit * 2 ^ k) / 2 ^ (k + 1) = c / 2 ^ (k + 1) ∧
      (c + bit * 2 ^ k) / 2 ^ k % 2 = bit := by
  have hk : k = 0 ∨ k = 1 ∨ k = 2 ∨ k = 3 ∨ k = 4 ∨ k = 5 ∨ k = 6 ∨ k = 7 := by omega
  rcases (show bit = 0 ∨ bit = 1 by omega) with rfl | rfl <;>
  rcases hk with rfl | rfl | rfl | rfl | rfl | rfl | rfl | rfl <;>
  rcases hlim with rfl | rfl <;> simp only [Nat.reducePow, Nat.reduceAdd] at hmod ⊢ <;> omega

theorem bypassEncode_spec (p0 : Nat) (e : Enc) (h : RawOk p0 e) (bit k : Nat) (hk : ect e = (k : Int) + 1)
    (hb : bit ≤ 1) :
    ∃ e1, bypassEncode e bit = some e1 ∧ RawOk p0 e1 ∧ e1.ctx = e.ctx ∧ e1.a = e.a ∧
      ((k ≠ 0 ∧ e1.buf = e.buf ∧ e1.bp = e.bp ∧ e1.ct = (k : Int) ∧ ect e1 = (k : Int) ∧ e1.c = e.c + bit * 2 ^ k) ∨
       (k = 0 ∧ e1.bp = e.bp + 1 ∧ e1.c = 0 ∧ (∀ i, rd e1.buf i = if i = e.bp then e.c + bit else rd e.buf i) ∧
          e1.ct = (if e.c + bit = 255 then 7 else 8) ∧ ect e1 = (if e.c + bit = 255 then 7 else 8))) := by
  have hk7 : k ≤ 7 := by have := h.cthi; omega
  have hmod : e.c % 2 ^ (k + 1) = 0 := by have := h.cmod; rw [hk] at this; simpa using this
  have hA := bit_arith e.c k bit 256 hk7 hb hmod (Or.inl rfl) (fun hh => absurd hh (by decide)) h.c8
  rw [bypassEncode_eq e bit k hk hk7 hb hA.1]
  by_cases h0 : k = 0
  · subst h0
    rw [if_pos rfl]
    simp only [Nat.pow_zero, Nat.mul_one, Nat.zero_add, Nat.pow_one] at hA hmod
    have hrd : ∀ i, rd ((if e.bp ≥ e.buf.size then ensureIndex e.buf e.bp else e.buf).setIfInBounds e.bp (e.c + bit)) i =
        if i = e.bp then e.c + bit else rd e.buf i := by
      intro i
      by_cases hge : e.bp ≥ e.buf.size
      · rw [if_pos hge, rd_set _ _ _ _ (size_ensure e.buf e.bp).1, rd_ensure]
        by_cases hi : e.bp = i
        · rw [if_pos hi, if_pos hi.symm]
        · rw [if_neg hi, if_neg (fun hh => hi hh.symm)]
      · rw [if_neg hge, rd_set _ _ _ _ (by omega)]
        by_cases hi : e.bp = i
        · rw [if_pos hi, if_pos hi.symm]
        · rw [if_neg hi, if_neg (fun hh => hi hh.symm)]
    have hsz : e.bp + 1 ≤ ((if e.bp ≥ e.buf.size then ensureIndex e.buf e.bp else e.buf).setIfInBounds e.bp (e.c + bit)).size := by
      rw [Array.size_setIfInBounds]
      by_cases hge : e.bp ≥ e.buf.size
      · rw [if_pos hge]; have := (size_ensure e.buf e.bp).1; omega
      · rw [if_neg hge]; omega
    have hne7 : ¬((7 : Int) = bypassCtInit) := by unfold bypassCtInit; omega
    have hne8 : ¬((8 : Int) = bypassCtInit) := by unfold bypassCtInit; omega
    have hne78 : ¬((if e.c + bit = 255 then (7 : Int) else 8) = bypassCtInit) := by split <;> assumption
    have hect0 := fun (e' : Enc) (h' : e'.ct = (if e.c + bit = 255 then (7 : Int) else 8)) => ect_of_ct e' _ hne78 h'
    refine ⟨_, rfl, ?_, rfl, rfl, Or.inr ⟨rfl, rfl, rfl, hrd, rfl, hect0 _ rfl⟩⟩
    have hect1 := hect0 _ (rfl : (Enc.mk ((if e.bp ≥ e.buf.size then ensureIndex e.buf e.bp else e.buf).setIfInBounds e.bp (e.c + bit)) (e.bp + 1) e.a 0 (if e.c + bit = 255 then 7 else 8) e.ctx).ct = _)
    refine ⟨h.p1, by show p0 ≤ e.bp + 1; have := h.hp; omega, hsz, ?_, ?_, ?_, ?_, ?_, ?_, by show (0 : Nat) < 256; omega, ?_, ?_, ?_⟩
    · intro i; rw [hrd]; split
      · exact hA.1
      · exact h.bytes i
    · intro i hi hff
      have hi' : i + 1 < e.bp + 1 := hi
      show rd _ (i + 1) ≤ 143
      rw [hrd] at hff ⊢
      by_cases hi1 : i + 1 = e.bp
      · rw [if_pos hi1]
        rw [if_neg (by omega)] at hff
        have := h.ff (by rw [← hi1]; simpa using hff)
        have := bit_arith e.c 0 bit 128 (by omega) hb (by simpa using hmod) (Or.inr rfl) (fun _ => by omega) this.2
        simp only [Nat.pow_zero, Nat.mul_one] at this
        omega
      · rw [if_neg hi1]
        rw [if_neg (by omega)] at hff
        exact h.marker i (by omega) hff
    · show rd _ (p0 - 1) ≠ 255
      rw [hrd, if_neg (by have := h.hp; have := h.p1; omega)]; exact h.prev
    · intro hh
      have hh' : (if e.c + bit = 255 then (7 : Int) else 8) = bypassCtInit := hh
      split at hh'
      · exact absurd hh' hne7
      · exact absurd hh' hne8
    · rw [hect1]; split <;> omega
    · rw [hect1]; split <;> omega
    · show 0 % _ = 0; exact Nat.zero_mod _
    · intro hff
      have hff' : rd ((if e.bp ≥ e.buf.size then ensureIndex e.buf e.bp else e.buf).setIfInBounds e.bp (e.c + bit)) (e.bp + 1 - 1) = 255 := hff
      rw [hrd, if_pos (by omega)] at hff'
      rw [hect1, if_pos hff']
      exact ⟨by omega, by show (0 : Nat) < 128; omega⟩
    · intro _; show p0 < e.bp + 1; have := h.hp; omega
  · rw [if_neg h0]
    have hnek : ¬((k : Int) = bypassCtInit) := by unfold bypassCtInit; omega
    have hect1 : ect ({ e with c := e.c + bit * 2 ^ k, ct := (k : Int) } : Enc) = (k : Int) := ect_of_ct _ _ hnek rfl
    refine ⟨_, rfl, ?_, rfl, rfl, Or.inl ⟨h0, rfl, rfl, rfl, hect1, rfl⟩⟩
    refine ⟨h.p1, h.hp, h.sz, h.bytes, h.marker, h.prev, fun hh => absurd hh hnek, by rw [hect1]; omega, by rw [hect1]; omega,
      hA.1, by rw [hect1, Int.toNat_natCast]; exact hA.2.1, ?_, ?_⟩
    · intro hff
      have hf := h.ff hff
      rw [hect1]
      have := bit_arith e.c k bit 128 hk7 hb hmod (Or.inr rfl) (fun _ => by omega) hf.2
      exact ⟨by omega, this.1⟩
    · intro hh
      have hh' : (k : Int) = 8 := hh
      omega

/-! ### facts from the future and the lock-step relation -/

/-- bits of an unfinished byte are pending -/
def Pend (e : Enc) : Prop := ect e < 8 ∧ ¬(ect e = 7 ∧ rd e.buf (e.bp - 1) = 255)

/-- agreement of the encoder state with the final buffer `Bt` of the segment (`nt` bytes from `p0`, before the
flush drops anything) -/
structure FR (p0 : Nat) (Bt : Nat → Nat) (nt : Nat) (e : Enc) : Prop where
  agree : ∀ k, p0 ≤ k → k < e.bp → rd e.buf k = Bt k
  le : e.bp ≤ p0 + nt
  pend : Pend e → e.bp < p0 + nt
  cur : e.bp < p0 + nt → Bt e.bp / 2 ^ (ect e).toNat = e.c / 2 ^ (ect e).toNat

theorem div_pow_succ (M p : Nat) : M / 2 ^ (p + 1) = M / 2 ^ p / 2 := by
  rw [Nat.pow_succ, Nat.div_div_eq_div_mul]

theorem raw_back (p0 : Nat) (Bt : Nat → Nat) (nt : Nat) (e e1 : Enc) (bit : Nat) (h : RawOk p0 e) (hb : bit ≤ 1)
    (he : bypassEncode e bit = some e1) (hf : FR p0 Bt nt e1) : FR p0 Bt nt e := by
  obtain ⟨k, hk, hk7⟩ := ect_nat p0 e h
  obtain ⟨e1', he', _, _, _, hcase⟩ := bypassEncode_spec p0 e h bit k hk hb
  have : e1' = e1 := Option.some.inj (he'.symm.trans he)
  subst this
  have hmod : e.c % 2 ^ (k + 1) = 0 := by have := h.cmod; rw [hk] at this; simpa using this
  rcases hcase with ⟨h0, hbuf, hbp, _, hect, hc⟩ | ⟨h0, hbp, _, hrd, _, _⟩
  · have hpend : Pend e1' := by
      refine ⟨by rw [hect]; omega, fun hh => ?_⟩
      rw [hect, hbuf, hbp] at hh
      have := (h.ff hh.2).1
      omega
    have hlt := hf.pend hpend
    rw [hbp] at hlt
    refine ⟨fun j hj1 hj2 => by rw [← hbuf]; exact hf.agree j hj1 (by rw [hbp]; exact hj2), by omega, fun _ => hlt, fun _ => ?_⟩
    have hc1 := hf.cur (by rw [hbp]; exact hlt)
    rw [hect, hbp, hc, Int.toNat_natCast] at hc1
    have hA := bit_arith e.c k bit 256 hk7 hb hmod (Or.inl rfl) (fun hh => absurd hh (by decide)) h.c8
    rw [hk, show ((k : Int) + 1).toNat = k + 1 by omega, div_pow_succ, hc1, ← div_pow_succ, hA.2.2.1]
  · subst h0
    have hle := hf.le
    rw [hbp] at hle
    refine ⟨fun j hj1 hj2 => ?_, by omega, fun _ => by omega, fun _ => ?_⟩
    · have := hf.agree j hj1 (by rw [hbp]; omega)
      rw [hrd, if_neg (by omega)] at this
      exact this
    · have := hf.agree e.bp h.hp (by rw [hbp]; omega)
      rw [hrd, if_pos rfl] at this
      rw [hk, ← this]
      simp only [Nat.zero_add, Nat.pow_one] at hmod
      show (e.c + bit) / 2 ^ 1 = e.c / 2 ^ 1
      omega

/-- the reader's data: the `n` bytes of the segment and the two sentinel bytes -/
structure DataOk (p0 : Nat) (Bt : Nat → Nat) (n : Nat) (d : Dec) : Prop where
  size : d.data.size = n + 2
  body : ∀ k, k < n → rd d.data k = Bt (p0 + k)
  s1 : rd d.data n = 255
  s2 : rd d.data (n + 1) = 255

/-- lock-step relation of writer and reader: at a byte boundary, inside a byte, or in the tail where the reader
feeds on the sentinel instead of a dropped 0xFF 0x7F -/
def RR (p0 : Nat) (Bt : Nat → Nat) (nt drop : Nat) (e : Enc) (d : Dec) : Prop :=
  DataOk p0 Bt (nt - drop) d ∧
  ((¬ Pend e ∧ d.ct = 0 ∧ d.bp = e.bp - p0 ∧ (d.c = 255 ↔ rd e.buf (e.bp - 1) = 255)) ∨
   (Pend e ∧ d.ct = ect e ∧ d.bp = e.bp - p0 + 1 ∧ d.c = Bt e.bp) ∨
   (drop = 2 ∧ d.c = 255 ∧ d.bp = nt - 2 + 1 ∧
     ((e.bp = p0 + nt - 1 ∧ Pend e ∧ d.ct = ect e + 1 ∧ e.c + 2 ^ (ect e).toNat = 128) ∨ (e.bp = p0 + nt ∧ d.ct = 1))))

/-- what the flush does to the final buffer: it drops nothing, a trailing 0xFF, or a trailing 0xFF 0x7F -/
structure RawFin (p0 : Nat) (Bt : Nat → Nat) (nt drop : Nat) : Prop where
  dle : drop ≤ nt
  d2 : drop ≤ 2
  d1 : drop = 1 → Bt (p0 + nt - 1) = 255
  d2a : drop = 2 → Bt (p0 + nt - 2) = 255 ∧ Bt (p0 + nt - 1) = 127
  bytes : ∀ i, Bt i < 256

theorem rawDecode_mid (d : Dec) (m : Nat) (hm : d.ct = (m : Int) + 1) (h32 : m < 32) :
    rawDecode d = some (d.c / 2 ^ m % 2, { d with ct := (m : Int) }) := by
  unfold rawDecode
  rw [if_neg (show ¬(d.ct = 0 ∧ d.bp ≥ d.data.size) from fun hh => by omega)]
  simp only [if_neg (show ¬(d.ct = 0) by omega)]
  simp only [hm, show ((m : Int) + 1 - 1) = (m : Int) by omega, show ¬((m : Int) < 0) by omega, Int.toNat_natCast,
    show ¬(m ≥ 32) by omega, if_false]

theorem rawDecode_load (d : Dec) (h0 : d.ct = 0) (hbp : d.bp < d.data.size) :
    rawDecode d =
      if d.c = 255 then
        if rd d.data d.bp > 143 then some (255 / 2 ^ 7 % 2, { d with c := 255, ct := 7 })
        else some (rd d.data d.bp / 2 ^ 6 % 2, { d with c := rd d.data d.bp, bp := d.bp + 1, ct := 6 })
      else some (rd d.data d.bp / 2 ^ 7 % 2, { d with c := rd d.data d.bp, bp := d.bp + 1, ct := 7 }) := by
  unfold rawDecode
  rw [if_neg (show ¬(d.ct = 0 ∧ d.bp ≥ d.data.size) from fun hh => by omega)]
  simp only [h0, if_true, rd_some _ _ hbp]
  by_cases hc : d.c = 255
  · simp only [hc, if_true]
    by_cases hn : rd d.data d.bp > 143
    · simp only [hn, if_true]; rfl
    · simp only [hn, if_false]; rfl
  · simp only [hc, if_false]; rfl

theorem pend_next (p0 : Nat) (e e1 : Enc) (k : Nat) (h : RawOk p0 e) (hk : ect e = (k : Int) + 1) (h0 : k ≠ 0)
    (hbuf : e1.buf = e.buf) (hbp : e1.bp = e.bp) (hect : ect e1 = (k : Int)) : Pend e1 := by
  refine ⟨by rw [hect]; have := h.cthi; omega, fun hh => ?_⟩
  rw [hect, hbuf, hbp] at hh
  have := (h.ff hh.2).1
  omega

theorem raw_step (p0 : Nat) (Bt : Nat → Nat) (nt drop : Nat) (hfin : RawFin p0 Bt nt drop) (e e1 : Enc) (d : Dec)
    (bit : Nat) (h : RawOk p0 e) (hb : bit ≤ 1) (hr : RR p0 Bt nt drop e d) (he : bypassEncode e bit = some e1)
    (hf : FR p0 Bt nt e1) : ∃ d1, rawDecode d = some (bit, d1) ∧ RR p0 Bt nt drop e1 d1 := by
  have hfe := raw_back p0 Bt nt e e1 bit h hb he hf
  obtain ⟨k, hk, hk7⟩ := ect_nat p0 e h
  obtain ⟨e1', he', h1, _, _, hcase⟩ := bypassEncode_spec p0 e h bit k hk hb
  have : e1' = e1 := Option.some.inj (he'.symm.trans he)
  subst this
  have hmod : e.c % 2 ^ (k + 1) = 0 := by have := h.cmod; rw [hk] at this; simpa using this
  have hA := bit_arith e.c k bit 256 hk7 hb hmod (Or.inl rfl) (fun hh => absurd hh (by decide)) h.c8
  obtain ⟨hD, hrc⟩ := hr
  rcases hrc with ⟨hnp, hct, hdbp, hciff⟩ | ⟨hp, hct, hdbp, hdc⟩ | ⟨hd2, hdc, hdbp, hsub⟩
  · -- at a byte boundary: the reader loads the next byte
    have hk67 : (k = 7 ∧ rd e.buf (e.bp - 1) ≠ 255) ∨ (k = 6 ∧ rd e.buf (e.bp - 1) = 255) := by
      unfold Pend at hnp
      by_cases hff : rd e.buf (e.bp - 1) = 255
      · have := (h.ff hff).1
        by_cases h7 : ect e = 7
        · right; exact ⟨by omega, hff⟩
        · exact absurd ⟨by omega, fun hh => h7 hh.1⟩ hnp
      · left
        refine ⟨?_, hff⟩
        by_cases h8 : ect e < 8
        · exact absurd ⟨h8, fun hh => hff hh.2⟩ hnp
        · omega
    have hc0 : e.c = 0 := by
      rcases hk67 with ⟨rfl, _⟩ | ⟨rfl, hff⟩
      · have := h.c8; simp only [Nat.reduceAdd, Nat.reducePow] at hmod; omega
      · have := (h.ff hff).2; simp only [Nat.reduceAdd, Nat.reducePow] at hmod; omega
    have hk0 : k ≠ 0 := by rcases hk67 with ⟨rfl, _⟩ | ⟨rfl, _⟩ <;> decide
    obtain ⟨h0, hbuf, hbp, _, hect, hc⟩ : k ≠ 0 ∧ e1'.buf = e.buf ∧ e1'.bp = e.bp ∧ e1'.ct = (k : Int) ∧
        ect e1' = (k : Int) ∧ e1'.c = e.c + bit * 2 ^ k := by
      rcases hcase with hh | ⟨h0, _⟩
      · exact hh
      · exact absurd h0 hk0
    have hpend1 := pend_next p0 e e1' k h hk h0 hbuf hbp hect
    have hlt := hf.pend hpend1
    rw [hbp] at hlt
    have hcur := hf.cur (by rw [hbp]; exact hlt)
    rw [hect, hbp, hc, hc0, Int.toNat_natCast, Nat.zero_add] at hcur
    have hbitv : Bt e.bp / 2 ^ k = bit := by
      rw [hcur]
      exact Nat.mul_div_cancel bit (Nat.pow_pos (by omega))
    have hD1 : ∀ (d1 : Dec), d1.data = d.data → DataOk p0 Bt (nt - drop) d1 := fun d1 hd => by
      exact ⟨by rw [hd]; exact hD.size, by rw [hd]; exact hD.body, by rw [hd]; exact hD.s1, by rw [hd]; exact hD.s2⟩
    have hdrop := hfin.d2
    have hdle := hfin.dle
    have hq : e.bp - p0 < nt - drop ∨ (e.bp - p0 = nt - drop ∧ 1 ≤ drop) ∨ (e.bp - p0 = nt - drop + 1 ∧ drop = 2) := by
      have := h.hp; omega
    have hload := rawDecode_load d hct (by rw [hdbp, hD.size]; omega)
    rcases hq with hqA | ⟨hqB, hdr⟩ | ⟨hqC, hdr⟩
    · -- inside the segment
      have hnext : rd d.data d.bp = Bt e.bp := by
        rw [hdbp, hD.body _ hqA]; congr 1; have := h.hp; omega
      rw [hload, hnext]
      rcases hk67 with ⟨rfl, hnff⟩ | ⟨rfl, hff⟩
      · rw [if_neg (fun hh => hnff (hciff.mp hh))]
        have hb256 := hfin.bytes e.bp
        refine ⟨_, by rw [show Bt e.bp / 2 ^ 7 % 2 = bit by omega], hD1 _ (by rfl), Or.inr (Or.inl ⟨hpend1, ?_, ?_, ?_⟩)⟩
        · show (7 : Int) = ect e1'; rw [hect]; rfl
        · show d.bp + 1 = e1'.bp - p0 + 1; rw [hbp, hdbp]
        · show Bt e.bp = Bt e1'.bp; rw [hbp]
      · rw [if_pos (hciff.mpr hff), if_neg (by omega)]
        refine ⟨_, by rw [show Bt e.bp / 2 ^ 6 % 2 = bit by omega], hD1 _ (by rfl), Or.inr (Or.inl ⟨hpend1, ?_, ?_, ?_⟩)⟩
        · show (6 : Int) = ect e1'; rw [hect]; rfl
        · show d.bp + 1 = e1'.bp - p0 + 1; rw [hbp, hdbp]
        · show Bt e.bp = Bt e1'.bp; rw [hbp]
    · -- the first dropped byte: a 0xFF, which the sentinel supplies
      have hB255 : Bt e.bp = 255 := by
        rcases (show drop = 1 ∨ drop = 2 by omega) with h1d | h2d
        · have := hfin.d1 h1d
          rw [show e.bp = p0 + nt - 1 by have := h.hp; omega]; exact this
        · have := (hfin.d2a h2d).1
          rw [show e.bp = p0 + nt - 2 by have := h.hp; omega]; exact this
      have hnext : rd d.data d.bp = Bt e.bp := by
        rw [hdbp, hqB, hD.s1, hB255]
      rw [hload, hnext]
      rcases hk67 with ⟨rfl, hnff⟩ | ⟨rfl, hff⟩
      · rw [if_neg (fun hh => hnff (hciff.mp hh))]
        refine ⟨_, by rw [show Bt e.bp / 2 ^ 7 % 2 = bit by omega], hD1 _ (by rfl), Or.inr (Or.inl ⟨hpend1, ?_, ?_, ?_⟩)⟩
        · show (7 : Int) = ect e1'; rw [hect]; rfl
        · show d.bp + 1 = e1'.bp - p0 + 1; rw [hbp, hdbp]
        · show Bt e.bp = Bt e1'.bp; rw [hbp]
      · exfalso; rw [hB255] at hbitv; simp only [Nat.reducePow, Nat.reduceDiv] at hbitv; omega
    · -- behind a dropped 0xFF: the 0x7F that is dropped with it
      have hprev : rd e.buf (e.bp - 1) = 255 := by
        rw [hfe.agree (e.bp - 1) (by have := h.hp; omega) (by have := h.hp; omega)]
        have := (hfin.d2a hdr).1
        rw [show e.bp - 1 = p0 + nt - 2 by have := h.hp; omega]; exact this
      have hB127 : Bt e.bp = 127 := by
        have := (hfin.d2a hdr).2
        rw [show e.bp = p0 + nt - 1 by have := h.hp; omega]; exact this
      rcases hk67 with ⟨_, hnff⟩ | ⟨rfl, _⟩
      · exact absurd hprev hnff
      have hnext : rd d.data d.bp = 255 := by rw [hdbp, hqC, hD.s2]
      rw [hload, hnext, if_pos (hciff.mpr hprev), if_pos (by omega)]
      rw [hB127] at hbitv
      simp only [Nat.reducePow, Nat.reduceDiv] at hbitv
      refine ⟨_, by rw [← hbitv], hD1 _ (by rfl), Or.inr (Or.inr ⟨hdr, (by rfl), ?_, Or.inl ⟨?_, hpend1, ?_, ?_⟩⟩)⟩
      · show d.bp = nt - 2 + 1; rw [hdbp, hqC, hdr]
      · rw [hbp]; have := h.hp; omega
      · show (7 : Int) = ect e1' + 1; rw [hect]; rfl
      · rw [hect, hc, hc0, ← hbitv]; rfl
  · -- inside a byte
    have hlt := hfe.pend hp
    have hcur := hfe.cur hlt
    rw [hk, show ((k : Int) + 1).toNat = k + 1 by omega] at hcur
    rw [rawDecode_mid d k (by rw [hct, hk]) (by omega), hdc]
    have hD1 : ∀ (d1 : Dec), d1.data = d.data → DataOk p0 Bt (nt - drop) d1 := fun d1 hd => by
      exact ⟨by rw [hd]; exact hD.size, by rw [hd]; exact hD.body, by rw [hd]; exact hD.s1, by rw [hd]; exact hD.s2⟩
    rcases hcase with ⟨h0, hbuf, hbp, _, hect, hc⟩ | ⟨h0, hbp, hc, hrd, _, hect⟩
    · have hpend1 := pend_next p0 e e1' k h hk h0 hbuf hbp hect
      have hcur1 := hf.cur (by rw [hbp]; exact hlt)
      rw [hect, hbp, hc, Int.toNat_natCast] at hcur1
      refine ⟨_, by rw [hcur1, hA.2.2.2], hD1 _ (by rfl), Or.inr (Or.inl ⟨hpend1, ?_, ?_, ?_⟩)⟩
      · show (k : Int) = ect e1'; rw [hect]
      · show d.bp = e1'.bp - p0 + 1; rw [hbp, hdbp]
      · show Bt e.bp = Bt e1'.bp; rw [hbp]
    · subst h0
      have hag := hf.agree e.bp h.hp (by rw [hbp]; omega)
      rw [hrd, if_pos rfl] at hag
      simp only [Nat.zero_add, Nat.pow_one] at hmod
      have hb2 : Bt e.bp / 2 ^ 0 % 2 = bit := by
        rw [← hag]; simp only [Nat.pow_zero, Nat.div_one]; omega
      refine ⟨_, by rw [hb2], hD1 _ (by rfl), Or.inl ⟨?_, (by rfl), ?_, ?_⟩⟩
      · intro hpe
        unfold Pend at hpe
        rw [hect] at hpe
        by_cases hff : e.c + bit = 255
        · rw [if_pos hff] at hpe
          exact hpe.2 ⟨rfl, by rw [hbp, hrd, if_pos (by omega)]; exact hff⟩
        · rw [if_neg hff] at hpe
          exact absurd hpe.1 (by omega)
      · show d.bp = e1'.bp - p0; rw [hbp, hdbp]; have := h.hp; omega
      · show Bt e.bp = 255 ↔ _
        rw [← hag, hbp, hrd, if_pos (by omega)]
  · -- the tail: the reader feeds on the 0xFF sentinel
    have hD1 : ∀ (d1 : Dec), d1.data = d.data → DataOk p0 Bt (nt - drop) d1 := fun d1 hd => by
      exact ⟨by rw [hd]; exact hD.size, by rw [hd]; exact hD.body, by rw [hd]; exact hD.s1, by rw [hd]; exact hD.s2⟩
    have hnt : 2 ≤ nt := by have := hfin.dle; omega
    rcases hsub with ⟨hebp, hp, hct, hcsum⟩ | ⟨hebp, _⟩
    · rw [rawDecode_mid d (k + 1) (by rw [hct, hk]; omega) (by omega), hdc]
      have hB127 : Bt e.bp = 127 := by rw [hebp]; exact (hfin.d2a hd2).2
      have hk6 : k ≤ 6 := by have := hp.1; omega
      rw [hk, show ((k : Int) + 1).toNat = k + 1 by omega] at hcsum
      have hone : 255 / 2 ^ (k + 1) % 2 = 1 := by
        have hk' : k = 0 ∨ k = 1 ∨ k = 2 ∨ k = 3 ∨ k = 4 ∨ k = 5 ∨ k = 6 := by omega
        rcases hk' with rfl | rfl | rfl | rfl | rfl | rfl | rfl <;> rfl
      rcases hcase with ⟨h0, hbuf, hbp, _, hect, hc⟩ | ⟨h0, hbp, hc, hrd, _, hect⟩
      · have hpend1 := pend_next p0 e e1' k h hk h0 hbuf hbp hect
        have hcur1 := hf.cur (by rw [hbp, hebp]; omega)
        rw [hect, hbp, hc, Int.toNat_natCast, hB127] at hcur1
        have hbit1 : bit = 1 := by
          have hk' : k = 1 ∨ k = 2 ∨ k = 3 ∨ k = 4 ∨ k = 5 ∨ k = 6 := by omega
          rcases (show bit = 0 ∨ bit = 1 by omega) with rfl | rfl
          · exfalso
            rcases hk' with rfl | rfl | rfl | rfl | rfl | rfl <;> simp only [Nat.reducePow, Nat.reduceAdd] at hcsum hcur1 <;> omega
          · rfl
        refine ⟨_, by rw [hone, hbit1], hD1 _ (by rfl), Or.inr (Or.inr ⟨hd2, (by rfl), (by exact hdbp), Or.inl ⟨by rw [hbp]; exact hebp, hpend1, ?_, ?_⟩⟩)⟩
        · show ((k + 1 : Nat) : Int) = ect e1' + 1; rw [hect]; omega
        · rw [hect, hc, hbit1, Int.toNat_natCast, Nat.one_mul]
          rw [Nat.pow_succ] at hcsum; omega
      · subst h0
        have hag := hf.agree e.bp h.hp (by rw [hbp]; omega)
        rw [hrd, if_pos rfl, hB127] at hag
        simp only [Nat.zero_add, Nat.pow_one] at hcsum
        have hbit1 : bit = 1 := by omega
        refine ⟨_, by rw [hone, hbit1], hD1 _ (by rfl), Or.inr (Or.inr ⟨hd2, (by rfl), (by exact hdbp), Or.inr ⟨by rw [hbp, hebp]; omega, (by rfl)⟩⟩)⟩
    · exfalso
      rcases hcase with ⟨h0, hbuf, hbp, _, hect, hc⟩ | ⟨h0, hbp, _⟩
      · have := hf.pend (pend_next p0 e e1' k h hk h0 hbuf hbp hect)
        omega
      · have := hf.le; omega

/-! ### start and end of a raw segment -/

theorem raw_init (p0 : Nat) (Bt : Nat → Nat) (nt drop : Nat) (e : Enc) (h : RawOk p0 e) (hi : e.ct = bypassCtInit)
    (seg : List Nat) (hlen : seg.length = nt - drop) (hseg : ∀ k, k < nt - drop → seg[k]? = some (Bt (p0 + k))) :
    RR p0 Bt nt drop e (Dec.newRaw seg) := by
  have hbp := (h.init hi).2
  have hect : ect e = 8 := by unfold ect; rw [if_pos hi]
  have hrdd : ∀ k, rd (seg ++ [0xFF, 0xFF]).toArray k = ((seg ++ [0xFF, 0xFF])[k]?).getD 0 := by
    intro k; unfold rd; rw [List.getElem?_toArray]
  refine ⟨⟨?_, ?_, ?_, ?_⟩, Or.inl ⟨fun hp => ?_, rfl, ?_, ?_⟩⟩
  · show (seg ++ [0xFF, 0xFF]).toArray.size = _
    simp only [List.size_toArray, List.length_append, List.length_cons, List.length_nil]; omega
  · intro k hk
    show rd (seg ++ [0xFF, 0xFF]).toArray k = _
    rw [hrdd, List.getElem?_append_left (by omega), hseg k hk]; rfl
  · show rd (seg ++ [0xFF, 0xFF]).toArray (nt - drop) = _
    rw [hrdd, List.getElem?_append_right (by omega), hlen, Nat.sub_self]; rfl
  · show rd (seg ++ [0xFF, 0xFF]).toArray (nt - drop + 1) = _
    rw [hrdd, List.getElem?_append_right (by omega), hlen, show nt - drop + 1 - (nt - drop) = 1 by omega]; rfl
  · unfold Pend at hp; rw [hect] at hp; exact absurd hp.1 (by omega)
  · show 0 = e.bp - p0; omega
  · show (0 : Nat) = 255 ↔ _
    rw [hbp]
    constructor
    · intro hh; exact absurd hh (by decide)
    · intro hh; exact absurd hh h.prev

theorem pad_spec : ∀ (k c bv : Nat), k ≤ 8 → bv ≤ 1 → c + 2 ^ k ≤ 1024 →
    ∃ r, bypassFlushEnc.pad k c bv = c + r ∧ r < 2 ^ k ∧ (bv = 0 → 1 ≤ k → r < 2 ^ (k - 1)) := by
  intro k
  induction k with
  | zero => intro c bv _ _ _; exact ⟨0, rfl, by decide, fun _ hh => absurd hh (by decide)⟩
  | succ k ih =>
    intro c bv hk hbv hc
    have hp := pow_le_128 k (by omega)
    rw [Nat.pow_succ] at hc
    have hsh : shl32 bv k = bv * 2 ^ k := by
      unfold shl32 u32
      rw [if_neg (by omega)]
      rcases (show bv = 0 ∨ bv = 1 by omega) with rfl | rfl
      · simp
      · rw [Nat.one_mul, Nat.mod_eq_of_lt (by omega)]
    have hbvp : bv * 2 ^ k ≤ 2 ^ k := by
      rcases (show bv = 0 ∨ bv = 1 by omega) with rfl | rfl <;> omega
    rw [bypassFlushEnc.pad, hsh, show u32 (c + bv * 2 ^ k) = c + bv * 2 ^ k from Nat.mod_eq_of_lt (by omega)]
    obtain ⟨r, hr, hr1, _⟩ := ih (c + bv * 2 ^ k) (if bv = 0 then 1 else 0) (by omega) (by split <;> omega) (by omega)
    refine ⟨bv * 2 ^ k + r, by rw [hr]; omega, by rw [Nat.pow_succ]; omega, fun h0 _ => ?_⟩
    subst h0
    simpa using hr1

/-- state after `BypassFlushEnc`: a finished stream whose last byte is not 0xFF -/
structure RawEnd (p0 : Nat) (e ef : Enc) : Prop where
  bp1 : p0 ≤ ef.bp
  sz : ef.bp ≤ ef.buf.size
  bytes : ∀ i, rd ef.buf i < 256
  marker : ∀ i, i + 1 < ef.bp → rd ef.buf i = 255 → rd ef.buf (i + 1) ≤ 143
  last : rd ef.buf (ef.bp - 1) ≠ 255
  frozen : ∀ j, j < p0 → rd ef.buf j = rd e.buf j
  ctx : ef.ctx = e.ctx

theorem pad_byte (c k r : Nat) (hk1 : 1 ≤ k) (hk : k ≤ 7) (hc : c < 256) (hmod : c % 2 ^ k = 0) (hr : r < 2 ^ (k - 1)) :
    c + r < 256 ∧ (c + r) / 2 ^ k = c / 2 ^ k ∧ c + r ≠ 255 ∧ (c < 128 → c + r < 128) := by
  have hk' : k = 1 ∨ k = 2 ∨ k = 3 ∨ k = 4 ∨ k = 5 ∨ k = 6 ∨ k = 7 := by omega
  rcases hk' with rfl | rfl | rfl | rfl | rfl | rfl | rfl <;> simp only [Nat.reducePow, Nat.reduceSub] at hmod hr ⊢ <;> omega


theorem flush_form (e : Enc) (erterm : Bool) (hbp : 0 < e.bp) (hsz : e.bp ≤ e.buf.size) :
    bypassFlushEnc e erterm =
      if e.ct < 7 ∨ (e.ct = 7 ∧ (erterm = true ∨ rd e.buf (e.bp - 1) ≠ 255)) then
        some { e with buf := (if e.bp ≥ e.buf.size then ensureIndex e.buf e.bp else e.buf).setIfInBounds e.bp (u8 (bypassFlushEnc.pad e.ct.toNat e.c 0)),
                      bp := e.bp + 1, c := bypassFlushEnc.pad e.ct.toNat e.c 0, ct := if e.ct > 0 then 0 else e.ct }
      else if e.ct = 7 then
        (if rd e.buf (e.bp - 1) = 255 then some (if erterm = false then { e with bp := e.bp - 1 } else e) else some e)
      else if e.ct = 8 ∧ erterm = false ∧ e.bp > 1 then
        some (if rd e.buf (e.bp - 1) = 0x7F ∧ rd e.buf (e.bp - 2) = 0xFF then { e with bp := e.bp - 2 } else e)
      else some e := by
  unfold bypassFlushEnc
  have h1 : e.buf[e.bp - 1]? = some (rd e.buf (e.bp - 1)) := rd_some _ _ (by omega)
  simp only [h1, if_pos hbp, Option.map_some, Option.isNone_some, Bool.false_eq_true, and_false, if_false, Option.getD_some]
  simp only [gt_iff_lt, hbp, true_and, and_true, decide_eq_true_eq, Bool.not_eq_true]
  by_cases hc : e.ct = 8 ∧ erterm = false ∧ 1 < e.bp
  · have h2 : e.buf[e.bp - 2]? = some (rd e.buf (e.bp - 2)) := rd_some _ _ (by omega)
    simp only [hc, and_self, if_true, h2]
  · simp only [hc, if_false]
theorem raw_flush_facts (p0 : Nat) (e : Enc) (h : RawOk p0 e) (erterm : Bool) :
    ∃ ef Bt nt drop, bypassFlushEnc e erterm = some ef ∧ RawFin p0 Bt nt drop ∧ FR p0 Bt nt e ∧ RawEnd p0 e ef ∧
      ef.bp = p0 + nt - drop ∧ (∀ k, p0 ≤ k → k < ef.bp → rd ef.buf k = Bt k) := by
  have hbp : 0 < e.bp := by have := h.p1; have := h.hp; omega
  have hp0 := h.hp
  have hp1 := h.p1
  rw [flush_form e erterm hbp h.sz]
  by_cases hi : e.ct = bypassCtInit
  · have hbp0 := (h.init hi).2
    have hect : ect e = 8 := by unfold ect; rw [if_pos hi]
    have hn1 : ¬(e.ct < 7 ∨ (e.ct = 7 ∧ (erterm = true ∨ rd e.buf (e.bp - 1) ≠ 255))) := by
      rw [hi]; unfold bypassCtInit; omega
    have hn2 : ¬(e.ct = 7) := by rw [hi]; unfold bypassCtInit; omega
    have hn3 : ¬(e.ct = 8 ∧ erterm = false ∧ e.bp > 1) := by rw [hi]; unfold bypassCtInit; omega
    rw [if_neg hn1, if_neg hn2, if_neg hn3]
    refine ⟨e, rd e.buf, 0, 0, rfl, ⟨by omega, by omega, fun hh => absurd hh (by decide), fun hh => absurd hh (by decide), h.bytes⟩,
      ⟨fun _ _ _ => rfl, by omega, fun hp => ?_, fun hh => by omega⟩,
      ⟨hp0, h.sz, h.bytes, h.marker, by rw [hbp0]; exact h.prev, fun _ _ => rfl, rfl⟩, by omega, fun _ _ _ => rfl⟩
    unfold Pend at hp; rw [hect] at hp; exact absurd hp.1 (by omega)
  · have hect : ect e = e.ct := by unfold ect; rw [if_neg hi]
    obtain ⟨k, hk, hk7⟩ := ect_nat p0 e h
    have hmod : e.c % 2 ^ (k + 1) = 0 := by have := h.cmod; rw [hk] at this; simpa using this
    rw [hect] at hk
    by_cases hpad : e.ct < 7 ∨ (e.ct = 7 ∧ (erterm = true ∨ rd e.buf (e.bp - 1) ≠ 255))
    · rw [if_pos hpad]
      have hk6 : k ≤ 6 := by rcases hpad with h1 | ⟨h1, _⟩ <;> omega
      have hp256 : 2 ^ (k + 1) ≤ 256 := by
        have := pow_le_128 k (by omega); rw [Nat.pow_succ]; omega
      have hc8 := h.c8
      obtain ⟨r, hr, _, hr2⟩ := pad_spec (k + 1) e.c 0 (by omega) (by omega) (by omega)
      have hpb := pad_byte e.c (k + 1) r (by omega) (by omega) h.c8 hmod (hr2 rfl (by omega))
      rw [show e.ct.toNat = k + 1 by omega, hr, show u8 (e.c + r) = e.c + r from Nat.mod_eq_of_lt hpb.1,
        if_pos (show e.ct > 0 by omega)]
      have hrd : ∀ i, rd ((if e.bp ≥ e.buf.size then ensureIndex e.buf e.bp else e.buf).setIfInBounds e.bp (e.c + r)) i =
          if i = e.bp then e.c + r else rd e.buf i := by
        intro i
        by_cases hge : e.bp ≥ e.buf.size
        · rw [if_pos hge, rd_set _ _ _ _ (size_ensure e.buf e.bp).1, rd_ensure]
          by_cases hi' : e.bp = i
          · rw [if_pos hi', if_pos hi'.symm]
          · rw [if_neg hi', if_neg (fun hh => hi' hh.symm)]
        · rw [if_neg hge, rd_set _ _ _ _ (by omega)]
          by_cases hi' : e.bp = i
          · rw [if_pos hi', if_pos hi'.symm]
          · rw [if_neg hi', if_neg (fun hh => hi' hh.symm)]
      have hsz : e.bp + 1 ≤ ((if e.bp ≥ e.buf.size then ensureIndex e.buf e.bp else e.buf).setIfInBounds e.bp (e.c + r)).size := by
        rw [Array.size_setIfInBounds]
        by_cases hge : e.bp ≥ e.buf.size
        · rw [if_pos hge]; have := (size_ensure e.buf e.bp).1; omega
        · rw [if_neg hge]; omega
      refine ⟨_, rd ((if e.bp ≥ e.buf.size then ensureIndex e.buf e.bp else e.buf).setIfInBounds e.bp (e.c + r)),
        e.bp + 1 - p0, 0, rfl, ⟨by omega, by omega, fun hh => absurd hh (by decide), fun hh => absurd hh (by decide), ?_⟩,
        ⟨?_, by omega, fun _ => by omega, fun _ => ?_⟩, ⟨?_, hsz, ?_, ?_, ?_, ?_, rfl⟩, ?_, fun _ _ _ => rfl⟩
      · intro i; rw [hrd]; split
        · exact hpb.1
        · exact h.bytes i
      · intro j _ hj; rw [hrd, if_neg (by omega)]
      · rw [hrd, if_pos rfl, hect, hk, show ((k : Int) + 1).toNat = k + 1 by omega]; exact hpb.2.1
      · show p0 ≤ e.bp + 1; omega
      · intro i; rw [hrd]; split
        · exact hpb.1
        · exact h.bytes i
      · intro i hi' hff
        have hi'' : i + 1 < e.bp + 1 := hi'
        rw [hrd] at hff ⊢
        rw [if_neg (by omega)] at hff
        by_cases hi1 : i + 1 = e.bp
        · rw [if_pos hi1]
          have := (h.ff (by rw [← hi1]; simpa using hff)).2
          have := hpb.2.2.2 this
          omega
        · rw [if_neg hi1]; exact h.marker i (by omega) hff
      · show rd _ (e.bp + 1 - 1) ≠ 255
        rw [hrd, if_pos (by omega)]; exact hpb.2.2.1
      · intro j hj; rw [hrd, if_neg (by omega)]
      · show e.bp + 1 = p0 + (e.bp + 1 - p0) - 0; omega
    · rw [if_neg hpad]
      by_cases h7 : e.ct = 7
      · rw [if_pos h7]
        have hff : rd e.buf (e.bp - 1) = 255 := by
          rcases Classical.em (rd e.buf (e.bp - 1) = 255) with h' | h'
          · exact h'
          · exact absurd (Or.inr ⟨h7, Or.inr h'⟩) hpad
        have het : erterm = false := by
          cases erterm with
          | false => rfl
          | true => exact absurd (Or.inr ⟨h7, Or.inl rfl⟩) hpad
        rw [if_pos hff, if_pos het]
        have hgt : p0 < e.bp := by
          rcases Nat.lt_or_ge p0 e.bp with h' | h'
          · exact h'
          · exfalso; apply h.prev; rw [show p0 = e.bp by omega]; exact hff
        refine ⟨_, rd e.buf, e.bp - p0, 1, rfl,
          ⟨by omega, by omega, fun _ => by rw [show p0 + (e.bp - p0) - 1 = e.bp - 1 by omega]; exact hff,
            fun hh => absurd hh (by decide), h.bytes⟩,
          ⟨fun _ _ _ => rfl, by omega, fun hp => ?_, fun hh => by omega⟩,
          ⟨by show p0 ≤ e.bp - 1; omega, by show e.bp - 1 ≤ e.buf.size; have := h.sz; omega, h.bytes,
            fun i hi' => h.marker i (by have : i + 1 < e.bp - 1 := hi'; omega), ?_, fun _ _ => rfl, rfl⟩,
          by show e.bp - 1 = _; omega, fun _ _ _ => rfl⟩
        · unfold Pend at hp; rw [hect] at hp; exact absurd ⟨h7, hff⟩ hp.2
        · show rd e.buf (e.bp - 1 - 1) ≠ 255
          intro hh
          have := h.marker (e.bp - 1 - 1) (by omega) hh
          rw [show e.bp - 1 - 1 + 1 = e.bp - 1 by omega, hff] at this
          omega
      · rw [if_neg h7]
        have h8 : e.ct = 8 := by
          have : ¬ e.ct < 7 := fun hh => hpad (Or.inl hh)
          omega
        have hgt : p0 < e.bp := h.first h8
        have hnp : ¬ Pend e := by
          intro hp; unfold Pend at hp; rw [hect, h8] at hp; exact absurd hp.1 (by omega)
        by_cases hd : erterm = false ∧ e.bp > 1 ∧ rd e.buf (e.bp - 1) = 0x7F ∧ rd e.buf (e.bp - 2) = 0xFF
        · rw [if_pos ⟨h8, hd.1, hd.2.1⟩, if_pos ⟨hd.2.2.1, hd.2.2.2⟩]
          have hge : p0 + 2 ≤ e.bp := by
            rcases Nat.lt_or_ge e.bp (p0 + 2) with h' | h'
            · exfalso; apply h.prev; rw [show p0 - 1 = e.bp - 2 by omega]; exact hd.2.2.2
            · exact h'
          refine ⟨_, rd e.buf, e.bp - p0, 2, rfl,
            ⟨by omega, by omega, fun hh => absurd hh (by decide),
              fun _ => ⟨by rw [show p0 + (e.bp - p0) - 2 = e.bp - 2 by omega]; exact hd.2.2.2,
                by rw [show p0 + (e.bp - p0) - 1 = e.bp - 1 by omega]; exact hd.2.2.1⟩, h.bytes⟩,
            ⟨fun _ _ _ => rfl, by omega, fun hp => absurd hp hnp, fun hh => by omega⟩,
            ⟨by show p0 ≤ e.bp - 2; omega, by show e.bp - 2 ≤ e.buf.size; have := h.sz; omega, h.bytes,
              fun i hi' => h.marker i (by have : i + 1 < e.bp - 2 := hi'; omega), ?_, fun _ _ => rfl, rfl⟩,
            by show e.bp - 2 = _; omega, fun _ _ _ => rfl⟩
          show rd e.buf (e.bp - 2 - 1) ≠ 255
          intro hh
          have := h.marker (e.bp - 2 - 1) (by omega) hh
          rw [show e.bp - 2 - 1 + 1 = e.bp - 2 by omega, hd.2.2.2] at this
          omega
        · have hres : (if e.ct = 8 ∧ erterm = false ∧ e.bp > 1 then
              some (if rd e.buf (e.bp - 1) = 0x7F ∧ rd e.buf (e.bp - 2) = 0xFF then { e with bp := e.bp - 2 } else e)
              else some e) = some e := by
            by_cases hc : e.ct = 8 ∧ erterm = false ∧ e.bp > 1
            · rw [if_pos hc, if_neg (fun hh => hd ⟨hc.2.1, hc.2.2, hh.1, hh.2⟩)]
            · rw [if_neg hc]
          rw [hres]
          refine ⟨e, rd e.buf, e.bp - p0, 0, rfl,
            ⟨by omega, by omega, fun hh => absurd hh (by decide), fun hh => absurd hh (by decide), h.bytes⟩,
            ⟨fun _ _ _ => rfl, by omega, fun hp => absurd hp hnp, fun hh => by omega⟩,
            ⟨hp0, h.sz, h.bytes, h.marker, ?_, fun _ _ => rfl, rfl⟩, by omega, fun _ _ _ => rfl⟩
          intro hh
          have := (h.ff hh).1
          rw [hect, h8] at this
          omega

end Mqc
