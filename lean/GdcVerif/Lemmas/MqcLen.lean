import GdcVerif.Lemmas.Mqc
/-!
  C20 — a crude length bound for MQ output: every `Encode` shifts the code register by at most 15 bits
  (`Qe ≥ 1`), a byte leaves the register every 7 or 8 shifts, and `Flush` adds at most three bytes.
-/
namespace Mqc

/-- `S` shifts so far: 12 went into the start-up budget, then 7 or 8 per byte -/
def LenInv (e : Enc) (S : Nat) : Prop := 1 ≤ e.ct ∧ 7 * e.bp + 5 ≤ S + e.ct.toNat

theorem LenInv.mono {e : Enc} {S : Nat} (h : LenInv e S) (k : Nat) : LenInv e (S + k) := ⟨h.1, by have := h.2; omega⟩

theorem byteout_len (e e' : Enc) (h : byteout e = some e') : e'.bp = e.bp + 1 ∧ (e'.ct = 7 ∨ e'.ct = 8) ∧ e'.a = e.a := by
  unfold byteout at h
  simp only [] at h
  split at h
  · exact absurd h (by simp)
  · split at h
    · injection h with h; subst h; exact ⟨rfl, Or.inl rfl, rfl⟩
    · split at h
      · injection h with h; subst h; exact ⟨rfl, Or.inr rfl, rfl⟩
      · split at h
        · injection h with h; subst h; exact ⟨rfl, Or.inl rfl, rfl⟩
        · injection h with h; subst h; exact ⟨rfl, Or.inr rfl, rfl⟩

theorem renormeLoop_len : ∀ (fuel : Nat) (e e' : Enc) (S : Nat), renormeLoop fuel e = some e' → e.a < 65536 →
    LenInv e S → ∃ s, LenInv e' (S + s) ∧ (s = 0 ∨ e.a * 2 ^ (s - 1) < 0x8000) := by
  intro fuel
  induction fuel with
  | zero =>
    intro e e' S h _ hL
    unfold renormeLoop at h
    split at h
    · exact absurd h (by simp)
    · injection h with h; subst h; exact ⟨0, hL, Or.inl rfl⟩
  | succ f ih =>
    intro e e' S h ha hL
    unfold renormeLoop at h
    by_cases hlt : e.a < 0x8000
    · rw [if_pos hlt] at h
      simp only [] at h
      have hu : u32 (e.a * 2) = e.a * 2 := by unfold u32; omega
      by_cases hc0 : e.ct - 1 = 0
      · rw [if_pos hc0] at h
        cases hb : byteout { e with a := u32 (e.a * 2), c := u32 (e.c * 2), ct := e.ct - 1 } with
        | none => rw [hb] at h; exact absurd h (by simp)
        | some e2 =>
          rw [hb] at h
          simp only [] at h
          obtain ⟨hbp2, hct2, ha2⟩ := byteout_len _ _ hb
          have ha2' : e2.a = e.a * 2 := by rw [ha2]; exact hu
          have hbp2' : e2.bp = e.bp + 1 := hbp2
          obtain ⟨s, hs1, hs2⟩ := ih e2 e' (S + 1) h (by omega) ⟨by omega, by
            have := hL.2
            rcases hct2 with h7 | h8
            · rw [hbp2', h7]; simp only [show (7 : Int).toNat = 7 from rfl]; omega
            · rw [hbp2', h8]; simp only [show (8 : Int).toNat = 8 from rfl]; omega⟩
          refine ⟨s + 1, by rw [show S + (s + 1) = S + 1 + s by omega]; exact hs1, Or.inr ?_⟩
          rcases hs2 with rfl | hs2
          · simpa using hlt
          · rw [ha2'] at hs2
            rcases Nat.eq_zero_or_pos s with rfl | hsp
            · simpa using hlt
            · rw [show s + 1 - 1 = (s - 1) + 1 by omega, Nat.pow_succ]
              have : e.a * 2 * 2 ^ (s - 1) = e.a * (2 ^ (s - 1) * 2) := by rw [Nat.mul_assoc, Nat.mul_comm 2]
              rw [← this]; exact hs2
      · rw [if_neg hc0] at h
        obtain ⟨s, hs1, hs2⟩ := ih _ e' (S + 1) h (by show u32 (e.a * 2) < 65536; rw [hu]; omega)
          ⟨by show 1 ≤ e.ct - 1; have := hL.1; omega, by show 7 * e.bp + 5 ≤ S + 1 + (e.ct - 1).toNat; have := hL.1; have := hL.2; omega⟩
        refine ⟨s + 1, by rw [show S + (s + 1) = S + 1 + s by omega]; exact hs1, Or.inr ?_⟩
        rcases hs2 with rfl | hs2
        · simpa using hlt
        · have hs2' : e.a * 2 * 2 ^ (s - 1) < 0x8000 := by
            have : ({ e with a := u32 (e.a * 2), c := u32 (e.c * 2), ct := e.ct - 1 } : Enc).a = e.a * 2 := hu
            rw [this] at hs2; exact hs2
          rcases Nat.eq_zero_or_pos s with rfl | hsp
          · simpa using hlt
          · rw [show s + 1 - 1 = (s - 1) + 1 by omega, Nat.pow_succ]
            have : e.a * 2 * 2 ^ (s - 1) = e.a * (2 ^ (s - 1) * 2) := by rw [Nat.mul_assoc, Nat.mul_comm 2]
            rw [← this]; exact hs2'
    · rw [if_neg hlt] at h
      injection h with h; subst h; exact ⟨0, hL, Or.inl rfl⟩

theorem shifts_le (a s : Nat) (ha : 0 < a) (h : s = 0 ∨ a * 2 ^ (s - 1) < 0x8000) : s ≤ 15 := by
  rcases h with rfl | h
  · omega
  · rcases Nat.lt_or_ge (s - 1) 15 with h' | h'
    · omega
    · have h2 : 2 ^ 15 ≤ 2 ^ (s - 1) := Nat.pow_le_pow_right (by omega) h'
      have h3 : 2 ^ (s - 1) ≤ a * 2 ^ (s - 1) := Nat.le_mul_of_pos_left _ ha
      simp only [Nat.reducePow] at h2
      omega

theorem renorme_len (e e' : Enc) (S : Nat) (h : renorme e = some e') (ha0 : 0 < e.a) (ha : e.a < 65536) (hL : LenInv e S) :
    LenInv e' (S + 15) := by
  obtain ⟨s, hs1, hs2⟩ := renormeLoop_len 16 e e' S h ha hL
  have := shifts_le e.a s ha0 hs2
  have := hs1.mono (15 - s)
  rw [show S + s + (15 - s) = S + 15 by omega] at this
  exact this

theorem encodeCore_len (e e1 : Enc) (bit cx cxv qe nmps nlps sw S : Nat) (h : RegOk e) (hn : 0x8000 ≤ e.a)
    (hq1 : 1 ≤ qe) (hq2 : qe ≤ 0x5601) (he : encodeCore e bit cx cxv qe nmps nlps sw = some e1) (hL : LenInv e S) :
    LenInv e1 (S + 15) := by
  have hahi := h.ahi
  have hsub : sub32 e.a qe = e.a - qe := sub32_eq _ _ (by omega) (by omega)
  unfold encodeCore at he
  rw [hsub] at he
  split at he
  · split at he
    · split at he
      · exact renorme_len _ _ S he (by show 0 < qe; omega) (by show qe < 65536; omega) hL
      · exact renorme_len _ _ S he (by show 0 < e.a - qe; omega) (by show e.a - qe < 65536; omega) hL
    · injection he with he; subst he; exact hL.mono 15
  · split at he
    · exact renorme_len _ _ S he (by show 0 < e.a - qe; omega) (by show e.a - qe < 65536; omega) hL
    · exact renorme_len _ _ S he (by show 0 < qe; omega) (by show qe < 65536; omega) hL

theorem encode_len (e e1 : Enc) (bit cx S : Nat) (h : RegOk e) (hn : 0x8000 ≤ e.a) (hcx : cx < e.ctx.size)
    (he : encode e bit cx = some e1) (hL : LenInv e S) : LenInv e1 (S + 15) := by
  obtain ⟨hst, _⟩ := h.ctx cx
  obtain ⟨qe, nmps, nlps, sw, hlk, q2, q3, _, _, _⟩ := lookup_wf (rd e.ctx cx % 128) hst
  rw [encode_eq e bit cx _ qe nmps nlps sw (rd_some e.ctx cx hcx) hlk] at he
  exact encodeCore_len e e1 bit cx _ qe nmps nlps sw S h hn q2 q3 he hL

theorem encodeAll_len : ∀ (ds : List (Nat × Nat)) (e e' : Enc) (S : Nat), RegOk e → 0x8000 ≤ e.a →
    (∀ d ∈ ds, d.2 < e.ctx.size) → encodeAll e ds = some e' → LenInv e S → LenInv e' (S + 15 * ds.length) := by
  intro ds
  induction ds with
  | nil => intro e e' S _ _ _ he hL; injection he with he; subst he; exact hL
  | cons d ds ih =>
    intro e e' S h hn hds he hL
    obtain ⟨bit, cx⟩ := d
    obtain ⟨e1, he1, hr1, hn1, hs1, _⟩ := encode_spec e bit cx h hn (hds (bit, cx) (List.mem_cons_self))
    rw [encodeAll, he1] at he
    have hL1 := encode_len e e1 bit cx S h hn (hds (bit, cx) (List.mem_cons_self)) he1 hL
    have := ih e1 e' (S + 15) hr1 hn1 (by intro d hd; rw [hs1]; exact hds d (List.mem_cons_of_mem _ hd)) he hL1
    rw [List.length_cons, show S + 15 * (ds.length + 1) = S + 15 + 15 * ds.length by omega]
    exact this

theorem flush_len (e ef : Enc) (bytes : List Nat) (h : flush e = some (ef, bytes)) : bytes.length ≤ e.bp + 2 := by
  unfold flush flushToOutput at h
  simp only [] at h
  cases hb1 : byteout { e with c := shl32 (if e.c / 65536 * 65536 + 0xFFFF ≥ u32 (e.c + e.a) then sub32 (e.c / 65536 * 65536 + 0xFFFF) 0x8000 else e.c / 65536 * 65536 + 0xFFFF) e.ct.toNat } with
  | none => rw [hb1] at h; exact absurd h (by simp)
  | some e1 =>
    rw [hb1] at h
    simp only [] at h
    cases hb2 : byteout { e1 with c := shl32 e1.c e1.ct.toNat } with
    | none => rw [hb2] at h; exact absurd h (by simp)
    | some e2 =>
      rw [hb2] at h
      simp only [] at h
      have h1 := (byteout_len _ _ hb1).1
      have h2 := (byteout_len _ _ hb2).1
      have hbp1 : e1.bp = e.bp + 1 := h1
      have hbp2 : e2.bp = e.bp + 2 := by rw [h2]; show e1.bp + 1 = _; omega
      cases hg : e2.buf[e2.bp]? with
      | none => rw [hg] at h; exact absurd h (by simp)
      | some b =>
        rw [hg] at h
        simp only [Option.map_some, Option.some.injEq, Prod.mk.injEq] at h
        obtain ⟨h3, h4⟩ := h
        rw [← h4]
        have hgb : ∀ (x : Enc), (getBuffer x).length ≤ x.bp - 1 := by
          intro x
          unfold getBuffer start
          split
          · simp
          · rw [Array.length_toList, Array.size_extract]; omega
        by_cases hb : b ≠ 255
        · rw [if_pos hb]
          have := hgb { e2 with bp := e2.bp + 1 }
          have hx : ({ e2 with bp := e2.bp + 1 } : Enc).bp = e2.bp + 1 := rfl
          omega
        · rw [if_neg hb]
          have := hgb e2
          omega

/-- **length bound for MQ output**: `n` decisions give at most `(15·n + 8)/7 + 2` bytes -/
theorem mq_len_bound (n : Nat) (ds : List (Nat × Nat)) (hds : ∀ d ∈ ds, d.2 < n) :
    ∃ bytes, encodeBytes n ds = some bytes ∧ bytes.length ≤ (15 * ds.length + 8) / 7 + 2 := by
  obtain ⟨h0, hn0, hs0⟩ := new_ok n
  obtain ⟨e, he, hr, hn, _⟩ := encodeAll_spec ds (Enc.new n) h0 hn0 (by rw [hs0]; exact hds)
  have hL0 : LenInv (Enc.new n) 0 := ⟨by show (1 : Int) ≤ 12; omega, by show 7 * 0 + 5 ≤ 0 + (12 : Int).toNat; decide⟩
  have hL := encodeAll_len ds (Enc.new n) e 0 h0 hn0 (by rw [hs0]; exact hds) he hL0
  obtain ⟨e', bytes, hfl, _⟩ := flush_spec e hr hn
  have hlen := flush_len e e' bytes hfl
  refine ⟨bytes, ?_, ?_⟩
  · unfold encodeBytes
    rw [he]
    simp only [hfl, Option.map_some]
  · have h13 := hr.cthi
    have h2 := hL.2
    have h1 := hL.1
    omega

end Mqc
