import GdcVerif.Model.JpegLosslessStream
import GdcVerif.Lemmas.JllCompose
import GdcVerif.Lemmas.JpegFrames
import GdcVerif.Lemmas.GoBits
/-!
  C02/C13 stream layer, ENCODER side: what `JLL.Stream.encode` (the whole `Encode` function of
  jpeg/lossless and jpeg/lossless14sv1) returns on an admissible pixel buffer.

  * E1 `pixels_samples`: container bytes ↔ sample planes (`pixelsToSamples` / `samplesToPixels`).
  * E2 `freqPass_ok`: the frequency pass counts exactly the categories the scan emits.
  * E3 `selectBestPredictor_ok`: auto-selection returns a predictor 1..7.
  * E4 `encode_ok`: the encoder's output, explicit: header ++ scan ++ EOI, with the scan being the
        `WriteBits*; Flush` image of the symbol sequence under the per-image optimal table, which
        `decodeScan` maps back to the planes.
-/
namespace JLL
open Gen.JpegLossless

/-! ## generic: `Outcome` is a lawful monad; total `mapM` / `foldlM` -/

instance : LawfulMonad Outcome := LawfulMonad.mk' (m := Outcome)
  (id_map := by intro α x; cases x <;> rfl)
  (pure_bind := by intros; rfl)
  (bind_assoc := by intro α β γ x f g; cases x <;> rfl)

theorem list_mapM_ok {α β : Type} (f : α → Outcome β) (g : α → β) :
    ∀ (l : List α), (∀ x ∈ l, f x = .ok (g x)) → l.mapM f = .ok (l.map g)
  | [], _ => rfl
  | a :: l, h => by
    rw [List.mapM_cons, h a (by simp), list_mapM_ok f g l (fun x hx => h x (by simp [hx]))]
    rfl

theorem array_mapM_ok {α β : Type} (f : α → Outcome β) (g : α → β) (a : Array α)
    (h : ∀ x ∈ a.toList, f x = .ok (g x)) : a.mapM f = .ok (a.map g) := by
  rw [Array.mapM_eq_mapM_toList, list_mapM_ok f g a.toList h]
  show Outcome.ok _ = _
  congr 1
  apply Array.ext'
  simp

theorem foldlM_rev {α : Type} (f : List Nat → α → Outcome (List Nat)) (g : α → List Nat) :
    ∀ (l : List α) (acc : List Nat), (∀ a ∈ l, ∀ acc, f acc a = .ok ((g a).reverse ++ acc)) →
      l.foldlM f acc = .ok ((l.flatMap g).reverse ++ acc)
  | [], acc, _ => by simp
  | a :: l, acc, h => by
    rw [foldlM_cons_ok _ _ _ _ _ (h a (by simp) acc),
      foldlM_rev f g l _ (fun x hx => h x (by simp [hx]))]
    simp

theorem flatMap_congr' {α β : Type} (l : List α) (f g : α → List β) (h : ∀ a ∈ l, f a = g a) :
    l.flatMap f = l.flatMap g := by
  induction l with
  | nil => rfl
  | cons a l ih =>
    simp only [List.flatMap_cons]
    rw [h a (by simp), ih (fun x hx => h x (by simp [hx]))]

theorem range_flatMap_mul {β : Type} (m : Nat) (B : Nat → List β) : ∀ n : Nat,
    (List.range n).flatMap (fun i => (List.range m).flatMap (fun c => B (i * m + c)))
      = (List.range (n * m)).flatMap B
  | 0 => by simp
  | n + 1 => by
    rw [List.range_succ, List.flatMap_append, range_flatMap_mul m B n, Nat.add_mul, Nat.one_mul,
      List.range_add, List.flatMap_append, List.flatMap_map]
    simp

theorem range_flatMap_single : ∀ (l : List Nat),
    (List.range l.length).flatMap (fun k => [l[k]?.getD 0]) = l
  | [] => rfl
  | a :: l => by
    rw [List.length_cons, List.range_succ_eq_map, List.flatMap_cons, List.flatMap_map]
    simp only [List.getElem?_cons_zero, Option.getD_some, List.getElem?_cons_succ, List.cons_append, List.nil_append]
    rw [range_flatMap_single l]

theorem range_flatMap_pair : ∀ (N : Nat) (l : List Nat), l.length = N * 2 →
    (List.range N).flatMap (fun k => [l[k * 2]?.getD 0, l[k * 2 + 1]?.getD 0]) = l
  | 0, l, h => by
    have : l = [] := List.eq_nil_of_length_eq_zero (by omega)
    subst this; rfl
  | N + 1, l, h => by
    match l, h with
    | [], h => simp at h
    | [_], h => simp at h; omega
    | a :: b :: l', h =>
      have hl : l'.length = N * 2 := by simp at h; omega
      rw [List.range_succ_eq_map, List.flatMap_cons, List.flatMap_map]
      have e : ∀ k, (k + 1) * 2 = k * 2 + 1 + 1 := by intro k; omega
      simp only [e, List.getElem?_cons_succ, List.getElem?_cons_zero, Option.getD_some, Nat.zero_mul,
        Nat.zero_add, List.cons_append, List.nil_append]
      rw [range_flatMap_pair N l' hl]

/-! ## E1: container bytes ↔ samples -/

/-- `lo | hi<<8` on bytes is `lo + 256·hi` (Go's 64-bit `|`) -/
theorem or_shl8 (lo hi : Nat) (hlo : lo < 256) (hhi : hi < 256) :
    Go.or (lo : Int) (Go.shl (hi : Int) 8) = (lo : Int) + 256 * (hi : Int) := by
  have e1 : Go.shl (hi : Int) 8 = ((hi * 256 : Nat) : Int) := by
    simp [Go.shl]
  rw [e1]
  unfold Go.or
  rw [BitVec.ofInt_natCast, BitVec.ofInt_natCast]
  have e2 : hi * 256 = hi <<< 8 := by rw [Nat.shiftLeft_eq]
  have e3 : lo ||| hi <<< 8 = hi <<< 8 + lo := by
    rw [Nat.or_comm]; exact (Nat.shiftLeft_add_eq_or_of_lt (by omega) hi).symm
  rw [← BitVec.ofNat_or, e2, e3, Nat.shiftLeft_eq]
  rw [BitVec.toInt_eq_toNat_of_lt (by rw [BitVec.toNat_ofNat]; omega), BitVec.toNat_ofNat]
  omega

/-- ADMISSIBLE PIXEL BUFFER (native frame): exactly `w*h*nc` samples, pixel-interleaved.
    `P ≤ 8`: one byte per sample, value `< 2^P`.  `P > 8`: two bytes little-endian, low byte
    `< 256`, high byte `< 2^(P-8)` (the unused high bits are zero). -/
def PixOk (P w h nc : Nat) (pix : Array Nat) : Prop :=
  if P ≤ 8 then pix.size = w * h * nc ∧ ∀ k, k < w * h * nc → pix[k]?.getD 0 < 2 ^ P
  else pix.size = w * h * nc * 2 ∧
    ∀ k, k < w * h * nc → pix[k * 2]?.getD 0 < 256 ∧ pix[k * 2 + 1]?.getD 0 < 2 ^ (P - 8)

/-- the sample of component `c` at pixel `i` of an interleaved native frame -/
def sampleAt (P nc : Nat) (pix : Array Nat) (c i : Nat) : Int :=
  if P ≤ 8 then ((pix[i * nc + c]?.getD 0 : Nat) : Int)
  else ((pix[(i * nc + c) * 2]?.getD 0 : Nat) : Int) + 256 * ((pix[(i * nc + c) * 2 + 1]?.getD 0 : Nat) : Int)

/-- the planes `pixelsToSamples` produces -/
def planesOf (P w h nc : Nat) (pix : Array Nat) : Planes :=
  (Array.range nc).map fun c => (Array.range (w * h)).map fun i => sampleAt P nc pix c i

theorem inter_lt {n nc i c : Nat} (hi : i < n) (hc : c < nc) : i * nc + c < n * nc := by
  have := idx_lt (w := nc) (h := n) hi hc
  rw [Nat.mul_comm n nc]; exact this

theorem two_pow_le_256 {k : Nat} (hk : k ≤ 8) : 2 ^ k ≤ 256 := by
  have : 2 ^ k ≤ 2 ^ 8 := Nat.pow_le_pow_right (by decide) hk
  simpa using this

theorem pixelsToSamples_ok (P w h nc : Nat) (pix : Array Nat) (hP : 2 ≤ P ∧ P ≤ 16)
    (hp : PixOk P w h nc pix) : pixelsToSamples P w h nc pix = .ok (planesOf P w h nc pix) := by
  unfold pixelsToSamples planesOf
  simp only
  by_cases h8 : P ≤ 8
  · simp only [PixOk, h8, if_true] at hp
    have hsz : ¬ pix.size < w * h * nc * 1 := by omega
    simp only [h8, if_true, hsz, if_false]
    apply array_mapM_ok
    intro c hc
    have hc' : c < nc := by simpa using hc
    apply array_mapM_ok
    intro i hi
    have hi' : i < w * h := by simpa using hi
    have hlt := inter_lt hi' hc'
    have : (i * nc + c) * 1 < pix.size := by omega
    simp only [sampleAt, h8, if_true, Nat.mul_one]
    rw [Array.getElem?_eq_getElem (by omega)]
    simp
  · simp only [PixOk, h8, if_false] at hp
    have hsz : ¬ pix.size < w * h * nc * 2 := by omega
    simp only [h8, if_false, hsz]
    apply array_mapM_ok
    intro c hc
    have hc' : c < nc := by simpa using hc
    apply array_mapM_ok
    intro i hi
    have hi' : i < w * h := by simpa using hi
    have hlt := inter_lt hi' hc'
    have hb := hp.2 _ hlt
    have h28 : 2 ^ (P - 8) ≤ 256 := two_pow_le_256 (by omega)
    simp only [sampleAt, h8, if_false]
    rw [Array.getElem?_eq_getElem (by omega : (i * nc + c) * 2 < pix.size),
      Array.getElem?_eq_getElem (by omega : (i * nc + c) * 2 + 1 < pix.size)] at hb ⊢
    simp only [Option.getD_some] at hb ⊢
    rw [or_shl8 _ _ hb.1 (by omega)]

theorem planesOf_sized (P w h nc : Nat) (pix : Array Nat) : Sized w h nc (planesOf P w h nc pix) := by
  refine ⟨by simp [planesOf], ?_⟩
  intro c hc
  simp [planesOf, hc]

theorem planesOf_cell (P w h nc : Nat) (pix : Array Nat) (c i : Nat) (hc : c < nc) (hi : i < w * h) :
    cell (planesOf P w h nc pix) c i = sampleAt P nc pix c i := by
  simp [cell, planesOf, hc, hi]

theorem planesOf_cell_out (P w h nc : Nat) (pix : Array Nat) (c i : Nat) (hc : ¬ (c < nc ∧ i < w * h)) :
    cell (planesOf P w h nc pix) c i = 0 := by
  by_cases h1 : c < nc
  · have h2 : ¬ i < w * h := fun h => hc ⟨h1, h⟩
    simp [cell, planesOf, h1, h2]
  · simp [cell, planesOf, h1]

theorem sampleAt_range (P w h nc : Nat) (pix : Array Nat) (_hP : 2 ≤ P ∧ P ≤ 16)
    (hp : PixOk P w h nc pix) (c i : Nat) (hc : c < nc) (hi : i < w * h) :
    0 ≤ sampleAt P nc pix c i ∧ sampleAt P nc pix c i < Go.shl 1 (P : Int) := by
  have hlt := inter_lt hi hc
  rw [shl_one]
  have hcast : ((2 ^ P : Nat) : Int) = (2 : Int) ^ P := by simp
  rw [← hcast]
  by_cases h8 : P ≤ 8
  · simp only [PixOk, h8, if_true] at hp
    have := hp.2 _ hlt
    simp only [sampleAt, h8, if_true]
    omega
  · simp only [PixOk, h8, if_false] at hp
    have hb := hp.2 _ hlt
    have e : 2 ^ P = 256 * 2 ^ (P - 8) := by
      have : P = 8 + (P - 8) := by omega
      rw [this, Nat.pow_add]; simp
    simp only [sampleAt, h8, if_false]
    omega

theorem planesOf_inRange (P w h nc : Nat) (pix : Array Nat) (hP : 2 ≤ P ∧ P ≤ 16)
    (hp : PixOk P w h nc pix) : InRange P (planesOf P w h nc pix) := by
  intro c i
  by_cases hci : c < nc ∧ i < w * h
  · rw [planesOf_cell P w h nc pix c i hci.1 hci.2]
    exact sampleAt_range P w h nc pix hP hp c i hci.1 hci.2
  · rw [planesOf_cell_out P w h nc pix c i hci]
    have hf := pow_facts (P : Int) (by omega) (by omega)
    simp only at hf
    omega

/-- the bytes `samplesToPixels` emits for one sample -/
def bytesOf (P : Nat) (v : Int) : List Nat :=
  if P ≤ 8 then [(v % 256).toNat] else [(v % 256).toNat, ((Go.shr v 8) % 256).toNat]

/-- `samplesToPixels` on planes of the declared shape: pixel-interleaved bytes of every sample -/
theorem samplesToPixels_ok (P w h nc : Nat) (s : Planes) (hs : Sized w h nc s) :
    samplesToPixels P w h nc s =
      .ok ((List.range (w * h)).flatMap fun i => (List.range nc).flatMap fun c => bytesOf P (cell s c i)) := by
  unfold samplesToPixels
  simp only
  rw [foldlM_rev _ (fun i => (List.range nc).flatMap fun c => bytesOf P (cell s c i))]
  · simp
  · intro i hi acc
    have hi' : i < w * h := by simpa using hi
    apply foldlM_rev _ (fun c => bytesOf P (cell s c i))
    intro c hc acc
    have hc' : c < nc := by simpa using hc
    have h1 : c < s.size := by rw [hs.1]; exact hc'
    have h2 := hs.2 c hc'
    have h3 : s[c]? = some s[c] := Array.getElem?_eq_getElem h1
    rw [h3, Option.getD_some] at h2
    have h4 : i < s[c].size := by rw [h2]; exact hi'
    have h5 : s[c][i]? = some s[c][i] := Array.getElem?_eq_getElem h4
    simp only [h3, h5, cell, Option.getD_some, bytesOf]
    split <;> simp

/-- the bytes of sample number `k` of the native frame -/
def pixBytes (P : Nat) (pix : Array Nat) (k : Nat) : List Nat :=
  if P ≤ 8 then [pix[k]?.getD 0] else [pix[k * 2]?.getD 0, pix[k * 2 + 1]?.getD 0]

theorem shr8 (x : Int) : Go.shr x 8 = x / 256 := by
  simp [Go.shr, Int.shiftRight_eq_div_pow]

theorem bytesOf_sampleAt (P w h nc : Nat) (pix : Array Nat) (hP : 2 ≤ P ∧ P ≤ 16)
    (hp : PixOk P w h nc pix) (c i : Nat) (hc : c < nc) (hi : i < w * h) :
    bytesOf P (sampleAt P nc pix c i) = pixBytes P pix (i * nc + c) := by
  have hlt := inter_lt hi hc
  by_cases h8 : P ≤ 8
  · simp only [PixOk, h8, if_true] at hp
    have hb := hp.2 _ hlt
    have := two_pow_le_256 h8
    simp only [bytesOf, sampleAt, pixBytes, h8, if_true]
    congr 1
    omega
  · simp only [PixOk, h8, if_false] at hp
    have hb := hp.2 _ hlt
    have h28 : 2 ^ (P - 8) ≤ 256 := two_pow_le_256 (by omega)
    simp only [bytesOf, sampleAt, pixBytes, h8, if_false, shr8]
    congr 1
    · omega
    · congr 1; omega

theorem pixBytes_all (P N : Nat) (pix : Array Nat)
    (hsz : pix.size = if P ≤ 8 then N else N * 2) :
    (List.range N).flatMap (pixBytes P pix) = pix.toList := by
  by_cases h8 : P ≤ 8
  · simp only [h8, if_true] at hsz
    have := range_flatMap_single pix.toList
    simp only [Array.length_toList, hsz, Array.getElem?_toList] at this
    have e : pixBytes P pix = fun k => [pix[k]?.getD 0] := by
      funext k; simp [pixBytes, h8]
    rw [e]; exact this
  · simp only [h8, if_false] at hsz
    have := range_flatMap_pair N pix.toList (by simp [hsz])
    simp only [Array.getElem?_toList] at this
    have e : pixBytes P pix = fun k => [pix[k * 2]?.getD 0, pix[k * 2 + 1]?.getD 0] := by
      funext k; simp [pixBytes, h8]
    rw [e]; exact this

/-- E1: an admissible pixel buffer converts to planes of the declared shape with P-bit samples,
    and `samplesToPixels` gives the buffer back -/
theorem pixels_samples (P w h nc : Nat) (pix : Array Nat) (hp : PixOk P w h nc pix)
    (hP : 2 ≤ P ∧ P ≤ 16) :
    ∃ s, pixelsToSamples P w h nc pix = .ok s ∧ Sized w h nc s ∧ InRange P s ∧
      samplesToPixels P w h nc s = .ok pix.toList := by
  refine ⟨planesOf P w h nc pix, pixelsToSamples_ok P w h nc pix hP hp, planesOf_sized P w h nc pix,
    planesOf_inRange P w h nc pix hP hp, ?_⟩
  rw [samplesToPixels_ok P w h nc _ (planesOf_sized P w h nc pix)]
  congr 1
  have e1 : ((List.range (w * h)).flatMap fun i => (List.range nc).flatMap fun c =>
        bytesOf P (cell (planesOf P w h nc pix) c i))
      = (List.range (w * h)).flatMap fun i => (List.range nc).flatMap fun c => pixBytes P pix (i * nc + c) := by
    apply flatMap_congr'
    intro i hi
    apply flatMap_congr'
    intro c hc
    have hi' : i < w * h := by simpa using hi
    have hc' : c < nc := by simpa using hc
    rw [planesOf_cell P w h nc pix c i hc' hi', bytesOf_sampleAt P w h nc pix hP hp c i hc' hi']
  rw [e1, range_flatMap_mul nc (pixBytes P pix) (w * h)]
  apply pixBytes_all
  unfold PixOk at hp
  split at hp
  · rw [if_pos (by assumption)]; exact hp.1
  · rw [if_neg (by assumption)]; exact hp.1

/-! ## E2: the frequency pass -/


theorem catFreq_get (cats : List Nat) (k : Nat) (hk : k < 256) :
    (catFreq cats)[k]? = some (cats.count k) := by
  simp only [catFreq]
  rw [List.getElem?_map, List.getElem?_range hk]
  rfl

theorem map_count_nil (n : Nat) :
    (List.range n).map (fun k => ([] : List Nat).count k) = List.replicate n 0 := by
  apply List.ext_getElem?
  intro j
  by_cases hj : j < n
  · simp [hj]
  · simp [hj]

theorem catFreq_nil : catFreq [] = List.replicate 256 0 := map_count_nil 256

theorem catFreq_snoc (cats : List Nat) (k : Nat) (hk : k < 256) :
    (catFreq cats).set k (cats.count k + 1) = catFreq (cats ++ [k]) := by
  apply List.ext_getElem?
  intro j
  by_cases hj : j < 256
  · rw [catFreq_get _ j hj, List.getElem?_set]
    by_cases hkj : k = j
    · subst hkj
      simp [catFreq, hk]
    · rw [if_neg hkj, catFreq_get _ j hj]
      simp [List.count_append, List.count_singleton]
      omega
  · rw [List.getElem?_eq_none (by simp [catFreq]; omega), List.getElem?_eq_none (by simp [catFreq]; omega)]

/-- the body of `freqPass`'s loop (verbatim) -/
def freqStepFn (sv1 : Bool) (P predictor w : Nat) (s : Planes) : List Nat → Pos → Outcome (List Nat) :=
  fun fr (row, col, c) => do
    let sample ← readS s c ((row : Int) * w + col)
    let nb ← readNb s c w row col
    let predicted := if sv1 then sv1FreqPredicted P row col nb else freqPredicted P predictor row col nb
    let diff := encDiff sample predicted
    let k := (diffCategory diff).toNat
    match fr[k]? with
    | some v => pure (fr.set k (v + 1))
    | none => Outcome.panic

theorem freqPass_eq (sv1 : Bool) (P predictor w h nc : Nat) (s : Planes) :
    Stream.freqPass sv1 P predictor w h nc s =
      (scanOrder w h nc).foldlM (freqStepFn sv1 P predictor w s) (List.replicate 256 0) := rfl

theorem freqStep_ok (sv1 : Bool) (P predictor w h nc : Nat) (s : Planes) (hs : Sized w h nc s)
    (p : Pos) (hp : p ∈ scanOrder w h nc) (cats : List Nat) :
    freqStepFn sv1 P predictor w s (catFreq cats) p
      = .ok (catFreq (cats ++ [(symOf sv1 P predictor w s p).1])) := by
  obtain ⟨row, col, c⟩ := p
  obtain ⟨hr, hcl, hc⟩ := mem_scanOrder.1 hp
  simp only at hr hcl hc
  have hrd : readS s c ((row : Int) * (w : Int) + (col : Int)) = .ok (cell s c (row * w + col)) :=
    readS_ok hs hc (idx_lt hr hcl) _ (by rw [Int.natCast_add, Int.natCast_mul])
  have hnb := readNb_ok hs hr hcl hc
  have hle := (symOfDiff_ok (diffOf sv1 P predictor w s (row, col, c))
    (encDiff_range' _ _).1 (encDiff_range' _ _).2).1
  have hpred : (if sv1 = true then sv1FreqPredicted (P : Int) (row : Int) (col : Int) (nbOf s c w row col)
        else freqPredicted (P : Int) (predictor : Int) (row : Int) (col : Int) (nbOf s c w row col))
      = predOf sv1 P predictor w s (row, col, c) := by
    simp only [predOf]
    rw [freqPredicted_eq_enc _ _ _ _ _ (by omega) (by omega), sv1FreqPredicted_eq _ _ _ _ (by omega) (by omega)]
  have hcat : (diffCategory (diffOf sv1 P predictor w s (row, col, c))).toNat
      = (symOf sv1 P predictor w s (row, col, c)).1 := by
    rw [diffCategory_eq' (diffOf sv1 P predictor w s (row, col, c)) (encDiff_range' _ _).1 (encDiff_range' _ _).2]
    rfl
  simp only [freqStepFn, hrd, hnb, Outcome.ok_bind, hpred]
  have hd : encDiff (cell s c (row * w + col)) (predOf sv1 P predictor w s (row, col, c))
      = diffOf sv1 P predictor w s (row, col, c) := rfl
  rw [hd, hcat]
  change (symOf sv1 P predictor w s (row, col, c)).1 ≤ 16 at hle
  generalize (symOf sv1 P predictor w s (row, col, c)).1 = k at hle ⊢
  rw [catFreq_get _ k (by omega)]
  simp only [Outcome.pure_eq]
  rw [catFreq_snoc _ k (by omega)]

/-- E2: the frequency pass (`optimizeHuffmanTables`) returns the histogram of the categories the
    scan emits -/
theorem freqPass_ok (sv1 : Bool) (P predictor w h nc : Nat) (s : Planes) (hs : Sized w h nc s) :
    Stream.freqPass sv1 P predictor w h nc s = .ok (catFreq (emittedCats sv1 P predictor w h nc s)) := by
  obtain ⟨fr, h1, h2⟩ := foldlM_inv (freqStepFn sv1 P predictor w s)
    (fun pre fr => fr = catFreq (pre.map fun p => (symOf sv1 P predictor w s p).1))
    (scanOrder w h nc) [] (List.replicate 256 0) catFreq_nil.symm (by
      intro pre' a post' b heq hI
      have ha : a ∈ scanOrder w h nc := by
        have : a ∈ pre' ++ a :: post' := by simp
        rw [← heq] at this; simpa using this
      subst hI
      exact ⟨_, freqStep_ok sv1 P predictor w h nc s hs a ha _, by simp⟩)
  rw [freqPass_eq, h1, h2]
  simp only [emittedCats, scanSyms, List.map_map, List.nil_append]
  rfl

/-! ## E3: predictor auto-selection -/

theorem foldlM_total {α β : Type} (f : β → α → Outcome β) :
    ∀ (l : List α), (∀ a ∈ l, ∀ b, ∃ b', f b a = .ok b') → ∀ b, ∃ b', l.foldlM f b = .ok b'
  | [], _, b => ⟨b, rfl⟩
  | a :: l, h, b => by
    obtain ⟨b1, h1⟩ := h a (by simp) b
    obtain ⟨b2, h2⟩ := foldlM_total f l (fun x hx => h x (by simp [hx])) b1
    exact ⟨b2, by rw [foldlM_cons_ok _ _ _ _ _ h1]; exact h2⟩

/-- `calculatePredictionVariance` never fails on planes of the declared shape -/
theorem predictionVariance_ok (w h nc : Nat) (s : Planes) (hs : Sized w h nc s) (p : Nat) :
    ∃ v, Stream.predictionVariance w h nc s p = .ok v := by
  unfold Stream.predictionVariance
  simp only
  obtain ⟨r, hr⟩ := foldlM_total
    (fun (x : Int × Int) (q : Nat × Nat × Nat) =>
      (match x, q with
       | (sum, count), (row, col, c) => do
        let sample ← readS s c ((row : Int) * w + col)
        let nb ← readNb s c w row col
        let diff := sample - varPredicted p row col nb
        pure (sum + diff * diff, count + 1) : Outcome (Int × Int)))
    ((List.range nc).flatMap fun c => (List.range h).flatMap fun row => (List.range w).map fun col => (row, col, c))
    (by
      intro q hq b
      obtain ⟨row, col, c⟩ := q
      obtain ⟨sum, count⟩ := b
      simp only [List.mem_flatMap, List.mem_map, List.mem_range, Prod.mk.injEq] at hq
      obtain ⟨c', hc, row', hr, col', hcl, e1, e2, e3⟩ := hq
      subst e1 e2 e3
      have hrd : readS s c' ((row' : Int) * (w : Int) + (col' : Int)) = .ok (cell s c' (row' * w + col')) :=
        readS_ok hs hc (idx_lt hr hcl) _ (by rw [Int.natCast_add, Int.natCast_mul])
      have hnb := readNb_ok hs hr hcl hc
      simp only [hrd, hnb, Outcome.ok_bind, Outcome.pure_eq]
      exact ⟨_, rfl⟩)
    ((0 : Int), (0 : Int))
  rw [hr]
  exact ⟨_, rfl⟩

/-- E3: `SelectBestPredictor` returns a predictor 1..7 -/
theorem selectBestPredictor_ok (w h nc : Nat) (s : Planes) (hs : Sized w h nc s) :
    ∃ p, Stream.selectBestPredictor w h nc s = .ok p ∧ 1 ≤ p ∧ p ≤ 7 := by
  unfold Stream.selectBestPredictor
  obtain ⟨r, h1, h2⟩ := foldlM_inv
    (fun (x : Nat × Int) (p : Nat) =>
      (match x with
       | (best, minV) => do
        let v ← Stream.predictionVariance w h nc s p
        pure (if v < minV then (p, v) else (best, minV)) : Outcome (Nat × Int)))
    (fun _ b => 1 ≤ b.1 ∧ b.1 ≤ 7)
    (List.range' 1 7) [] ((1 : Nat), (4611686018427387904 : Int)) (by simp) (by
      intro pre' a post' b heq hI
      have ha : a ∈ List.range' 1 7 := by
        have : a ∈ pre' ++ a :: post' := by simp
        rw [← heq] at this; simpa using this
      have ha' : 1 ≤ a ∧ a ≤ 7 := by
        simp [List.mem_range'] at ha; omega
      obtain ⟨best, minV⟩ := b
      obtain ⟨v, hv⟩ := predictionVariance_ok w h nc s hs a
      simp only [hv, Outcome.ok_bind, Outcome.pure_eq]
      refine ⟨_, rfl, ?_⟩
      split
      · exact ha'
      · exact hI)
  rw [h1]
  exact ⟨r.1, rfl, h2⟩

/-! ## E4: the encoder's output -/

theorem mem_le_sum : ∀ (l : List Nat) (x : Nat), x ∈ l → x ≤ l.sum
  | [], _, h => by simp at h
  | a :: l, x, h => by
    simp only [List.mem_cons] at h
    simp only [List.sum_cons]
    rcases h with h | h
    · omega
    · have := mem_le_sum l x h; omega

theorem strict_kraft_aux : ∀ (l : List Nat) (k : Nat),
    ((l.zipIdx k).map fun (x : Nat × Nat) => x.1 * 2 ^ (15 - x.2)).sum = kraft l k
  | [], _ => rfl
  | a :: l, k => by
    simp only [List.zipIdx_cons, List.map_cons, List.sum_cons, kraft]
    rw [strict_kraft_aux l (k + 1)]

/-- the strict reader's Kraft sum (zipIdx form) is the canonical-code layer's -/
theorem strict_kraft_eq (l : List Nat) : StrictJpeg.kraft l = kraft l 0 := by
  unfold StrictJpeg.kraft
  exact strict_kraft_aux l 0

/-- the optimal table of a lossless frequency vector, in every vocabulary used downstream:
    C16's `TableOk` (DHT-writable, strict Kraft), L5's `ValidTable` / `KraftStrict`, and its symbols -/
theorem optimal_table_facts (f : List Nat) (hf : Opt.LosslessFreq f) (bits : List Int) (values : List Nat)
    (hb : Opt.buildOptimal f = .ok (bits, values)) :
    JpegC.TableOk { bits := bits, values := values } ∧
    ValidTable (bits.map Int.toNat) values.toArray = true ∧
    KraftStrict (bits.map Int.toNat) = true ∧
    (∀ i, i ∈ values ↔ i < 256 ∧ f[i]?.getD 0 ≠ 0) := by
  obtain ⟨bits1, values1, hb1, hlen, hnn, hsum, hnd, hmem, _⟩ := Opt.buildOptimal_lossless_valid f hf
  rw [hb] at hb1
  injection hb1 with hb1
  injection hb1 with e1 e2
  subst e1 e2
  obtain ⟨bits2, values2, hb2, hv, hks, _⟩ := optimal_table_valid' f hf
  rw [hb] at hb2
  injection hb2 with hb2
  injection hb2 with e1 e2
  subst e1 e2
  have h17 := (Opt.buildOptimal_lossless_values f hf bits values hb).2
  have hrange : ∀ b ∈ bits, 0 ≤ b ∧ b ≤ 255 := by
    intro b hbm
    have h0 := hnn b hbm
    have : b.toNat ≤ (bits.map Int.toNat).sum := mem_le_sum _ _ (List.mem_map.2 ⟨b, hbm, rfl⟩)
    omega
  have hmap : bits.map JpegC.byteOf = bits.map Int.toNat := by
    apply List.map_congr_left
    intro b hbm
    have := hrange b hbm
    unfold JpegC.byteOf; omega
  refine ⟨⟨hlen, hrange, ?_, ?_, ?_, hnd⟩, hv, hks, hmem⟩
  · show (bits.map JpegC.byteOf).sum = values.length
    rw [hmap]; exact hsum
  · show values.length ≤ 256
    omega
  · show StrictJpeg.kraft (bits.map JpegC.byteOf) < 65536
    rw [hmap, strict_kraft_eq]
    simpa [KraftStrict] using hks

theorem losslessHeader_ok (w h nc P pred : Nat) (t : JpegC.HuffTable) (hw : 1 ≤ w ∧ w ≤ 65535) (hh : 1 ≤ h ∧ h ≤ 65535)
    (hc : nc = 1 ∨ nc = 3) (hP : 2 ≤ P ∧ P ≤ 16) (hpred : pred ≤ 7) (ht : JpegC.TableOk t) :
    ∃ hdr, JpegC.losslessHeader (w : Int) (h : Int) nc (P : Int) (pred : Int) t = .ok hdr := by
  -- the argument guards of `losslessHeader` are C16's/C17's text: discharge whatever arithmetic
  -- guards it has, in whatever grouping, from the hypotheses
  unfold JpegC.losslessHeader
  repeat (rw [if_neg (by omega)])
  simp only [JpegC.dhtSegment, JpegC.dhtPayload_ok 0 0 t ht, JpegC.Outcome.map]
  exact ⟨_, rfl⟩

/-- a scan of at least one sample is not empty: the first symbol's code has at least one bit -/
theorem scan_ne_nil (sv1 : Bool) (P pred w h nc : Nat) (bits : List Nat) (values : Array Nat) (s : Planes)
    (hv : ValidTable bits values = true)
    (hcat : ∀ k ∈ emittedCats sv1 P pred w h nc s, k ∈ values.toList)
    (hw : 1 ≤ w) (hh : 1 ≤ h) (hc : 1 ≤ nc) :
    writeAll {} (symWrites (buildHuffmanCodes bits values) (scanSyms sv1 P pred w h nc s)) ≠ [] := by
  have hok : ∀ x ∈ scanSyms sv1 P pred w h nc s, SymOk x ∧ x.1 ∈ values.toList := by
    intro x hx
    refine ⟨?_, hcat _ (by simp only [emittedCats]; exact List.mem_map.2 ⟨x, hx, rfl⟩)⟩
    simp only [scanSyms, List.mem_map] at hx
    obtain ⟨p, _, rfl⟩ := hx
    exact symOfDiff_ok _ (encDiff_range' _ _).1 (encDiff_range' _ _).2
  have hwd := symWrites_width bits values hv _ hok
  obtain ⟨pad, _, _, h3⟩ := writeAll_bits _ hwd
  intro hnil
  rw [hnil] at h3
  have h0 : (0, 0, 0) ∈ scanOrder w h nc := mem_scanOrder.2 ⟨hh, hw, hc⟩
  cases hso : scanOrder w h nc with
  | nil => rw [hso] at h0; simp at h0
  | cons p ps =>
    have hsy : scanSyms sv1 P pred w h nc s
        = symOf sv1 P pred w s p :: ps.map (symOf sv1 P pred w s) := by
      simp [scanSyms, hso]
    have hx := hok (symOf sv1 P pred w s p) (by rw [hsy]; simp)
    obtain ⟨c, len, hcl, hl1, _, _⟩ := codes_wf bits values hv _ hx.2
    have := congrArg List.length h3
    rw [hsy] at this
    simp only [unstuff, List.flatMap_nil, List.length_nil, symWrites, List.flatMap_cons, symWrite, hcl,
      Option.getD_some, List.cons_append, List.length_append, bitsOf_length] at this
    omega

theorem ofC_withScan_ok (hdr scan : List Nat) :
    Stream.ofC (JpegC.withScan (.ok hdr) scan) = .ok (hdr ++ scan ++ [0xFF, 0xD9]) := by
  simp only [JpegC.withScan, JpegC.Outcome.map, JpegC.mEOI, Stream.ofC]

/-- E4: the whole `Encode` function on an admissible buffer, explicitly -/
theorem encode_ok (sv1 : Bool) (pix : Array Nat) (w h nc P predictor : Nat)
    (hw : 1 ≤ w ∧ w ≤ 65535) (hh : 1 ≤ h ∧ h ≤ 65535) (hc : nc = 1 ∨ nc = 3)
    (hP : 2 ≤ P ∧ P ≤ 16) (hpr : predictor ≤ 7) (hpix : PixOk P w h nc pix) :
    ∃ (s : Planes) (pred : Nat) (bits : List Int) (values : List Nat) (t : Table) (scan hdr : List Nat),
      pixelsToSamples P w h nc pix = .ok s ∧ Sized w h nc s ∧ InRange P s ∧
      samplesToPixels P w h nc s = .ok pix.toList ∧
      (if sv1 then pred = 1 else if predictor = 0 then 1 ≤ pred ∧ pred ≤ 7 else pred = predictor) ∧
      Opt.buildOptimal (catFreq (emittedCats sv1 P pred w h nc s)) = .ok (bits, values) ∧
      ValidTable (bits.map Int.toNat) values.toArray = true ∧
      KraftStrict (bits.map Int.toNat) = true ∧
      Table.build (bits.map Int.toNat) values.toArray = .ok t ∧
      JpegC.TableOk { bits := bits, values := values } ∧
      encodeScan sv1 P pred w h nc (buildHuffmanCodes (bits.map Int.toNat) values.toArray) s = .ok scan ∧
      StuffOk scan = true ∧ scan ≠ [] ∧
      scan = writeAll {} (symWrites (buildHuffmanCodes (bits.map Int.toNat) values.toArray)
        (scanSyms sv1 P pred w h nc s)) ∧
      decodeScan sv1 P pred w h nc t scan = .ok s ∧
      (if sv1 then JpegC.sv1Header w h nc P ⟨bits, values⟩
        else JpegC.losslessHeader w h nc P pred ⟨bits, values⟩) = .ok hdr ∧
      Stream.encode sv1 pix w h nc P predictor = .ok (hdr ++ scan ++ [0xFF, 0xD9]) := by
  obtain ⟨s, hs1, hsz, hrng, hs2⟩ := pixels_samples P w h nc pix hpix hP
  -- the predictor actually used
  obtain ⟨pred, hsel1, hsel2, hsel3, hpred, hpred7⟩ : ∃ pred : Nat,
      (sv1 = true → pred = 1) ∧
      (sv1 = false → predictor = 0 → Stream.selectBestPredictor w h nc s = .ok pred) ∧
      (sv1 = false → predictor ≠ 0 → pred = predictor) ∧
      (if sv1 then pred = 1 else if predictor = 0 then 1 ≤ pred ∧ pred ≤ 7 else pred = predictor) ∧
      pred ≤ 7 := by
    cases sv1 with
    | true => exact ⟨1, fun _ => rfl, by simp, by simp, by simp, by omega⟩
    | false =>
      by_cases h0 : predictor = 0
      · obtain ⟨p, hp, h1, h7⟩ := selectBestPredictor_ok w h nc s hsz
        exact ⟨p, by simp, fun _ _ => hp, fun _ h => absurd h0 h, by simp [h0, h1, h7], h7⟩
      · exact ⟨predictor, by simp, fun _ h => absurd h h0, fun _ _ => rfl, by simp [h0], hpr⟩
  have hfreq := freqPass_ok sv1 P pred w h nc s hsz
  have hle := emittedCats_le sv1 P pred w h nc s
  have hlf := catFreq_lossless _ (fun k hk => hle k hk)
  obtain ⟨bits, values, hb, _, _, _⟩ := optimal_table_valid' _ hlf
  obtain ⟨htok, hv, hks, hmem⟩ := optimal_table_facts _ hlf bits values hb
  obtain ⟨t, ht, _, _⟩ := build_ok _ _ hv
  have hcat : ∀ k ∈ emittedCats sv1 P pred w h nc s, k ∈ values.toArray.toList := by
    intro k hk
    have h16 := hle k hk
    simpa using (hmem k).mpr ⟨by omega, catFreq_mem _ k hk h16⟩
  obtain ⟨scan, henc, hscan, hst, hdec⟩ :=
    lossless_scan_roundtrip' sv1 P pred w h nc _ _ t s hP hv ht hcat hsz hrng
  have hne : scan ≠ [] := by
    rw [hscan]
    exact scan_ne_nil sv1 P pred w h nc _ _ s hv hcat hw.1 hh.1 (by omega)
  obtain ⟨hdr, hhdr⟩ : ∃ hdr, (if sv1 then JpegC.sv1Header w h nc P ⟨bits, values⟩
      else JpegC.losslessHeader w h nc P pred ⟨bits, values⟩) = .ok hdr := by
    cases sv1 with
    | true => exact losslessHeader_ok w h nc P 1 _ hw hh hc hP (by omega) htok
    | false => exact losslessHeader_ok w h nc P pred _ hw hh hc hP hpred7 htok
  refine ⟨s, pred, bits, values, t, scan, hdr, hs1, hsz, hrng, hs2, hpred, hb, hv, hks, ht, htok,
    henc, hst, hne, hscan, hdec, hhdr, ?_⟩
  have g1 : ¬ (w = 0 ∨ h = 0 ∨ w > 65535 ∨ h > 65535) := by omega
  have g2 : ¬ (nc ≠ 1 ∧ nc ≠ 3) := by omega
  have g3 : ¬ (P < 2 ∨ P > 16) := by omega
  have g4 : ¬ (¬ sv1 = true ∧ predictor > 7) := by omega
  unfold Stream.encode
  rw [if_neg g1, if_neg g2, if_neg g3, if_neg g4]
  simp only [hs1, Outcome.ok_bind]
  cases sv1 with
  | true =>
    have := hsel1 rfl
    subst this
    simp only [if_true, Outcome.pure_eq, Outcome.ok_bind, hfreq, hb, henc] at hhdr ⊢
    rw [hhdr]
    exact ofC_withScan_ok hdr scan
  | false =>
    by_cases h0 : predictor = 0
    · have := hsel2 rfl h0
      simp only [Bool.false_eq_true, if_false, h0, if_true, this, Outcome.pure_eq, Outcome.ok_bind,
        hfreq, hb, henc] at hhdr ⊢
      rw [hhdr]
      exact ofC_withScan_ok hdr scan
    · have := hsel3 rfl h0
      subst this
      simp only [Bool.false_eq_true, if_false, h0, Outcome.pure_eq, Outcome.ok_bind,
        hfreq, hb, henc] at hhdr ⊢
      rw [hhdr]
      exact ofC_withScan_ok hdr scan
end JLL
