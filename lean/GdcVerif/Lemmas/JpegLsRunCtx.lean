import GdcVerif.Lemmas.JpegLsRunInt
/-!
  Run-interruption context invariants (generated `RunModeContext.UpdateVariables`, T.87 A.7.2
  code segment A.23) and the bound they give on the Golomb parameter of `GetGolombCode`
  (hand-modelled loop `JpegLsRun.golombLoop`): it never exceeds 31, so the hypothesis of
  `run_interruption_roundtrip` holds along every scan.
-/
namespace JpegLsRun
open Gen.JpegLs

/-- reachable run contexts: `1 ≤ N ≤ RESET ≤ 64`, `0 ≤ NN ≤ N`, `0 ≤ A ≤ 2^17·N` -/
def RunCtxInv (ctx : RunModeContext) (reset : Int) : Prop :=
  (ctx.runInterruptionType = 0 ∨ ctx.runInterruptionType = 1) ∧ (1 ≤ ctx.N ∧ ctx.N ≤ reset) ∧
  (0 ≤ ctx.NN ∧ ctx.NN ≤ ctx.N) ∧ (0 ≤ ctx.A ∧ ctx.A ≤ 131072 * ctx.N)

theorem updateVariables_inv (ctx : RunModeContext) (e em reset : Int) (h : RunCtxInv ctx reset)
    (hr : 2 ≤ reset) (hem : 0 ≤ em ∧ em ≤ 131072) :
    RunCtxInv (RunModeContext.UpdateVariables ctx e em reset) reset := by
  obtain ⟨hrit, hN, hNN, hA⟩ := h
  have sh : ∀ x : Int, Go.shr x 1 = x / 2 := fun x => by have := JpegLsLemmas.shr_eq x 1; simpa using this
  obtain ⟨rit, A, N, NN⟩ := ctx
  simp only at hrit hN hNN hA
  unfold RunModeContext.UpdateVariables RunCtxInv
  simp only [sh, decide_eq_true_eq, beq_iff_eq]
  repeat' split
  all_goals (simp only [] at *)
  all_goals (refine ⟨hrit, ?_, ?_, ?_⟩ <;> omega)

theorem newRunModeContext_inv (rit range : Int) (hrit : rit = 0 ∨ rit = 1) (hr : 2 ≤ range ∧ range ≤ 65536) :
    RunCtxInv (NewRunModeContext rit range) 64 := by
  unfold NewRunModeContext RunCtxInv
  simp only []
  rw [JpegLsLemmas.tdiv_nonneg_eq (by omega)]
  refine ⟨hrit, by omega, by omega, ?_⟩
  have : max (2 : Int) ((range + 32) / 64) ≤ 1025 := by omega
  omega

theorem golombLoop_le : ∀ (f : Nat) (n temp k : Int) (d : Nat), 0 ≤ n → temp ≤ n * 2 ^ d → d ≤ f → k + d ≤ 32 →
    golombLoop f n temp k ≤ k + d
  | 0, n, temp, k, d, _, ht, hd, _ => by
    have : d = 0 := by omega
    subst this; simp [golombLoop]
  | f + 1, n, temp, k, d, hn, ht, hd, hk => by
    unfold golombLoop
    split
    · rename_i hlt
      cases d with
      | zero => simp at ht; omega
      | succ d' =>
        simp only []
        have hk1 : ¬ (k + 1 > 32) := by omega
        simp only [hk1, if_false]
        have := golombLoop_le f (n * 2) temp (k + 1) d' (by omega) (by
          rw [Int.pow_succ] at ht
          have e : n * (2 ^ d' * 2) = n * 2 * 2 ^ d' := by
            rw [Int.mul_comm (2 ^ d') 2, Int.mul_assoc]
          rw [e] at ht; exact ht) (by omega) (by omega)
        omega
    · omega

/-- along every scan the Golomb parameter of a run-interruption context is at most 31 -/
theorem getGolombCode_le (ctx : RunModeContext) (reset : Int) (h : RunCtxInv ctx reset) (hr : reset ≤ 64) :
    getGolombCode ctx ≤ 31 := by
  obtain ⟨hrit, hN, hNN, hA⟩ := h
  unfold getGolombCode
  have sh : Go.shr ctx.N 1 = ctx.N / 2 := by have := JpegLsLemmas.shr_eq ctx.N 1; simpa using this
  rw [sh]
  have hb : ctx.A + ctx.N / 2 * ctx.runInterruptionType ≤ ctx.N * 2 ^ 31 := by
    have h31 : (2 : Int) ^ 31 = 2147483648 := by decide
    rw [h31]
    rcases hrit with h0 | h1
    · rw [h0]; omega
    · rw [h1]; omega
  have := golombLoop_le 40 ctx.N (ctx.A + ctx.N / 2 * ctx.runInterruptionType) 0 31 (by omega) hb (by decide) (by decide)
  omega

end JpegLsRun
