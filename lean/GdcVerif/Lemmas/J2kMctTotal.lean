import GdcVerif.Model.J2kMct
/-!
  C08: the decoder side of the Part-2 multi-component transform never indexes out of range
  (`Mct.transform … ≠ none` for every list of parsed MCT / MCC / MCO segments and every component count).
-/
namespace Mct

/-! ### mapO -/

theorem mapO_some {α β : Type} (f : α → Option β) (l : List α) (h : ∀ x ∈ l, ∃ y, f x = some y) :
    ∃ r, mapO f l = some r := by
  induction l with
  | nil => exact ⟨[], rfl⟩
  | cons x xs ih =>
    obtain ⟨y, hy⟩ := h x (List.mem_cons_self ..)
    obtain ⟨ys, hys⟩ := ih (fun z hz => h z (List.mem_cons_of_mem _ hz))
    exact ⟨y :: ys, by simp [mapO, hy, hys]⟩

theorem mapO_length {α β : Type} (f : α → Option β) (l : List α) (r : List β) (h : mapO f l = some r) :
    r.length = l.length := by
  induction l generalizing r with
  | nil => simp [mapO] at h; subst h; rfl
  | cons x xs ih =>
    simp only [mapO] at h
    cases hx : f x with
    | none => simp [hx] at h
    | some y =>
      cases hxs : mapO f xs with
      | none => simp [hx, hxs] at h
      | some ys =>
        simp [hx, hxs] at h
        subst h
        simp [ih ys hxs]

theorem mapO_mem {α β : Type} (f : α → Option β) (l : List α) (r : List β) (h : mapO f l = some r) :
    ∀ y ∈ r, ∃ x ∈ l, f x = some y := by
  induction l generalizing r with
  | nil => simp [mapO] at h; subst h; intro y hy; cases hy
  | cons x xs ih =>
    simp only [mapO] at h
    cases hx : f x with
    | none => simp [hx] at h
    | some y0 =>
      cases hxs : mapO f xs with
      | none => simp [hx, hxs] at h
      | some ys =>
        simp [hx, hxs] at h
        subst h
        intro y hy
        cases hy with
        | head => exact ⟨x, List.mem_cons_self .., hx⟩
        | tail _ hy' =>
          obtain ⟨z, hz, hfz⟩ := ih ys hxs y hy'
          exact ⟨z, List.mem_cons_of_mem _ hz, hfz⟩

/-! ### reading the arrays -/

def Square (m : Mat) (n : Nat) : Prop := m.length = n ∧ ∀ row ∈ m, row.length = n

theorem readRow_some (vals : List Int) (start comps : Nat) (h : start + comps ≤ vals.length) :
    ∃ r, readRow vals start comps = some r ∧ r.length = comps := by
  obtain ⟨r, hr⟩ := mapO_some (fun c => vals[start + c]?) (List.range comps) (by
    intro c hc
    have : c < comps := List.mem_range.mp hc
    exact ⟨vals[start + c]'(by omega), List.getElem?_eq_getElem (by omega)⟩)
  refine ⟨r, hr, ?_⟩
  have := mapO_length _ _ _ hr
  simpa using this

theorem readMatrix_some (vals : List Int) (comps : Nat) (h : comps * comps ≤ vals.length) :
    ∃ m, readMatrix vals comps = some m ∧ Square m comps := by
  have hrow : ∀ r ∈ List.range comps, ∃ y, readRow vals (r * comps) comps = some y := by
    intro r hr
    have hr' : r < comps := List.mem_range.mp hr
    have : (r + 1) * comps ≤ comps * comps := Nat.mul_le_mul_right comps hr'
    rw [Nat.succ_mul] at this
    obtain ⟨y, hy, _⟩ := readRow_some vals (r * comps) comps (by omega)
    exact ⟨y, hy⟩
  obtain ⟨m, hm⟩ := mapO_some _ _ hrow
  refine ⟨m, hm, ?_, ?_⟩
  · have := mapO_length _ _ _ hm
    simpa using this
  · intro row hrow'
    obtain ⟨r, hr, hfr⟩ := mapO_mem _ _ _ hm row hrow'
    have hr' : r < comps := List.mem_range.mp hr
    have : (r + 1) * comps ≤ comps * comps := Nat.mul_le_mul_right comps hr'
    rw [Nat.succ_mul] at this
    obtain ⟨y, hy, hl⟩ := readRow_some vals (r * comps) comps (by omega)
    rw [hy] at hfr
    cases hfr
    exact hl

/-- enough bytes for k elements means k complete elements -/
theorem elems_enough (s : MctSeg) (k : Nat) (hwf : s.WF) (hes : elemSize s.elemType ≠ 0)
    (h : ¬ s.dataLen < k * elemSize s.elemType) : k ≤ s.vals.length := by
  unfold MctSeg.dataLen at h
  unfold MctSeg.WF at hwf
  cases hwf with
  | inr h0 => exact absurd h0 hes
  | inl hp =>
    apply Classical.byContradiction
    intro hk
    have h1 : (s.vals.length + 1) * elemSize s.elemType ≤ k * elemSize s.elemType :=
      Nat.mul_le_mul_right _ (by omega)
    rw [Nat.succ_mul, Nat.mul_comm s.vals.length] at h1
    omega

theorem decodeMatrix_spec (s : MctSeg) (comps : Nat) (hwf : s.WF) :
    ∃ r, decodeMatrix s comps = some r ∧ ∀ m, r = some m → Square m comps := by
  unfold decodeMatrix
  simp only
  by_cases h1 : comps = 0 ∨ elemSize s.elemType = 0
  · rw [if_pos h1]; exact ⟨none, rfl, fun m hm => by cases hm⟩
  · rw [if_neg h1]
    by_cases h2 : s.dataLen < comps * comps * elemSize s.elemType
    · rw [if_pos h2]; exact ⟨none, rfl, fun m hm => by cases hm⟩
    · rw [if_neg h2]
      have hk := elems_enough s (comps * comps) hwf (fun h0 => h1 (Or.inr h0)) h2
      obtain ⟨m, hm, hsq⟩ := readMatrix_some s.vals comps hk
      rw [hm]
      exact ⟨some m, rfl, fun m' hm' => by cases hm'; exact hsq⟩

theorem decodeWithInts_spec (s : MctSeg) (comps : Nat) (hwf : s.WF) :
    ∃ f i, decodeWithInts s comps = some (f, i) ∧ (∀ m, f = some m → Square m comps) ∧ (∀ m, i = some m → Square m comps) := by
  obtain ⟨r, hr, hsq⟩ := decodeMatrix_spec s comps hwf
  unfold decodeWithInts
  rw [hr]
  simp only
  by_cases h : s.elemType = 0 ∨ s.elemType = 1
  · rw [if_pos h]; exact ⟨r, r, rfl, hsq, hsq⟩
  · rw [if_neg h]; exact ⟨r, none, rfl, hsq, fun m hm => by cases hm⟩

theorem decodeOffsets_total (s : MctSeg) (comps : Nat) (hwf : s.WF) : ∃ r, decodeOffsets s comps = some r := by
  unfold decodeOffsets
  simp only
  by_cases h1 : comps = 0 ∨ elemSize s.elemType = 0
  · rw [if_pos h1]; exact ⟨none, rfl⟩
  · rw [if_neg h1]
    by_cases h2 : s.dataLen < comps * elemSize s.elemType
    · rw [if_pos h2]; exact ⟨none, rfl⟩
    · rw [if_neg h2]
      have hk := elems_enough s comps hwf (fun h0 => h1 (Or.inr h0)) h2
      obtain ⟨o, ho, _⟩ := readRow_some s.vals 0 comps (by omega)
      rw [ho]
      exact ⟨some o, rfl⟩

/-! ### bindings -/

/-- what `extractBindings` guarantees about every binding it stores -/
def BindOK (components : Nat) (b : Binding) : Prop :=
  (∀ id ∈ b.ids, id < components) ∧
  (∀ m, b.matF = some m → Square m b.ids.length) ∧
  (∀ m, b.matI = some m → Square m b.ids.length)

theorem lastMct_mem (l : List MctSeg) (idx : Nat) (s : MctSeg) (h : lastMct l idx = some s) : s ∈ l := by
  unfold lastMct at h
  have := List.mem_of_find?_eq_some h
  simpa using this

theorem lookupMats_spec (cs : Cs) (decorr n : Nat) (hwf : ∀ s ∈ cs.mct, s.WF) :
    ∃ f i, lookupMats cs decorr n = some (f, i) ∧ (∀ m, f = some m → Square m n) ∧ (∀ m, i = some m → Square m n) := by
  have nn : ∃ f i, (some (none, none) : Option (Option Mat × Option Mat)) = some (f, i) ∧
      (∀ m, f = some m → Square m n) ∧ (∀ m, i = some m → Square m n) :=
    ⟨none, none, rfl, (fun m hm => by cases hm), (fun m hm => by cases hm)⟩
  unfold lookupMats
  by_cases hd : decorr ≠ 0
  · rw [if_pos hd]
    cases hl : lastMct cs.mct decorr with
    | none => exact nn
    | some m =>
      simp only
      by_cases ha : m.arrayType = 1
      · rw [if_pos ha]; exact decodeWithInts_spec m n (hwf m (lastMct_mem _ _ _ hl))
      · rw [if_neg ha]; exact nn
  · rw [if_neg hd]; exact nn

theorem lookupOffs_total (cs : Cs) (offs n : Nat) (hwf : ∀ s ∈ cs.mct, s.WF) : ∃ o, lookupOffs cs offs n = some o := by
  unfold lookupOffs
  by_cases hd : offs ≠ 0
  · rw [if_pos hd]
    cases hl : lastMct cs.mct offs with
    | none => exact ⟨none, rfl⟩
    | some m =>
      simp only
      by_cases ha : m.arrayType = 2
      · rw [if_pos ha]; exact decodeOffsets_total m n (hwf m (lastMct_mem _ _ _ hl))
      · rw [if_neg ha]; exact ⟨none, rfl⟩
  · rw [if_neg hd]; exact ⟨none, rfl⟩

theorem mkBinding_spec (cs : Cs) (components idx : Nat) (hwf : ∀ s ∈ cs.mct, s.WF) :
    ∃ r, mkBinding cs components idx = some r ∧ ∀ b, r = some b → BindOK components b := by
  have skip : ∃ r, (some none : Option (Option Binding)) = some r ∧ ∀ b, r = some b → BindOK components b :=
    ⟨none, rfl, fun b hb => by cases hb⟩
  unfold mkBinding
  cases hm : lastMcc cs.mcc idx with
  | none => exact skip
  | some seg =>
    simp only
    by_cases h1 : seg.collType ≠ 0 ∧ seg.collType ≠ 1
    · rw [if_pos h1]; exact skip
    · rw [if_neg h1]
      generalize hids : (if seg.compIDs.isEmpty = true ∧ seg.numComps > 0 then List.range seg.numComps else seg.compIDs) = ids
      by_cases h2 : ¬ seg.outIDs.isEmpty = true ∧ seg.outIDs ≠ ids
      · rw [if_pos h2]; exact skip
      · rw [if_neg h2]
        by_cases h3 : ids.isEmpty = true
        · rw [if_pos h3]; exact skip
        · rw [if_neg h3]
          by_cases h4 : (ids.any fun id => decide (id ≥ components)) = true
          · rw [if_pos h4]; exact skip
          · rw [if_neg h4]
            have hin : ∀ id ∈ ids, id < components := by
              intro id hid
              apply Classical.byContradiction
              intro hge
              exact h4 (List.any_eq_true.mpr ⟨id, hid, by simp; omega⟩)
            have hmats := lookupMats_spec cs seg.decorr ids.length hwf
            have hoffs := lookupOffs_total cs seg.offs ids.length hwf
            obtain ⟨f, i, hfi, hsf, hsi⟩ := hmats
            obtain ⟨o, ho⟩ := hoffs
            rw [hfi, ho]
            simp only
            by_cases h5 : f.isNone = true ∧ i.isNone = true ∧ o.isNone = true
            · rw [if_pos h5]; exact skip
            · rw [if_neg h5]
              exact ⟨_, rfl, fun b hb => by cases hb; exact ⟨hin, hsf, hsi⟩⟩

theorem extract_spec (cs : Cs) (components : Nat) (hwf : ∀ s ∈ cs.mct, s.WF) :
    ∃ bs, extract cs components = some bs ∧ ∀ b ∈ bs, BindOK components b := by
  unfold extract
  by_cases h : cs.mcc.isEmpty = true
  · rw [if_pos h]; exact ⟨[], rfl, fun b hb => by cases hb⟩
  · rw [if_neg h]
    obtain ⟨r, hr⟩ := mapO_some (mkBinding cs components) (stageOrder cs)
      (fun idx _ => by obtain ⟨r, hr, _⟩ := mkBinding_spec cs components idx hwf; exact ⟨r, hr⟩)
    rw [hr]
    refine ⟨_, rfl, ?_⟩
    intro b hb
    have hb' : some b ∈ r := by
      have := List.mem_filterMap.mp hb
      obtain ⟨a, ha, hab⟩ := this
      have hab' : a = some b := hab
      subst hab'
      exact ha
    obtain ⟨idx, _, hidx⟩ := mapO_mem _ _ _ hr (some b) hb'
    obtain ⟨r', hr', hok⟩ := mkBinding_spec cs components idx hwf
    rw [hr'] at hidx
    cases hidx
    exact hok b rfl

/-! ### application -/

theorem getC_some (v : List Int) (ids : List Nat) (k : Nat) (hk : k < ids.length) (hin : ∀ id ∈ ids, id < v.length) :
    ∃ x, getC v ids k = some x := by
  unfold getC
  rw [List.getElem?_eq_getElem hk]
  simp only
  have : ids[k] < v.length := hin _ (List.getElem_mem hk)
  exact ⟨v[ids[k]], List.getElem?_eq_getElem this⟩

theorem dot_some (row : List Int) (ids : List Nat) (v : List Int) (c : Nat) (hrow : c ≤ row.length) (hc : c ≤ ids.length)
    (hin : ∀ id ∈ ids, id < v.length) : ∃ s, dot row ids v c = some s := by
  unfold dot
  obtain ⟨ts, hts⟩ := mapO_some (term row ids v) (List.range c) (by
    intro kk hkk
    have hk : kk < c := List.mem_range.mp hkk
    obtain ⟨x, hx⟩ := getC_some v ids kk (by omega) hin
    unfold term
    rw [List.getElem?_eq_getElem (show kk < row.length by omega), hx]
    exact ⟨_, rfl⟩)
  rw [hts]
  exact ⟨_, rfl⟩

theorem setC_some (v : List Int) (cid : Nat) (x : Int) (h : cid < v.length) :
    ∃ v', setC v cid x = some v' ∧ v'.length = v.length := by
  unfold setC
  rw [if_pos h]
  exact ⟨_, rfl, by simp⟩

theorem writeBack_some (out : List Int) (ids : List Nat) (rr : Nat) (v : List Int)
    (h : rr + out.length ≤ ids.length) (hin : ∀ id ∈ ids, id < v.length) :
    ∃ v', writeBack out ids rr v = some v' ∧ v'.length = v.length := by
  induction out generalizing rr v with
  | nil => exact ⟨v, rfl, rfl⟩
  | cons x xs ih =>
    simp only [List.length_cons] at h
    unfold writeBack
    rw [List.getElem?_eq_getElem (show rr < ids.length by omega)]
    simp only
    obtain ⟨v', hv', hl⟩ := setC_some v ids[rr] x (hin _ (List.getElem_mem _))
    rw [hv']
    simp only
    obtain ⟨v'', hv'', hl'⟩ := ih (rr + 1) v' (by omega) (by rw [hl]; exact hin)
    exact ⟨v'', hv'', by rw [hl', hl]⟩

theorem applyMat_some (m : Mat) (ids : List Nat) (v : List Int) (wrap : Bool)
    (hsq : Square m ids.length) (hne : ids ≠ []) (hin : ∀ id ∈ ids, id < v.length) :
    ∃ v', applyMat m ids v wrap = some v' ∧ v'.length = v.length := by
  obtain ⟨hlen, hrows⟩ := hsq
  have hpos : 0 < ids.length := List.length_pos_iff.mpr hne
  unfold applyMat
  rw [List.getElem?_eq_getElem (show 0 < m.length by omega)]
  simp only
  have h0 : (m[0]'(by omega)).length = ids.length := hrows _ (List.getElem_mem _)
  obtain ⟨out, hout⟩ := mapO_some (fun row => dot row ids v (m[0]'(by omega)).length) m (by
    intro row hrow
    rw [h0]
    exact dot_some row ids v ids.length (by rw [hrows row hrow]; exact Nat.le_refl _) (Nat.le_refl _) hin)
  rw [hout]
  simp only
  have hol : out.length = m.length := mapO_length _ _ _ hout
  apply writeBack_some
  · cases wrap <;> simp <;> omega
  · exact hin

theorem addOffsets_some (o : List Int) (ids : List Nat) (idx : Nat) (v : List Int)
    (h : idx + ids.length ≤ o.length) (hin : ∀ id ∈ ids, id < v.length) :
    ∃ v', addOffsets o ids idx v = some v' ∧ v'.length = v.length := by
  induction ids generalizing idx v with
  | nil => exact ⟨v, rfl, rfl⟩
  | cons cid rest ih =>
    simp only [List.length_cons] at h
    unfold addOffsets
    rw [List.getElem?_eq_getElem (show idx < o.length by omega)]
    simp only
    have hrest : ∀ id ∈ rest, id < v.length := fun id hid => hin id (List.mem_cons_of_mem _ hid)
    by_cases h0 : o[idx] = 0
    · rw [if_pos h0]; exact ih (idx + 1) v (by omega) hrest
    · rw [if_neg h0]
      have hc : cid < v.length := hin cid (List.mem_cons_self ..)
      rw [List.getElem?_eq_getElem hc]
      simp only
      obtain ⟨v', hv', hl⟩ := setC_some v cid (wrap32 (v[cid] + o[idx])) hc
      rw [hv']
      simp only
      obtain ⟨v'', hv'', hl'⟩ := ih (idx + 1) v' (by omega) (by rw [hl]; exact hrest)
      exact ⟨v'', hv'', by rw [hl', hl]⟩

theorem applyOffsets_some (b : Binding) (v : List Int) (hin : ∀ id ∈ b.ids, id < v.length) :
    ∃ v', applyOffsets b v = some v' ∧ v'.length = v.length := by
  unfold applyOffsets
  cases ho : b.offsets with
  | none => exact ⟨v, rfl, rfl⟩
  | some o =>
    simp only
    by_cases hl : o.length = b.ids.length
    · rw [if_pos hl]; exact addOffsets_some o b.ids 0 v (by omega) hin
    · rw [if_neg hl]; exact ⟨v, rfl, rfl⟩

theorem applyBinding_some (components : Nat) (b : Binding) (v : List Int) (hb : BindOK components b)
    (hv : v.length = components) : ∃ v', applyBinding b v = some v' ∧ v'.length = v.length := by
  obtain ⟨hin, hf, hi⟩ := hb
  have hin' : ∀ id ∈ b.ids, id < v.length := by rw [hv]; exact hin
  unfold applyBinding
  by_cases he : b.ids.isEmpty = true
  · rw [if_pos he]; exact ⟨v, rfl, rfl⟩
  · rw [if_neg he]
    have hne : b.ids ≠ [] := by
      intro h0; rw [h0] at he; exact he rfl
    have hv1 : ∃ v1, matStep b v = some v1 ∧ v1.length = v.length := by
      unfold matStep
      by_cases hu : useInt b = true
      · rw [if_pos hu]
        cases hmI : b.matI with
        | none => exact ⟨v, rfl, rfl⟩
        | some m => exact applyMat_some m b.ids v true (hi m hmI) hne hin'
      · rw [if_neg hu]
        cases hmF : b.matF with
        | none => exact ⟨v, rfl, rfl⟩
        | some m =>
          simp only
          by_cases hl : m.length = b.ids.length
          · rw [if_pos hl]; exact applyMat_some m b.ids v false (hf m hmF) hne hin'
          · rw [if_neg hl]; exact ⟨v, rfl, rfl⟩
    obtain ⟨v1, hv1e, hl1⟩ := hv1
    simp only [hv1e]
    obtain ⟨v2, hv2, hl2⟩ := applyOffsets_some b v1 (by rw [hl1]; exact hin')
    exact ⟨v2, hv2, by rw [hl2, hl1]⟩

theorem applyBindings_some (components : Nat) (bs : List Binding) (v : List Int)
    (hb : ∀ b ∈ bs, BindOK components b) (hv : v.length = components) :
    ∃ v', applyBindings bs v = some v' ∧ v'.length = v.length := by
  induction bs generalizing v with
  | nil => exact ⟨v, rfl, rfl⟩
  | cons b rest ih =>
    unfold applyBindings
    obtain ⟨v1, hv1, hl1⟩ := applyBinding_some components b v (hb b (List.mem_cons_self ..)) hv
    rw [hv1]
    simp only
    obtain ⟨v2, hv2, hl2⟩ := ih v1 (fun b' hb' => hb b' (List.mem_cons_of_mem _ hb')) (by rw [hl1, hv])
    exact ⟨v2, hv2, by rw [hl2, hl1]⟩

/-! ### legacy matrix -/

theorem legacyInv_spec (mct : List MctSeg) (components : Nat) (hwf : ∀ s ∈ mct, s.WF) :
    ∃ r, legacyInv mct components = some r ∧ ∀ m, r = some m → Square m components := by
  induction mct with
  | nil => exact ⟨none, rfl, fun m hm => by cases hm⟩
  | cons s rest ih =>
    have ih' := ih (fun s' hs' => hwf s' (List.mem_cons_of_mem _ hs'))
    unfold legacyInv
    by_cases ha : s.arrayType = 1
    · rw [if_pos ha]
      obtain ⟨r, hr, hsq⟩ := decodeMatrix_spec s components (hwf s (List.mem_cons_self ..))
      rw [hr]
      cases r with
      | none => exact ih'
      | some m => exact ⟨some m, rfl, hsq⟩
    · rw [if_neg ha]; exact ih'

theorem legacyOffs_total (mct : List MctSeg) (components : Nat) (hwf : ∀ s ∈ mct, s.WF) :
    ∃ r, legacyOffs mct components = some r := by
  induction mct with
  | nil => exact ⟨none, rfl⟩
  | cons s rest ih =>
    have ih' := ih (fun s' hs' => hwf s' (List.mem_cons_of_mem _ hs'))
    unfold legacyOffs
    by_cases ha : s.arrayType = 2
    · rw [if_pos ha]
      obtain ⟨r, hr⟩ := decodeOffsets_total s components (hwf s (List.mem_cons_self ..))
      rw [hr]
      cases r with
      | none => exact ih'
      | some o => exact ⟨some o, rfl⟩
    · rw [if_neg ha]; exact ih'

theorem applyCustom_some (inv : Mat) (offs : Option (List Int)) (components : Nat) (v : List Int)
    (hsq : Square inv components) (hv : v.length = components) :
    ∃ v', applyCustom inv offs components v = some v' := by
  obtain ⟨hlen, hrows⟩ := hsq
  have hin : ∀ id ∈ List.range components, id < v.length := by
    intro id hid; rw [hv]; exact List.mem_range.mp hid
  unfold applyCustom
  simp only
  obtain ⟨out, hout⟩ := mapO_some (customRow inv components v) (List.range components) (by
    intro r hr
    have hr' : r < inv.length := by rw [hlen]; exact List.mem_range.mp hr
    unfold customRow
    rw [List.getElem?_eq_getElem hr']
    simp only
    exact dot_some _ _ v components (by rw [hrows _ (List.getElem_mem _)]; exact Nat.le_refl _) (by simp) hin)
  rw [hout]
  simp only
  have hol : out.length = components := by
    have := mapO_length _ _ _ hout
    simpa using this
  cases offs with
  | none => exact ⟨out, rfl⟩
  | some o =>
    simp only
    by_cases hl : o.length = components
    · rw [if_pos hl]
      obtain ⟨v', hv', _⟩ := addOffsets_some o (List.range components) 0 out (by simp; omega)
        (by intro id hid; rw [hol]; exact List.mem_range.mp hid)
      exact ⟨v', hv'⟩
    · rw [if_neg hl]; exact ⟨out, rfl⟩

/-- **No index of the decoder-side Part-2 transform is out of range**: for every list of parsed
    MCT / MCC / MCO segments, every component count and every image with that many planes. -/
theorem transform_total (cs : Cs) (components : Nat) (v : List Int) (hwf : ∀ s ∈ cs.mct, s.WF)
    (hv : v.length = components) : ∃ v', transform cs components v = some v' := by
  obtain ⟨bs, hbs, hok⟩ := extract_spec cs components hwf
  unfold transform
  rw [hbs]
  simp only
  by_cases he : ¬ bs.isEmpty = true
  · rw [if_pos he]
    obtain ⟨v', hv', _⟩ := applyBindings_some components bs v hok hv
    exact ⟨v', hv'⟩
  · rw [if_neg he]
    by_cases hl : cs.mcc.isEmpty = true ∧ ¬ cs.mct.isEmpty = true ∧ components > 0
    · rw [if_pos hl]
      obtain ⟨inv, hinv, hsq⟩ := legacyInv_spec cs.mct components hwf
      obtain ⟨offs, hoffs⟩ := legacyOffs_total cs.mct components hwf
      rw [hinv, hoffs]
      simp only
      cases inv with
      | none => exact ⟨v, rfl⟩
      | some m =>
        simp only
        by_cases hm : m.length = components
        · rw [if_pos hm]; exact applyCustom_some m offs components v (hsq m rfl) hv
        · rw [if_neg hm]; exact ⟨v, rfl⟩
    · rw [if_neg hl]; exact ⟨v, rfl⟩

end Mct
