import GdcVerif.Gen.JpegLs
import GdcVerif.Lemmas.JpegLs
import GdcVerif.Lemmas.JpegLsNear
import GdcVerif.Spec.T87
/-! Generated JPEG-LS kernels vs the independent T.87 transcription (`Spec/T87.lean`). -/
namespace JpegLsT87
open Gen.JpegLs JpegLsLemmas JpegLsNear

/-- `bitsLen` (hand model of the Go loop) is T.87's ⌈log2⌉ (via `Nat.log2`) on 2..2^63 -/
theorem ceilLog2_eq_bitsLen (n : Int) (h2 : 2 ≤ n) (hn : n ≤ 2 ^ 63) :
    ((T87.ceilLog2 n.toNat : Nat) : Int) = JpegLsBits.bitsLen n := by
  obtain ⟨j, hj, hj1, hlo, hhi⟩ := JpegLsBits.bitsLen_spec n h2 hn
  rw [hj]
  unfold T87.ceilLog2
  have hnn : ¬ n.toNat ≤ 1 := by omega
  simp only [hnn, if_false]
  have hm : n.toNat - 1 ≠ 0 := by omega
  -- c = log2 (n-1) + 1 satisfies 2^(c-1) ≤ n-1 < 2^c
  have h1 : 2 ^ (Nat.log2 (n.toNat - 1)) ≤ n.toNat - 1 := Nat.log2_self_le hm
  have h2' : n.toNat - 1 < 2 ^ (Nat.log2 (n.toNat - 1) + 1) := Nat.lt_log2_self
  generalize Nat.log2 (n.toNat - 1) = c at *
  -- transfer the bounds on j to Nat
  have hloN : 2 ^ (j - 1) < n.toNat := by
    have : ((2 ^ (j - 1) : Nat) : Int) < ((n.toNat : Nat) : Int) := by
      have e : ((2 ^ (j - 1) : Nat) : Int) = (2 : Int) ^ (j - 1) := by simp
      rw [e]; omega
    exact Int.ofNat_lt.mp this
  have hhiN : n.toNat ≤ 2 ^ j := by
    have : ((n.toNat : Nat) : Int) ≤ ((2 ^ j : Nat) : Int) := by
      have e : ((2 ^ j : Nat) : Int) = (2 : Int) ^ j := by simp
      rw [e]; omega
    exact Int.ofNat_le.mp this
  have : c + 1 = j := by
    by_cases hlt : c + 1 < j
    · have : 2 ^ (c + 1) ≤ 2 ^ (j - 1) := Nat.pow_le_pow_right (by decide) (by omega)
      omega
    · by_cases hgt : j < c + 1
      · have : 2 ^ j ≤ 2 ^ c := Nat.pow_le_pow_right (by decide) (by omega)
        omega
      · omega
  omega

theorem clamp_eq_CLAMP (i j M : Int) (h : i ≤ M) : clamp i j M = T87.CLAMP i j M := by
  unfold clamp T87.CLAMP
  have h2 : ¬ i > M := by omega
  by_cases h1 : i < j <;> simp [h1, h2]

/-- the generated `computeThresholds` evaluates the Table C.3 expressions (`rawT`) through its own clamp -/
theorem computeThresholds_raw (M N : Int) :
    computeThresholds M N =
      (clamp (T87.rawT M N).1 (N + 1) M,
       clamp (T87.rawT M N).2.1 (clamp (T87.rawT M N).1 (N + 1) M) M,
       clamp (T87.rawT M N).2.2 (clamp (T87.rawT M N).2.1 (clamp (T87.rawT M N).1 (N + 1) M) M) M) := by
  unfold computeThresholds T87.rawT T87.BASIC_T1 T87.BASIC_T2 T87.BASIC_T3
  simp only [decide_eq_true_eq]
  by_cases h : M ≥ 128
  · simp only [h, if_true]
    have hpos : (0 : Int) ≤ min M 4095 + 128 := by omega
    rw [tdiv_nonneg_eq hpos]
  · simp only [h, if_false]
    by_cases hm : 0 ≤ M + 1
    · have e0 : Int.tdiv 256 (M + 1) = 256 / (M + 1) := tdiv_nonneg_eq (by decide)
      rw [e0, tdiv_nonneg_eq (by decide : (0:Int) ≤ 3), tdiv_nonneg_eq (by decide : (0:Int) ≤ 7),
        tdiv_nonneg_eq (by decide : (0:Int) ≤ 21)]
    · have e0 : Int.tdiv 256 (M + 1) = 256 / (M + 1) := tdiv_nonneg_eq (by decide)
      rw [e0, tdiv_nonneg_eq (by decide : (0:Int) ≤ 3), tdiv_nonneg_eq (by decide : (0:Int) ≤ 7),
        tdiv_nonneg_eq (by decide : (0:Int) ≤ 21)]

end JpegLsT87

namespace JpegLsT87
open Gen.JpegLs JpegLsLemmas JpegLsNear

theorem ceilLog2_pow (P : Nat) (h : 2 ≤ P ∧ P ≤ 16) : T87.ceilLog2 ((2 : Int) ^ P - 1 + 1).toNat = P := by
  have : P = 2 ∨ P = 3 ∨ P = 4 ∨ P = 5 ∨ P = 6 ∨ P = 7 ∨ P = 8 ∨ P = 9 ∨ P = 10 ∨ P = 11 ∨ P = 12 ∨
      P = 13 ∨ P = 14 ∨ P = 15 ∨ P = 16 := by omega
  rcases this with rfl | rfl | rfl | rfl | rfl | rfl | rfl | rfl | rfl | rfl | rfl | rfl | rfl | rfl | rfl <;> decide

/-- RANGE, qbpp, LIMIT, RESET of the code equal T.87 A.2.1 / C.2.4.1.1 for every admissible (P, NEAR) -/
theorem range_qbpp_limit_eq (P : Nat) (N : Int) (h : Admissible P N) :
    (T87.defaults ((2 : Int) ^ P - 1) N).RANGE = (traits P N).Range ∧
    (T87.defaults ((2 : Int) ^ P - 1) N).qbpp = (traits P N).Qbpp ∧
    (T87.defaults ((2 : Int) ^ P - 1) N).LIMIT = (traits P N).Limit ∧
    (T87.defaults ((2 : Int) ^ P - 1) N).RESET = (traits P N).Reset := by
  obtain ⟨hM, _, hR, _, ⟨q, hQ, hq1, hqP, hq3, hq4⟩, _, hL, _, hReset⟩ := near_params_wf P N h
  rw [hM] at hR
  have f := cp_fields ((2 : Int) ^ P - 1) N 64
  have hRd : (T87.defaults ((2 : Int) ^ P - 1) N).RANGE = ((2 : Int) ^ P - 1 + 2 * N) / (2 * N + 1) + 1 := rfl
  have hRange : (T87.defaults ((2 : Int) ^ P - 1) N).RANGE = (traits P N).Range := by rw [hRd, hR]
  have hR2 : 2 ≤ (traits P N).Range := (newTraits_wf P N h.1 ⟨h.2.1, h.2.2.2⟩ 64).range_ge
  have hR63 : (traits P N).Range ≤ 2 ^ 63 := by
    have h1 : (2 : Int) ^ q ≤ 2 ^ 63 := two_pow_mono (by have := h.1; omega)
    omega
  refine ⟨hRange, ?_, ?_, ?_⟩
  · have : (T87.defaults ((2 : Int) ^ P - 1) N).qbpp
        = ((T87.ceilLog2 (T87.defaults ((2 : Int) ^ P - 1) N).RANGE.toNat : Nat) : Int) := rfl
    rw [this, hRange, ceilLog2_eq_bitsLen _ hR2 hR63]
    exact f.2.1.symm
  · have hb : (T87.defaults ((2 : Int) ^ P - 1) N).LIMIT =
        2 * (max 2 ((T87.ceilLog2 ((2 : Int) ^ P - 1 + 1).toNat : Nat) : Int) +
          max 8 (max 2 ((T87.ceilLog2 ((2 : Int) ^ P - 1 + 1).toNat : Nat) : Int))) := rfl
    rw [hb, ceilLog2_pow P h.1, hL]
    have := h.1
    omega
  · rw [hReset]; rfl

/-- thresholds: equal to T.87 whenever no Table C.3 expression exceeds MAXVAL -/
theorem thresholds_eq_of_no_overflow (P : Nat) (N : Int) (_h : Admissible P N)
    (hov : (T87.rawT ((2 : Int) ^ P - 1) N).1 ≤ (2 : Int) ^ P - 1 ∧
           (T87.rawT ((2 : Int) ^ P - 1) N).2.1 ≤ (2 : Int) ^ P - 1 ∧
           (T87.rawT ((2 : Int) ^ P - 1) N).2.2 ≤ (2 : Int) ^ P - 1) :
    (T87.defaults ((2 : Int) ^ P - 1) N).T1 = (traits P N).T1 ∧
    (T87.defaults ((2 : Int) ^ P - 1) N).T2 = (traits P N).T2 ∧
    (T87.defaults ((2 : Int) ^ P - 1) N).T3 = (traits P N).T3 := by
  have f := (cp_fields ((2 : Int) ^ P - 1) N 64).2.2.2.1
  rw [computeThresholds_raw] at f
  have hT1 : (traits P N).T1 = _ := congrArg Prod.fst f
  have hT2 : (traits P N).T2 = _ := congrArg (fun p => p.2.1) f
  have hT3 : (traits P N).T3 = _ := congrArg (fun p => p.2.2) f
  simp only at hT1 hT2 hT3
  rw [hT1, hT2, hT3]
  rw [clamp_eq_CLAMP _ _ _ hov.1, clamp_eq_CLAMP _ _ _ hov.2.1, clamp_eq_CLAMP _ _ _ hov.2.2]
  exact ⟨rfl, rfl, rfl⟩

end JpegLsT87

namespace JpegLsT87
open Gen.JpegLs JpegLsLemmas JpegLsNear

/-- the spec parameter record that corresponds to a `Traits` value -/
def specOf (t : Traits) : T87.Params :=
  { MAXVAL := t.MaxVal, NEAR := t.Near, RANGE := t.Range, qbpp := t.Qbpp, bpp := 0, LIMIT := t.Limit,
    T1 := t.T1, T2 := t.T2, T3 := t.T3, RESET := t.Reset }

theorem predict_eq (a b c : Int) : Predict a b c = T87.med a b c := by
  unfold Predict T87.med; simp only [decide_eq_true_eq]

theorem quantizeGradient_eq (t : Traits) (d : Int) :
    Traits.QuantizeGradient t d = T87.quantizeGradient (specOf t) d := by
  unfold Traits.QuantizeGradient T87.quantizeGradient specOf; simp only [decide_eq_true_eq]

theorem gq_quantizeGradient_eq (t : Traits) (d : Int) :
    GradientQuantizer.quantizeGradient { T1 := t.T1, T2 := t.T2, T3 := t.T3, Near := t.Near } d =
      T87.quantizeGradient (specOf t) d := by
  unfold GradientQuantizer.quantizeGradient T87.quantizeGradient specOf; simp only [decide_eq_true_eq]

theorem moduloRange_eq (t : Traits) (e : Int) (hR : 0 ≤ t.Range + 1) :
    Traits.ModuloRange t e = T87.moduloReduce (specOf t) e := by
  unfold Traits.ModuloRange T87.moduloReduce specOf
  simp only [decide_eq_true_eq]
  rw [tdiv_nonneg_eq hR]

/-- reconstruction: the code's `ComputeReconstructedSample` (with its `& MaxVal` shortcut for
    NEAR = 0) equals T.87's single modulo step + clamp, for every prediction in range and every
    error value of magnitude ≤ RANGE -/
theorem reconstruct_eq (h : WF t P) (Px e : Int) (hPx : 0 ≤ Px ∧ Px ≤ t.MaxVal)
    (he : -t.Range ≤ e ∧ e ≤ t.Range) :
    Traits.ComputeReconstructedSample t Px e = T87.reconstruct (specOf t) Px e := by
  have hP62 : P ≤ 62 := by have := h.hP; omega
  unfold Traits.ComputeReconstructedSample Traits.dequantize Traits.fixReconstructedValue T87.reconstruct specOf
  have hp2 : (Go.and (t.MaxVal + 1) t.MaxVal == 0) = true := by
    rw [h.hM, range_pow2 P hP62]; rfl
  simp only [hp2, Bool.and_true, decide_eq_true_eq]
  by_cases h0 : t.Near = 0
  · have hR := h.range_lossless h0
    simp only [h0, beq_self_eq_true, if_true, Int.mul_zero, Int.zero_add, Int.mul_one, Int.neg_zero, Int.add_zero]
    rw [h.hM, Go.and_mask _ P hP62]
    rw [hR, h.hM] at he
    rw [hR, h.hM]
    rw [h.hM] at hPx
    have e1 : (2 : Int) ^ P - 1 + 1 = 2 ^ P := by omega
    rw [e1] at he ⊢
    have hpos : (0 : Int) < 2 ^ P := Int.pow_pos (by decide)
    generalize (2 : Int) ^ P = R at *
    by_cases c1 : Px + e < 0
    · have : (Px + e) % R = Px + e + R := by
        rw [← Int.add_emod_right]; exact Int.emod_eq_of_lt (by omega) (by omega)
      simp only [c1, if_true, this]
      split
      · omega
      · split <;> omega
    · by_cases c2 : Px + e > R - 1
      · have : (Px + e) % R = Px + e - R := by
          rw [← Int.sub_emod_right]; exact Int.emod_eq_of_lt (by omega) (by omega)
        simp only [c1, c2, if_true, if_false, this]
        split
        · omega
        · split <;> omega
      · have : (Px + e) % R = Px + e := Int.emod_eq_of_lt (by omega) (by omega)
        simp only [c1, c2, if_false, this]
  · have hb : (t.Near == 0) = false := by simpa using h0
    simp only [hb, Bool.false_eq_true, if_false]
    rw [correctPrediction_clamp t P hP62 h.hM]

/-- error un-mapping incl. the k = 0 correction: `UnmapErrorValue m ^ corr` with
    `corr = GetErrorCorrection` (−1 exactly in T.87's special case) equals A.5.2 read backwards -/
theorem unmap_eq (ctx : Context) (k near m : Int) (hm : 0 ≤ m ∧ m < 4294967296) :
    Go.xor (UnmapErrorValue m) (Context.GetErrorCorrection ctx k near) =
      T87.unmapErrval (decide (near = 0 ∧ k = 0 ∧ 2 * ctx.B ≤ -ctx.N)) m := by
  rw [unmap_spec m hm]
  unfold Context.GetErrorCorrection T87.unmapErrval
  by_cases hk : k = 0 <;> by_cases hn : near = 0
  · subst hk; subst hn
    simp only [bne_self_eq_false, Bool.or_self, Bool.false_eq_true, if_false, decide_eq_true_eq, true_and]
    by_cases hb : 2 * ctx.B + ctx.N - 1 < 0
    · have hs : 2 * ctx.B ≤ -ctx.N := by omega
      simp only [hb, hs, if_true]
      have hI : ∀ x : Int, -4294967296 ≤ x ∧ x ≤ 4294967296 → Go.I64 x := by
        intro x hx; unfold Go.I64; omega
      split
      · rw [Go.xor_neg_one _ (hI _ (by omega))]; split <;> omega
      · rw [Go.xor_neg_one _ (hI _ (by omega))]; split <;> omega
    · have hs : ¬ 2 * ctx.B ≤ -ctx.N := by omega
      simp only [hb, hs, if_false]
      have hI : ∀ x : Int, -4294967296 ≤ x ∧ x ≤ 4294967296 → Go.I64 x := by
        intro x hx; unfold Go.I64; omega
      split <;> rw [Go.xor_zero _ (hI _ (by omega))]
  all_goals
    have hI : ∀ x : Int, -4294967296 ≤ x ∧ x ≤ 4294967296 → Go.I64 x := by
      intro x hx; unfold Go.I64; omega
    simp [hk, hn]
    split <;> rw [Go.xor_zero _ (hI _ (by omega))]

end JpegLsT87
