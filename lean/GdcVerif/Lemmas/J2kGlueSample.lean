import GdcVerif.Lemmas.J2kSample
/-! the encoder's front end on one sample of the container: value after convertPixelData + applyDCLevelShift -/
namespace J2k

/-- convertPixelData + applyDCLevelShift on the container bytes of an in-range sample -/
def frontSample (P : Int) (signed : Bool) (s : Int) : Int :=
  let c := container P s
  dcShift P signed (readSample P signed c.1 c.2)

theorem frontSample_eq (P : Int) (signed : Bool) (s : Int) (hP1 : 1 ≤ P) (hP2 : P ≤ 16) (hr : inRange P signed s) :
    frontSample P signed s = if signed then s else s - 2 ^ (P.toNat - 1) := by
  have hk1 : 1 ≤ P.toNat := by omega
  have hM2 : (2 : Int) ^ P.toNat = 2 * 2 ^ (P.toNat - 1) := by
    have : P.toNat = (P.toNat - 1) + 1 := by omega
    rw [this, Int.pow_succ]; simp; omega
  have hHfpos : (0 : Int) < 2 ^ (P.toNat - 1) := Int.pow_pos (by decide)
  have hMle : (2 : Int) ^ P.toNat ≤ 65536 := by
    have : (2 : Int) ^ P.toNat ≤ 2 ^ 16 := two_pow_le _ _ (by omega)
    simpa using this
  have hM8 : P ≤ 8 → (2 : Int) ^ P.toNat ≤ 256 := by
    intro h
    have : (2 : Int) ^ P.toNat ≤ 2 ^ 8 := two_pow_le _ _ (by omega)
    simpa using this
  have hsh1 : Go.shl 1 (P - 1) = 2 ^ (P.toNat - 1) := by
    rw [shl_one_int _ (by omega)]; congr 1; omega
  have hsh : Go.shl 1 P = 2 ^ P.toNat := shl_one_int _ (by omega)
  have hmask : ∀ u : Int, Go.and u (2 ^ P.toNat - 1) = u % 2 ^ P.toNat :=
    fun u => Go.and_mask u P.toNat (by omega)
  unfold inRange at hr
  have hu_nonneg : 0 ≤ s → s < 2 ^ P.toNat → s % 2 ^ P.toNat = s := fun a b => Int.emod_eq_of_lt a b
  have hu_neg : s < 0 → -(2 ^ P.toNat) ≤ s → s % 2 ^ P.toNat = s + 2 ^ P.toNat := by
    intro a b
    have : s % 2 ^ P.toNat = (s + 2 ^ P.toNat) % 2 ^ P.toNat := by simp
    rw [this]; exact Int.emod_eq_of_lt (by omega) (by omega)
  have hidem : ∀ u : Int, 0 ≤ u → u < 2 ^ P.toNat → u % 2 ^ P.toNat = u := fun u a b => Int.emod_eq_of_lt a b
  unfold frontSample container dcShift readSample
  simp only [hsh1, hsh, hmask]
  generalize hMd : (2 : Int) ^ P.toNat = M at *
  generalize hHd : (2 : Int) ^ (P.toNat - 1) = Hf at *
  cases signed <;> simp only [↓reduceIte, Bool.true_and, Bool.false_and, Bool.false_eq_true] at hr ⊢
  · have hu := hu_nonneg hr.1 hr.2
    rw [hu]
    by_cases h8 : P ≤ 8
    · simp only [h8, if_true]
    · simp only [h8, if_false]
      rw [Go_or_lohi s (by omega) (by omega)]
  · by_cases hs : 0 ≤ s
    · have hu := hu_nonneg hs (by omega)
      rw [hu]
      have c0 : ¬ (s ≥ Hf) := by omega
      by_cases h8 : P ≤ 8
      · have := hM8 h8
        simp only [h8, if_true]
        rw [hidem s hs (by omega)]
        simp only [c0, if_false]
      · simp only [h8, if_false]
        rw [Go_or_lohi s (by omega) (by omega)]
        simp only [c0, decide_false, Bool.false_eq_true, if_false]
    · have hneg : s < 0 := by omega
      have hu := hu_neg hneg (by omega)
      rw [hu]
      have c0 : s + M ≥ Hf := by omega
      by_cases h8 : P ≤ 8
      · have := hM8 h8
        simp only [h8, if_true]
        rw [hidem (s + M) (by omega) (by omega)]
        simp only [c0, if_true]
        omega
      · simp only [h8, if_false]
        rw [Go_or_lohi (s + M) (by omega) (by omega)]
        simp only [c0, decide_true, if_true]
        omega

/-- after the DC shift every sample is within ±2^(P-1) -/
theorem frontSample_bound (P : Int) (signed : Bool) (s : Int) (hP1 : 1 ≤ P) (hP2 : P ≤ 16) (hr : inRange P signed s) :
    -(2 ^ (P.toNat - 1)) ≤ frontSample P signed s ∧ frontSample P signed s < 2 ^ (P.toNat - 1) := by
  rw [frontSample_eq P signed s hP1 hP2 hr]
  have hM2 : (2 : Int) ^ P.toNat = 2 * 2 ^ (P.toNat - 1) := by
    have : P.toNat = (P.toNat - 1) + 1 := by omega
    rw [this, Int.pow_succ]; simp; omega
  unfold inRange at hr
  cases signed <;> simp only [↓reduceIte, Bool.false_eq_true] at hr ⊢ <;> omega

theorem sampleRoundTrip_front (P : Int) (signed : Bool) (s : Int) :
    sampleRoundTrip P signed s = writeSample P signed (dcUnshift P signed (frontSample P signed s)) := rfl

end J2k
