import GdcVerif.Lemmas.T1Model
import GdcVerif.Lemmas.MqcRoundtrip2
/-!
  The EBCOT T1 block round trip over `Model/T1.lean` (code-block style 0, all passes).

  Encoder and decoder are walked in lock-step.  Invariant: equal flag arrays; the decoder's coefficient at
  sample `j` is the encoder's coefficient truncated below the level `lev j ∈ {bp, bp+1}` (ghost function);
  `j` is significant iff its magnitude has a bit at or above `lev j`.  Every coding decision is an MQ decision
  whose context both sides compute from the shared flags; `Mqc.step_rel` (via `Mqc.decodeAll_rel`) returns the
  encoder's bit given the facts `Mqc.FE` at the encoder's post-decision state, which are obtained backwards
  from `Flush` (`Mqc.flush_facts`, `Mqc.encodeAll_back`).
-/
namespace T1
open Gen

/-! ### flag bits -/

theorem has_or (v m k : Nat) : has (v ||| m) k = (has v k || has m k) := by
  unfold has
  rw [Nat.and_or_distrib_right, Bool.eq_iff_iff]
  simp only [bne_iff_ne, ne_eq, Bool.or_eq_true, Nat.or_eq_zero_iff]
  omega

/-- total read of a flag word / coefficient -/
def gf (a : Array Nat) (j : Nat) : Nat := (a[j]?).getD 0
def gi (a : Array Int) (j : Nat) : Int := (a[j]?).getD 0

theorem gf_get (a : Array Nat) (j : Nat) (h : j < a.size) : gf a j = a[j] := by
  unfold gf; rw [Array.getElem?_eq_getElem h]; rfl
theorem gi_get (a : Array Int) (j : Nat) (h : j < a.size) : gi a j = a[j] := by
  unfold gi; rw [Array.getElem?_eq_getElem h]; rfl

theorem gf_set (a : Array Nat) (i j v : Nat) (hi : i < a.size) :
    gf (a.setIfInBounds i v) j = if j = i then v else gf a j := by
  unfold gf
  rw [Array.getElem?_setIfInBounds]
  by_cases hji : j = i
  · rw [if_pos hji.symm, if_pos hi, if_pos hji]; rfl
  · rw [if_neg (fun h => hji h.symm), if_neg hji]

theorem gi_set (a : Array Int) (i j : Nat) (v : Int) (hi : i < a.size) :
    gi (a.setIfInBounds i v) j = if j = i then v else gi a j := by
  unfold gi
  rw [Array.getElem?_setIfInBounds]
  by_cases hji : j = i
  · rw [if_pos hji.symm, if_pos hi, if_pos hji]; rfl
  · rw [if_neg (fun h => hji h.symm), if_neg hji]

def sigA (fl : Array Nat) (j : Nat) : Bool := has (gf fl j) fSig
def visA (fl : Array Nat) (j : Nat) : Bool := has (gf fl j) fVisit

/-- effect of `flags[i] |= m` on any bit test -/
theorem orAt_has (fl fl' : Array Nat) (i m : Nat) (h : orAt fl i m = some fl') (j k : Nat) :
    has (gf fl' j) k = (has (gf fl j) k || (decide (j = i) && has m k)) := by
  unfold orAt at h
  split at h
  · exact absurd h (by simp)
  · rename_i v hv
    injection h with h
    have hi : i < fl.size := by
      rcases Nat.lt_or_ge i fl.size with h1 | h1
      · exact h1
      · rw [Array.getElem?_eq_none h1] at hv; exact absurd hv (by simp)
    have hv' : v = gf fl i := by
      rw [Array.getElem?_eq_getElem hi] at hv; injection hv with hv; rw [gf_get _ _ hi, hv]
    rw [← h, gf_set _ _ _ _ hi]
    by_cases hji : j = i
    · rw [if_pos hji, has_or, hv', hji]; simp
    · rw [if_neg hji]; simp [hji]

theorem orAt_size (fl fl' : Array Nat) (i m : Nat) (h : orAt fl i m = some fl') : fl'.size = fl.size := by
  unfold orAt at h
  split at h
  · exact absurd h (by simp)
  · injection h with h; rw [← h]; simp

theorem orAt_sig (fl fl' : Array Nat) (i m : Nat) (h : orAt fl i m = some fl') (hm : has m fSig = false) (j : Nat) :
    sigA fl' j = sigA fl j := by
  unfold sigA; rw [orAt_has fl fl' i m h j fSig, hm]; simp
theorem orAt_vis (fl fl' : Array Nat) (i m : Nat) (h : orAt fl i m = some fl') (hm : has m fVisit = false) (j : Nat) :
    visA fl' j = visA fl j := by
  unfold visA; rw [orAt_has fl fl' i m h j fVisit, hm]; simp

theorem mask_sig (a b : Nat) (s : Bool) (ha : has a fSig = false) (hb : has b fSig = false) :
    has (a ||| (if s = true then b else 0)) fSig = false := by
  rw [has_or, ha]; cases s
  · simp only [Bool.false_eq_true, if_false]; decide
  · simpa using hb
theorem mask_vis (a b : Nat) (s : Bool) (ha : has a fVisit = false) (hb : has b fVisit = false) :
    has (a ||| (if s = true then b else 0)) fVisit = false := by
  rw [has_or, ha]; cases s
  · simp only [Bool.false_eq_true, if_false]; decide
  · simpa using hb

theorem unf_frame (w : Nat) (fl fl' : Array Nat) (x y idx : Nat) (h : updateNeighborFlags w fl x y idx = some fl') :
    fl'.size = fl.size ∧ ∀ j, sigA fl' j = sigA fl j ∧ visA fl' j = visA fl j := by
  unfold updateNeighborFlags at h
  simp only [Option.bind_eq_bind, Option.bind_eq_some_iff] at h
  obtain ⟨f, _, f1, h1, f2, h2, f3, h3, f4, h4, f5, h5, f6, h6, f7, h7, h8⟩ := h
  refine ⟨?_, ?_⟩
  · rw [orAt_size _ _ _ _ h8, orAt_size _ _ _ _ h7, orAt_size _ _ _ _ h6, orAt_size _ _ _ _ h5,
      orAt_size _ _ _ _ h4, orAt_size _ _ _ _ h3, orAt_size _ _ _ _ h2, orAt_size _ _ _ _ h1]
  · intro j
    constructor
    · rw [orAt_sig _ _ _ _ h8 (by decide), orAt_sig _ _ _ _ h7 (by decide), orAt_sig _ _ _ _ h6 (by decide),
        orAt_sig _ _ _ _ h5 (by decide), orAt_sig _ _ _ _ h4 (mask_sig _ _ _ (by decide) (by decide)),
        orAt_sig _ _ _ _ h3 (mask_sig _ _ _ (by decide) (by decide)),
        orAt_sig _ _ _ _ h2 (mask_sig _ _ _ (by decide) (by decide)),
        orAt_sig _ _ _ _ h1 (mask_sig _ _ _ (by decide) (by decide))]
    · rw [orAt_vis _ _ _ _ h8 (by decide), orAt_vis _ _ _ _ h7 (by decide), orAt_vis _ _ _ _ h6 (by decide),
        orAt_vis _ _ _ _ h5 (by decide), orAt_vis _ _ _ _ h4 (mask_vis _ _ _ (by decide) (by decide)),
        orAt_vis _ _ _ _ h3 (mask_vis _ _ _ (by decide) (by decide)),
        orAt_vis _ _ _ _ h2 (mask_vis _ _ _ (by decide) (by decide)),
        orAt_vis _ _ _ _ h1 (mask_vis _ _ _ (by decide) (by decide))]

/-- a single-bit mask `2^n`: the and is the bit times the mask -/
theorem and_pow (f n : Nat) : f &&& 2 ^ n = if f / 2 ^ n % 2 = 1 then 2 ^ n else 0 := by
  apply Nat.eq_of_testBit_eq
  intro i
  rw [Nat.testBit_and, Nat.testBit_two_pow]
  by_cases hi : n = i
  · subst hi
    rw [Nat.testBit_eq_decide_div_mod_eq]
    by_cases hb : f / 2 ^ n % 2 = 1
    · rw [if_pos hb, Nat.testBit_two_pow_self]; simp [hb]
    · rw [if_neg hb]; simp [hb]
  · split
    · rw [Nat.testBit_two_pow_of_ne hi]; simp [hi]
    · simp [hi]

theorem has_pow (f n : Nat) : has f (2 ^ n) = decide (f / 2 ^ n % 2 = 1) := by
  unfold has
  rw [and_pow]
  have := Nat.two_pow_pos n
  by_cases hb : f / 2 ^ n % 2 = 1
  · rw [if_pos hb]; simp [hb]
  · rw [if_neg hb]; simp [hb]

/-- `f &^ T1Visit` keeps the significance bit and clears the visit bit -/
theorem clr_visit (f : Nat) : has (clr f fVisit) fSig = has f fSig ∧ has (clr f fVisit) fVisit = false := by
  have e1 : fSig = 2 ^ 0 := rfl
  have e4 : fVisit = 2 ^ 2 := rfl
  unfold clr
  rw [e1, e4, has_pow, has_pow, has_pow, and_pow]
  simp only [Nat.pow_zero, Nat.div_one]
  split
  · constructor
    · congr 1; apply propext; omega
    · simp; omega
  · constructor
    · rfl
    · simp; omega

/-! ### truncated magnitudes -/

/-- magnitude with the bits below `p` cleared -/
def trN (p M : Nat) : Nat := M / 2 ^ p * 2 ^ p
/-- coefficient truncated below bit-plane `p` (sign kept) -/
def tr (p : Nat) (v : Int) : Int := if v < 0 then -((trN p v.natAbs : Nat) : Int) else ((trN p v.natAbs : Nat) : Int)

theorem trN_le (p M : Nat) : trN p M ≤ M := Nat.div_mul_le_self M (2 ^ p)

theorem div_succ (M p : Nat) : M / 2 ^ (p + 1) = M / 2 ^ p / 2 := by
  rw [Nat.pow_succ, Nat.div_div_eq_div_mul]

theorem trN_step (p M : Nat) : trN p M = trN (p + 1) M + (M / 2 ^ p % 2) * 2 ^ p := by
  unfold trN
  rw [div_succ, Nat.pow_succ]
  have hq : M / 2 ^ p = 2 * (M / 2 ^ p / 2) + M / 2 ^ p % 2 := by omega
  calc M / 2 ^ p * 2 ^ p = (2 * (M / 2 ^ p / 2) + M / 2 ^ p % 2) * 2 ^ p := by rw [← hq]
    _ = M / 2 ^ p / 2 * (2 ^ p * 2) + M / 2 ^ p % 2 * 2 ^ p := by
      rw [Nat.add_mul, Nat.mul_comm 2, Nat.mul_assoc, Nat.mul_comm 2]

theorem trN_zero (p M : Nat) (h : M / 2 ^ p = 0) : trN p M = 0 := by unfold trN; rw [h, Nat.zero_mul]
theorem trN_pos (p M : Nat) (h : M / 2 ^ p ≠ 0) : 0 < trN p M := by
  unfold trN; exact Nat.mul_pos (Nat.pos_of_ne_zero h) (Nat.two_pow_pos p)
theorem trN_0 (M : Nat) : trN 0 M = M := by unfold trN; simp

theorem tr_0 (v : Int) : tr 0 v = v := by
  unfold tr; rw [trN_0]; split <;> omega

theorem tr_zero (p : Nat) (v : Int) (h : v.natAbs / 2 ^ p = 0) : tr p v = 0 := by
  unfold tr; rw [trN_zero p _ h]; split <;> rfl

theorem magBit_eq (v : Int) (bp : Nat) : magBit v bp = v.natAbs / 2 ^ bp % 2 := by
  unfold magBit; rw [Nat.shiftRight_eq_div_pow]

theorem wrap32_id (x : Int) (h1 : -2147483648 ≤ x) (h2 : x < 2147483648) : Go.wrap32 x = x := by
  unfold Go.wrap32; omega

theorem cast_pow2 (bp : Nat) : ((2 ^ bp : Nat) : Int) = (2 : Int) ^ bp := by
  rw [Int.natCast_pow]; rfl

/-- an insignificant sample whose bit `bp` is zero stays insignificant one plane lower -/
theorem nonsig_down (M bp l : Nat) (hl : l = bp ∨ l = bp + 1) (h : M / 2 ^ l = 0) (hb : M / 2 ^ bp % 2 = 0) :
    M / 2 ^ bp = 0 := by
  rcases hl with rfl | rfl
  · exact h
  · rw [div_succ] at h; omega

/-- … and whose bit `bp` is one has magnitude bits exactly `1` at plane `bp` -/
theorem newsig (M bp l : Nat) (hl : l = bp ∨ l = bp + 1) (h : M / 2 ^ l = 0) (hb : M / 2 ^ bp % 2 = 1) :
    M / 2 ^ bp = 1 := by
  rcases hl with rfl | rfl
  · rw [h] at hb; exact absurd hb (by decide)
  · rw [div_succ] at h; omega

/-- the value `decSign` stores -/
theorem sign_val (v : Int) (bp l : Nat) (hM : v.natAbs < 2147483648) (hl : l = bp ∨ l = bp + 1)
    (h : v.natAbs / 2 ^ l = 0) (hb : magBit v bp = 1) :
    (if (if v < 0 then 1 else 0 : Nat) ≠ 0 then Go.wrap32 (-(Go.wrap32 ((2 : Int) ^ bp))) else Go.wrap32 ((2 : Int) ^ bp)) = tr bp v := by
  rw [magBit_eq] at hb
  have h1 := newsig _ bp l hl h hb
  have hP : (2 : Nat) ^ bp ≤ v.natAbs := by
    have := Nat.div_mul_le_self v.natAbs (2 ^ bp); rw [h1, Nat.one_mul] at this; exact this
  have hPpos := Nat.two_pow_pos bp
  unfold tr trN
  rw [h1, Nat.one_mul, ← cast_pow2]
  have hw : Go.wrap32 ((2 ^ bp : Nat) : Int) = ((2 ^ bp : Nat) : Int) := wrap32_id _ (by omega) (by omega)
  rw [hw]
  by_cases hv : v < 0
  · simp only [hv, if_true]
    rw [if_pos (by decide)]
    exact wrap32_id _ (by omega) (by omega)
  · simp only [hv, if_false]
    rw [if_neg (by decide)]

/-- the value `decMagRef` stores -/
theorem refine_val (v : Int) (bp : Nat) (hM : v.natAbs < 2147483648) (h : v.natAbs / 2 ^ (bp + 1) ≠ 0) :
    refine (tr (bp + 1) v) bp (magBit v bp) = tr bp v := by
  rw [magBit_eq]
  have hs := trN_step bp v.natAbs
  have hle := trN_le bp v.natAbs
  have hpos := trN_pos (bp + 1) _ h
  have hPpos := Nat.two_pow_pos bp
  unfold refine tr
  rw [← cast_pow2]
  have hb : v.natAbs / 2 ^ bp % 2 = 0 ∨ v.natAbs / 2 ^ bp % 2 = 1 := by omega
  rcases hb with hb | hb
  · rw [hb] at hs ⊢
    rw [if_pos rfl]
    rw [hs]; simp
  · rw [hb, Nat.one_mul] at hs
    rw [hb, if_neg (by decide)]
    have hw : Go.wrap32 ((2 ^ bp : Nat) : Int) = ((2 ^ bp : Nat) : Int) := wrap32_id _ (by omega) (by omega)
    rw [hw]
    by_cases hv : v < 0
    · simp only [hv, if_true]
      rw [if_neg (by omega)]
      rw [wrap32_id _ (by omega) (by omega)]
      omega
    · simp only [hv, if_false]
      rw [if_pos (by omega)]
      rw [wrap32_id _ (by omega) (by omega)]
      omega

/-- sign bit through the prediction xor -/
theorem xor_cancel (s p : Nat) (hs : s ≤ 1) (hp : p ≤ 1) : (s ^^^ p) ^^^ p = s ∧ s ^^^ p ≤ 1 := by
  have : s = 0 ∨ s = 1 := by omega
  have : p = 0 ∨ p = 1 := by omega
  rcases ‹s = 0 ∨ s = 1› with rfl | rfl <;> rcases ‹p = 0 ∨ p = 1› with rfl | rfl <;> decide

section MqStep
open Mqc

/-! ### one MQ decision -/

/-- facts after the decision give facts before it (`Mqc.encodeAll_back` for one decision) -/
theorem mq_back (B : Nat → Nat) (last : Nat) (e e1 : Enc) (bit cx : Nat) (h : RegOk e) (hn : 0x8000 ≤ e.a)
    (hcx : cx < e.ctx.size) (he : encode e bit cx = some e1) (hf : FE B last e1) : FE B last e := by
  apply encodeAll_back B last [(bit, cx)] e e1 h hn
  · intro d hd; simp only [List.mem_singleton] at hd; rw [hd]; exact hcx
  · simp only [encodeAll, he]
  · exact hf

/-- the decoder returns the encoder's bit and the relation is kept (`Mqc.decodeAll_rel` for one decision) -/
theorem mq_step (B : Nat → Nat) (last len : Nat) (hB : BOk B last len) (e e1 : Enc) (d : Dec) (bit cx : Nat)
    (h : RegOk e) (hn : 0x8000 ≤ e.a) (hbit : bit ≤ 1) (hcx : cx < e.ctx.size) (hr : Rel B last len e d)
    (he : encode e bit cx = some e1) (hf : FE B last e1) :
    ∃ d1, decode d cx = some (bit, d1) ∧ Rel B last len e1 d1 := by
  obtain ⟨d', hd', hrel⟩ := decodeAll_rel B last len hB [(bit, cx)] e d e1 h hn
    (by intro x hx; simp only [List.mem_singleton] at hx; rw [hx]; exact ⟨hbit, hcx⟩) hr
    (by simp only [encodeAll, he]) hf
  simp only [List.map_cons, List.map_nil, decodeAll] at hd'
  cases hdc : decode d cx with
  | none => rw [hdc] at hd'; exact absurd hd' (by simp)
  | some r =>
    rw [hdc] at hd'
    obtain ⟨b, d1⟩ := r
    simp only [Option.map_some, Option.some.injEq, Prod.mk.injEq, List.cons.injEq, and_true] at hd'
    obtain ⟨hb, hd1⟩ := hd'
    exact ⟨d1, by rw [hb], by rw [hd1]; exact hrel⟩

/-- what the T1 lock-step needs from the arithmetic coder: facts `F` about encoder states that travel backwards
through a decision, and a relation `R` between encoder and decoder states under which the decoder returns the
encoder's bit -/
structure Coder (F : Enc → Prop) (R : Enc → Dec → Prop) : Prop where
  back : ∀ (e e1 : Enc) (bit cx : Nat), RegOk e → 0x8000 ≤ e.a → cx < e.ctx.size → encode e bit cx = some e1 →
    F e1 → F e
  step : ∀ (e e1 : Enc) (d : Dec) (bit cx : Nat), RegOk e → 0x8000 ≤ e.a → bit ≤ 1 → cx < e.ctx.size → R e d →
    encode e bit cx = some e1 → F e1 → ∃ d1, decode d cx = some (bit, d1) ∧ R e1 d1

/-- the MQ coder against the final buffer `B` -/
theorem coder_mq (B : Nat → Nat) (last len : Nat) (hB : BOk B last len) : Coder (FE B last) (Rel B last len) :=
  ⟨fun e e1 bit cx h hn hcx he hf => mq_back B last e e1 bit cx h hn hcx he hf,
   fun e e1 d bit cx h hn hbit hcx hr he hf => mq_step B last len hB e e1 d bit cx h hn hbit hcx hr he hf⟩
end MqStep


/-! ### the lock-step relation -/

/-- `j` is the padded index of a sample of the `w × h` block -/
def InB (w h j : Nat) : Prop := ∃ x y, x < w ∧ y < h ∧ j = idxOf w x y

def upd (lev : Nat → Nat) (i v : Nat) : Nat → Nat := fun j => if j = i then v else lev j

/-- sample `j` has been coded down to plane `lev j ∈ {bp, bp+1}`: the decoder holds the truncated coefficient and
the significance flag says whether a magnitude bit at or above that plane exists -/
structure Smp (V : Array Int) (bp : Nat) (lev : Nat → Nat) (fl : Array Nat) (D : Array Int) (j : Nat) : Prop where
  l : lev j = bp ∨ lev j = bp + 1
  d : gi D j = tr (lev j) (gi V j)
  s : sigA fl j = true ↔ (gi V j).natAbs / 2 ^ lev j ≠ 0

theorem Smp.frame {V : Array Int} {bp : Nat} {lev lev' : Nat → Nat} {fl fl' : Array Nat} {D D' : Array Int} {j : Nat}
    (hs : Smp V bp lev fl D j) (h1 : lev' j = lev j) (h2 : sigA fl' j = sigA fl j) (h3 : gi D' j = gi D j) :
    Smp V bp lev' fl' D' j :=
  ⟨by rw [h1]; exact hs.l, by rw [h1, h3]; exact hs.d, by rw [h1, h2]; exact hs.s⟩

/-- encoder state `es` and decoder state `ds` at the same point of the same pass of plane `bp` -/
structure LS (w h : Nat) (V : Array Int) (R : Mqc.Enc → Mqc.Dec → Prop) (bp : Nat) (lev : Nat → Nat)
    (es : EncSt) (ds : DecSt) : Prop where
  fl : ds.flags = es.flags
  dsz : ds.data.size = (w + 2) * (h + 2)
  rel : R es.mq ds.mq
  smp : ∀ j, InB w h j → Smp V bp lev es.flags ds.data j

section Lock
variable (w h : Nat) (V : Array Int) (F : Mqc.Enc → Prop) (R : Mqc.Enc → Mqc.Dec → Prop)
  (hC : Coder F R) (hV : ∀ j, (gi V j).natAbs < 2147483648)
include hC hV

/-- `encSign` / `decSign`: a sample that was insignificant and has magnitude bit `bp` set becomes significant -/
theorem sign_lock (bp : Nat) (es : EncSt) (hs : EncOk w h V es) (f x y : Nat) (hx : x < w) (hy : y < h) :
    ∃ es', encSign w V es f x y (idxOf w x y) = some es' ∧ EncOk w h V es' ∧
      (F es'.mq → F es.mq) ∧
      (∀ j, sigA es'.flags j = (sigA es.flags j || decide (j = idxOf w x y))) ∧
      (∀ j, visA es'.flags j = visA es.flags j) ∧
      (F es'.mq → ∀ (ds : DecSt) (lev : Nat → Nat), LS w h V R bp lev es ds →
        sigA es.flags (idxOf w x y) = false → magBit (gi V (idxOf w x y)) bp = 1 →
        ∃ ds', decSign w bp ds f x y (idxOf w x y) = some ds' ∧
          LS w h V R bp (upd lev (idxOf w x y) bp) es' ds') := by
  have hi := idx_lt w h x y hx hy
  have hiV : idxOf w x y < V.size := by rw [hs.dsz]; exact hi
  have hiF : idxOf w x y < es.flags.size := by rw [hs.fsz]; exact hi
  obtain ⟨sc, esc, hsc1, hsc2⟩ := scCtx_ok f
  obtain ⟨sp, esp, hsp⟩ := spb_ok f
  -- the flag updates, as one function of the start flags
  obtain ⟨fl1, e1, s1⟩ : ∃ fl1, (if V[idxOf w x y] < 0 then orAt es.flags (idxOf w x y) fSign else some es.flags) = some fl1 ∧
      fl1.size = es.flags.size := by
    split
    · exact orAt_ok _ _ _ hiF
    · exact ⟨_, rfl, rfl⟩
  obtain ⟨mq, em, hm⟩ := mqEncode_ok w h V es hs ((if V[idxOf w x y] < 0 then 1 else 0) ^^^ sp) sc (by omega)
  obtain ⟨fl2, e2, s2⟩ := orAt_ok fl1 (idxOf w x y) fSig (by rw [s1]; exact hiF)
  obtain ⟨fl3, e3, s3⟩ := updateNeighborFlags_ok w h fl2 x y (by rw [s2, s1, hs.fsz]) hx hy
  have hres : encSign w V es f x y (idxOf w x y) = some { flags := fl3, mq := mq } := by
    unfold encSign
    rw [Array.getElem?_eq_getElem hiV]
    simp only [Option.bind_eq_bind, Option.bind_some, esc, esp]
    by_cases hv : V[idxOf w x y] < 0
    · rw [if_pos hv] at e1 em
      simp only [hv, if_true]
      rw [e1]; simp only [Option.bind_some]
      rw [em]; simp only [Option.bind_some]
      rw [e2]; simp only [Option.bind_some]
      rw [e3]; rfl
    · rw [if_neg hv] at e1 em
      simp only [hv, if_false]
      have e1' : es.flags = fl1 := Option.some.inj e1
      subst e1'
      rw [em]; simp only [Option.bind_some]
      rw [e2]; simp only [Option.bind_some]
      rw [e3]; rfl
  have hfl1 : ∀ j, sigA fl1 j = sigA es.flags j ∧ visA fl1 j = visA es.flags j := by
    intro j
    split at e1
    · exact ⟨orAt_sig _ _ _ _ e1 (by decide) j, orAt_vis _ _ _ _ e1 (by decide) j⟩
    · have e1' : es.flags = fl1 := Option.some.inj e1
      subst e1'; exact ⟨rfl, rfl⟩
  have hf3 := unf_frame w fl2 fl3 x y _ e3
  have hsig : ∀ j, sigA fl3 j = (sigA es.flags j || decide (j = idxOf w x y)) := by
    intro j
    rw [(hf3.2 j).1]
    unfold sigA
    rw [orAt_has fl1 fl2 _ _ e2 j fSig]
    have := (hfl1 j).1; unfold sigA at this; rw [this]
    simp [has, fSig]
  have hvis : ∀ j, visA fl3 j = visA es.flags j := by
    intro j
    rw [(hf3.2 j).2, orAt_vis _ _ _ _ e2 (by decide) j, (hfl1 j).2]
  have hcx : sc < es.mq.ctx.size := by rw [hs.nctx]; omega
  refine ⟨_, hres, ⟨by show fl3.size = _; rw [s3, s2, s1, hs.fsz], hs.dsz, hm.reg, hm.norm, hm.nctx⟩,
    fun hF => hC.back es.mq mq _ sc hs.reg hs.norm hcx em hF, hsig, hvis, ?_⟩
  intro hF ds lev hL hns hmb
  have hsb : (if V[idxOf w x y] < 0 then 1 else 0 : Nat) ≤ 1 := by split <;> omega
  obtain ⟨d1, hd1, hrel1⟩ := hC.step es.mq mq ds.mq _ sc hs.reg hs.norm (xor_cancel _ sp hsb hsp).2 hcx
    hL.rel em hF
  unfold decSign
  simp only [Option.bind_eq_bind, esc, Option.bind_some, hd1, esp, (xor_cancel _ sp hsb hsp).1, hL.fl]
  have hiD : idxOf w x y < ds.data.size := by rw [hL.dsz]; exact hi
  have hgv : gi V (idxOf w x y) = V[idxOf w x y] := gi_get _ _ hiV
  have hsm := hL.smp _ ⟨x, y, hx, hy, rfl⟩
  have hz : (gi V (idxOf w x y)).natAbs / 2 ^ lev (idxOf w x y) = 0 := by
    have := hsm.s; rw [hns] at this
    rcases Nat.eq_zero_or_pos ((gi V (idxOf w x y)).natAbs / 2 ^ lev (idxOf w x y)) with h0 | h0
    · exact h0
    · exact absurd (this.mpr (by omega)) (by simp)
  have hval := sign_val (gi V (idxOf w x y)) bp _ (hV _) hsm.l hz hmb
  rw [hgv] at hval
  have hLS : LS w h V R bp (upd lev (idxOf w x y) bp) { flags := fl3, mq := mq }
      { flags := fl3, data := ds.data.setIfInBounds (idxOf w x y) (tr bp V[idxOf w x y]), mq := d1 } := by
    refine ⟨rfl, by show (ds.data.setIfInBounds _ _).size = _; rw [Array.size_setIfInBounds]; exact hL.dsz, hrel1, ?_⟩
    intro j hj
    by_cases hji : j = idxOf w x y
    · subst hji
      have hl : upd lev (idxOf w x y) bp (idxOf w x y) = bp := by unfold upd; rw [if_pos rfl]
      refine ⟨Or.inl hl, ?_, ?_⟩
      · show gi (ds.data.setIfInBounds _ _) _ = _
        rw [gi_set _ _ _ _ hiD, if_pos rfl, hl, hgv]
      · show sigA fl3 _ = true ↔ _
        rw [hsig, hl]
        have h1 := newsig _ bp _ hsm.l hz (by rw [← magBit_eq]; exact hmb)
        rw [h1]; simp
    · apply (hL.smp j hj).frame
      · unfold upd; rw [if_neg hji]
      · show sigA fl3 j = _; rw [hsig]; simp [hji]
      · show gi (ds.data.setIfInBounds _ _) j = _; rw [gi_set _ _ _ _ hiD, if_neg hji]
  rw [hval]
  by_cases hv : V[idxOf w x y] < 0
  · rw [if_pos hv] at e1
    rw [if_pos (by rw [if_pos hv]; decide), e1]
    simp only [Option.bind_some]
    rw [if_neg (by omega), e2]
    simp only [Option.bind_some]
    rw [e3]
    exact ⟨_, rfl, hLS⟩
  · rw [if_neg hv] at e1
    have e1' : es.flags = fl1 := Option.some.inj e1
    subst e1'
    rw [if_neg (by rw [if_neg hv]; decide)]
    rw [if_neg (by omega), e2]
    simp only [Option.bind_some]
    rw [e3]
    exact ⟨_, rfl, hLS⟩
end Lock

/-- lock-step fold: the encoder fold is total and keeps `P`; the facts `F` travel backwards; given the facts at
the end, the decoder fold succeeds and carries the invariant `I` (indexed by the remaining list) -/
theorem foldlM_lock {α σe σd : Type} (fe : σe → α → Option σe) (fd : σd → α → Option σd)
    (P F : σe → Prop) (Q : α → Prop) (I : List α → σe → σd → Prop)
    (hstep : ∀ (a : α) (l : List α) (s : σe), P s → Q a → ∃ s', fe s a = some s' ∧ P s' ∧ (F s' → F s) ∧
      (F s' → ∀ sd, I (a :: l) s sd → ∃ sd', fd sd a = some sd' ∧ I l s' sd')) :
    ∀ (l : List α) (s : σe), (∀ a ∈ l, Q a) → P s → ∃ s', l.foldlM fe s = some s' ∧ P s' ∧ (F s' → F s) ∧
      (F s' → ∀ sd, I l s sd → ∃ sd', l.foldlM fd sd = some sd' ∧ I [] s' sd') := by
  intro l
  induction l with
  | nil => intro s _ hs; exact ⟨s, rfl, hs, id, fun _ sd hI => ⟨sd, rfl, hI⟩⟩
  | cons a l ih =>
    intro s hQ hs
    obtain ⟨s1, e1, hp1, hb1, hl1⟩ := hstep a l s hs (hQ a List.mem_cons_self)
    obtain ⟨s2, e2, hp2, hb2, hl2⟩ := ih s1 (fun b hb => hQ b (List.mem_cons_of_mem _ hb)) hp1
    refine ⟨s2, by rw [List.foldlM_cons, e1]; exact e2, hp2, fun hF => hb1 (hb2 hF), ?_⟩
    intro hF sd hI
    obtain ⟨sd1, ed1, hI1⟩ := hl1 (hb2 hF) sd hI
    obtain ⟨sd2, ed2, hI2⟩ := hl2 hF sd1 hI1
    exact ⟨sd2, by rw [List.foldlM_cons, ed1]; exact ed2, hI2⟩

section Lock
variable (w h : Nat) (V : Array Int) (F : Mqc.Enc → Prop) (R : Mqc.Enc → Mqc.Dec → Prop)
  (hC : Coder F R) (hV : ∀ j, (gi V j).natAbs < 2147483648)
include hC hV

/-- visited samples are at plane `bp` -/
def VisLev (w h bp : Nat) (lev : Nat → Nat) (fl : Array Nat) : Prop :=
  ∀ j, InB w h j → visA fl j = true → lev j = bp
/-- during the significance pass: significant samples not visited in this plane are still at plane `bp + 1` -/
def SigOld (w h bp : Nat) (lev : Nat → Nat) (fl : Array Nat) : Prop :=
  ∀ j, InB w h j → sigA fl j = true → visA fl j = false → lev j = bp + 1

theorem spp_lock (orient bp : Nat) (es : EncSt) (hs : EncOk w h V es) :
    ∃ es', encSigProp w h orient bp V es = some es' ∧ EncOk w h V es' ∧
      (F es'.mq → F es.mq) ∧
      (F es'.mq → ∀ (ds : DecSt),
        (∃ lev, LS w h V R bp lev es ds ∧ VisLev w h bp lev es.flags ∧ SigOld w h bp lev es.flags) →
        ∃ ds', decSigProp w h orient bp ds = some ds' ∧
          ∃ lev, LS w h V R bp lev es' ds' ∧ VisLev w h bp lev es'.flags ∧ SigOld w h bp lev es'.flags) := by
  unfold encSigProp decSigProp
  apply foldlM_lock _ _ (EncOk w h V) (fun s => F s.mq) (fun (p : Nat × Nat) => p.1 < w ∧ p.2 < h)
    (fun _ es ds => ∃ lev, LS w h V R bp lev es ds ∧ VisLev w h bp lev es.flags ∧ SigOld w h bp lev es.flags)
    _ (coords w h) es (fun p hp => coords_mem w h p.1 p.2 hp) hs
  intro p _ s hps hq
  obtain ⟨x, y⟩ := p
  have hi := idx_lt w h x y hq.1 hq.2
  have hiF : idxOf w x y < s.flags.size := by rw [hps.fsz]; exact hi
  have hiV : idxOf w x y < V.size := by rw [hps.dsz]; exact hi
  simp only []
  rw [Array.getElem?_eq_getElem hiF]
  simp only [Option.bind_eq_bind, Option.bind_some]
  have hgf : gf s.flags (idxOf w x y) = s.flags[idxOf w x y] := gf_get _ _ hiF
  have hgv : gi V (idxOf w x y) = V[idxOf w x y] := gi_get _ _ hiV
  have hinb : InB w h (idxOf w x y) := ⟨x, y, hq.1, hq.2, rfl⟩
  by_cases hsg : has s.flags[idxOf w x y] fSig = true
  · rw [if_pos hsg]
    refine ⟨s, rfl, hps, id, ?_⟩
    intro _ sd ⟨lev, hL, hv5, hso⟩
    rw [hL.fl, Array.getElem?_eq_getElem hiF]
    simp only [Option.bind_some]
    rw [if_pos hsg]
    exact ⟨sd, rfl, lev, hL, hv5, hso⟩
  rw [if_neg hsg]
  by_cases hnb : ¬has s.flags[idxOf w x y] fSigNeighbors = true
  · rw [if_pos hnb]
    refine ⟨s, rfl, hps, id, ?_⟩
    intro _ sd ⟨lev, hL, hv5, hso⟩
    rw [hL.fl, Array.getElem?_eq_getElem hiF]
    simp only [Option.bind_some]
    rw [if_neg hsg, if_pos hnb]
    exact ⟨sd, rfl, lev, hL, hv5, hso⟩
  rw [if_neg hnb, Array.getElem?_eq_getElem hiV]
  simp only [Option.bind_some]
  obtain ⟨c, ec, hc⟩ := zcCtx_ok s.flags[idxOf w x y] orient
  rw [ec]; simp only [Option.bind_some]
  obtain ⟨mq, em, hm⟩ := mqEncode_ok w h V s hps (magBit V[idxOf w x y] bp) c (by omega)
  rw [em]; simp only [Option.bind_some]
  obtain ⟨fl, efl, sfl⟩ := orAt_ok s.flags (idxOf w x y) fVisit hiF
  rw [efl]; simp only [Option.bind_some]
  have hok : EncOk w h V { flags := fl, mq := mq } :=
    ⟨by show fl.size = _; rw [sfl, hps.fsz], hps.dsz, hm.reg, hm.norm, hm.nctx⟩
  have hcx : c < s.mq.ctx.size := by rw [hps.nctx]; omega
  have back1 : F mq → F s.mq := hC.back s.mq mq _ c hps.reg hps.norm hcx em
  have hsg1 : ∀ j, sigA fl j = sigA s.flags j := orAt_sig _ _ _ _ efl (by decide)
  have hvs1 : ∀ j, visA fl j = (visA s.flags j || decide (j = idxOf w x y)) := by
    intro j; unfold visA; rw [orAt_has _ _ _ _ efl j fVisit]; simp [has, fVisit]
  have hns : sigA s.flags (idxOf w x y) = false := by
    unfold sigA; rw [hgf]; simpa using hsg
  have hbit : magBit V[idxOf w x y] bp ≤ 1 := by rw [magBit_eq]; omega
  -- the decoder up to the visit flag
  have hdec : F mq → ∀ (sd : DecSt) (lev : Nat → Nat), LS w h V R bp lev s sd →
      ∃ d1, Mqc.decode sd.mq c = some (magBit V[idxOf w x y] bp, d1) ∧
        LS w h V R bp lev { flags := fl, mq := mq } { flags := fl, data := sd.data, mq := d1 } := by
    intro hF sd lev hL
    obtain ⟨d1, hd1, hrel1⟩ := hC.step s.mq mq sd.mq _ c hps.reg hps.norm hbit hcx hL.rel em hF
    exact ⟨d1, hd1, rfl, hL.dsz, hrel1, fun j hj => (hL.smp j hj).frame rfl (hsg1 j) rfl⟩
  by_cases hb : magBit V[idxOf w x y] bp ≠ 0
  · rw [if_pos hb]
    obtain ⟨es', he', hok', hback', hsig', hvis', hlock'⟩ :=
      sign_lock w h V F R hC hV bp { flags := fl, mq := mq } hok s.flags[idxOf w x y] x y hq.1 hq.2
    refine ⟨es', he', hok', fun hF => back1 (hback' hF), ?_⟩
    intro hF sd ⟨lev, hL, hv5, hso⟩
    obtain ⟨d1, hd1, hL1⟩ := hdec (hback' hF) sd lev hL
    rw [hL.fl, Array.getElem?_eq_getElem hiF]
    simp only [Option.bind_some]
    rw [if_neg hsg, if_neg hnb, ec]
    simp only [Option.bind_some]
    rw [hd1]; simp only [Option.bind_some]
    rw [efl]; simp only [Option.bind_some]
    rw [if_pos hb]
    obtain ⟨ds', hd', hL'⟩ := hlock' hF _ lev hL1 (by rw [hsg1]; exact hns) (by rw [hgv]; omega)
    refine ⟨ds', hd', upd lev (idxOf w x y) bp, hL', ?_, ?_⟩
    · intro j hj hvj
      unfold upd
      by_cases hji : j = idxOf w x y
      · rw [if_pos hji]
      · rw [if_neg hji]
        rw [hvis', hvs1] at hvj
        exact hv5 j hj (by simpa [hji] using hvj)
    · intro j hj hsj hvj
      rw [hvis', hvs1] at hvj
      by_cases hji : j = idxOf w x y
      · simp [hji] at hvj
      · unfold upd; rw [if_neg hji]
        rw [hsig', hsg1] at hsj
        exact hso j hj (by simpa [hji] using hsj) (by simpa [hji] using hvj)
  · rw [if_neg hb]
    refine ⟨_, rfl, hok, back1, ?_⟩
    intro hF sd ⟨lev, hL, hv5, hso⟩
    obtain ⟨d1, hd1, hL1⟩ := hdec hF sd lev hL
    rw [hL.fl, Array.getElem?_eq_getElem hiF]
    simp only [Option.bind_some]
    rw [if_neg hsg, if_neg hnb, ec]
    simp only [Option.bind_some]
    rw [hd1]; simp only [Option.bind_some]
    rw [efl]; simp only [Option.bind_some]
    rw [if_neg hb]
    have hb0 : (gi V (idxOf w x y)).natAbs / 2 ^ bp % 2 = 0 := by
      rw [← magBit_eq, hgv]; omega
    have hsm := hL.smp _ hinb
    have hz : (gi V (idxOf w x y)).natAbs / 2 ^ lev (idxOf w x y) = 0 := by
      have := hsm.s; rw [hns] at this
      rcases Nat.eq_zero_or_pos ((gi V (idxOf w x y)).natAbs / 2 ^ lev (idxOf w x y)) with h0 | h0
      · exact h0
      · exact absurd (this.mpr (by omega)) (by simp)
    have hz' := nonsig_down _ bp _ hsm.l hz hb0
    refine ⟨_, rfl, upd lev (idxOf w x y) bp, ⟨rfl, hL.dsz, hL1.rel, ?_⟩, ?_, ?_⟩
    · intro j hj
      by_cases hji : j = idxOf w x y
      · subst hji
        have hl : upd lev (idxOf w x y) bp (idxOf w x y) = bp := by unfold upd; rw [if_pos rfl]
        refine ⟨Or.inl hl, ?_, ?_⟩
        · show gi sd.data _ = _
          rw [hl, hsm.d, tr_zero _ _ hz, tr_zero _ _ hz']
        · show sigA fl _ = true ↔ _
          rw [hl, hsg1, hns, hz']; simp
      · exact (hL1.smp j hj).frame (by unfold upd; rw [if_neg hji]) rfl rfl
    · intro j hj hvj
      unfold upd
      by_cases hji : j = idxOf w x y
      · rw [if_pos hji]
      · rw [if_neg hji]
        have hvj' : visA fl j = true := hvj
        rw [hvs1] at hvj'
        exact hv5 j hj (by simpa [hji] using hvj')
    · intro j hj hsj hvj
      have hvj' : visA fl j = false := hvj
      have hsj' : sigA fl j = true := hsj
      rw [hvs1] at hvj'
      by_cases hji : j = idxOf w x y
      · simp [hji] at hvj'
      · unfold upd; rw [if_neg hji]
        rw [hsg1] at hsj'
        exact hso j hj hsj' (by simpa [hji] using hvj')
end Lock
theorem idx_inj (w x y x' y' : Nat) (hx : x < w) (hx' : x' < w) (h : idxOf w x y = idxOf w x' y') : x = x' ∧ y = y' := by
  unfold idxOf at h
  rcases Nat.lt_trichotomy y y' with hlt | heq | hgt
  · have : (y + 1 + 1) * (w + 2) ≤ (y' + 1) * (w + 2) := Nat.mul_le_mul_right _ (by omega)
    rw [Nat.add_mul (y + 1) 1, Nat.one_mul] at this
    omega
  · subst heq; omega
  · have : (y' + 1 + 1) * (w + 2) ≤ (y + 1) * (w + 2) := Nat.mul_le_mul_right _ (by omega)
    rw [Nat.add_mul (y' + 1) 1, Nat.one_mul] at this
    omega

theorem coords_cover (w h x y : Nat) (hx : x < w) (hy : y < h) : (x, y) ∈ coords w h := by
  unfold coords
  simp only [List.mem_flatMap, List.mem_range, List.mem_map, List.mem_filter, decide_eq_true_eq]
  exact ⟨y / 4, by omega, x, hx, y % 4, ⟨by omega, by omega⟩, by congr 1; omega⟩

theorem coords_nodup (w h : Nat) :
    (coords w h).Pairwise (fun a b => idxOf w a.1 a.2 ≠ idxOf w b.1 b.2) := by
  unfold coords
  rw [List.pairwise_flatMap]
  constructor
  · intro s _
    rw [List.pairwise_flatMap]
    constructor
    · intro x hx
      rw [List.pairwise_map]
      apply List.Pairwise.filter
      apply List.Pairwise.imp _ (List.pairwise_lt_range)
      intro a b hab heq
      have hx' := List.mem_range.mp hx
      have := (idx_inj w x _ x _ hx' hx' heq).2
      omega
    · apply List.Pairwise.imp_of_mem _ (List.pairwise_lt_range)
      intro x1 x2 hx1 hx2 h12 p hp q hq heq
      simp only [List.mem_map, List.mem_filter, List.mem_range] at hp hq hx1 hx2
      obtain ⟨d1, _, rfl⟩ := hp
      obtain ⟨d2, _, rfl⟩ := hq
      have := (idx_inj w x1 _ x2 _ hx1 hx2 heq).1
      omega
  · apply List.Pairwise.imp _ (List.pairwise_lt_range)
    intro s1 s2 h12 p hp q hq heq
    simp only [List.mem_flatMap, List.mem_map, List.mem_filter, List.mem_range, decide_eq_true_eq] at hp hq
    obtain ⟨x1, hx1, d1, ⟨hd1, _⟩, rfl⟩ := hp
    obtain ⟨x2, hx2, d2, ⟨hd2, _⟩, rfl⟩ := hq
    have := (idx_inj w x1 _ x2 _ hx1 hx2 heq).2
    omega
section Lock
variable (w h : Nat) (V : Array Int) (F : Mqc.Enc → Prop) (R : Mqc.Enc → Mqc.Dec → Prop)
  (hC : Coder F R) (hV : ∀ j, (gi V j).natAbs < 2147483648)
include hC hV

/-- after the refinement pass every significant sample is at plane `bp` -/
def SigDone (w h bp : Nat) (lev : Nat → Nat) (fl : Array Nat) : Prop :=
  ∀ j, InB w h j → sigA fl j = true → lev j = bp

/-- invariant of the refinement pass with the samples `l` still to be scanned -/
structure MrInv (w h bp : Nat) (lev : Nat → Nat) (fl : Array Nat) (l : List (Nat × Nat)) : Prop where
  vis : VisLev w h bp lev fl
  todo : ∀ a ∈ l, sigA fl (idxOf w a.1 a.2) = true → visA fl (idxOf w a.1 a.2) = false → lev (idxOf w a.1 a.2) = bp + 1
  done : ∀ j, InB w h j → sigA fl j = true → visA fl j = false → lev j = bp ∨ ∃ a ∈ l, j = idxOf w a.1 a.2
  nd : l.Pairwise (fun a b => idxOf w a.1 a.2 ≠ idxOf w b.1 b.2)

theorem mrp_lock (bp : Nat) (es : EncSt) (hs : EncOk w h V es) :
    ∃ es', encMagRef w h bp V es = some es' ∧ EncOk w h V es' ∧
      (F es'.mq → F es.mq) ∧
      (F es'.mq → ∀ (ds : DecSt),
        (∃ lev, LS w h V R bp lev es ds ∧ VisLev w h bp lev es.flags ∧ SigOld w h bp lev es.flags) →
        ∃ ds', decMagRef w h bp ds = some ds' ∧
          ∃ lev, LS w h V R bp lev es' ds' ∧ VisLev w h bp lev es'.flags ∧ SigDone w h bp lev es'.flags) := by
  have key : ∃ es', encMagRef w h bp V es = some es' ∧ EncOk w h V es' ∧
      (F es'.mq → F es.mq) ∧
      (F es'.mq → ∀ (ds : DecSt),
        (∃ lev, LS w h V R bp lev es ds ∧ MrInv w h bp lev es.flags (coords w h)) →
        ∃ ds', decMagRef w h bp ds = some ds' ∧
          ∃ lev, LS w h V R bp lev es' ds' ∧ MrInv w h bp lev es'.flags []) := by
    unfold encMagRef decMagRef
    apply foldlM_lock _ _ (EncOk w h V) (fun s => F s.mq) (fun (p : Nat × Nat) => p.1 < w ∧ p.2 < h)
      (fun l es ds => ∃ lev, LS w h V R bp lev es ds ∧ MrInv w h bp lev es.flags l)
      _ (coords w h) es (fun p hp => coords_mem w h p.1 p.2 hp) hs
    intro p l s hps hq
    obtain ⟨x, y⟩ := p
    have hi := idx_lt w h x y hq.1 hq.2
    have hiF : idxOf w x y < s.flags.size := by rw [hps.fsz]; exact hi
    have hiV : idxOf w x y < V.size := by rw [hps.dsz]; exact hi
    have hgf : gf s.flags (idxOf w x y) = s.flags[idxOf w x y] := gf_get _ _ hiF
    have hgv : gi V (idxOf w x y) = V[idxOf w x y] := gi_get _ _ hiV
    have hinb : InB w h (idxOf w x y) := ⟨x, y, hq.1, hq.2, rfl⟩
    simp only []
    rw [Array.getElem?_eq_getElem hiF]
    simp only [Option.bind_eq_bind, Option.bind_some]
    by_cases hskip : ¬has s.flags[idxOf w x y] fSig = true ∨ has s.flags[idxOf w x y] fVisit = true
    · rw [if_pos hskip]
      refine ⟨s, rfl, hps, id, ?_⟩
      intro _ sd ⟨lev, hL, hM⟩
      rw [hL.fl, Array.getElem?_eq_getElem hiF]
      simp only [Option.bind_some]
      rw [if_pos hskip]
      refine ⟨sd, rfl, lev, hL, hM.vis, fun a ha => hM.todo a (List.mem_cons_of_mem _ ha), ?_, (List.pairwise_cons.mp hM.nd).2⟩
      intro j hj hsj hvj
      rcases hM.done j hj hsj hvj with h1 | ⟨a, ha, rfl⟩
      · exact Or.inl h1
      · rcases List.mem_cons.mp ha with rfl | ha'
        · exfalso
          unfold sigA at hsj; unfold visA at hvj
          rw [hgf] at hsj hvj
          rcases hskip with h1 | h1
          · exact h1 hsj
          · rw [h1] at hvj; exact absurd hvj (by simp)
        · exact Or.inr ⟨a, ha', rfl⟩
    rw [if_neg hskip, Array.getElem?_eq_getElem hiV]
    simp only [Option.bind_some]
    have hsgt : sigA s.flags (idxOf w x y) = true := by
      unfold sigA; rw [hgf]
      cases hh : has s.flags[idxOf w x y] fSig
      · exact absurd (Or.inl (by rw [hh]; simp)) hskip
      · rfl
    have hvsf : visA s.flags (idxOf w x y) = false := by
      unfold visA; rw [hgf]
      cases hh : has s.flags[idxOf w x y] fVisit
      · rfl
      · exact absurd (Or.inr hh) hskip
    have hmr := mrCtx_ok s.flags[idxOf w x y]
    obtain ⟨mq, em, hm⟩ := mqEncode_ok w h V s hps (magBit V[idxOf w x y] bp) (mrCtx s.flags[idxOf w x y]) (by omega)
    rw [em]; simp only [Option.bind_some]
    obtain ⟨fl, efl, sfl⟩ := orAt_ok s.flags (idxOf w x y) fRefine hiF
    rw [efl]
    have hcx : mrCtx s.flags[idxOf w x y] < s.mq.ctx.size := by rw [hps.nctx]; omega
    have hsg1 : ∀ j, sigA fl j = sigA s.flags j := orAt_sig _ _ _ _ efl (by decide)
    have hvs1 : ∀ j, visA fl j = visA s.flags j := orAt_vis _ _ _ _ efl (by decide)
    have hbit : magBit V[idxOf w x y] bp ≤ 1 := by rw [magBit_eq]; omega
    refine ⟨_, rfl, ⟨by show fl.size = _; rw [sfl, hps.fsz], hps.dsz, hm.reg, hm.norm, hm.nctx⟩,
      hC.back s.mq mq _ _ hps.reg hps.norm hcx em, ?_⟩
    intro hF sd ⟨lev, hL, hM⟩
    obtain ⟨d1, hd1, hrel1⟩ := hC.step s.mq mq sd.mq _ _ hps.reg hps.norm hbit hcx hL.rel em hF
    have hiD : idxOf w x y < sd.data.size := by rw [hL.dsz]; exact hi
    rw [hL.fl, Array.getElem?_eq_getElem hiF]
    simp only [Option.bind_some]
    rw [if_neg hskip, hd1]
    simp only [Option.bind_some]
    rw [Array.getElem?_eq_getElem hiD]
    simp only [Option.bind_some]
    rw [efl]
    have hsm := hL.smp _ hinb
    have hlev : lev (idxOf w x y) = bp + 1 := hM.todo (x, y) List.mem_cons_self hsgt hvsf
    have hnz : (gi V (idxOf w x y)).natAbs / 2 ^ (bp + 1) ≠ 0 := by
      have := hsm.s.mp hsgt; rw [hlev] at this; exact this
    have hcur : sd.data[idxOf w x y] = tr (bp + 1) (gi V (idxOf w x y)) := by
      rw [← gi_get _ _ hiD, hsm.d, hlev]
    have hnd := List.pairwise_cons.mp hM.nd
    refine ⟨_, rfl, upd lev (idxOf w x y) bp, ⟨rfl, by show (sd.data.setIfInBounds _ _).size = _; rw [Array.size_setIfInBounds]; exact hL.dsz, hrel1, ?_⟩, ?_, ?_, ?_, hnd.2⟩
    · intro j hj
      by_cases hji : j = idxOf w x y
      · subst hji
        have hl : upd lev (idxOf w x y) bp (idxOf w x y) = bp := by unfold upd; rw [if_pos rfl]
        refine ⟨Or.inl hl, ?_, ?_⟩
        · show gi (sd.data.setIfInBounds _ _) _ = _
          rw [gi_set _ _ _ _ hiD, if_pos rfl, hl, hcur, ← hgv]
          exact refine_val _ bp (hV _) hnz
        · show sigA fl _ = true ↔ _
          rw [hl, hsg1, hsgt]
          have : (gi V (idxOf w x y)).natAbs / 2 ^ bp ≠ 0 := by
            rw [div_succ] at hnz; omega
          simp [this]
      · apply (hL.smp j hj).frame
        · unfold upd; rw [if_neg hji]
        · exact hsg1 j
        · show gi (sd.data.setIfInBounds _ _) j = _; rw [gi_set _ _ _ _ hiD, if_neg hji]
    · intro j hj hvj
      have hvj' : visA fl j = true := hvj
      rw [hvs1] at hvj'
      unfold upd
      by_cases hji : j = idxOf w x y
      · rw [if_pos hji]
      · rw [if_neg hji]; exact hM.vis j hj hvj'
    · intro a ha hsa hva
      have hsa' : sigA fl (idxOf w a.1 a.2) = true := hsa
      have hva' : visA fl (idxOf w a.1 a.2) = false := hva
      rw [hsg1] at hsa'; rw [hvs1] at hva'
      have hne : idxOf w a.1 a.2 ≠ idxOf w x y := fun hh => hnd.1 a ha hh.symm
      unfold upd; rw [if_neg hne]
      exact hM.todo a (List.mem_cons_of_mem _ ha) hsa' hva'
    · intro j hj hsj hvj
      have hsj' : sigA fl j = true := hsj
      have hvj' : visA fl j = false := hvj
      rw [hsg1] at hsj'; rw [hvs1] at hvj'
      by_cases hji : j = idxOf w x y
      · left; unfold upd; rw [if_pos hji]
      · rcases hM.done j hj hsj' hvj' with h1 | ⟨a, ha, rfl⟩
        · left; unfold upd; rw [if_neg hji]; exact h1
        · rcases List.mem_cons.mp ha with rfl | ha'
          · exact absurd rfl hji
          · exact Or.inr ⟨a, ha', rfl⟩
  obtain ⟨es', he, hok, hback, hlock⟩ := key
  refine ⟨es', he, hok, hback, ?_⟩
  intro hF ds ⟨lev, hL, hv5, hso⟩
  obtain ⟨ds', hd', lev', hL', hM'⟩ := hlock hF ds ⟨lev, hL, hv5,
    fun a ha hsa hva => hso _ ⟨a.1, a.2, (coords_mem w h a.1 a.2 ha).1, (coords_mem w h a.1 a.2 ha).2, rfl⟩ hsa hva,
    fun j hj _ _ => by
      obtain ⟨x, y, hx, hy, rfl⟩ := hj
      exact Or.inr ⟨(x, y), coords_cover w h x y hx hy, rfl⟩,
    coords_nodup w h⟩
  refine ⟨ds', hd', lev', hL', hM'.vis, ?_⟩
  intro j hj hsj
  cases hvj : visA es'.flags j
  · rcases hM'.done j hj hsj hvj with h1 | ⟨a, ha, _⟩
    · exact h1
    · exact absurd ha (by simp)
  · exact hM'.vis j hj hvj
end Lock

theorem foldlM_range_inv {σ : Type} (f : σ → Nat → Option σ) (Inv : Nat → σ → Prop) (N : Nat)
    (hstep : ∀ n s, n < N → Inv n s → ∃ s', f s n = some s' ∧ Inv (n + 1) s') :
    ∀ n, n ≤ N → ∀ s, Inv 0 s → ∃ s', (List.range n).foldlM f s = some s' ∧ Inv n s' := by
  intro n
  induction n with
  | zero => intro _ s hs; exact ⟨s, rfl, hs⟩
  | succ n ih =>
    intro hn s hs
    obtain ⟨s1, e1, h1⟩ := ih (by omega) s hs
    obtain ⟨s2, e2, h2⟩ := hstep n s1 (by omega) h1
    refine ⟨s2, ?_, h2⟩
    rw [List.range_succ, List.foldlM_append, e1]
    simp only [Option.bind_eq_bind, Option.bind_some, List.foldlM_cons, List.foldlM_nil]
    rw [e2]; rfl

/-- sample `dy` of the column is eligible for run-length mode -/
def RlGood (w : Nat) (fl : Array Nat) (k i dy : Nat) : Prop :=
  visA fl (idxOf w i (k + dy)) = false ∧ sigA fl (idxOf w i (k + dy)) = false ∧
    has (gf fl (idxOf w i (k + dy))) fSigNeighbors = false

/-- the encoder's run-length scan -/
theorem rlScan_spec (w h bp : Nat) (V : Array Int) (fl : Array Nat) (k i : Nat)
    (hf : fl.size = (w + 2) * (h + 2)) (hd : V.size = (w + 2) * (h + 2)) (hi : i < w) (hk : k + 3 < h) :
    ∃ can pos, rlScan w bp V fl k i = some (can, pos) ∧ (can = true ↔ ∀ dy, dy < 4 → RlGood w fl k i dy) ∧
      (can = true → (pos = 4 ∧ ∀ dy, dy < 4 → magBit (gi V (idxOf w i (k + dy))) bp = 0) ∨
        (pos < 4 ∧ magBit (gi V (idxOf w i (k + pos))) bp ≠ 0 ∧ ∀ dy, dy < pos → magBit (gi V (idxOf w i (k + dy))) bp = 0)) := by
  unfold rlScan
  obtain ⟨r, er, hr⟩ := foldlM_range_inv
    (fun (acc : Bool × Nat × Bool) dy =>
      match acc with
      | (can, pos, stopped) =>
        if stopped then some acc else
        (fl[idxOf w i (k + dy)]?).bind fun f =>
        if has f fVisit then some (false, pos, true)
        else if has f fSig ∨ has f fSigNeighbors then some (false, pos, true)
        else (V[idxOf w i (k + dy)]?).bind fun v =>
          some (can, if pos = 4 ∧ magBit v bp ≠ 0 then dy else pos, false))
    (fun n (acc : Bool × Nat × Bool) => acc.2.2 = !acc.1 ∧ (acc.1 = true ↔ ∀ dy, dy < n → RlGood w fl k i dy) ∧
      (acc.1 = true → (acc.2.1 = 4 ∧ ∀ dy, dy < n → magBit (gi V (idxOf w i (k + dy))) bp = 0) ∨
        (acc.2.1 < n ∧ magBit (gi V (idxOf w i (k + acc.2.1))) bp ≠ 0 ∧
          ∀ dy, dy < acc.2.1 → magBit (gi V (idxOf w i (k + dy))) bp = 0)))
    4
    (by
      intro n s hn hinv
      obtain ⟨can, pos, stopped⟩ := s
      obtain ⟨h1, h2, h3⟩ := hinv
      simp only [] at h1 h2 h3
      have hix := idx_lt w h i (k + n) hi (by omega)
      have hgf : gf fl (idxOf w i (k + n)) = fl[idxOf w i (k + n)]'(by rw [hf]; exact hix) := gf_get _ _ _
      have hgv : gi V (idxOf w i (k + n)) = V[idxOf w i (k + n)]'(by rw [hd]; exact hix) := gi_get _ _ _
      simp only []
      by_cases hst : stopped = true
      · rw [if_pos hst]
        refine ⟨_, rfl, h1, ?_, ?_⟩
        · have hc : can = false := by
            cases can with
            | false => rfl
            | true => rw [hst] at h1; exact absurd h1 (by decide)
          simp only [hc]
          constructor
          · intro hh; exact absurd hh (by simp)
          · intro hall
            have := h2.mpr (fun dy hdy => hall dy (by omega))
            rw [hc] at this; exact this
        · intro hc
          have : can = false := by
            cases can with
            | false => rfl
            | true => rw [hst] at h1; exact absurd h1 (by decide)
          rw [this] at hc; exact absurd hc (by simp)
      · rw [if_neg hst]
        have hcan : can = true := by
          cases can with
          | true => rfl
          | false => exact absurd h1 hst
        rw [Array.getElem?_eq_getElem (by rw [hf]; exact hix)]
        simp only [Option.bind_some]
        have hprev := h2.mp hcan
        by_cases hv : has (fl[idxOf w i (k + n)]'(by rw [hf]; exact hix)) fVisit = true
        · rw [if_pos hv]
          refine ⟨_, rfl, rfl, ?_, fun hh => absurd hh (by simp)⟩
          simp only []
          constructor
          · intro hh; exact absurd hh (by simp)
          · intro hall
            have := (hall n (by omega)).1
            unfold visA at this; rw [hgf, hv] at this; exact absurd this (by simp)
        · rw [if_neg hv]
          by_cases hsn : has (fl[idxOf w i (k + n)]'(by rw [hf]; exact hix)) fSig = true ∨
              has (fl[idxOf w i (k + n)]'(by rw [hf]; exact hix)) fSigNeighbors = true
          · rw [if_pos hsn]
            refine ⟨_, rfl, rfl, ?_, fun hh => absurd hh (by simp)⟩
            simp only []
            constructor
            · intro hh; exact absurd hh (by simp)
            · intro hall
              have hg := hall n (by omega)
              unfold RlGood sigA at hg; rw [hgf] at hg
              rcases hsn with h' | h'
              · rw [h'] at hg; exact absurd hg.2.1 (by simp)
              · rw [h'] at hg; exact absurd hg.2.2 (by simp)
          · rw [if_neg hsn, Array.getElem?_eq_getElem (by rw [hd]; exact hix)]
            simp only [Option.bind_some]
            have hgood : RlGood w fl k i n := by
              unfold RlGood visA sigA; rw [hgf]
              refine ⟨by simpa using hv, ?_, ?_⟩
              · cases hh : has (fl[idxOf w i (k + n)]'(by rw [hf]; exact hix)) fSig
                · rfl
                · exact absurd (Or.inl hh) hsn
              · cases hh : has (fl[idxOf w i (k + n)]'(by rw [hf]; exact hix)) fSigNeighbors
                · rfl
                · exact absurd (Or.inr hh) hsn
            refine ⟨_, rfl, by simp only []; rw [hcan, ← (by simpa using hst : stopped = false)]; simp [hst], ?_, ?_⟩
            · simp only [hcan, true_iff]
              intro dy hdy
              rcases Nat.lt_or_ge dy n with h' | h'
              · exact hprev dy h'
              · have : dy = n := by omega
                rw [this]; exact hgood
            · intro _
              simp only []
              rcases h3 hcan with ⟨hp4, hz⟩ | ⟨hpn, hnz, hz⟩
              · by_cases hm : magBit (V[idxOf w i (k + n)]'(by rw [hd]; exact hix)) bp ≠ 0
                · rw [if_pos ⟨hp4, hm⟩]
                  right
                  exact ⟨by omega, by rw [hgv]; exact hm, fun dy hdy => hz dy hdy⟩
                · rw [if_neg (fun hh => hm hh.2)]
                  left
                  refine ⟨hp4, fun dy hdy => ?_⟩
                  rcases Nat.lt_or_ge dy n with h' | h'
                  · exact hz dy h'
                  · have : dy = n := by omega
                    rw [this, hgv]; simpa using hm
              · rw [if_neg (fun hh => by omega)]
                right
                exact ⟨by omega, hnz, hz⟩)
    4 (Nat.le_refl 4) (true, 4, false)
    ⟨rfl, by simp, fun _ => Or.inl ⟨rfl, fun dy hdy => absurd hdy (by omega)⟩⟩
  refine ⟨r.1, r.2.1, ?_, hr.2.1, hr.2.2⟩
  show Option.map _ _ = _
  have : ∀ (o : Option (Bool × Nat × Bool)), o = some r → Option.map (fun (r : Bool × Nat × Bool) => (r.1, r.2.1)) o = some (r.1, r.2.1) := by
    intro o ho; rw [ho]; rfl
  apply this
  exact er
/-- the decoder's run-length scan decides eligibility by the same flags -/
theorem rlScanDec_spec (w h : Nat) (fl : Array Nat) (k i : Nat)
    (hf : fl.size = (w + 2) * (h + 2)) (hi : i < w) (hk : k + 3 < h) :
    ∃ can, rlScanDec w fl k i = some can ∧ (can = true ↔ ∀ dy, dy < 4 → RlGood w fl k i dy) := by
  unfold rlScanDec
  obtain ⟨r, er, hr⟩ := foldlM_range_inv
    (fun (acc : Bool × Bool) dy =>
        if acc.2 then some acc else
        (fl[idxOf w i (k + dy)]?).bind fun f =>
        if has f fVisit then some (false, true)
        else if has f fSig ∨ has f fSigNeighbors then some (false, true)
        else some acc)
    (fun n (acc : Bool × Bool) => acc.2 = !acc.1 ∧ (acc.1 = true ↔ ∀ dy, dy < n → RlGood w fl k i dy))
    4
    (by
      intro n s hn hinv
      obtain ⟨can, stopped⟩ := s
      obtain ⟨h1, h2⟩ := hinv
      simp only [] at h1 h2
      have hix := idx_lt w h i (k + n) hi (by omega)
      have hgf : gf fl (idxOf w i (k + n)) = fl[idxOf w i (k + n)]'(by rw [hf]; exact hix) := gf_get _ _ _
      simp only []
      by_cases hst : stopped = true
      · rw [if_pos hst]
        refine ⟨_, rfl, h1, ?_⟩
        have hc : can = false := by
          cases can with
          | false => rfl
          | true => rw [hst] at h1; exact absurd h1 (by decide)
        simp only [hc]
        constructor
        · intro hh; exact absurd hh (by simp)
        · intro hall
          have := h2.mpr (fun dy hdy => hall dy (by omega))
          rw [hc] at this; exact this
      · rw [if_neg hst]
        have hcan : can = true := by
          cases can with
          | true => rfl
          | false => exact absurd h1 hst
        rw [Array.getElem?_eq_getElem (by rw [hf]; exact hix)]
        simp only [Option.bind_some]
        have hprev := h2.mp hcan
        by_cases hv : has (fl[idxOf w i (k + n)]'(by rw [hf]; exact hix)) fVisit = true
        · rw [if_pos hv]
          refine ⟨_, rfl, rfl, ?_⟩
          simp only []
          constructor
          · intro hh; exact absurd hh (by simp)
          · intro hall
            have := (hall n (by omega)).1
            unfold visA at this; rw [hgf, hv] at this; exact absurd this (by simp)
        · rw [if_neg hv]
          by_cases hsn : has (fl[idxOf w i (k + n)]'(by rw [hf]; exact hix)) fSig = true ∨
              has (fl[idxOf w i (k + n)]'(by rw [hf]; exact hix)) fSigNeighbors = true
          · rw [if_pos hsn]
            refine ⟨_, rfl, rfl, ?_⟩
            simp only []
            constructor
            · intro hh; exact absurd hh (by simp)
            · intro hall
              have hg := hall n (by omega)
              unfold RlGood sigA at hg; rw [hgf] at hg
              rcases hsn with h' | h'
              · rw [h'] at hg; exact absurd hg.2.1 (by simp)
              · rw [h'] at hg; exact absurd hg.2.2 (by simp)
          · rw [if_neg hsn]
            have hgood : RlGood w fl k i n := by
              unfold RlGood visA sigA; rw [hgf]
              refine ⟨by simpa using hv, ?_, ?_⟩
              · cases hh : has (fl[idxOf w i (k + n)]'(by rw [hf]; exact hix)) fSig
                · rfl
                · exact absurd (Or.inl hh) hsn
              · cases hh : has (fl[idxOf w i (k + n)]'(by rw [hf]; exact hix)) fSigNeighbors
                · rfl
                · exact absurd (Or.inr hh) hsn
            refine ⟨_, rfl, h1, ?_⟩
            simp only [hcan, true_iff]
            intro dy hdy
            rcases Nat.lt_or_ge dy n with h' | h'
            · exact hprev dy h'
            · have : dy = n := by omega
              rw [this]; exact hgood)
    4 (Nat.le_refl 4) (true, false) ⟨rfl, by simp⟩
  refine ⟨r.1, ?_, hr.2⟩
  show Option.map _ _ = _
  have : ∀ (o : Option (Bool × Bool)), o = some r → Option.map (fun (r : Bool × Bool) => r.1) o = some r.1 := by
    intro o ho; rw [ho]; rfl
  apply this
  exact er

/-- invariant of the cleanup pass; `Q j`: sample `j` is still to be scanned -/
structure CInv (w h bp : Nat) (Q : Nat → Prop) (lev : Nat → Nat) (fl : Array Nat) : Prop where
  vis : VisLev w h bp lev fl
  sig : SigDone w h bp lev fl
  rest : ∀ j, InB w h j → Q j ∨ lev j = bp

theorem CInv.mono {w h bp : Nat} {Q Q' : Nat → Prop} {lev : Nat → Nat} {fl : Array Nat}
    (hc : CInv w h bp Q lev fl) (hq : ∀ j, Q j → Q' j) : CInv w h bp Q' lev fl :=
  ⟨hc.vis, hc.sig, fun j hj => (hc.rest j hj).imp (hq j) id⟩

/-- effect of `flags[idx] &^= T1Visit` -/
theorem clrvis_eff (fl : Array Nat) (idx : Nat) (hi : idx < fl.size) :
    (∀ j, sigA (fl.setIfInBounds idx (clr fl[idx] fVisit)) j = sigA fl j) ∧
    (∀ j, visA (fl.setIfInBounds idx (clr fl[idx] fVisit)) j = (visA fl j && !decide (j = idx))) := by
  constructor
  · intro j; unfold sigA; rw [gf_set _ _ _ _ hi]
    by_cases hji : j = idx
    · rw [if_pos hji, (clr_visit _).1, hji, gf_get _ _ hi]
    · rw [if_neg hji]
  · intro j; unfold visA; rw [gf_set _ _ _ _ hi]
    by_cases hji : j = idx
    · rw [if_pos hji, (clr_visit _).2]; simp [hji]
    · rw [if_neg hji]; simp [hji]

theorem CInv.updLev {w h bp : Nat} {Q : Nat → Prop} {lev : Nat → Nat} {fl : Array Nat} (idx : Nat)
    (hc : CInv w h bp Q lev fl) : CInv w h bp Q (T1.upd lev idx bp) fl := by
  refine ⟨?_, ?_, ?_⟩
  · intro j hj hv; unfold T1.upd; split
    · rfl
    · exact hc.vis j hj hv
  · intro j hj hv; unfold T1.upd; split
    · rfl
    · exact hc.sig j hj hv
  · intro j hj; unfold T1.upd; split
    · exact Or.inr rfl
    · exact hc.rest j hj

/-- after `encSign` at `idx` -/
theorem CInv.afterSign {w h bp : Nat} {Q : Nat → Prop} {lev : Nat → Nat} {fl fl' : Array Nat} (idx : Nat)
    (hc : CInv w h bp Q lev fl) (hsig : ∀ j, sigA fl' j = (sigA fl j || decide (j = idx)))
    (hvis : ∀ j, visA fl' j = visA fl j) : CInv w h bp Q (T1.upd lev idx bp) fl' := by
  refine ⟨?_, ?_, ?_⟩
  · intro j hj hv; unfold T1.upd; split
    · rfl
    · rw [hvis] at hv; exact hc.vis j hj hv
  · intro j hj hv; unfold T1.upd; split
    · rfl
    · rename_i hji; rw [hsig] at hv; exact hc.sig j hj (by simpa [hji] using hv)
  · intro j hj; unfold T1.upd; split
    · exact Or.inr rfl
    · exact hc.rest j hj

/-- an insignificant sample whose bit `bp` is zero: the ghost level drops to `bp`, nothing else changes -/
theorem LS.down {w h : Nat} {V : Array Int} {R : Mqc.Enc → Mqc.Dec → Prop} {bp : Nat} {lev : Nat → Nat} {es : EncSt} {ds : DecSt}
    (hL : LS w h V R bp lev es ds) (idx : Nat) (hin : InB w h idx) (hns : sigA es.flags idx = false)
    (hb0 : magBit (gi V idx) bp = 0) : LS w h V R bp (upd lev idx bp) es ds := by
  refine ⟨hL.fl, hL.dsz, hL.rel, ?_⟩
  intro j hj
  by_cases hji : j = idx
  · subst hji
    have hsm := hL.smp j hj
    have hl : upd lev j bp j = bp := by unfold upd; rw [if_pos rfl]
    have hz : (gi V j).natAbs / 2 ^ lev j = 0 := by
      have := hsm.s; rw [hns] at this
      rcases Nat.eq_zero_or_pos ((gi V j).natAbs / 2 ^ lev j) with h0 | h0
      · exact h0
      · exact absurd (this.mpr (by omega)) (by simp)
    have hz' := nonsig_down _ bp _ hsm.l hz (by rw [← magBit_eq]; exact hb0)
    refine ⟨Or.inl hl, ?_, ?_⟩
    · rw [hl, hsm.d, tr_zero _ _ hz, tr_zero _ _ hz']
    · rw [hl, hns, hz']; simp
  · exact (hL.smp j hj).frame (by unfold upd; rw [if_neg hji]) rfl rfl

/-- `flags[idx] &^= T1Visit` on both sides, for a sample that is at plane `bp` -/
theorem clear_lock {w h : Nat} {V : Array Int} {R : Mqc.Enc → Mqc.Dec → Prop} {bp : Nat} {lev : Nat → Nat} {es : EncSt} {ds : DecSt}
    (hL : LS w h V R bp lev es ds) (idx : Nat) (hi : idx < es.flags.size) (Q : Nat → Prop)
    (hC : CInv w h bp (fun j => j = idx ∨ Q j) lev es.flags) (hlev : lev idx = bp) :
    LS w h V R bp lev { flags := es.flags.setIfInBounds idx (clr es.flags[idx] fVisit), mq := es.mq }
      { flags := es.flags.setIfInBounds idx (clr es.flags[idx] fVisit), data := ds.data, mq := ds.mq } ∧
    CInv w h bp Q lev (es.flags.setIfInBounds idx (clr es.flags[idx] fVisit)) := by
  obtain ⟨hsg, hvs⟩ := clrvis_eff es.flags idx hi
  refine ⟨⟨rfl, hL.dsz, hL.rel, fun j hj => (hL.smp j hj).frame rfl (hsg j) rfl⟩, ?_, ?_, ?_⟩
  · intro j hj hv
    rw [hvs] at hv
    exact hC.vis j hj (by simp at hv; exact hv.1)
  · intro j hj hv
    rw [hsg] at hv
    exact hC.sig j hj hv
  · intro j hj
    rcases hC.rest j hj with (h1 | h1) | h1
    · right; rw [h1]; exact hlev
    · exact Or.inl h1
    · exact Or.inr h1

section Lock
variable (w h : Nat) (V : Array Int) (F : Mqc.Enc → Prop) (R : Mqc.Enc → Mqc.Dec → Prop)
  (hC : Coder F R) (hV : ∀ j, (gi V j).natAbs < 2147483648)
include hC hV

theorem clean_sample_lock (orient bp : Nat) (es : EncSt) (hs : EncOk w h V es) (x y : Nat) (p : Bool)
    (hx : x < w) (hy : y < h) :
    ∃ r, encCleanSample w orient bp V es x y p = some r ∧ EncOk w h V r.1 ∧
      (F r.1.mq → F es.mq) ∧
      (sigA es.flags (idxOf w x y) = false → visA es.flags (idxOf w x y) = false → r.2 = false) ∧
      (p = false → r.2 = false) ∧
      (F r.1.mq → ∀ (ds : DecSt) (Q : Nat → Prop),
        (∃ lev, LS w h V R bp lev es ds ∧ CInv w h bp (fun j => j = idxOf w x y ∨ Q j) lev es.flags) →
        (p = true → sigA es.flags (idxOf w x y) = false ∧ visA es.flags (idxOf w x y) = false ∧
          magBit (gi V (idxOf w x y)) bp = 1) →
        ∃ dr, decCleanSample w orient bp ds x y p = some dr ∧ dr.2 = r.2 ∧
          ∃ lev, LS w h V R bp lev r.1 dr.1 ∧ CInv w h bp Q lev r.1.flags) := by
  have hi := idx_lt w h x y hx hy
  have hiF : idxOf w x y < es.flags.size := by rw [hs.fsz]; exact hi
  have hiV : idxOf w x y < V.size := by rw [hs.dsz]; exact hi
  have hgf : gf es.flags (idxOf w x y) = es.flags[idxOf w x y] := gf_get _ _ hiF
  have hgv : gi V (idxOf w x y) = V[idxOf w x y] := gi_get _ _ hiV
  have hinb : InB w h (idxOf w x y) := ⟨x, y, hx, hy, rfl⟩
  unfold encCleanSample decCleanSample
  simp only []
  rw [Array.getElem?_eq_getElem hiF]
  simp only [Option.bind_eq_bind, Option.bind_some]
  by_cases hskip : has es.flags[idxOf w x y] fVisit = true ∨ has es.flags[idxOf w x y] fSig = true
  · rw [if_pos hskip]
    refine ⟨_, rfl, ⟨by simp [hs.fsz], hs.dsz, hs.reg, hs.norm, hs.nctx⟩, id, ?_, fun hp => hp, ?_⟩
    · intro hns hnv
      unfold sigA at hns; unfold visA at hnv; rw [hgf] at hns hnv
      rcases hskip with h1 | h1
      · rw [h1] at hnv; exact absurd hnv (by simp)
      · rw [h1] at hns; exact absurd hns (by simp)
    · intro _ ds Q ⟨lev, hL, hC⟩ _
      rw [hL.fl, Array.getElem?_eq_getElem hiF]
      simp only [Option.bind_some]
      rw [if_pos hskip]
      have hlev : lev (idxOf w x y) = bp := by
        rcases hskip with h1 | h1
        · exact hC.vis _ hinb (by unfold visA; rw [hgf]; exact h1)
        · exact hC.sig _ hinb (by unfold sigA; rw [hgf]; exact h1)
      obtain ⟨h1, h2⟩ := clear_lock hL (idxOf w x y) hiF Q hC hlev
      exact ⟨_, rfl, rfl, lev, h1, h2⟩
  have hns : sigA es.flags (idxOf w x y) = false := by
    unfold sigA; rw [hgf]
    cases hh : has es.flags[idxOf w x y] fSig
    · rfl
    · exact absurd (Or.inr hh) hskip
  have updl : ∀ lev : Nat → Nat, upd lev (idxOf w x y) bp (idxOf w x y) = bp := by
    intro lev; unfold upd; rw [if_pos rfl]
  rw [if_neg hskip, Array.getElem?_eq_getElem hiV]
  simp only [Option.bind_some]
  cases p
  · simp only [Bool.false_eq_true, if_false]
    obtain ⟨c, ec, hc⟩ := zcCtx_ok es.flags[idxOf w x y] orient
    rw [ec]; simp only [Option.bind_some]
    obtain ⟨mq, em, hm⟩ := mqEncode_ok w h V es hs (magBit V[idxOf w x y] bp) c (by omega)
    rw [em]; simp only [Option.bind_some]
    have hcx : c < es.mq.ctx.size := by rw [hs.nctx]; omega
    have back1 : F mq → F es.mq := hC.back es.mq mq _ c hs.reg hs.norm hcx em
    have hbit : magBit V[idxOf w x y] bp ≤ 1 := by rw [magBit_eq]; omega
    have hdec : F mq → ∀ (sd : DecSt) (lev : Nat → Nat), LS w h V R bp lev es sd →
        ∃ d1, Mqc.decode sd.mq c = some (magBit V[idxOf w x y] bp, d1) ∧
          LS w h V R bp lev { flags := es.flags, mq := mq } { flags := es.flags, data := sd.data, mq := d1 } := by
      intro hF sd lev hL
      obtain ⟨d1, hd1, hrel1⟩ := hC.step es.mq mq sd.mq _ c hs.reg hs.norm hbit hcx hL.rel em hF
      exact ⟨d1, hd1, rfl, hL.dsz, hrel1, fun j hj => (hL.smp j hj).frame rfl rfl rfl⟩
    by_cases hb : magBit V[idxOf w x y] bp ≠ 0
    · rw [if_pos hb]
      obtain ⟨es2, he2, hok2, hback2, hsig2, hvis2, hlock2⟩ :=
        sign_lock w h V F R hC hV bp { flags := es.flags, mq := mq } hm es.flags[idxOf w x y] x y hx hy
      have hiF2 : idxOf w x y < es2.flags.size := by rw [hok2.fsz]; exact hi
      rw [he2]; simp only [Option.bind_some]
      rw [Array.getElem?_eq_getElem hiF2]; simp only [Option.bind_some]
      refine ⟨_, rfl, ⟨by simp [hok2.fsz], hok2.dsz, hok2.reg, hok2.norm, hok2.nctx⟩,
        fun hF => back1 (hback2 hF), fun _ _ => rfl, fun _ => rfl, ?_⟩
      intro hF ds Q ⟨lev, hL, hC⟩ _
      obtain ⟨d1, hd1, hL1⟩ := hdec (hback2 hF) ds lev hL
      rw [hL.fl, Array.getElem?_eq_getElem hiF]
      simp only [Option.bind_some]
      rw [if_neg hskip, ec]
      simp only [Option.bind_some]
      rw [hd1]; simp only [Option.bind_some]
      rw [if_pos hb]
      obtain ⟨ds2, hd2, hL2⟩ := hlock2 hF _ lev hL1 hns (by rw [hgv]; omega)
      rw [hd2]; simp only [Option.bind_some]
      rw [hL2.fl, Array.getElem?_eq_getElem hiF2]; simp only [Option.bind_some]
      obtain ⟨h1, h2⟩ := clear_lock hL2 (idxOf w x y) hiF2 Q (hC.afterSign _ hsig2 hvis2) (updl lev)
      exact ⟨_, rfl, rfl, _, h1, h2⟩
    · rw [if_neg hb, Array.getElem?_eq_getElem hiF]
      simp only [Option.bind_some]
      refine ⟨_, rfl, ⟨by simp [hs.fsz], hs.dsz, hm.reg, hm.norm, hm.nctx⟩, back1, fun _ _ => rfl, fun _ => rfl, ?_⟩
      intro hF ds Q ⟨lev, hL, hC⟩ _
      obtain ⟨d1, hd1, hL1⟩ := hdec hF ds lev hL
      rw [hL.fl, Array.getElem?_eq_getElem hiF]
      simp only [Option.bind_some]
      rw [if_neg hskip, ec]
      simp only [Option.bind_some]
      rw [hd1]; simp only [Option.bind_some]
      rw [if_neg hb, Array.getElem?_eq_getElem hiF]
      simp only [Option.bind_some]
      have hL1' := hL1.down (idxOf w x y) hinb hns (by rw [hgv]; omega)
      obtain ⟨h1, h2⟩ := clear_lock hL1' (idxOf w x y) hiF Q (hC.updLev _) (updl lev)
      exact ⟨_, rfl, rfl, _, h1, h2⟩
  · simp only [if_true, Option.bind_some]
    rw [if_pos (by decide)]
    obtain ⟨es2, he2, hok2, hback2, hsig2, hvis2, hlock2⟩ :=
      sign_lock w h V F R hC hV bp es hs es.flags[idxOf w x y] x y hx hy
    have hiF2 : idxOf w x y < es2.flags.size := by rw [hok2.fsz]; exact hi
    rw [he2]; simp only [Option.bind_some]
    rw [Array.getElem?_eq_getElem hiF2]; simp only [Option.bind_some]
    refine ⟨_, rfl, ⟨by simp [hok2.fsz], hok2.dsz, hok2.reg, hok2.norm, hok2.nctx⟩,
      hback2, fun _ _ => rfl, fun _ => rfl, ?_⟩
    intro hF ds Q ⟨lev, hL, hC⟩ hp
    obtain ⟨_, _, hmb⟩ := hp True.intro
    rw [hL.fl, Array.getElem?_eq_getElem hiF]
    simp only [Option.bind_some]
    rw [if_neg hskip, if_pos (by decide)]
    obtain ⟨ds2, hd2, hL2⟩ := hlock2 hF _ lev hL hns hmb
    rw [hd2]; simp only [Option.bind_some]
    rw [hL2.fl, Array.getElem?_eq_getElem hiF2]; simp only [Option.bind_some]
    obtain ⟨h1, h2⟩ := clear_lock hL2 (idxOf w x y) hiF2 Q (hC.afterSign _ hsig2 hvis2) (updl lev)
    exact ⟨_, rfl, rfl, _, h1, h2⟩
end Lock
section Lock
variable (w h : Nat) (V : Array Int) (F : Mqc.Enc → Prop) (R : Mqc.Enc → Mqc.Dec → Prop)
  (hC : Coder F R) (hV : ∀ j, (gi V j).natAbs < 2147483648)
include hC hV

/-- the samples of column `(k, i)` -/
def ColS (w h k i : Nat) (j : Nat) : Prop := ∃ dy, dy < 4 ∧ k + dy < h ∧ j = idxOf w i (k + dy)

/-- the sample loop of a column without run-length mode -/
theorem normal_lock (orient bp : Nat) (Q : Nat → Prop) (k i : Nat) (hi : i < w) (es : EncSt) (hs : EncOk w h V es) :
    ∃ es', ((List.range 4).filter (fun dy => k + dy < h)).foldlM (fun st dy => do
        let (st, _) ← encCleanSample w orient bp V st i (k + dy) false
        some st) es = some es' ∧ EncOk w h V es' ∧
      (F es'.mq → F es.mq) ∧
      (F es'.mq → ∀ (ds : DecSt),
        (∃ lev, LS w h V R bp lev es ds ∧ CInv w h bp (fun j => ColS w h k i j ∨ Q j) lev es.flags) →
        ∃ ds', ((List.range 4).filter (fun dy => k + dy < h)).foldlM (fun st dy => do
            let (st, _) ← decCleanSample w orient bp st i (k + dy) false
            some st) ds = some ds' ∧
          ∃ lev, LS w h V R bp lev es' ds' ∧ CInv w h bp Q lev es'.flags) := by
  obtain ⟨es', he, hok, hback, hlock⟩ := foldlM_lock
    (fun st dy => do
        let (st, _) ← encCleanSample w orient bp V st i (k + dy) false
        some st)
    (fun st dy => do
        let (st, _) ← decCleanSample w orient bp st i (k + dy) false
        some st)
    (EncOk w h V) (fun s => F s.mq) (fun dy => dy < 4 ∧ k + dy < h)
    (fun l es ds => ∃ lev, LS w h V R bp lev es ds ∧
      CInv w h bp (fun j => (∃ dy, dy ∈ l ∧ j = idxOf w i (k + dy)) ∨ Q j) lev es.flags)
    (by
      intro dy l s hps hq
      obtain ⟨r, er, hok, hback, _, _, hlock⟩ :=
        clean_sample_lock w h V F R hC hV orient bp s hps i (k + dy) false hi hq.2
      simp only [Option.bind_eq_bind]
      rw [er]
      refine ⟨r.1, rfl, hok, hback, ?_⟩
      intro hF sd ⟨lev, hL, hC⟩
      obtain ⟨dr, hdr, _, lev', hL', hC'⟩ := hlock hF sd (fun j => (∃ dy, dy ∈ l ∧ j = idxOf w i (k + dy)) ∨ Q j)
        ⟨lev, hL, hC.mono (by
          intro j hj
          rcases hj with ⟨dy', hdy', rfl⟩ | hq'
          · rcases List.mem_cons.mp hdy' with rfl | h'
            · exact Or.inl rfl
            · exact Or.inr (Or.inl ⟨dy', h', rfl⟩)
          · exact Or.inr (Or.inr hq'))⟩ (fun hh => absurd hh (by simp))
      rw [hdr]
      exact ⟨dr.1, rfl, lev', hL', hC'⟩)
    ((List.range 4).filter (fun dy => k + dy < h)) es
    (by intro a ha; simp only [List.mem_filter, List.mem_range, decide_eq_true_eq] at ha; exact ha) hs
  refine ⟨es', he, hok, hback, ?_⟩
  intro hF ds ⟨lev, hL, hC⟩
  obtain ⟨ds', hd', lev', hL', hC'⟩ := hlock hF ds ⟨lev, hL, hC.mono (by
    intro j hj
    rcases hj with ⟨dy, h1, h2, rfl⟩ | hq'
    · exact Or.inl ⟨dy, by simp only [List.mem_filter, List.mem_range, decide_eq_true_eq]; exact ⟨h1, h2⟩, rfl⟩
    · exact Or.inr hq')⟩
  exact ⟨ds', hd', lev', hL', hC'.mono (by
    intro j hj
    rcases hj with ⟨dy, h1, _⟩ | hq'
    · exact absurd h1 (by simp)
    · exact hq')⟩
end Lock

theorem filter_ge (pos : Nat) (h : pos < 4) :
    (List.range 4).filter (fun dy => pos ≤ dy) = pos :: (List.range 4).filter (fun dy => pos < dy) := by
  have : pos = 0 ∨ pos = 1 ∨ pos = 2 ∨ pos = 3 := by omega
  rcases this with rfl | rfl | rfl | rfl <;> decide

section Lock
variable (w h : Nat) (V : Array Int) (F : Mqc.Enc → Prop) (R : Mqc.Enc → Mqc.Dec → Prop)
  (hC : Coder F R) (hV : ∀ j, (gi V j).natAbs < 2147483648)
include hC hV

/-- the tail of a run-length column: the sample at `pos` becomes significant without a decision, the rest is coded
normally -/
theorem rltail_lock (orient bp : Nat) (Q : Nat → Prop) (k i pos : Nat) (hi : i < w) (hk : k + 3 < h) (hpos : pos < 4)
    (es : EncSt) (hs : EncOk w h V es)
    (hns : sigA es.flags (idxOf w i (k + pos)) = false) (hnv : visA es.flags (idxOf w i (k + pos)) = false)
    (hmb : magBit (gi V (idxOf w i (k + pos))) bp = 1) :
    ∃ r, ((List.range 4).filter (fun dy => pos ≤ dy)).foldlM (fun (acc : EncSt × Bool) dy =>
        encCleanSample w orient bp V acc.1 i (k + dy) acc.2) (es, true) = some r ∧ EncOk w h V r.1 ∧
      (F r.1.mq → F es.mq) ∧
      (F r.1.mq → ∀ (ds : DecSt),
        (∃ lev, LS w h V R bp lev es ds ∧
          CInv w h bp (fun j => (∃ dy, pos ≤ dy ∧ dy < 4 ∧ j = idxOf w i (k + dy)) ∨ Q j) lev es.flags) →
        ∃ dr, ((List.range 4).filter (fun dy => pos ≤ dy)).foldlM (fun (acc : DecSt × Bool) dy =>
            decCleanSample w orient bp acc.1 i (k + dy) acc.2) (ds, true) = some dr ∧
          ∃ lev, LS w h V R bp lev r.1 dr.1 ∧ CInv w h bp Q lev r.1.flags) := by
  rw [filter_ge pos hpos]
  simp only [List.foldlM_cons]
  obtain ⟨r1, er1, hok1, hback1, hr1f, _, hlock1⟩ :=
    clean_sample_lock w h V F R hC hV orient bp es hs i (k + pos) true hi (by omega)
  have hr1 : r1.2 = false := hr1f hns hnv
  obtain ⟨r2, er2, hok2, hback2, hlock2⟩ := foldlM_lock
    (fun (acc : EncSt × Bool) dy => encCleanSample w orient bp V acc.1 i (k + dy) acc.2)
    (fun (acc : DecSt × Bool) dy => decCleanSample w orient bp acc.1 i (k + dy) acc.2)
    (fun acc => EncOk w h V acc.1 ∧ acc.2 = false) (fun acc => F acc.1.mq) (fun dy => dy < 4)
    (fun l acc dacc => dacc.2 = false ∧ ∃ lev, LS w h V R bp lev acc.1 dacc.1 ∧
      CInv w h bp (fun j => (∃ dy, dy ∈ l ∧ j = idxOf w i (k + dy)) ∨ Q j) lev acc.1.flags)
    (by
      intro dy l s hps hq
      obtain ⟨s1, s2⟩ := s
      obtain ⟨hp1, hp2⟩ := hps
      simp only [] at hp1 hp2 ⊢
      subst hp2
      obtain ⟨r, er, hok, hback, _, hrf, hlock⟩ :=
        clean_sample_lock w h V F R hC hV orient bp s1 hp1 i (k + dy) false hi (by omega)
      refine ⟨r, er, ⟨hok, hrf rfl⟩, hback, ?_⟩
      intro hF sd ⟨hd2, lev, hL, hC⟩
      obtain ⟨sd1, sd2⟩ := sd
      simp only [] at hd2 hL ⊢
      subst hd2
      obtain ⟨dr, hdr, hdr2, lev', hL', hC'⟩ := hlock hF sd1 (fun j => (∃ dy, dy ∈ l ∧ j = idxOf w i (k + dy)) ∨ Q j)
        ⟨lev, hL, hC.mono (by
          intro j hj
          rcases hj with ⟨dy', hdy', rfl⟩ | hq'
          · rcases List.mem_cons.mp hdy' with rfl | h'
            · exact Or.inl rfl
            · exact Or.inr (Or.inl ⟨dy', h', rfl⟩)
          · exact Or.inr (Or.inr hq'))⟩ (fun hh => absurd hh (by simp))
      exact ⟨dr, hdr, by rw [hdr2]; exact hrf rfl, lev', hL', hC'⟩)
    ((List.range 4).filter (fun dy => pos < dy)) r1
    (by intro a ha; simp only [List.mem_filter, List.mem_range, decide_eq_true_eq] at ha; exact ha.1) ⟨hok1, hr1⟩
  refine ⟨r2, by rw [er1]; exact er2, hok2.1, fun hF => hback1 (hback2 hF), ?_⟩
  intro hF ds ⟨lev, hL, hC⟩
  obtain ⟨dr1, hdr1, hdr12, lev1, hL1, hC1⟩ := hlock1 (hback2 hF) ds
    (fun j => (∃ dy, dy ∈ (List.range 4).filter (fun dy => pos < dy) ∧ j = idxOf w i (k + dy)) ∨ Q j)
    ⟨lev, hL, hC.mono (by
      intro j hj
      rcases hj with ⟨dy, h1, h2, rfl⟩ | hq'
      · rcases Nat.lt_or_ge pos dy with h3 | h3
        · exact Or.inr (Or.inl ⟨dy, by simp only [List.mem_filter, List.mem_range, decide_eq_true_eq]; exact ⟨h2, h3⟩, rfl⟩)
        · have : dy = pos := by omega
          rw [this]; exact Or.inl rfl
      · exact Or.inr (Or.inr hq'))⟩ (fun _ => ⟨hns, hnv, hmb⟩)
  obtain ⟨dr2, hdr2, _, lev2, hL2, hC2⟩ := hlock2 hF dr1 ⟨by rw [hdr12]; exact hr1, lev1, hL1, hC1⟩
  refine ⟨dr2, by rw [hdr1]; exact hdr2, lev2, hL2, hC2.mono (by
    intro j hj
    rcases hj with ⟨dy, h1, _⟩ | hq'
    · exact absurd h1 (by simp)
    · exact hq')⟩
end Lock

/-- several insignificant samples whose bit `bp` is zero drop to plane `bp` at once (run-length mode) -/
theorem down_list {w h : Nat} {V : Array Int} {R : Mqc.Enc → Mqc.Dec → Prop} {bp : Nat} {es : EncSt} {ds : DecSt}
    (P : Nat → Prop) : ∀ (js : List Nat) (lev : Nat → Nat),
    (∀ j ∈ js, InB w h j ∧ sigA es.flags j = false ∧ magBit (gi V j) bp = 0) →
    LS w h V R bp lev es ds → CInv w h bp P lev es.flags →
    ∃ lev', LS w h V R bp lev' es ds ∧ CInv w h bp P lev' es.flags ∧ ∀ j ∈ js, lev' j = bp := by
  intro js
  induction js with
  | nil => intro lev _ hL hC; exact ⟨lev, hL, hC, fun j hj => absurd hj (by simp)⟩
  | cons a js ih =>
    intro lev hjs hL hC
    obtain ⟨ha1, ha2, ha3⟩ := hjs a List.mem_cons_self
    obtain ⟨lev1, hL1, hC1, h1⟩ := ih lev (fun j hj => hjs j (List.mem_cons_of_mem _ hj)) hL hC
    refine ⟨upd lev1 a bp, hL1.down a ha1 ha2 ha3, hC1.updLev a, ?_⟩
    intro j hj
    unfold upd
    split
    · rfl
    · rcases List.mem_cons.mp hj with h' | h'
      · rename_i hne; exact absurd h' hne
      · exact h1 j h'

theorem runlen_eq (pos : Nat) (h : pos < 4) : (pos >>> 1) % 2 * 2 + pos % 2 = pos := by
  rw [Nat.shiftRight_eq_div_pow]; omega

theorem columns_cover (w h x y : Nat) (hx : x < w) (hy : y < h) :
    ∃ c, c ∈ columns w h ∧ ColS w h c.1 c.2 (idxOf w x y) := by
  refine ⟨(y / 4 * 4, x), ?_, y % 4, by omega, by simp only []; omega, by simp only []; congr 1; omega⟩
  unfold columns
  simp only [List.mem_flatMap, List.mem_range, List.mem_map]
  exact ⟨y / 4, by omega, x, hx, rfl⟩

section Lock
variable (w h : Nat) (V : Array Int) (F : Mqc.Enc → Prop) (R : Mqc.Enc → Mqc.Dec → Prop)
  (hC : Coder F R) (hV : ∀ j, (gi V j).natAbs < 2147483648)
include hC hV

omit hV in
/-- one MQ decision on both sides that leaves flags and data alone -/
theorem mqonly_lock (bp : Nat) (es : EncSt) (hs : EncOk w h V es) (bit cx : Nat) (hbit : bit ≤ 1) (hcx : cx < 19) :
    ∃ mq, Mqc.encode es.mq bit cx = some mq ∧ EncOk w h V { es with mq := mq } ∧
      (F mq → F es.mq) ∧
      (F mq → ∀ (ds : DecSt) (lev : Nat → Nat), LS w h V R bp lev es ds →
        ∃ d1, Mqc.decode ds.mq cx = some (bit, d1) ∧
          LS w h V R bp lev { es with mq := mq } { ds with mq := d1 }) := by
  obtain ⟨mq, em, hm⟩ := mqEncode_ok w h V es hs bit cx hcx
  have hcx' : cx < es.mq.ctx.size := by rw [hs.nctx]; exact hcx
  refine ⟨mq, em, hm, hC.back es.mq mq _ cx hs.reg hs.norm hcx' em, ?_⟩
  intro hF ds lev hL
  obtain ⟨d1, hd1, hrel1⟩ := hC.step es.mq mq ds.mq _ cx hs.reg hs.norm hbit hcx' hL.rel em hF
  exact ⟨d1, hd1, hL.fl, hL.dsz, hrel1, hL.smp⟩
end Lock
section Lock
variable (w h : Nat) (V : Array Int) (F : Mqc.Enc → Prop) (R : Mqc.Enc → Mqc.Dec → Prop)
  (hC : Coder F R) (hV : ∀ j, (gi V j).natAbs < 2147483648)
include hC hV

theorem cleanup_lock (orient bp : Nat) (es : EncSt) (hs : EncOk w h V es) :
    ∃ es', encCleanup w h orient bp V es = some es' ∧ EncOk w h V es' ∧
      (F es'.mq → F es.mq) ∧
      (F es'.mq → ∀ (ds : DecSt),
        (∃ lev, LS w h V R bp lev es ds ∧ VisLev w h bp lev es.flags ∧ SigDone w h bp lev es.flags) →
        ∃ ds', decCleanup w h orient bp ds = some ds' ∧
          ∃ lev, LS w h V R bp lev es' ds' ∧ ∀ j, InB w h j → lev j = bp) := by
  have key : ∃ es', encCleanup w h orient bp V es = some es' ∧ EncOk w h V es' ∧
      (F es'.mq → F es.mq) ∧
      (F es'.mq → ∀ (ds : DecSt),
        (∃ lev, LS w h V R bp lev es ds ∧
          CInv w h bp (fun j => ∃ c, c ∈ columns w h ∧ ColS w h c.1 c.2 j) lev es.flags) →
        ∃ ds', decCleanup w h orient bp ds = some ds' ∧
          ∃ lev, LS w h V R bp lev es' ds' ∧
            CInv w h bp (fun j => ∃ c, c ∈ ([] : List (Nat × Nat)) ∧ ColS w h c.1 c.2 j) lev es'.flags) := by
    unfold encCleanup decCleanup
    apply foldlM_lock _ _ (EncOk w h V) (fun s => F s.mq) (fun (p : Nat × Nat) => p.2 < w ∧ p.1 < h)
      (fun l es ds => ∃ lev, LS w h V R bp lev es ds ∧
        CInv w h bp (fun j => ∃ c, c ∈ l ∧ ColS w h c.1 c.2 j) lev es.flags)
      _ (columns w h) es (fun p hp => columns_mem w h p.1 p.2 hp) hs
    intro p l s hps hq
    obtain ⟨k, i⟩ := p
    simp only [] at hq
    simp only [Option.bind_eq_bind]
    -- the invariant handed to the column: its own samples or those of the remaining columns
    have hQ : ∀ (lev : Nat → Nat) (fl : Array Nat),
        CInv w h bp (fun j => ∃ c, c ∈ (k, i) :: l ∧ ColS w h c.1 c.2 j) lev fl →
        CInv w h bp (fun j => ColS w h k i j ∨ ∃ c, c ∈ l ∧ ColS w h c.1 c.2 j) lev fl := by
      intro lev fl hC
      apply hC.mono
      intro j ⟨c, hc, hcs⟩
      rcases List.mem_cons.mp hc with rfl | h'
      · exact Or.inl hcs
      · exact Or.inr ⟨c, h', hcs⟩
    have hnormal := normal_lock w h V F R hC hV orient bp (fun j => ∃ c, c ∈ l ∧ ColS w h c.1 c.2 j) k i hq.1 s hps
    by_cases hk3 : k + 3 < h
    · simp only [hk3, if_true]
      obtain ⟨can, pos, er, hcan, hpos⟩ := rlScan_spec w h bp V s.flags k i hps.fsz hps.dsz hq.1 hk3
      obtain ⟨can', er', hcan'⟩ := rlScanDec_spec w h s.flags k i hps.fsz hq.1 hk3
      have hcc : can' = can := by
        have h1 : (can' = true) ↔ (can = true) := hcan'.trans hcan.symm
        cases can <;> cases can'
        · rfl
        · exact absurd (h1.mp rfl) (by simp)
        · exact absurd (h1.mpr rfl) (by simp)
        · rfl
      subst hcc
      rw [er]; simp only [Option.bind_some]
      cases can'
      · simp only [Bool.false_eq_true, if_false]
        obtain ⟨es', he, hok, hback, hlock⟩ := hnormal
        refine ⟨es', he, hok, hback, ?_⟩
        intro hF sd ⟨lev, hL, hC⟩
        rw [hL.fl, er']; simp only [Option.bind_some, Bool.false_eq_true, if_false]
        exact hlock hF sd ⟨lev, hL, hQ lev _ hC⟩
      · simp only [if_true]
        have hgood := hcan.mp rfl
        have hdscan : ∀ (sd : DecSt), sd.flags = s.flags → rlScanDec w sd.flags k i = some true := by
          intro sd hfl; rw [hfl]; exact er'
        have hinb : ∀ dy, dy < 4 → InB w h (idxOf w i (k + dy)) := fun dy hdy => ⟨i, k + dy, hq.1, by omega, rfl⟩
        rcases hpos rfl with ⟨hp4, hz⟩ | ⟨hp, hnz, hz⟩
        · -- the whole column is zero at this plane: one decision
          subst hp4
          simp only [show ¬((4 : Nat) < 4) from by decide, if_false]
          obtain ⟨mq, em, hm, hback, hlock⟩ := mqonly_lock w h V F R hC bp s hps 0 CTXRL (by decide) (by decide)
          rw [em]; simp only [Option.bind_some, if_true]
          refine ⟨_, rfl, hm, hback, ?_⟩
          intro hF sd ⟨lev, hL, hC⟩
          obtain ⟨d1, hd1, hL1⟩ := hlock hF sd lev hL
          rw [hdscan sd hL.fl]; simp only [Option.bind_some, if_true]
          rw [hd1]; simp only [Option.bind_some, if_true]
          obtain ⟨lev', hL', hC', hall⟩ := down_list (fun j => ColS w h k i j ∨ ∃ c, c ∈ l ∧ ColS w h c.1 c.2 j)
            [idxOf w i (k + 0), idxOf w i (k + 1), idxOf w i (k + 2), idxOf w i (k + 3)] lev
            (by
              intro j hj
              simp only [List.mem_cons, List.mem_nil_iff, or_false] at hj
              rcases hj with rfl | rfl | rfl | rfl
              · exact ⟨hinb 0 (by omega), (hgood 0 (by omega)).2.1, hz 0 (by omega)⟩
              · exact ⟨hinb 1 (by omega), (hgood 1 (by omega)).2.1, hz 1 (by omega)⟩
              · exact ⟨hinb 2 (by omega), (hgood 2 (by omega)).2.1, hz 2 (by omega)⟩
              · exact ⟨hinb 3 (by omega), (hgood 3 (by omega)).2.1, hz 3 (by omega)⟩)
            hL1 (hQ lev _ hC)
          refine ⟨_, rfl, lev', hL', hC'.vis, hC'.sig, ?_⟩
          intro j hj
          rcases hC'.rest j hj with (⟨dy, hdy, _, rfl⟩ | h') | h'
          · right
            apply hall
            have : dy = 0 ∨ dy = 1 ∨ dy = 2 ∨ dy = 3 := by omega
            rcases this with rfl | rfl | rfl | rfl <;> simp
          · exact Or.inl h'
          · exact Or.inr h'
        · -- first significant sample at `pos`: one decision plus two position bits
          simp only [hp, if_true]
          obtain ⟨mq1, em1, hm1, hback1, hlock1⟩ := mqonly_lock w h V F R hC bp s hps 1 CTXRL (by decide) (by decide)
          rw [em1]; simp only [Option.bind_some]
          rw [if_neg (by decide)]
          obtain ⟨mq2, em2, hm2, hback2, hlock2⟩ := mqonly_lock w h V F R hC bp { flags := s.flags, mq := mq1 } hm1
            (pos >>> 1 % 2) CTXUNI (by omega) (by decide)
          rw [em2]; simp only [Option.bind_some]
          obtain ⟨mq3, em3, hm3, hback3, hlock3⟩ := mqonly_lock w h V F R hC bp { flags := s.flags, mq := mq2 } hm2
            (pos % 2) CTXUNI (by omega) (by decide)
          rw [em3]; simp only [Option.bind_some]
          have hmb : magBit (gi V (idxOf w i (k + pos))) bp = 1 := by
            have : magBit (gi V (idxOf w i (k + pos))) bp ≤ 1 := by rw [magBit_eq]; omega
            omega
          obtain ⟨r, er4, hok4, hback4, hlock4⟩ := rltail_lock w h V F R hC hV orient bp
            (fun j => ∃ c, c ∈ l ∧ ColS w h c.1 c.2 j) k i pos hq.1 hk3 hp { flags := s.flags, mq := mq3 } hm3
            (hgood pos hp).2.1 (hgood pos hp).1 hmb
          rw [er4]; simp only [Option.bind_some]
          refine ⟨_, rfl, hok4, fun hF => hback1 (hback2 (hback3 (hback4 hF))), ?_⟩
          intro hF sd ⟨lev, hL, hC⟩
          have hF3 := hback4 hF
          have hF2 := hback3 hF3
          have hF1 := hback2 hF2
          obtain ⟨d1, hd1, hL1⟩ := hlock1 hF1 sd lev hL
          obtain ⟨d2, hd2, hL2⟩ := hlock2 hF2 _ lev hL1
          obtain ⟨d3, hd3, hL3⟩ := hlock3 hF3 _ lev hL2
          rw [hdscan sd hL.fl]; simp only [Option.bind_some, if_true]
          rw [hd1]; simp only [Option.bind_some]
          rw [if_neg (by decide), hd2]; simp only [Option.bind_some]
          rw [hd3]; simp only [Option.bind_some]
          rw [runlen_eq pos hp]
          obtain ⟨lev', hL', hC', hall⟩ := down_list (fun j => ColS w h k i j ∨ ∃ c, c ∈ l ∧ ColS w h c.1 c.2 j)
            ((List.range pos).map (fun dy => idxOf w i (k + dy))) lev
            (by
              intro j hj
              simp only [List.mem_map, List.mem_range] at hj
              obtain ⟨dy, hdy, rfl⟩ := hj
              exact ⟨hinb dy (by omega), (hgood dy (by omega)).2.1, hz dy hdy⟩)
            hL3 (hQ lev _ hC)
          obtain ⟨dr, hdr, lev'', hL'', hC''⟩ := hlock4 hF _ ⟨lev', hL', hC'.vis, hC'.sig, by
            intro j hj
            rcases hC'.rest j hj with (⟨dy, hdy, _, rfl⟩ | h') | h'
            · rcases Nat.lt_or_ge dy pos with h1 | h1
              · right
                apply hall
                simp only [List.mem_map, List.mem_range]
                exact ⟨dy, h1, rfl⟩
              · exact Or.inl (Or.inl ⟨dy, h1, hdy, rfl⟩)
            · exact Or.inl (Or.inr h')
            · exact Or.inr h'⟩
          rw [hdr]
          exact ⟨_, rfl, lev'', hL'', hC''⟩
    · simp only [hk3, if_false]
      obtain ⟨es', he, hok, hback, hlock⟩ := hnormal
      refine ⟨es', he, hok, hback, ?_⟩
      intro hF sd ⟨lev, hL, hC⟩
      exact hlock hF sd ⟨lev, hL, hQ lev _ hC⟩
  obtain ⟨es', he, hok, hback, hlock⟩ := key
  refine ⟨es', he, hok, hback, ?_⟩
  intro hF ds ⟨lev, hL, hv5, hsd⟩
  obtain ⟨ds', hd', lev', hL', hC'⟩ := hlock hF ds ⟨lev, hL, hv5, hsd, by
    intro j hj
    obtain ⟨x, y, hx, hy, rfl⟩ := hj
    exact Or.inl (columns_cover w h x y hx hy)⟩
  refine ⟨ds', hd', lev', hL', ?_⟩
  intro j hj
  rcases hC'.rest j hj with ⟨c, hc, _⟩ | h'
  · exact absurd hc (by simp)
  · exact h'
end Lock

theorem clearVisit_eff (fl : Array Nat) :
    (∀ j, sigA (clearVisit fl) j = sigA fl j) ∧ (∀ j, visA (clearVisit fl) j = false) := by
  have hg : ∀ j, gf (clearVisit fl) j = if j < fl.size then clr (gf fl j) fVisit else 0 := by
    intro j
    unfold gf clearVisit
    rw [Array.getElem?_map]
    by_cases hj : j < fl.size
    · rw [if_pos hj, Array.getElem?_eq_getElem hj]; rfl
    · rw [if_neg hj, Array.getElem?_eq_none (by omega)]; rfl
  constructor
  · intro j; unfold sigA; rw [hg]
    split
    · exact (clr_visit _).1
    · rename_i hj
      have : gf fl j = 0 := by unfold gf; rw [Array.getElem?_eq_none (by omega)]; rfl
      rw [this]
  · intro j; unfold visA; rw [hg]
    split
    · exact (clr_visit _).2
    · decide

theorem LS.clearVisit {w h : Nat} {V : Array Int} {R : Mqc.Enc → Mqc.Dec → Prop} {bp : Nat} {lev : Nat → Nat} {es : EncSt} {ds : DecSt}
    (hL : LS w h V R bp lev es ds) :
    LS w h V R bp lev { es with flags := T1.clearVisit es.flags } { ds with flags := T1.clearVisit ds.flags } := by
  refine ⟨by show T1.clearVisit ds.flags = T1.clearVisit es.flags; rw [hL.fl], hL.dsz, hL.rel, ?_⟩
  intro j hj
  exact (hL.smp j hj).frame rfl ((clearVisit_eff es.flags).1 j) rfl

/-- the end of plane `bp` is the start of plane `bp - 1` -/
theorem LS.replane {w h : Nat} {V : Array Int} {R : Mqc.Enc → Mqc.Dec → Prop} {bp : Nat} {lev : Nat → Nat} {es : EncSt} {ds : DecSt}
    (hL : LS w h V R bp lev es ds) (hall : ∀ j, InB w h j → lev j = bp) (hbp : 1 ≤ bp) :
    LS w h V R (bp - 1) lev es ds := by
  refine ⟨hL.fl, hL.dsz, hL.rel, ?_⟩
  intro j hj
  have := hL.smp j hj
  exact ⟨Or.inr (by rw [hall j hj]; omega), this.d, this.s⟩

/-- the coding passes of `Encode` from plane `bp`, pass type `pt` down to the cleanup pass of plane 0, without the
final termination (style 0: no other pass is terminated) -/
def encPasses (w h orient : Nat) (V : Array Int) : Nat → EncSt → (bp pi pt : Nat) → Option EncSt
  | 0, _, _, _, _ => none
  | fuel + 1, st, bp, pi, pt =>
    let st := if pt = 0 ∨ (pt = 2 ∧ pi = 0) then { st with flags := clearVisit st.flags } else st
    match (match pt with
      | 0 => encSigProp w h orient bp V st
      | 1 => encMagRef w h bp V st
      | _ => encCleanup w h orient bp V st) with
    | none => none
    | some st =>
      if pt = 2 then (if bp = 0 then some st else encPasses w h orient V fuel st (bp - 1) (pi + 1) 0)
      else encPasses w h orient V fuel st bp (pi + 1) (pt + 1)

/-- invariant between two passes -/
def PInv (w h : Nat) (V : Array Int) (R : Mqc.Enc → Mqc.Dec → Prop) (bp pi pt : Nat) (es : EncSt) (ds : DecSt) : Prop :=
  ∃ lev, LS w h V R bp lev es ds ∧
    (pt = 0 → ∀ j, InB w h j → lev j = bp + 1) ∧
    (pt = 1 → VisLev w h bp lev es.flags ∧ SigOld w h bp lev es.flags) ∧
    (pt = 2 → (pi = 0 → (∀ j, InB w h j → lev j = bp + 1) ∧ ∀ j, InB w h j → sigA es.flags j = false) ∧
      (pi ≠ 0 → VisLev w h bp lev es.flags ∧ SigDone w h bp lev es.flags))

theorem decLoop_exit (w h orient style np fuel : Nat) (st : DecSt) (bp : Int) (pi pt : Nat) (hbp : bp < 0) :
    decLoop w h orient style np fuel st bp pi pt = some st := by
  cases fuel with
  | zero => rfl
  | succ f => unfold decLoop; rw [if_neg (by omega)]

section Lock
variable (w h : Nat) (V : Array Int) (F : Mqc.Enc → Prop) (R : Mqc.Enc → Mqc.Dec → Prop)
  (hC : Coder F R) (hV : ∀ j, (gi V j).natAbs < 2147483648)
include hC hV

theorem passes_lock (orient np : Nat) : ∀ (fuel : Nat) (es : EncSt) (bp pi pt : Nat), EncOk w h V es → pt ≤ 2 →
    3 * bp + 3 - pt ≤ fuel →
    ∃ esP, encPasses w h orient V fuel es bp pi pt = some esP ∧ EncOk w h V esP ∧
      (F esP.mq → F es.mq) ∧
      (F esP.mq → ∀ (ds : DecSt), PInv w h V R bp pi pt es ds → pi + (3 * bp + 3 - pt) ≤ np →
        ∃ ds', decLoop w h orient 0 np fuel ds (bp : Int) pi pt = some ds' ∧
          ∃ lev, LS w h V R 0 lev esP ds' ∧ ∀ j, InB w h j → lev j = 0) := by
  intro fuel
  induction fuel with
  | zero => intro es bp pi pt _ hpt hf; omega
  | succ f ih =>
    intro es bp pi pt hs hpt hf
    have hvis0 : ∀ (lev : Nat → Nat) (fl : Array Nat), VisLev w h bp lev (clearVisit fl) := by
      intro lev fl j _ hv; rw [(clearVisit_eff fl).2] at hv; exact absurd hv (by simp)
    rcases (show pt = 0 ∨ pt = 1 ∨ pt = 2 by omega) with rfl | rfl | rfl
    · -- significance propagation
      have hs1 : EncOk w h V { es with flags := clearVisit es.flags } :=
        ⟨by show (clearVisit es.flags).size = _; unfold clearVisit; rw [Array.size_map]; exact hs.fsz, hs.dsz, hs.reg, hs.norm, hs.nctx⟩
      obtain ⟨es2, he2, hok2, hback2, hlock2⟩ := spp_lock w h V F R hC hV orient bp _ hs1
      obtain ⟨esP, heP, hokP, hbackP, hlockP⟩ := ih es2 bp (pi + 1) 1 hok2 (by omega) (by omega)
      refine ⟨esP, ?_, hokP, fun hF => hback2 (hbackP hF), ?_⟩
      · unfold encPasses
        simp only [true_or, if_true]
        rw [he2]
        try simp only []
        rw [if_neg (by decide)]
        exact heP
      · intro hF ds ⟨lev, hL, h0, _, _⟩ hnp
        obtain ⟨ds2, hd2, lev2, hL2, hv2, hso2⟩ := hlock2 (hbackP hF) _ ⟨lev, hL.clearVisit, hvis0 lev _, by
          intro j hj _ _; exact h0 rfl j hj⟩
        obtain ⟨ds', hd', hfin⟩ := hlockP hF ds2 ⟨lev2, hL2, fun hh => absurd hh (by decide), fun _ => ⟨hv2, hso2⟩,
          fun hh => absurd hh (by decide)⟩ (by omega)
        refine ⟨ds', ?_, hfin⟩
        unfold decLoop
        rw [if_pos ⟨by omega, by omega⟩]
        simp only [true_or, if_true, Int.toNat_natCast]
        rw [hd2]
        try simp only []
        rw [if_neg (fun hh => absurd hh.1 (by decide))]
        try simp only []
        rw [if_neg (by decide)]
        exact hd'
    · -- magnitude refinement
      obtain ⟨es2, he2, hok2, hback2, hlock2⟩ := mrp_lock w h V F R hC hV bp es hs
      obtain ⟨esP, heP, hokP, hbackP, hlockP⟩ := ih es2 bp (pi + 1) 2 hok2 (by omega) (by omega)
      refine ⟨esP, ?_, hokP, fun hF => hback2 (hbackP hF), ?_⟩
      · unfold encPasses
        rw [if_neg (by omega)]
        try simp only []
        rw [he2]
        try simp only []
        rw [if_neg (by decide)]
        exact heP
      · intro hF ds ⟨lev, hL, _, h1, _⟩ hnp
        obtain ⟨ds2, hd2, lev2, hL2, hv2, hsd2⟩ := hlock2 (hbackP hF) ds ⟨lev, hL, (h1 rfl).1, (h1 rfl).2⟩
        obtain ⟨ds', hd', hfin⟩ := hlockP hF ds2 ⟨lev2, hL2, fun hh => absurd hh (by decide), fun hh => absurd hh (by decide),
          fun _ => ⟨fun hh => absurd hh (by omega), fun _ => ⟨hv2, hsd2⟩⟩⟩ (by omega)
        refine ⟨ds', ?_, hfin⟩
        unfold decLoop
        rw [if_pos ⟨by omega, by omega⟩]
        simp only [Int.toNat_natCast]
        rw [if_neg (by omega)]
        try simp only []
        rw [hd2]
        try simp only []
        rw [if_neg (fun hh => absurd hh.1 (by decide))]
        try simp only []
        rw [if_neg (by decide)]
        exact hd'
    · -- cleanup
      by_cases hpi : pi = 0
      · have hs1 : EncOk w h V { es with flags := clearVisit es.flags } :=
          ⟨by show (clearVisit es.flags).size = _; unfold clearVisit; rw [Array.size_map]; exact hs.fsz, hs.dsz, hs.reg, hs.norm, hs.nctx⟩
        obtain ⟨es2, he2, hok2, hback2, hlock2⟩ := cleanup_lock w h V F R hC hV orient bp _ hs1
        by_cases hb0 : bp = 0
        · refine ⟨es2, ?_, hok2, hback2, ?_⟩
          · unfold encPasses
            rw [if_pos (by first | exact Or.inr ⟨rfl, hpi⟩ | exact Or.inr ⟨True.intro, hpi⟩)]
            try simp only []
            rw [he2]
            try simp only []
            (first | rw [if_pos rfl] | rw [if_pos True.intro]); rw [if_pos hb0]
          · intro hF ds ⟨lev, hL, _, _, h2⟩ hnp
            obtain ⟨ds2, hd2, lev2, hL2, hall2⟩ := hlock2 hF _ ⟨lev, hL.clearVisit, hvis0 lev _, by
              intro j hj hsj
              rw [(clearVisit_eff es.flags).1] at hsj
              rw [((h2 rfl).1 hpi).2 j hj] at hsj
              exact absurd hsj (by simp)⟩
            refine ⟨ds2, ?_, lev2, by rw [hb0] at hL2; exact hL2, by rw [hb0] at hall2; exact hall2⟩
            unfold decLoop
            rw [if_pos ⟨by omega, by omega⟩]
            simp only [Int.toNat_natCast]
            rw [if_pos (by first | exact Or.inr ⟨rfl, hpi⟩ | exact Or.inr ⟨True.intro, hpi⟩)]
            try simp only []
            rw [hd2]
            simp only [Option.bind_some]
            rw [if_neg (by decide)]
            try simp only []
            rw [if_neg (fun hh => absurd hh.1 (by decide))]
            try simp only []
            (first | rw [if_pos rfl] | rw [if_pos True.intro])
            exact decLoop_exit _ _ _ _ _ _ _ _ _ _ (by omega)
        · obtain ⟨esP, heP, hokP, hbackP, hlockP⟩ := ih es2 (bp - 1) (pi + 1) 0 hok2 (by omega) (by omega)
          refine ⟨esP, ?_, hokP, fun hF => hback2 (hbackP hF), ?_⟩
          · unfold encPasses
            rw [if_pos (by first | exact Or.inr ⟨rfl, hpi⟩ | exact Or.inr ⟨True.intro, hpi⟩)]
            try simp only []
            rw [he2]
            try simp only []
            (first | rw [if_pos rfl] | rw [if_pos True.intro]); rw [if_neg hb0]
            exact heP
          · intro hF ds ⟨lev, hL, _, _, h2⟩ hnp
            obtain ⟨ds2, hd2, lev2, hL2, hall2⟩ := hlock2 (hbackP hF) _ ⟨lev, hL.clearVisit, hvis0 lev _, by
              intro j hj hsj
              rw [(clearVisit_eff es.flags).1] at hsj
              rw [((h2 rfl).1 hpi).2 j hj] at hsj
              exact absurd hsj (by simp)⟩
            obtain ⟨ds', hd', hfin⟩ := hlockP hF ds2 ⟨lev2, hL2.replane hall2 (by omega),
              fun _ j hj => by rw [hall2 j hj]; omega, fun hh => absurd hh (by decide), fun hh => absurd hh (by decide)⟩ (by omega)
            refine ⟨ds', ?_, hfin⟩
            unfold decLoop
            rw [if_pos ⟨by omega, by omega⟩]
            simp only [Int.toNat_natCast]
            rw [if_pos (by first | exact Or.inr ⟨rfl, hpi⟩ | exact Or.inr ⟨True.intro, hpi⟩)]
            try simp only []
            rw [hd2]
            simp only [Option.bind_some]
            rw [if_neg (by decide)]
            try simp only []
            rw [if_neg (fun hh => absurd hh.1 (by decide))]
            try simp only []
            (first | rw [if_pos rfl] | rw [if_pos True.intro])
            rw [show ((bp : Int) - 1) = ((bp - 1 : Nat) : Int) by omega]
            exact hd'
      · skip
        obtain ⟨es2, he2, hok2, hback2, hlock2⟩ := cleanup_lock w h V F R hC hV orient bp es hs
        by_cases hb0 : bp = 0
        · refine ⟨es2, ?_, hok2, hback2, ?_⟩
          · unfold encPasses
            rw [if_neg (by omega)]
            try simp only []
            rw [he2]
            try simp only []
            (first | rw [if_pos rfl] | rw [if_pos True.intro]); rw [if_pos hb0]
          · intro hF ds ⟨lev, hL, _, _, h2⟩ hnp
            obtain ⟨ds2, hd2, lev2, hL2, hall2⟩ := hlock2 hF ds ⟨lev, hL, ((h2 rfl).2 hpi).1, ((h2 rfl).2 hpi).2⟩
            refine ⟨ds2, ?_, lev2, by rw [hb0] at hL2; exact hL2, by rw [hb0] at hall2; exact hall2⟩
            unfold decLoop
            rw [if_pos ⟨by omega, by omega⟩]
            simp only [Int.toNat_natCast]
            rw [if_neg (by omega)]
            try simp only []
            rw [hd2]
            simp only [Option.bind_some]
            rw [if_neg (by decide)]
            try simp only []
            rw [if_neg (fun hh => absurd hh.1 (by decide))]
            try simp only []
            (first | rw [if_pos rfl] | rw [if_pos True.intro])
            exact decLoop_exit _ _ _ _ _ _ _ _ _ _ (by omega)
        · obtain ⟨esP, heP, hokP, hbackP, hlockP⟩ := ih es2 (bp - 1) (pi + 1) 0 hok2 (by omega) (by omega)
          refine ⟨esP, ?_, hokP, fun hF => hback2 (hbackP hF), ?_⟩
          · unfold encPasses
            rw [if_neg (by omega)]
            try simp only []
            rw [he2]
            try simp only []
            (first | rw [if_pos rfl] | rw [if_pos True.intro]); rw [if_neg hb0]
            exact heP
          · intro hF ds ⟨lev, hL, _, _, h2⟩ hnp
            obtain ⟨ds2, hd2, lev2, hL2, hall2⟩ := hlock2 (hbackP hF) ds ⟨lev, hL, ((h2 rfl).2 hpi).1, ((h2 rfl).2 hpi).2⟩
            obtain ⟨ds', hd', hfin⟩ := hlockP hF ds2 ⟨lev2, hL2.replane hall2 (by omega),
              fun _ j hj => by rw [hall2 j hj]; omega, fun hh => absurd hh (by decide), fun hh => absurd hh (by decide)⟩ (by omega)
            refine ⟨ds', ?_, hfin⟩
            unfold decLoop
            rw [if_pos ⟨by omega, by omega⟩]
            simp only [Int.toNat_natCast]
            rw [if_neg (by omega)]
            try simp only []
            rw [hd2]
            simp only [Option.bind_some]
            rw [if_neg (by decide)]
            try simp only []
            rw [if_neg (fun hh => absurd hh.1 (by decide))]
            try simp only []
            (first | rw [if_pos rfl] | rw [if_pos True.intro])
            rw [show ((bp : Int) - 1) = ((bp - 1 : Nat) : Int) by omega]
            exact hd'
end Lock

theorem nonterm0 (bp mb pt : Int) (h : ¬(pt = 2 ∧ bp = 0)) : J2kT1.isTerminatingPass bp mb pt ((0 : Nat) : Int) = false := by
  cases hh : J2kT1.isTerminatingPass bp mb pt ((0 : Nat) : Int)
  · rfl
  · exact absurd (terminating_plain bp mb pt _ (by decide) (by decide) hh) h

/-- for style 0 and a pass budget that covers all passes, `Encode`'s loop is the plain pass sequence followed by one
`FlushToOutput` -/
theorem encLoop_split (w h orient : Nat) (V : Array Int) (mb np : Nat) : ∀ (fuel : Nat) (es : EncSt) (bp pi pt : Nat),
    pt ≤ 2 → 3 * bp + 3 - pt ≤ fuel → pi + (3 * bp + 3 - pt) ≤ np →
    encLoop w h orient 0 V mb np fuel es (bp : Int) pi pt false =
      (encPasses w h orient V fuel es bp pi pt).bind fun stP =>
        (Mqc.flushToOutput stP.mq).map fun m => (({ stP with mq := m } : EncSt), true) := by
  intro fuel
  induction fuel with
  | zero => intro es bp pi pt hpt hf _; omega
  | succ f ih =>
    intro es bp pi pt hpt hf hnp
    unfold encLoop encPasses
    rw [if_pos ⟨by omega, by omega⟩]
    simp only [Int.toNat_natCast, Bool.false_eq_true, if_false]
    rcases (show pt = 0 ∨ pt = 1 ∨ pt = 2 by omega) with rfl | rfl | rfl
    · simp only [true_or, if_true]
      cases ho : encSigProp w h orient bp V { flags := clearVisit es.flags, mq := es.mq } with
      | none => rfl
      | some st2 =>
        simp only [Option.bind_some]
        rw [nonterm0 _ _ _ (by omega)]
        simp only [Bool.false_eq_true, if_false]
        rw [if_neg (by decide)]
        simp only []
        rw [if_neg (by decide), if_neg (by decide)]
        exact ih st2 bp (pi + 1) 1 (by omega) (by omega) (by omega)
    · simp only [show ¬(1 = 0 ∨ 1 = 2 ∧ pi = 0) from by omega, if_false]
      cases ho : encMagRef w h bp V es with
      | none => rfl
      | some st2 =>
        simp only [Option.bind_some]
        rw [nonterm0 _ _ _ (by omega)]
        simp only [Bool.false_eq_true, if_false]
        rw [if_neg (by decide)]
        simp only []
        rw [if_neg (by decide), if_neg (by decide)]
        exact ih st2 bp (pi + 1) 2 (by omega) (by omega) (by omega)
    · simp only []
      generalize hst1 : (if 2 = 0 ∨ True ∧ pi = 0 then ({ flags := clearVisit es.flags, mq := es.mq } : EncSt) else es) = st1
      cases ho : encCleanup w h orient bp V st1 with
      | none => rfl
      | some st2 =>
        simp only [Option.bind_some]
        rw [if_neg (by decide)]
        simp only []
        by_cases hb0 : bp = 0
        · subst hb0
          rw [show J2kT1.isTerminatingPass ((0 : Nat) : Int) (mb : Int) ((2 : Nat) : Int) ((0 : Nat) : Int) = true from
            terminating_last _ _]
          simp only [if_true, Option.bind_some]
          rw [if_neg (by decide)]
          cases hfl : Mqc.flushToOutput st2.mq with
          | none => rfl
          | some m =>
            simp only [Option.map_some]
            rw [if_neg (by decide)]
            simp only []
            rw [encLoop_exit _ _ _ _ _ _ _ _ _ _ _ _ _ (by omega)]
        · rw [nonterm0 _ _ _ (by omega)]
          simp only [Bool.false_eq_true, if_false]
          rw [if_neg (by decide)]
          simp only []
          rw [if_neg hb0, show ((bp : Int) - 1) = ((bp - 1 : Nat) : Int) by omega]
          exact ih st2 (bp - 1) (pi + 1) 0 (by omega) (by omega) (by omega)

theorem list_foldl_inv {α β : Type} (P : β → Prop) (f : β → α → β) (hf : ∀ b a, P b → P (f b a)) :
    ∀ (l : List α) (b : β), P b → P (l.foldl f b) := by
  intro l
  induction l with
  | nil => intro b hb; exact hb
  | cons a l ih => intro b hb; exact ih _ (hf b a hb)

theorem getD_bound (c : List Int) (k : Nat) (hc : ∀ v ∈ c, v.natAbs < 2147483648) : (c.getD k 0).natAbs < 2147483648 := by
  rw [List.getD_eq_getElem?_getD]
  by_cases hk : k < c.length
  · rw [List.getElem?_eq_getElem hk]; exact hc _ (List.getElem_mem hk)
  · rw [List.getElem?_eq_none (by omega)]; decide

theorem padBlock_bound (w h : Nat) (c : List Int) (hc : ∀ v ∈ c, v.natAbs < 2147483648) :
    ∀ j, (gi (padBlock w h c) j).natAbs < 2147483648 := by
  unfold padBlock
  simp only []
  apply list_foldl_inv (fun (a : Array Int) => ∀ j, (gi a j).natAbs < 2147483648)
  · intro a y ha
    apply list_foldl_inv (fun (a : Array Int) => ∀ j, (gi a j).natAbs < 2147483648) _ _ _ _ ha
    intro a x ha j
    by_cases hi : idxOf w x y < a.size
    · rw [gi_set _ _ _ _ hi]
      split
      · exact getD_bound c _ hc
      · exact ha j
    · rw [show a.setIfInBounds (idxOf w x y) (c.getD (y * w + x) 0) = a from by
        apply Array.ext
        · simp
        · intro i h1 h2; rw [Array.getElem_setIfInBounds]; rw [if_neg (by omega)]]
      exact ha j
  · intro j
    unfold gi
    rw [Array.getElem?_replicate]
    split <;> decide

/-- one row of the padded copy -/
theorem padRow (w : Nat) (c : List Int) (y : Nat) : ∀ (n : Nat) (a : Array Int), n ≤ w →
    (∀ x, x < w → idxOf w x y < a.size) →
    let r := (List.range n).foldl (fun a x => a.setIfInBounds (idxOf w x y) (c.getD (y * w + x) 0)) a
    r.size = a.size ∧ (∀ x, x < n → gi r (idxOf w x y) = c.getD (y * w + x) 0) ∧
      (∀ j, (∀ x, x < n → j ≠ idxOf w x y) → gi r j = gi a j) := by
  intro n
  induction n with
  | zero => intro a _ _; exact ⟨rfl, fun x hx => absurd hx (by omega), fun j _ => rfl⟩
  | succ n ih =>
    intro a hn hsz
    obtain ⟨h1, h2, h3⟩ := ih a (by omega) hsz
    simp only [] at h1 h2 h3 ⊢
    rw [List.range_succ, List.foldl_append]
    simp only [List.foldl_cons, List.foldl_nil]
    have hin : idxOf w n y < ((List.range n).foldl (fun a x => a.setIfInBounds (idxOf w x y) (c.getD (y * w + x) 0)) a).size := by
      rw [h1]; exact hsz n (by omega)
    refine ⟨by rw [Array.size_setIfInBounds]; exact h1, ?_, ?_⟩
    · intro x hx
      rw [gi_set _ _ _ _ hin]
      by_cases hxn : x = n
      · subst hxn; rw [if_pos rfl]
      · rw [if_neg (by unfold idxOf; omega)]
        exact h2 x (by omega)
    · intro j hj
      rw [gi_set _ _ _ _ hin, if_neg (hj n (by omega))]
      exact h3 j (fun x hx => hj x (by omega))

theorem padBlock_get (w h : Nat) (c : List Int) :
    (padBlock w h c).size = (w + 2) * (h + 2) ∧
    ∀ x y, x < w → y < h → gi (padBlock w h c) (idxOf w x y) = c.getD (y * w + x) 0 := by
  have key : ∀ (m : Nat) (a : Array Int), m ≤ h → a.size = (w + 2) * (h + 2) →
      let r := (List.range m).foldl (fun a y => (List.range w).foldl (fun a x =>
        a.setIfInBounds (idxOf w x y) (c.getD (y * w + x) 0)) a) a
      r.size = a.size ∧ (∀ x y, x < w → y < m → gi r (idxOf w x y) = c.getD (y * w + x) 0) ∧
        (∀ j, (∀ x y, x < w → y < m → j ≠ idxOf w x y) → gi r j = gi a j) := by
    intro m
    induction m with
    | zero => intro a _ _; exact ⟨rfl, fun x y _ hy => absurd hy (by omega), fun j _ => rfl⟩
    | succ m ih =>
      intro a hm hsz
      obtain ⟨h1, h2, h3⟩ := ih a (by omega) hsz
      simp only [] at h1 h2 h3 ⊢
      rw [List.range_succ, List.foldl_append]
      simp only [List.foldl_cons, List.foldl_nil]
      obtain ⟨r1, r2, r3⟩ := padRow w c m w _ (Nat.le_refl w) (by
        intro x hx; rw [h1, hsz]; exact idx_lt w h x m hx (by omega))
      try simp only [] at r1 r2 r3
      refine ⟨by rw [r1, h1], ?_, ?_⟩
      · intro x y hx hy
        by_cases hym : y = m
        · subst hym; exact r2 x hx
        · rw [r3 _ (by
            intro x' hx' heq
            exact hym (idx_inj w x y x' m hx hx' heq).2)]
          exact h2 x y hx (by omega)
      · intro j hj
        rw [r3 j (fun x hx => hj x m hx (by omega))]
        exact h3 j (fun x y hx hy => hj x y hx (by omega))
  obtain ⟨k1, k2, _⟩ := key h (Array.replicate ((w + 2) * (h + 2)) 0) (Nat.le_refl h) (by simp)
  exact ⟨by unfold padBlock; simp only [] at k1 ⊢; rw [k1]; simp, fun x y hx hy => by unfold padBlock; exact k2 x y hx hy⟩

theorem le_foldl_max : ∀ (l : List Int) (m0 : Nat),
    m0 ≤ l.foldl (fun m v => max m v.natAbs) m0 ∧ ∀ v ∈ l, v.natAbs ≤ l.foldl (fun m v => max m v.natAbs) m0 := by
  intro l
  induction l with
  | nil => intro m0; exact ⟨Nat.le_refl _, fun v hv => absurd hv (by simp)⟩
  | cons a l ih =>
    intro m0
    obtain ⟨h1, h2⟩ := ih (max m0 a.natAbs)
    simp only [List.foldl_cons]
    refine ⟨by omega, ?_⟩
    intro v hv
    rcases List.mem_cons.mp hv with rfl | h'
    · omega
    · exact h2 v h'

/-- above the top bit-plane every magnitude is zero -/
theorem maxbp_zero (V : Array Int) (mb : Nat) (h : findMaxBitplane V = some mb) :
    ∀ j, (gi V j).natAbs / 2 ^ (mb + 1) = 0 := by
  unfold findMaxBitplane at h
  simp only [] at h
  split at h
  · exact absurd h (by simp)
  · injection h with h
    intro j
    apply Nat.div_eq_of_lt
    have hlt := @Nat.lt_log2_self (V.foldl (fun m v => max m v.natAbs) 0)
    rw [h] at hlt
    refine Nat.lt_of_le_of_lt ?_ hlt
    unfold gi
    by_cases hj : j < V.size
    · rw [Array.getElem?_eq_getElem hj]
      rw [← Array.foldl_toList]
      exact (le_foldl_max V.toList 0).2 _ (Array.mem_toList_iff.mpr (Array.getElem_mem hj))
    · rw [Array.getElem?_eq_none (by omega)]
      exact Nat.zero_le _

theorem mapM_get (a : Array Int) : ∀ (l : List Nat), (∀ i ∈ l, i < a.size) →
    l.mapM (fun i => a[i]?) = some (l.map (gi a)) := by
  intro l
  induction l with
  | nil => intro _; rfl
  | cons i l ih =>
    intro hl
    rw [List.mapM_cons, Array.getElem?_eq_getElem (hl i List.mem_cons_self), ih (fun j hj => hl j (List.mem_cons_of_mem _ hj))]
    simp only [List.map_cons, gi_get _ _ (hl i List.mem_cons_self)]
    rfl

theorem flatMap_congr' {α β : Type} (f g : α → List β) : ∀ (l : List α), (∀ a ∈ l, f a = g a) → l.flatMap f = l.flatMap g := by
  intro l
  induction l with
  | nil => intro _; rfl
  | cons a l ih =>
    intro h
    rw [List.flatMap_cons, List.flatMap_cons, h a List.mem_cons_self, ih (fun b hb => h b (List.mem_cons_of_mem _ hb))]

/-- reading the block back row by row -/
theorem rows_eq (w : Nat) : ∀ (h : Nat) (c : List Int), c.length = w * h →
    (List.range h).flatMap (fun y => (List.range w).map (fun x => c.getD (y * w + x) 0)) = c := by
  intro h
  induction h with
  | zero => intro c hc; simp at hc; subst hc; rfl
  | succ h ih =>
    intro c hc
    rw [List.range_succ, List.flatMap_append]
    simp only [List.flatMap_cons, List.flatMap_nil, List.append_nil]
    have hlen : w * (h + 1) = w * h + w := by rw [Nat.mul_succ]
    have htake : (c.take (w * h)).length = w * h := by rw [List.length_take]; omega
    have h1 : (List.range h).flatMap (fun y => (List.range w).map (fun x => c.getD (y * w + x) 0)) = c.take (w * h) := by
      rw [← ih (c.take (w * h)) htake]
      apply flatMap_congr'
      intro y hy
      apply List.map_congr_left
      intro x hx
      have hy' := List.mem_range.mp hy
      have hx' := List.mem_range.mp hx
      have hlt : y * w + x < w * h := by
        have : (y + 1) * w ≤ h * w := Nat.mul_le_mul_right _ hy'
        rw [Nat.add_mul, Nat.one_mul, Nat.mul_comm h w] at this; omega
      rw [List.getD_eq_getElem?_getD, List.getD_eq_getElem?_getD, List.getElem?_take, if_pos hlt]
    have h2 : (List.range w).map (fun x => c.getD (h * w + x) 0) = c.drop (w * h) := by
      apply List.ext_getElem
      · simp; omega
      · intro i hi1 hi2
        simp only [List.length_map, List.length_range] at hi1
        rw [List.getElem_map, List.getElem_range, List.getElem_drop, List.getD_eq_getElem?_getD,
          List.getElem?_eq_getElem (by rw [Nat.mul_comm h w]; omega)]
        simp only [Option.getD_some]
        congr 1
        rw [Nat.mul_comm]
    rw [h1, h2, List.take_append_drop]

/-- the three `SetContextState` calls, as one function of the context array -/
def ctx3 (c : Array Nat) : Array Nat :=
  ((c.setIfInBounds CTXUNI (Mqc.u8 46)).setIfInBounds CTXRL (Mqc.u8 3)).setIfInBounds 0 (Mqc.u8 4)

theorem initCtx_eq (e : Mqc.Enc) (h : e.ctx.size = 19) : initCtx e = some { e with ctx := ctx3 e.ctx } := by
  unfold initCtx Mqc.setContextState
  simp only [Option.bind_eq_bind, h]
  rw [if_pos (by decide)]; simp only [Option.bind_some, Array.size_setIfInBounds, h]
  rw [if_pos (by decide)]; simp only [Option.bind_some, Array.size_setIfInBounds, h]
  rw [if_pos (by decide)]; rfl

theorem initCtxDec_eq (d : Mqc.Dec) (h : d.ctx.size = 19) : initCtxDec d = some { d with ctx := ctx3 d.ctx } := by
  unfold initCtxDec
  simp only [Option.bind_eq_bind, h]
  rw [if_pos (by decide)]; simp only [Option.bind_some, Array.size_setIfInBounds, h]
  rw [if_pos (by decide)]; simp only [Option.bind_some, Array.size_setIfInBounds, h]
  rw [if_pos (by decide)]; rfl

/-- some well-formed decoder input (used only to name the encoder's pass result before the real buffer is known) -/
theorem bok_dummy : Mqc.BOk (fun j => if j ≤ 1 then 0 else 255) 1 1 := by
  refine ⟨?_, by omega, by omega, ?_, by decide, ?_⟩
  · intro j hj; show (if j ≤ 1 then 0 else 255) = 255; rw [if_neg (by omega)]
  · intro j hj h255
    have h255' : (if j ≤ 1 then 0 else 255) = 255 := h255
    rw [if_pos (by omega)] at h255'
    exact absurd h255' (by decide)
  · intro j; show (if j ≤ 1 then 0 else 255) < 256; split <;> decide

/-- **T1 block round trip (style 0, all passes)**: `Encode` then `DecodeWithBitplane` with the block's top
bit-plane and all `3·(mb+1) − 2` passes returns the coefficients -/
theorem t1_roundtrip (w h orient mb : Nat) (coeffs : List Int) (hlen : coeffs.length = w * h)
    (hbnd : ∀ c ∈ coeffs, c.natAbs < 2147483648) (hmb : findMaxBitplane (padBlock w h coeffs) = some mb) :
    ∃ bytes, encodeBlock w h orient 0 coeffs (3 * mb + 1) = .ok bytes ∧
      decodeBlock w h orient 0 (3 * mb + 1) (mb : Int) bytes = .ok coeffs := by
  obtain ⟨hVsz, hVget⟩ := padBlock_get w h coeffs
  have hVb := padBlock_bound w h coeffs hbnd
  have hz := maxbp_zero _ mb hmb
  -- the encoder's start state
  obtain ⟨h0, n0, s0⟩ := Mqc.new_ok NUMCONTEXTS
  have hi0 := initCtx_eq (Mqc.Enc.new NUMCONTEXTS) s0
  obtain ⟨e0, he0, hr0, hn0, hsz0⟩ := initCtx_ok
  have hee : e0 = { Mqc.Enc.new NUMCONTEXTS with ctx := ctx3 (Mqc.Enc.new NUMCONTEXTS).ctx } :=
    Option.some.inj (he0.symm.trans hi0)
  subst hee
  have hs0 : EncOk w h (padBlock w h coeffs)
      { flags := Array.replicate ((w + 2) * (h + 2)) 0,
        mq := { Mqc.Enc.new NUMCONTEXTS with ctx := ctx3 (Mqc.Enc.new NUMCONTEXTS).ctx } } :=
    ⟨by simp, hVsz, hr0, hn0, hsz0⟩
  -- name the result of the passes, then the final buffer
  obtain ⟨esP, hP, hokP, _, _⟩ := passes_lock w h (padBlock w h coeffs) _ _ (coder_mq _ 1 1 bok_dummy) hVb orient (3 * mb + 1)
    (3 * mb + 1 + 1) _ mb 0 2 hs0 (by omega) (by omega)
  obtain ⟨ef, bytes, last, len, hfl, hB, hfe, hblen, hbytes, _, hl1⟩ := Mqc.flush_facts esP.mq hokP.reg hokP.norm
  obtain ⟨esP', hP', _, hbackP, hlockP⟩ := passes_lock w h (padBlock w h coeffs) _ _ (coder_mq _ last len hB) hVb orient (3 * mb + 1)
    (3 * mb + 1 + 1) _ mb 0 2 hs0 (by omega) (by omega)
  have hpp : esP' = esP := Option.some.inj (hP'.symm.trans hP)
  subst hpp
  have hflush : Mqc.flushToOutput esP'.mq = some ef ∧ bytes = Mqc.getBuffer ef := by
    unfold Mqc.flush at hfl
    cases hq : Mqc.flushToOutput esP'.mq with
    | none => rw [hq] at hfl; exact absurd hfl (by simp)
    | some e' =>
      rw [hq] at hfl
      simp only [Option.map_some, Option.some.injEq, Prod.mk.injEq] at hfl
      exact ⟨by rw [hfl.1], by rw [← hfl.2, hfl.1]⟩
  refine ⟨bytes, ?_, ?_⟩
  · unfold encodeBlock
    rw [if_neg (by rw [hlen]; exact fun hc => hc rfl)]
    simp only []
    rw [hmb]
    simp only []
    rw [hi0]
    simp only []
    rw [encLoop_split w h orient _ mb (3 * mb + 1) (3 * mb + 1 + 1) _ mb 0 2 (by omega) (by omega) (by omega), hP']
    simp only [Option.bind_some, hflush.1, Option.map_some, if_true]
    rw [hflush.2]
  · have hfe0 : Mqc.FE (Mqc.finalB ef.buf last) last (Mqc.Enc.new NUMCONTEXTS) := hbackP hfe
    obtain ⟨d0, hd0, hrel0⟩ := Mqc.decNew_rel _ last len hB NUMCONTEXTS bytes hblen hbytes hl1 hfe0
    have hd0sz : d0.ctx.size = 19 := by rw [hrel0.ctx]; exact s0
    have hid0 := initCtxDec_eq d0 hd0sz
    have hrel1 : Mqc.Rel (Mqc.finalB ef.buf last) last len
        { Mqc.Enc.new NUMCONTEXTS with ctx := ctx3 (Mqc.Enc.new NUMCONTEXTS).ctx } { d0 with ctx := ctx3 d0.ctx } :=
      ⟨hrel0.a, congrArg ctx3 hrel0.ctx, hrel0.size, hrel0.data, hrel0.bple, hrel0.eos, hrel0.ctlo, hrel0.cthi,
        hrel0.ahead, hrel0.wdeq, hrel0.eq⟩
    have hrep : ∀ j, gi (Array.replicate ((w + 2) * (h + 2)) (0 : Int)) j = 0 := by
      intro j; unfold gi; rw [Array.getElem?_replicate]; split <;> rfl
    have hrepf : ∀ j, sigA (Array.replicate ((w + 2) * (h + 2)) (0 : Nat)) j = false := by
      intro j; unfold sigA gf; rw [Array.getElem?_replicate]; split <;> rfl
    obtain ⟨ds', hd', lev', hL', hall⟩ := hlockP hfe
      { flags := Array.replicate ((w + 2) * (h + 2)) 0, data := Array.replicate ((w + 2) * (h + 2)) 0,
        mq := { d0 with ctx := ctx3 d0.ctx } }
      ⟨fun _ => mb + 1, ⟨rfl, by simp, hrel1, fun j _ =>
          ⟨Or.inr rfl, by show gi (Array.replicate _ 0) j = _; rw [hrep, tr_zero _ _ (hz j)],
           by show sigA (Array.replicate _ 0) j = true ↔ _; rw [hrepf, hz j]; simp⟩⟩,
        fun hh => absurd hh (by decide), fun hh => absurd hh (by decide),
        fun _ => ⟨fun _ => ⟨fun j _ => rfl, fun j _ => hrepf j⟩, fun hh => absurd rfl hh⟩⟩ (by omega)
    unfold decodeBlock
    rw [if_neg (by omega), hd0]
    simp only []
    rw [hid0]
    simp only []
    rw [hd']
    simp only []
    rw [mapM_get ds'.data _ (by
      intro i hi
      simp only [List.mem_flatMap, List.mem_range, List.mem_map] at hi
      obtain ⟨y, hy, x, hx, rfl⟩ := hi
      rw [hL'.dsz]; exact idx_lt w h x y hx hy)]
    simp only []
    congr 1
    rw [List.map_flatMap]
    rw [← rows_eq w h coeffs hlen]
    apply flatMap_congr'
    intro y hy
    rw [List.map_map]
    apply List.map_congr_left
    intro x hx
    have hy' := List.mem_range.mp hy
    have hx' := List.mem_range.mp hx
    have hin : InB w h (idxOf w x y) := ⟨x, y, hx', hy', rfl⟩
    show gi ds'.data (idxOf w x y) = _
    rw [(hL'.smp _ hin).d, hall _ hin, tr_0, hVget x y hx' hy']
end T1
