import GdcVerif.Model.Dct
import GdcVerif.Lemmas.Dct
import GdcVerif.Lemmas.DctPass
import GdcVerif.Lemmas.DctStages
import GdcVerif.Lemmas.DctColour
/-!
  2-D combination of the per-pass bounds into a block-level theorem for the 8-bit greyscale path.
  GENERATED in part by docs/wp-dct/gen_block.py (adapters and the 8-way case splits); the final theorems at the end
  of the file are hand-written.
-/
namespace Dct
open Gen.JpegStd Gen.JpegBaseline
set_option maxRecDepth 100000

theorem sel8_mk (a b c d e f g h : Int) :
    sel8 (a, b, c, d, e, f, g, h) 0 = a ∧ sel8 (a, b, c, d, e, f, g, h) 1 = b ∧ sel8 (a, b, c, d, e, f, g, h) 2 = c ∧
    sel8 (a, b, c, d, e, f, g, h) 3 = d ∧ sel8 (a, b, c, d, e, f, g, h) 4 = e ∧ sel8 (a, b, c, d, e, f, g, h) 5 = f ∧
    sel8 (a, b, c, d, e, f, g, h) 6 = g ∧ sel8 (a, b, c, d, e, f, g, h) 7 = h := ⟨rfl, rfl, rfl, rfl, rfl, rfl, rfl, rfl⟩

theorem rowF_facts (d : Blk) (y : Nat) :
    rowF d y 0 = 4 * ((1) * d y 0 + (1) * d y 1 + (1) * d y 2 + (1) * d y 3 + (1) * d y 4 + (1) * d y 5 + (1) * d y 6 + (1) * d y 7) ∧
    (-1024 ≤ 2048 * rowF d y 1 - ((11363) * d y 0 + (9633) * d y 1 + (6437) * d y 2 + (2260) * d y 3 + (-2260) * d y 4 + (-6437) * d y 5 + (-9633) * d y 6 + (-11363) * d y 7) ∧ 2048 * rowF d y 1 - ((11363) * d y 0 + (9633) * d y 1 + (6437) * d y 2 + (2260) * d y 3 + (-2260) * d y 4 + (-6437) * d y 5 + (-9633) * d y 6 + (-11363) * d y 7) ≤ 1024) ∧
    (-1024 ≤ 2048 * rowF d y 2 - ((10703) * d y 0 + (4433) * d y 1 + (-4433) * d y 2 + (-10703) * d y 3 + (-10703) * d y 4 + (-4433) * d y 5 + (4433) * d y 6 + (10703) * d y 7) ∧ 2048 * rowF d y 2 - ((10703) * d y 0 + (4433) * d y 1 + (-4433) * d y 2 + (-10703) * d y 3 + (-10703) * d y 4 + (-4433) * d y 5 + (4433) * d y 6 + (10703) * d y 7) ≤ 1024) ∧
    (-1024 ≤ 2048 * rowF d y 3 - ((9633) * d y 0 + (-2259) * d y 1 + (-11362) * d y 2 + (-6436) * d y 3 + (6436) * d y 4 + (11362) * d y 5 + (2259) * d y 6 + (-9633) * d y 7) ∧ 2048 * rowF d y 3 - ((9633) * d y 0 + (-2259) * d y 1 + (-11362) * d y 2 + (-6436) * d y 3 + (6436) * d y 4 + (11362) * d y 5 + (2259) * d y 6 + (-9633) * d y 7) ≤ 1024) ∧
    rowF d y 4 = 4 * ((1) * d y 0 + (-1) * d y 1 + (-1) * d y 2 + (1) * d y 3 + (1) * d y 4 + (-1) * d y 5 + (-1) * d y 6 + (1) * d y 7) ∧
    (-1024 ≤ 2048 * rowF d y 5 - ((6437) * d y 0 + (-11362) * d y 1 + (2261) * d y 2 + (9633) * d y 3 + (-9633) * d y 4 + (-2261) * d y 5 + (11362) * d y 6 + (-6437) * d y 7) ∧ 2048 * rowF d y 5 - ((6437) * d y 0 + (-11362) * d y 1 + (2261) * d y 2 + (9633) * d y 3 + (-9633) * d y 4 + (-2261) * d y 5 + (11362) * d y 6 + (-6437) * d y 7) ≤ 1024) ∧
    (-1024 ≤ 2048 * rowF d y 6 - ((4433) * d y 0 + (-10704) * d y 1 + (10704) * d y 2 + (-4433) * d y 3 + (-4433) * d y 4 + (10704) * d y 5 + (-10704) * d y 6 + (4433) * d y 7) ∧ 2048 * rowF d y 6 - ((4433) * d y 0 + (-10704) * d y 1 + (10704) * d y 2 + (-4433) * d y 3 + (-4433) * d y 4 + (10704) * d y 5 + (-10704) * d y 6 + (4433) * d y 7) ≤ 1024) ∧
    (-1024 ≤ 2048 * rowF d y 7 - ((2260) * d y 0 + (-6436) * d y 1 + (9633) * d y 2 + (-11363) * d y 3 + (11363) * d y 4 + (-9633) * d y 5 + (6436) * d y 6 + (-2260) * d y 7) ∧ 2048 * rowF d y 7 - ((2260) * d y 0 + (-6436) * d y 1 + (9633) * d y 2 + (-11363) * d y 3 + (11363) * d y 4 + (-9633) * d y 5 + (6436) * d y 6 + (-2260) * d y 7) ≤ 1024) := by
  have h := fdct_row_pass y (d y 0) (d y 1) (d y 2) (d y 3) (d y 4) (d y 5) (d y 6) (d y 7)
  simp only [] at h
  simp only [rowF, colF, icolF, irowF]
  generalize DCTISlow.row 8 y (d y 0) (d y 7) (d y 1) (d y 6) (d y 2) (d y 5) (d y 3) (d y 4) = t at h ⊢
  obtain ⟨a0, a1, a2, a3, a4, a5, a6, a7⟩ := t
  exact ⟨h.1, h.2.2.2.2.2.2.2, h.2.2.1, h.2.2.2.2.2.2.1, h.2.1, h.2.2.2.2.2.1, h.2.2.2.1, h.2.2.2.2.1⟩

theorem colF_facts (r : Blk) (k : Nat) :
    (-2 ≤ 4 * colF r 0 k - ((1) * r 0 k + (1) * r 1 k + (1) * r 2 k + (1) * r 3 k + (1) * r 4 k + (1) * r 5 k + (1) * r 6 k + (1) * r 7 k) ∧ 4 * colF r 0 k - ((1) * r 0 k + (1) * r 1 k + (1) * r 2 k + (1) * r 3 k + (1) * r 4 k + (1) * r 5 k + (1) * r 6 k + (1) * r 7 k) ≤ 2) ∧
    (-16384 ≤ 32768 * colF r 1 k - ((11363) * r 0 k + (9633) * r 1 k + (6437) * r 2 k + (2260) * r 3 k + (-2260) * r 4 k + (-6437) * r 5 k + (-9633) * r 6 k + (-11363) * r 7 k) ∧ 32768 * colF r 1 k - ((11363) * r 0 k + (9633) * r 1 k + (6437) * r 2 k + (2260) * r 3 k + (-2260) * r 4 k + (-6437) * r 5 k + (-9633) * r 6 k + (-11363) * r 7 k) ≤ 16384) ∧
    (-16384 ≤ 32768 * colF r 2 k - ((10703) * r 0 k + (4433) * r 1 k + (-4433) * r 2 k + (-10703) * r 3 k + (-10703) * r 4 k + (-4433) * r 5 k + (4433) * r 6 k + (10703) * r 7 k) ∧ 32768 * colF r 2 k - ((10703) * r 0 k + (4433) * r 1 k + (-4433) * r 2 k + (-10703) * r 3 k + (-10703) * r 4 k + (-4433) * r 5 k + (4433) * r 6 k + (10703) * r 7 k) ≤ 16384) ∧
    (-16384 ≤ 32768 * colF r 3 k - ((9633) * r 0 k + (-2259) * r 1 k + (-11362) * r 2 k + (-6436) * r 3 k + (6436) * r 4 k + (11362) * r 5 k + (2259) * r 6 k + (-9633) * r 7 k) ∧ 32768 * colF r 3 k - ((9633) * r 0 k + (-2259) * r 1 k + (-11362) * r 2 k + (-6436) * r 3 k + (6436) * r 4 k + (11362) * r 5 k + (2259) * r 6 k + (-9633) * r 7 k) ≤ 16384) ∧
    (-2 ≤ 4 * colF r 4 k - ((1) * r 0 k + (-1) * r 1 k + (-1) * r 2 k + (1) * r 3 k + (1) * r 4 k + (-1) * r 5 k + (-1) * r 6 k + (1) * r 7 k) ∧ 4 * colF r 4 k - ((1) * r 0 k + (-1) * r 1 k + (-1) * r 2 k + (1) * r 3 k + (1) * r 4 k + (-1) * r 5 k + (-1) * r 6 k + (1) * r 7 k) ≤ 2) ∧
    (-16384 ≤ 32768 * colF r 5 k - ((6437) * r 0 k + (-11362) * r 1 k + (2261) * r 2 k + (9633) * r 3 k + (-9633) * r 4 k + (-2261) * r 5 k + (11362) * r 6 k + (-6437) * r 7 k) ∧ 32768 * colF r 5 k - ((6437) * r 0 k + (-11362) * r 1 k + (2261) * r 2 k + (9633) * r 3 k + (-9633) * r 4 k + (-2261) * r 5 k + (11362) * r 6 k + (-6437) * r 7 k) ≤ 16384) ∧
    (-16384 ≤ 32768 * colF r 6 k - ((4433) * r 0 k + (-10704) * r 1 k + (10704) * r 2 k + (-4433) * r 3 k + (-4433) * r 4 k + (10704) * r 5 k + (-10704) * r 6 k + (4433) * r 7 k) ∧ 32768 * colF r 6 k - ((4433) * r 0 k + (-10704) * r 1 k + (10704) * r 2 k + (-4433) * r 3 k + (-4433) * r 4 k + (10704) * r 5 k + (-10704) * r 6 k + (4433) * r 7 k) ≤ 16384) ∧
    (-16384 ≤ 32768 * colF r 7 k - ((2260) * r 0 k + (-6436) * r 1 k + (9633) * r 2 k + (-11363) * r 3 k + (11363) * r 4 k + (-9633) * r 5 k + (6436) * r 6 k + (-2260) * r 7 k) ∧ 32768 * colF r 7 k - ((2260) * r 0 k + (-6436) * r 1 k + (9633) * r 2 k + (-11363) * r 3 k + (11363) * r 4 k + (-9633) * r 5 k + (6436) * r 6 k + (-2260) * r 7 k) ≤ 16384) := by
  have h := fdct_col_pass k (r 0 k) (r 1 k) (r 2 k) (r 3 k) (r 4 k) (r 5 k) (r 6 k) (r 7 k) 0 0 0 0 0 0 0 0
  simp only [] at h
  simp only [rowF, colF, icolF, irowF]
  generalize DCTISlow.col 8 k (r 0 k) (r 7 k) (r 1 k) (r 6 k) (r 2 k) (r 5 k) (r 3 k) (r 4 k) 0 0 0 0 0 0 0 0 = t at h ⊢
  obtain ⟨a0, a1, a2, a3, a4, a5, a6, a7⟩ := t
  exact ⟨h.1, h.2.2.2.2.2.2.2, h.2.2.1, h.2.2.2.2.2.2.1, h.2.1, h.2.2.2.2.2.1, h.2.2.2.1, h.2.2.2.2.1⟩

theorem icolF_facts (qc q : Blk) (k : Nat) :
    (-1024 ≤ 2048 * icolF qc q 0 k - ((8192) * (qc 0 k * q 0 k) + (11363) * (qc 1 k * q 1 k) + (10703) * (qc 2 k * q 2 k) + (9633) * (qc 3 k * q 3 k) + (8192) * (qc 4 k * q 4 k) + (6437) * (qc 5 k * q 5 k) + (4433) * (qc 6 k * q 6 k) + (2260) * (qc 7 k * q 7 k)) ∧ 2048 * icolF qc q 0 k - ((8192) * (qc 0 k * q 0 k) + (11363) * (qc 1 k * q 1 k) + (10703) * (qc 2 k * q 2 k) + (9633) * (qc 3 k * q 3 k) + (8192) * (qc 4 k * q 4 k) + (6437) * (qc 5 k * q 5 k) + (4433) * (qc 6 k * q 6 k) + (2260) * (qc 7 k * q 7 k)) ≤ 1024) ∧
    (-1024 ≤ 2048 * icolF qc q 1 k - ((8192) * (qc 0 k * q 0 k) + (9633) * (qc 1 k * q 1 k) + (4433) * (qc 2 k * q 2 k) + (-2259) * (qc 3 k * q 3 k) + (-8192) * (qc 4 k * q 4 k) + (-11362) * (qc 5 k * q 5 k) + (-10704) * (qc 6 k * q 6 k) + (-6436) * (qc 7 k * q 7 k)) ∧ 2048 * icolF qc q 1 k - ((8192) * (qc 0 k * q 0 k) + (9633) * (qc 1 k * q 1 k) + (4433) * (qc 2 k * q 2 k) + (-2259) * (qc 3 k * q 3 k) + (-8192) * (qc 4 k * q 4 k) + (-11362) * (qc 5 k * q 5 k) + (-10704) * (qc 6 k * q 6 k) + (-6436) * (qc 7 k * q 7 k)) ≤ 1024) ∧
    (-1024 ≤ 2048 * icolF qc q 2 k - ((8192) * (qc 0 k * q 0 k) + (6437) * (qc 1 k * q 1 k) + (-4433) * (qc 2 k * q 2 k) + (-11362) * (qc 3 k * q 3 k) + (-8192) * (qc 4 k * q 4 k) + (2261) * (qc 5 k * q 5 k) + (10704) * (qc 6 k * q 6 k) + (9633) * (qc 7 k * q 7 k)) ∧ 2048 * icolF qc q 2 k - ((8192) * (qc 0 k * q 0 k) + (6437) * (qc 1 k * q 1 k) + (-4433) * (qc 2 k * q 2 k) + (-11362) * (qc 3 k * q 3 k) + (-8192) * (qc 4 k * q 4 k) + (2261) * (qc 5 k * q 5 k) + (10704) * (qc 6 k * q 6 k) + (9633) * (qc 7 k * q 7 k)) ≤ 1024) ∧
    (-1024 ≤ 2048 * icolF qc q 3 k - ((8192) * (qc 0 k * q 0 k) + (2260) * (qc 1 k * q 1 k) + (-10703) * (qc 2 k * q 2 k) + (-6436) * (qc 3 k * q 3 k) + (8192) * (qc 4 k * q 4 k) + (9633) * (qc 5 k * q 5 k) + (-4433) * (qc 6 k * q 6 k) + (-11363) * (qc 7 k * q 7 k)) ∧ 2048 * icolF qc q 3 k - ((8192) * (qc 0 k * q 0 k) + (2260) * (qc 1 k * q 1 k) + (-10703) * (qc 2 k * q 2 k) + (-6436) * (qc 3 k * q 3 k) + (8192) * (qc 4 k * q 4 k) + (9633) * (qc 5 k * q 5 k) + (-4433) * (qc 6 k * q 6 k) + (-11363) * (qc 7 k * q 7 k)) ≤ 1024) ∧
    (-1024 ≤ 2048 * icolF qc q 4 k - ((8192) * (qc 0 k * q 0 k) + (-2260) * (qc 1 k * q 1 k) + (-10703) * (qc 2 k * q 2 k) + (6436) * (qc 3 k * q 3 k) + (8192) * (qc 4 k * q 4 k) + (-9633) * (qc 5 k * q 5 k) + (-4433) * (qc 6 k * q 6 k) + (11363) * (qc 7 k * q 7 k)) ∧ 2048 * icolF qc q 4 k - ((8192) * (qc 0 k * q 0 k) + (-2260) * (qc 1 k * q 1 k) + (-10703) * (qc 2 k * q 2 k) + (6436) * (qc 3 k * q 3 k) + (8192) * (qc 4 k * q 4 k) + (-9633) * (qc 5 k * q 5 k) + (-4433) * (qc 6 k * q 6 k) + (11363) * (qc 7 k * q 7 k)) ≤ 1024) ∧
    (-1024 ≤ 2048 * icolF qc q 5 k - ((8192) * (qc 0 k * q 0 k) + (-6437) * (qc 1 k * q 1 k) + (-4433) * (qc 2 k * q 2 k) + (11362) * (qc 3 k * q 3 k) + (-8192) * (qc 4 k * q 4 k) + (-2261) * (qc 5 k * q 5 k) + (10704) * (qc 6 k * q 6 k) + (-9633) * (qc 7 k * q 7 k)) ∧ 2048 * icolF qc q 5 k - ((8192) * (qc 0 k * q 0 k) + (-6437) * (qc 1 k * q 1 k) + (-4433) * (qc 2 k * q 2 k) + (11362) * (qc 3 k * q 3 k) + (-8192) * (qc 4 k * q 4 k) + (-2261) * (qc 5 k * q 5 k) + (10704) * (qc 6 k * q 6 k) + (-9633) * (qc 7 k * q 7 k)) ≤ 1024) ∧
    (-1024 ≤ 2048 * icolF qc q 6 k - ((8192) * (qc 0 k * q 0 k) + (-9633) * (qc 1 k * q 1 k) + (4433) * (qc 2 k * q 2 k) + (2259) * (qc 3 k * q 3 k) + (-8192) * (qc 4 k * q 4 k) + (11362) * (qc 5 k * q 5 k) + (-10704) * (qc 6 k * q 6 k) + (6436) * (qc 7 k * q 7 k)) ∧ 2048 * icolF qc q 6 k - ((8192) * (qc 0 k * q 0 k) + (-9633) * (qc 1 k * q 1 k) + (4433) * (qc 2 k * q 2 k) + (2259) * (qc 3 k * q 3 k) + (-8192) * (qc 4 k * q 4 k) + (11362) * (qc 5 k * q 5 k) + (-10704) * (qc 6 k * q 6 k) + (6436) * (qc 7 k * q 7 k)) ≤ 1024) ∧
    (-1024 ≤ 2048 * icolF qc q 7 k - ((8192) * (qc 0 k * q 0 k) + (-11363) * (qc 1 k * q 1 k) + (10703) * (qc 2 k * q 2 k) + (-9633) * (qc 3 k * q 3 k) + (8192) * (qc 4 k * q 4 k) + (-6437) * (qc 5 k * q 5 k) + (4433) * (qc 6 k * q 6 k) + (-2260) * (qc 7 k * q 7 k)) ∧ 2048 * icolF qc q 7 k - ((8192) * (qc 0 k * q 0 k) + (-11363) * (qc 1 k * q 1 k) + (10703) * (qc 2 k * q 2 k) + (-9633) * (qc 3 k * q 3 k) + (8192) * (qc 4 k * q 4 k) + (-6437) * (qc 5 k * q 5 k) + (4433) * (qc 6 k * q 6 k) + (-2260) * (qc 7 k * q 7 k)) ≤ 1024) := by
  have h := idct_col_pass k (qc 0 k) (qc 1 k) (qc 2 k) (qc 3 k) (qc 4 k) (qc 5 k) (qc 6 k) (qc 7 k) (q 0 k) (q 1 k) (q 2 k) (q 3 k) (q 4 k) (q 5 k) (q 6 k) (q 7 k) 0 0 0 0 0 0 0 0 _ _ _ _ _ _ _ _ rfl rfl rfl rfl rfl rfl rfl rfl
  simp only [] at h
  simp only [rowF, colF, icolF, irowF]
  generalize IDCTISlow.col 8 k (qc 2 k) (q 2 k) (qc 6 k) (q 6 k) (qc 0 k) (q 0 k) (qc 4 k) (q 4 k) (qc 7 k) (q 7 k) (qc 5 k) (q 5 k) (qc 3 k) (q 3 k) (qc 1 k) (q 1 k) 0 0 0 0 0 0 0 0 = t at h ⊢
  obtain ⟨a0, a1, a2, a3, a4, a5, a6, a7⟩ := t
  exact ⟨h.1, h.2.2.1, h.2.2.2.2.1, h.2.2.2.2.2.2.1, h.2.2.2.2.2.2.2, h.2.2.2.2.2.1, h.2.2.2.1, h.2.1⟩

theorem irowF_facts (ws : Blk) (y : Nat) :
    (∃ t, irowF ws y 0 = Go.uwrap8 (Clamp (t + 128) 0 255) ∧ -131072 ≤ 262144 * t - ((8192) * ws y 0 + (11363) * ws y 1 + (10703) * ws y 2 + (9633) * ws y 3 + (8192) * ws y 4 + (6437) * ws y 5 + (4433) * ws y 6 + (2260) * ws y 7) ∧ 262144 * t - ((8192) * ws y 0 + (11363) * ws y 1 + (10703) * ws y 2 + (9633) * ws y 3 + (8192) * ws y 4 + (6437) * ws y 5 + (4433) * ws y 6 + (2260) * ws y 7) ≤ 131072) ∧
    (∃ t, irowF ws y 1 = Go.uwrap8 (Clamp (t + 128) 0 255) ∧ -131072 ≤ 262144 * t - ((8192) * ws y 0 + (9633) * ws y 1 + (4433) * ws y 2 + (-2259) * ws y 3 + (-8192) * ws y 4 + (-11362) * ws y 5 + (-10704) * ws y 6 + (-6436) * ws y 7) ∧ 262144 * t - ((8192) * ws y 0 + (9633) * ws y 1 + (4433) * ws y 2 + (-2259) * ws y 3 + (-8192) * ws y 4 + (-11362) * ws y 5 + (-10704) * ws y 6 + (-6436) * ws y 7) ≤ 131072) ∧
    (∃ t, irowF ws y 2 = Go.uwrap8 (Clamp (t + 128) 0 255) ∧ -131072 ≤ 262144 * t - ((8192) * ws y 0 + (6437) * ws y 1 + (-4433) * ws y 2 + (-11362) * ws y 3 + (-8192) * ws y 4 + (2261) * ws y 5 + (10704) * ws y 6 + (9633) * ws y 7) ∧ 262144 * t - ((8192) * ws y 0 + (6437) * ws y 1 + (-4433) * ws y 2 + (-11362) * ws y 3 + (-8192) * ws y 4 + (2261) * ws y 5 + (10704) * ws y 6 + (9633) * ws y 7) ≤ 131072) ∧
    (∃ t, irowF ws y 3 = Go.uwrap8 (Clamp (t + 128) 0 255) ∧ -131072 ≤ 262144 * t - ((8192) * ws y 0 + (2260) * ws y 1 + (-10703) * ws y 2 + (-6436) * ws y 3 + (8192) * ws y 4 + (9633) * ws y 5 + (-4433) * ws y 6 + (-11363) * ws y 7) ∧ 262144 * t - ((8192) * ws y 0 + (2260) * ws y 1 + (-10703) * ws y 2 + (-6436) * ws y 3 + (8192) * ws y 4 + (9633) * ws y 5 + (-4433) * ws y 6 + (-11363) * ws y 7) ≤ 131072) ∧
    (∃ t, irowF ws y 4 = Go.uwrap8 (Clamp (t + 128) 0 255) ∧ -131072 ≤ 262144 * t - ((8192) * ws y 0 + (-2260) * ws y 1 + (-10703) * ws y 2 + (6436) * ws y 3 + (8192) * ws y 4 + (-9633) * ws y 5 + (-4433) * ws y 6 + (11363) * ws y 7) ∧ 262144 * t - ((8192) * ws y 0 + (-2260) * ws y 1 + (-10703) * ws y 2 + (6436) * ws y 3 + (8192) * ws y 4 + (-9633) * ws y 5 + (-4433) * ws y 6 + (11363) * ws y 7) ≤ 131072) ∧
    (∃ t, irowF ws y 5 = Go.uwrap8 (Clamp (t + 128) 0 255) ∧ -131072 ≤ 262144 * t - ((8192) * ws y 0 + (-6437) * ws y 1 + (-4433) * ws y 2 + (11362) * ws y 3 + (-8192) * ws y 4 + (-2261) * ws y 5 + (10704) * ws y 6 + (-9633) * ws y 7) ∧ 262144 * t - ((8192) * ws y 0 + (-6437) * ws y 1 + (-4433) * ws y 2 + (11362) * ws y 3 + (-8192) * ws y 4 + (-2261) * ws y 5 + (10704) * ws y 6 + (-9633) * ws y 7) ≤ 131072) ∧
    (∃ t, irowF ws y 6 = Go.uwrap8 (Clamp (t + 128) 0 255) ∧ -131072 ≤ 262144 * t - ((8192) * ws y 0 + (-9633) * ws y 1 + (4433) * ws y 2 + (2259) * ws y 3 + (-8192) * ws y 4 + (11362) * ws y 5 + (-10704) * ws y 6 + (6436) * ws y 7) ∧ 262144 * t - ((8192) * ws y 0 + (-9633) * ws y 1 + (4433) * ws y 2 + (2259) * ws y 3 + (-8192) * ws y 4 + (11362) * ws y 5 + (-10704) * ws y 6 + (6436) * ws y 7) ≤ 131072) ∧
    (∃ t, irowF ws y 7 = Go.uwrap8 (Clamp (t + 128) 0 255) ∧ -131072 ≤ 262144 * t - ((8192) * ws y 0 + (-11363) * ws y 1 + (10703) * ws y 2 + (-9633) * ws y 3 + (8192) * ws y 4 + (-6437) * ws y 5 + (4433) * ws y 6 + (-2260) * ws y 7) ∧ 262144 * t - ((8192) * ws y 0 + (-11363) * ws y 1 + (10703) * ws y 2 + (-9633) * ws y 3 + (8192) * ws y 4 + (-6437) * ws y 5 + (4433) * ws y 6 + (-2260) * ws y 7) ≤ 131072) := by
  have h := idct_row_pass y (ws y 0) (ws y 1) (ws y 2) (ws y 3) (ws y 4) (ws y 5) (ws y 6) (ws y 7) 0 0 0 0 0 0 0 0
  simp only [] at h
  simp only [rowF, colF, icolF, irowF]
  generalize IDCTISlow.row 8 y (ws y 2) (ws y 6) (ws y 0) (ws y 4) (ws y 7) (ws y 5) (ws y 3) (ws y 1) 0 0 0 0 0 0 0 0 = t at h ⊢
  obtain ⟨a0, a1, a2, a3, a4, a5, a6, a7⟩ := t
  exact ⟨h.1, h.2.2.1, h.2.2.2.2.1, h.2.2.2.2.2.2.1, h.2.2.2.2.2.2.2, h.2.2.2.2.2.1, h.2.2.2.1, h.2.1⟩

/-- |invMatrix[i][j]| -/
def Gabs : Nat → Nat → Int
  | 0, 0 => 8192
  | 0, 1 => 11363
  | 0, 2 => 10703
  | 0, 3 => 9633
  | 0, 4 => 8192
  | 0, 5 => 6437
  | 0, 6 => 4433
  | 0, 7 => 2260
  | 1, 0 => 8192
  | 1, 1 => 9633
  | 1, 2 => 4433
  | 1, 3 => 2259
  | 1, 4 => 8192
  | 1, 5 => 11362
  | 1, 6 => 10704
  | 1, 7 => 6436
  | 2, 0 => 8192
  | 2, 1 => 6437
  | 2, 2 => 4433
  | 2, 3 => 11362
  | 2, 4 => 8192
  | 2, 5 => 2261
  | 2, 6 => 10704
  | 2, 7 => 9633
  | 3, 0 => 8192
  | 3, 1 => 2260
  | 3, 2 => 10703
  | 3, 3 => 6436
  | 3, 4 => 8192
  | 3, 5 => 9633
  | 3, 6 => 4433
  | 3, 7 => 11363
  | 4, 0 => 8192
  | 4, 1 => 2260
  | 4, 2 => 10703
  | 4, 3 => 6436
  | 4, 4 => 8192
  | 4, 5 => 9633
  | 4, 6 => 4433
  | 4, 7 => 11363
  | 5, 0 => 8192
  | 5, 1 => 6437
  | 5, 2 => 4433
  | 5, 3 => 11362
  | 5, 4 => 8192
  | 5, 5 => 2261
  | 5, 6 => 10704
  | 5, 7 => 9633
  | 6, 0 => 8192
  | 6, 1 => 9633
  | 6, 2 => 4433
  | 6, 3 => 2259
  | 6, 4 => 8192
  | 6, 5 => 11362
  | 6, 6 => 10704
  | 6, 7 => 6436
  | 7, 0 => 8192
  | 7, 1 => 11363
  | 7, 2 => 10703
  | 7, 3 => 9633
  | 7, 4 => 8192
  | 7, 5 => 6437
  | 7, 6 => 4433
  | 7, 7 => 2260
  | _, _ => 0

/-- rounding budget of the vertical stage (units 2^-29) -/
def Acon : Nat → Int
  | 0 => 1812029440
  | 1 => 1748819968
  | 2 => 1653964800
  | 3 => 1587118080
  | 4 => 1587118080
  | 5 => 1653964800
  | 6 => 1748819968
  | 7 => 1812029440
  | _ => 0

/-- rounding budget of the horizontal stage (units 2^-58) -/
def Ccon : Nat → Int
  | 0 => 186838499079487488
  | 1 => 185777470358683648
  | 2 => 184186889350152192
  | 3 => 183064837734006784
  | 4 => 183064837734006784
  | 5 => 184186889350152192
  | 6 => 185777470358683648
  | 7 => 186838499079487488
  | _ => 0

def sum8 (f : Nat → Int) : Int := f 0 + f 1 + f 2 + f 3 + f 4 + f 5 + f 6 + f 7

theorem quant_facts (i q c : Int) (hq : 1 ≤ q) :
    -(4 * q) ≤ c - 8 * (quantizeBlock.entry default 0 0 0 0 i q c * q) ∧
    c - 8 * (quantizeBlock.entry default 0 0 0 0 i q c * q) ≤ 4 * q := by
  have h := symQuant_bound c (q * 8) (by omega)
  rw [quant8_is_symQuant]
  have e : q * 8 * symQuant c (q * 8) = 8 * (symQuant c (q * 8) * q) := by
    rw [Int.mul_comm q 8, Int.mul_assoc, Int.mul_comm q]
  rw [e] at h
  generalize symQuant c (q * 8) * q = P at h ⊢
  omega

theorem rowF_bound (d : Blk) (hd : ∀ y j, -128 ≤ d y j ∧ d y j ≤ 127) (j k : Nat) :
    -4096 ≤ rowF d j k ∧ rowF d j k ≤ 4096 := by
  have hr := rowF_facts d j
  obtain ⟨b0, b1, b2, b3, b4, b5, b6, b7⟩ := rbound (d j 0) (d j 1) (d j 2) (d j 3) (d j 4) (d j 5) (d j 6) (d j 7)
    (rowF d j 0) (rowF d j 1) (rowF d j 2) (rowF d j 3) (rowF d j 4) (rowF d j 5) (rowF d j 6) (rowF d j 7)
    (hd j 0) (hd j 1) (hd j 2) (hd j 3) (hd j 4) (hd j 5) (hd j 6) (hd j 7)
    hr.1 hr.2.1 hr.2.2.1 hr.2.2.2.1 hr.2.2.2.2.1 hr.2.2.2.2.2.1 hr.2.2.2.2.2.2.1 hr.2.2.2.2.2.2.2
  have hp : fwdPos k = 0 ∨ fwdPos k = 1 ∨ fwdPos k = 2 ∨ fwdPos k = 3 ∨ fwdPos k = 4 ∨ fwdPos k = 5 ∨ fwdPos k = 6 ∨ fwdPos k = 7 := by
    unfold fwdPos; split <;> simp
  simp only [rowF] at b0 b1 b2 b3 b4 b5 b6 b7 ⊢
  simp only [fwdPos] at b0 b1 b2 b3 b4 b5 b6 b7
  rcases hp with h | h | h | h | h | h | h | h <;> rw [h]
  · exact b0
  · exact b4
  · exact b2
  · exact b6
  · exact b7
  · exact b5
  · exact b3
  · exact b1


set_option maxHeartbeats 1600000 in
/-- vertical stage at column k: the inverse column pass applied to the dequantised forward column pass returns the row-pass
    values up to the quantisation residual and three roundings -/
theorem vbound (d q : Blk) (hd : ∀ y j, -128 ≤ d y j ∧ d y j ≤ 127) (hq : ∀ v k, 1 ≤ q v k) (k y : Nat) (hy : y < 8) :
    -(Acon y + 131072 * sum8 (fun v => Gabs y v * q v k)) ≤
      536870912 * (icolF (quantF (colF (rowF d)) q) q y k - rowF d y k) ∧
    536870912 * (icolF (quantF (colF (rowF d)) q) q y k - rowF d y k) ≤
      Acon y + 131072 * sum8 (fun v => Gabs y v * q v k) := by
  have hc := colF_facts (rowF d) k
  have hw := icolF_facts (quantF (colF (rowF d)) q) q k

  have he0 := quant_facts ((0 : Nat) * 8 + k : Nat) (q 0 k) (colF (rowF d) 0 k) (hq 0 k)
  have he1 := quant_facts ((1 : Nat) * 8 + k : Nat) (q 1 k) (colF (rowF d) 1 k) (hq 1 k)
  have he2 := quant_facts ((2 : Nat) * 8 + k : Nat) (q 2 k) (colF (rowF d) 2 k) (hq 2 k)
  have he3 := quant_facts ((3 : Nat) * 8 + k : Nat) (q 3 k) (colF (rowF d) 3 k) (hq 3 k)
  have he4 := quant_facts ((4 : Nat) * 8 + k : Nat) (q 4 k) (colF (rowF d) 4 k) (hq 4 k)
  have he5 := quant_facts ((5 : Nat) * 8 + k : Nat) (q 5 k) (colF (rowF d) 5 k) (hq 5 k)
  have he6 := quant_facts ((6 : Nat) * 8 + k : Nat) (q 6 k) (colF (rowF d) 6 k) (hq 6 k)
  have he7 := quant_facts ((7 : Nat) * 8 + k : Nat) (q 7 k) (colF (rowF d) 7 k) (hq 7 k)
  have hyc : y = 0 ∨ y = 1 ∨ y = 2 ∨ y = 3 ∨ y = 4 ∨ y = 5 ∨ y = 6 ∨ y = 7 := by omega
  rcases hyc with rfl | rfl | rfl | rfl | rfl | rfl | rfl | rfl
  · have := vstage_0 (rowF d 0 k) (rowF d 1 k) (rowF d 2 k) (rowF d 3 k) (rowF d 4 k) (rowF d 5 k) (rowF d 6 k) (rowF d 7 k) (colF (rowF d) 0 k) (colF (rowF d) 1 k) (colF (rowF d) 2 k) (colF (rowF d) 3 k) (colF (rowF d) 4 k) (colF (rowF d) 5 k) (colF (rowF d) 6 k) (colF (rowF d) 7 k) (quantF (colF (rowF d)) q 0 k * q 0 k) (quantF (colF (rowF d)) q 1 k * q 1 k) (quantF (colF (rowF d)) q 2 k * q 2 k) (quantF (colF (rowF d)) q 3 k * q 3 k) (quantF (colF (rowF d)) q 4 k * q 4 k) (quantF (colF (rowF d)) q 5 k * q 5 k) (quantF (colF (rowF d)) q 6 k * q 6 k) (quantF (colF (rowF d)) q 7 k * q 7 k) (q 0 k) (q 1 k) (q 2 k) (q 3 k) (q 4 k) (q 5 k) (q 6 k) (q 7 k) (icolF (quantF (colF (rowF d)) q) q 0 k)
      (rowF_bound d hd 0 k) (rowF_bound d hd 1 k) (rowF_bound d hd 2 k) (rowF_bound d hd 3 k) (rowF_bound d hd 4 k) (rowF_bound d hd 5 k) (rowF_bound d hd 6 k) (rowF_bound d hd 7 k) hc.1 hc.2.1 hc.2.2.1 hc.2.2.2.1 hc.2.2.2.2.1 hc.2.2.2.2.2.1 hc.2.2.2.2.2.2.1 hc.2.2.2.2.2.2.2 he0 he1 he2 he3 he4 he5 he6 he7 hw.1
    simp only [Acon, Gabs, sum8]
    omega
  · have := vstage_1 (rowF d 0 k) (rowF d 1 k) (rowF d 2 k) (rowF d 3 k) (rowF d 4 k) (rowF d 5 k) (rowF d 6 k) (rowF d 7 k) (colF (rowF d) 0 k) (colF (rowF d) 1 k) (colF (rowF d) 2 k) (colF (rowF d) 3 k) (colF (rowF d) 4 k) (colF (rowF d) 5 k) (colF (rowF d) 6 k) (colF (rowF d) 7 k) (quantF (colF (rowF d)) q 0 k * q 0 k) (quantF (colF (rowF d)) q 1 k * q 1 k) (quantF (colF (rowF d)) q 2 k * q 2 k) (quantF (colF (rowF d)) q 3 k * q 3 k) (quantF (colF (rowF d)) q 4 k * q 4 k) (quantF (colF (rowF d)) q 5 k * q 5 k) (quantF (colF (rowF d)) q 6 k * q 6 k) (quantF (colF (rowF d)) q 7 k * q 7 k) (q 0 k) (q 1 k) (q 2 k) (q 3 k) (q 4 k) (q 5 k) (q 6 k) (q 7 k) (icolF (quantF (colF (rowF d)) q) q 1 k)
      (rowF_bound d hd 0 k) (rowF_bound d hd 1 k) (rowF_bound d hd 2 k) (rowF_bound d hd 3 k) (rowF_bound d hd 4 k) (rowF_bound d hd 5 k) (rowF_bound d hd 6 k) (rowF_bound d hd 7 k) hc.1 hc.2.1 hc.2.2.1 hc.2.2.2.1 hc.2.2.2.2.1 hc.2.2.2.2.2.1 hc.2.2.2.2.2.2.1 hc.2.2.2.2.2.2.2 he0 he1 he2 he3 he4 he5 he6 he7 hw.2.1
    simp only [Acon, Gabs, sum8]
    omega
  · have := vstage_2 (rowF d 0 k) (rowF d 1 k) (rowF d 2 k) (rowF d 3 k) (rowF d 4 k) (rowF d 5 k) (rowF d 6 k) (rowF d 7 k) (colF (rowF d) 0 k) (colF (rowF d) 1 k) (colF (rowF d) 2 k) (colF (rowF d) 3 k) (colF (rowF d) 4 k) (colF (rowF d) 5 k) (colF (rowF d) 6 k) (colF (rowF d) 7 k) (quantF (colF (rowF d)) q 0 k * q 0 k) (quantF (colF (rowF d)) q 1 k * q 1 k) (quantF (colF (rowF d)) q 2 k * q 2 k) (quantF (colF (rowF d)) q 3 k * q 3 k) (quantF (colF (rowF d)) q 4 k * q 4 k) (quantF (colF (rowF d)) q 5 k * q 5 k) (quantF (colF (rowF d)) q 6 k * q 6 k) (quantF (colF (rowF d)) q 7 k * q 7 k) (q 0 k) (q 1 k) (q 2 k) (q 3 k) (q 4 k) (q 5 k) (q 6 k) (q 7 k) (icolF (quantF (colF (rowF d)) q) q 2 k)
      (rowF_bound d hd 0 k) (rowF_bound d hd 1 k) (rowF_bound d hd 2 k) (rowF_bound d hd 3 k) (rowF_bound d hd 4 k) (rowF_bound d hd 5 k) (rowF_bound d hd 6 k) (rowF_bound d hd 7 k) hc.1 hc.2.1 hc.2.2.1 hc.2.2.2.1 hc.2.2.2.2.1 hc.2.2.2.2.2.1 hc.2.2.2.2.2.2.1 hc.2.2.2.2.2.2.2 he0 he1 he2 he3 he4 he5 he6 he7 hw.2.2.1
    simp only [Acon, Gabs, sum8]
    omega
  · have := vstage_3 (rowF d 0 k) (rowF d 1 k) (rowF d 2 k) (rowF d 3 k) (rowF d 4 k) (rowF d 5 k) (rowF d 6 k) (rowF d 7 k) (colF (rowF d) 0 k) (colF (rowF d) 1 k) (colF (rowF d) 2 k) (colF (rowF d) 3 k) (colF (rowF d) 4 k) (colF (rowF d) 5 k) (colF (rowF d) 6 k) (colF (rowF d) 7 k) (quantF (colF (rowF d)) q 0 k * q 0 k) (quantF (colF (rowF d)) q 1 k * q 1 k) (quantF (colF (rowF d)) q 2 k * q 2 k) (quantF (colF (rowF d)) q 3 k * q 3 k) (quantF (colF (rowF d)) q 4 k * q 4 k) (quantF (colF (rowF d)) q 5 k * q 5 k) (quantF (colF (rowF d)) q 6 k * q 6 k) (quantF (colF (rowF d)) q 7 k * q 7 k) (q 0 k) (q 1 k) (q 2 k) (q 3 k) (q 4 k) (q 5 k) (q 6 k) (q 7 k) (icolF (quantF (colF (rowF d)) q) q 3 k)
      (rowF_bound d hd 0 k) (rowF_bound d hd 1 k) (rowF_bound d hd 2 k) (rowF_bound d hd 3 k) (rowF_bound d hd 4 k) (rowF_bound d hd 5 k) (rowF_bound d hd 6 k) (rowF_bound d hd 7 k) hc.1 hc.2.1 hc.2.2.1 hc.2.2.2.1 hc.2.2.2.2.1 hc.2.2.2.2.2.1 hc.2.2.2.2.2.2.1 hc.2.2.2.2.2.2.2 he0 he1 he2 he3 he4 he5 he6 he7 hw.2.2.2.1
    simp only [Acon, Gabs, sum8]
    omega
  · have := vstage_4 (rowF d 0 k) (rowF d 1 k) (rowF d 2 k) (rowF d 3 k) (rowF d 4 k) (rowF d 5 k) (rowF d 6 k) (rowF d 7 k) (colF (rowF d) 0 k) (colF (rowF d) 1 k) (colF (rowF d) 2 k) (colF (rowF d) 3 k) (colF (rowF d) 4 k) (colF (rowF d) 5 k) (colF (rowF d) 6 k) (colF (rowF d) 7 k) (quantF (colF (rowF d)) q 0 k * q 0 k) (quantF (colF (rowF d)) q 1 k * q 1 k) (quantF (colF (rowF d)) q 2 k * q 2 k) (quantF (colF (rowF d)) q 3 k * q 3 k) (quantF (colF (rowF d)) q 4 k * q 4 k) (quantF (colF (rowF d)) q 5 k * q 5 k) (quantF (colF (rowF d)) q 6 k * q 6 k) (quantF (colF (rowF d)) q 7 k * q 7 k) (q 0 k) (q 1 k) (q 2 k) (q 3 k) (q 4 k) (q 5 k) (q 6 k) (q 7 k) (icolF (quantF (colF (rowF d)) q) q 4 k)
      (rowF_bound d hd 0 k) (rowF_bound d hd 1 k) (rowF_bound d hd 2 k) (rowF_bound d hd 3 k) (rowF_bound d hd 4 k) (rowF_bound d hd 5 k) (rowF_bound d hd 6 k) (rowF_bound d hd 7 k) hc.1 hc.2.1 hc.2.2.1 hc.2.2.2.1 hc.2.2.2.2.1 hc.2.2.2.2.2.1 hc.2.2.2.2.2.2.1 hc.2.2.2.2.2.2.2 he0 he1 he2 he3 he4 he5 he6 he7 hw.2.2.2.2.1
    simp only [Acon, Gabs, sum8]
    omega
  · have := vstage_5 (rowF d 0 k) (rowF d 1 k) (rowF d 2 k) (rowF d 3 k) (rowF d 4 k) (rowF d 5 k) (rowF d 6 k) (rowF d 7 k) (colF (rowF d) 0 k) (colF (rowF d) 1 k) (colF (rowF d) 2 k) (colF (rowF d) 3 k) (colF (rowF d) 4 k) (colF (rowF d) 5 k) (colF (rowF d) 6 k) (colF (rowF d) 7 k) (quantF (colF (rowF d)) q 0 k * q 0 k) (quantF (colF (rowF d)) q 1 k * q 1 k) (quantF (colF (rowF d)) q 2 k * q 2 k) (quantF (colF (rowF d)) q 3 k * q 3 k) (quantF (colF (rowF d)) q 4 k * q 4 k) (quantF (colF (rowF d)) q 5 k * q 5 k) (quantF (colF (rowF d)) q 6 k * q 6 k) (quantF (colF (rowF d)) q 7 k * q 7 k) (q 0 k) (q 1 k) (q 2 k) (q 3 k) (q 4 k) (q 5 k) (q 6 k) (q 7 k) (icolF (quantF (colF (rowF d)) q) q 5 k)
      (rowF_bound d hd 0 k) (rowF_bound d hd 1 k) (rowF_bound d hd 2 k) (rowF_bound d hd 3 k) (rowF_bound d hd 4 k) (rowF_bound d hd 5 k) (rowF_bound d hd 6 k) (rowF_bound d hd 7 k) hc.1 hc.2.1 hc.2.2.1 hc.2.2.2.1 hc.2.2.2.2.1 hc.2.2.2.2.2.1 hc.2.2.2.2.2.2.1 hc.2.2.2.2.2.2.2 he0 he1 he2 he3 he4 he5 he6 he7 hw.2.2.2.2.2.1
    simp only [Acon, Gabs, sum8]
    omega
  · have := vstage_6 (rowF d 0 k) (rowF d 1 k) (rowF d 2 k) (rowF d 3 k) (rowF d 4 k) (rowF d 5 k) (rowF d 6 k) (rowF d 7 k) (colF (rowF d) 0 k) (colF (rowF d) 1 k) (colF (rowF d) 2 k) (colF (rowF d) 3 k) (colF (rowF d) 4 k) (colF (rowF d) 5 k) (colF (rowF d) 6 k) (colF (rowF d) 7 k) (quantF (colF (rowF d)) q 0 k * q 0 k) (quantF (colF (rowF d)) q 1 k * q 1 k) (quantF (colF (rowF d)) q 2 k * q 2 k) (quantF (colF (rowF d)) q 3 k * q 3 k) (quantF (colF (rowF d)) q 4 k * q 4 k) (quantF (colF (rowF d)) q 5 k * q 5 k) (quantF (colF (rowF d)) q 6 k * q 6 k) (quantF (colF (rowF d)) q 7 k * q 7 k) (q 0 k) (q 1 k) (q 2 k) (q 3 k) (q 4 k) (q 5 k) (q 6 k) (q 7 k) (icolF (quantF (colF (rowF d)) q) q 6 k)
      (rowF_bound d hd 0 k) (rowF_bound d hd 1 k) (rowF_bound d hd 2 k) (rowF_bound d hd 3 k) (rowF_bound d hd 4 k) (rowF_bound d hd 5 k) (rowF_bound d hd 6 k) (rowF_bound d hd 7 k) hc.1 hc.2.1 hc.2.2.1 hc.2.2.2.1 hc.2.2.2.2.1 hc.2.2.2.2.2.1 hc.2.2.2.2.2.2.1 hc.2.2.2.2.2.2.2 he0 he1 he2 he3 he4 he5 he6 he7 hw.2.2.2.2.2.2.1
    simp only [Acon, Gabs, sum8]
    omega
  · have := vstage_7 (rowF d 0 k) (rowF d 1 k) (rowF d 2 k) (rowF d 3 k) (rowF d 4 k) (rowF d 5 k) (rowF d 6 k) (rowF d 7 k) (colF (rowF d) 0 k) (colF (rowF d) 1 k) (colF (rowF d) 2 k) (colF (rowF d) 3 k) (colF (rowF d) 4 k) (colF (rowF d) 5 k) (colF (rowF d) 6 k) (colF (rowF d) 7 k) (quantF (colF (rowF d)) q 0 k * q 0 k) (quantF (colF (rowF d)) q 1 k * q 1 k) (quantF (colF (rowF d)) q 2 k * q 2 k) (quantF (colF (rowF d)) q 3 k * q 3 k) (quantF (colF (rowF d)) q 4 k * q 4 k) (quantF (colF (rowF d)) q 5 k * q 5 k) (quantF (colF (rowF d)) q 6 k * q 6 k) (quantF (colF (rowF d)) q 7 k * q 7 k) (q 0 k) (q 1 k) (q 2 k) (q 3 k) (q 4 k) (q 5 k) (q 6 k) (q 7 k) (icolF (quantF (colF (rowF d)) q) q 7 k)
      (rowF_bound d hd 0 k) (rowF_bound d hd 1 k) (rowF_bound d hd 2 k) (rowF_bound d hd 3 k) (rowF_bound d hd 4 k) (rowF_bound d hd 5 k) (rowF_bound d hd 6 k) (rowF_bound d hd 7 k) hc.1 hc.2.1 hc.2.2.1 hc.2.2.2.1 hc.2.2.2.2.1 hc.2.2.2.2.2.1 hc.2.2.2.2.2.2.1 hc.2.2.2.2.2.2.2 he0 he1 he2 he3 he4 he5 he6 he7 hw.2.2.2.2.2.2.2
    simp only [Acon, Gabs, sum8]
    omega

/-- Σ_v |inv[y][v]|·q[v][k]: the quantisation steps of column k weighted by row y of the inverse matrix -/
def colQ (q : Blk) (y k : Nat) : Int := sum8 (fun v => Gabs y v * q v k)
def bcon (q : Blk) (y k : Nat) : Int := Acon y + 131072 * colQ q y k

theorem Acon_le (y : Nat) : 0 ≤ Acon y ∧ Acon y ≤ 1812029440 := by
  unfold Acon; split <;> omega

set_option maxHeartbeats 1600000 in
/-- horizontal stage + vertical stage: the value `t` the inverse row pass produces for pixel (y,x) before +128/clamp -/
theorem block_int (d q : Blk) (hd : ∀ y j, -128 ≤ d y j ∧ d y j ≤ 127) (hq : ∀ v k, 1 ≤ q v k) (y x : Nat) (hy : y < 8) (hx : x < 8) :
    ∃ t, irowF (icolF (quantF (colF (rowF d)) q) q) y x = Go.uwrap8 (Clamp (t + 128) 0 255) ∧
      -(415051741658464912 + 268435456 * sum8 (fun k => Gabs x k * colQ q y k)) ≤ 288230376151711744 * (t - d y x) ∧
      288230376151711744 * (t - d y x) ≤ 415051741658464912 + 268435456 * sum8 (fun k => Gabs x k * colQ q y k) := by
  have hr := rowF_facts d y
  have hi := irowF_facts (icolF (quantF (colF (rowF d)) q) q) y
  have hA := Acon_le y

  have hv0 : -(bcon q y 0) ≤ 536870912 * (icolF (quantF (colF (rowF d)) q) q y 0 - rowF d y 0) ∧ 536870912 * (icolF (quantF (colF (rowF d)) q) q y 0 - rowF d y 0) ≤ bcon q y 0 := vbound d q hd hq 0 y hy
  have hv1 : -(bcon q y 1) ≤ 536870912 * (icolF (quantF (colF (rowF d)) q) q y 1 - rowF d y 1) ∧ 536870912 * (icolF (quantF (colF (rowF d)) q) q y 1 - rowF d y 1) ≤ bcon q y 1 := vbound d q hd hq 1 y hy
  have hv2 : -(bcon q y 2) ≤ 536870912 * (icolF (quantF (colF (rowF d)) q) q y 2 - rowF d y 2) ∧ 536870912 * (icolF (quantF (colF (rowF d)) q) q y 2 - rowF d y 2) ≤ bcon q y 2 := vbound d q hd hq 2 y hy
  have hv3 : -(bcon q y 3) ≤ 536870912 * (icolF (quantF (colF (rowF d)) q) q y 3 - rowF d y 3) ∧ 536870912 * (icolF (quantF (colF (rowF d)) q) q y 3 - rowF d y 3) ≤ bcon q y 3 := vbound d q hd hq 3 y hy
  have hv4 : -(bcon q y 4) ≤ 536870912 * (icolF (quantF (colF (rowF d)) q) q y 4 - rowF d y 4) ∧ 536870912 * (icolF (quantF (colF (rowF d)) q) q y 4 - rowF d y 4) ≤ bcon q y 4 := vbound d q hd hq 4 y hy
  have hv5 : -(bcon q y 5) ≤ 536870912 * (icolF (quantF (colF (rowF d)) q) q y 5 - rowF d y 5) ∧ 536870912 * (icolF (quantF (colF (rowF d)) q) q y 5 - rowF d y 5) ≤ bcon q y 5 := vbound d q hd hq 5 y hy
  have hv6 : -(bcon q y 6) ≤ 536870912 * (icolF (quantF (colF (rowF d)) q) q y 6 - rowF d y 6) ∧ 536870912 * (icolF (quantF (colF (rowF d)) q) q y 6 - rowF d y 6) ≤ bcon q y 6 := vbound d q hd hq 6 y hy
  have hv7 : -(bcon q y 7) ≤ 536870912 * (icolF (quantF (colF (rowF d)) q) q y 7 - rowF d y 7) ∧ 536870912 * (icolF (quantF (colF (rowF d)) q) q y 7 - rowF d y 7) ≤ bcon q y 7 := vbound d q hd hq 7 y hy
  have hxc : x = 0 ∨ x = 1 ∨ x = 2 ∨ x = 3 ∨ x = 4 ∨ x = 5 ∨ x = 6 ∨ x = 7 := by omega
  rcases hxc with rfl | rfl | rfl | rfl | rfl | rfl | rfl | rfl
  · obtain ⟨t, ht1, ht2⟩ := hi.1
    refine ⟨t, ht1, ?_⟩
    have := hstage_0 (d y 0) (d y 1) (d y 2) (d y 3) (d y 4) (d y 5) (d y 6) (d y 7) (rowF d y 0) (rowF d y 1) (rowF d y 2) (rowF d y 3) (rowF d y 4) (rowF d y 5) (rowF d y 6) (rowF d y 7) ((icolF (quantF (colF (rowF d)) q) q) y 0) ((icolF (quantF (colF (rowF d)) q) q) y 1) ((icolF (quantF (colF (rowF d)) q) q) y 2) ((icolF (quantF (colF (rowF d)) q) q) y 3) ((icolF (quantF (colF (rowF d)) q) q) y 4) ((icolF (quantF (colF (rowF d)) q) q) y 5) ((icolF (quantF (colF (rowF d)) q) q) y 6) ((icolF (quantF (colF (rowF d)) q) q) y 7) (bcon q y 0) (bcon q y 1) (bcon q y 2) (bcon q y 3) (bcon q y 4) (bcon q y 5) (bcon q y 6) (bcon q y 7) t
      (hd y 0) (hd y 1) (hd y 2) (hd y 3) (hd y 4) (hd y 5) (hd y 6) (hd y 7) hr.1 hr.2.1 hr.2.2.1 hr.2.2.2.1 hr.2.2.2.2.1 hr.2.2.2.2.2.1 hr.2.2.2.2.2.2.1 hr.2.2.2.2.2.2.2 hv0 hv1 hv2 hv3 hv4 hv5 hv6 hv7 ht2
    simp only [bcon] at this
    simp only [Gabs, sum8]
    omega
  · obtain ⟨t, ht1, ht2⟩ := hi.2.1
    refine ⟨t, ht1, ?_⟩
    have := hstage_1 (d y 0) (d y 1) (d y 2) (d y 3) (d y 4) (d y 5) (d y 6) (d y 7) (rowF d y 0) (rowF d y 1) (rowF d y 2) (rowF d y 3) (rowF d y 4) (rowF d y 5) (rowF d y 6) (rowF d y 7) ((icolF (quantF (colF (rowF d)) q) q) y 0) ((icolF (quantF (colF (rowF d)) q) q) y 1) ((icolF (quantF (colF (rowF d)) q) q) y 2) ((icolF (quantF (colF (rowF d)) q) q) y 3) ((icolF (quantF (colF (rowF d)) q) q) y 4) ((icolF (quantF (colF (rowF d)) q) q) y 5) ((icolF (quantF (colF (rowF d)) q) q) y 6) ((icolF (quantF (colF (rowF d)) q) q) y 7) (bcon q y 0) (bcon q y 1) (bcon q y 2) (bcon q y 3) (bcon q y 4) (bcon q y 5) (bcon q y 6) (bcon q y 7) t
      (hd y 0) (hd y 1) (hd y 2) (hd y 3) (hd y 4) (hd y 5) (hd y 6) (hd y 7) hr.1 hr.2.1 hr.2.2.1 hr.2.2.2.1 hr.2.2.2.2.1 hr.2.2.2.2.2.1 hr.2.2.2.2.2.2.1 hr.2.2.2.2.2.2.2 hv0 hv1 hv2 hv3 hv4 hv5 hv6 hv7 ht2
    simp only [bcon] at this
    simp only [Gabs, sum8]
    omega
  · obtain ⟨t, ht1, ht2⟩ := hi.2.2.1
    refine ⟨t, ht1, ?_⟩
    have := hstage_2 (d y 0) (d y 1) (d y 2) (d y 3) (d y 4) (d y 5) (d y 6) (d y 7) (rowF d y 0) (rowF d y 1) (rowF d y 2) (rowF d y 3) (rowF d y 4) (rowF d y 5) (rowF d y 6) (rowF d y 7) ((icolF (quantF (colF (rowF d)) q) q) y 0) ((icolF (quantF (colF (rowF d)) q) q) y 1) ((icolF (quantF (colF (rowF d)) q) q) y 2) ((icolF (quantF (colF (rowF d)) q) q) y 3) ((icolF (quantF (colF (rowF d)) q) q) y 4) ((icolF (quantF (colF (rowF d)) q) q) y 5) ((icolF (quantF (colF (rowF d)) q) q) y 6) ((icolF (quantF (colF (rowF d)) q) q) y 7) (bcon q y 0) (bcon q y 1) (bcon q y 2) (bcon q y 3) (bcon q y 4) (bcon q y 5) (bcon q y 6) (bcon q y 7) t
      (hd y 0) (hd y 1) (hd y 2) (hd y 3) (hd y 4) (hd y 5) (hd y 6) (hd y 7) hr.1 hr.2.1 hr.2.2.1 hr.2.2.2.1 hr.2.2.2.2.1 hr.2.2.2.2.2.1 hr.2.2.2.2.2.2.1 hr.2.2.2.2.2.2.2 hv0 hv1 hv2 hv3 hv4 hv5 hv6 hv7 ht2
    simp only [bcon] at this
    simp only [Gabs, sum8]
    omega
  · obtain ⟨t, ht1, ht2⟩ := hi.2.2.2.1
    refine ⟨t, ht1, ?_⟩
    have := hstage_3 (d y 0) (d y 1) (d y 2) (d y 3) (d y 4) (d y 5) (d y 6) (d y 7) (rowF d y 0) (rowF d y 1) (rowF d y 2) (rowF d y 3) (rowF d y 4) (rowF d y 5) (rowF d y 6) (rowF d y 7) ((icolF (quantF (colF (rowF d)) q) q) y 0) ((icolF (quantF (colF (rowF d)) q) q) y 1) ((icolF (quantF (colF (rowF d)) q) q) y 2) ((icolF (quantF (colF (rowF d)) q) q) y 3) ((icolF (quantF (colF (rowF d)) q) q) y 4) ((icolF (quantF (colF (rowF d)) q) q) y 5) ((icolF (quantF (colF (rowF d)) q) q) y 6) ((icolF (quantF (colF (rowF d)) q) q) y 7) (bcon q y 0) (bcon q y 1) (bcon q y 2) (bcon q y 3) (bcon q y 4) (bcon q y 5) (bcon q y 6) (bcon q y 7) t
      (hd y 0) (hd y 1) (hd y 2) (hd y 3) (hd y 4) (hd y 5) (hd y 6) (hd y 7) hr.1 hr.2.1 hr.2.2.1 hr.2.2.2.1 hr.2.2.2.2.1 hr.2.2.2.2.2.1 hr.2.2.2.2.2.2.1 hr.2.2.2.2.2.2.2 hv0 hv1 hv2 hv3 hv4 hv5 hv6 hv7 ht2
    simp only [bcon] at this
    simp only [Gabs, sum8]
    omega
  · obtain ⟨t, ht1, ht2⟩ := hi.2.2.2.2.1
    refine ⟨t, ht1, ?_⟩
    have := hstage_4 (d y 0) (d y 1) (d y 2) (d y 3) (d y 4) (d y 5) (d y 6) (d y 7) (rowF d y 0) (rowF d y 1) (rowF d y 2) (rowF d y 3) (rowF d y 4) (rowF d y 5) (rowF d y 6) (rowF d y 7) ((icolF (quantF (colF (rowF d)) q) q) y 0) ((icolF (quantF (colF (rowF d)) q) q) y 1) ((icolF (quantF (colF (rowF d)) q) q) y 2) ((icolF (quantF (colF (rowF d)) q) q) y 3) ((icolF (quantF (colF (rowF d)) q) q) y 4) ((icolF (quantF (colF (rowF d)) q) q) y 5) ((icolF (quantF (colF (rowF d)) q) q) y 6) ((icolF (quantF (colF (rowF d)) q) q) y 7) (bcon q y 0) (bcon q y 1) (bcon q y 2) (bcon q y 3) (bcon q y 4) (bcon q y 5) (bcon q y 6) (bcon q y 7) t
      (hd y 0) (hd y 1) (hd y 2) (hd y 3) (hd y 4) (hd y 5) (hd y 6) (hd y 7) hr.1 hr.2.1 hr.2.2.1 hr.2.2.2.1 hr.2.2.2.2.1 hr.2.2.2.2.2.1 hr.2.2.2.2.2.2.1 hr.2.2.2.2.2.2.2 hv0 hv1 hv2 hv3 hv4 hv5 hv6 hv7 ht2
    simp only [bcon] at this
    simp only [Gabs, sum8]
    omega
  · obtain ⟨t, ht1, ht2⟩ := hi.2.2.2.2.2.1
    refine ⟨t, ht1, ?_⟩
    have := hstage_5 (d y 0) (d y 1) (d y 2) (d y 3) (d y 4) (d y 5) (d y 6) (d y 7) (rowF d y 0) (rowF d y 1) (rowF d y 2) (rowF d y 3) (rowF d y 4) (rowF d y 5) (rowF d y 6) (rowF d y 7) ((icolF (quantF (colF (rowF d)) q) q) y 0) ((icolF (quantF (colF (rowF d)) q) q) y 1) ((icolF (quantF (colF (rowF d)) q) q) y 2) ((icolF (quantF (colF (rowF d)) q) q) y 3) ((icolF (quantF (colF (rowF d)) q) q) y 4) ((icolF (quantF (colF (rowF d)) q) q) y 5) ((icolF (quantF (colF (rowF d)) q) q) y 6) ((icolF (quantF (colF (rowF d)) q) q) y 7) (bcon q y 0) (bcon q y 1) (bcon q y 2) (bcon q y 3) (bcon q y 4) (bcon q y 5) (bcon q y 6) (bcon q y 7) t
      (hd y 0) (hd y 1) (hd y 2) (hd y 3) (hd y 4) (hd y 5) (hd y 6) (hd y 7) hr.1 hr.2.1 hr.2.2.1 hr.2.2.2.1 hr.2.2.2.2.1 hr.2.2.2.2.2.1 hr.2.2.2.2.2.2.1 hr.2.2.2.2.2.2.2 hv0 hv1 hv2 hv3 hv4 hv5 hv6 hv7 ht2
    simp only [bcon] at this
    simp only [Gabs, sum8]
    omega
  · obtain ⟨t, ht1, ht2⟩ := hi.2.2.2.2.2.2.1
    refine ⟨t, ht1, ?_⟩
    have := hstage_6 (d y 0) (d y 1) (d y 2) (d y 3) (d y 4) (d y 5) (d y 6) (d y 7) (rowF d y 0) (rowF d y 1) (rowF d y 2) (rowF d y 3) (rowF d y 4) (rowF d y 5) (rowF d y 6) (rowF d y 7) ((icolF (quantF (colF (rowF d)) q) q) y 0) ((icolF (quantF (colF (rowF d)) q) q) y 1) ((icolF (quantF (colF (rowF d)) q) q) y 2) ((icolF (quantF (colF (rowF d)) q) q) y 3) ((icolF (quantF (colF (rowF d)) q) q) y 4) ((icolF (quantF (colF (rowF d)) q) q) y 5) ((icolF (quantF (colF (rowF d)) q) q) y 6) ((icolF (quantF (colF (rowF d)) q) q) y 7) (bcon q y 0) (bcon q y 1) (bcon q y 2) (bcon q y 3) (bcon q y 4) (bcon q y 5) (bcon q y 6) (bcon q y 7) t
      (hd y 0) (hd y 1) (hd y 2) (hd y 3) (hd y 4) (hd y 5) (hd y 6) (hd y 7) hr.1 hr.2.1 hr.2.2.1 hr.2.2.2.1 hr.2.2.2.2.1 hr.2.2.2.2.2.1 hr.2.2.2.2.2.2.1 hr.2.2.2.2.2.2.2 hv0 hv1 hv2 hv3 hv4 hv5 hv6 hv7 ht2
    simp only [bcon] at this
    simp only [Gabs, sum8]
    omega
  · obtain ⟨t, ht1, ht2⟩ := hi.2.2.2.2.2.2.2
    refine ⟨t, ht1, ?_⟩
    have := hstage_7 (d y 0) (d y 1) (d y 2) (d y 3) (d y 4) (d y 5) (d y 6) (d y 7) (rowF d y 0) (rowF d y 1) (rowF d y 2) (rowF d y 3) (rowF d y 4) (rowF d y 5) (rowF d y 6) (rowF d y 7) ((icolF (quantF (colF (rowF d)) q) q) y 0) ((icolF (quantF (colF (rowF d)) q) q) y 1) ((icolF (quantF (colF (rowF d)) q) q) y 2) ((icolF (quantF (colF (rowF d)) q) q) y 3) ((icolF (quantF (colF (rowF d)) q) q) y 4) ((icolF (quantF (colF (rowF d)) q) q) y 5) ((icolF (quantF (colF (rowF d)) q) q) y 6) ((icolF (quantF (colF (rowF d)) q) q) y 7) (bcon q y 0) (bcon q y 1) (bcon q y 2) (bcon q y 3) (bcon q y 4) (bcon q y 5) (bcon q y 6) (bcon q y 7) t
      (hd y 0) (hd y 1) (hd y 2) (hd y 3) (hd y 4) (hd y 5) (hd y 6) (hd y 7) hr.1 hr.2.1 hr.2.2.1 hr.2.2.2.1 hr.2.2.2.2.1 hr.2.2.2.2.2.1 hr.2.2.2.2.2.2.1 hr.2.2.2.2.2.2.2 hv0 hv1 hv2 hv3 hv4 hv5 hv6 hv7 ht2
    simp only [bcon] at this
    simp only [Gabs, sum8]
    omega


/-! ### hand-written: clamp (M3), comparison with the C(u)C(v) weights (M2), the block theorem -/

/-- M3: +128, clamp to 0..255 and byte() move the value towards any in-range target -/
theorem clamp_bound (t b D : Int) (hb : 0 ≤ b ∧ b ≤ 255)
    (h : -D ≤ 288230376151711744 * (t - (b - 128)) ∧ 288230376151711744 * (t - (b - 128)) ≤ D) :
    -D ≤ 288230376151711744 * (Go.uwrap8 (Clamp (t + 128) 0 255) - b) ∧
    288230376151711744 * (Go.uwrap8 (Clamp (t + 128) 0 255) - b) ≤ D := by
  rw [(clamp_byte _).2.2]; omega

theorem sum7_nonneg (f : Nat → Int) (h : ∀ k, 0 ≤ f k) : 0 ≤ sum7 f := by
  have := h 1; have := h 2; have := h 3; have := h 4; have := h 5; have := h 6; have := h 7
  simp only [sum7]; omega

/-- M2, integer side: row i of |invMatrix| is 8192 = 2^13 in column 0 and at most 11363 elsewhere;
    11363² ≤ 2·8192² says 11363/8192 ≤ √2, i.e. |inv[i][j]| ≤ 2^13·√2·C(j) with C(0) = 1/√2, C(j≥1) = 1 -/
theorem rowS (i : Nat) (hi : i < 8) (f : Nat → Int) (hf : ∀ k, 0 ≤ f k) :
    sum8 (fun k => Gabs i k * f k) ≤ 8192 * f 0 + 11363 * sum7 f := by
  have := hf 0; have := hf 1; have := hf 2; have := hf 3; have := hf 4; have := hf 5; have := hf 6; have := hf 7
  have hc : i = 0 ∨ i = 1 ∨ i = 2 ∨ i = 3 ∨ i = 4 ∨ i = 5 ∨ i = 6 ∨ i = 7 := by omega
  rcases hc with rfl | rfl | rfl | rfl | rfl | rfl | rfl | rfl <;> simp only [Gabs, sum8, sum7] <;> omega

theorem rowMono (i : Nat) (hi : i < 8) (a b : Nat → Int) (h : ∀ k, a k ≤ b k) :
    sum8 (fun k => Gabs i k * a k) ≤ sum8 (fun k => Gabs i k * b k) := by
  have := h 0; have := h 1; have := h 2; have := h 3; have := h 4; have := h 5; have := h 6; have := h 7
  have hc : i = 0 ∨ i = 1 ∨ i = 2 ∨ i = 3 ∨ i = 4 ∨ i = 5 ∨ i = 6 ∨ i = 7 := by omega
  rcases hc with rfl | rfl | rfl | rfl | rfl | rfl | rfl | rfl <;> simp only [Gabs, sum8] <;> omega

theorem weights_sq : (11363 : Int) * 11363 ≤ 2 * (8192 * 8192) := by decide

theorem S_le (q : Blk) (hq : ∀ v k, 1 ≤ q v k) (y x : Nat) (hy : y < 8) (hx : x < 8) :
    sum8 (fun k => Gabs x k * colQ q y k) ≤ 67108864 * q 0 0 + 93085696 * Mq q + 129117769 * Rq q := by
  let u : Nat → Int := fun k => 8192 * q 0 k + 11363 * sum7 (fun v => q v k)
  have h1 : ∀ k, colQ q y k ≤ u k := fun k => rowS y hy (fun v => q v k) (fun v => by have := hq v k; omega)
  have hu : ∀ k, 0 ≤ u k := fun k => by
    have := hq 0 k
    have := sum7_nonneg (fun v => q v k) (fun v => by have := hq v k; omega)
    simp only [u]; omega
  have h2 := rowMono x hx (colQ q y) u h1
  have h3 := rowS x hx u hu
  have e : 8192 * u 0 + 11363 * sum7 u = 67108864 * q 0 0 + 93085696 * Mq q + 129117769 * Rq q := by
    simp only [u, Mq, Rq, sum7]; omega
  omega

theorem sq_le_two (X M : Int) (hX : 0 < X) (h : 8192 * X ≤ 11363 * M) : X * X ≤ 2 * (M * M) := by
  have hM : 0 ≤ 11363 * M := by omega
  have h1 : (8192 * X) * (8192 * X) ≤ (11363 * M) * (11363 * M) :=
    Int.mul_le_mul h h (by omega) hM
  have e1 : (8192 * X) * (8192 * X) = 67108864 * (X * X) := by
    rw [Int.mul_assoc, Int.mul_left_comm X, ← Int.mul_assoc]; rfl
  have e2 : (11363 * M) * (11363 * M) = 129117769 * (M * M) := by
    rw [Int.mul_assoc, Int.mul_left_comm M, ← Int.mul_assoc]; rfl
  rw [e1, e2] at h1
  have hM0 : 0 ≤ M := by omega
  have := Int.mul_nonneg hM0 hM0
  generalize X * X = a at *
  generalize M * M = b at *
  omega

/-- BLOCK THEOREM (8-bit grey path, model = generated passes + functional glue + generated quantiser): every sample of
    every 8×8 block, for every quantisation table with entries ≥ 1 -/
theorem block_bound (blk q : Blk) (hb : ∀ y j, 0 ≤ blk y j ∧ blk y j ≤ 255) (hq : ∀ v k, 1 ≤ q v k)
    (y x : Nat) (hy : y < 8) (hx : x < 8) :
    withinF (blockF blk q y x - blk y x) q := by
  obtain ⟨t, ht1, ht2⟩ := block_int (fun y j => blk y j - 128) q (fun y j => by have := hb y j; constructor <;> omega) hq y x hy hx
  have hout : blockF blk q y x = Go.uwrap8 (Clamp (t + 128) 0 255) := ht1
  have hc := clamp_bound t (blk y x) _ (hb y x) ht2
  rw [← hout] at hc
  have hS := S_le q hq y x hy hx
  have hR : 0 ≤ Rq q := sum7_nonneg _ (fun v => sum7_nonneg _ (fun k => by have := hq v k; omega))
  generalize blockF blk q y x - blk y x = delta at hc ⊢
  generalize sum8 (fun k => Gabs x k * colQ q y k) = S at hc hS
  simp only [withinF]
  by_cases hX : 16 * (Go.abs delta - 2) - q 0 0 - 2 * Rq q ≤ 0
  · exact Or.inl hX
  · right
    apply sq_le_two _ _ (by omega)
    simp only [Go.abs] at hX ⊢
    split <;> omega

/-- 2^26·(Q00/2) + 2^26·0.6935·M + 2^26·0.962·R (×2): the table part of the block bound with the integer weights of the
    inverse matrix; LinB q / 2^30 ≤ (1/8)·Σ C(u)C(v)·Q[u,v] since 93085696/2^27 ≤ 1/√2 and 129117769/2^27 ≤ 1 -/
def LinB (q : Blk) : Int := 67108864 * q 0 0 + 93085696 * Mq q + 129117769 * Rq q

/-- the block bound in linear form: |decoded − source| ≤ 1.44 + LinB q / 2^30 (units 2^-58) -/
theorem block_bound_lin (blk q : Blk) (hb : ∀ y j, 0 ≤ blk y j ∧ blk y j ≤ 255) (hq : ∀ v k, 1 ≤ q v k)
    (y x : Nat) (hy : y < 8) (hx : x < 8) :
    -(415051741658464912 + 268435456 * LinB q) ≤ 288230376151711744 * (blockF blk q y x - blk y x) ∧
    288230376151711744 * (blockF blk q y x - blk y x) ≤ 415051741658464912 + 268435456 * LinB q := by
  obtain ⟨t, ht1, ht2⟩ := block_int (fun y j => blk y j - 128) q (fun y j => by have := hb y j; constructor <;> omega) hq y x hy hx
  have hout : blockF blk q y x = Go.uwrap8 (Clamp (t + 128) 0 255) := ht1
  have hc := clamp_bound t (blk y x) _ (hb y x) ht2
  rw [← hout] at hc
  have hS := S_le q hq y x hy hx
  simp only [LinB]
  generalize sum8 (fun k => Gabs x k * colQ q y k) = S at hc hS
  omega

/-- every output of the block pipeline is a byte -/
theorem blockF_byte (blk q : Blk) (y x : Nat) : 0 ≤ blockF blk q y x ∧ blockF blk q y x ≤ 255 := by
  obtain ⟨t, ht, _⟩ := (irowF_facts (icolF (quantF (fdctF blk) q) q) y)
  have h := irowF_facts (icolF (quantF (fdctF blk) q) q) y
  have key : ∀ i, i < 8 → 0 ≤ irowF (icolF (quantF (fdctF blk) q) q) y i ∧ irowF (icolF (quantF (fdctF blk) q) q) y i ≤ 255 := by
    intro i hi
    have hc : i = 0 ∨ i = 1 ∨ i = 2 ∨ i = 3 ∨ i = 4 ∨ i = 5 ∨ i = 6 ∨ i = 7 := by omega
    rcases hc with rfl | rfl | rfl | rfl | rfl | rfl | rfl | rfl
    · obtain ⟨t, e, _⟩ := h.1; rw [e]; exact ⟨(clamp_byte _).1, (clamp_byte _).2.1⟩
    · obtain ⟨t, e, _⟩ := h.2.1; rw [e]; exact ⟨(clamp_byte _).1, (clamp_byte _).2.1⟩
    · obtain ⟨t, e, _⟩ := h.2.2.1; rw [e]; exact ⟨(clamp_byte _).1, (clamp_byte _).2.1⟩
    · obtain ⟨t, e, _⟩ := h.2.2.2.1; rw [e]; exact ⟨(clamp_byte _).1, (clamp_byte _).2.1⟩
    · obtain ⟨t, e, _⟩ := h.2.2.2.2.1; rw [e]; exact ⟨(clamp_byte _).1, (clamp_byte _).2.1⟩
    · obtain ⟨t, e, _⟩ := h.2.2.2.2.2.1; rw [e]; exact ⟨(clamp_byte _).1, (clamp_byte _).2.1⟩
    · obtain ⟨t, e, _⟩ := h.2.2.2.2.2.2.1; rw [e]; exact ⟨(clamp_byte _).1, (clamp_byte _).2.1⟩
    · obtain ⟨t, e, _⟩ := h.2.2.2.2.2.2.2; rw [e]; exact ⟨(clamp_byte _).1, (clamp_byte _).2.1⟩
  -- irowF … y x = sel8 … (invPos x), and invPos x < 8
  show 0 ≤ irowF (icolF (quantF (fdctF blk) q) q) y x ∧ irowF (icolF (quantF (fdctF blk) q) q) y x ≤ 255
  have hp : ∃ i, i < 8 ∧ irowF (icolF (quantF (fdctF blk) q) q) y x = irowF (icolF (quantF (fdctF blk) q) q) y i := by
    have hx : invPos x = 0 ∨ invPos x = 1 ∨ invPos x = 2 ∨ invPos x = 3 ∨ invPos x = 4 ∨ invPos x = 5 ∨ invPos x = 6 ∨ invPos x = 7 := by
      unfold invPos; split <;> simp
    rcases hx with h0 | h0 | h0 | h0 | h0 | h0 | h0 | h0
    · exact ⟨0, by omega, by simp only [irowF, h0]; rfl⟩
    · exact ⟨7, by omega, by simp only [irowF, h0]; rfl⟩
    · exact ⟨1, by omega, by simp only [irowF, h0]; rfl⟩
    · exact ⟨6, by omega, by simp only [irowF, h0]; rfl⟩
    · exact ⟨2, by omega, by simp only [irowF, h0]; rfl⟩
    · exact ⟨5, by omega, by simp only [irowF, h0]; rfl⟩
    · exact ⟨3, by omega, by simp only [irowF, h0]; rfl⟩
    · exact ⟨4, by omega, by simp only [irowF, h0]; rfl⟩
  obtain ⟨i, hi, e⟩ := hp
  rw [e]; exact key i hi

/-- IMAGE LIFT: edge replication is the identity inside the image, so every pixel of every w×h greyscale image is within
    the bound of its source sample -/
theorem image_bound (img q : Blk) (w h : Nat) (hb : ∀ y j, 0 ≤ img y j ∧ img y j ≤ 255) (hq : ∀ v k, 1 ≤ q v k)
    (X Y : Nat) (hX : X < w) (hY : Y < h) :
    withinF (decodedPixel img w h q X Y - img Y X) q := by
  have hbb := block_bound (extractBlock img w h (X / 8) (Y / 8)) q (fun y j => hb _ _) hq (Y % 8) (X % 8)
    (Nat.mod_lt _ (by decide)) (Nat.mod_lt _ (by decide))
  have ex : edgeIdx ((X / 8 : Nat) : Int) ((X % 8 : Nat) : Int) (w : Int) = (X : Int) := by
    have := (edge_idx ((X / 8 : Nat) : Int) ((X % 8 : Nat) : Int) (w : Int) (by omega) (by omega) (by omega)).2.2
    have hdm := Nat.div_add_mod X 8
    omega
  have ey : edgeIdx ((Y / 8 : Nat) : Int) ((Y % 8 : Nat) : Int) (h : Int) = (Y : Int) := by
    have := (edge_idx ((Y / 8 : Nat) : Int) ((Y % 8 : Nat) : Int) (h : Int) (by omega) (by omega) (by omega)).2.2
    have hdm := Nat.div_add_mod Y 8
    omega
  have e : extractBlock img w h (X / 8) (Y / 8) (Y % 8) (X % 8) = img Y X := by
    simp only [extractBlock, ex, ey, Int.toNat_natCast]
  rw [e] at hbb
  exact hbb
end Dct
