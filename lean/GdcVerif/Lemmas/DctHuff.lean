import GdcVerif.Model.Dct
/-! Category coding round trip. -/
namespace Dct

theorem catLoop_spec (a : Nat) : ∀ fuel cat, 1 ≤ cat → 2 ^ (cat - 1) ≤ a → a < 2 ^ (cat + fuel) →
    2 ^ (catLoop a fuel cat - 1) ≤ a ∧ a < 2 ^ (catLoop a fuel cat) ∧ cat ≤ catLoop a fuel cat ∧ catLoop a fuel cat ≤ cat + fuel
  | 0, cat, _, h1, h2 => by simpa [catLoop] using ⟨h1, h2⟩
  | fuel + 1, cat, hc, h1, h2 => by
    by_cases h : 2 ^ cat ≤ a
    · have := catLoop_spec a fuel (cat + 1) (by omega) (by simpa using h) (by
        have : cat + 1 + fuel = cat + (fuel + 1) := by omega
        rw [this]; exact h2)
      simp only [catLoop, h, if_true]
      omega
    · simp only [catLoop, h, if_false]
      exact ⟨h1, by omega, by omega, by omega⟩

theorem category_spec (a : Nat) (ha : 1 ≤ a) (hb : a < 2 ^ 62) :
    let c := catLoop a 64 1
    1 ≤ c ∧ c ≤ 62 ∧ 2 ^ (c - 1) ≤ a ∧ a < 2 ^ c := by
  intro c
  have h := catLoop_spec a 64 1 (by omega) (by simpa using ha)
    (Nat.lt_of_lt_of_le hb (Nat.pow_le_pow_right (by decide) (by decide)))
  refine ⟨h.2.2.1, ?_, h.1, h.2.1⟩
  -- 2^(c-1) ≤ a < 2^62 ⇒ c - 1 < 62
  have : 2 ^ (c - 1) < 2 ^ 62 := Nat.lt_of_le_of_lt h.1 hb
  have := (Nat.pow_lt_pow_iff_right (by decide : 1 < 2)).1 this
  omega

theorem category_roundtrip (v : Int) (hv : v ≠ 0) (hb : v.natAbs < 2 ^ 62) :
    let cb := encodeCategory v
    1 ≤ cb.1 ∧ 0 ≤ cb.2 ∧ cb.2 < (2 : Int) ^ cb.1 ∧ extend cb.1 cb.2 = v := by
  intro cb
  have ha : 1 ≤ v.natAbs := by omega
  obtain ⟨c1, c2, lo, hi⟩ := category_spec v.natAbs ha hb
  generalize hc : catLoop v.natAbs 64 1 = c at *
  have hcb : cb = (c, if v > 0 then v else (2 : Int) ^ c + v - 1) := by
    simp only [cb, encodeCategory, hv, if_false, hc]
  have e2 : (2 : Int) ^ c = 2 * 2 ^ (c - 1) := by
    have : c = (c - 1) + 1 := by omega
    rw [this, Int.pow_succ]; simp; omega
  have lo' : (2 : Int) ^ (c - 1) ≤ (v.natAbs : Int) := by exact_mod_cast lo
  have hi' : (v.natAbs : Int) < (2 : Int) ^ c := by exact_mod_cast hi
  have hc0 : ¬ c = 0 := by omega
  rw [hcb]
  by_cases hp : v > 0
  · have : (v.natAbs : Int) = v := by omega
    simp only [hp, if_true, extend, hc0, if_false]
    refine ⟨c1, by omega, by omega, ?_⟩
    rw [if_neg (by omega)]
  · have : (v.natAbs : Int) = -v := by omega
    simp only [hp, if_false, extend, hc0]
    refine ⟨c1, by omega, by omega, ?_⟩
    rw [if_pos (by omega)]; omega

end Dct
