import GdcVerif.Gen.JpegBaseline
/-! parseDRI's restart-interval expression (GENERATED, with typed 8-bit shifts) is the 16-bit big-endian value. -/
namespace JpegAddr
open Gen.JpegBaseline

theorem or_disjoint (x b : Nat) (hx : x < 2 ^ 32) (hb : b < 256) (hd : x % 256 = 0) :
    Go.or (x : Int) (b : Int) = (x : Int) + b := by
  simp only [Go.or, BitVec.ofInt_natCast]
  have hor : x ||| b = x + b := by
    have hx' : x = (x / 256) <<< 8 := by rw [Nat.shiftLeft_eq]; omega
    have := Nat.shiftLeft_add_eq_or_of_lt (i := 8) (b := b) (by simpa using hb) (x / 256)
    rw [← hx'] at this
    exact this.symm
  have hn : (BitVec.ofNat 64 x ||| BitVec.ofNat 64 b).toNat = x + b := by
    rw [BitVec.toNat_or, BitVec.toNat_ofNat, BitVec.toNat_ofNat, Nat.mod_eq_of_lt (by omega), Nat.mod_eq_of_lt (by omega), hor]
  rw [BitVec.toInt_eq_toNat_cond, hn]
  have : 2 * (x + b) < 2 ^ 64 := by omega
  simp [this]

theorem dri_value (d0 d1 : Nat) (h0 : d0 < 256) (h1 : d1 < 256) :
    parseDRI.restartInt (d0 : Int) (d1 : Int) = (d0 : Int) * 256 + d1 := by
  have hs : Go.shl (d0 : Int) 8 = ((d0 * 256 : Nat) : Int) := by simp [Go.shl]
  simp only [parseDRI.restartInt, hs]
  rw [or_disjoint (d0 * 256) d1 (by omega) h1 (by omega)]
  simp

end JpegAddr
