import GdcVerif.Lemmas.J2kGluePlane
import GdcVerif.Lemmas.J2kGlueT1
/-! planes → packets → bytes → packets → planes for one tile (T2 + T1 + cut/paste) -/
namespace J2kGlue
open T1

theorem cutBlock_length (f : Plane) (k : BlkRect) : (cutBlock f k).length = k.w * k.h := by
  unfold cutBlock
  have : ∀ h : Nat, ((List.range h).flatMap fun y => (List.range k.w).map fun x => f (k.x0 + x) (k.y0 + y)).length = k.w * h := by
    intro h
    induction h with
    | zero => simp
    | succ h ih => rw [List.range_succ, List.flatMap_append, List.length_append, ih]; simp [Nat.mul_succ]
  exact this k.h

theorem nodup_row (n y : Nat) : ((List.range n).map fun x => (x, y)).Nodup := by
  rw [List.nodup_iff_pairwise_ne, List.pairwise_map]
  exact List.Pairwise.imp (fun {a b} (h : a < b) => by intro he; injection he with h1 _; omega) List.pairwise_lt_range

theorem nodup_grid (nX : Nat) : ∀ nY : Nat, ((List.range nY).flatMap fun y => (List.range nX).map fun x => (x, y)).Nodup := by
  intro nY
  induction nY with
  | zero => simp
  | succ nY ih =>
    rw [List.range_succ, List.flatMap_append, List.nodup_append]
    refine ⟨ih, by simpa using nodup_row nX nY, ?_⟩
    intro a ha b hb
    rw [List.mem_flatMap] at ha
    obtain ⟨y, hy, ha⟩ := ha
    obtain ⟨x, _, rfl⟩ := List.mem_map.mp ha
    simp only [List.flatMap_cons, List.flatMap_nil, List.append_nil] at hb
    obtain ⟨x', _, rfl⟩ := List.mem_map.mp hb
    have := List.mem_range.mp hy
    intro he; injection he with _ h2; omega

theorem blkRects_pos_nodup (cbw cbh : Nat) (b : BandRect) :
    ((blkRects cbw cbh b).map fun k => (k.cbx, k.cby)).Nodup := by
  unfold blkRects
  rw [List.map_flatMap]
  simp only [List.map_map, Function.comp_def]
  exact nodup_grid _ _

theorem numCb_pos (len cb : Nat) (hcb : 0 < cb) (h : len ≠ 0) : 0 < numCb len cb := by
  have := div_lt_numCb 0 len cb hcb (by omega)
  exact Nat.lt_of_le_of_lt (Nat.zero_le _) this

theorem blkRects_ne_nil (cbw cbh : Nat) (hw : 0 < cbw) (hh : 0 < cbh) (b : BandRect) (h : b.bw ≠ 0 ∧ b.bh ≠ 0) :
    blkRects cbw cbh b ≠ [] := by
  have h1 := numCb_pos b.bw cbw hw h.1
  have h2 := numCb_pos b.bh cbh hh h.2
  intro he
  have : (⟨0, 0, b.ox + 0 * cbw, b.oy + 0 * cbh, min cbw (b.bw - 0 * cbw), min cbh (b.bh - 0 * cbh)⟩ : BlkRect) ∈ blkRects cbw cbh b := by
    unfold blkRects
    rw [List.mem_flatMap]
    exact ⟨0, List.mem_range.mpr h2, List.mem_map.mpr ⟨0, List.mem_range.mpr h1, rfl⟩⟩
  rw [he] at this
  exact absurd this (by simp)

/-- NAMED HYPOTHESIS (unproved): the T1 output of a code-block fits decodePacket's `maxSegmentLength = 65535`
    (no bound on the MQ output length is proved; 4096 samples × 31 bit-planes make it plausible) -/
def SegmentLenHyp : Prop :=
  ∀ (w h orient : Nat) (cs : List Int) (np : Nat) (bs : List Nat), cs.length = w * h → (∀ c ∈ cs, c.natAbs < 2 ^ 25) →
    encodeBlock w h orient 0 cs np = .ok bs → bs.length ≤ 65535

theorem cutBlock_bound (f : Plane) (k : BlkRect) (hb : ∀ x y, (f x y).natAbs < 2 ^ 25) : ∀ v ∈ cutBlock f k, v.natAbs < 2 ^ 25 := by
  intro v hv
  unfold cutBlock at hv
  rw [List.mem_flatMap] at hv
  obtain ⟨y, _, hv⟩ := hv
  obtain ⟨x, _, rfl⟩ := List.mem_map.mp hv
  exact hb _ _

theorem ppacketOk (c : TCfg) (r : Nat) (f : Plane) (hw : 0 < c.cbw) (hh : 0 < c.cbh) (hl : liveBands c r ≠ [])
    (hnb : ∀ r b, c.nb r b < 32) (hb : ∀ x y, (f x y).natAbs < 2 ^ 25) (hs : SegmentLenHyp) :
    PPacketOk (ppacketOf c r f) := by
  constructor
  · cases hlb : liveBands c r with
    | nil => exact absurd hlb hl
    | cons b bs =>
      have hmem : b ∈ liveBands c r := by rw [hlb]; simp
      have hne : b.bw ≠ 0 ∧ b.bh ≠ 0 := by
        unfold liveBands at hmem
        have := (List.mem_filter.mp hmem).2
        simpa using this
      refine ⟨pbandOf c r f b, by unfold ppacketOf; rw [hlb]; simp, ?_⟩
      unfold pbandOf
      simp only []
      intro he
      exact blkRects_ne_nil c.cbw c.cbh hw hh b hne (List.map_eq_nil_iff.mp he)
  · intro pb hpb
    unfold ppacketOf at hpb
    obtain ⟨b, _, rfl⟩ := List.mem_map.mp hpb
    constructor
    · unfold pbandOf
      simp only [List.map_map, Function.comp_def]
      exact blkRects_pos_nodup c.cbw c.cbh b
    · intro blk hblk
      unfold pbandOf at hblk
      simp only [] at hblk
      obtain ⟨k, _, rfl⟩ := List.mem_map.mp hblk
      have hlen := cutBlock_length f k
      have hbd := cutBlock_bound f k hb
      exact { len := by simpa using hlen, bnd := by simpa using hbd, nb32 := hnb r b.band,
              bytes := fun np bs he => hs _ _ _ _ np bs (by simpa using hlen) (by simpa using hbd) he }

theorem packetSeq_live (c : TCfg) (nC prog : Nat) : ∀ q ∈ packetSeq c nC prog, liveBands c q.1 ≠ [] := by
  intro q hq
  unfold packetSeq at hq
  simp only [] at hq
  have key : ∀ r, (!(liveBands c r).isEmpty) = true → liveBands c r ≠ [] := by
    intro r h he; rw [he] at h; simp at h
  by_cases hp : prog ≤ 2
  · simp only [hp, if_true] at hq
    rw [List.mem_flatMap] at hq
    obtain ⟨r, _, hq⟩ := hq
    by_cases hl : (!(liveBands c r).isEmpty) = true
    · simp only [hl, if_true] at hq
      obtain ⟨k, _, rfl⟩ := List.mem_map.mp hq
      exact key r hl
    · simp only [hl, Bool.false_eq_true, if_false] at hq
      exact absurd hq (by simp)
  · simp only [hp, if_false] at hq
    rw [List.mem_flatMap] at hq
    obtain ⟨k, _, hq⟩ := hq
    obtain ⟨r, hr, rfl⟩ := List.mem_map.mp hq
    exact key r (List.mem_filter.mp hr).2

/-- T2 + T1 + CUT/PASTE FOR A TILE: the tile-component planes the encoder cuts its code-blocks from are the planes the
    decoder fills — every sample of every component.  Named hypothesis: `SegmentLenHyp`;
    assumptions on the configuration: positive code-block size, `bandNumbps < 32`, `|coefficient| < 2^25`. -/
theorem tile_planes_roundtrip (c : TCfg) (nC prog : Nat) (planes : Nat → Plane) (tail : List Nat)
    (hw : 0 < c.cbw) (hh : 0 < c.cbh) (hnb : ∀ r b, c.nb r b < 32)
    (hb : ∀ k x y, (planes k x y).natAbs < 2 ^ 25) (hs : SegmentLenHyp) :
    ∃ bytes out, encodeTileBody (tilePackets c nC prog planes) = some bytes ∧
      decodeTileBody (tileGeo c nC prog) (bytes ++ tail) = some out ∧
      ∀ k x y, k < nC → x < c.W → y < c.H → pasteTile c nC prog out k x y = planes k x y := by
  have hok : ∀ p ∈ tilePackets c nC prog planes, PPacketOk p := by
    intro p hp
    unfold tilePackets at hp
    obtain ⟨q, hq, rfl⟩ := List.mem_map.mp hp
    exact ppacketOk c q.1 (planes q.2) hw hh (packetSeq_live c nC prog q hq) hnb (hb q.2) hs
  obtain ⟨bytes, henc, hdec⟩ := tile_blocks_roundtrip (tilePackets c nC prog planes) tail hok
  rw [tileGeo_eq] at hdec
  refine ⟨bytes, _, henc, hdec, ?_⟩
  intro k x y hk hx hy
  exact pasteTile_tilePackets c nC prog planes hw hh k x y hk hx hy

end J2kGlue
