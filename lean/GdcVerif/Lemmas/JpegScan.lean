import GdcVerif.Model.JpegScan
import GdcVerif.Lemmas.JpegAc
namespace JpegScan
open Dct JpegAc

theorem dc_roundtrip (d : Int) (hb : d.natAbs < 2 ^ 62) :
    extend (encodeCategory d).1 (encodeCategory d).2 = d := by
  by_cases h : d = 0
  · subst h; simp [encodeCategory, extend]
  · exact (category_roundtrip d h hb).2.2.2

/-- symbol-level scan round trip: any MCU-ordered list of (component, block) -/
theorem scan_symbols_roundtrip : ∀ (l : List (Nat × Block)) (pred : Nat → Int),
    (∀ b ∈ l, b.2.2.length = 63 ∧ (∀ v ∈ b.2.2, v.natAbs < 2 ^ 15) ∧ b.2.1.natAbs < 2 ^ 30) →
    (∀ c, (pred c).natAbs < 2 ^ 30) →
    decBlocks pred (l.map (·.1)) (encBlocks pred l) = some l
  | [], _, _, _ => by simp [encBlocks, decBlocks]
  | (c, (dc, ac)) :: rest, pred, hl, hp => by
    have h1 := hl (c, (dc, ac)) (by simp)
    have hrt := decode_encode ac h1.1 h1.2.1
    have hdcb : dc.natAbs < 2 ^ 30 := h1.2.2
    have hpc := hp c
    have hd : (dc - pred c).natAbs < 2 ^ 62 := by omega
    have hdc := dc_roundtrip (dc - pred c) hd
    have ih := scan_symbols_roundtrip rest (fun c' => if c' = c then dc else pred c')
      (fun b hb => hl b (by simp [hb]))
      (fun c' => by by_cases e : c' = c <;> simp [e] <;> first | exact hdcb | exact hp c')
    have e : pred c + (dc - pred c) = dc := by omega
    simp only [encBlocks, List.map_cons, decBlocks, hdc, e, hrt]
    simp only [Option.bind_eq_bind, Option.bind_some, Option.pure_def, ih]

end JpegScan
