import GdcVerif.Model.J2kPacketHeader
import GdcVerif.Lemmas.J2kTagTree
import GdcVerif.Lemmas.J2kHeaderCodes
/-! Packet header: encoder / decoder lock step over the code-blocks of a band, the bands of a packet, and layers. -/
namespace J2kPH
open J2k J2kTT

def All2 {α β : Type} (R : α → β → Prop) : List α → List β → Prop
  | [], [] => True
  | a :: as, b :: bs => R a b ∧ All2 R as bs
  | _, _ => False

/-- encoder / decoder view of one code-block agree -/
def CbSync (e : CbE) (d : CbD) : Prop :=
  d.x = e.x ∧ d.y = e.y ∧ d.included = e.included ∧
  (e.included = true → d.zbp = e.zbp ∧ d.lblock = e.lblock ∧ e.lblock ≠ 0) ∧
  (e.included = false → e.lblock = 0) ∧ e.lblock ≤ 25

/-- admissible contribution: 1..164 passes, fewer than 2^24 bytes -/
def COk (c : Contrib) : Prop := ∀ np len, c = some (np, len) → 1 ≤ np ∧ np ≤ 164 ∧ len < 2 ^ 24

/-- tag-tree leaf values as `prepare` leaves them, for a code-block and its contribution in this layer -/
def LeafOK (layer : Nat) (ival zval : Node → Nat) (e : CbE) (c : Contrib) : Prop :=
  (e.included = false → ival (0, e.x, e.y) = (if c.isSome then layer else sentinel)) ∧
  (e.included = false → c.isSome = true → zval (0, e.x, e.y) = e.zbp) ∧ e.zbp < 32

/-- what the decoder must report -/
def expIncl (e : CbE) (c : Contrib) : Incl :=
  match c with
  | none => ⟨false, 0, 0, 0⟩
  | some (np, len) => ⟨true, np, len, e.zbp⟩

theorem floorLog2F_le : ∀ (f n k : Nat), n < 2 ^ (k + 1) → floorLog2F f n ≤ k := by
  intro f
  induction f with
  | zero => intro n k _; simp [floorLog2F]
  | succ f ih =>
    intro n k h
    unfold floorLog2F
    by_cases h1 : n ≤ 1
    · simp [h1]
    · simp only [h1, if_false]
      cases k with
      | zero => simp at h; omega
      | succ k =>
        have := ih (n / 2) k (by rw [Nat.pow_succ] at h; omega)
        omega

theorem floorLog2_le (n k : Nat) (h : n < 2 ^ (k + 1)) : floorLog2 n ≤ k := floorLog2F_le n n k h

/-- Lblock stays ≤ 25 and the length field ≤ 32 bits for admissible contributions -/
theorem encLen_bounds (l len np : Nat) (hl : l ≤ 25) (hnp : np ≤ 164) (hlen : len < 2 ^ 24) :
    (encLen l len np).1 ≤ 25 ∧ (encLen l len np).1 + floorLog2 np ≤ 32 ∧ (encLen l len np).1 ≠ 0 := by
  have h1 : floorLog2 len ≤ 23 := floorLog2_le len 23 hlen
  have h2 : floorLog2 np ≤ 7 := floorLog2_le np 7 (by omega)
  unfold encLen
  simp only []
  by_cases h0 : l = 0
  · subst h0; simp; omega
  · have : (l == 0) = false := by simp [h0]
    simp only [this, Bool.false_eq_true, if_false]; omega

theorem encNumPasses_ok (np : Nat) (h1 : 1 ≤ np) (h2 : np ≤ 164) (rest : List Bool) :
    decNumPasses ((encNumPasses np).getD [] ++ rest) = some (np, rest) := by
  obtain ⟨code, hc, hd⟩ := numPasses_roundtrip' np h1 h2 rest
  rw [hc]; exact hd

theorem encCbs_new_none (layer w h : Nat) (e : CbE) (es : List CbE) (cs : List Contrib) (incl zt : TTEnc)
    (hi : e.included = false) :
    encCbs layer w h (e :: es) (none :: cs) incl zt =
      (e :: (encCbs layer w h es cs (incl.encode w h e.x e.y (layer + 1)).1 zt).1,
       (encCbs layer w h es cs (incl.encode w h e.x e.y (layer + 1)).1 zt).2.1,
       (encCbs layer w h es cs (incl.encode w h e.x e.y (layer + 1)).1 zt).2.2.1,
       (incl.encode w h e.x e.y (layer + 1)).2 ++ (encCbs layer w h es cs (incl.encode w h e.x e.y (layer + 1)).1 zt).2.2.2) := by
  simp [encCbs, hi]

theorem encCbs_new_some (layer w h : Nat) (e : CbE) (es : List CbE) (cs : List Contrib) (incl zt : TTEnc) (np len : Nat)
    (hi : e.included = false) :
    encCbs layer w h (e :: es) (some (np, len) :: cs) incl zt =
      ({ e with included := true, lblock := (encLen e.lblock len np).1 } ::
        (encCbs layer w h es cs (incl.encode w h e.x e.y (layer + 1)).1 (zt.encode w h e.x e.y 999).1).1,
       (encCbs layer w h es cs (incl.encode w h e.x e.y (layer + 1)).1 (zt.encode w h e.x e.y 999).1).2.1,
       (encCbs layer w h es cs (incl.encode w h e.x e.y (layer + 1)).1 (zt.encode w h e.x e.y 999).1).2.2.1,
       ((incl.encode w h e.x e.y (layer + 1)).2 ++ (zt.encode w h e.x e.y 999).2 ++ (encNumPasses np).getD [] ++
          (encLen e.lblock len np).2) ++
        (encCbs layer w h es cs (incl.encode w h e.x e.y (layer + 1)).1 (zt.encode w h e.x e.y 999).1).2.2.2) := by
  simp [encCbs, hi]

theorem encCbs_old_none (layer w h : Nat) (e : CbE) (es : List CbE) (cs : List Contrib) (incl zt : TTEnc)
    (hi : e.included = true) :
    encCbs layer w h (e :: es) (none :: cs) incl zt =
      (e :: (encCbs layer w h es cs incl zt).1, (encCbs layer w h es cs incl zt).2.1,
       (encCbs layer w h es cs incl zt).2.2.1, false :: (encCbs layer w h es cs incl zt).2.2.2) := by
  simp [encCbs, hi]

theorem encCbs_old_some (layer w h : Nat) (e : CbE) (es : List CbE) (cs : List Contrib) (incl zt : TTEnc) (np len : Nat)
    (hi : e.included = true) :
    encCbs layer w h (e :: es) (some (np, len) :: cs) incl zt =
      ({ e with lblock := (encLen e.lblock len np).1 } :: (encCbs layer w h es cs incl zt).1,
       (encCbs layer w h es cs incl zt).2.1, (encCbs layer w h es cs incl zt).2.2.1,
       (true :: ((encNumPasses np).getD [] ++ (encLen e.lblock len np).2)) ++ (encCbs layer w h es cs incl zt).2.2.2) := by
  simp [encCbs, hi]

/-- the code-blocks of one band: encoder and decoder in lock step -/
theorem cbs_sync (layer w h : Nat) (hlayer : layer + 1 ≤ sentinel) :
    ∀ (ecbs : List CbE) (dcbs : List CbD) (cs : List Contrib) (incl zt : TTEnc) (incld ztd : TTDec) (rest : List Bool),
      All2 CbSync ecbs dcbs → All2 (LeafOK layer incl.val zt.val) ecbs cs → (∀ c ∈ cs, COk c) →
      Inv incl incld → Inv zt ztd → GlobalHeap incl.val (ttNumLevels w h) → GlobalHeap zt.val (ttNumLevels w h) →
      (∀ n, incl.low n ≤ layer + 1) →
      ∃ dcbs' incld' ztd',
        decCbs layer w h dcbs incld ztd ((encCbs layer w h ecbs cs incl zt).2.2.2 ++ rest) =
          some (dcbs', incld', ztd', List.zipWith expIncl ecbs cs, rest) ∧
        All2 CbSync (encCbs layer w h ecbs cs incl zt).1 dcbs' ∧
        Inv (encCbs layer w h ecbs cs incl zt).2.1 incld' ∧ Inv (encCbs layer w h ecbs cs incl zt).2.2.1 ztd' ∧
        (encCbs layer w h ecbs cs incl zt).2.1.val = incl.val ∧ (encCbs layer w h ecbs cs incl zt).2.2.1.val = zt.val ∧
        (∀ n, (encCbs layer w h ecbs cs incl zt).2.1.low n ≤ layer + 1) := by
  intro ecbs
  induction ecbs with
  | nil =>
    intro dcbs cs incl zt incld ztd rest hs _ _ hi hz _ _ hlow
    cases dcbs with
    | nil => exact ⟨[], incld, ztd, by simp [encCbs, decCbs], trivial, hi, hz, rfl, rfl, hlow⟩
    | cons d ds => exact absurd hs (by simp [All2])
  | cons e es ih =>
    intro dcbs cs incl zt incld ztd rest hs hleaf hok hi hz hih hzh hlow
    cases dcbs with
    | nil => exact absurd hs (by simp [All2])
    | cons d ds =>
      cases cs with
      | nil => exact absurd hleaf (by simp [All2])
      | cons c cs' =>
        obtain ⟨⟨sx, sy, sinc, s1, s0, sl⟩, hs'⟩ := hs
        obtain ⟨⟨l1, l2, l3⟩, hleaf'⟩ := hleaf
        have hokc := hok c (by simp)
        have hok' : ∀ c ∈ cs', COk c := fun c hc => hok c (by simp [hc])
        cases hinc : e.included with
        | false =>
          have hdinc : d.included = false := by rw [sinc, hinc]
          have hl0 := s0 hinc
          -- inclusion query
          obtain ⟨incld1, r, hq, hi1, hv1, hr1, hr2⟩ :=
            query_sync w h e.x e.y (layer + 1) hlayer incl incld
              ((match c with
                | none => (encCbs layer w h es cs' (incl.encode w h e.x e.y (layer + 1)).1 zt).2.2.2
                | some (np, len) =>
                  (zt.encode w h e.x e.y 999).2 ++ (encNumPasses np).getD [] ++ (encLen e.lblock len np).2 ++
                    (encCbs layer w h es cs' (incl.encode w h e.x e.y (layer + 1)).1 (zt.encode w h e.x e.y 999).1).2.2.2) ++ rest)
              hi hih
          have hlow1 : ∀ n, (incl.encode w h e.x e.y (layer + 1)).1.low n ≤ layer + 1 :=
            encodePath_low_bound (layer + 1) (layer + 1) (Nat.le_refl _) _ incl 0 hlow (Nat.zero_le _)
          cases c with
          | none =>
            have hval : incl.val (0, e.x, e.y) = sentinel := by simpa using l1 hinc
            have hr : r = sentinel := by
              rcases hr2 with h | ⟨h, _⟩
              · rw [h, hval]
              · exact h
            have hleaf1 : All2 (LeafOK layer (incl.encode w h e.x e.y (layer + 1)).1.val zt.val) es cs' := by rw [hv1]; exact hleaf'
            obtain ⟨ds', i2, z2, hd2, hs2, hi2, hz2, hv2, hzv2, hlow2⟩ :=
              ih ds cs' (incl.encode w h e.x e.y (layer + 1)).1 zt incld1 ztd rest hs' hleaf1 hok' hi1 hz
                (by rw [hv1]; exact hih) hzh hlow1
            rw [encCbs_new_none layer w h e es cs' incl zt hinc]
            refine ⟨d :: ds', i2, z2, ?_, ⟨⟨sx, sy, sinc, s1, s0, sl⟩, hs2⟩, hi2, hz2, by rw [hv2, hv1], hzv2, hlow2⟩
            unfold decCbs
            simp only [hdinc, Bool.not_false, if_true, List.append_assoc, sx, sy]
            simp only [List.append_assoc] at hq
            rw [hq]
            have : r > layer := by rw [hr]; unfold sentinel at *; omega
            simp only [this, if_true, hd2, List.zipWith_cons_cons, expIncl]
          | some q =>
            obtain ⟨np, len⟩ := q
            obtain ⟨hnp1, hnp2, hlen⟩ := hokc np len rfl
            have hval : incl.val (0, e.x, e.y) = layer := by simpa using l1 hinc
            have hr : r = layer := by rw [hr1 (by rw [hval]; omega), hval]
            have hzval : zt.val (0, e.x, e.y) = e.zbp := l2 hinc rfl
            -- zero-bit-plane query: encoder threshold 999, decoder 32
            obtain ⟨ztd1, hqz, hz1, hzv1⟩ :=
              query_sync_thr w h e.x e.y 999 32 (by decide) zt ztd
                ((encNumPasses np).getD [] ++ ((encLen e.lblock len np).2 ++
                  ((encCbs layer w h es cs' (incl.encode w h e.x e.y (layer + 1)).1 (zt.encode w h e.x e.y 999).1).2.2.2 ++ rest)))
                hz hzh (by rw [hzval]; omega) (by rw [hzval]; exact l3)
            have hb := encLen_bounds e.lblock len np sl hnp2 hlen
            have hlb := lblock_roundtrip' e.lblock len np
              ((encCbs layer w h es cs' (incl.encode w h e.x e.y (layer + 1)).1 (zt.encode w h e.x e.y 999).1).2.2.2 ++ rest) hb.2.1
            have hleaf1 : All2 (LeafOK layer (incl.encode w h e.x e.y (layer + 1)).1.val (zt.encode w h e.x e.y 999).1.val) es cs' := by
              rw [hv1, hzv1]; exact hleaf'
            obtain ⟨ds', i2, z2, hd2, hs2, hi2, hz2, hv2, hzv2, hlow2⟩ :=
              ih ds cs' (incl.encode w h e.x e.y (layer + 1)).1 (zt.encode w h e.x e.y 999).1 incld1 ztd1 rest hs' hleaf1 hok' hi1 hz1
                (by rw [hv1]; exact hih) (by rw [hzv1]; exact hzh) hlow1
            rw [encCbs_new_some layer w h e es cs' incl zt np len hinc]
            refine ⟨{ d with included := true, lblock := (encLen e.lblock len np).1, zbp := e.zbp } :: ds', i2, z2, ?_,
              ⟨⟨sx, sy, rfl, fun _ => ⟨rfl, rfl, hb.2.2⟩, fun hf => by simp at hf, hb.1⟩, hs2⟩,
              hi2, hz2, by rw [hv2, hv1], by rw [hzv2, hzv1], hlow2⟩
            unfold decCbs
            simp only [hdinc, Bool.not_false, if_true, List.append_assoc, sx, sy]
            simp only [List.append_assoc] at hq
            rw [hq]
            have : ¬ r > layer := by omega
            simp only [this, if_false, hqz, encNumPasses_ok np hnp1 hnp2]
            have hl3 : decLen 3 np = decLen e.lblock np := by
              unfold decLen; rw [hl0]; rfl
            rw [hl3, hlb.1]
            simp only [hd2, List.zipWith_cons_cons, expIncl, hzval]
        | true =>
          have hdinc : d.included = true := by rw [sinc, hinc]
          obtain ⟨sz, slb, sne⟩ := s1 hinc
          cases c with
          | none =>
            obtain ⟨ds', i2, z2, hd2, hs2, hi2, hz2, hv2, hzv2, hlow2⟩ :=
              ih ds cs' incl zt incld ztd rest hs' hleaf' hok' hi hz hih hzh hlow
            rw [encCbs_old_none layer w h e es cs' incl zt hinc]
            refine ⟨d :: ds', i2, z2, ?_, ⟨⟨sx, sy, sinc, s1, s0, sl⟩, hs2⟩, hi2, hz2, hv2, hzv2, hlow2⟩
            unfold decCbs
            simp only [hdinc, Bool.not_true, Bool.false_eq_true, if_false, List.cons_append, hd2,
              List.zipWith_cons_cons, expIncl]
          | some q =>
            obtain ⟨np, len⟩ := q
            obtain ⟨hnp1, hnp2, hlen⟩ := hokc np len rfl
            have hb := encLen_bounds e.lblock len np sl hnp2 hlen
            have hlb := lblock_roundtrip' e.lblock len np ((encCbs layer w h es cs' incl zt).2.2.2 ++ rest) hb.2.1
            obtain ⟨ds', i2, z2, hd2, hs2, hi2, hz2, hv2, hzv2, hlow2⟩ :=
              ih ds cs' incl zt incld ztd rest hs' hleaf' hok' hi hz hih hzh hlow
            rw [encCbs_old_some layer w h e es cs' incl zt np len hinc]
            refine ⟨{ d with lblock := (encLen e.lblock len np).1 } :: ds', i2, z2, ?_,
              ⟨⟨sx, sy, sinc, fun _ => ⟨sz, rfl, hb.2.2⟩, fun hf => by simp [hinc] at hf, hb.1⟩, hs2⟩,
              hi2, hz2, hv2, hzv2, hlow2⟩
            unfold decCbs
            simp only [hdinc, Bool.not_true, Bool.false_eq_true, if_false, List.cons_append, List.append_assoc,
              encNumPasses_ok np hnp1 hnp2, slb, hlb.1, hd2, List.zipWith_cons_cons, expIncl, sz]

/-! ### prepare -/

def pos (e : CbE) : Nat × Nat := (e.x, e.y)

/-- per code-block facts about the trees after `prepare` -/
def PrepLeaf (layer : Nat) (p1 p2 i0 z0 : Node → Nat) (e : CbE) (c : Contrib) : Prop :=
  p1 (0, e.x, e.y) = (if !e.included && c.isSome then min (i0 (0, e.x, e.y)) layer else i0 (0, e.x, e.y)) ∧
  (layer = 0 → p2 (0, e.x, e.y) = min (z0 (0, e.x, e.y)) e.zbp)

theorem prepLeaf_congr (layer : Nat) (p1 p2 i0 z0 i1 z1 : Node → Nat) (x y : Nat) :
    ∀ (es : List CbE) (cs : List Contrib), (∀ e ∈ es, pos e ≠ (x, y)) →
      (∀ x' y', (x', y') ≠ (x, y) → i1 (0, x', y') = i0 (0, x', y') ∧ z1 (0, x', y') = z0 (0, x', y')) →
      All2 (PrepLeaf layer p1 p2 i1 z1) es cs → All2 (PrepLeaf layer p1 p2 i0 z0) es cs := by
  intro es
  induction es with
  | nil => intro cs _ _ h; cases cs <;> simp_all [All2]
  | cons a as iha =>
    intro cs hne hoth h
    cases cs with
    | nil => simp [All2] at h
    | cons c ct =>
      have ha := hoth a.x a.y (hne a (by simp))
      refine ⟨?_, iha ct (fun e' he' => hne e' (by simp [he'])) hoth h.2⟩
      have h1 := h.1
      unfold PrepLeaf at h1 ⊢
      rw [← ha.1, ← ha.2]; exact h1

theorem prepare_step (layer w h : Nat) (hl : layer ≤ sentinel) (incld ztd : TTDec) (e : CbE) (c : Contrib)
    (es : List CbE) (cs : List Contrib) (incl zt : TTEnc) (hz32 : e.zbp < 32)
    (hi : Inv incl incld) (hz : Inv zt ztd) (hih : GlobalHeap incl.val (ttNumLevels w h))
    (hzh : GlobalHeap zt.val (ttNumLevels w h)) (hlow : ∀ n, incl.low n ≤ layer) (hz0 : layer = 0 → ∀ n, zt.low n = 0) :
    ∃ incl1 zt1, prepare layer w h (e :: es) (c :: cs) incl zt = prepare layer w h es cs incl1 zt1 ∧
      Inv incl1 incld ∧ Inv zt1 ztd ∧ GlobalHeap incl1.val (ttNumLevels w h) ∧ GlobalHeap zt1.val (ttNumLevels w h) ∧
      incl1.low = incl.low ∧ zt1.low = zt.low ∧ (layer ≠ 0 → zt1 = zt) ∧
      incl1.val (0, e.x, e.y) = (if !e.included && c.isSome then min (incl.val (0, e.x, e.y)) layer else incl.val (0, e.x, e.y)) ∧
      (layer = 0 → zt1.val (0, e.x, e.y) = min (zt.val (0, e.x, e.y)) e.zbp) ∧
      (∀ x y, (x, y) ≠ (e.x, e.y) → incl1.val (0, x, y) = incl.val (0, x, y) ∧ zt1.val (0, x, y) = zt.val (0, x, y)) := by
  refine ⟨if !e.included && c.isSome then incl.setValue w h e.x e.y layer else incl,
    if layer == 0 then zt.setValue w h e.x e.y e.zbp else zt, rfl, ?_, ?_, ?_, ?_, ?_, ?_, ?_, ?_, ?_, ?_⟩
  · split
    · exact setValue_inv incl incld w h e.x e.y layer hi hlow hl
    · exact hi
  · split
    · next h0 =>
      have h0' : layer = 0 := by simpa using h0
      exact setValue_inv zt ztd w h e.x e.y e.zbp hz (fun n => by rw [hz0 h0' n]; exact Nat.zero_le _)
        (by unfold sentinel; omega)
    · exact hz
  · split
    · rw [setValue_val_eq]; exact setValue_globalHeap incl.val _ e.x e.y layer hih
    · exact hih
  · split
    · rw [setValue_val_eq]; exact setValue_globalHeap zt.val _ e.x e.y e.zbp hzh
    · exact hzh
  · split <;> rfl
  · split <;> rfl
  · intro hne
    have : (layer == 0) = false := by simp [hne]
    simp [this]
  · split
    · exact (setValue_leaf incl w h e.x e.y layer).1
    · rfl
  · intro h0
    have : (layer == 0) = true := by simp [h0]
    simp only [this, if_true]
    exact (setValue_leaf zt w h e.x e.y e.zbp).1
  · intro x y hne
    constructor
    · split
      · exact (setValue_leaf incl w h e.x e.y layer).2 x y hne
      · rfl
    · split
      · exact (setValue_leaf zt w h e.x e.y e.zbp).2 x y hne
      · rfl

theorem prepare_spec (layer w h : Nat) (hl : layer ≤ sentinel) (incld ztd : TTDec) :
    ∀ (ecbs : List CbE) (cs : List Contrib) (incl zt : TTEnc),
      cs.length = ecbs.length → (ecbs.map pos).Nodup → (∀ e ∈ ecbs, e.zbp < 32) →
      Inv incl incld → Inv zt ztd → GlobalHeap incl.val (ttNumLevels w h) → GlobalHeap zt.val (ttNumLevels w h) →
      (∀ n, incl.low n ≤ layer) → (layer = 0 → ∀ n, zt.low n = 0) →
      Inv (prepare layer w h ecbs cs incl zt).1 incld ∧ Inv (prepare layer w h ecbs cs incl zt).2 ztd ∧
      GlobalHeap (prepare layer w h ecbs cs incl zt).1.val (ttNumLevels w h) ∧
      GlobalHeap (prepare layer w h ecbs cs incl zt).2.val (ttNumLevels w h) ∧
      (prepare layer w h ecbs cs incl zt).1.low = incl.low ∧
      (layer ≠ 0 → (prepare layer w h ecbs cs incl zt).2 = zt) ∧
      All2 (PrepLeaf layer (prepare layer w h ecbs cs incl zt).1.val (prepare layer w h ecbs cs incl zt).2.val incl.val zt.val) ecbs cs ∧
      (∀ x y, (x, y) ∉ ecbs.map pos →
        (prepare layer w h ecbs cs incl zt).1.val (0, x, y) = incl.val (0, x, y) ∧
        (prepare layer w h ecbs cs incl zt).2.val (0, x, y) = zt.val (0, x, y)) := by
  intro ecbs
  induction ecbs with
  | nil =>
    intro cs incl zt hlen _ _ hi hz hih hzh _ _
    cases cs with
    | nil => exact ⟨hi, hz, hih, hzh, rfl, fun _ => rfl, trivial, fun _ _ _ => ⟨rfl, rfl⟩⟩
    | cons c cs => simp at hlen
  | cons e es ih =>
    intro cs incl zt hlen hnd hz32 hi hz hih hzh hlow hz0
    cases cs with
    | nil => simp at hlen
    | cons c ct =>
      have hnd' : (pos e) ∉ es.map pos ∧ (es.map pos).Nodup := by
        rw [List.map_cons] at hnd; exact List.nodup_cons.mp hnd
      obtain ⟨incl1, zt1, heq, hi1, hz1, hih1, hzh1, hlo1, hzlo1, hzne, hv1, hzv1, hoth⟩ :=
        prepare_step layer w h hl incld ztd e c es ct incl zt (hz32 e (by simp)) hi hz hih hzh hlow hz0
      rw [heq]
      have hres := ih ct incl1 zt1 (by simpa using hlen) hnd'.2 (fun e' he' => hz32 e' (by simp [he'])) hi1 hz1 hih1 hzh1
        (fun n => by rw [hlo1]; exact hlow n) (fun h0 n => by rw [hzlo1]; exact hz0 h0 n)
      obtain ⟨r1, r2, r3, r4, r5, r6, r7, r8⟩ := hres
      have hepos : (e.x, e.y) ∉ es.map pos := hnd'.1
      refine ⟨r1, r2, r3, r4, by rw [r5, hlo1], fun hne => by rw [r6 hne, hzne hne], ⟨?_, ?_⟩, ?_⟩
      · have := r8 e.x e.y hepos
        exact ⟨by rw [this.1, hv1], fun h0 => by rw [this.2, hzv1 h0]⟩
      · apply prepLeaf_congr layer _ _ incl.val zt.val incl1.val zt1.val e.x e.y es ct _ hoth r7
        intro e' he' heq'
        exact hepos (by rw [← heq']; exact List.mem_map.mpr ⟨e', he', rfl⟩)
      · intro x y hxy
        have hne : (x, y) ≠ (e.x, e.y) := fun h => hxy (by simp [pos, h])
        have hnt : (x, y) ∉ es.map pos := fun h => hxy (by simp [h])
        have := r8 x y hnt
        have h2 := hoth x y hne
        exact ⟨by rw [this.1, h2.1], by rw [this.2, h2.2]⟩

/-! ### one band, one layer -/

/-- the code-blocks after a packet: same position and zbp, included once they have contributed -/
def Shape (e' e : CbE) (c : Contrib) : Prop :=
  e'.x = e.x ∧ e'.y = e.y ∧ e'.zbp = e.zbp ∧ e'.included = (e.included || c.isSome)

def All3 {α β γ : Type} (R : α → β → γ → Prop) : List α → List β → List γ → Prop
  | [], [], [] => True
  | a :: as, b :: bs, c :: cs => R a b c ∧ All3 R as bs cs
  | _, _, _ => False

theorem encCbs_shape (layer w h : Nat) : ∀ (ecbs : List CbE) (cs : List Contrib) (incl zt : TTEnc),
    cs.length = ecbs.length → All3 Shape (encCbs layer w h ecbs cs incl zt).1 ecbs cs := by
  intro ecbs
  induction ecbs with
  | nil => intro cs incl zt hl; cases cs <;> simp_all [encCbs, All3]
  | cons e es ih =>
    intro cs incl zt hl
    cases cs with
    | nil => simp at hl
    | cons c ct =>
      have hl' : ct.length = es.length := by simpa using hl
      cases hinc : e.included <;> cases c with
      | none =>
        first
        | (rw [encCbs_new_none layer w h e es ct incl zt hinc]; exact ⟨⟨rfl, rfl, rfl, by simp [hinc]⟩, ih ct _ _ hl'⟩)
        | (rw [encCbs_old_none layer w h e es ct incl zt hinc]; exact ⟨⟨rfl, rfl, rfl, by simp [hinc]⟩, ih ct _ _ hl'⟩)
      | some q =>
        obtain ⟨np, len⟩ := q
        first
        | (rw [encCbs_new_some layer w h e es ct incl zt np len hinc]; exact ⟨⟨rfl, rfl, rfl, by simp⟩, ih ct _ _ hl'⟩)
        | (rw [encCbs_old_some layer w h e es ct incl zt np len hinc]; exact ⟨⟨rfl, rfl, rfl, by simp [hinc]⟩, ih ct _ _ hl'⟩)

/-- invariant of a band between packets (before the packet of layer `layer`) -/
structure BandInv (layer : Nat) (be : BandE) (bd : BandD) : Prop where
  hw : bd.w = be.w
  hh : bd.h = be.h
  sync : All2 CbSync be.cbs bd.cbs
  iInv : Inv be.incl bd.incl
  zInv : Inv be.zbpT bd.zbpT
  iHeap : GlobalHeap be.incl.val (ttNumLevels be.w be.h)
  zHeap : GlobalHeap be.zbpT.val (ttNumLevels be.w be.h)
  iLow : ∀ n, be.incl.low n ≤ layer
  nodup : (be.cbs.map pos).Nodup
  zbp32 : ∀ e ∈ be.cbs, e.zbp < 32
  unset : ∀ e ∈ be.cbs, e.included = false → be.incl.val (0, e.x, e.y) = sentinel
  z0 : layer = 0 → (∀ n, be.zbpT.low n = 0) ∧ ∀ e ∈ be.cbs, be.zbpT.val (0, e.x, e.y) = sentinel
  zset : layer ≠ 0 → ∀ e ∈ be.cbs, be.zbpT.val (0, e.x, e.y) = e.zbp

theorem all2_of_prep (layer : Nat) (hl : layer ≤ sentinel) (p1 p2 i0 z0 : Node → Nat) :
    ∀ (es : List CbE) (cs : List Contrib),
      (∀ e ∈ es, e.included = false → i0 (0, e.x, e.y) = sentinel) → (∀ e ∈ es, e.zbp < 32) →
      (layer = 0 → ∀ e ∈ es, z0 (0, e.x, e.y) = sentinel) → (layer ≠ 0 → p2 = z0 ∧ ∀ e ∈ es, z0 (0, e.x, e.y) = e.zbp) →
      All2 (PrepLeaf layer p1 p2 i0 z0) es cs → All2 (LeafOK layer p1 p2) es cs := by
  intro es
  induction es with
  | nil => intro cs _ _ _ _ h; cases cs <;> simp_all [All2]
  | cons e es ih =>
    intro cs hun hz32 hz0 hzs h
    cases cs with
    | nil => simp [All2] at h
    | cons c ct =>
      refine ⟨?_, ih ct (fun e' he' => hun e' (by simp [he'])) (fun e' he' => hz32 e' (by simp [he']))
        (fun h0 e' he' => hz0 h0 e' (by simp [he'])) (fun hne => ⟨(hzs hne).1, fun e' he' => (hzs hne).2 e' (by simp [he'])⟩) h.2⟩
      obtain ⟨h1, h2⟩ := h.1
      have hz := hz32 e (by simp)
      refine ⟨?_, ?_, hz⟩
      · intro hinc
        rw [h1, hun e (by simp) hinc, hinc]
        cases c <;> simp [sentinel] at hl ⊢; omega
      · intro hinc _
        by_cases h0 : layer = 0
        · rw [h2 h0, hz0 h0 e (by simp)]; unfold sentinel; omega
        · rw [(hzs h0).1]; exact (hzs h0).2 e (by simp)

/-- one band, one packet: lock step, expected report, invariant for the next layer -/
theorem band_sync (layer : Nat) (hlayer : layer + 1 ≤ sentinel) (be : BandE) (bd : BandD) (cs : List Contrib)
    (rest : List Bool) (hinv : BandInv layer be bd) (hlen : cs.length = be.cbs.length) (hok : ∀ c ∈ cs, COk c) :
    ∃ dcbs' i2 z2,
      decCbs layer bd.w bd.h bd.cbs bd.incl bd.zbpT ((encBand layer be cs).2 ++ rest) =
        some (dcbs', i2, z2, List.zipWith expIncl be.cbs cs, rest) ∧
      BandInv (layer + 1) (encBand layer be cs).1 { bd with cbs := dcbs', incl := i2, zbpT := z2 } := by
  have hl : layer ≤ sentinel := by omega
  obtain ⟨p1, p2, p3, p4, p5, p6, p7, p8⟩ :=
    prepare_spec layer be.w be.h hl bd.incl bd.zbpT be.cbs cs be.incl be.zbpT hlen hinv.nodup hinv.zbp32
      hinv.iInv hinv.zInv hinv.iHeap hinv.zHeap hinv.iLow (fun h0 => (hinv.z0 h0).1)
  have hleaf : All2 (LeafOK layer (prepare layer be.w be.h be.cbs cs be.incl be.zbpT).1.val
      (prepare layer be.w be.h be.cbs cs be.incl be.zbpT).2.val) be.cbs cs :=
    all2_of_prep layer hl _ _ _ _ be.cbs cs hinv.unset hinv.zbp32 (fun h0 => (hinv.z0 h0).2)
      (fun hne => ⟨by rw [p6 hne], hinv.zset hne⟩) p7
  obtain ⟨dcbs', i2, z2, hd, hs, hi2, hz2, hv, hzv, hlow⟩ :=
    cbs_sync layer be.w be.h hlayer be.cbs bd.cbs cs _ _ bd.incl bd.zbpT rest hinv.sync hleaf hok p1 p2 p3 p4
      (fun n => by rw [p5]; have := hinv.iLow n; omega)
  refine ⟨dcbs', i2, z2, ?_, ?_⟩
  · rw [hinv.hw, hinv.hh]; exact hd
  · have hshape := encCbs_shape layer be.w be.h be.cbs cs
      (prepare layer be.w be.h be.cbs cs be.incl be.zbpT).1 (prepare layer be.w be.h be.cbs cs be.incl be.zbpT).2 hlen
    -- facts about every new code-block, from the shape
    have hmem : ∀ (es' es : List CbE) (ct : List Contrib), All3 Shape es' es ct → ∀ e' ∈ es',
        ∃ (e : CbE) (c : Contrib), e ∈ es ∧ e'.x = e.x ∧ e'.y = e.y ∧ e'.zbp = e.zbp ∧
          e'.included = (e.included || c.isSome) ∧ (∃ k : Nat, es[k]? = some e ∧ ct[k]? = some c) := by
      intro es'
      induction es' with
      | nil => intro es ct _ e' he'; simp at he'
      | cons a as iha =>
        intro es ct h e' he'
        cases es with
        | nil => cases ct <;> simp [All3] at h
        | cons b bs =>
          cases ct with
          | nil => simp [All3] at h
          | cons c ct' =>
            rcases List.mem_cons.mp he' with rfl | hm
            · exact ⟨b, c, by simp, h.1.1, h.1.2.1, h.1.2.2.1, h.1.2.2.2, ⟨0, rfl, rfl⟩⟩
            · obtain ⟨e, c0, hm1, q1, q2, q3, q4, k, hk1, hk2⟩ := iha bs ct' h.2 e' hm
              exact ⟨e, c0, by simp [hm1], q1, q2, q3, q4, ⟨k + 1, by simpa using hk1, by simpa using hk2⟩⟩
    have hposmap : ∀ (es' es : List CbE) (ct : List Contrib), All3 Shape es' es ct → es'.map pos = es.map pos := by
      intro es'
      induction es' with
      | nil => intro es ct h; cases es <;> cases ct <;> simp_all [All3]
      | cons a as iha =>
        intro es ct h
        cases es with
        | nil => cases ct <;> simp [All3] at h
        | cons b bs =>
          cases ct with
          | nil => simp [All3] at h
          | cons c ct' =>
            simp only [List.map_cons]
            rw [iha bs ct' h.2]
            simp [pos, h.1.1, h.1.2.1]
    exact {
      hw := hinv.hw, hh := hinv.hh, sync := hs, iInv := hi2, zInv := hz2
      iHeap := by show GlobalHeap (encCbs _ _ _ _ _ _ _).2.1.val _; rw [hv]; exact p3
      zHeap := by show GlobalHeap (encCbs _ _ _ _ _ _ _).2.2.1.val _; rw [hzv]; exact p4
      iLow := hlow
      nodup := by show ((encCbs _ _ _ _ _ _ _).1.map pos).Nodup; rw [hposmap _ _ _ hshape]; exact hinv.nodup
      zbp32 := by
        intro e' he'
        obtain ⟨e, c, hm, _, _, q3, _⟩ := hmem _ _ _ hshape e' he'
        rw [q3]; exact hinv.zbp32 e hm
      unset := by
        intro e' he' hinc'
        obtain ⟨e, c, hm, q1, q2, q3, q4, k, hk1, hk2⟩ := hmem _ _ _ hshape e' he'
        show (encCbs _ _ _ _ _ _ _).2.1.val (0, e'.x, e'.y) = sentinel
        rw [hv, q1, q2]
        rw [hinc'] at q4
        have hor : (e.included || c.isSome) = false := q4.symm
        have hei : e.included = false := (Bool.or_eq_false_iff.mp hor).1
        have hcn : c.isSome = false := (Bool.or_eq_false_iff.mp hor).2
        -- the prepared value of a non-contributing, not yet included block is untouched
        have key : ∀ (es : List CbE) (ct : List Contrib) (k : Nat),
            All2 (PrepLeaf layer (prepare layer be.w be.h be.cbs cs be.incl be.zbpT).1.val
              (prepare layer be.w be.h be.cbs cs be.incl be.zbpT).2.val be.incl.val be.zbpT.val) es ct →
            es[k]? = some e → ct[k]? = some c →
            (prepare layer be.w be.h be.cbs cs be.incl be.zbpT).1.val (0, e.x, e.y) = be.incl.val (0, e.x, e.y) := by
          intro es
          induction es with
          | nil => intro ct k _ h1 _; simp at h1
          | cons a as iha =>
            intro ct k h h1 h2
            cases ct with
            | nil => simp [All2] at h
            | cons c' ct' =>
              cases k with
              | zero =>
                simp at h1 h2; subst h1; subst h2
                have := h.1.1
                rw [this, hei, hcn]; simp
              | succ k => exact iha ct' k h.2 (by simpa using h1) (by simpa using h2)
        rw [key be.cbs cs k p7 hk1 hk2]
        exact hinv.unset e hm hei
      z0 := fun h0 => absurd h0 (by omega)
      zset := by
        intro _ e' he'
        obtain ⟨e, c, hm, q1, q2, q3, q4, k, hk1, hk2⟩ := hmem _ _ _ hshape e' he'
        show (encCbs _ _ _ _ _ _ _).2.2.1.val (0, e'.x, e'.y) = e'.zbp
        rw [hzv, q1, q2, q3]
        by_cases h0 : layer = 0
        · have key : ∀ (es : List CbE) (ct : List Contrib) (k : Nat),
              All2 (PrepLeaf layer (prepare layer be.w be.h be.cbs cs be.incl be.zbpT).1.val
                (prepare layer be.w be.h be.cbs cs be.incl be.zbpT).2.val be.incl.val be.zbpT.val) es ct →
              es[k]? = some e → ct[k]? = some c →
              (prepare layer be.w be.h be.cbs cs be.incl be.zbpT).2.val (0, e.x, e.y) = min (be.zbpT.val (0, e.x, e.y)) e.zbp := by
            intro es
            induction es with
            | nil => intro ct k _ h1 _; simp at h1
            | cons a as iha =>
              intro ct k h h1 h2
              cases ct with
              | nil => simp [All2] at h
              | cons c' ct' =>
                cases k with
                | zero => simp at h1 h2; subst h1; exact h.1.2 h0
                | succ k => exact iha ct' k h.2 (by simpa using h1) (by simpa using h2)
          rw [key be.cbs cs k p7 hk1 hk2, (hinv.z0 h0).2 e hm]
          have := hinv.zbp32 e hm; unfold sentinel; omega
        · rw [p6 h0]; exact hinv.zset h0 e hm }

/-! ### all bands of a packet, the packet-present bit, and the layers of a precinct -/

def BandsInv (layer : Nat) : List BandE → List BandD → Prop := All2 (BandInv layer)

/-- shape conditions on the contributions of one packet: one list per band, one entry per code-block, admissible -/
def CsOk : List BandE → List (List Contrib) → Prop
  | [], [] => True
  | b :: bs, c :: cs => c.length = b.cbs.length ∧ (∀ x ∈ c, COk x) ∧ CsOk bs cs
  | _, _ => False

def expBands : List BandE → List (List Contrib) → List (List Incl)
  | b :: bs, c :: cs => List.zipWith expIncl b.cbs c :: expBands bs cs
  | _, _ => []

theorem bands_sync (layer : Nat) (hlayer : layer + 1 ≤ sentinel) :
    ∀ (bes : List BandE) (bds : List BandD) (css : List (List Contrib)) (rest : List Bool),
      BandsInv layer bes bds → CsOk bes css →
      ∃ bds', decBands layer bds ((encBands layer bes css).2 ++ rest) = some (bds', expBands bes css, rest) ∧
        BandsInv (layer + 1) (encBands layer bes css).1 bds' := by
  intro bes
  induction bes with
  | nil =>
    intro bds css rest hinv hok
    cases bds with
    | nil => cases css <;> exact ⟨[], by simp [encBands, decBands, expBands], trivial⟩
    | cons d ds => simp [BandsInv, All2] at hinv
  | cons be bes ih =>
    intro bds css rest hinv hok
    cases bds with
    | nil => simp [BandsInv, All2] at hinv
    | cons bd bds =>
      cases css with
      | nil => simp [CsOk] at hok
      | cons c cs =>
        obtain ⟨hb, hbs⟩ := hinv
        obtain ⟨hlen, hcok, hok'⟩ := hok
        obtain ⟨bds', hd', hinv'⟩ := ih bds cs rest hbs hok'
        obtain ⟨dcbs', i2, z2, hd, hbi⟩ := band_sync layer hlayer be bd c ((encBands layer bes cs).2 ++ rest) hb hlen hcok
        refine ⟨{ bd with cbs := dcbs', incl := i2, zbpT := z2 } :: bds', ?_, ⟨hbi, hinv'⟩⟩
        unfold encBands decBands
        simp only [List.append_assoc]
        rw [hd]
        simp only [hd', expBands]

theorem bandsInv_empty (layer : Nat) : ∀ (bes : List BandE) (bds : List BandD), BandsInv layer bes bds →
    bes.all (fun b => b.cbs.isEmpty) = true → BandsInv (layer + 1) bes bds := by
  intro bes
  induction bes with
  | nil => intro bds h _; cases bds <;> simp_all [BandsInv, All2]
  | cons be bes ih =>
    intro bds h hall
    cases bds with
    | nil => simp [BandsInv, All2] at h
    | cons bd bds =>
      simp only [List.all_cons, Bool.and_eq_true] at hall
      have hemp : be.cbs = [] := by simpa using hall.1
      obtain ⟨hb, hbs⟩ := h
      refine ⟨?_, ih bds hbs hall.2⟩
      exact { hw := hb.hw, hh := hb.hh, sync := hb.sync, iInv := hb.iInv, zInv := hb.zInv, iHeap := hb.iHeap,
              zHeap := hb.zHeap, iLow := fun n => by have := hb.iLow n; omega, nodup := hb.nodup, zbp32 := hb.zbp32,
              unset := hb.unset, z0 := fun h0 => absurd h0 (by omega),
              zset := fun _ e he => by rw [hemp] at he; simp at he }

/-- one packet header: decode (encode h) = h, on the bit string, with the state of both sides ready for the next layer -/
theorem header_sync (layer : Nat) (hlayer : layer + 1 ≤ sentinel) (bes : List BandE) (bds : List BandD)
    (css : List (List Contrib)) (rest : List Bool) (hinv : BandsInv layer bes bds) (hok : CsOk bes css) :
    ∃ bds', decHeader layer bds ((encHeader layer bes css).2 ++ rest) =
        some (bds', (if bes.all (fun b => b.cbs.isEmpty) then none else some (expBands bes css)), rest) ∧
      BandsInv (layer + 1) (encHeader layer bes css).1 bds' ∧ (encHeader layer bes css).2 ≠ [] := by
  unfold encHeader
  by_cases hall : bes.all (fun b => b.cbs.isEmpty) = true
  · simp only [hall, if_true]
    exact ⟨bds, by simp [decHeader], bandsInv_empty layer bes bds hinv hall, by simp⟩
  · simp only [hall, if_false]
    obtain ⟨bds', hd, hinv'⟩ := bands_sync layer hlayer bes bds css rest hinv hok
    refine ⟨bds', ?_, hinv', by simp⟩
    show decHeader layer bds (true :: ((encBands layer bes css).2 ++ rest)) = _
    unfold decHeader
    simp only [hd]
    simp

/-- fresh bands (PacketEncoder.ResetState / a decoder that has not seen the precinct) are in lock step -/
theorem bandInv_fresh (w h : Nat) (cbs : List (Nat × Nat × Nat)) (hnd : (cbs.map fun c => (c.1, c.2.1)).Nodup)
    (hz : ∀ c ∈ cbs, c.2.2 < 32) : BandInv 0 (BandE.fresh w h cbs) (BandD.fresh w h cbs) := by
  have hsync : ∀ l : List (Nat × Nat × Nat),
      All2 CbSync (l.map fun c => ({ x := c.1, y := c.2.1, zbp := c.2.2, included := false, lblock := 0 } : CbE))
        (l.map fun c => ({ x := c.1, y := c.2.1, included := false, lblock := 0, zbp := 0 } : CbD)) := by
    intro l
    induction l with
    | nil => trivial
    | cons a as ih => exact ⟨⟨rfl, rfl, rfl, fun hf => by simp at hf, fun _ => rfl, Nat.zero_le _⟩, ih⟩
  exact {
    hw := rfl, hh := rfl, sync := hsync cbs, iInv := inv_init, zInv := inv_init
    iHeap := globalHeap_init _, zHeap := globalHeap_init _
    iLow := fun _ => Nat.le_refl _
    nodup := by
      show ((cbs.map fun c => ({ x := c.1, y := c.2.1, zbp := c.2.2, included := false, lblock := 0 } : CbE)).map pos).Nodup
      rw [List.map_map]; exact hnd
    zbp32 := by
      intro e he
      obtain ⟨c, hc, rfl⟩ := List.mem_map.mp he
      exact hz c hc
    unset := fun _ _ _ => rfl
    z0 := fun _ => ⟨fun _ => rfl, fun _ _ => rfl⟩
    zset := fun h0 => absurd rfl h0 }

/-! ### the layers of a precinct -/

/-- encoder over the packets of a precinct, layer after layer: the header bit strings -/
def encLayers : Nat → List BandE → List (List (List Contrib)) → List (List Bool)
  | _, _, [] => []
  | layer, bes, css :: more => (encHeader layer bes css).2 :: encLayers (layer + 1) (encHeader layer bes css).1 more

/-- what the decoder must report for each packet (`none` = empty packet) -/
def expLayers : Nat → List BandE → List (List (List Contrib)) → List (Option (List (List Incl)))
  | _, _, [] => []
  | layer, bes, css :: more =>
    (if bes.all (fun b => b.cbs.isEmpty) then none else some (expBands bes css)) ::
      expLayers (layer + 1) (encHeader layer bes css).1 more

/-- decoder over the same packets; every header is followed by arbitrary further bits `tail` (packet body, next packet) -/
def decLayers (tail : List Bool) : Nat → List BandD → List (List Bool) → Option (List (Option (List (List Incl))))
  | _, _, [] => some []
  | layer, bds, bits :: more =>
    match decHeader layer bds (bits ++ tail) with
    | none => none
    | some (bds', out, rest) =>
      if rest = tail then
        match decLayers tail (layer + 1) bds' more with
        | none => none
        | some outs => some (out :: outs)
      else none

theorem encCbs_length (layer w h : Nat) : ∀ (ecbs : List CbE) (cs : List Contrib) (incl zt : TTEnc),
    (encCbs layer w h ecbs cs incl zt).1.length = ecbs.length := by
  intro ecbs
  induction ecbs with
  | nil => intro cs incl zt; cases cs <;> simp [encCbs]
  | cons e es ih =>
    intro cs incl zt
    cases cs with
    | nil => simp [encCbs]
    | cons c ct =>
      cases hinc : e.included <;> cases c with
      | none =>
        first
        | (rw [encCbs_new_none layer w h e es ct incl zt hinc]; simp [ih])
        | (rw [encCbs_old_none layer w h e es ct incl zt hinc]; simp [ih])
      | some q =>
        obtain ⟨np, len⟩ := q
        first
        | (rw [encCbs_new_some layer w h e es ct incl zt np len hinc]; simp [ih])
        | (rw [encCbs_old_some layer w h e es ct incl zt np len hinc]; simp [ih])

theorem csOk_next (layer : Nat) : ∀ (bes : List BandE) (css css' : List (List Contrib)),
    CsOk bes css' → CsOk (encBands layer bes css).1 css' := by
  intro bes
  induction bes with
  | nil => intro css css' h; cases css <;> simpa [encBands] using h
  | cons b bs ih =>
    intro css css' h
    cases css with
    | nil => simpa [encBands] using h
    | cons c cs =>
      cases css' with
      | nil => simp [CsOk] at h
      | cons c' cs' =>
        obtain ⟨h1, h2, h3⟩ := h
        unfold encBands
        refine ⟨?_, h2, ih cs cs' h3⟩
        show c'.length = (encBand layer b c).1.cbs.length
        unfold encBand
        simp only []
        rw [encCbs_length]; exact h1

theorem csOk_header (layer : Nat) (bes : List BandE) (css css' : List (List Contrib)) (h : CsOk bes css') :
    CsOk (encHeader layer bes css).1 css' := by
  unfold encHeader
  split
  · exact h
  · exact csOk_next layer bes css css' h

/-- all packets of a precinct -/
theorem layers_sync (tail : List Bool) : ∀ (lss : List (List (List Contrib))) (layer : Nat) (bes : List BandE) (bds : List BandD),
    BandsInv layer bes bds → (∀ css ∈ lss, CsOk bes css) → layer + lss.length ≤ sentinel →
    decLayers tail layer bds (encLayers layer bes lss) = some (expLayers layer bes lss) := by
  intro lss
  induction lss with
  | nil => intro layer bes bds _ _ _; rfl
  | cons css more ih =>
    intro layer bes bds hinv hok hlen
    have hl : layer + 1 ≤ sentinel := by simp at hlen; omega
    obtain ⟨bds', hd, hinv', _⟩ := header_sync layer hl bes bds css tail hinv (hok css (by simp))
    unfold encLayers decLayers expLayers
    rw [hd]
    simp only [if_true]
    rw [ih (layer + 1) _ bds' hinv' (fun c hc => csOk_header layer bes css c (hok c (by simp [hc]))) (by simp at hlen ⊢; omega)]

end J2kPH
