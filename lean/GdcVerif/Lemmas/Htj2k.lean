import GdcVerif.Model.Htj2k
/-!
  Lemmas for property C06 (HTJ2K): MEL coder round trip, `calculateMaxLevels`, Kmax kernels,
  sign-magnitude words, tile-part arithmetic.  The property theorems are in `Props/C06.lean`.
-/
namespace Htj2k

/-! ## Bit lists, the decoder's view of a byte string -/

/-- MSB-first value of a bit list: what `tmp = (tmp << 1) | b` accumulates -/
def ofBits (l : List Bool) : Nat := l.foldl (fun a b => 2 * a + b.toNat) 0

/-- the `n` leading bits of the 8-bit register `v`, as `bit := (buf >> 7) & 1; buf <<= 1` delivers them -/
def topBits : Nat → Nat → List Bool
  | 0, _ => []
  | n + 1, v => decide (v / 128 % 2 = 1) :: topBits n (v * 2 % 256)

/-- the bit stream `MELDecoder.readBit` sees in a byte string (`ff`: the previous byte was 0xFF) -/
def unpack : Bool → List Byte → List Bool
  | _, [] => []
  | ff, x :: xs => (if ff then topBits 7 (x % 128 * 2 % 256) else topBits 8 x) ++ unpack (decide (x = 255)) xs

/-- is the last byte 0xFF (`ff` for the empty string) -/
def lastFF : Bool → List Byte → Bool
  | ff, [] => ff
  | _, y :: ys => lastFF (decide (y = 255)) ys

theorem ofBits_snoc (l : List Bool) (b : Bool) : ofBits (l ++ [b]) = 2 * ofBits l + b.toNat := by
  simp [ofBits, List.foldl_append]

/-- everything the proofs need about ≤ 8-bit registers, by enumeration of all 511 bit lists -/
def RegFacts (l : List Bool) : Prop :=
  ofBits l < 2 ^ l.length ∧
  topBits 8 (ofBits l * 2 ^ (8 - l.length) % 256) = l ++ List.replicate (8 - l.length) false ∧
  (l.length ≤ 7 →
    topBits 7 ((ofBits l * 2 ^ (7 - l.length) % 256) % 128 * 2 % 256) = l ++ List.replicate (7 - l.length) false ∧
    ofBits l * 2 ^ (7 - l.length) % 256 < 128)

instance (l : List Bool) : Decidable (RegFacts l) := by unfold RegFacts; infer_instance

theorem regFacts : ∀ (l : List Bool), l.length ≤ 8 → RegFacts l
  | [], _ => by decide
  | [a], _ => by cases a <;> decide
  | [a, b], _ => by cases a <;> cases b <;> decide
  | [a, b, c], _ => by cases a <;> cases b <;> cases c <;> decide
  | [a, b, c, d], _ => by cases a <;> cases b <;> cases c <;> cases d <;> decide
  | [a, b, c, d, e], _ => by cases a <;> cases b <;> cases c <;> cases d <;> cases e <;> decide
  | [a, b, c, d, e, f], _ => by cases a <;> cases b <;> cases c <;> cases d <;> cases e <;> cases f <;> decide
  | [a, b, c, d, e, f, g], _ => by cases a <;> cases b <;> cases c <;> cases d <;> cases e <;> cases f <;> cases g <;> decide
  | [a, b, c, d, e, f, g, h], _ => by cases a <;> cases b <;> cases c <;> cases d <;> cases e <;> cases f <;> cases g <;> cases h <;> decide
  | _ :: _ :: _ :: _ :: _ :: _ :: _ :: _ :: _ :: _, h => by simp at h

theorem lastFF_snoc (ff : Bool) (a : List Byte) (x : Byte) : lastFF ff (a ++ [x]) = decide (x = 255) := by
  induction a generalizing ff with
  | nil => simp [lastFF]
  | cons y ys ih => simp [lastFF, ih]

theorem unpack_snoc (ff : Bool) (a : List Byte) (x : Byte) :
    unpack ff (a ++ [x]) = unpack ff a ++ (if lastFF ff a then topBits 7 (x % 128 * 2 % 256) else topBits 8 x) := by
  induction a generalizing ff with
  | nil => cases ff <;> simp [unpack, lastFF]
  | cons y ys ih => rw [List.cons_append, unpack, unpack, ih, lastFF, List.append_assoc]

/-! ## Packer invariant -/

/-- `l` = the bits sitting in `tmp`; the byte under construction holds 7 bits after a 0xFF, else 8 -/
def PkInv (p : MelPacker) (l : List Bool) : Prop :=
  p.tmp = ofBits l ∧ l.length + p.remainingBits = (if lastFF false p.buf then 7 else 8) ∧ 1 ≤ p.remainingBits

theorem pk_emit (p : MelPacker) (l : List Bool) (b : Bool) (h : PkInv p l) :
    ∃ l', PkInv (p.emitBit b) l' ∧ unpack false (p.emitBit b).buf ++ l' = unpack false p.buf ++ l ++ [b] := by
  obtain ⟨ht, hlen, hrem⟩ := h
  have hlb : (l ++ [b]).length = l.length + 1 := by simp
  have hl8 : (l ++ [b]).length ≤ 8 := by
    rw [hlb]; split at hlen <;> omega
  have hf := regFacts (l ++ [b]) hl8
  have hlt : ofBits (l ++ [b]) < 256 := by
    have := hf.1
    have h2 : 2 ^ (l ++ [b]).length ≤ 2 ^ 8 := Nat.pow_le_pow_right (by omega) hl8
    omega
  have htmp : (2 * p.tmp + b.toNat) % 256 = ofBits (l ++ [b]) := by
    rw [ht, ← ofBits_snoc]; exact Nat.mod_eq_of_lt hlt
  by_cases hr : p.remainingBits - 1 = 0
  · -- the byte is complete
    have hbuf : (p.emitBit b) = MelPacker.mk (p.buf ++ [ofBits (l ++ [b])]) 0 (if ofBits (l ++ [b]) = 255 then 7 else 8) := by
      simp [MelPacker.emitBit, htmp, hr]
    rw [hbuf]
    refine ⟨[], ⟨by simp [ofBits], ?_, ?_⟩, ?_⟩
    · simp only [lastFF_snoc, List.length_nil, Nat.zero_add]
      by_cases h255 : ofBits (l ++ [b]) = 255 <;> simp [h255]
    · show 1 ≤ (if ofBits (l ++ [b]) = 255 then 7 else 8)
      split <;> omega
    · show unpack false (p.buf ++ [ofBits (l ++ [b])]) ++ [] = _
      rw [unpack_snoc, List.append_nil, List.append_assoc]
      congr 1
      by_cases hff : lastFF false p.buf = true
      · simp only [hff, if_true] at hlen ⊢
        have hl7 : (l ++ [b]).length = 7 := by omega
        have := (hf.2.2 (by omega)).1
        rw [hl7] at this
        simpa [Nat.mod_eq_of_lt hlt] using this
      · simp only [hff] at hlen ⊢
        have hl8' : (l ++ [b]).length = 8 := by
          simp at hlen; omega
        have := hf.2.1
        rw [hl8'] at this
        simpa [Nat.mod_eq_of_lt hlt] using this
  · have hbuf : (p.emitBit b) = MelPacker.mk p.buf (ofBits (l ++ [b])) (p.remainingBits - 1) := by
      simp [MelPacker.emitBit, htmp, hr]
    rw [hbuf]
    refine ⟨l ++ [b], ⟨rfl, ?_, ?_⟩, by simp [List.append_assoc]⟩
    · show (l ++ [b]).length + (p.remainingBits - 1) = _
      rw [hlb, ← hlen]; omega
    · show 1 ≤ p.remainingBits - 1
      omega

theorem emitBits_cons (p : MelPacker) (b : Bool) (bs : List Bool) :
    p.emitBits (b :: bs) = (p.emitBit b).emitBits bs := rfl

theorem emitBits_append (p : MelPacker) (a b : List Bool) :
    p.emitBits (a ++ b) = (p.emitBits a).emitBits b := by
  simp [MelPacker.emitBits, List.foldl_append]

theorem pk_emits (bs : List Bool) : ∀ (p : MelPacker) (l : List Bool), PkInv p l →
    ∃ l', PkInv (p.emitBits bs) l' ∧ unpack false (p.emitBits bs).buf ++ l' = unpack false p.buf ++ l ++ bs := by
  induction bs with
  | nil => intro p l h; exact ⟨l, h, by simp [MelPacker.emitBits]⟩
  | cons b bs ih =>
    intro p l h
    obtain ⟨l1, h1, e1⟩ := pk_emit p l b h
    obtain ⟨l2, h2, e2⟩ := ih (p.emitBit b) l1 h1
    refine ⟨l2, by rw [emitBits_cons]; exact h2, ?_⟩
    rw [emitBits_cons, e2, e1]; simp [List.append_assoc]

theorem pk_flush (p : MelPacker) (l : List Bool) (h : PkInv p l) :
    ∃ z, unpack false p.flushBytes = unpack false p.buf ++ l ++ List.replicate z false := by
  obtain ⟨ht, hlen, hrem⟩ := h
  unfold MelPacker.flushBytes
  by_cases h8 : p.remainingBits = 8
  · have hl : l = [] := by
      have : l.length = 0 := by split at hlen <;> omega
      exact List.eq_nil_of_length_eq_zero this
    refine ⟨0, ?_⟩
    simp [h8, hl]
  · simp only [h8, ne_eq, not_false_eq_true, if_true]
    refine ⟨p.remainingBits, ?_⟩
    rw [unpack_snoc, List.append_assoc]
    congr 1
    have hl8 : l.length ≤ 8 := by split at hlen <;> omega
    have hf := regFacts l hl8
    by_cases hff : lastFF false p.buf = true
    · simp only [hff, if_true] at hlen ⊢
      have hr : p.remainingBits = 7 - l.length := by omega
      have := (hf.2.2 (by omega)).1
      rw [ht, hr]; exact this
    · simp only [hff] at hlen ⊢
      have hr : p.remainingBits = 8 - l.length := by simp at hlen; omega
      have := hf.2.1
      rw [ht, hr]; simpa using this

/-! ## Abstract code of a symbol sequence -/

/-- `t` bits of `run`, most significant first (`emitRunBits`) -/
def binBits : Nat → Nat → List Bool
  | 0, _ => []
  | t + 1, run => decide (run / 2 ^ t % 2 = 1) :: binBits t run

/-- the code bits `EncodeBit*; Flush` emits from state `(run, k)` -/
def encS : Nat → Fin 13 → List Bool → List Bool
  | run, k, [] => if run > 0 then false :: binBits (melE k) run else []
  | run, k, false :: ss => if run + 1 ≥ 2 ^ melE k then true :: encS 0 (kInc k) ss else encS (run + 1) k ss
  | run, k, true :: ss => false :: (binBits (melE k) run ++ encS 0 (kDec k) ss)

theorem emitRunBits_eq (pk : MelPacker) (run t : Nat) : emitRunBits pk run t = pk.emitBits (binBits t run) := by
  induction t generalizing pk with
  | zero => rfl
  | succ t ih => rw [emitRunBits, ih, binBits, emitBits_cons]

theorem encodeAll_cons (m : MelEnc) (b : Bool) (bs : List Bool) :
    m.encodeAll (b :: bs) = (m.encodeBit b).encodeAll bs := rfl

theorem enc_refines (ss : List Bool) : ∀ (m : MelEnc), m.threshold = 2 ^ melE m.k →
    (m.encodeAll ss).flush = (m.pk.emitBits (encS m.run m.k ss)).flushBytes := by
  induction ss with
  | nil =>
    intro m _
    simp only [MelEnc.encodeAll, List.foldl_nil, MelEnc.flush, encS]
    by_cases hr : m.run > 0
    · simp only [hr, if_true, MelEnc.encodeBit, emitRunBits_eq, emitBits_cons]
      simp
    · simp [hr, MelPacker.emitBits]
  | cons s ss ih =>
    intro m hm
    rw [encodeAll_cons]
    cases s with
    | false =>
      by_cases hge : m.run + 1 ≥ 2 ^ melE m.k
      · have he : m.encodeBit false = { pk := m.pk.emitBit true, run := 0, k := kInc m.k, threshold := 2 ^ melE (kInc m.k) } := by
          simp [MelEnc.encodeBit, hm, hge]
        rw [he, ih _ rfl]
        simp only [encS, hge, if_true, emitBits_cons]
      · have he : m.encodeBit false = { m with run := m.run + 1 } := by
          simp [MelEnc.encodeBit, hm, hge]
        rw [he, ih ⟨m.pk, m.run + 1, m.k, m.threshold⟩ hm]
        simp only [encS, hge, if_false]
    | true =>
      have he : m.encodeBit true = { pk := (m.pk.emitBit false).emitBits (binBits (melE m.k) m.run), run := 0, k := kDec m.k, threshold := 2 ^ melE (kDec m.k) } := by
        simp [MelEnc.encodeBit, emitRunBits_eq]
      rw [he, ih _ rfl]
      simp only [encS, emitBits_cons, emitBits_append]

/-! ## Decoder: the reader's view, abstract decoder over bit lists -/

/-- the bits a `MelReader` will still deliver -/
def view (r : MelReader) : List Bool := topBits r.bits r.buf ++ unpack (decide (r.lastByte = 255)) r.rest

theorem readBit_none (r : MelReader) (h : r.readBit = none) : view r = [] := by
  unfold MelReader.readBit at h
  by_cases hb : r.bits = 0
  · simp only [hb, if_true] at h
    cases hr : r.rest with
    | nil => simp [view, hb, hr, topBits, unpack]
    | cons x xs => simp [hr] at h
  · simp [hb] at h

theorem readBit_some (r r' : MelReader) (b : Bool) (h : r.readBit = some (b, r')) : view r = b :: view r' := by
  unfold MelReader.readBit at h
  by_cases hb : r.bits = 0
  · simp only [hb, if_true] at h
    cases hr : r.rest with
    | nil => simp [hr] at h
    | cons x xs =>
      simp only [hr, Option.some.injEq, Prod.mk.injEq] at h
      obtain ⟨h1, h2⟩ := h
      subst h2
      by_cases hff : r.lastByte = 255
      · simp only [hff, if_true] at h1 ⊢
        simp [view, hb, hr, hff, topBits, unpack, h1]
      · simp only [hff, if_false] at h1 ⊢
        simp [view, hb, hr, hff, topBits, unpack, h1]
  · simp only [hb, if_false, Option.some.injEq, Prod.mk.injEq] at h
    obtain ⟨h1, h2⟩ := h
    subst h2
    obtain ⟨n, hn⟩ : ∃ n, r.bits = n + 1 := ⟨r.bits - 1, by omega⟩
    simp [view, hn, topBits, h1]

structure ADec where
  s : List Bool
  k : Fin 13
  pz : Nat
  po : Bool

def ADec.pending (a : ADec) : Option (Bool × ADec) :=
  if a.pz > 0 then some (false, { a with pz := a.pz - 1 })
  else if a.po then some (true, { a with po := false })
  else none

def aReadRun : List Bool → Nat → Nat → Option (Nat × List Bool)
  | s, 0, acc => some (acc, s)
  | [], _ + 1, _ => none
  | b :: s, t + 1, acc => aReadRun s t (2 * acc + b.toNat)

def ADec.decodeBit (a : ADec) : Option (Bool × ADec) :=
  match a.pending with
  | some r => some r
  | none =>
    match a.s with
    | [] => none
    | lead :: s =>
      if lead then ({ a with s := s, pz := 2 ^ melE a.k, k := kInc a.k } : ADec).pending
      else
        match aReadRun s (melE a.k) 0 with
        | none => none
        | some (rv, s') => ({ a with s := s', pz := rv, po := true, k := kDec a.k } : ADec).pending

def ADec.decodeN : Nat → ADec → List Bool × Bool
  | 0, _ => ([], true)
  | n + 1, a =>
    match a.decodeBit with
    | none => ([], false)
    | some (b, a') => let r := ADec.decodeN n a'; (b :: r.1, r.2)

def absD (m : MelDec) : ADec := ⟨view m.rd, m.k, m.pendingZeros, m.pendingOne⟩

theorem readRun_refines (t : Nat) : ∀ (rd : MelReader) (acc : Nat),
    (readRunBits rd t acc).map (fun p => (p.1, view p.2)) = aReadRun (view rd) t acc := by
  induction t with
  | zero => intro rd acc; simp [readRunBits, aReadRun]
  | succ t ih =>
    intro rd acc
    unfold readRunBits
    cases h : rd.readBit with
    | none => simp [readBit_none rd h, aReadRun]
    | some p =>
      obtain ⟨b, rd'⟩ := p
      simp only [readBit_some rd rd' b h, aReadRun]
      exact ih rd' _

theorem pending_refines (m : MelDec) :
    m.pending.map (fun p => (p.1, absD p.2)) = (absD m).pending := by
  unfold MelDec.pending ADec.pending absD
  by_cases h1 : m.pendingZeros > 0
  · simp [h1]
  · by_cases h2 : m.pendingOne = true
    · simp [h1, h2]
    · simp [h1, h2]

theorem decodeBit_refines (m : MelDec) :
    m.decodeBit.map (fun p => (p.1, absD p.2)) = (absD m).decodeBit := by
  unfold MelDec.decodeBit ADec.decodeBit
  have hp := pending_refines m
  cases hpm : m.pending with
  | some r =>
    rw [hpm] at hp
    simp only [Option.map_some] at hp
    simp [← hp]
  | none =>
    rw [hpm] at hp
    simp only [Option.map_none] at hp
    simp only [← hp]
    cases hr : m.rd.readBit with
    | none => simp [absD, readBit_none _ hr]
    | some p =>
      obtain ⟨lead, rd⟩ := p
      have hv := readBit_some _ _ _ hr
      cases lead with
      | true =>
        simp only [absD, hv, if_true]
        exact pending_refines _
      | false =>
        simp only [absD, hv]
        have hrr := readRun_refines (melE m.k) rd 0
        cases hq : readRunBits rd (melE m.k) 0 with
        | none =>
          rw [hq] at hrr
          simp only [Option.map_none] at hrr
          simp [← hrr]
        | some q =>
          obtain ⟨rv, rd2⟩ := q
          rw [hq] at hrr
          simp only [Option.map_some] at hrr
          simp only [← hrr, Bool.false_eq_true, if_false]
          exact pending_refines _

theorem decodeN_refines (n : Nat) : ∀ (m : MelDec), m.decodeN n = (absD m).decodeN n := by
  induction n with
  | zero => intro m; rfl
  | succ n ih =>
    intro m
    unfold MelDec.decodeN ADec.decodeN
    have h := decodeBit_refines m
    cases hd : m.decodeBit with
    | none => rw [hd] at h; simp only [Option.map_none] at h; simp [← h]
    | some p =>
      obtain ⟨b, m'⟩ := p
      rw [hd] at h
      simp only [Option.map_some] at h
      simp only [← h]
      rw [ih m']

/-! ## Abstract round trip -/

theorem aReadRun_binBits (t : Nat) : ∀ (run acc : Nat) (s : List Bool),
    aReadRun (binBits t run ++ s) t acc = some (acc * 2 ^ t + run % 2 ^ t, s) := by
  induction t with
  | zero => intro run acc s; simp [binBits, aReadRun, Nat.mod_one]
  | succ t ih =>
    intro run acc s
    simp only [binBits, List.cons_append, aReadRun, ih]
    have hm := Nat.mod_pow_succ (x := run) (b := 2) (k := t)
    have hb : (decide (run / 2 ^ t % 2 = 1)).toNat = run / 2 ^ t % 2 := by
      have : run / 2 ^ t % 2 < 2 := Nat.mod_lt _ (by omega)
      by_cases h : run / 2 ^ t % 2 = 1
      · simp [h]
      · have : run / 2 ^ t % 2 = 0 := by omega
        simp [this]
    have key : (2 * acc + run / 2 ^ t % 2) * 2 ^ t + run % 2 ^ t =
        acc * 2 ^ (t + 1) + run % 2 ^ (t + 1) := by
      rw [hm, Nat.pow_succ]
      generalize 2 ^ t = P
      generalize run / P % 2 = X
      generalize run % P = R
      have e1 : (2 * acc + X) * P = 2 * (acc * P) + X * P := by rw [Nat.add_mul, Nat.mul_assoc]
      have e2 : acc * (P * 2) = 2 * (acc * P) := by rw [← Nat.mul_assoc, Nat.mul_comm]
      have e3 : P * X = X * P := Nat.mul_comm _ _
      rw [e1, e2, e3]
      omega
    rw [hb, key]

theorem decodeN_succ (n : Nat) (a : ADec) : ADec.decodeN (n + 1) a =
    match a.decodeBit with
    | none => ([], false)
    | some (b, a') => (b :: (ADec.decodeN n a').1, (ADec.decodeN n a').2) := rfl

theorem decodeN_congr (a b : ADec) (n : Nat) (h : a.decodeBit = b.decodeBit) :
    ADec.decodeN (n + 1) a = ADec.decodeN (n + 1) b := by
  rw [decodeN_succ, decodeN_succ, h]

/-- serving `z` pending zeros -/
theorem decodeN_pz (z : Nat) : ∀ (s : List Bool) (k : Fin 13) (po : Bool) (n : Nat),
    ADec.decodeN (z + n) ⟨s, k, z, po⟩ =
      (List.replicate z false ++ (ADec.decodeN n ⟨s, k, 0, po⟩).1, (ADec.decodeN n ⟨s, k, 0, po⟩).2) := by
  induction z with
  | zero => intro s k po n; simp
  | succ z ih =>
    intro s k po n
    have : z + 1 + n = (z + n) + 1 := by omega
    have hd : (ADec.mk s k (z + 1) po).decodeBit = some (false, ⟨s, k, z, po⟩) := by
      simp [ADec.decodeBit, ADec.pending]
    rw [this, decodeN_succ, hd]
    simp only [ih, List.replicate_succ, List.cons_append]

theorem decodeN_po (s : List Bool) (k : Fin 13) (n : Nat) :
    ADec.decodeN (n + 1) ⟨s, k, 0, true⟩ =
      (true :: (ADec.decodeN n ⟨s, k, 0, false⟩).1, (ADec.decodeN n ⟨s, k, 0, false⟩).2) := by
  have hd : (ADec.mk s k 0 true).decodeBit = some (true, ⟨s, k, 0, false⟩) := by
    simp [ADec.decodeBit, ADec.pending]
  rw [decodeN_succ, hd]

theorem step_lead1 (s : List Bool) (k : Fin 13) :
    (ADec.mk (true :: s) k 0 false).decodeBit = (ADec.mk s (kInc k) (2 ^ melE k) false).decodeBit := by
  have hpos : 2 ^ melE k > 0 := Nat.two_pow_pos _
  simp [ADec.decodeBit, ADec.pending, hpos]

theorem step_lead0 (s : List Bool) (k : Fin 13) (r : Nat) (hr : r < 2 ^ melE k) :
    (ADec.mk (false :: (binBits (melE k) r ++ s)) k 0 false).decodeBit = (ADec.mk s (kDec k) r true).decodeBit := by
  have h := aReadRun_binBits (melE k) r 0 s
  rw [Nat.zero_mul, Nat.zero_add, Nat.mod_eq_of_lt hr] at h
  by_cases hz : r > 0
  · simp [ADec.decodeBit, ADec.pending, h, hz]
  · simp [ADec.decodeBit, ADec.pending, h, hz]

theorem replicate_snoc_false (n : Nat) (l : List Bool) :
    List.replicate (n + 1) false ++ l = List.replicate n false ++ false :: l := by
  induction n with
  | zero => rfl
  | succ n ih => rw [List.replicate_succ, List.cons_append, ih]; rfl

theorem abs_roundtrip (bs : List Bool) : ∀ (run : Nat) (k : Fin 13) (s : List Bool), run < 2 ^ melE k →
    ADec.decodeN (run + bs.length) ⟨encS run k bs ++ s, k, 0, false⟩ = (List.replicate run false ++ bs, true) := by
  induction bs with
  | nil =>
    intro run k s hr
    by_cases hz : run > 0
    · obtain ⟨r', hr'⟩ : ∃ r', run = r' + 1 := ⟨run - 1, by omega⟩
      simp only [encS, hz, if_true, List.length_nil, Nat.add_zero, List.cons_append]
      rw [hr', decodeN_congr _ _ _ (step_lead0 s k (r' + 1) (hr' ▸ hr))]
      have := decodeN_pz (r' + 1) s (kDec k) true 0
      rw [Nat.add_zero] at this
      rw [this]
      simp [ADec.decodeN]
    · have : run = 0 := by omega
      subst this
      simp [encS, ADec.decodeN]
  | cons b bs ih =>
    intro run k s hr
    cases b with
    | false =>
      by_cases hge : run + 1 ≥ 2 ^ melE k
      · have hrun : 2 ^ melE k = run + 1 := by omega
        simp only [encS, hge, if_true, List.length_cons, List.cons_append]
        rw [show run + (bs.length + 1) = (run + bs.length) + 1 by omega,
          decodeN_congr _ _ _ (step_lead1 _ k), hrun]
        have := decodeN_pz (run + 1) (encS 0 (kInc k) bs ++ s) (kInc k) false bs.length
        rw [show run + 1 + bs.length = run + bs.length + 1 by omega] at this
        rw [this]
        have hi := ih 0 (kInc k) s (Nat.two_pow_pos _)
        rw [Nat.zero_add] at hi
        rw [hi]
        simp [replicate_snoc_false]
      · simp only [encS, hge, if_false, List.length_cons]
        have hi := ih (run + 1) k s (by omega)
        rw [show run + (bs.length + 1) = run + 1 + bs.length by omega, hi, replicate_snoc_false]
    | true =>
      simp only [encS, List.length_cons, List.cons_append, List.append_assoc]
      rw [show run + (bs.length + 1) = (run + bs.length) + 1 by omega,
        decodeN_congr _ _ _ (step_lead0 _ k run hr)]
      have := decodeN_pz run (encS 0 (kDec k) bs ++ s) (kDec k) true (bs.length + 1)
      rw [show run + (bs.length + 1) = run + bs.length + 1 by omega] at this
      rw [this, decodeN_po]
      have hi := ih 0 (kDec k) s (Nat.two_pow_pos _)
      rw [Nat.zero_add] at hi
      rw [hi]
      simp

/-! ## The MEL round trip -/

theorem mel_roundtrip' (bits : List Bool) : melDecode (melEncode bits) bits.length = (bits, true) := by
  unfold melDecode melEncode
  rw [decodeN_refines]
  have henc := enc_refines bits ({} : MelEnc) (by decide)
  rw [henc]
  have hinv : PkInv ({} : MelPacker) [] := by
    refine ⟨rfl, ?_, by decide⟩
    decide
  obtain ⟨l1, h1, e1⟩ := pk_emits (encS 0 0 bits) _ _ hinv
  obtain ⟨z, ez⟩ := pk_flush _ l1 h1
  have hview : absD { rd := { rest := (({} : MelPacker).emitBits (encS 0 0 bits)).flushBytes } } =
      ⟨encS 0 0 bits ++ List.replicate z false, 0, 0, false⟩ := by
    simp only [absD, view, topBits, List.nil_append]
    rw [show (decide ((0 : Nat) = 255)) = false by decide, ez, e1]
    simp [unpack]
  show ADec.decodeN bits.length (absD _) = _
  rw [hview]
  have := abs_roundtrip bits 0 0 (List.replicate z false) (Nat.two_pow_pos _)
  simpa using this

/-! ## MEL byte stuffing -/

/-- the MEL byte-stuffing rule: a byte that follows 0xFF has its top bit clear (`ff`: the byte before the list was 0xFF) -/
def Stuffed : Bool → List Nat → Prop
  | _, [] => True
  | ff, x :: xs => (ff = true → x < 128) ∧ Stuffed (decide (x = 255)) xs

theorem stuffed_snoc (ff : Bool) (a : List Nat) (x : Nat) (h : Stuffed ff a) (hx : lastFF ff a = true → x < 128) :
    Stuffed ff (a ++ [x]) := by
  induction a generalizing ff with
  | nil => exact ⟨hx, trivial⟩
  | cons y ys ih => exact ⟨h.1, ih _ h.2 hx⟩

theorem pk_emit_stuffed (p : MelPacker) (l : List Bool) (b : Bool) (h : PkInv p l) (hs : Stuffed false p.buf) :
    Stuffed false (p.emitBit b).buf := by
  obtain ⟨ht, hlen, hrem⟩ := h
  unfold MelPacker.emitBit
  by_cases hr : p.remainingBits - 1 = 0
  · simp only [hr, if_true]
    apply stuffed_snoc _ _ _ hs
    intro hff
    simp only [hff, if_true] at hlen
    have hl7 : (l ++ [b]).length = 7 := by simp; omega
    have hf := (regFacts (l ++ [b]) (by omega)).1
    rw [hl7] at hf
    rw [ht, ← ofBits_snoc]
    have : ofBits (l ++ [b]) % 256 = ofBits (l ++ [b]) := Nat.mod_eq_of_lt (by omega)
    omega
  · simp only [hr, if_false]; exact hs

theorem pk_emits_stuffed (bs : List Bool) : ∀ (p : MelPacker) (l : List Bool), PkInv p l → Stuffed false p.buf →
    ∃ l', PkInv (p.emitBits bs) l' ∧ Stuffed false (p.emitBits bs).buf := by
  induction bs with
  | nil => intro p l h hs; exact ⟨l, h, hs⟩
  | cons b bs ih =>
    intro p l h hs
    obtain ⟨l1, h1, _⟩ := pk_emit p l b h
    exact ih _ l1 h1 (pk_emit_stuffed p l b h hs)

theorem pk_flush_stuffed (p : MelPacker) (l : List Bool) (h : PkInv p l) (hs : Stuffed false p.buf) :
    Stuffed false p.flushBytes := by
  obtain ⟨ht, hlen, hrem⟩ := h
  unfold MelPacker.flushBytes
  by_cases h8 : p.remainingBits = 8
  · simp [h8, hs]
  · simp only [h8, ne_eq, not_false_eq_true, if_true]
    apply stuffed_snoc _ _ _ hs
    intro hff
    simp only [hff, if_true] at hlen
    have hr : p.remainingBits = 7 - l.length := by omega
    have := (( regFacts l (by omega)).2.2 (by omega)).2
    rw [ht, hr]; exact this

/-- bytes emitted by `MELEncoder` never contain 0xFF followed by a byte ≥ 0x80 -/
theorem mel_stuffed' (bits : List Bool) : Stuffed false (melEncode bits) := by
  unfold melEncode
  rw [enc_refines bits ({} : MelEnc) (by decide)]
  have hinv : PkInv ({} : MelPacker) [] := ⟨rfl, by decide, by decide⟩
  obtain ⟨l1, h1, hs1⟩ := pk_emits_stuffed (encS 0 0 bits) _ _ hinv trivial
  exact pk_flush_stuffed _ l1 h1 hs1

/-! ## calculateMaxLevels -/

theorem maxLevelsLoop_spec (minDim : Int) : ∀ (f l : Nat), minDim ≤ 2 ^ (l + f) →
    let r := maxLevelsLoop minDim f l
    l ≤ r ∧ ¬ ((2 : Int) ^ r < minDim) ∧ (r > l → (2 : Int) ^ (r - 1) < minDim) := by
  intro f
  induction f with
  | zero =>
    intro l h
    simp only [maxLevelsLoop, Nat.add_zero] at h ⊢
    omega
  | succ f ih =>
    intro l h
    simp only [maxLevelsLoop]
    by_cases hc : (2 : Int) ^ l < minDim
    · simp only [hc, if_true]
      have h' : minDim ≤ 2 ^ (l + 1 + f) := by
        rw [show l + 1 + f = l + (f + 1) by omega]; exact h
      obtain ⟨h1, h2, h3⟩ := ih (l + 1) h'
      refine ⟨by omega, h2, ?_⟩
      intro _
      by_cases hr : maxLevelsLoop minDim f (l + 1) > l + 1
      · exact h3 hr
      · have : maxLevelsLoop minDim f (l + 1) = l + 1 := by omega
        rw [this]; simpa using hc
    · simp only [hc, if_false]
      exact ⟨Nat.le_refl _, not_false, fun hgt => absurd hgt (Nat.lt_irrefl _)⟩

theorem two_pow_le_int (a b : Nat) (h : a ≤ b) : (2 : Int) ^ a ≤ 2 ^ b := by
  have := Nat.pow_le_pow_right (n := 2) (by omega) h
  have e1 : ((2 ^ a : Nat) : Int) = (2 : Int) ^ a := by simp [Int.natCast_pow]
  have e2 : ((2 ^ b : Nat) : Int) = (2 : Int) ^ b := by simp [Int.natCast_pow]
  rw [← e1, ← e2]; exact Int.ofNat_le.mpr this

theorem calculateMaxLevels_spec' (w h : Int) (hw : w ≤ 2 ^ 62) (hh : h ≤ 2 ^ 62) :
    let r := calculateMaxLevels w h
    let m := if h < w then h else w
    0 ≤ r ∧ r ≤ 6 ∧ (m ≤ 0 → r = 0) ∧
    (0 < m → r < 6 → m ≤ 2 ^ r.toNat ∧ (0 < r → (2 : Int) ^ (r.toNat - 1) < m)) ∧
    (0 < m → r = 6 → (32 : Int) < m) := by
  intro r m
  have hm : m ≤ 2 ^ 62 := by show (if h < w then h else w) ≤ _; split <;> assumption
  have hr : r = if m ≤ 0 then 0 else
      (if maxLevelsLoop m 64 0 > 6 then 6 else (maxLevelsLoop m 64 0 : Int)) := rfl
  obtain ⟨_, h2, h3⟩ := maxLevelsLoop_spec m 64 0 (by
    have : (2 : Int) ^ 62 ≤ 2 ^ (0 + 64) := by decide
    omega)
  generalize maxLevelsLoop m 64 0 = L at hr h2 h3
  by_cases hm0 : m ≤ 0
  · simp only [hm0, if_true] at hr
    rw [hr]; omega
  · simp only [hm0, if_false] at hr
    by_cases h6 : L > 6
    · simp only [h6, if_true] at hr
      have h5 : (2 : Int) ^ (L - 1) < m := h3 (by omega)
      have : (2 : Int) ^ 6 ≤ 2 ^ (L - 1) := two_pow_le_int _ _ (by omega)
      rw [hr]
      refine ⟨by omega, by omega, by omega, by omega, ?_⟩
      intro _ _
      have : (2 : Int) ^ 6 = 64 := by decide
      omega
    · simp only [h6, if_false] at hr
      rw [hr]
      refine ⟨by omega, by omega, by omega, ?_, ?_⟩
      · intro _ _
        simp only [Int.toNat_natCast]
        exact ⟨by omega, fun hp => h3 (by omega)⟩
      · intro _ hL
        have hL6 : L = 6 := by omega
        have := h3 (by omega)
        rw [hL6] at this
        have e : (2 : Int) ^ (6 - 1) = 32 := by decide
        omega

/-! ## Kmax sufficiency: gain tables and 5/3 lifting bounds -/

/-- the exponent table is the ceil-log2 of the gain table: 2^(X-1) < G ≤ 2^X (G = 1 ↦ X = 0) -/
theorem biboLog2_is_ceil_log2_gain : ∀ nl : Fin 7, ∀ res : Fin 7, ∀ band : Fin 4, res.val ≤ nl.val →
    bandGain nl res band ≤ 2 ^ biboLog2 nl res band * 10 ^ 8 ∧
    (0 < biboLog2 nl res band → 2 ^ (biboLog2 nl res band - 1) * 10 ^ 8 < bandGain nl res band) := by decide

theorem gain_strict : ∀ nl : Fin 7, ∀ res : Fin 7, ∀ band : Fin 4, 1 ≤ nl.val → res.val ≤ nl.val →
    ¬ (band.val = 3 ∧ res.val = nl.val) →
    bandGain nl res band < 2 ^ biboLog2 nl res band * 10 ^ 8 := by decide

theorem lt_of_scaled (a g k m : Nat) (hm : 0 < m) (hg : g < k * 10 ^ 8) (h : a * 10 ^ 8 ≤ g * m) : a < k * m := by
  apply Nat.lt_of_not_ge
  intro hge
  have h1 : k * m * 10 ^ 8 ≤ a * 10 ^ 8 := Nat.mul_le_mul_right _ hge
  have h2 : g * m < k * 10 ^ 8 * m := Nat.mul_lt_mul_of_pos_right hg hm
  have h3 : k * 10 ^ 8 * m = k * m * 10 ^ 8 := by
    rw [Nat.mul_assoc, Nat.mul_comm (10 ^ 8) m, ← Nat.mul_assoc]
  omega

theorem kmax_toNat (nl bd : Nat) (rct : Bool) (res band : Nat) (hnl : 1 ≤ nl) (hbd : 1 ≤ bd) :
    (encBandNumbps nl bd rct res band).toNat = (bd + rct.toNat - 1) + biboLog2 nl res band := by
  have : nl ≠ 0 := by omega
  unfold encBandNumbps htExpn htGuardBits
  cases rct <;> simp [this] <;> omega

theorem kmax_sufficient_of_gain' (nl bd : Nat) (rct : Bool) (res band : Nat) (c : Int)
    (hnl : 1 ≤ nl ∧ nl ≤ 6) (hbd : 1 ≤ bd) (hres : res ≤ nl) (hband : band ≤ 3)
    (hnotHH1 : ¬ (band = 3 ∧ res = nl))
    (hgain : c.natAbs * 10 ^ 8 ≤ bandGain nl res band * 2 ^ (bd + rct.toNat - 1)) :
    c.natAbs < 2 ^ (encBandNumbps nl bd rct res band).toNat := by
  rw [kmax_toNat nl bd rct res band hnl.1 hbd, Nat.pow_add, Nat.mul_comm]
  have hs := gain_strict ⟨nl, by omega⟩ ⟨res, by omega⟩ ⟨band, by omega⟩ hnl.1 hres hnotHH1
  exact lt_of_scaled _ _ _ _ (Nat.two_pow_pos _) hs hgain

/-- first-pass intervals for level-shifted samples in [-M, M-1] -/
def inSamples (M x : Int) : Prop := -M ≤ x ∧ x ≤ M - 1
def inLow1 (M x : Int) : Prop := (-(6 * M + 1)) / 4 ≤ x ∧ x ≤ (6 * M - 1) / 4
def inHigh1 (M x : Int) : Prop := -(2 * M - 1) ≤ x ∧ x ≤ 2 * M - 1

theorem pass1_low (M a b c d e : Int) (ha : inSamples M a) (hb : inSamples M b) (hc : inSamples M c)
    (hd : inSamples M d) (he : inSamples M e) :
    inLow1 M (lift53Low (lift53High a b c) c (lift53High c d e)) := by
  unfold inSamples at *; unfold inLow1 lift53Low lift53High; omega

theorem pass1_high (M a b c : Int) (ha : inSamples M a) (hb : inSamples M b) (hc : inSamples M c) :
    inHigh1 M (lift53High a b c) := by
  unfold inSamples at *; unfold inHigh1 lift53High; omega

theorem pass2_LL (M a b c d e : Int) (hM : 1 ≤ M) (ha : inLow1 M a) (hb : inLow1 M b) (hc : inLow1 M c)
    (hd : inLow1 M d) (he : inLow1 M e) :
    (-(4 * M) < lift53Low (lift53High a b c) c (lift53High c d e)) ∧
      lift53Low (lift53High a b c) c (lift53High c d e) < 4 * M := by
  unfold inLow1 at *; unfold lift53Low lift53High; omega

theorem pass2_lowOfHigh (M a b c d e : Int) (hM : 1 ≤ M) (ha : inHigh1 M a) (hb : inHigh1 M b) (hc : inHigh1 M c)
    (hd : inHigh1 M d) (he : inHigh1 M e) :
    (-(4 * M) < lift53Low (lift53High a b c) c (lift53High c d e)) ∧
      lift53Low (lift53High a b c) c (lift53High c d e) < 4 * M := by
  unfold inHigh1 at *; unfold lift53Low lift53High; omega

theorem pass2_highOfLow (M a b c : Int) (hM : 1 ≤ M) (ha : inLow1 M a) (hb : inLow1 M b) (hc : inLow1 M c) :
    (-(4 * M) < lift53High a b c) ∧ lift53High a b c < 4 * M := by
  unfold inLow1 at *; unfold lift53High; omega

theorem pass2_HH (M a b c : Int) (hM : 1 ≤ M) (ha : inHigh1 M a) (hb : inHigh1 M b) (hc : inHigh1 M c) :
    (-(4 * M) < lift53High a b c) ∧ lift53High a b c < 4 * M := by
  unfold inHigh1 at *; unfold lift53High; omega

/-- 2^Kmax of every level-1 band is 4·2^(precision-1) -/
theorem kmax_level1 (bd : Nat) (rct : Bool) (res band : Nat) (hbd : 1 ≤ bd) (hres : res ≤ 1) (hband : band ≤ 3) :
    ((2 ^ (encBandNumbps 1 bd rct res band).toNat : Nat) : Int) = 4 * 2 ^ (bd + rct.toNat - 1) := by
  rw [kmax_toNat 1 bd rct res band (by omega) hbd]
  have hb : biboLog2 1 res band = 2 := by
    have : ∀ r : Fin 2, ∀ b : Fin 4, biboLog2 1 r b = 2 := by decide
    exact this ⟨res, by omega⟩ ⟨band, by omega⟩
  rw [hb, Nat.pow_add]
  simp [Int.natCast_pow, Int.mul_comm]

/-! ## Sign-magnitude words -/

theorem signmag_roundtrip' (kmax : Nat) (hk : kmax ≤ 31) (v : Int) (hv : v.natAbs < 2 ^ kmax) :
    fromSignMag kmax (toSignMag kmax v) = v := by
  have hpow : 2 ^ kmax * 2 ^ (31 - kmax) = 2 ^ 31 := by
    rw [← Nat.pow_add]; congr 1; omega
  have hpos : 0 < 2 ^ (31 - kmax) := Nat.two_pow_pos _
  have hlt : v.natAbs * 2 ^ (31 - kmax) < 2 ^ 31 := by
    rw [← hpow]; exact Nat.mul_lt_mul_of_pos_right hv hpos
  have hval : v.natAbs * 2 ^ (31 - kmax) % 2 ^ 32 = v.natAbs * 2 ^ (31 - kmax) :=
    Nat.mod_eq_of_lt (by have : (2 : Nat) ^ 31 < 2 ^ 32 := by decide
                         omega)
  unfold fromSignMag toSignMag
  simp only [hval]
  by_cases hneg : v < 0
  · simp only [hneg, if_true]
    have hor : 2 ^ 31 ||| v.natAbs * 2 ^ (31 - kmax) = 2 ^ 31 + v.natAbs * 2 ^ (31 - kmax) := by
      have := Nat.two_pow_add_eq_or_of_lt hlt 1
      rw [Nat.mul_one] at this
      exact this.symm
    rw [hor]
    have h1 : (2 ^ 31 + v.natAbs * 2 ^ (31 - kmax)) % 2 ^ 31 = v.natAbs * 2 ^ (31 - kmax) := by
      rw [Nat.add_mod_left]; exact Nat.mod_eq_of_lt hlt
    have h2 : (2 ^ 31 + v.natAbs * 2 ^ (31 - kmax)) / 2 ^ 31 % 2 = 1 := by
      have : (2 ^ 31 + v.natAbs * 2 ^ (31 - kmax)) / 2 ^ 31 = 1 := by
        rw [Nat.add_div_left _ (Nat.two_pow_pos 31), Nat.div_eq_of_lt hlt]
      rw [this]
    rw [h1, h2, Nat.mul_div_cancel _ hpos]
    simp only [if_true]
    omega
  · simp only [hneg, if_false, Nat.zero_or]
    have h1 : v.natAbs * 2 ^ (31 - kmax) % 2 ^ 31 = v.natAbs * 2 ^ (31 - kmax) := Nat.mod_eq_of_lt hlt
    have h2 : v.natAbs * 2 ^ (31 - kmax) / 2 ^ 31 % 2 = 0 := by
      rw [Nat.div_eq_of_lt hlt]
    rw [h1, h2, Nat.mul_div_cancel _ hpos]
    simp only [Nat.zero_ne_one, if_false]
    omega

/-! ## Tile-part arithmetic -/

theorem psots_sum (parts : List (Nat × Nat)) (hfit : ∀ p ∈ parts, p.2 + p.1 + 14 < 2 ^ 32) :
    (psots parts).sum = (parts.map (fun p => tilePartLen p.1 p.2)).sum := by
  induction parts with
  | nil => rfl
  | cons p ps ih =>
    have hp := hfit p (List.mem_cons_self)
    have := ih (fun q hq => hfit q (List.mem_cons_of_mem _ hq))
    simp only [psots, List.map_cons, List.sum_cons] at this ⊢
    rw [this]
    simp only [psotOf, tilePartLen, Nat.mod_eq_of_lt hp]
    omega

/-- following the Psot values from offset `off` visits exactly the tile-part starts and ends at the end of the buffer -/
theorem tlmWalk_psots (parts : List (Nat × Nat)) (hfit : ∀ p ∈ parts, p.2 + p.1 + 14 < 2 ^ 32) :
    ∀ (off total : Nat), total = off + (parts.map (fun p => tilePartLen p.1 p.2)).sum →
    ∃ offs, tlmWalk total (psots parts) off = some offs ∧ offs.length = parts.length ∧
      (∀ o ∈ offs, off ≤ o ∧ o < total) := by
  induction parts with
  | nil => intro off total h; exact ⟨[], by simp [psots, tlmWalk, h], rfl, by simp⟩
  | cons p ps ih =>
    intro off total h
    have hp := hfit p (List.mem_cons_self)
    have hps : psotOf p.1 p.2 = tilePartLen p.1 p.2 := by
      simp only [psotOf, tilePartLen, Nat.mod_eq_of_lt hp]; omega
    simp only [List.map_cons, List.sum_cons] at h
    obtain ⟨offs, h1, h2, h3⟩ := ih (fun q hq => hfit q (List.mem_cons_of_mem _ hq)) (off + tilePartLen p.1 p.2) total (by omega)
    have hge : 14 ≤ tilePartLen p.1 p.2 := by simp only [tilePartLen]; omega
    refine ⟨off :: offs, ?_, by simp [h2], ?_⟩
    · simp only [psots, List.map_cons, tlmWalk, hps]
      have hc : ¬ (tilePartLen p.1 p.2 < 14 ∨ off + tilePartLen p.1 p.2 > total) := by omega
      simp only [hc, if_false]
      simp only [psots] at h1
      rw [h1]; rfl
    · intro o ho
      cases ho with
      | head => omega
      | tail _ hm => have := h3 o hm; omega

/-! ## U-VLC round trip -/

/-- the five code shapes of `ojphUVLC`: class 0 = no code (u = 0), 1: `1`, 2: `01`, 3: `001`+1 suffix bit, 4: `000`+5 suffix bits -/
def cPre : Nat → Nat | 1 => 1 | 2 => 2 | 3 => 4 | _ => 0
def cP : Nat → Nat | 0 => 0 | 1 => 1 | 2 => 2 | _ => 3
def cS : Nat → Nat | 3 => 1 | 4 => 5 | _ => 0
def cBase : Nat → Nat | 0 => 0 | 1 => 1 | 2 => 2 | 3 => 3 | _ => 5
def clsOf (u : Nat) : Nat := if u = 0 then 0 else if u = 1 then 1 else if u = 2 then 2 else if u ≤ 4 then 3 else 4

theorem uvlcCode_form : ∀ u : Fin 33,
    uvlcCode u = ((cPre (clsOf u), cP (clsOf u)), (u - cBase (clsOf u), cS (clsOf u))) ∧
    cBase (clsOf u) ≤ u ∧ u - cBase (clsOf u) < 2 ^ cS (clsOf u) ∧ clsOf u < 5 ∧ (clsOf u = 0 ↔ u.val = 0) ∧
    (clsOf u ≥ 3 ↔ u.val > 2) := by decide

/-- unpacking a table entry -/
theorem decode_of_entry (initial : Bool) (mode v lp ls u0suf p0 p1 : Nat)
    (hlp : lp < 8) (hls : ls < 16) (hsuf : u0suf < 8) (hp0 : p0 < 8) (hp1 : p1 < 8)
    (he : (if initial then uvlcTbl0 (mode + v % 64) else uvlcTbl1 (mode + v % 64)) = uvlcPack lp ls u0suf p0 p1) :
    decodeUVLC initial mode v =
      (p0 + v / 2 ^ lp % 2 ^ ls % 2 ^ u0suf, p1 + v / 2 ^ lp % 2 ^ ls / 2 ^ u0suf, lp + ls) := by
  unfold decodeUVLC
  simp only [he]
  have e1 : uvlcPack lp ls u0suf p0 p1 % 8 = lp := by unfold uvlcPack; omega
  have e2 : uvlcPack lp ls u0suf p0 p1 / 8 % 16 = ls := by unfold uvlcPack; omega
  have e3 : uvlcPack lp ls u0suf p0 p1 / 128 % 8 = u0suf := by unfold uvlcPack; omega
  have e4 : uvlcPack lp ls u0suf p0 p1 / 1024 % 8 = p0 := by unfold uvlcPack; omega
  have e5 : uvlcPack lp ls u0suf p0 p1 / 8192 % 8 = p1 := by unfold uvlcPack; omega
  rw [e1, e2, e3, e4, e5]

/-- table facts: every 6-bit window that starts with the two prefixes carries the entry the shapes dictate -/
def tblFactNonInitial : Bool :=
  (List.range 5).all fun c0 => (List.range 5).all fun c1 => (List.range 64).all fun i =>
    !(i % 2 ^ (cP c0 + cP c1) == cPre c0 + cPre c1 * 2 ^ cP c0) ||
      uvlcTbl1 ((if c0 = 0 then 0 else 64) + (if c1 = 0 then 0 else 128) + i) ==
        uvlcPack (cP c0 + cP c1) (cS c0 + cS c1) (cS c0) (cBase c0) (cBase c1)

theorem tblFactNonInitial_ok : tblFactNonInitial = true := by decide +kernel

theorem tbl1_entry (c0 c1 i : Nat) (hc0 : c0 < 5) (hc1 : c1 < 5) (hi : i < 64)
    (hidx : i % 2 ^ (cP c0 + cP c1) = cPre c0 + cPre c1 * 2 ^ cP c0) :
    uvlcTbl1 ((if c0 = 0 then 0 else 64) + (if c1 = 0 then 0 else 128) + i) =
      uvlcPack (cP c0 + cP c1) (cS c0 + cS c1) (cS c0) (cBase c0) (cBase c1) := by
  have h := tblFactNonInitial_ok
  unfold tblFactNonInitial at h
  rw [List.all_eq_true] at h
  have h0 := h c0 (List.mem_range.mpr hc0)
  rw [List.all_eq_true] at h0
  have h1 := h0 c1 (List.mem_range.mpr hc1)
  rw [List.all_eq_true] at h1
  have h2 := h1 i (List.mem_range.mpr hi)
  simp only [Bool.or_eq_true, Bool.not_eq_true', beq_eq_false_iff_ne, beq_iff_eq] at h2
  rcases h2 with h2 | h2
  · exact absurd hidx h2
  · exact h2

/-- window of a pair of code shapes with suffix values `s0`, `s1`, followed by arbitrary further bits `rest` -/
def pairWindow (c0 c1 s0 s1 rest : Nat) : Nat :=
  cPre c0 + cPre c1 * 2 ^ cP c0 + (s0 + s1 * 2 ^ cS c0) * 2 ^ (cP c0 + cP c1) +
    rest * 2 ^ (cP c0 + cP c1 + cS c0 + cS c1)

theorem nonInitial_core (c0 c1 s0 s1 rest : Nat) (hc0 : c0 < 5) (hc1 : c1 < 5)
    (hs0 : s0 < 2 ^ cS c0) (hs1 : s1 < 2 ^ cS c1) :
    decodeUVLC false ((if c0 = 0 then 0 else 64) + (if c1 = 0 then 0 else 128)) (pairWindow c0 c1 s0 s1 rest) =
      (cBase c0 + s0, cBase c1 + s1, cP c0 + cP c1 + cS c0 + cS c1) := by
  have hidx : pairWindow c0 c1 s0 s1 rest % 64 % 2 ^ (cP c0 + cP c1) = cPre c0 + cPre c1 * 2 ^ cP c0 := by
    have h0 : c0 = 0 ∨ c0 = 1 ∨ c0 = 2 ∨ c0 = 3 ∨ c0 = 4 := by omega
    have h1 : c1 = 0 ∨ c1 = 1 ∨ c1 = 2 ∨ c1 = 3 ∨ c1 = 4 := by omega
    rcases h0 with rfl | rfl | rfl | rfl | rfl <;> rcases h1 with rfl | rfl | rfl | rfl | rfl <;>
      simp [pairWindow, cPre, cP, cS] at hs0 hs1 ⊢ <;> omega
  have he := tbl1_entry c0 c1 (pairWindow c0 c1 s0 s1 rest % 64) hc0 hc1 (Nat.mod_lt _ (by decide)) hidx
  have hb : cP c0 + cP c1 < 8 ∧ cS c0 + cS c1 < 16 ∧ cS c0 < 8 ∧ cBase c0 < 8 ∧ cBase c1 < 8 := by
    have h0 : c0 = 0 ∨ c0 = 1 ∨ c0 = 2 ∨ c0 = 3 ∨ c0 = 4 := by omega
    have h1 : c1 = 0 ∨ c1 = 1 ∨ c1 = 2 ∨ c1 = 3 ∨ c1 = 4 := by omega
    rcases h0 with rfl | rfl | rfl | rfl | rfl <;> rcases h1 with rfl | rfl | rfl | rfl | rfl <;> decide
  rw [decode_of_entry false _ _ _ _ _ _ _ hb.1 hb.2.1 hb.2.2.1 hb.2.2.2.1 hb.2.2.2.2 (by simpa using he)]
  have h0 : c0 = 0 ∨ c0 = 1 ∨ c0 = 2 ∨ c0 = 3 ∨ c0 = 4 := by omega
  have h1 : c1 = 0 ∨ c1 = 1 ∨ c1 = 2 ∨ c1 = 3 ∨ c1 = 4 := by omega
  rcases h0 with rfl | rfl | rfl | rfl | rfl <;> rcases h1 with rfl | rfl | rfl | rfl | rfl <;>
    simp [pairWindow, cPre, cP, cS, cBase] at hs0 hs1 ⊢ <;> omega

theorem code_of (u : Nat) (hu : u ≤ 32) : ∃ c s, c < 5 ∧ s < 2 ^ cS c ∧ u = cBase c + s ∧ (c = 0 ↔ u = 0) ∧
    (c ≥ 3 ↔ u > 2) ∧ uvlcCode u = ((cPre c, cP c), (s, cS c)) := by
  have h := uvlcCode_form ⟨u, by omega⟩
  simp only at h
  exact ⟨clsOf u, u - cBase (clsOf u), h.2.2.2.1, h.2.2.1, by omega, h.2.2.2.2.1, h.2.2.2.2.2, h.1⟩

theorem concat_form (c0 c1 s0 s1 : Nat) (hc0 : c0 < 5) (hc1 : c1 < 5) (hs0 : s0 < 2 ^ cS c0) (hs1 : s1 < 2 ^ cS c1) :
    vlcConcat [(cPre c0, cP c0), (cPre c1, cP c1), (s0, cS c0), (s1, cS c1)] =
      (pairWindow c0 c1 s0 s1 0, cP c0 + cP c1 + cS c0 + cS c1) := by
  have h0 : c0 = 0 ∨ c0 = 1 ∨ c0 = 2 ∨ c0 = 3 ∨ c0 = 4 := by omega
  have h1 : c1 = 0 ∨ c1 = 1 ∨ c1 = 2 ∨ c1 = 3 ∨ c1 = 4 := by omega
  rcases h0 with rfl | rfl | rfl | rfl | rfl <;> rcases h1 with rfl | rfl | rfl | rfl | rfl <;>
    simp [vlcConcat, pairWindow, cPre, cP, cS] at hs0 hs1 ⊢ <;> omega

theorem pairWindow_rest (c0 c1 s0 s1 rest : Nat) :
    pairWindow c0 c1 s0 s1 0 + rest * 2 ^ (cP c0 + cP c1 + cS c0 + cS c1) = pairWindow c0 c1 s0 s1 rest := by
  simp [pairWindow]

theorem uvlc_noninitial_roundtrip' (u0 u1 rest : Nat) (h0 : u0 ≤ 32) (h1 : u1 ≤ 32) :
    decodeUVLC false (uvlcMode false u0 u1)
      ((encodeNonInitialUVLC u0 u1).1 + rest * 2 ^ (encodeNonInitialUVLC u0 u1).2) =
      (u0, u1, (encodeNonInitialUVLC u0 u1).2) := by
  obtain ⟨c0, s0, hc0, hs0, hu0, hz0, _, hcode0⟩ := code_of u0 h0
  obtain ⟨c1, s1, hc1, hs1, hu1, hz1, _, hcode1⟩ := code_of u1 h1
  have henc : encodeNonInitialUVLC u0 u1 = (pairWindow c0 c1 s0 s1 0, cP c0 + cP c1 + cS c0 + cS c1) := by
    unfold encodeNonInitialUVLC
    simp only [hcode0, hcode1]
    exact concat_form c0 c1 s0 s1 hc0 hc1 hs0 hs1
  have hmode : uvlcMode false u0 u1 = (if c0 = 0 then 0 else 64) + (if c1 = 0 then 0 else 128) := by
    have e0 : (if u0 > 0 then 64 else 0) = (if c0 = 0 then 0 else 64) := by
      by_cases a : c0 = 0
      · have := hz0.mp a; simp [a, this]
      · have hne : u0 ≠ 0 := fun h => a (hz0.mpr h)
        have : u0 > 0 := by omega
        simp [a, this]
    have e1 : (if u1 > 0 then 128 else 0) = (if c1 = 0 then 0 else 128) := by
      by_cases a : c1 = 0
      · have := hz1.mp a; simp [a, this]
      · have hne : u1 ≠ 0 := fun h => a (hz1.mpr h)
        have : u1 > 0 := by omega
        simp [a, this]
    unfold uvlcMode
    rw [e0, e1]; simp
  rw [henc, hmode, pairWindow_rest, nonInitial_core c0 c1 s0 s1 rest hc0 hc1 hs0 hs1, hu0, hu1]

/-! ### initial row -/

def tblFactInitial : Bool :=
  ((List.range 5).all fun c0 => (List.range 5).all fun c1 => (List.range 64).all fun i =>
    !(i % 2 ^ (cP c0 + cP c1) == cPre c0 + cPre c1 * 2 ^ cP c0) ||
      ((decide (c0 ≥ 3) && decide (c1 ≥ 1)) ||
        uvlcTbl0 ((if c0 = 0 then 0 else 64) + (if c1 = 0 then 0 else 128) + i) ==
          uvlcPack (cP c0 + cP c1) (cS c0 + cS c1) (cS c0) (cBase c0) (cBase c1)) &&
      ((decide (c0 = 0) || decide (c1 = 0)) ||
        uvlcTbl0 (256 + i) == uvlcPack (cP c0 + cP c1) (cS c0 + cS c1) (cS c0) (cBase c0 + 2) (cBase c1 + 2))) &&
  ((List.range 5).all fun c0 => (List.range 2).all fun bit => (List.range 64).all fun i =>
    !(decide (c0 ≥ 3) && i % 16 == cPre c0 + bit * 8) ||
      uvlcTbl0 (192 + i) == uvlcPack 4 (cS c0) (cS c0) (cBase c0) (bit + 1))

theorem tblFactInitial_ok : tblFactInitial = true := by decide +kernel

theorem tbl0_entries (c0 c1 i : Nat) (hc0 : c0 < 5) (hc1 : c1 < 5) (hi : i < 64)
    (hidx : i % 2 ^ (cP c0 + cP c1) = cPre c0 + cPre c1 * 2 ^ cP c0) :
    (¬ (c0 ≥ 3 ∧ c1 ≥ 1) →
      uvlcTbl0 ((if c0 = 0 then 0 else 64) + (if c1 = 0 then 0 else 128) + i) =
        uvlcPack (cP c0 + cP c1) (cS c0 + cS c1) (cS c0) (cBase c0) (cBase c1)) ∧
    (c0 ≠ 0 → c1 ≠ 0 →
      uvlcTbl0 (256 + i) = uvlcPack (cP c0 + cP c1) (cS c0 + cS c1) (cS c0) (cBase c0 + 2) (cBase c1 + 2)) := by
  have h := tblFactInitial_ok
  unfold tblFactInitial at h
  rw [Bool.and_eq_true] at h
  have h := h.1
  rw [List.all_eq_true] at h
  have h0 := h c0 (List.mem_range.mpr hc0)
  rw [List.all_eq_true] at h0
  have h1 := h0 c1 (List.mem_range.mpr hc1)
  rw [List.all_eq_true] at h1
  have h2 := h1 i (List.mem_range.mpr hi)
  simp only [Bool.or_eq_true, Bool.and_eq_true, Bool.not_eq_true', beq_eq_false_iff_ne, beq_iff_eq, decide_eq_true_eq] at h2
  rcases h2 with h2 | ⟨ha, hb⟩
  · exact absurd hidx h2
  · constructor
    · intro hn
      rcases ha with ha | ha
      · exact absurd ha hn
      · exact ha
    · intro n0 n1
      rcases hb with hb | hb
      · rcases hb with hb | hb
        · exact absurd hb n0
        · exact absurd hb n1
      · exact hb

theorem tbl0_special (c0 bit i : Nat) (hc0 : c0 < 5) (h3 : c0 ≥ 3) (hbit : bit < 2) (hi : i < 64)
    (hidx : i % 16 = cPre c0 + bit * 8) :
    uvlcTbl0 (192 + i) = uvlcPack 4 (cS c0) (cS c0) (cBase c0) (bit + 1) := by
  have h := tblFactInitial_ok
  unfold tblFactInitial at h
  rw [Bool.and_eq_true] at h
  have h := h.2
  rw [List.all_eq_true] at h
  have h0 := h c0 (List.mem_range.mpr hc0)
  rw [List.all_eq_true] at h0
  have h1 := h0 bit (List.mem_range.mpr hbit)
  rw [List.all_eq_true] at h1
  have h2 := h1 i (List.mem_range.mpr hi)
  simp only [Bool.or_eq_true, Bool.not_eq_true', Bool.and_eq_false_iff, beq_iff_eq,
    decide_eq_false_iff_not, beq_eq_false_iff_ne] at h2
  rcases h2 with h2 | h2
  · rcases h2 with h2 | h2
    · exact absurd h3 h2
    · exact absurd hidx h2
  · exact h2

theorem class_bounds (c0 c1 : Nat) (hc0 : c0 < 5) (hc1 : c1 < 5) :
    cP c0 + cP c1 < 8 ∧ cS c0 + cS c1 < 16 ∧ cS c0 < 8 ∧ cBase c0 + 2 < 8 ∧ cBase c1 + 2 < 8 := by
  have h0 : c0 = 0 ∨ c0 = 1 ∨ c0 = 2 ∨ c0 = 3 ∨ c0 = 4 := by omega
  have h1 : c1 = 0 ∨ c1 = 1 ∨ c1 = 2 ∨ c1 = 3 ∨ c1 = 4 := by omega
  rcases h0 with rfl | rfl | rfl | rfl | rfl <;> rcases h1 with rfl | rfl | rfl | rfl | rfl <;> decide

theorem pairWindow_idx (c0 c1 s0 s1 rest : Nat) (hc0 : c0 < 5) (hc1 : c1 < 5)
    (hs0 : s0 < 2 ^ cS c0) (hs1 : s1 < 2 ^ cS c1) :
    pairWindow c0 c1 s0 s1 rest % 64 % 2 ^ (cP c0 + cP c1) = cPre c0 + cPre c1 * 2 ^ cP c0 := by
  have h0 : c0 = 0 ∨ c0 = 1 ∨ c0 = 2 ∨ c0 = 3 ∨ c0 = 4 := by omega
  have h1 : c1 = 0 ∨ c1 = 1 ∨ c1 = 2 ∨ c1 = 3 ∨ c1 = 4 := by omega
  rcases h0 with rfl | rfl | rfl | rfl | rfl <;> rcases h1 with rfl | rfl | rfl | rfl | rfl <;>
    simp [pairWindow, cPre, cP, cS] at hs0 hs1 ⊢ <;> omega

/-- suffix extraction from a pair window, for any entry whose lengths are those of the two shapes -/
theorem pairWindow_fields (c0 c1 s0 s1 rest p0 p1 : Nat) (hc0 : c0 < 5) (hc1 : c1 < 5)
    (hs0 : s0 < 2 ^ cS c0) (hs1 : s1 < 2 ^ cS c1) :
    (p0 + pairWindow c0 c1 s0 s1 rest / 2 ^ (cP c0 + cP c1) % 2 ^ (cS c0 + cS c1) % 2 ^ cS c0,
      p1 + pairWindow c0 c1 s0 s1 rest / 2 ^ (cP c0 + cP c1) % 2 ^ (cS c0 + cS c1) / 2 ^ cS c0,
      cP c0 + cP c1 + (cS c0 + cS c1)) = (p0 + s0, p1 + s1, cP c0 + cP c1 + cS c0 + cS c1) := by
  have h0 : c0 = 0 ∨ c0 = 1 ∨ c0 = 2 ∨ c0 = 3 ∨ c0 = 4 := by omega
  have h1 : c1 = 0 ∨ c1 = 1 ∨ c1 = 2 ∨ c1 = 3 ∨ c1 = 4 := by omega
  rcases h0 with rfl | rfl | rfl | rfl | rfl <;> rcases h1 with rfl | rfl | rfl | rfl | rfl <;>
    simp [pairWindow, cPre, cP, cS] at hs0 hs1 ⊢ <;> omega

theorem initial_core_general (c0 c1 s0 s1 rest : Nat) (hc0 : c0 < 5) (hc1 : c1 < 5)
    (hs0 : s0 < 2 ^ cS c0) (hs1 : s1 < 2 ^ cS c1) (hn : ¬ (c0 ≥ 3 ∧ c1 ≥ 1)) :
    decodeUVLC true ((if c0 = 0 then 0 else 64) + (if c1 = 0 then 0 else 128)) (pairWindow c0 c1 s0 s1 rest) =
      (cBase c0 + s0, cBase c1 + s1, cP c0 + cP c1 + cS c0 + cS c1) := by
  have he := (tbl0_entries c0 c1 (pairWindow c0 c1 s0 s1 rest % 64) hc0 hc1 (Nat.mod_lt _ (by decide))
    (pairWindow_idx c0 c1 s0 s1 rest hc0 hc1 hs0 hs1)).1 hn
  have hb := class_bounds c0 c1 hc0 hc1
  rw [decode_of_entry true _ _ (cP c0 + cP c1) (cS c0 + cS c1) (cS c0) (cBase c0) (cBase c1) hb.1 hb.2.1 hb.2.2.1
    (by omega) (by omega) (by simpa using he)]
  exact pairWindow_fields c0 c1 s0 s1 rest _ _ hc0 hc1 hs0 hs1

theorem initial_core_mel (c0 c1 s0 s1 rest : Nat) (hc0 : c0 < 5) (hc1 : c1 < 5)
    (hs0 : s0 < 2 ^ cS c0) (hs1 : s1 < 2 ^ cS c1) (n0 : c0 ≠ 0) (n1 : c1 ≠ 0) :
    decodeUVLC true 256 (pairWindow c0 c1 s0 s1 rest) =
      (cBase c0 + 2 + s0, cBase c1 + 2 + s1, cP c0 + cP c1 + cS c0 + cS c1) := by
  have he := (tbl0_entries c0 c1 (pairWindow c0 c1 s0 s1 rest % 64) hc0 hc1 (Nat.mod_lt _ (by decide))
    (pairWindow_idx c0 c1 s0 s1 rest hc0 hc1 hs0 hs1)).2 n0 n1
  have hb := class_bounds c0 c1 hc0 hc1
  rw [decode_of_entry true _ _ _ _ _ _ _ hb.1 hb.2.1 hb.2.2.1 hb.2.2.2.1 hb.2.2.2.2 (by simpa using he)]
  exact pairWindow_fields c0 c1 s0 s1 rest _ _ hc0 hc1 hs0 hs1

theorem initial_core_special (c0 s0 bit rest : Nat) (hc0 : c0 < 5) (h3 : c0 ≥ 3) (hs0 : s0 < 2 ^ cS c0) (hbit : bit < 2) :
    decodeUVLC true 192 (cPre c0 + bit * 8 + s0 * 16 + rest * 2 ^ (4 + cS c0)) =
      (cBase c0 + s0, bit + 1, 4 + cS c0) := by
  have h0 : c0 = 3 ∨ c0 = 4 := by omega
  have hidx : (cPre c0 + bit * 8 + s0 * 16 + rest * 2 ^ (4 + cS c0)) % 64 % 16 = cPre c0 + bit * 8 := by
    rcases h0 with rfl | rfl <;> simp [cPre, cS] at hs0 ⊢ <;> omega
  have he := tbl0_special c0 bit _ hc0 h3 hbit (Nat.mod_lt _ (by decide)) hidx
  have hb : cS c0 < 16 ∧ cS c0 < 8 ∧ cBase c0 < 8 ∧ bit + 1 < 8 := by
    rcases h0 with rfl | rfl <;> simp [cS, cBase] <;> omega
  rw [decode_of_entry true _ _ 4 (cS c0) (cS c0) (cBase c0) (bit + 1) (by decide) hb.1 hb.2.1 hb.2.2.1 hb.2.2.2
    (by simpa using he)]
  rcases h0 with rfl | rfl <;> simp [cPre, cS, cBase] at hs0 ⊢ <;> omega

theorem mode_flags (u0 u1 c0 c1 : Nat) (hz0 : c0 = 0 ↔ u0 = 0) (hz1 : c1 = 0 ↔ u1 = 0) :
    (if u0 > 0 then 64 else 0) + (if u1 > 0 then 128 else 0) = (if c0 = 0 then 0 else 64) + (if c1 = 0 then 0 else 128) := by
  have e0 : (if u0 > 0 then 64 else 0) = (if c0 = 0 then 0 else 64) := by
    by_cases a : c0 = 0
    · have := hz0.mp a; simp [a, this]
    · have hne : u0 ≠ 0 := fun h => a (hz0.mpr h)
      have : u0 > 0 := by omega
      simp [a, this]
  have e1 : (if u1 > 0 then 128 else 0) = (if c1 = 0 then 0 else 128) := by
    by_cases a : c1 = 0
    · have := hz1.mp a; simp [a, this]
    · have hne : u1 ≠ 0 := fun h => a (hz1.mpr h)
      have : u1 > 0 := by omega
      simp [a, this]
  rw [e0, e1]

theorem concat_special (c0 s0 bit : Nat) (hc0 : c0 < 5) (h3 : c0 ≥ 3) (hs0 : s0 < 2 ^ cS c0) (hbit : bit < 2) :
    vlcConcat [(cPre c0, cP c0), (bit, 1), (s0, cS c0)] = (cPre c0 + bit * 8 + s0 * 16, 4 + cS c0) := by
  have h0 : c0 = 3 ∨ c0 = 4 := by omega
  rcases h0 with rfl | rfl <;> simp [vlcConcat, cPre, cP, cS] at hs0 ⊢ <;> omega

theorem uvlc_initial_roundtrip' (u0 u1 rest : Nat) (h0 : u0 ≤ 32) (h1 : u1 ≤ 32) :
    decodeUVLC true (uvlcMode true u0 u1)
      ((encodeInitialUVLC u0 u1).1 + rest * 2 ^ (encodeInitialUVLC u0 u1).2) =
      (u0, u1, (encodeInitialUVLC u0 u1).2) := by
  by_cases hboth : u0 > 2 ∧ u1 > 2
  · -- both above 2: MEL event 1, codes of u-2
    obtain ⟨c0, s0, hc0, hs0, hu0, hz0, _, hcode0⟩ := code_of (u0 - 2) (by omega)
    obtain ⟨c1, s1, hc1, hs1, hu1, hz1, _, hcode1⟩ := code_of (u1 - 2) (by omega)
    have henc : encodeInitialUVLC u0 u1 = (pairWindow c0 c1 s0 s1 0, cP c0 + cP c1 + cS c0 + cS c1) := by
      unfold encodeInitialUVLC
      simp only [hboth, and_self, if_true, hcode0, hcode1]
      exact concat_form c0 c1 s0 s1 hc0 hc1 hs0 hs1
    have hmode : uvlcMode true u0 u1 = 256 := by
      unfold uvlcMode
      have a : u0 > 0 := by omega
      have b : u1 > 0 := by omega
      simp [a, b, hboth]
    have n0 : c0 ≠ 0 := fun h => by have := hz0.mp h; omega
    have n1 : c1 ≠ 0 := fun h => by have := hz1.mp h; omega
    rw [henc, hmode, pairWindow_rest, initial_core_mel c0 c1 s0 s1 rest hc0 hc1 hs0 hs1 n0 n1]
    simp only [Prod.mk.injEq, and_true]; omega
  · by_cases hspec : u0 > 2 ∧ u1 > 0
    · -- u0 > 2, u1 ∈ {1,2}: one bit for u1 between prefix and suffix of u0
      obtain ⟨c0, s0, hc0, hs0, hu0, _, h30, hcode0⟩ := code_of u0 h0
      have h3 : c0 ≥ 3 := h30.mpr hspec.1
      have hbit : u1 - 1 < 2 := by omega
      have henc : encodeInitialUVLC u0 u1 = (cPre c0 + (u1 - 1) * 8 + s0 * 16, 4 + cS c0) := by
        have hu12 : ¬ u1 > 2 := fun h => hboth ⟨hspec.1, h⟩
        unfold encodeInitialUVLC
        simp only [hspec, hu12, and_false, and_self, if_false, if_true, hcode0]
        exact concat_special c0 s0 (u1 - 1) hc0 h3 hs0 hbit
      have hmode : uvlcMode true u0 u1 = 192 := by
        unfold uvlcMode
        have a : u0 > 0 := by omega
        simp [a, hspec.2, hboth]
      rw [henc, hmode, initial_core_special c0 s0 (u1 - 1) rest hc0 h3 hs0 hbit]
      simp only [Prod.mk.injEq, and_true]; omega
    · -- general: prefixes then suffixes
      obtain ⟨c0, s0, hc0, hs0, hu0, hz0, h30, hcode0⟩ := code_of u0 h0
      obtain ⟨c1, s1, hc1, hs1, hu1, hz1, _, hcode1⟩ := code_of u1 h1
      have henc : encodeInitialUVLC u0 u1 = (pairWindow c0 c1 s0 s1 0, cP c0 + cP c1 + cS c0 + cS c1) := by
        unfold encodeInitialUVLC
        simp only [hboth, if_false, hspec, hcode0, hcode1]
        exact concat_form c0 c1 s0 s1 hc0 hc1 hs0 hs1
      have hmode : uvlcMode true u0 u1 = (if c0 = 0 then 0 else 64) + (if c1 = 0 then 0 else 128) := by
        unfold uvlcMode
        rw [mode_flags u0 u1 c0 c1 hz0 hz1]
        simp [hboth]
      have hn : ¬ (c0 ≥ 3 ∧ c1 ≥ 1) := by
        intro ⟨a, b⟩
        have : u0 > 2 := h30.mp a
        have : u1 ≠ 0 := fun h => by have := hz1.mpr h; omega
        exact hspec ⟨by omega, by omega⟩
      rw [henc, hmode, pairWindow_rest, initial_core_general c0 c1 s0 s1 rest hc0 hc1 hs0 hs1 hn, hu0, hu1]

/-! ## HT packet header bands -/

def HtBand.bits : HtBand → List Bool
  | .absent => []
  | .empty => [false]
  | .coded body => body

def HtBand.isCoded : HtBand → Bool
  | .coded _ => true
  | _ => false

def bandsBits (bands : List HtBand) : List Bool := (bands.map HtBand.bits).flatten

theorem foldl_coded (bands : List HtBand) : ∀ (out : List Bool) (sk : Nat),
    (bands.foldl HtHdrSt.band ⟨out, true, sk⟩).coded = true ∧
    (bands.foldl HtHdrSt.band ⟨out, true, sk⟩).out = out ++ bandsBits bands := by
  induction bands with
  | nil => intro out sk; simp [bandsBits]
  | cons b bs ih =>
    intro out sk
    cases b with
    | absent => simpa [HtHdrSt.band, bandsBits, HtBand.bits] using ih out sk
    | empty =>
      have := ih (out ++ [false]) sk
      simpa [HtHdrSt.band, bandsBits, HtBand.bits, List.append_assoc] using this
    | coded body =>
      have := ih (out ++ body) sk
      simpa [HtHdrSt.band, bandsBits, HtBand.bits, List.append_assoc] using this

theorem foldl_uncoded (bands : List HtBand) : ∀ (sk : Nat),
    if bands.any HtBand.isCoded then
      (bands.foldl HtHdrSt.band ⟨[], false, sk⟩).coded = true ∧
      (bands.foldl HtHdrSt.band ⟨[], false, sk⟩).out = true :: (List.replicate sk false ++ bandsBits bands)
    else (bands.foldl HtHdrSt.band ⟨[], false, sk⟩).coded = false ∧
      (bands.foldl HtHdrSt.band ⟨[], false, sk⟩).out = [] := by
  induction bands with
  | nil => intro sk; simp
  | cons b bs ih =>
    intro sk
    cases b with
    | absent => simpa [HtHdrSt.band, bandsBits, HtBand.bits, HtBand.isCoded] using ih sk
    | empty =>
      have := ih (sk + 1)
      by_cases hc : bs.any HtBand.isCoded = true
      · simp only [hc, if_true] at this
        simp only [List.any_cons, HtBand.isCoded, Bool.false_or, hc, if_true, List.foldl_cons, HtHdrSt.band]
        simp only [Bool.false_eq_true, if_false]
        refine ⟨this.1, ?_⟩
        rw [this.2]
        simp [bandsBits, HtBand.bits, List.replicate_succ', List.append_assoc]
      · simp only [hc] at this
        simp only [List.any_cons, HtBand.isCoded, Bool.false_or, hc, List.foldl_cons, HtHdrSt.band]
        simpa using this
    | coded body =>
      have := foldl_coded bs ([] ++ [true] ++ List.replicate sk false ++ body) sk
      simp only [List.any_cons, HtBand.isCoded, Bool.true_or, if_true, List.foldl_cons, HtHdrSt.band]
      simp only [Bool.false_eq_true, if_false]
      refine ⟨this.1, ?_⟩
      rw [this.2]
      simp [bandsBits, HtBand.bits, List.append_assoc]

/-- what the header writer emits: `0` for a packet without any coded band, else `1` followed by the bands' bits in order,
    `0` for every band that has code-blocks but none coded — one bit PER such band, also before the first coded band -/
theorem encodeHtBands_eq (bands : List HtBand) :
    encodeHtBands bands = if bands.any HtBand.isCoded then true :: bandsBits bands else [false] := by
  unfold encodeHtBands
  have h := foldl_uncoded bands 0
  show (let st := bands.foldl HtHdrSt.band ⟨[], false, 0⟩; if st.coded then st.out else st.out ++ [false]) = _
  split at h
  · rename_i hc; simp [hc, h.1, h.2]
  · rename_i hc; simp [hc, h.1, h.2]

/-- a coded band's bits start with the root inclusion bit 1 (some block is included) and its remainder is
    self-delimiting for the band parser -/
def HtBand.WellFormed {α : Type} (parseTail : List Bool → Option (α × List Bool)) (info : List Bool → α) : HtBand → Prop
  | .coded body => ∃ tail, body = true :: tail ∧ ∀ rest, parseTail (tail ++ rest) = some (info tail, rest)
  | _ => True

def HtBand.present : HtBand → Bool
  | .absent => false
  | _ => true

def HtBand.result {α : Type} (info : List Bool → α) : HtBand → Option (Option α)
  | .absent => none
  | .empty => some none
  | .coded body => some (some (info body.tail))

theorem decodeAux_bands {α : Type} (parseTail : List Bool → Option (α × List Bool)) (info : List Bool → α)
    (bands : List HtBand) (hwf : ∀ b ∈ bands, b.WellFormed parseTail info) (rest : List Bool) :
    decodeHtBandsAux parseTail (bands.map HtBand.present) (bandsBits bands ++ rest) =
      some (bands.map (HtBand.result info), rest) := by
  induction bands with
  | nil => simp [decodeHtBandsAux, bandsBits]
  | cons b bs ih =>
    have ih' := ih (fun x hx => hwf x (List.mem_cons_of_mem _ hx))
    cases b with
    | absent =>
      simp only [List.map_cons, HtBand.present, decodeHtBandsAux, HtBand.result]
      have : bandsBits (HtBand.absent :: bs) = bandsBits bs := by simp [bandsBits, HtBand.bits]
      rw [this, ih']; rfl
    | empty =>
      have : bandsBits (HtBand.empty :: bs) ++ rest = false :: (bandsBits bs ++ rest) := by
        simp [bandsBits, HtBand.bits]
      simp only [List.map_cons, HtBand.present, HtBand.result]
      rw [this, decodeHtBandsAux, ih']; rfl
    | coded body =>
      obtain ⟨tail, hb, hp⟩ := hwf (HtBand.coded body) (List.mem_cons_self)
      have : bandsBits (HtBand.coded body :: bs) ++ rest = true :: (tail ++ (bandsBits bs ++ rest)) := by
        simp [bandsBits, HtBand.bits, hb, List.append_assoc]
      simp only [List.map_cons, HtBand.present, HtBand.result]
      rw [this, decodeHtBandsAux, hp]
      simp only [ih', Option.map_some, hb, List.tail_cons]

/-- HT packet header round trip at band granularity, any pattern of absent / empty / coded bands -/
theorem ht_bands_roundtrip' {α : Type} (parseTail : List Bool → Option (α × List Bool)) (info : List Bool → α)
    (bands : List HtBand) (hwf : ∀ b ∈ bands, b.WellFormed parseTail info) (rest : List Bool) :
    decodeHtBands parseTail (bands.map HtBand.present) (encodeHtBands bands ++ rest) =
      some (bands.map (HtBand.result info), rest) := by
  rw [encodeHtBands_eq]
  by_cases hc : bands.any HtBand.isCoded = true
  · simp only [hc, if_true, List.cons_append, decodeHtBands]
    exact decodeAux_bands parseTail info bands hwf rest
  · have hc' : bands.any HtBand.isCoded = false := by simpa using hc
    simp only [hc', Bool.false_eq_true, if_false, List.cons_append, List.nil_append, decodeHtBands]
    congr 2
    rw [List.map_map]
    apply List.map_congr_left
    intro b hb
    cases b with
    | absent => rfl
    | empty => rfl
    | coded body =>
      exfalso; apply hc
      exact List.any_eq_true.mpr ⟨_, hb, rfl⟩

/-! ## U_q range -/

theorem bitLen_le (x k : Nat) (h : x < 2 ^ k) : bitLen x ≤ k := by
  unfold bitLen
  by_cases hx : x = 0
  · simp [hx]
  · simp only [hx, if_false]
    have := (Nat.log2_lt hx).mpr h
    omega

theorem bitLen_eq (x k : Nat) (h1 : 2 ^ k ≤ x) (h2 : x < 2 ^ (k + 1)) : bitLen x = k + 1 := by
  have hx : x ≠ 0 := by have := Nat.two_pow_pos k; omega
  unfold bitLen
  simp only [hx, if_false]
  rw [(Nat.log2_eq_iff hx).mpr ⟨h1, h2⟩]

/-- the cleanup encoder sees twice the magnitude: `((t+t) >> p) &^ 1 = 2·|v|` for a word built with the same Kmax -/
theorem sampleVal_signMag (kmax : Nat) (hk : 1 ≤ kmax ∧ kmax ≤ 30) (v : Int) (hv : v.natAbs < 2 ^ kmax) :
    sampleVal kmax (toSignMag kmax v) = 2 * v.natAbs := by
  have hpow : 2 ^ kmax * 2 ^ (31 - kmax) = 2 ^ 31 := by rw [← Nat.pow_add]; congr 1; omega
  have hpos : 0 < 2 ^ (31 - kmax) := Nat.two_pow_pos _
  have hlt : v.natAbs * 2 ^ (31 - kmax) < 2 ^ 31 := by
    rw [← hpow]; exact Nat.mul_lt_mul_of_pos_right hv hpos
  have hval : v.natAbs * 2 ^ (31 - kmax) % 2 ^ 32 = v.natAbs * 2 ^ (31 - kmax) :=
    Nat.mod_eq_of_lt (by have : (2 : Nat) ^ 31 < 2 ^ 32 := by decide
                         omega)
  have key : ∀ s : Nat, (s = 0 ∨ s = 2 ^ 31) →
      2 * (s + v.natAbs * 2 ^ (31 - kmax)) % 2 ^ 32 = 2 * v.natAbs * 2 ^ (31 - kmax) := by
    intro s hs
    have e : 2 * v.natAbs * 2 ^ (31 - kmax) = 2 * (v.natAbs * 2 ^ (31 - kmax)) := Nat.mul_assoc _ _ _
    rw [e]
    have h32 : (2 : Nat) ^ 32 = 2 * 2 ^ 31 := by decide
    rcases hs with rfl | rfl <;> omega
  unfold sampleVal toSignMag
  simp only [hval]
  by_cases hneg : v < 0
  · simp only [hneg, if_true]
    have hor : 2 ^ 31 ||| v.natAbs * 2 ^ (31 - kmax) = 2 ^ 31 + v.natAbs * 2 ^ (31 - kmax) := by
      have := Nat.two_pow_add_eq_or_of_lt hlt 1
      rw [Nat.mul_one] at this
      exact this.symm
    rw [hor, key _ (Or.inr rfl), Nat.mul_div_cancel _ hpos]
    omega
  · simp only [hneg, if_false, Nat.zero_or]
    have := key 0 (Or.inl rfl)
    rw [Nat.zero_add] at this
    rw [this, Nat.mul_div_cancel _ hpos]
    omega

/-- exponent of a significant coefficient: between 1 and Kmax+1 -/
theorem sampleEQ_range (kmax : Nat) (hk : 1 ≤ kmax ∧ kmax ≤ 30) (v : Int) (hv : v.natAbs < 2 ^ kmax) :
    sampleEQ kmax (toSignMag kmax v) ≤ kmax + 1 ∧ (v ≠ 0 → 1 ≤ sampleEQ kmax (toSignMag kmax v)) ∧
    (v = 0 → sampleEQ kmax (toSignMag kmax v) = 0) := by
  unfold sampleEQ
  rw [sampleVal_signMag kmax hk v hv]
  refine ⟨?_, ?_, ?_⟩
  · by_cases h0 : 2 * v.natAbs = 0
    · simp [h0]
    · simp only [h0, if_false]
      apply bitLen_le
      rw [Nat.pow_succ]; omega
  · intro hne
    have : v.natAbs ≠ 0 := by omega
    have h0 : 2 * v.natAbs ≠ 0 := by omega
    simp only [h0, if_false]
    unfold bitLen
    have : 2 * v.natAbs - 1 ≠ 0 := by omega
    simp [this]
  · intro h; simp [h]

/-- every exponent 1..Kmax+1 is produced by some admissible coefficient (Kmax ≥ 2): the range is exact -/
theorem sampleEQ_onto (kmax e : Nat) (hk : 2 ≤ kmax ∧ kmax ≤ 30) (he : 1 ≤ e ∧ e ≤ kmax + 1) :
    ∃ v : Int, v.natAbs < 2 ^ kmax ∧ sampleEQ kmax (toSignMag kmax v) = e := by
  by_cases h1 : e = 1
  · refine ⟨1, ?_, ?_⟩
    · have : 2 ^ 1 ≤ 2 ^ kmax := Nat.pow_le_pow_right (by omega) (by omega)
      simpa using (by omega : 1 < 2 ^ kmax)
    · unfold sampleEQ
      rw [sampleVal_signMag kmax ⟨by omega, hk.2⟩ 1 (by
        have : 2 ^ 1 ≤ 2 ^ kmax := Nat.pow_le_pow_right (by omega) (by omega)
        simpa using (by omega : 1 < 2 ^ kmax))]
      subst h1; decide
  · obtain ⟨j, hj⟩ : ∃ j, e = j + 2 := ⟨e - 2, by omega⟩
    have hjk : j + 1 ≤ kmax := by omega
    have hp1 : 2 ^ (j + 1) ≤ 2 ^ kmax := Nat.pow_le_pow_right (by omega) hjk
    have hp2 : 2 ^ (j + 1) = 2 * 2 ^ j := by rw [Nat.pow_succ]; omega
    have hjpos : 0 < 2 ^ j := Nat.two_pow_pos j
    have hlt : ((2 ^ j + 1 : Nat) : Int).natAbs < 2 ^ kmax := by
      simp only [Int.natAbs_natCast]
      by_cases hj0 : j = 0
      · subst hj0
        have : 2 ^ 2 ≤ 2 ^ kmax := Nat.pow_le_pow_right (by omega) (by omega)
        simp at this ⊢; omega
      · have : 2 ≤ 2 ^ j := by
          have := Nat.pow_le_pow_right (n := 2) (by omega) (by omega : 1 ≤ j)
          simpa using this
        omega
    refine ⟨((2 ^ j + 1 : Nat) : Int), hlt, ?_⟩
    unfold sampleEQ
    rw [sampleVal_signMag kmax ⟨by omega, hk.2⟩ _ hlt]
    simp only [Int.natAbs_natCast]
    have h0 : 2 * (2 ^ j + 1) ≠ 0 := by omega
    simp only [h0, if_false]
    rw [hj]
    apply bitLen_eq
    · omega
    · rw [Nat.pow_succ, hp2]; omega

theorem uqLater_range (kmax eQMax e0 e1 : Nat) (two : Bool) (hq : eQMax ≤ kmax + 1) (h0 : e0 ≤ kmax + 1) (h1 : e1 ≤ kmax + 1) :
    1 ≤ uqLater eQMax two e0 e1 ∧ uqLater eQMax two e0 e1 ≤ kmax + 1 := by
  unfold uqLater
  cases two <;> simp <;> omega

/-! ## LSB-first bit lists -/

/-- the `n` low bits of `v`, least significant first -/
def bitsLSB : Nat → Nat → List Bool
  | 0, _ => []
  | n + 1, v => decide (v % 2 = 1) :: bitsLSB n (v / 2)

def valLSB : List Bool → Nat
  | [] => 0
  | b :: l => b.toNat + 2 * valLSB l

theorem bitsLSB_length (n v : Nat) : (bitsLSB n v).length = n := by
  induction n generalizing v with
  | zero => rfl
  | succ n ih => simp [bitsLSB, ih]

theorem valLSB_bitsLSB (n : Nat) : ∀ v, valLSB (bitsLSB n v) = v % 2 ^ n := by
  induction n with
  | zero => intro v; simp [bitsLSB, valLSB, Nat.mod_one]
  | succ n ih =>
    intro v
    simp only [bitsLSB, valLSB, ih]
    rw [Nat.pow_succ', Nat.mod_mul]
    have : (decide (v % 2 = 1)).toNat = v % 2 := by
      have := Nat.mod_lt v (by decide : 2 > 0)
      by_cases h : v % 2 = 1
      · simp [h]
      · have : v % 2 = 0 := by omega
        simp [this]
    rw [this]

theorem bitsLSB_add (a : Nat) : ∀ (b v : Nat), bitsLSB (a + b) v = bitsLSB a v ++ bitsLSB b (v / 2 ^ a) := by
  induction a with
  | zero => intro b v; simp [bitsLSB]
  | succ a ih =>
    intro b v
    rw [show a + 1 + b = (a + b) + 1 by omega]
    simp only [bitsLSB, ih, List.cons_append]
    rw [Nat.div_div_eq_div_mul, Nat.pow_succ']

theorem bitsLSB_mod (n : Nat) : ∀ v, bitsLSB n (v % 2 ^ n) = bitsLSB n v := by
  induction n with
  | zero => intro v; rfl
  | succ n ih =>
    intro v
    simp only [bitsLSB]
    have h1 : v % 2 ^ (n + 1) % 2 = v % 2 := by
      rw [Nat.pow_succ', Nat.mod_mul]; omega
    have h2 : v % 2 ^ (n + 1) / 2 = v / 2 % 2 ^ n := by
      rw [Nat.pow_succ', Nat.mod_mul]
      have := Nat.mod_lt v (by decide : 2 > 0)
      omega
    rw [h1, h2, ih]

theorem bitsLSB_concat (a : Nat) : ∀ (b v w : Nat), v < 2 ^ a →
    bitsLSB (a + b) (v + w * 2 ^ a) = bitsLSB a v ++ bitsLSB b w := by
  intro b v w hv
  rw [bitsLSB_add]
  have hp : 0 < 2 ^ a := Nat.two_pow_pos a
  have h1 : (v + w * 2 ^ a) / 2 ^ a = w := by
    rw [Nat.add_mul_div_right _ _ hp, Nat.div_eq_of_lt hv, Nat.zero_add]
  have h2 : bitsLSB a (v + w * 2 ^ a) = bitsLSB a v := by
    rw [← bitsLSB_mod a (v + w * 2 ^ a), Nat.add_mul_mod_self_right, Nat.mod_eq_of_lt hv]
  rw [h1, h2]

theorem bitsLSB_ones (t : Nat) : bitsLSB t (2 ^ t - 1) = List.replicate t true := by
  induction t with
  | zero => rfl
  | succ t ih =>
    have hp : 0 < 2 ^ t := Nat.two_pow_pos t
    have e : 2 ^ (t + 1) - 1 = 1 + (2 ^ t - 1) * 2 := by rw [Nat.pow_succ]; omega
    simp only [bitsLSB, List.replicate_succ]
    have h1 : (2 ^ (t + 1) - 1) % 2 = 1 := by rw [e]; omega
    have h2 : (2 ^ (t + 1) - 1) / 2 = 2 ^ t - 1 := by rw [e]; omega
    rw [h1, h2, ih]; rfl

/-- stream reading with implicit all-ones continuation (the MagSgn decoder feeds 0xFF beyond the data) -/
def sbit (l : List Bool) (i : Nat) : Bool := l.getD i true


/-! ## MagSgn writer lemmas -/

/-- 7 low bits of a byte after 0xFF, 8 otherwise, least significant first -/
def unpackL : Bool → List Nat → List Bool
  | _, [] => []
  | ff, x :: xs => (if ff then bitsLSB 7 x else bitsLSB 8 x) ++ unpackL (decide (x = 255)) xs

theorem unpackL_snoc (ff : Bool) (a : List Nat) (x : Nat) :
    unpackL ff (a ++ [x]) = unpackL ff a ++ (if lastFF ff a then bitsLSB 7 x else bitsLSB 8 x) := by
  induction a generalizing ff with
  | nil => cases ff <;> simp [unpackL, lastFF]
  | cons y ys ih => rw [List.cons_append, unpackL, unpackL, ih, lastFF, List.append_assoc]

def MsWriter.view (m : MsWriter) : List Bool := unpackL false m.buf ++ bitsLSB m.usedBits m.tmp

structure MsWriter.Inv (m : MsWriter) : Prop where
  used : m.usedBits < m.maxBits
  tmp : m.tmp < 2 ^ m.usedBits
  maxb : m.maxBits = if lastFF false m.buf then 7 else 8
  stuffed : Stuffed false m.buf
  bytes : ∀ x ∈ m.buf, x < 256

theorem msw_loop (f : Nat) : ∀ (m : MsWriter) (cwd len : Nat), m.Inv → len ≤ f →
    (MsWriter.encodeLoop f m cwd len).Inv ∧
    (MsWriter.encodeLoop f m cwd len).view = m.view ++ bitsLSB len cwd := by
  induction f with
  | zero =>
    intro m cwd len hi hl
    have : len = 0 := by omega
    subst this
    simp [MsWriter.encodeLoop, hi, bitsLSB]
  | succ f ih =>
    intro m cwd len hi hl
    unfold MsWriter.encodeLoop
    by_cases h0 : len = 0
    · subst h0; simp [hi, bitsLSB]
    · simp only [h0, if_false]
      have hmax8 : m.maxBits ≤ 8 := by rw [hi.maxb]; split <;> omega
      have ht1 : 1 ≤ min (m.maxBits - m.usedBits) len := by have := hi.used; omega
      have htl : min (m.maxBits - m.usedBits) len ≤ len := Nat.min_le_right _ _
      generalize ht : min (m.maxBits - m.usedBits) len = t at ht1 htl
      have htm : m.usedBits + t ≤ m.maxBits := by have := Nat.min_le_left (m.maxBits - m.usedBits) len; omega
      -- the register after OR-ing the chunk in
      have hx : cwd % 2 ^ t < 2 ^ t := Nat.mod_lt _ (Nat.two_pow_pos t)
      have hreg : bitsLSB (m.usedBits + t) (m.tmp + cwd % 2 ^ t * 2 ^ m.usedBits) =
          bitsLSB m.usedBits m.tmp ++ bitsLSB t cwd := by
        rw [bitsLSB_concat _ _ _ _ hi.tmp, bitsLSB_mod]
      have hlt : m.tmp + cwd % 2 ^ t * 2 ^ m.usedBits < 2 ^ (m.usedBits + t) := by
        rw [Nat.pow_add]
        have h1 : cwd % 2 ^ t * 2 ^ m.usedBits ≤ (2 ^ t - 1) * 2 ^ m.usedBits :=
          Nat.mul_le_mul_right _ (by omega)
        have h2 : (2 ^ t - 1) * 2 ^ m.usedBits = 2 ^ t * 2 ^ m.usedBits - 2 ^ m.usedBits := by
          rw [Nat.sub_mul, Nat.one_mul]
        have h3 : 2 ^ m.usedBits ≤ 2 ^ t * 2 ^ m.usedBits :=
          Nat.le_mul_of_pos_left _ (Nat.two_pow_pos t)
        have := hi.tmp
        rw [Nat.mul_comm (2 ^ m.usedBits) (2 ^ t)]
        omega
      have hsplit : bitsLSB len cwd = bitsLSB t cwd ++ bitsLSB (len - t) (cwd / 2 ^ t) := by
        rw [← bitsLSB_add]; congr 1; omega
      by_cases hfull : m.usedBits + t ≥ m.maxBits
      · have hfull' : m.usedBits + t = m.maxBits := by omega
        simp only [hfull, if_true]
        have hb256 : m.tmp + cwd % 2 ^ t * 2 ^ m.usedBits < 256 := by
          have : 2 ^ (m.usedBits + t) ≤ 2 ^ 8 := Nat.pow_le_pow_right (by omega) (by omega)
          omega
        rw [Nat.mod_eq_of_lt hb256]
        generalize hB : m.tmp + cwd % 2 ^ t * 2 ^ m.usedBits = B at *
        have hinv' : MsWriter.Inv { buf := m.buf ++ [B], maxBits := if B = 255 then 7 else 8, usedBits := 0, tmp := 0 } := by
          refine ⟨by show 0 < (if B = 255 then 7 else 8); split <;> omega, by simp, ?_, ?_, ?_⟩
          · show (if B = 255 then 7 else 8) = if lastFF false (m.buf ++ [B]) then 7 else 8
            rw [lastFF_snoc]; by_cases hb : B = 255 <;> simp [hb]
          · apply stuffed_snoc _ _ _ hi.stuffed
            intro hff
            have : m.maxBits = 7 := by rw [hi.maxb, hff]; rfl
            have : 2 ^ (m.usedBits + t) = 128 := by rw [hfull', this]
            omega
          · intro x hx
            rcases List.mem_append.mp hx with h | h
            · exact hi.bytes x h
            · have : x = B := by simpa using h
              omega
        obtain ⟨i1, i2⟩ := ih _ (cwd / 2 ^ t) (len - t) hinv' (by omega)
        refine ⟨i1, ?_⟩
        rw [i2, hsplit]
        simp only [MsWriter.view, bitsLSB, List.append_nil]
        rw [unpackL_snoc]
        have hmid : (if lastFF false m.buf = true then bitsLSB 7 B else bitsLSB 8 B) =
            bitsLSB m.usedBits m.tmp ++ bitsLSB t cwd := by
          rw [← hreg, hfull', hi.maxb]
          by_cases hff : lastFF false m.buf = true <;> simp [hff]
        rw [hmid]
        simp only [List.append_assoc]
      · simp only [hfull, if_false]
        have hinv' : MsWriter.Inv { m with tmp := m.tmp + cwd % 2 ^ t * 2 ^ m.usedBits, usedBits := m.usedBits + t } :=
          ⟨by show m.usedBits + t < m.maxBits; omega, hlt, hi.maxb, hi.stuffed, hi.bytes⟩
        obtain ⟨i1, i2⟩ := ih _ (cwd / 2 ^ t) (len - t) hinv' (by omega)
        refine ⟨i1, ?_⟩
        rw [i2, hsplit]
        simp only [MsWriter.view]
        rw [hreg]
        simp [List.append_assoc]

theorem sbit_append_ones (l : List Bool) (n i : Nat) : sbit (l ++ List.replicate n true) i = sbit l i := by
  unfold sbit
  by_cases h : i < l.length
  · simp [List.getD_eq_getElem?_getD, List.getElem?_append_left h]
  · have h' : l.length ≤ i := by omega
    rw [List.getD_eq_getElem?_getD, List.getD_eq_getElem?_getD, List.getElem?_append_right h',
      List.getElem?_eq_none h']
    by_cases h2 : i - l.length < n
    · simp [h2]
    · simp [h2]

theorem stuffed_snoc_inv (ff : Bool) (a : List Nat) (x : Nat) (h : Stuffed ff (a ++ [x])) (hl : lastFF ff a = true) :
    x < 128 := by
  induction a generalizing ff with
  | nil => exact h.1 hl
  | cons y ys ih => exact ih _ h.2 hl

/-- what the MagSgn decoder sees in the terminated bytes is the written bit stream continued by 1s -/
theorem msw_terminate (m : MsWriter) (hi : m.Inv) (i : Nat) :
    sbit (unpackL false m.terminate) i = sbit m.view i := by
  have hmax8 : m.maxBits ≤ 8 := by rw [hi.maxb]; split <;> omega
  unfold MsWriter.terminate
  by_cases hu : m.usedBits = 0
  · simp only [hu, ne_eq, not_true_eq_false, if_false]
    have hv : m.view = unpackL false m.buf := by simp [MsWriter.view, hu, bitsLSB]
    by_cases h7 : m.maxBits = 7 ∧ m.buf.length > 0
    · simp only [h7, and_self, if_true]
      -- the last byte is 0xFF, written with 8 bits
      have hff : lastFF false m.buf = true := by
        have := hi.maxb; rw [h7.1] at this
        by_cases hf : lastFF false m.buf = true
        · exact hf
        · simp [hf] at this
      obtain ⟨a, x, hax⟩ : ∃ a x, m.buf = a ++ [x] := by
        have hne : m.buf ≠ [] := by intro h; rw [h] at h7; simp at h7
        exact ⟨m.buf.dropLast, m.buf.getLast hne, (List.dropLast_concat_getLast hne).symm⟩
      rw [hax, lastFF_snoc] at hff
      have hx : x = 255 := by simpa using hff
      subst hx
      have hst := hi.stuffed
      rw [hax] at hst
      have hla : lastFF false a = false := by
        by_cases hl : lastFF false a = true
        · have := stuffed_snoc_inv false a 255 hst hl; omega
        · simpa using hl
      rw [hv, hax, List.dropLast_concat, unpackL_snoc, hla]
      have : bitsLSB 8 255 = List.replicate 8 true := by decide
      simp only [Bool.false_eq_true, if_false, this]
      rw [sbit_append_ones]
    · simp only [h7, if_false]; rw [hv]
  · simp only [hu, ne_eq, not_false_eq_true, if_true]
    have hused := hi.used
    generalize ht : m.maxBits - m.usedBits = t
    have htpos : 1 ≤ t := by omega
    have ht8 : t ≤ 8 := by omega
    have hones : (2 ^ t - 1) % 256 = 2 ^ t - 1 := by
      apply Nat.mod_eq_of_lt
      have : 2 ^ t ≤ 2 ^ 8 := Nat.pow_le_pow_right (by omega) ht8
      have := Nat.two_pow_pos t
      omega
    rw [hones]
    have hreg : bitsLSB m.maxBits (m.tmp + (2 ^ t - 1) * 2 ^ m.usedBits) =
        bitsLSB m.usedBits m.tmp ++ List.replicate t true := by
      have : m.maxBits = m.usedBits + t := by omega
      rw [this, bitsLSB_concat _ _ _ _ hi.tmp, bitsLSB_ones]
    have hlt : m.tmp + (2 ^ t - 1) * 2 ^ m.usedBits < 2 ^ m.maxBits := by
      have e : m.maxBits = m.usedBits + t := by omega
      rw [e, Nat.pow_add, Nat.sub_mul, Nat.one_mul, Nat.mul_comm (2 ^ t)]
      have h3 : 2 ^ m.usedBits ≤ 2 ^ m.usedBits * 2 ^ t := Nat.le_mul_of_pos_right _ (Nat.two_pow_pos t)
      have := hi.tmp
      omega
    have hb256 : m.tmp + (2 ^ t - 1) * 2 ^ m.usedBits < 256 := by
      have : 2 ^ m.maxBits ≤ 2 ^ 8 := Nat.pow_le_pow_right (by omega) hmax8
      omega
    rw [Nat.mod_eq_of_lt hb256]
    generalize hB : m.tmp + (2 ^ t - 1) * 2 ^ m.usedBits = B at *
    by_cases h255 : B = 255
    · -- dropped: the open byte was all ones, written with 8 bits
      simp only [h255, ne_eq, not_true_eq_false, if_false]
      have hm8 : m.maxBits = 8 := by
        by_cases h : m.maxBits = 8
        · exact h
        · have : m.maxBits ≤ 7 := by omega
          have : 2 ^ m.maxBits ≤ 2 ^ 7 := Nat.pow_le_pow_right (by omega) this
          omega
      rw [hm8, h255] at hreg
      have h8 : bitsLSB 8 255 = List.replicate 8 true := by decide
      rw [h8] at hreg
      -- so the pending bits are all ones
      have hpend : bitsLSB m.usedBits m.tmp = List.replicate m.usedBits true := by
        have hlen : (bitsLSB m.usedBits m.tmp).length = m.usedBits := bitsLSB_length _ _
        have := congrArg (List.take m.usedBits) hreg
        rw [List.take_left' hlen] at this
        rw [← this, List.take_replicate]
        congr 1; omega
      simp only [MsWriter.view, hpend]
      rw [sbit_append_ones]
    · simp only [h255, ne_eq, not_false_eq_true, if_true]
      rw [unpackL_snoc]
      have hmid : (if lastFF false m.buf = true then bitsLSB 7 B else bitsLSB 8 B) = bitsLSB m.maxBits B := by
        rw [hi.maxb]; by_cases hff : lastFF false m.buf = true <;> simp [hff]
      rw [hmid, hreg, ← List.append_assoc]
      show sbit (m.view ++ _) i = _
      rw [sbit_append_ones]


/-! ## MagSgn reader lemmas and round trip -/

def MsReader.view (r : MsReader) : List Bool :=
  bitsLSB r.bitCount r.bitBuffer ++ unpackL (decide (r.lastByte = 255)) r.rest

def MsReader.Inv (r : MsReader) : Prop := r.bitBuffer < 2 ^ r.bitCount ∧ ∀ x ∈ r.rest, x < 256

theorem lt_pow_add (buf cnt x k : Nat) (hb : buf < 2 ^ cnt) (hx : x < 2 ^ k) : buf + x * 2 ^ cnt < 2 ^ (cnt + k) := by
  rw [Nat.pow_add]
  have h1 : x * 2 ^ cnt ≤ (2 ^ k - 1) * 2 ^ cnt := Nat.mul_le_mul_right _ (by omega)
  rw [Nat.sub_mul, Nat.one_mul] at h1
  have h3 : 2 ^ cnt ≤ 2 ^ k * 2 ^ cnt := Nat.le_mul_of_pos_left _ (Nat.two_pow_pos k)
  rw [Nat.mul_comm (2 ^ cnt) (2 ^ k)]
  omega

theorem msr_fill (n : Nat) (rest : List Nat) : ∀ (buf cnt last : Nat), buf < 2 ^ cnt → (∀ x ∈ rest, x < 256) →
    (MsReader.fill n rest buf cnt last).Inv ∧
    (MsReader.fill n rest buf cnt last).view = bitsLSB cnt buf ++ unpackL (decide (last = 255)) rest ∧
    ((MsReader.fill n rest buf cnt last).bitCount < n → (MsReader.fill n rest buf cnt last).rest = []) := by
  induction rest with
  | nil => intro buf cnt last hb _; exact ⟨⟨hb, by simp [MsReader.fill]⟩, rfl, fun _ => rfl⟩
  | cons b rest ih =>
    intro buf cnt last hb hr
    have hb256 : b < 256 := hr b (List.mem_cons_self)
    have hr' : ∀ x ∈ rest, x < 256 := fun x hx => hr x (List.mem_cons_of_mem _ hx)
    unfold MsReader.fill
    by_cases hc : cnt < n
    · simp only [hc, if_true]
      by_cases hl : last = 255
      · simp only [hl, if_true]
        have hx : b % 128 < 2 ^ 7 := Nat.mod_lt _ (by decide)
        obtain ⟨i1, i2, i3⟩ := ih (buf + b % 128 * 2 ^ cnt) (cnt + 7) b (lt_pow_add _ _ _ _ hb hx) hr'
        refine ⟨i1, ?_, i3⟩
        rw [i2, bitsLSB_concat _ _ _ _ hb]
        have : bitsLSB 7 (b % 128) = bitsLSB 7 b := bitsLSB_mod 7 b
        simp [unpackL, this, List.append_assoc]
      · simp only [hl, if_false]
        have hx : b < 2 ^ 8 := hb256
        obtain ⟨i1, i2, i3⟩ := ih (buf + b * 2 ^ cnt) (cnt + 8) b (lt_pow_add _ _ _ _ hb hx) hr'
        refine ⟨i1, ?_, i3⟩
        rw [i2, bitsLSB_concat _ _ _ _ hb]
        simp [unpackL, hl, List.append_assoc]
    · simp only [hc, if_false]
      exact ⟨⟨hb, hr⟩, rfl, fun h => by simp at h⟩

theorem msr_pad (f n : Nat) : ∀ (r : MsReader), r.Inv → r.rest = [] →
    (MsReader.pad f n r).Inv ∧ (∀ i, sbit (MsReader.pad f n r).view i = sbit r.view i) ∧
    (n ≤ r.bitCount + 7 * f → n ≤ (MsReader.pad f n r).bitCount) := by
  induction f with
  | zero => intro r hi _; exact ⟨hi, fun _ => rfl, fun h => by simpa [MsReader.pad] using h⟩
  | succ f ih =>
    intro r hi hr
    unfold MsReader.pad
    by_cases hc : r.bitCount < n
    · simp only [hc, if_true]
      by_cases hl : r.lastByte = 255
      · simp only [hl, if_true]
        have hinv : MsReader.Inv { r with bitBuffer := r.bitBuffer + 127 * 2 ^ r.bitCount, bitCount := r.bitCount + 7, lastByte := 255 } :=
          ⟨lt_pow_add _ _ _ 7 hi.1 (by decide), hi.2⟩
        obtain ⟨i1, i2, i3⟩ := ih _ hinv hr
        refine ⟨i1, ?_, fun h => i3 (by show n ≤ r.bitCount + 7 + 7 * f; omega)⟩
        intro i
        rw [i2 i]
        simp only [MsReader.view, hr, unpackL, List.append_nil]
        rw [bitsLSB_concat _ _ _ _ hi.1]
        have : bitsLSB 7 127 = List.replicate 7 true := by decide
        rw [this, sbit_append_ones]
      · simp only [hl, if_false]
        have hinv : MsReader.Inv { r with bitBuffer := r.bitBuffer + 255 * 2 ^ r.bitCount, bitCount := r.bitCount + 8, lastByte := 255 } :=
          ⟨lt_pow_add _ _ _ 8 hi.1 (by decide), hi.2⟩
        obtain ⟨i1, i2, i3⟩ := ih _ hinv hr
        refine ⟨i1, ?_, fun h => i3 (by show n ≤ r.bitCount + 8 + 7 * f; omega)⟩
        intro i
        rw [i2 i]
        simp only [MsReader.view, hr, unpackL, List.append_nil]
        rw [bitsLSB_concat _ _ _ _ hi.1]
        have : bitsLSB 8 255 = List.replicate 8 true := by decide
        rw [this, sbit_append_ones]
    · simp only [hc, if_false]
      exact ⟨hi, fun _ => by trivial, fun _ => by omega⟩

theorem sbit_append_left (p q : List Bool) (i : Nat) (h : i < p.length) : sbit (p ++ q) i = p[i] := by
  unfold sbit
  rw [List.getD_eq_getElem?_getD, List.getElem?_append_left h, List.getElem?_eq_getElem h]; rfl

theorem sbit_append_right (p q : List Bool) (i : Nat) : sbit (p ++ q) (p.length + i) = sbit q i := by
  unfold sbit
  rw [List.getD_eq_getElem?_getD, List.getD_eq_getElem?_getD, List.getElem?_append_right (by omega)]
  congr 2; omega

theorem msr_read (r : MsReader) (n : Nat) (hi : r.Inv) (hn : 1 ≤ n) (B S : List Bool) (hB : B.length = n)
    (hs : ∀ i, sbit r.view i = sbit (B ++ S) i) :
    (r.readBits n).1 = valLSB B ∧ (r.readBits n).2.2.Inv ∧ ∀ i, sbit (r.readBits n).2.2.view i = sbit S i := by
  have hn0 : n ≠ 0 := by omega
  obtain ⟨f1, f2, f3⟩ := msr_fill n r.rest r.bitBuffer r.bitCount r.lastByte hi.1 hi.2
  -- the state after both loops
  have key : ∃ r2 : MsReader, r2.Inv ∧ n ≤ r2.bitCount ∧ (∀ i, sbit r2.view i = sbit (B ++ S) i) ∧
      r.readBits n = (r2.bitBuffer % 2 ^ n, decide (¬ (MsReader.fill n r.rest r.bitBuffer r.bitCount r.lastByte).bitCount < n),
        { r2 with bitBuffer := r2.bitBuffer / 2 ^ n, bitCount := r2.bitCount - n }) := by
    by_cases hc : (MsReader.fill n r.rest r.bitBuffer r.bitCount r.lastByte).bitCount < n
    · obtain ⟨p1, p2, p3⟩ := msr_pad n n _ f1 (f3 hc)
      refine ⟨_, p1, p3 (by omega), ?_, ?_⟩
      · intro i; rw [p2 i, f2]; exact hs i
      · simp [MsReader.readBits, hn0, hc]
    · refine ⟨_, f1, by omega, ?_, ?_⟩
      · intro i; rw [f2]; exact hs i
      · simp [MsReader.readBits, hn0, hc]
  obtain ⟨r2, i1, i2, i3, i4⟩ := key
  rw [i4]
  have hsplit : bitsLSB r2.bitCount r2.bitBuffer =
      bitsLSB n r2.bitBuffer ++ bitsLSB (r2.bitCount - n) (r2.bitBuffer / 2 ^ n) := by
    rw [← bitsLSB_add]; congr 1; omega
  have hview : r2.view = bitsLSB n r2.bitBuffer ++
      (bitsLSB (r2.bitCount - n) (r2.bitBuffer / 2 ^ n) ++ unpackL (decide (r2.lastByte = 255)) r2.rest) := by
    simp only [MsReader.view, hsplit, List.append_assoc]
  have hlen : (bitsLSB n r2.bitBuffer).length = n := bitsLSB_length _ _
  have hpre : bitsLSB n r2.bitBuffer = B := by
    apply List.ext_getElem (by rw [hlen, hB])
    intro i h1 h2
    have a := i3 i
    rw [hview, sbit_append_left _ _ i h1, sbit_append_left _ _ i h2] at a
    exact a
  refine ⟨?_, ?_, ?_⟩
  · show r2.bitBuffer % 2 ^ n = valLSB B
    rw [← hpre, valLSB_bitsLSB]
  · refine ⟨?_, i1.2⟩
    show r2.bitBuffer / 2 ^ n < 2 ^ (r2.bitCount - n)
    apply Nat.div_lt_of_lt_mul
    rw [← Nat.pow_add, show n + (r2.bitCount - n) = r2.bitCount by omega]
    exact i1.1
  · intro i
    have a := i3 (n + i)
    rw [hview] at a
    have e1 : sbit (bitsLSB n r2.bitBuffer ++
        (bitsLSB (r2.bitCount - n) (r2.bitBuffer / 2 ^ n) ++ unpackL (decide (r2.lastByte = 255)) r2.rest)) (n + i) =
        sbit (bitsLSB (r2.bitCount - n) (r2.bitBuffer / 2 ^ n) ++ unpackL (decide (r2.lastByte = 255)) r2.rest) i := by
      have := sbit_append_right (bitsLSB n r2.bitBuffer)
        (bitsLSB (r2.bitCount - n) (r2.bitBuffer / 2 ^ n) ++ unpackL (decide (r2.lastByte = 255)) r2.rest) i
      rw [hlen] at this; exact this
    have e2 : sbit (B ++ S) (n + i) = sbit S i := by
      have := sbit_append_right B S i
      rw [hB] at this; exact this
    rw [e1, e2] at a
    exact a

/-- the written stream of a list of (codeword, length) pairs -/
def msBits : List (Nat × Nat) → List Bool
  | [] => []
  | (cwd, len) :: ws => bitsLSB len cwd ++ msBits ws

theorem msw_all (ws : List (Nat × Nat)) : ∀ (m : MsWriter), m.Inv →
    (m.encodeAll ws).Inv ∧ (m.encodeAll ws).view = m.view ++ msBits ws := by
  induction ws with
  | nil => intro m hi; exact ⟨hi, by simp [MsWriter.encodeAll, msBits]⟩
  | cons w ws ih =>
    intro m hi
    obtain ⟨cwd, len⟩ := w
    obtain ⟨a1, a2⟩ := msw_loop len m cwd len hi (Nat.le_refl _)
    obtain ⟨b1, b2⟩ := ih (m.encode cwd len) a1
    refine ⟨b1, ?_⟩
    show ((m.encode cwd len).encodeAll ws).view = _
    rw [b2]
    show (MsWriter.encodeLoop len m cwd len).view ++ _ = _
    rw [a2]; simp [msBits, List.append_assoc]

theorem msr_all (ws : List (Nat × Nat)) : ∀ (r : MsReader) (S : List Bool), r.Inv →
    (∀ w ∈ ws, 1 ≤ w.2) → (∀ i, sbit r.view i = sbit (msBits ws ++ S) i) →
    r.readAll (ws.map (·.2)) = ws.map (fun w => w.1 % 2 ^ w.2) := by
  induction ws with
  | nil => intro r S _ _ _; rfl
  | cons w ws ih =>
    intro r S hi hpos hs
    obtain ⟨cwd, len⟩ := w
    have hl : 1 ≤ len := hpos (cwd, len) (List.mem_cons_self)
    have hs' : ∀ i, sbit r.view i = sbit (bitsLSB len cwd ++ (msBits ws ++ S)) i := by
      intro i; rw [hs i]; simp [msBits, List.append_assoc]
    obtain ⟨v1, v2, v3⟩ := msr_read r len hi hl (bitsLSB len cwd) (msBits ws ++ S) (bitsLSB_length _ _) hs'
    simp only [List.map_cons, MsReader.readAll]
    rw [v1, valLSB_bitsLSB]
    congr 1
    exact ih _ S v2 (fun w hw => hpos w (List.mem_cons_of_mem _ hw)) v3

/-- MagSgn bit packing round trip: every codeword written by `ojphMSWriter.encode` (1 ≤ len) is read back by
    `MagSgnDecoder.readBits` with the same lengths, from the bytes `terminate` leaves -/
theorem magsgn_roundtrip' (ws : List (Nat × Nat)) (hpos : ∀ w ∈ ws, 1 ≤ w.2) :
    MsReader.readAll { rest := ((({} : MsWriter).encodeAll ws).terminate) } (ws.map (·.2)) =
      ws.map (fun w => w.1 % 2 ^ w.2) := by
  have hinv0 : ({} : MsWriter).Inv := ⟨by decide, by decide, by decide, trivial, by simp⟩
  obtain ⟨a1, a2⟩ := msw_all ws {} hinv0
  have hbytes : ∀ x ∈ (({} : MsWriter).encodeAll ws).terminate, x < 256 := by
    intro x hx
    generalize ({} : MsWriter).encodeAll ws = m at a1 hx
    unfold MsWriter.terminate at hx
    split at hx
    · simp only at hx
      split at hx
      · rcases List.mem_append.mp hx with h | h
        · exact a1.bytes x h
        · rw [List.mem_singleton] at h
          rw [h]; exact Nat.mod_lt _ (by decide)
      · exact a1.bytes x hx
    · split at hx
      · exact a1.bytes x (List.dropLast_subset _ hx)
      · exact a1.bytes x hx
  have hr0 : MsReader.Inv { rest := (({} : MsWriter).encodeAll ws).terminate } := ⟨Nat.one_pos, hbytes⟩
  apply msr_all ws _ [] hr0 hpos
  intro i
  show sbit (unpackL false _) i = _
  rw [msw_terminate _ a1 i, a2]
  simp [MsWriter.view, unpackL, bitsLSB]


/-! ## Fusion byte lemmas -/

theorem xor_eq_zero {a b : Nat} (h : a ^^^ b = 0) : a = b := by
  have : a ^^^ (a ^^^ b) = a ^^^ 0 := by rw [h]
  rw [← Nat.xor_assoc, Nat.xor_self, Nat.xor_zero, Nat.zero_xor] at this
  exact this.symm

/-- the fusion condition means: the shared byte agrees with the MEL register on MEL's bits and with the VLC register
    on VLC's bits — nothing either reader looks at is changed by sharing the byte -/
theorem fusion_condition (melTmp vlcTmp melMask vlcMask : Nat)
    (h : (((melTmp ||| vlcTmp) ^^^ melTmp) &&& melMask) ||| (((melTmp ||| vlcTmp) ^^^ vlcTmp) &&& vlcMask) = 0) :
    (melTmp ||| vlcTmp) &&& melMask = melTmp &&& melMask ∧ (melTmp ||| vlcTmp) &&& vlcMask = vlcTmp &&& vlcMask := by
  obtain ⟨h1, h2⟩ := Nat.or_eq_zero_iff.mp h
  rw [Nat.and_xor_distrib_right] at h1 h2
  exact ⟨xor_eq_zero h1, xor_eq_zero h2⟩

/-- the suffix always holds at least the two bytes the Scup locator is written into, given the VLC writer's own
    invariant (it starts as `[0xFF]` with 4 used bits; `usedBits = 0` only right after a byte was appended) -/
theorem scup_at_least_two (pk : MelPacker) (vlcBuf : List Nat) (vlcTmp vlcUsed : Nat)
    (hbuf : 1 ≤ vlcBuf.length) (hinv : vlcUsed = 0 → 2 ≤ vlcBuf.length) (hu : vlcUsed ≤ 8) :
    2 ≤ scupOf (terminateMelVlc pk vlcBuf vlcTmp vlcUsed) := by
  unfold terminateMelVlc scupOf
  by_cases hz : vlcUsed = 0
  · have := hinv hz
    simp only [hz, Nat.lt_irrefl, if_false]
    split
    · simp; omega
    · split <;> simp <;> omega
  · have hpos : vlcUsed > 0 := by omega
    have hm : (0xFF / 2 ^ (8 - vlcUsed)) ≠ 0 := by
      have h8 : vlcUsed = 1 ∨ vlcUsed = 2 ∨ vlcUsed = 3 ∨ vlcUsed = 4 ∨ vlcUsed = 5 ∨ vlcUsed = 6 ∨ vlcUsed = 7 ∨ vlcUsed = 8 := by omega
      rcases h8 with h | h | h | h | h | h | h | h <;> subst h <;> decide
    simp only [hpos, if_true]
    have hne : ¬ (0xFF * 2 ^ pk.remainingBits % 256 ||| 0xFF / 2 ^ (8 - vlcUsed) = 0) := by
      intro h; exact hm (Nat.or_eq_zero_iff.mp h).2
    simp only [hne, if_false]
    split <;> simp <;> omega

/-! ## Second decomposition: HL/LH bands by interval composition -/

/-- LL band after one decomposition (both directions): gain 9/4 plus rounding -/
def inLL1 (M x : Int) : Prop := (-(9 * M + 8)) / 4 ≤ x ∧ x ≤ (9 * M + 4) / 4
/-- first pass of the second decomposition on LL1 values: low (gain 27/8) and high (gain 9/2) -/
def inLow2a (M x : Int) : Prop := (-(27 * M + 32)) / 8 ≤ x ∧ x ≤ (27 * M + 24) / 8
def inHigh2a (M x : Int) : Prop := -((9 * M + 8) / 2) ≤ x ∧ x ≤ (9 * M + 8) / 2

theorem pass2_LL_interval (M a b c d e : Int) (ha : inLow1 M a) (hb : inLow1 M b) (hc : inLow1 M c)
    (hd : inLow1 M d) (he : inLow1 M e) :
    inLL1 M (lift53Low (lift53High a b c) c (lift53High c d e)) := by
  unfold inLow1 at *; unfold inLL1 lift53Low lift53High; omega

theorem lvl2_pass1_low (M a b c d e : Int) (ha : inLL1 M a) (hb : inLL1 M b) (hc : inLL1 M c)
    (hd : inLL1 M d) (he : inLL1 M e) :
    inLow2a M (lift53Low (lift53High a b c) c (lift53High c d e)) := by
  unfold inLL1 at *; unfold inLow2a lift53Low lift53High; omega

theorem lvl2_pass1_high (M a b c : Int) (ha : inLL1 M a) (hb : inLL1 M b) (hc : inLL1 M c) :
    inHigh2a M (lift53High a b c) := by
  unfold inLL1 at *; unfold inHigh2a lift53High; omega

theorem lvl2_highOfLow (M a b c : Int) (hM : 8 ≤ M) (ha : inLow2a M a) (hb : inLow2a M b) (hc : inLow2a M c) :
    (-(8 * M) < lift53High a b c) ∧ lift53High a b c < 8 * M := by
  unfold inLow2a at *; unfold lift53High; omega

theorem lvl2_lowOfHigh (M a b c d e : Int) (hM : 8 ≤ M) (ha : inHigh2a M a) (hb : inHigh2a M b) (hc : inHigh2a M c)
    (hd : inHigh2a M d) (he : inHigh2a M e) :
    (-(8 * M) < lift53Low (lift53High a b c) c (lift53High c d e)) ∧
      lift53Low (lift53High a b c) c (lift53High c d e) < 8 * M := by
  unfold inHigh2a at *; unfold lift53Low lift53High; omega

/-- 2^Kmax of the HL and LH bands of the second decomposition (numLevels = 2, resolution 1) is 8·2^(precision-1) -/
theorem kmax_level2_hl_lh (bd : Nat) (rct : Bool) (band : Nat) (hbd : 1 ≤ bd) (hband : band = 1 ∨ band = 2) :
    ((2 ^ (encBandNumbps 2 bd rct 1 band).toNat : Nat) : Int) = 8 * 2 ^ (bd + rct.toNat - 1) := by
  rw [kmax_toNat 2 bd rct 1 band (by omega) hbd]
  have hb : biboLog2 2 1 band = 3 := by rcases hband with rfl | rfl <;> decide
  rw [hb, Nat.pow_add]
  simp [Int.natCast_pow, Int.mul_comm]

end Htj2k
