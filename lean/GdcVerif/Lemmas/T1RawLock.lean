import GdcVerif.Lemmas.T1LockStyles
import GdcVerif.Lemmas.MqcRaw
import GdcVerif.Model.T1Layered
/-!
  C20 — lock-step of the raw (bypass) significance-propagation and magnitude-refinement passes of the LAZY mode:
  the T1-level argument of `Lemmas/T1Lock.lean` over an abstract raw bit coder.
-/
namespace T1
open Gen

/-- a raw bit coder: encoder invariant `P`, facts from the future `F`, lock-step relation `R` -/
structure RawCoder (P : Mqc.Enc → Prop) (F : Mqc.Enc → Prop) (R : Mqc.Enc → Mqc.Dec → Prop) : Prop where
  total : ∀ e bit, P e → bit ≤ 1 → ∃ e1, Mqc.bypassEncode e bit = some e1 ∧ P e1
  back : ∀ e e1 bit, P e → bit ≤ 1 → Mqc.bypassEncode e bit = some e1 → F e1 → F e
  step : ∀ e e1 d bit, P e → bit ≤ 1 → R e d → Mqc.bypassEncode e bit = some e1 → F e1 →
    ∃ d1, Mqc.rawDecode d = some (bit, d1) ∧ R e1 d1

structure EncOkR (w h : Nat) (V : Array Int) (P : Mqc.Enc → Prop) (es : EncSt) : Prop where
  fsz : es.flags.size = (w + 2) * (h + 2)
  dsz : V.size = (w + 2) * (h + 2)
  raw : P es.mq

section Lock
variable (w h : Nat) (V : Array Int) (P : Mqc.Enc → Prop) (F : Mqc.Enc → Prop) (R : Mqc.Enc → Mqc.Dec → Prop)
  (hC : RawCoder P F R) (hV : ∀ j, (gi V j).natAbs < 2147483648)
include hC hV

theorem rsign_lock (bp : Nat) (es : EncSt) (hs : EncOkR w h V P es) (f x y : Nat) (hx : x < w) (hy : y < h) :
    ∃ es', encSignR true w V es f x y (idxOf w x y) = some es' ∧ EncOkR w h V P es' ∧
      (F es'.mq → F es.mq) ∧
      (∀ j, sigA es'.flags j = (sigA es.flags j || decide (j = idxOf w x y))) ∧
      (∀ j, visA es'.flags j = visA es.flags j) ∧
      (F es'.mq → ∀ (ds : DecSt) (lev : Nat → Nat), LS w h V R bp lev es ds →
        sigA es.flags (idxOf w x y) = false → magBit (gi V (idxOf w x y)) bp = 1 →
        ∃ ds', decSignR true w bp ds f x y (idxOf w x y) = some ds' ∧
          LS w h V R bp (upd lev (idxOf w x y) bp) es' ds') := by
  have hi := idx_lt w h x y hx hy
  have hiV : idxOf w x y < V.size := by rw [hs.dsz]; exact hi
  have hiF : idxOf w x y < es.flags.size := by rw [hs.fsz]; exact hi
  obtain ⟨fl1, e1, s1⟩ : ∃ fl1, (if V[idxOf w x y] < 0 then orAt es.flags (idxOf w x y) fSign else some es.flags) = some fl1 ∧
      fl1.size = es.flags.size := by
    split
    · exact orAt_ok _ _ _ hiF
    · exact ⟨_, rfl, rfl⟩
  have hsb : (if V[idxOf w x y] < 0 then 1 else 0 : Nat) ≤ 1 := by split <;> omega
  obtain ⟨mq, em, hm⟩ := hC.total es.mq (if V[idxOf w x y] < 0 then 1 else 0) hs.raw hsb
  obtain ⟨fl2, e2, s2⟩ := orAt_ok fl1 (idxOf w x y) fSig (by rw [s1]; exact hiF)
  obtain ⟨fl3, e3, s3⟩ := updateNeighborFlags_ok w h fl2 x y (by rw [s2, s1, hs.fsz]) hx hy
  have hres : encSignR true w V es f x y (idxOf w x y) = some { flags := fl3, mq := mq } := by
    unfold encSignR
    rw [Array.getElem?_eq_getElem hiV]
    simp only [Option.bind_eq_bind, Option.bind_some, if_true]
    by_cases hv : V[idxOf w x y] < 0
    · rw [if_pos hv] at e1 em
      simp only [hv, if_true]
      rw [e1]; simp only [Option.bind_some]
      rw [em]; simp only [Option.bind_some]
      rw [e2]; simp only [Option.bind_some]
      rw [e3]; rfl
    · rw [if_neg hv] at e1 em
      simp only [hv, if_false]
      have e1' : es.flags = fl1 := Option.some.inj e1
      subst e1'
      rw [em]; simp only [Option.bind_some]
      rw [e2]; simp only [Option.bind_some]
      rw [e3]; rfl
  have hfl1 : ∀ j, sigA fl1 j = sigA es.flags j ∧ visA fl1 j = visA es.flags j := by
    intro j
    split at e1
    · exact ⟨orAt_sig _ _ _ _ e1 (by decide) j, orAt_vis _ _ _ _ e1 (by decide) j⟩
    · have e1' : es.flags = fl1 := Option.some.inj e1
      subst e1'; exact ⟨rfl, rfl⟩
  have hf3 := unf_frame w fl2 fl3 x y _ e3
  have hsig : ∀ j, sigA fl3 j = (sigA es.flags j || decide (j = idxOf w x y)) := by
    intro j
    rw [(hf3.2 j).1]
    unfold sigA
    rw [orAt_has fl1 fl2 _ _ e2 j fSig]
    have := (hfl1 j).1; unfold sigA at this; rw [this]
    simp [has, fSig]
  have hvis : ∀ j, visA fl3 j = visA es.flags j := by
    intro j
    rw [(hf3.2 j).2, orAt_vis _ _ _ _ e2 (by decide) j, (hfl1 j).2]
  refine ⟨_, hres, ⟨by show fl3.size = _; rw [s3, s2, s1, hs.fsz], hs.dsz, hm⟩,
    fun hF => hC.back es.mq mq _ hs.raw hsb em hF, hsig, hvis, ?_⟩
  intro hF ds lev hL hns hmb
  obtain ⟨d1, hd1, hrel1⟩ := hC.step es.mq mq ds.mq _ hs.raw hsb hL.rel em hF
  unfold decSignR
  simp only [Option.bind_eq_bind, if_true, Option.bind_some, hd1, hL.fl]
  have hiD : idxOf w x y < ds.data.size := by rw [hL.dsz]; exact hi
  have hgv : gi V (idxOf w x y) = V[idxOf w x y] := gi_get _ _ hiV
  have hsm := hL.smp _ ⟨x, y, hx, hy, rfl⟩
  have hz : (gi V (idxOf w x y)).natAbs / 2 ^ lev (idxOf w x y) = 0 := by
    have := hsm.s; rw [hns] at this
    rcases Nat.eq_zero_or_pos ((gi V (idxOf w x y)).natAbs / 2 ^ lev (idxOf w x y)) with h0 | h0
    · exact h0
    · exact absurd (this.mpr (by omega)) (by simp)
  have hval := sign_val (gi V (idxOf w x y)) bp _ (hV _) hsm.l hz hmb
  rw [hgv] at hval
  have hLS : LS w h V R bp (upd lev (idxOf w x y) bp) { flags := fl3, mq := mq }
      { flags := fl3, data := ds.data.setIfInBounds (idxOf w x y) (tr bp V[idxOf w x y]), mq := d1 } := by
    refine ⟨rfl, by show (ds.data.setIfInBounds _ _).size = _; rw [Array.size_setIfInBounds]; exact hL.dsz, hrel1, ?_⟩
    intro j hj
    by_cases hji : j = idxOf w x y
    · subst hji
      have hl : upd lev (idxOf w x y) bp (idxOf w x y) = bp := by unfold upd; rw [if_pos rfl]
      refine ⟨Or.inl hl, ?_, ?_⟩
      · show gi (ds.data.setIfInBounds _ _) _ = _
        rw [gi_set _ _ _ _ hiD, if_pos rfl, hl, hgv]
      · show sigA fl3 _ = true ↔ _
        rw [hsig, hl]
        have h1 := newsig _ bp _ hsm.l hz (by rw [← magBit_eq]; exact hmb)
        rw [h1]; simp
    · apply (hL.smp j hj).frame
      · unfold upd; rw [if_neg hji]
      · show sigA fl3 j = _; rw [hsig]; simp [hji]
      · show gi (ds.data.setIfInBounds _ _) j = _; rw [gi_set _ _ _ _ hiD, if_neg hji]
  rw [hval]
  by_cases hv : V[idxOf w x y] < 0
  · rw [if_pos hv] at e1
    rw [if_pos (by rw [if_pos hv]; decide), e1]
    simp only [Option.bind_some]
    rw [if_neg (by omega), e2]
    simp only [Option.bind_some]
    rw [e3]
    exact ⟨_, rfl, hLS⟩
  · rw [if_neg hv] at e1
    have e1' : es.flags = fl1 := Option.some.inj e1
    subst e1'
    rw [if_neg (by rw [if_neg hv]; decide)]
    rw [if_neg (by omega), e2]
    simp only [Option.bind_some]
    rw [e3]
    exact ⟨_, rfl, hLS⟩

theorem rspp_lock (orient bp : Nat) (es : EncSt) (hs : EncOkR w h V P es) :
    ∃ es', encSigPropR true w h orient bp V es = some es' ∧ EncOkR w h V P es' ∧
      (F es'.mq → F es.mq) ∧
      (F es'.mq → ∀ (ds : DecSt),
        (∃ lev, LS w h V R bp lev es ds ∧ VisLev w h bp lev es.flags ∧ SigOld w h bp lev es.flags) →
        ∃ ds', decSigPropR true w h orient bp ds = some ds' ∧
          ∃ lev, LS w h V R bp lev es' ds' ∧ VisLev w h bp lev es'.flags ∧ SigOld w h bp lev es'.flags) := by
  unfold encSigPropR decSigPropR
  apply foldlM_lock _ _ (EncOkR w h V P) (fun s => F s.mq) (fun (p : Nat × Nat) => p.1 < w ∧ p.2 < h)
    (fun _ es ds => ∃ lev, LS w h V R bp lev es ds ∧ VisLev w h bp lev es.flags ∧ SigOld w h bp lev es.flags)
    _ (coords w h) es (fun p hp => coords_mem w h p.1 p.2 hp) hs
  intro p _ s hps hq
  obtain ⟨x, y⟩ := p
  have hi := idx_lt w h x y hq.1 hq.2
  have hiF : idxOf w x y < s.flags.size := by rw [hps.fsz]; exact hi
  have hiV : idxOf w x y < V.size := by rw [hps.dsz]; exact hi
  simp only []
  rw [Array.getElem?_eq_getElem hiF]
  simp only [Option.bind_eq_bind, Option.bind_some]
  have hgf : gf s.flags (idxOf w x y) = s.flags[idxOf w x y] := gf_get _ _ hiF
  have hgv : gi V (idxOf w x y) = V[idxOf w x y] := gi_get _ _ hiV
  have hinb : InB w h (idxOf w x y) := ⟨x, y, hq.1, hq.2, rfl⟩
  by_cases hsg : has s.flags[idxOf w x y] fSig = true
  · rw [if_pos hsg]
    refine ⟨s, rfl, hps, id, ?_⟩
    intro _ sd ⟨lev, hL, hv5, hso⟩
    rw [hL.fl, Array.getElem?_eq_getElem hiF]
    simp only [Option.bind_some]
    rw [if_pos hsg]
    exact ⟨sd, rfl, lev, hL, hv5, hso⟩
  rw [if_neg hsg]
  by_cases hnb : ¬has s.flags[idxOf w x y] fSigNeighbors = true
  · rw [if_pos hnb]
    refine ⟨s, rfl, hps, id, ?_⟩
    intro _ sd ⟨lev, hL, hv5, hso⟩
    rw [hL.fl, Array.getElem?_eq_getElem hiF]
    simp only [Option.bind_some]
    rw [if_neg hsg, if_pos hnb]
    exact ⟨sd, rfl, lev, hL, hv5, hso⟩
  rw [if_neg hnb, Array.getElem?_eq_getElem hiV]
  simp only [Option.bind_some]
  obtain ⟨c, ec, hc⟩ := zcCtx_ok s.flags[idxOf w x y] orient
  rw [ec]; simp only [Option.bind_some]
  have hbit : magBit V[idxOf w x y] bp ≤ 1 := by rw [magBit_eq]; omega
  obtain ⟨mq, em, hm⟩ := hC.total s.mq (magBit V[idxOf w x y] bp) hps.raw hbit
  have em' : encBit true s.mq (magBit V[idxOf w x y] bp) c = some mq := em
  rw [em']; simp only [Option.bind_some]
  obtain ⟨fl, efl, sfl⟩ := orAt_ok s.flags (idxOf w x y) fVisit hiF
  rw [efl]; simp only [Option.bind_some]
  have hok : EncOkR w h V P { flags := fl, mq := mq } :=
    ⟨by show fl.size = _; rw [sfl, hps.fsz], hps.dsz, hm⟩
  have back1 : F mq → F s.mq := hC.back s.mq mq _ hps.raw hbit em
  have hsg1 : ∀ j, sigA fl j = sigA s.flags j := orAt_sig _ _ _ _ efl (by decide)
  have hvs1 : ∀ j, visA fl j = (visA s.flags j || decide (j = idxOf w x y)) := by
    intro j; unfold visA; rw [orAt_has _ _ _ _ efl j fVisit]; simp [has, fVisit]
  have hns : sigA s.flags (idxOf w x y) = false := by
    unfold sigA; rw [hgf]; simpa using hsg
  -- the decoder up to the visit flag
  have hdec : F mq → ∀ (sd : DecSt) (lev : Nat → Nat), LS w h V R bp lev s sd →
      ∃ d1, decBit true sd.mq c = some (magBit V[idxOf w x y] bp, d1) ∧
        LS w h V R bp lev { flags := fl, mq := mq } { flags := fl, data := sd.data, mq := d1 } := by
    intro hF sd lev hL
    obtain ⟨d1, hd1, hrel1⟩ := hC.step s.mq mq sd.mq _ hps.raw hbit hL.rel em hF
    exact ⟨d1, hd1, rfl, hL.dsz, hrel1, fun j hj => (hL.smp j hj).frame rfl (hsg1 j) rfl⟩
  by_cases hb : magBit V[idxOf w x y] bp ≠ 0
  · rw [if_pos hb]
    obtain ⟨es', he', hok', hback', hsig', hvis', hlock'⟩ :=
      rsign_lock w h V P F R hC hV bp { flags := fl, mq := mq } hok s.flags[idxOf w x y] x y hq.1 hq.2
    refine ⟨es', he', hok', fun hF => back1 (hback' hF), ?_⟩
    intro hF sd ⟨lev, hL, hv5, hso⟩
    obtain ⟨d1, hd1, hL1⟩ := hdec (hback' hF) sd lev hL
    rw [hL.fl, Array.getElem?_eq_getElem hiF]
    simp only [Option.bind_some]
    rw [if_neg hsg, if_neg hnb, ec]
    simp only [Option.bind_some]
    rw [hd1]; simp only [Option.bind_some]
    rw [efl]; simp only [Option.bind_some]
    rw [if_pos hb]
    obtain ⟨ds', hd', hL'⟩ := hlock' hF _ lev hL1 (by rw [hsg1]; exact hns) (by rw [hgv]; omega)
    refine ⟨ds', hd', upd lev (idxOf w x y) bp, hL', ?_, ?_⟩
    · intro j hj hvj
      unfold upd
      by_cases hji : j = idxOf w x y
      · rw [if_pos hji]
      · rw [if_neg hji]
        rw [hvis', hvs1] at hvj
        exact hv5 j hj (by simpa [hji] using hvj)
    · intro j hj hsj hvj
      rw [hvis', hvs1] at hvj
      by_cases hji : j = idxOf w x y
      · simp [hji] at hvj
      · unfold upd; rw [if_neg hji]
        rw [hsig', hsg1] at hsj
        exact hso j hj (by simpa [hji] using hsj) (by simpa [hji] using hvj)
  · rw [if_neg hb]
    refine ⟨_, rfl, hok, back1, ?_⟩
    intro hF sd ⟨lev, hL, hv5, hso⟩
    obtain ⟨d1, hd1, hL1⟩ := hdec hF sd lev hL
    rw [hL.fl, Array.getElem?_eq_getElem hiF]
    simp only [Option.bind_some]
    rw [if_neg hsg, if_neg hnb, ec]
    simp only [Option.bind_some]
    rw [hd1]; simp only [Option.bind_some]
    rw [efl]; simp only [Option.bind_some]
    rw [if_neg hb]
    have hb0 : (gi V (idxOf w x y)).natAbs / 2 ^ bp % 2 = 0 := by
      rw [← magBit_eq, hgv]; omega
    have hsm := hL.smp _ hinb
    have hz : (gi V (idxOf w x y)).natAbs / 2 ^ lev (idxOf w x y) = 0 := by
      have := hsm.s; rw [hns] at this
      rcases Nat.eq_zero_or_pos ((gi V (idxOf w x y)).natAbs / 2 ^ lev (idxOf w x y)) with h0 | h0
      · exact h0
      · exact absurd (this.mpr (by omega)) (by simp)
    have hz' := nonsig_down _ bp _ hsm.l hz hb0
    refine ⟨_, rfl, upd lev (idxOf w x y) bp, ⟨rfl, hL.dsz, hL1.rel, ?_⟩, ?_, ?_⟩
    · intro j hj
      by_cases hji : j = idxOf w x y
      · subst hji
        have hl : upd lev (idxOf w x y) bp (idxOf w x y) = bp := by unfold upd; rw [if_pos rfl]
        refine ⟨Or.inl hl, ?_, ?_⟩
        · show gi sd.data _ = _
          rw [hl, hsm.d, tr_zero _ _ hz, tr_zero _ _ hz']
        · show sigA fl _ = true ↔ _
          rw [hl, hsg1, hns, hz']; simp
      · exact (hL1.smp j hj).frame (by unfold upd; rw [if_neg hji]) rfl rfl
    · intro j hj hvj
      unfold upd
      by_cases hji : j = idxOf w x y
      · rw [if_pos hji]
      · rw [if_neg hji]
        have hvj' : visA fl j = true := hvj
        rw [hvs1] at hvj'
        exact hv5 j hj (by simpa [hji] using hvj')
    · intro j hj hsj hvj
      have hvj' : visA fl j = false := hvj
      have hsj' : sigA fl j = true := hsj
      rw [hvs1] at hvj'
      by_cases hji : j = idxOf w x y
      · simp [hji] at hvj'
      · unfold upd; rw [if_neg hji]
        rw [hsg1] at hsj'
        exact hso j hj hsj' (by simpa [hji] using hvj')

theorem rmrp_lock (bp : Nat) (es : EncSt) (hs : EncOkR w h V P es) :
    ∃ es', encMagRefR true w h bp V es = some es' ∧ EncOkR w h V P es' ∧
      (F es'.mq → F es.mq) ∧
      (F es'.mq → ∀ (ds : DecSt),
        (∃ lev, LS w h V R bp lev es ds ∧ VisLev w h bp lev es.flags ∧ SigOld w h bp lev es.flags) →
        ∃ ds', decMagRefR true w h bp ds = some ds' ∧
          ∃ lev, LS w h V R bp lev es' ds' ∧ VisLev w h bp lev es'.flags ∧ SigDone w h bp lev es'.flags) := by
  have key : ∃ es', encMagRefR true w h bp V es = some es' ∧ EncOkR w h V P es' ∧
      (F es'.mq → F es.mq) ∧
      (F es'.mq → ∀ (ds : DecSt),
        (∃ lev, LS w h V R bp lev es ds ∧ MrInv w h bp lev es.flags (coords w h)) →
        ∃ ds', decMagRefR true w h bp ds = some ds' ∧
          ∃ lev, LS w h V R bp lev es' ds' ∧ MrInv w h bp lev es'.flags []) := by
    unfold encMagRefR decMagRefR
    apply foldlM_lock _ _ (EncOkR w h V P) (fun s => F s.mq) (fun (p : Nat × Nat) => p.1 < w ∧ p.2 < h)
      (fun l es ds => ∃ lev, LS w h V R bp lev es ds ∧ MrInv w h bp lev es.flags l)
      _ (coords w h) es (fun p hp => coords_mem w h p.1 p.2 hp) hs
    intro p l s hps hq
    obtain ⟨x, y⟩ := p
    have hi := idx_lt w h x y hq.1 hq.2
    have hiF : idxOf w x y < s.flags.size := by rw [hps.fsz]; exact hi
    have hiV : idxOf w x y < V.size := by rw [hps.dsz]; exact hi
    have hgf : gf s.flags (idxOf w x y) = s.flags[idxOf w x y] := gf_get _ _ hiF
    have hgv : gi V (idxOf w x y) = V[idxOf w x y] := gi_get _ _ hiV
    have hinb : InB w h (idxOf w x y) := ⟨x, y, hq.1, hq.2, rfl⟩
    simp only []
    rw [Array.getElem?_eq_getElem hiF]
    simp only [Option.bind_eq_bind, Option.bind_some]
    by_cases hskip : ¬has s.flags[idxOf w x y] fSig = true ∨ has s.flags[idxOf w x y] fVisit = true
    · rw [if_pos hskip]
      refine ⟨s, rfl, hps, id, ?_⟩
      intro _ sd ⟨lev, hL, hM⟩
      rw [hL.fl, Array.getElem?_eq_getElem hiF]
      simp only [Option.bind_some]
      rw [if_pos hskip]
      refine ⟨sd, rfl, lev, hL, hM.vis, fun a ha => hM.todo a (List.mem_cons_of_mem _ ha), ?_, (List.pairwise_cons.mp hM.nd).2⟩
      intro j hj hsj hvj
      rcases hM.done j hj hsj hvj with h1 | ⟨a, ha, rfl⟩
      · exact Or.inl h1
      · rcases List.mem_cons.mp ha with rfl | ha'
        · exfalso
          unfold sigA at hsj; unfold visA at hvj
          rw [hgf] at hsj hvj
          rcases hskip with h1 | h1
          · exact h1 hsj
          · rw [h1] at hvj; exact absurd hvj (by simp)
        · exact Or.inr ⟨a, ha', rfl⟩
    rw [if_neg hskip, Array.getElem?_eq_getElem hiV]
    simp only [Option.bind_some]
    have hsgt : sigA s.flags (idxOf w x y) = true := by
      unfold sigA; rw [hgf]
      cases hh : has s.flags[idxOf w x y] fSig
      · exact absurd (Or.inl (by rw [hh]; simp)) hskip
      · rfl
    have hvsf : visA s.flags (idxOf w x y) = false := by
      unfold visA; rw [hgf]
      cases hh : has s.flags[idxOf w x y] fVisit
      · rfl
      · exact absurd (Or.inr hh) hskip
    have hbit : magBit V[idxOf w x y] bp ≤ 1 := by rw [magBit_eq]; omega
    obtain ⟨mq, em, hm⟩ := hC.total s.mq (magBit V[idxOf w x y] bp) hps.raw hbit
    have em' : encBit true s.mq (magBit V[idxOf w x y] bp) (mrCtx s.flags[idxOf w x y]) = some mq := em
    rw [em']; simp only [Option.bind_some]
    obtain ⟨fl, efl, sfl⟩ := orAt_ok s.flags (idxOf w x y) fRefine hiF
    rw [efl]
    have hsg1 : ∀ j, sigA fl j = sigA s.flags j := orAt_sig _ _ _ _ efl (by decide)
    have hvs1 : ∀ j, visA fl j = visA s.flags j := orAt_vis _ _ _ _ efl (by decide)
    refine ⟨_, rfl, ⟨by show fl.size = _; rw [sfl, hps.fsz], hps.dsz, hm⟩,
      hC.back s.mq mq _ hps.raw hbit em, ?_⟩
    intro hF sd ⟨lev, hL, hM⟩
    obtain ⟨d1, hd1', hrel1⟩ := hC.step s.mq mq sd.mq _ hps.raw hbit hL.rel em hF
    have hd1 : decBit true sd.mq (mrCtx s.flags[idxOf w x y]) = some (magBit V[idxOf w x y] bp, d1) := hd1'
    have hiD : idxOf w x y < sd.data.size := by rw [hL.dsz]; exact hi
    rw [hL.fl, Array.getElem?_eq_getElem hiF]
    simp only [Option.bind_some]
    rw [if_neg hskip, hd1]
    simp only [Option.bind_some]
    rw [Array.getElem?_eq_getElem hiD]
    simp only [Option.bind_some]
    rw [efl]
    have hsm := hL.smp _ hinb
    have hlev : lev (idxOf w x y) = bp + 1 := hM.todo (x, y) List.mem_cons_self hsgt hvsf
    have hnz : (gi V (idxOf w x y)).natAbs / 2 ^ (bp + 1) ≠ 0 := by
      have := hsm.s.mp hsgt; rw [hlev] at this; exact this
    have hcur : sd.data[idxOf w x y] = tr (bp + 1) (gi V (idxOf w x y)) := by
      rw [← gi_get _ _ hiD, hsm.d, hlev]
    have hnd := List.pairwise_cons.mp hM.nd
    refine ⟨_, rfl, upd lev (idxOf w x y) bp, ⟨rfl, by show (sd.data.setIfInBounds _ _).size = _; rw [Array.size_setIfInBounds]; exact hL.dsz, hrel1, ?_⟩, ?_, ?_, ?_, hnd.2⟩
    · intro j hj
      by_cases hji : j = idxOf w x y
      · subst hji
        have hl : upd lev (idxOf w x y) bp (idxOf w x y) = bp := by unfold upd; rw [if_pos rfl]
        refine ⟨Or.inl hl, ?_, ?_⟩
        · show gi (sd.data.setIfInBounds _ _) _ = _
          rw [gi_set _ _ _ _ hiD, if_pos rfl, hl, hcur, ← hgv]
          exact refine_val _ bp (hV _) hnz
        · show sigA fl _ = true ↔ _
          rw [hl, hsg1, hsgt]
          have : (gi V (idxOf w x y)).natAbs / 2 ^ bp ≠ 0 := by
            rw [div_succ] at hnz; omega
          simp [this]
      · apply (hL.smp j hj).frame
        · unfold upd; rw [if_neg hji]
        · exact hsg1 j
        · show gi (sd.data.setIfInBounds _ _) j = _; rw [gi_set _ _ _ _ hiD, if_neg hji]
    · intro j hj hvj
      have hvj' : visA fl j = true := hvj
      rw [hvs1] at hvj'
      unfold upd
      by_cases hji : j = idxOf w x y
      · rw [if_pos hji]
      · rw [if_neg hji]; exact hM.vis j hj hvj'
    · intro a ha hsa hva
      have hsa' : sigA fl (idxOf w a.1 a.2) = true := hsa
      have hva' : visA fl (idxOf w a.1 a.2) = false := hva
      rw [hsg1] at hsa'; rw [hvs1] at hva'
      have hne : idxOf w a.1 a.2 ≠ idxOf w x y := fun hh => hnd.1 a ha hh.symm
      unfold upd; rw [if_neg hne]
      exact hM.todo a (List.mem_cons_of_mem _ ha) hsa' hva'
    · intro j hj hsj hvj
      have hsj' : sigA fl j = true := hsj
      have hvj' : visA fl j = false := hvj
      rw [hsg1] at hsj'; rw [hvs1] at hvj'
      by_cases hji : j = idxOf w x y
      · left; unfold upd; rw [if_pos hji]
      · rcases hM.done j hj hsj' hvj' with h1 | ⟨a, ha, rfl⟩
        · left; unfold upd; rw [if_neg hji]; exact h1
        · rcases List.mem_cons.mp ha with rfl | ha'
          · exact absurd rfl hji
          · exact Or.inr ⟨a, ha', rfl⟩
  obtain ⟨es', he, hok, hback, hlock⟩ := key
  refine ⟨es', he, hok, hback, ?_⟩
  intro hF ds ⟨lev, hL, hv5, hso⟩
  obtain ⟨ds', hd', lev', hL', hM'⟩ := hlock hF ds ⟨lev, hL, hv5,
    fun a ha hsa hva => hso _ ⟨a.1, a.2, (coords_mem w h a.1 a.2 ha).1, (coords_mem w h a.1 a.2 ha).2, rfl⟩ hsa hva,
    fun j hj _ _ => by
      obtain ⟨x, y, hx, hy, rfl⟩ := hj
      exact Or.inr ⟨(x, y), coords_cover w h x y hx hy, rfl⟩,
    coords_nodup w h⟩
  refine ⟨ds', hd', lev', hL', hM'.vis, ?_⟩
  intro j hj hsj
  cases hvj : visA es'.flags j
  · rcases hM'.done j hj hsj hvj with h1 | ⟨a, ha, _⟩
    · exact h1
    · exact absurd ha (by simp)
  · exact hM'.vis j hj hvj
end Lock

/-- the raw coder of one raw segment against its final buffer -/
theorem rawCoder_seg (p0 : Nat) (Bt : Nat → Nat) (nt drop : Nat) (hfin : Mqc.RawFin p0 Bt nt drop) :
    RawCoder (Mqc.RawOk p0) (Mqc.FR p0 Bt nt) (Mqc.RR p0 Bt nt drop) := by
  refine ⟨fun e bit h hb => ?_, fun e e1 bit h hb he hf => Mqc.raw_back p0 Bt nt e e1 bit h hb he hf,
    fun e e1 d bit h hb hr he hf => Mqc.raw_step p0 Bt nt drop hfin e e1 d bit h hb hr he hf⟩
  obtain ⟨k, hk, _⟩ := Mqc.ect_nat p0 e h
  obtain ⟨e1, he, h1, _⟩ := Mqc.bypassEncode_spec p0 e h bit k hk hb
  exact ⟨e1, he, h1⟩

/-- the raw coder without a reader: forward run of the encoder -/
theorem rawCoder_fwd (p0 : Nat) : RawCoder (Mqc.RawOk p0) (fun _ => True) (fun _ _ => False) := by
  refine ⟨fun e bit h hb => ?_, fun _ _ _ _ _ _ _ => True.intro, fun _ _ _ _ _ _ hr _ _ => hr.elim⟩
  obtain ⟨k, hk, _⟩ := Mqc.ect_nat p0 e h
  obtain ⟨e1, he, h1, _⟩ := Mqc.bypassEncode_spec p0 e h bit k hk hb
  exact ⟨e1, he, h1⟩

/-- a raw coding pass: significance propagation (0) or magnitude refinement -/
def passER (w h orient : Nat) (V : Array Int) (bp pt : Nat) (st : EncSt) : Option EncSt :=
  match pt with
  | 0 => encSigPropR true w h orient bp V st
  | _ => encMagRefR true w h bp V st
def passDR (w h orient : Nat) (bp pt : Nat) (st : DecSt) : Option DecSt :=
  match pt with
  | 0 => decSigPropR true w h orient bp st
  | _ => decMagRefR true w h bp st

section Lock
variable (w h : Nat) (V : Array Int) (P : Mqc.Enc → Prop) (F : Mqc.Enc → Prop) (R : Mqc.Enc → Mqc.Dec → Prop)
  (hC : RawCoder P F R) (hV : ∀ j, (gi V j).natAbs < 2147483648)
include hC hV

/-- one raw coding pass (with the `clearVisit` in front of it) on both sides -/
theorem rstep_lock (orient bp pi pt : Nat) (hpt : pt ≤ 1) (es : EncSt) (hs : EncOkR w h V P es) :
    ∃ es2, passER w h orient V bp pt (cvE pi pt es) = some es2 ∧ EncOkR w h V P es2 ∧
      (F es2.mq → F es.mq) ∧
      (F es2.mq → ∀ (ds : DecSt), PInv w h V R bp pi pt es ds →
        ∃ ds2, passDR w h orient bp pt (cvD pi pt ds) = some ds2 ∧ Post w h V R bp pt es2 ds2) := by
  have hvis0 : ∀ (lev : Nat → Nat) (fl : Array Nat), VisLev w h bp lev (clearVisit fl) := by
    intro lev fl j _ hv; rw [(clearVisit_eff fl).2] at hv; exact absurd hv (by simp)
  have hs1 : EncOkR w h V P { es with flags := clearVisit es.flags } :=
    ⟨by show (clearVisit es.flags).size = _; unfold clearVisit; rw [Array.size_map]; exact hs.fsz, hs.dsz, hs.raw⟩
  rcases (show pt = 0 ∨ pt = 1 by omega) with rfl | rfl
  · obtain ⟨es2, he2, hok2, hback2, hlock2⟩ := rspp_lock w h V P F R hC hV orient bp _ hs1
    refine ⟨es2, by unfold passER cvE; simp only [true_or, if_true]; exact he2, hok2, hback2, ?_⟩
    intro hF ds ⟨lev, hL, h0, _, _⟩
    obtain ⟨ds2, hd2, lev2, hL2, hv2, hso2⟩ := hlock2 hF _ ⟨lev, hL.clearVisit, hvis0 lev _, by
      intro j hj _ _; exact h0 rfl j hj⟩
    exact ⟨ds2, by unfold passDR cvD; simp only [true_or, if_true]; exact hd2, lev2, hL2, fun _ => ⟨hv2, hso2⟩,
      fun hh => absurd hh (by decide), fun hh => absurd hh (by decide)⟩
  · obtain ⟨es2, he2, hok2, hback2, hlock2⟩ := rmrp_lock w h V P F R hC hV bp es hs
    refine ⟨es2, by unfold passER cvE; rw [if_neg (by omega)]; exact he2, hok2, hback2, ?_⟩
    intro hF ds ⟨lev, hL, _, h1, _⟩
    obtain ⟨ds2, hd2, lev2, hL2, hv2, hsd2⟩ := hlock2 hF ds ⟨lev, hL, (h1 rfl).1, (h1 rfl).2⟩
    exact ⟨ds2, by unfold passDR cvD; rw [if_neg (by omega)]; exact hd2, lev2, hL2, fun hh => absurd hh (by decide),
      fun _ => ⟨hv2, hsd2⟩, fun hh => absurd hh (by decide)⟩
end Lock
end T1
