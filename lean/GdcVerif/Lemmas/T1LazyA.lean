import GdcVerif.Lemmas.T1LazyLoopLock
import GdcVerif.Lemmas.T1Trunc
/-!
  C20 — LAZY without TERMALL: the first codeword segment (all passes down to the cleanup pass of plane `mb - 3`, or
  of plane 0 for `mb ≤ 3`) is one MQ segment of several passes.
-/
namespace T1
open Gen

/-- `n + 1` coding passes of one MQ segment from `(bp, pi, pt)`: context reset (RESET) between them, none after
the last -/
def encPassesT (w h orient style : Nat) (V : Array Int) : Nat → EncSt → (bp pi pt : Nat) → Option EncSt
  | 0, st, bp, pi, pt => (passE w h orient V bp pt (cvE pi pt st)).bind (segE style pt)
  | n + 1, st, bp, pi, pt =>
    (passE w h orient V bp pt (cvE pi pt st)).bind fun st =>
      (segE style pt st).bind fun st =>
        (resetE style st).bind fun st =>
          if pt = 2 then encPassesT w h orient style V n st (bp - 1) (pi + 1) 0
          else encPassesT w h orient style V n st bp (pi + 1) (pt + 1)

section Lock
variable (w h : Nat) (V : Array Int) (F : Mqc.Enc → Prop) (R : Mqc.Enc → Mqc.Dec → Prop)
  (hC : Coder F R) (hX : CoderCtx F R) (hV : ∀ j, (gi V j).natAbs < 2147483648)
include hC hX hV

theorem passesT_lock (orient style np : Nat) : ∀ (n : Nat) (es : EncSt) (bp pi pt : Nat), EncOk w h V es → pt ≤ 2 →
    n + 1 ≤ 3 * bp + 3 - pt →
    ∃ esT, encPassesT w h orient style V n es bp pi pt = some esT ∧ EncOk w h V esT ∧
      (F esT.mq → F es.mq) ∧
      (F esT.mq → ∀ (ds : DecSt), PInv w h V R bp pi pt es ds → pi + (n + 1) = np → ∀ fuel, n + 1 ≤ fuel →
        ∃ (ds' : DecSt) (bpL ptL : Nat), decLoop w h orient style np fuel ds (bp : Int) pi pt = some ds' ∧
          ptL ≤ 2 ∧ 3 * bpL + 3 - ptL + n = 3 * bp + 3 - pt ∧ ptL ≤ 3 * bpL + 3 ∧
          Post w h V R bpL ptL esT ds') := by
  intro n
  induction n with
  | zero =>
    intro es bp pi pt hs hpt hf
    obtain ⟨es2, he2, hok2, hback2, hlock2⟩ := step_lock w h V F R hC hX hV orient bp pi pt hpt es hs
    obtain ⟨es3, he3, hok3, hback3, hlock3⟩ := segE_lock w h V F R hC hX style bp pt pt es2 hok2
    refine ⟨es3, ?_, hok3, fun hF => hback2 (hback3 hF), ?_⟩
    · unfold encPassesT
      rw [he2]; simp only [Option.bind_some]
      exact he3
    · intro hF ds hP hnp fuel hfu
      obtain ⟨ds2, hd2, hP2⟩ := hlock2 (hback3 hF) ds hP
      obtain ⟨ds3, hd3, hdd3, hP3⟩ := hlock3 hF ds2 hP2
      obtain ⟨f, rfl⟩ : ∃ f, fuel = f + 1 := ⟨fuel - 1, by omega⟩
      rw [decLoop_step w h orient style np f ds bp pi pt hpt (by omega), hd2]
      simp only [Option.bind_some]
      rw [hd3]; simp only [Option.bind_some]
      rw [if_neg (fun hh => absurd hh.2 (by omega))]; simp only [Option.bind_some]
      refine ⟨ds3, bp, pt, ?_, hpt, by omega, by omega, hP3⟩
      split
      · exact decLoop_exitN _ _ _ _ _ _ _ _ _ _ (by omega)
      · exact decLoop_exitN _ _ _ _ _ _ _ _ _ _ (by omega)
  | succ n ih =>
    intro es bp pi pt hs hpt hf
    obtain ⟨es2, he2, hok2, hback2, hlock2⟩ := step_lock w h V F R hC hX hV orient bp pi pt hpt es hs
    obtain ⟨es3, he3, hok3, hback3, hlock3⟩ := segE_lock w h V F R hC hX style bp pt pt es2 hok2
    obtain ⟨es4, he4, hok4, hback4, hlock4⟩ := resetE_lock w h V F R hX style bp pt es3 hok3
    by_cases hp2 : pt = 2
    · obtain ⟨esP, heP, hokP, hbackP, hlockP⟩ := ih es4 (bp - 1) (pi + 1) 0 hok4 (by omega) (by omega)
      refine ⟨esP, ?_, hokP, fun hF => hback2 (hback3 (hback4 (hbackP hF))), ?_⟩
      · conv => lhs; unfold encPassesT
        rw [he2]; simp only [Option.bind_some]
        rw [he3]; simp only [Option.bind_some]
        rw [he4]; simp only [Option.bind_some]
        rw [if_pos hp2]; exact heP
      · intro hF ds hP hnp fuel hfu
        have hF4 := hbackP hF
        obtain ⟨ds2, hd2, hP2⟩ := hlock2 (hback3 (hback4 hF4)) ds hP
        obtain ⟨ds3, hd3, _, hP3⟩ := hlock3 (hback4 hF4) ds2 hP2
        obtain ⟨ds4, hd4, _, lev, hL4, _, _, h2⟩ := hlock4 ds3 hP3
        have hall := h2 hp2
        obtain ⟨f, rfl⟩ : ∃ f, fuel = f + 1 := ⟨fuel - 1, by omega⟩
        obtain ⟨ds', bpL, ptL, hd', hr1, hr2, hr3, hr5⟩ := hlockP hF ds4 ⟨lev, hL4.replane hall (by omega),
          fun _ j hj => by rw [hall j hj]; omega, fun hh => absurd hh (by decide), fun hh => absurd hh (by decide)⟩ (by omega) f (by omega)
        refine ⟨ds', bpL, ptL, ?_, hr1, by omega, hr3, hr5⟩
        rw [decLoop_step w h orient style np f ds bp pi pt hpt (by omega), hd2]
        simp only [Option.bind_some]
        rw [hd3]; simp only [Option.bind_some]
        unfold resetD at hd4
        by_cases hr : styReset style = true
        · rw [if_pos ⟨hr, by omega⟩]
          rw [if_pos hr] at hd4
          rw [hd4]; simp only [Option.bind_some]
          rw [if_pos hp2, show ((bp : Int) - 1) = ((bp - 1 : Nat) : Int) by omega]
          exact hd'
        · rw [if_neg (fun hh => hr hh.1)]
          rw [if_neg hr] at hd4
          simp only [Option.bind_some]
          rw [Option.some.inj hd4]
          rw [if_pos hp2, show ((bp : Int) - 1) = ((bp - 1 : Nat) : Int) by omega]
          exact hd'
    · obtain ⟨esP, heP, hokP, hbackP, hlockP⟩ := ih es4 bp (pi + 1) (pt + 1) hok4 (by omega) (by omega)
      refine ⟨esP, ?_, hokP, fun hF => hback2 (hback3 (hback4 (hbackP hF))), ?_⟩
      · conv => lhs; unfold encPassesT
        rw [he2]; simp only [Option.bind_some]
        rw [he3]; simp only [Option.bind_some]
        rw [he4]; simp only [Option.bind_some]
        rw [if_neg hp2]; exact heP
      · intro hF ds hP hnp fuel hfu
        have hF4 := hbackP hF
        obtain ⟨ds2, hd2, hP2⟩ := hlock2 (hback3 (hback4 hF4)) ds hP
        obtain ⟨ds3, hd3, _, hP3⟩ := hlock3 (hback4 hF4) ds2 hP2
        obtain ⟨ds4, hd4, _, lev, hL4, h0, h1, _⟩ := hlock4 ds3 hP3
        obtain ⟨f, rfl⟩ : ∃ f, fuel = f + 1 := ⟨fuel - 1, by omega⟩
        obtain ⟨ds', bpL, ptL, hd', hr1, hr2, hr3, hr5⟩ := hlockP hF ds4 ⟨lev, hL4, fun hh => absurd hh (by omega),
          fun hh => h0 (by omega), fun hh => ⟨fun hh' => absurd hh' (by omega), fun _ => h1 (by omega)⟩⟩ (by omega) f (by omega)
        refine ⟨ds', bpL, ptL, ?_, hr1, by omega, hr3, hr5⟩
        rw [decLoop_step w h orient style np f ds bp pi pt hpt (by omega), hd2]
        simp only [Option.bind_some]
        rw [hd3]; simp only [Option.bind_some]
        unfold resetD at hd4
        by_cases hr : styReset style = true
        · rw [if_pos ⟨hr, by omega⟩]
          rw [if_pos hr] at hd4
          rw [hd4]; simp only [Option.bind_some]
          rw [if_neg hp2]
          exact hd'
        · rw [if_neg (fun hh => hr hh.1)]
          rw [if_neg hr] at hd4
          simp only [Option.bind_some]
          rw [Option.some.inj hd4]
          rw [if_neg hp2]
          exact hd'
end Lock

/-- the pass predicates in the first segment (planes `≥ mb - 3`), LAZY without TERMALL -/
theorem phaseA_pred (mb b t : Nat) (style : Int) (hLz : Go.and style J2kT1.CblkStyleLazy ≠ 0)
    (hT : Go.and style J2kT1.CblkStyleTermAll = 0) (hb : mb - 3 ≤ b) :
    J2kT1.isLazyRawPass (b : Int) (mb : Int) (t : Int) style = false ∧
    J2kT1.isTerminatingPass (b : Int) (mb : Int) (t : Int) style = decide (t = 2 ∧ b = mb - 3) := by
  constructor
  · rw [lazyRaw_eq b mb t style hLz, decide_eq_false_iff_not]; omega
  · rw [term_lazy b mb t style hLz hT, decide_eq_decide]; omega

/-- the encoder loop over the first segment -/
theorem encLoopL_runA (w h orient style : Nat) (V : Array Int) (mb np : Nat)
    (hLz : Go.and (style : Int) J2kT1.CblkStyleLazy ≠ 0) (hT : Go.and (style : Int) J2kT1.CblkStyleTermAll = 0) :
    ∀ (n : Nat) (es esT : EncSt) (bp pi pt : Nat), pt ≤ 2 → mb - 3 ≤ bp → n + 1 = 3 * (bp - (mb - 3)) + 3 - pt →
      pi + n + 1 ≤ np → encPassesT w h orient style V n es bp pi pt = some esT →
      ∃ recsA : List PassRec, recsA.length = n ∧ (∀ x ∈ recsA, x.2 = false) ∧
        ∀ fuel acc, n + 1 ≤ fuel → encLoopL w h orient style V mb np fuel es (bp : Int) pi pt false acc =
          (termMq style esT.mq).bind fun m =>
            (resetE style { esT with mq := m }).bind fun es' =>
              encLoopL w h orient style V mb np (fuel - (n + 1)) es' (((mb - 3 : Nat) : Int) - 1) (pi + n + 1) 0 true
                (acc ++ recsA ++ [(numBytes es'.mq, true)]) := by
  intro n
  induction n with
  | zero =>
    intro es esT bp pi pt hpt hb hn hnp hT'
    have hpos : pt = 2 ∧ bp = mb - 3 := by omega
    obtain ⟨rfl, rfl⟩ := hpos
    obtain ⟨hraw, hterm⟩ := phaseA_pred mb (mb - 3) 2 (style : Int) hLz hT (Nat.le_refl _)
    rw [show decide (2 = 2 ∧ mb - 3 = mb - 3) = true by simp] at hterm
    refine ⟨[], rfl, fun x hx => absurd hx (by simp), ?_⟩
    intro fuel acc hf
    obtain ⟨f, rfl⟩ : ∃ f, fuel = f + 1 := ⟨fuel - 1, by omega⟩
    rw [encLoopL_stepM w h orient style V mb np f es (mb - 3) pi 2 false acc (by omega) (by omega) hraw hterm]
    unfold encPassesT at hT'
    have hri : restartIf false (cvE pi 2 es) = cvE pi 2 es := rfl
    rw [hri]
    cases hp : passE w h orient V (mb - 3) 2 (cvE pi 2 es) with
    | none => rw [hp] at hT'; exact absurd hT' (by simp)
    | some es2 =>
      rw [hp] at hT'
      simp only [Option.bind_some] at hT' ⊢
      rw [hT']; simp only [Option.bind_some, if_true, List.append_nil]
      rw [show f + 1 - (0 + 1) = f by omega, show pi + 0 + 1 = pi + 1 by omega]
  | succ n ih =>
    intro es esT bp pi pt hpt hb hn hnp hT'
    obtain ⟨hraw, hterm⟩ := phaseA_pred mb bp pt (style : Int) hLz hT hb
    rw [show decide (pt = 2 ∧ bp = mb - 3) = false by rw [decide_eq_false_iff_not]; omega] at hterm
    conv at hT' => lhs; unfold encPassesT
    cases hp : passE w h orient V bp pt (cvE pi pt es) with
    | none => rw [hp] at hT'; exact absurd hT' (by simp)
    | some es2 =>
      rw [hp] at hT'; simp only [Option.bind_some] at hT'
      cases hs : segE style pt es2 with
      | none => rw [hs] at hT'; exact absurd hT' (by simp)
      | some es3 =>
        rw [hs] at hT'; simp only [Option.bind_some] at hT'
        cases hr : resetE style es3 with
        | none => rw [hr] at hT'; exact absurd hT' (by simp)
        | some es4 =>
          rw [hr] at hT'; simp only [Option.bind_some] at hT'
          have hstep : ∀ f acc, encLoopL w h orient style V mb np (f + 1) es (bp : Int) pi pt false acc =
              (if pt = 2 then encLoopL w h orient style V mb np f es4 ((bp : Int) - 1) (pi + 1) 0 false (acc ++ [(numBytes es4.mq + 3, false)])
               else encLoopL w h orient style V mb np f es4 (bp : Int) (pi + 1) (pt + 1) false (acc ++ [(numBytes es4.mq + 3, false)])) := by
            intro f acc
            rw [encLoopL_stepG w h orient style V mb np f es bp pi pt false acc hpt (by omega), hraw, hterm, passG_false, startG_false]
            have hri : restartIf false (cvE pi pt es) = cvE pi pt es := rfl
            rw [hri, hp]; simp only [Option.bind_some]
            rw [hs]; simp only [Option.bind_some]
            unfold termG rateG
            simp only [Bool.false_eq_true, if_false, Option.bind_some]
            rw [hr]; simp only [Option.bind_some]
          by_cases hp2 : pt = 2
          · rw [if_pos hp2] at hT'
            obtain ⟨recsA, hl, hall, heq⟩ := ih es4 esT (bp - 1) (pi + 1) 0 (by omega) (by omega) (by omega) (by omega) hT'
            refine ⟨(numBytes es4.mq + 3, false) :: recsA, by simp only [List.length_cons]; omega, ?_, ?_⟩
            · intro x hx
              rcases List.mem_cons.mp hx with rfl | hx
              · rfl
              · exact hall x hx
            · intro fuel acc hf
              obtain ⟨f, rfl⟩ : ∃ f, fuel = f + 1 := ⟨fuel - 1, by omega⟩
              rw [hstep f acc, if_pos hp2, show ((bp : Int) - 1) = ((bp - 1 : Nat) : Int) by omega, heq f _ (by omega)]
              rw [show f + 1 - (n + 1 + 1) = f - (n + 1) by omega, show pi + 1 + n + 1 = pi + (n + 1) + 1 by omega]
              simp only [List.append_assoc, List.cons_append, List.nil_append]
          · rw [if_neg hp2] at hT'
            obtain ⟨recsA, hl, hall, heq⟩ := ih es4 esT bp (pi + 1) (pt + 1) (by omega) hb (by omega) (by omega) hT'
            refine ⟨(numBytes es4.mq + 3, false) :: recsA, by simp only [List.length_cons]; omega, ?_, ?_⟩
            · intro x hx
              rcases List.mem_cons.mp hx with rfl | hx
              · rfl
              · exact hall x hx
            · intro fuel acc hf
              obtain ⟨f, rfl⟩ : ∃ f, fuel = f + 1 := ⟨fuel - 1, by omega⟩
              rw [hstep f acc, if_neg hp2, heq f _ (by omega)]
              rw [show f + 1 - (n + 1 + 1) = f - (n + 1) by omega, show pi + 1 + n + 1 = pi + (n + 1) + 1 by omega]
              simp only [List.append_assoc, List.cons_append, List.nil_append]

theorem decLoopL_panic (w h orient style : Nat) (u reset : Bool) (mbI : Int) (PL : List Nat) (bytes : List Nat)
    (f : Nat) (s : LDec) (n pi pt : Nat) (hpt : pt ≤ 2) (hc : pi < PL.length)
    (hco : coderG reset (J2kT1.isLazyRawPass (n : Int) mbI (pt : Int) (style : Int))
          (fun b p => u || J2kT1.isTerminatingPass b mbI (p : Int) (style : Int)) PL bytes s s.st.mq (n : Int) pi pt = .panic) :
    decLoopL w h orient style u reset mbI PL bytes (f + 1) s (n : Int) pi pt = .panic := by
  rw [decLoopL_stepG w h orient style u reset mbI PL bytes f s n pi pt hpt hc, hco]

/-- the decoder loop over the first segment runs like `DecodeWithBitplane`'s loop on the segment decoder -/
theorem decLoopL_runA (w h orient style : Nat) (mb : Nat) (PL bytes : List Nat)
    (hLz : Go.and (style : Int) J2kT1.CblkStyleLazy ≠ 0) (hT : Go.and (style : Int) J2kT1.CblkStyleTermAll = 0) :
    ∀ (n : Nat) (s : LDec) (d : Mqc.Dec) (pe : Nat) (bp pi pt fuel : Nat), pt ≤ 2 → mb - 3 ≤ bp →
      n + 1 = 3 * (bp - (mb - 3)) + 3 - pt → n + 1 ≤ fuel → pi + n + 1 ≤ PL.length →
      coderG (styReset style) false (fun b p => false || J2kT1.isTerminatingPass b (mb : Int) (p : Int) (style : Int))
        PL bytes s s.st.mq (bp : Int) pi pt = .ok (d, pe) →
      decLoopL w h orient style false (styReset style) (mb : Int) PL bytes fuel s (bp : Int) pi pt =
        match decLoop w h orient style (pi + n + 1) fuel { s.st with mq := d } (bp : Int) pi pt with
        | none => .panic
        | some st' =>
          decLoopL w h orient style false (styReset style) (mb : Int) PL bytes (fuel - (n + 1))
            { st := st', prevEnd := pe, prevCtx := if ¬ styReset style = true then st'.mq.ctx else s.prevCtx, newSegment := true }
            (((mb - 3 : Nat) : Int) - 1) (pi + n + 1) 0 := by
  intro n
  induction n with
  | zero =>
    intro s d pe bp pi pt fuel hpt hb hn hf hnp hco
    have hpos : pt = 2 ∧ bp = mb - 3 := by omega
    obtain ⟨rfl, rfl⟩ := hpos
    obtain ⟨hraw, hterm⟩ := phaseA_pred mb (mb - 3) 2 (style : Int) hLz hT (Nat.le_refl _)
    rw [show decide (2 = 2 ∧ mb - 3 = mb - 3) = true by simp] at hterm
    obtain ⟨f, rfl⟩ : ∃ f, fuel = f + 1 := ⟨fuel - 1, by omega⟩
    rw [decLoopL_stepG w h orient style false (styReset style) (mb : Int) PL bytes f s (mb - 3) pi 2 (by omega) (by omega), hraw, hco]
    simp only [passDG_false]
    rw [decLoop_step w h orient style (pi + 0 + 1) f _ (mb - 3) pi 2 (by omega) (by omega), cvD_mq pi 2 s.st d]
    cases passD w h orient (mb - 3) 2 { cvD pi 2 s.st with mq := d } with
    | none => rfl
    | some st1 =>
      simp only [Option.bind_some]
      cases segD style 2 st1 with
      | none => rfl
      | some st2 =>
        simp only [Option.bind_some]
        rw [if_neg (show ¬(styReset style = true ∧ pi + 1 < pi + 0 + 1) from fun hh => absurd hh.2 (by omega))]
        simp only [Option.bind_some, if_true, hterm, Bool.or_true, Bool.false_or]
        rw [decLoop_exitN _ _ _ _ _ _ _ _ _ _ (by omega)]
        simp only [Bool.false_eq_true, not_false_eq_true, true_and]
        rw [show f + 1 - (0 + 1) = f by omega, show pi + 0 + 1 = pi + 1 by omega]
  | succ n ih =>
    intro s d pe bp pi pt fuel hpt hb hn hf hnp hco
    obtain ⟨hraw, hterm⟩ := phaseA_pred mb bp pt (style : Int) hLz hT hb
    rw [show decide (pt = 2 ∧ bp = mb - 3) = false by rw [decide_eq_false_iff_not]; omega] at hterm
    obtain ⟨f, rfl⟩ : ∃ f, fuel = f + 1 := ⟨fuel - 1, by omega⟩
    rw [decLoopL_stepG w h orient style false (styReset style) (mb : Int) PL bytes f s bp pi pt hpt (by omega), hraw, hco]
    simp only [passDG_false]
    rw [decLoop_step w h orient style (pi + (n + 1) + 1) f _ bp pi pt hpt (by omega), cvD_mq pi pt s.st d]
    cases passD w h orient bp pt { cvD pi pt s.st with mq := d } with
    | none => rfl
    | some st1 =>
      simp only [Option.bind_some]
      cases hsd : segD style pt st1 with
      | none => rfl
      | some st2 =>
        simp only [Option.bind_some, hterm, Bool.or_false, Bool.false_eq_true, not_false_eq_true, true_and]
        -- the next position
        obtain ⟨bp', pt', hnext, hpt', hb', hn'⟩ : ∃ bp' pt', (if pt = 2 then (bp' = bp - 1 ∧ pt' = 0) else (bp' = bp ∧ pt' = pt + 1)) ∧
            pt' ≤ 2 ∧ mb - 3 ≤ bp' ∧ n + 1 = 3 * (bp' - (mb - 3)) + 3 - pt' := by
          by_cases hp2 : pt = 2
          · exact ⟨bp - 1, 0, by rw [if_pos hp2]; exact ⟨rfl, rfl⟩, by omega, by omega, by omega⟩
          · exact ⟨bp, pt + 1, by rw [if_neg hp2]; exact ⟨rfl, rfl⟩, by omega, by omega, by omega⟩
        obtain ⟨hraw', _⟩ := phaseA_pred mb bp' pt' (style : Int) hLz hT hb'
        have hgoal : ∀ (s1 : LDec), s1.st = st2 → s1.newSegment = false → s1.prevEnd = pe →
            s1.prevCtx = (if ¬ styReset style = true then st2.mq.ctx else s.prevCtx) →
            decLoopL w h orient style false (styReset style) (mb : Int) PL bytes f s1 (bp' : Int) (pi + 1) pt' =
              match (if styReset style = true ∧ pi + 1 < pi + (n + 1) + 1 then (resetCtxDec st2.mq).map (fun m => ({ st2 with mq := m } : DecSt))
                  else some st2).bind fun st => decLoop w h orient style (pi + (n + 1) + 1) f st (bp' : Int) (pi + 1) pt' with
              | none => .panic
              | some st' =>
                decLoopL w h orient style false (styReset style) (mb : Int) PL bytes (f + 1 - (n + 1 + 1))
                  { st := st', prevEnd := pe, prevCtx := if ¬ styReset style = true then st'.mq.ctx else s.prevCtx, newSegment := true }
                  (((mb - 3 : Nat) : Int) - 1) (pi + (n + 1) + 1) 0 := by
          intro s1 h1 h2 h3 h4
          obtain ⟨f', rfl⟩ : ∃ f', f = f' + 1 := ⟨f - 1, by omega⟩
          by_cases hr : styReset style = true
          · rw [if_pos ⟨hr, by omega⟩]
            cases hrc : resetCtxDec st2.mq with
            | none =>
              simp only [Option.map_none, Option.bind_none]
              apply decLoopL_panic _ _ _ _ _ _ _ _ _ _ _ _ _ _ hpt' (by omega)
              rw [hraw']
              unfold coderG
              rw [if_neg (by rw [h2]; simp), if_pos ⟨hr, by simp⟩, h1, hrc]
            | some d1 =>
              simp only [Option.map_some, Option.bind_some]
              have hco1 : coderG (styReset style) false (fun b p => false || J2kT1.isTerminatingPass b (mb : Int) (p : Int) (style : Int))
                  PL bytes s1 s1.st.mq (bp' : Int) (pi + 1) pt' = .ok (d1, pe) := by
                unfold coderG
                rw [if_neg (by rw [h2]; simp), if_pos ⟨hr, by simp⟩, h1, hrc, h3]
              rw [ih s1 d1 pe bp' (pi + 1) pt' (f' + 1) hpt' hb' hn' (by omega) (by omega) hco1, h1,
                show pi + 1 + n + 1 = pi + (n + 1) + 1 by omega, h4,
                show f' + 1 - (n + 1) = f' + 1 + 1 - (n + 1 + 1) by omega]
              simp only [hr, not_true_eq_false, if_false]
              all_goals rfl
          · rw [if_neg (fun hh => hr hh.1)]
            simp only [Option.bind_some]
            have hco1 : coderG (styReset style) false (fun b p => false || J2kT1.isTerminatingPass b (mb : Int) (p : Int) (style : Int))
                PL bytes s1 s1.st.mq (bp' : Int) (pi + 1) pt' = .ok (st2.mq, pe) := by
              unfold coderG
              rw [if_neg (by rw [h2]; simp), if_neg (fun hh => hr hh.1), h1, h3]
            rw [ih s1 st2.mq pe bp' (pi + 1) pt' (f' + 1) hpt' hb' hn' (by omega) (by omega) hco1, h1,
              show pi + 1 + n + 1 = pi + (n + 1) + 1 by omega, h4,
              show f' + 1 - (n + 1) = f' + 1 + 1 - (n + 1 + 1) by omega]
            simp only [hr, not_false_eq_true, if_true]
            all_goals rfl
        by_cases hp2 : pt = 2
        · rw [if_pos hp2] at hnext
          obtain ⟨rfl, rfl⟩ := hnext
          simp only [if_pos hp2]
          rw [show ((bp : Int) - 1) = ((bp - 1 : Nat) : Int) by omega]
          exact hgoal _ rfl rfl rfl rfl
        · rw [if_neg hp2] at hnext
          obtain ⟨rfl, rfl⟩ := hnext
          simp only [if_neg hp2]
          exact hgoal _ rfl rfl rfl rfl

theorem segLast_runA (mb np : Nat) (style : Int) (hLz : Go.and style J2kT1.CblkStyleLazy ≠ 0)
    (hT : Go.and style J2kT1.CblkStyleTermAll = 0) :
    ∀ (n fuel last bp pt : Nat), pt ≤ 2 → mb - 3 ≤ bp → n + 1 = 3 * (bp - (mb - 3)) + 3 - pt → n + 1 ≤ fuel →
      last + n + 1 ≤ np →
      segLast (fun b p => false || J2kT1.isTerminatingPass b (mb : Int) (p : Int) style) np fuel last (bp : Int) pt = last + n := by
  intro n
  induction n with
  | zero =>
    intro fuel last bp pt hpt hb hn hf hnp
    have hpos : pt = 2 ∧ bp = mb - 3 := by omega
    obtain ⟨_, hterm⟩ := phaseA_pred mb bp pt style hLz hT hb
    rw [show decide (pt = 2 ∧ bp = mb - 3) = true by rw [decide_eq_true_iff]; exact hpos] at hterm
    rw [segLast_term _ _ _ _ _ _ (by rw [hterm]; rfl)]; rfl
  | succ n ih =>
    intro fuel last bp pt hpt hb hn hf hnp
    obtain ⟨_, hterm⟩ := phaseA_pred mb bp pt style hLz hT hb
    rw [show decide (pt = 2 ∧ bp = mb - 3) = false by rw [decide_eq_false_iff_not]; omega] at hterm
    obtain ⟨f, rfl⟩ : ∃ f, fuel = f + 1 := ⟨fuel - 1, by omega⟩
    conv => lhs; unfold segLast
    rw [if_pos ⟨by omega, by rw [hterm]; simp⟩]
    by_cases hp2 : pt = 2
    · rw [if_pos hp2, show ((bp : Int) - 1) = ((bp - 1 : Nat) : Int) by omega,
        ih f (last + 1) (bp - 1) 0 (by omega) (by omega) (by omega) (by omega) (by omega)]
      omega
    · rw [if_neg hp2, ih f (last + 1) bp (pt + 1) (by omega) hb (by omega) (by omega) (by omega)]
      omega

section PhaseA
variable (w h : Nat) (V : Array Int) (hV : ∀ j, (gi V j).natAbs < 2147483648)
include hV

/-- the first codeword segment under LAZY without TERMALL, both loops -/
theorem phaseA_lock (orient style mb np : Nat)
    (hLz : Go.and (style : Int) J2kT1.CblkStyleLazy ≠ 0) (hT0 : Go.and (style : Int) J2kT1.CblkStyleTermAll = 0)
    (er : EncSt) (hs : EncOk w h V er) (hst : StartOk er.mq) (hctx0 : er.mq.ctx = ctx3 (Array.replicate 19 0))
    (n : Nat) (hn : n + 1 = 3 * (mb - (mb - 3)) + 1) (hnp : n + 1 ≤ np) :
    ∃ (ef : Mqc.Enc) (es5 : EncSt) (recsA : List PassRec), recsA.length = n ∧ (∀ x ∈ recsA, x.2 = false) ∧
      (∀ fuel acc, n + 1 ≤ fuel → encLoopL w h orient style V mb np fuel er (mb : Int) 0 2 false acc =
        encLoopL w h orient style V mb np (fuel - (n + 1)) es5 (((mb - 3 : Nat) : Int) - 1) (n + 1) 0 true
          (acc ++ recsA ++ [(ef.bp - 1, true)])) ∧
      EncOkT w h V es5 true ∧ es5.mq.bp = ef.bp ∧ TermOk es5.mq ∧ er.mq.bp + 1 ≤ ef.bp ∧
      (styPterm style = false → er.mq.bp + 2 ≤ ef.bp) ∧
      (∀ (bytesF : List Nat), Agree bytesF es5.mq →
        Agree bytesF ef ∧ (∀ k, k + 1 ≤ er.mq.bp → bytesF[k]? = some (Mqc.rd er.mq.buf (k + 1))) ∧
          (0 < ef.bp - 1 → bytesF.getD (ef.bp - 1 - 1) 0 ≠ 0xFF)) ∧
      (∀ (bytesF PL : List Nat), Agree bytesF ef → PL[n]? = some (ef.bp - 1) → n < PL.length →
        ∀ (s : LDec), s.newSegment = true → s.prevEnd = er.mq.bp → PInv w h V (fun _ _ => True) mb 0 2 er s.st →
        ∀ fuel, n + 1 ≤ fuel →
        ∃ ds3, Post w h V (fun _ _ => True) (mb - 3) 2 es5 ds3 ∧
          CtxInv (styReset style) (n + 1) es5.mq.ctx (if ¬ styReset style = true then ds3.mq.ctx else s.prevCtx) ∧
          decLoopL w h orient style false (styReset style) (mb : Int) PL bytesF fuel s (mb : Int) 0 2 =
            decLoopL w h orient style false (styReset style) (mb : Int) PL bytesF (fuel - (n + 1))
              { st := ds3, prevEnd := ef.bp - 1, prevCtx := if ¬ styReset style = true then ds3.mq.ctx else s.prevCtx, newSegment := true }
              (((mb - 3 : Nat) : Int) - 1) (n + 1) 0) := by
  have hcount : n + 1 = 3 * (mb - (mb - 3)) + 3 - 2 := by omega
  have hle : n + 1 ≤ 3 * mb + 3 - 2 := by omega
  -- forward run with the segment invariant
  have hCf := coder_fwd (Mqc.InSeg er.mq.bp er.mq.buf) (fun e e1 bit cx h1 h2 h3 h4 h5 =>
    Mqc.seg_encode _ _ e e1 bit cx h1 h2 h3 h4 h5)
  have hXf := coderCtx_fwd (Mqc.InSeg er.mq.bp er.mq.buf) (fun e c hp => inSeg_ctx _ _ e c hp)
  obtain ⟨esT, heT, hokT, hfwT, _⟩ := passesT_lock w h V _ _ hCf hXf hV orient style (n + 1) n er mb 0 2 hs (by omega) hle
  have hseg0 : Mqc.InSeg er.mq.bp er.mq.buf er.mq :=
    ⟨fun _ _ => rfl, Or.inl ⟨rfl, by rw [hst.a, hst.c, hst.ct]; decide⟩⟩
  have hsegT : Mqc.InSeg er.mq.bp er.mq.buf esT.mq := by
    rcases Classical.em (Mqc.InSeg er.mq.bp er.mq.buf esT.mq) with h' | h'
    · exact h'
    · exact absurd hseg0 (hfwT h')
  obtain ⟨ef, last, len, hef, hefctx, hterm, hB, hfe, hlen, hBk, hfroz, hbp2, hbp2'⟩ :=
    term_facts style esT.mq hokT.reg hokT.norm er.mq.bp er.mq.buf hsegT hst.nf
  obtain ⟨C, hre, hCsz, hCok, hCa, hCb⟩ := reset_after style esT.flags ef (by rw [hefctx]; exact hokT.nctx) hterm.ctx
  obtain ⟨recsA, hrl, hrall, henc⟩ := encLoopL_runA w h orient style V mb np hLz hT0 n er esT mb 0 2 (by omega) (by omega)
    hcount (by omega) heT
  have hterm5 : TermOk ({ ef with ctx := C } : Mqc.Enc) := ⟨hterm.bp1, hterm.sz, hterm.bytes, hterm.marker, hterm.last, hCok⟩
  refine ⟨ef, { flags := esT.flags, mq := { ef with ctx := C } }, recsA, hrl, hrall, ?_,
    ⟨hokT.fsz, hokT.dsz, hCsz, by simp only [if_true]; exact hterm5⟩, rfl, hterm5, hbp2, hbp2', ?_, ?_⟩
  · intro fuel acc hfu
    rw [henc fuel acc hfu, hef]
    simp only [Option.bind_some]
    rw [hre]
    simp only [Option.bind_some]
    rw [numBytes_eq _ hterm5.bp1, show 0 + n + 1 = n + 1 by omega]
  · intro bytesF hag
    have hagf : Agree bytesF ef := hag
    refine ⟨hagf, ?_, ?_⟩
    · intro k hk
      rw [hagf.1 k (by omega), hfroz (k + 1) hk]
    · intro hpos
      rw [List.getD_eq_getElem?_getD, hagf.1 (ef.bp - 1 - 1) (by omega)]
      rw [show ef.bp - 1 - 1 + 1 = ef.bp - 1 by omega]
      exact hterm.last
  · intro bytesF PL hagf hPL hpiL s hns hpe hP fuel hfu
    have hFk : ∀ k, k < len → bytesF[k]? = some (Mqc.finalB ef.buf last (k + 1)) := by
      intro k hk
      rw [hBk k hk]; exact hagf.1 k (by omega)
    have hbl : ef.bp - 1 ≤ bytesF.length := hagf.2
    have hpre : (bytesF.take er.mq.bp).toArray.size = er.mq.bp := by
      simp only [List.size_toArray, List.length_take]; omega
    have hpd : ∀ k, k < er.mq.bp → Mqc.rd (bytesF.take er.mq.bp).toArray k = Mqc.finalB ef.buf last (k + 1) := by
      intro k hk
      unfold Mqc.rd
      rw [List.getElem?_toArray, List.getElem?_take, if_pos hk, hFk k (by omega)]; rfl
    have hsl : ((bytesF.take (ef.bp - 1)).drop er.mq.bp).length = len - er.mq.bp := by
      rw [List.length_drop, List.length_take]; omega
    have hseg : ∀ k, k < ((bytesF.take (ef.bp - 1)).drop er.mq.bp).length →
        ((bytesF.take (ef.bp - 1)).drop er.mq.bp)[k]? = some (Mqc.finalB ef.buf last (er.mq.bp + k + 1)) := by
      intro k hk
      rw [hsl] at hk
      rw [List.getElem?_drop, List.getElem?_take, if_pos (by omega), hFk (er.mq.bp + k) (by omega)]
    have hCr := coder_seg (Mqc.finalB ef.buf last) last len hB (bytesF.take er.mq.bp).toArray
    have hXr := coderCtx_seg (Mqc.finalB ef.buf last) last len (bytesF.take er.mq.bp).toArray
    obtain ⟨esT', heT', _, hbT, hlT⟩ := passesT_lock w h V _ _ hCr hXr hV orient style (0 + n + 1) n er mb 0 2 hs (by omega) hle
    have eTT : esT' = esT := Option.some.inj (heT'.symm.trans heT)
    subst eTT
    have hFr := hbT hfe
    obtain ⟨d0, hd0, hrel⟩ := Mqc.decInit_rel _ last len hB er.mq er.mq.bp _ rfl hst.a hst.c hst.ct hst.nf
      (bytesF.take er.mq.bp).toArray hpre hpd (by rw [hsl]; omega) hseg hFr
    have hco : coderG (styReset style) false (fun b p => false || J2kT1.isTerminatingPass b (mb : Int) (p : Int) (style : Int))
        PL bytesF s s.st.mq (mb : Int) 0 2 = .ok (d0, ef.bp - 1) := by
      unfold coderG
      rw [if_pos hns, segLast_runA mb PL.length (style : Int) hLz hT0 n PL.length 0 mb 2 (by omega) (by omega) hcount (by omega) (by omega),
        Nat.zero_add, hPL]
      simp only []
      rw [if_neg (by rw [hpe]; omega)]
      simp only [Bool.false_eq_true, if_false]
      have hsd : segDecoder 0 (styReset style) ((bytesF.take (ef.bp - 1)).drop s.prevEnd) s.prevCtx = some d0 := by
        unfold segDecoder
        rw [if_pos (Or.inl rfl), hpe, dec_init_fresh, ← hctx0]; exact hd0
      rw [hsd]
    rw [decLoopL_runA w h orient style mb PL bytesF hLz hT0 n s d0 (ef.bp - 1) mb 0 2 fuel (by omega) (by omega) hcount hfu (by omega) hco]
    obtain ⟨lev, hL, c0, c1, c2⟩ := hP
    obtain ⟨ds', bpL, ptL, hd', hr1, hr2, hr3, hPost⟩ := hlT hfe { s.st with mq := d0 }
      ⟨lev, ⟨hL.fl, hL.dsz, hrel, hL.smp⟩, c0, c1, c2⟩ (by omega) fuel hfu
    rw [hd']
    simp only []
    have hbpL : bpL = mb - 3 ∧ ptL = 2 := by omega
    obtain ⟨rfl, rfl⟩ := hbpL
    obtain ⟨lev3, hL3, q0, q1, q2⟩ := hPost
    refine ⟨ds', ⟨lev3, ⟨hL3.fl, hL3.dsz, True.intro, hL3.smp⟩, q0, q1, q2⟩, ?_, by rw [show 0 + n + 1 = n + 1 by omega]⟩
    constructor
    · intro hc'
      rcases hc' with hc' | hc'
      · omega
      · exact hCa hc'
    · intro hc'
      have hr : styReset style = false := by
        cases hh : styReset style with
        | false => rfl
        | true => exact absurd (Or.inr hh) hc'
      rw [if_pos (by rw [hr]; simp)]
      show ds'.mq.ctx = C
      rw [hCb hr, hefctx]
      exact hL3.rel.ctx
end PhaseA

end T1
