import GdcVerif.Lemmas.T1OJVal
/-!
  C20 / pipeline configuration, decoder side: the style-0 lock-step of `Lemmas/T1Lock.lean` re-run against the
  decoder with OpenJPEG reconstruction (`Model/T1Pipe.lean`), which works one plane index higher and stores
  `ojv l v` (twice the truncated magnitude plus a half bit) where the plain decoder stores the truncated value.
  The text of the lemmas is that of `T1Lock.lean` with the decoder functions and the data invariant exchanged.
-/
namespace T1
open Gen

theorem decLoopO_exitN (w h orient style np fuel : Nat) (st : DecSt) (bp : Int) (pi pt : Nat) (hp : np ≤ pi) :
    decLoopO w h orient style np fuel st bp pi pt = some st := by
  cases fuel with
  | zero => rfl
  | succ f => unfold decLoopO; rw [if_neg (by omega)]

/-- sample `j` has been coded down to plane `lev j ∈ {bp, bp+1}`: the decoder holds the truncated coefficient and
the significance flag says whether a magnitude bit at or above that plane exists -/
structure SmpO (V : Array Int) (bp : Nat) (lev : Nat → Nat) (fl : Array Nat) (D : Array Int) (j : Nat) : Prop where
  l : lev j = bp ∨ lev j = bp + 1
  d : gi D j = ojv (lev j) (gi V j)
  s : sigA fl j = true ↔ (gi V j).natAbs / 2 ^ lev j ≠ 0

theorem SmpO.frame {V : Array Int} {bp : Nat} {lev lev' : Nat → Nat} {fl fl' : Array Nat} {D D' : Array Int} {j : Nat}
    (hs : SmpO V bp lev fl D j) (h1 : lev' j = lev j) (h2 : sigA fl' j = sigA fl j) (h3 : gi D' j = gi D j) :
    SmpO V bp lev' fl' D' j :=
  ⟨by rw [h1]; exact hs.l, by rw [h1, h3]; exact hs.d, by rw [h1, h2]; exact hs.s⟩

/-- encoder state `es` and decoder state `ds` at the same point of the same pass of plane `bp` -/
structure LSO (w h : Nat) (V : Array Int) (R : Mqc.Enc → Mqc.Dec → Prop) (bp : Nat) (lev : Nat → Nat)
    (es : EncSt) (ds : DecSt) : Prop where
  fl : ds.flags = es.flags
  dsz : ds.data.size = (w + 2) * (h + 2)
  rel : R es.mq ds.mq
  smp : ∀ j, InB w h j → SmpO V bp lev es.flags ds.data j

section Lock
variable (w h : Nat) (V : Array Int) (F : Mqc.Enc → Prop) (R : Mqc.Enc → Mqc.Dec → Prop)
  (hC : Coder F R) (hV : ∀ j, (gi V j).natAbs < 536870912)
include hC hV

/-- `encSign` / `decSign`: a sample that was insignificant and has magnitude bit `bp` set becomes significant -/
theorem sign_lockO (bp : Nat) (es : EncSt) (hs : EncOk w h V es) (f x y : Nat) (hx : x < w) (hy : y < h) :
    ∃ es', encSign w V es f x y (idxOf w x y) = some es' ∧ EncOk w h V es' ∧
      (F es'.mq → F es.mq) ∧
      (∀ j, sigA es'.flags j = (sigA es.flags j || decide (j = idxOf w x y))) ∧
      (∀ j, visA es'.flags j = visA es.flags j) ∧
      (F es'.mq → ∀ (ds : DecSt) (lev : Nat → Nat), LSO w h V R bp lev es ds →
        sigA es.flags (idxOf w x y) = false → magBit (gi V (idxOf w x y)) bp = 1 →
        ∃ ds', decSignO w (bp + 1) ds f x y (idxOf w x y) = some ds' ∧
          LSO w h V R bp (upd lev (idxOf w x y) bp) es' ds') := by
  have hi := idx_lt w h x y hx hy
  have hiV : idxOf w x y < V.size := by rw [hs.dsz]; exact hi
  have hiF : idxOf w x y < es.flags.size := by rw [hs.fsz]; exact hi
  obtain ⟨sc, esc, hsc1, hsc2⟩ := scCtx_ok f
  obtain ⟨sp, esp, hsp⟩ := spb_ok f
  -- the flag updates, as one function of the start flags
  obtain ⟨fl1, e1, s1⟩ : ∃ fl1, (if V[idxOf w x y] < 0 then orAt es.flags (idxOf w x y) fSign else some es.flags) = some fl1 ∧
      fl1.size = es.flags.size := by
    split
    · exact orAt_ok _ _ _ hiF
    · exact ⟨_, rfl, rfl⟩
  obtain ⟨mq, em, hm⟩ := mqEncode_ok w h V es hs ((if V[idxOf w x y] < 0 then 1 else 0) ^^^ sp) sc (by omega)
  obtain ⟨fl2, e2, s2⟩ := orAt_ok fl1 (idxOf w x y) fSig (by rw [s1]; exact hiF)
  obtain ⟨fl3, e3, s3⟩ := updateNeighborFlags_ok w h fl2 x y (by rw [s2, s1, hs.fsz]) hx hy
  have hres : encSign w V es f x y (idxOf w x y) = some { flags := fl3, mq := mq } := by
    unfold encSign
    rw [Array.getElem?_eq_getElem hiV]
    simp only [Option.bind_eq_bind, Option.bind_some, esc, esp]
    by_cases hv : V[idxOf w x y] < 0
    · rw [if_pos hv] at e1 em
      simp only [hv, if_true]
      rw [e1]; simp only [Option.bind_some]
      rw [em]; simp only [Option.bind_some]
      rw [e2]; simp only [Option.bind_some]
      rw [e3]; rfl
    · rw [if_neg hv] at e1 em
      simp only [hv, if_false]
      have e1' : es.flags = fl1 := Option.some.inj e1
      subst e1'
      rw [em]; simp only [Option.bind_some]
      rw [e2]; simp only [Option.bind_some]
      rw [e3]; rfl
  have hfl1 : ∀ j, sigA fl1 j = sigA es.flags j ∧ visA fl1 j = visA es.flags j := by
    intro j
    split at e1
    · exact ⟨orAt_sig _ _ _ _ e1 (by decide) j, orAt_vis _ _ _ _ e1 (by decide) j⟩
    · have e1' : es.flags = fl1 := Option.some.inj e1
      subst e1'; exact ⟨rfl, rfl⟩
  have hf3 := unf_frame w fl2 fl3 x y _ e3
  have hsig : ∀ j, sigA fl3 j = (sigA es.flags j || decide (j = idxOf w x y)) := by
    intro j
    rw [(hf3.2 j).1]
    unfold sigA
    rw [orAt_has fl1 fl2 _ _ e2 j fSig]
    have := (hfl1 j).1; unfold sigA at this; rw [this]
    simp [has, fSig]
  have hvis : ∀ j, visA fl3 j = visA es.flags j := by
    intro j
    rw [(hf3.2 j).2, orAt_vis _ _ _ _ e2 (by decide) j, (hfl1 j).2]
  have hcx : sc < es.mq.ctx.size := by rw [hs.nctx]; omega
  refine ⟨_, hres, ⟨by show fl3.size = _; rw [s3, s2, s1, hs.fsz], hs.dsz, hm.reg, hm.norm, hm.nctx⟩,
    fun hF => hC.back es.mq mq _ sc hs.reg hs.norm hcx em hF, hsig, hvis, ?_⟩
  intro hF ds lev hL hns hmb
  have hsb : (if V[idxOf w x y] < 0 then 1 else 0 : Nat) ≤ 1 := by split <;> omega
  obtain ⟨d1, hd1, hrel1⟩ := hC.step es.mq mq ds.mq _ sc hs.reg hs.norm (xor_cancel _ sp hsb hsp).2 hcx
    hL.rel em hF
  unfold decSignO
  simp only [Option.bind_eq_bind, esc, Option.bind_some, hd1, esp, (xor_cancel _ sp hsb hsp).1, hL.fl]
  have hiD : idxOf w x y < ds.data.size := by rw [hL.dsz]; exact hi
  have hgv : gi V (idxOf w x y) = V[idxOf w x y] := gi_get _ _ hiV
  have hsm := hL.smp _ ⟨x, y, hx, hy, rfl⟩
  have hz : (gi V (idxOf w x y)).natAbs / 2 ^ lev (idxOf w x y) = 0 := by
    have := hsm.s; rw [hns] at this
    rcases Nat.eq_zero_or_pos ((gi V (idxOf w x y)).natAbs / 2 ^ lev (idxOf w x y)) with h0 | h0
    · exact h0
    · exact absurd (this.mpr (by omega)) (by simp)
  have hval := sign_valO (gi V (idxOf w x y)) bp _ (hV _) hsm.l hz hmb
  rw [hgv] at hval
  have hLS : LSO w h V R bp (upd lev (idxOf w x y) bp) { flags := fl3, mq := mq }
      { flags := fl3, data := ds.data.setIfInBounds (idxOf w x y) (ojv bp V[idxOf w x y]), mq := d1 } := by
    refine ⟨rfl, by show (ds.data.setIfInBounds _ _).size = _; rw [Array.size_setIfInBounds]; exact hL.dsz, hrel1, ?_⟩
    intro j hj
    by_cases hji : j = idxOf w x y
    · subst hji
      have hl : upd lev (idxOf w x y) bp (idxOf w x y) = bp := by unfold upd; rw [if_pos rfl]
      refine ⟨Or.inl hl, ?_, ?_⟩
      · show gi (ds.data.setIfInBounds _ _) _ = _
        rw [gi_set _ _ _ _ hiD, if_pos rfl, hl, hgv]
      · show sigA fl3 _ = true ↔ _
        rw [hsig, hl]
        have h1 := newsig _ bp _ hsm.l hz (by rw [← magBit_eq]; exact hmb)
        rw [h1]; simp
    · apply (hL.smp j hj).frame
      · unfold upd; rw [if_neg hji]
      · show sigA fl3 j = _; rw [hsig]; simp [hji]
      · show gi (ds.data.setIfInBounds _ _) j = _; rw [gi_set _ _ _ _ hiD, if_neg hji]
  rw [hval]
  by_cases hv : V[idxOf w x y] < 0
  · rw [if_pos hv] at e1
    rw [if_pos (by rw [if_pos hv]; decide), e1]
    simp only [Option.bind_some]
    rw [if_neg (by omega), e2]
    simp only [Option.bind_some]
    rw [e3]
    exact ⟨_, rfl, hLS⟩
  · rw [if_neg hv] at e1
    have e1' : es.flags = fl1 := Option.some.inj e1
    subst e1'
    rw [if_neg (by rw [if_neg hv]; decide)]
    rw [if_neg (by omega), e2]
    simp only [Option.bind_some]
    rw [e3]
    exact ⟨_, rfl, hLS⟩
end Lock

section Lock
variable (w h : Nat) (V : Array Int) (F : Mqc.Enc → Prop) (R : Mqc.Enc → Mqc.Dec → Prop)
  (hC : Coder F R) (hV : ∀ j, (gi V j).natAbs < 536870912)
include hC hV
theorem spp_lockO (orient bp : Nat) (es : EncSt) (hs : EncOk w h V es) :
    ∃ es', encSigProp w h orient bp V es = some es' ∧ EncOk w h V es' ∧
      (F es'.mq → F es.mq) ∧
      (F es'.mq → ∀ (ds : DecSt),
        (∃ lev, LSO w h V R bp lev es ds ∧ VisLev w h bp lev es.flags ∧ SigOld w h bp lev es.flags) →
        ∃ ds', decSigPropO w h orient (bp + 1) ds = some ds' ∧
          ∃ lev, LSO w h V R bp lev es' ds' ∧ VisLev w h bp lev es'.flags ∧ SigOld w h bp lev es'.flags) := by
  unfold encSigProp decSigPropO
  apply foldlM_lock _ _ (EncOk w h V) (fun s => F s.mq) (fun (p : Nat × Nat) => p.1 < w ∧ p.2 < h)
    (fun _ es ds => ∃ lev, LSO w h V R bp lev es ds ∧ VisLev w h bp lev es.flags ∧ SigOld w h bp lev es.flags)
    _ (coords w h) es (fun p hp => coords_mem w h p.1 p.2 hp) hs
  intro p _ s hps hq
  obtain ⟨x, y⟩ := p
  have hi := idx_lt w h x y hq.1 hq.2
  have hiF : idxOf w x y < s.flags.size := by rw [hps.fsz]; exact hi
  have hiV : idxOf w x y < V.size := by rw [hps.dsz]; exact hi
  simp only []
  rw [Array.getElem?_eq_getElem hiF]
  simp only [Option.bind_eq_bind, Option.bind_some]
  have hgf : gf s.flags (idxOf w x y) = s.flags[idxOf w x y] := gf_get _ _ hiF
  have hgv : gi V (idxOf w x y) = V[idxOf w x y] := gi_get _ _ hiV
  have hinb : InB w h (idxOf w x y) := ⟨x, y, hq.1, hq.2, rfl⟩
  by_cases hsg : has s.flags[idxOf w x y] fSig = true
  · rw [if_pos hsg]
    refine ⟨s, rfl, hps, id, ?_⟩
    intro _ sd ⟨lev, hL, hv5, hso⟩
    rw [hL.fl, Array.getElem?_eq_getElem hiF]
    simp only [Option.bind_some]
    rw [if_pos hsg]
    exact ⟨sd, rfl, lev, hL, hv5, hso⟩
  rw [if_neg hsg]
  by_cases hnb : ¬has s.flags[idxOf w x y] fSigNeighbors = true
  · rw [if_pos hnb]
    refine ⟨s, rfl, hps, id, ?_⟩
    intro _ sd ⟨lev, hL, hv5, hso⟩
    rw [hL.fl, Array.getElem?_eq_getElem hiF]
    simp only [Option.bind_some]
    rw [if_neg hsg, if_pos hnb]
    exact ⟨sd, rfl, lev, hL, hv5, hso⟩
  rw [if_neg hnb, Array.getElem?_eq_getElem hiV]
  simp only [Option.bind_some]
  obtain ⟨c, ec, hc⟩ := zcCtx_ok s.flags[idxOf w x y] orient
  rw [ec]; simp only [Option.bind_some]
  obtain ⟨mq, em, hm⟩ := mqEncode_ok w h V s hps (magBit V[idxOf w x y] bp) c (by omega)
  rw [em]; simp only [Option.bind_some]
  obtain ⟨fl, efl, sfl⟩ := orAt_ok s.flags (idxOf w x y) fVisit hiF
  rw [efl]; simp only [Option.bind_some]
  have hok : EncOk w h V { flags := fl, mq := mq } :=
    ⟨by show fl.size = _; rw [sfl, hps.fsz], hps.dsz, hm.reg, hm.norm, hm.nctx⟩
  have hcx : c < s.mq.ctx.size := by rw [hps.nctx]; omega
  have back1 : F mq → F s.mq := hC.back s.mq mq _ c hps.reg hps.norm hcx em
  have hsg1 : ∀ j, sigA fl j = sigA s.flags j := orAt_sig _ _ _ _ efl (by decide)
  have hvs1 : ∀ j, visA fl j = (visA s.flags j || decide (j = idxOf w x y)) := by
    intro j; unfold visA; rw [orAt_has _ _ _ _ efl j fVisit]; simp [has, fVisit]
  have hns : sigA s.flags (idxOf w x y) = false := by
    unfold sigA; rw [hgf]; simpa using hsg
  have hbit : magBit V[idxOf w x y] bp ≤ 1 := by rw [magBit_eq]; omega
  -- the decoder up to the visit flag
  have hdec : F mq → ∀ (sd : DecSt) (lev : Nat → Nat), LSO w h V R bp lev s sd →
      ∃ d1, Mqc.decode sd.mq c = some (magBit V[idxOf w x y] bp, d1) ∧
        LSO w h V R bp lev { flags := fl, mq := mq } { flags := fl, data := sd.data, mq := d1 } := by
    intro hF sd lev hL
    obtain ⟨d1, hd1, hrel1⟩ := hC.step s.mq mq sd.mq _ c hps.reg hps.norm hbit hcx hL.rel em hF
    exact ⟨d1, hd1, rfl, hL.dsz, hrel1, fun j hj => (hL.smp j hj).frame rfl (hsg1 j) rfl⟩
  by_cases hb : magBit V[idxOf w x y] bp ≠ 0
  · rw [if_pos hb]
    obtain ⟨es', he', hok', hback', hsig', hvis', hlock'⟩ :=
      sign_lockO w h V F R hC hV bp { flags := fl, mq := mq } hok s.flags[idxOf w x y] x y hq.1 hq.2
    refine ⟨es', he', hok', fun hF => back1 (hback' hF), ?_⟩
    intro hF sd ⟨lev, hL, hv5, hso⟩
    obtain ⟨d1, hd1, hL1⟩ := hdec (hback' hF) sd lev hL
    rw [hL.fl, Array.getElem?_eq_getElem hiF]
    simp only [Option.bind_some]
    rw [if_neg hsg, if_neg hnb, ec]
    simp only [Option.bind_some]
    rw [hd1]; simp only [Option.bind_some]
    rw [efl]; simp only [Option.bind_some]
    rw [if_pos hb]
    obtain ⟨ds', hd', hL'⟩ := hlock' hF _ lev hL1 (by rw [hsg1]; exact hns) (by rw [hgv]; omega)
    refine ⟨ds', hd', upd lev (idxOf w x y) bp, hL', ?_, ?_⟩
    · intro j hj hvj
      unfold upd
      by_cases hji : j = idxOf w x y
      · rw [if_pos hji]
      · rw [if_neg hji]
        rw [hvis', hvs1] at hvj
        exact hv5 j hj (by simpa [hji] using hvj)
    · intro j hj hsj hvj
      rw [hvis', hvs1] at hvj
      by_cases hji : j = idxOf w x y
      · simp [hji] at hvj
      · unfold upd; rw [if_neg hji]
        rw [hsig', hsg1] at hsj
        exact hso j hj (by simpa [hji] using hsj) (by simpa [hji] using hvj)
  · rw [if_neg hb]
    refine ⟨_, rfl, hok, back1, ?_⟩
    intro hF sd ⟨lev, hL, hv5, hso⟩
    obtain ⟨d1, hd1, hL1⟩ := hdec hF sd lev hL
    rw [hL.fl, Array.getElem?_eq_getElem hiF]
    simp only [Option.bind_some]
    rw [if_neg hsg, if_neg hnb, ec]
    simp only [Option.bind_some]
    rw [hd1]; simp only [Option.bind_some]
    rw [efl]; simp only [Option.bind_some]
    rw [if_neg hb]
    have hb0 : (gi V (idxOf w x y)).natAbs / 2 ^ bp % 2 = 0 := by
      rw [← magBit_eq, hgv]; omega
    have hsm := hL.smp _ hinb
    have hz : (gi V (idxOf w x y)).natAbs / 2 ^ lev (idxOf w x y) = 0 := by
      have := hsm.s; rw [hns] at this
      rcases Nat.eq_zero_or_pos ((gi V (idxOf w x y)).natAbs / 2 ^ lev (idxOf w x y)) with h0 | h0
      · exact h0
      · exact absurd (this.mpr (by omega)) (by simp)
    have hz' := nonsig_down _ bp _ hsm.l hz hb0
    refine ⟨_, rfl, upd lev (idxOf w x y) bp, ⟨rfl, hL.dsz, hL1.rel, ?_⟩, ?_, ?_⟩
    · intro j hj
      by_cases hji : j = idxOf w x y
      · subst hji
        have hl : upd lev (idxOf w x y) bp (idxOf w x y) = bp := by unfold upd; rw [if_pos rfl]
        refine ⟨Or.inl hl, ?_, ?_⟩
        · show gi sd.data _ = _
          rw [hl, hsm.d, ojv_zero _ _ hz, ojv_zero _ _ hz']
        · show sigA fl _ = true ↔ _
          rw [hl, hsg1, hns, hz']; simp
      · exact (hL1.smp j hj).frame (by unfold upd; rw [if_neg hji]) rfl rfl
    · intro j hj hvj
      unfold upd
      by_cases hji : j = idxOf w x y
      · rw [if_pos hji]
      · rw [if_neg hji]
        have hvj' : visA fl j = true := hvj
        rw [hvs1] at hvj'
        exact hv5 j hj (by simpa [hji] using hvj')
    · intro j hj hsj hvj
      have hvj' : visA fl j = false := hvj
      have hsj' : sigA fl j = true := hsj
      rw [hvs1] at hvj'
      by_cases hji : j = idxOf w x y
      · simp [hji] at hvj'
      · unfold upd; rw [if_neg hji]
        rw [hsg1] at hsj'
        exact hso j hj hsj' (by simpa [hji] using hvj')
end Lock

section Lock
variable (w h : Nat) (V : Array Int) (F : Mqc.Enc → Prop) (R : Mqc.Enc → Mqc.Dec → Prop)
  (hC : Coder F R) (hV : ∀ j, (gi V j).natAbs < 536870912)
include hC hV
theorem mrp_lockO (bp : Nat) (es : EncSt) (hs : EncOk w h V es) :
    ∃ es', encMagRef w h bp V es = some es' ∧ EncOk w h V es' ∧
      (F es'.mq → F es.mq) ∧
      (F es'.mq → ∀ (ds : DecSt),
        (∃ lev, LSO w h V R bp lev es ds ∧ VisLev w h bp lev es.flags ∧ SigOld w h bp lev es.flags) →
        ∃ ds', decMagRefO w h (bp + 1) ds = some ds' ∧
          ∃ lev, LSO w h V R bp lev es' ds' ∧ VisLev w h bp lev es'.flags ∧ SigDone w h bp lev es'.flags) := by
  have key : ∃ es', encMagRef w h bp V es = some es' ∧ EncOk w h V es' ∧
      (F es'.mq → F es.mq) ∧
      (F es'.mq → ∀ (ds : DecSt),
        (∃ lev, LSO w h V R bp lev es ds ∧ MrInv w h bp lev es.flags (coords w h)) →
        ∃ ds', decMagRefO w h (bp + 1) ds = some ds' ∧
          ∃ lev, LSO w h V R bp lev es' ds' ∧ MrInv w h bp lev es'.flags []) := by
    unfold encMagRef decMagRefO
    apply foldlM_lock _ _ (EncOk w h V) (fun s => F s.mq) (fun (p : Nat × Nat) => p.1 < w ∧ p.2 < h)
      (fun l es ds => ∃ lev, LSO w h V R bp lev es ds ∧ MrInv w h bp lev es.flags l)
      _ (coords w h) es (fun p hp => coords_mem w h p.1 p.2 hp) hs
    intro p l s hps hq
    obtain ⟨x, y⟩ := p
    have hi := idx_lt w h x y hq.1 hq.2
    have hiF : idxOf w x y < s.flags.size := by rw [hps.fsz]; exact hi
    have hiV : idxOf w x y < V.size := by rw [hps.dsz]; exact hi
    have hgf : gf s.flags (idxOf w x y) = s.flags[idxOf w x y] := gf_get _ _ hiF
    have hgv : gi V (idxOf w x y) = V[idxOf w x y] := gi_get _ _ hiV
    have hinb : InB w h (idxOf w x y) := ⟨x, y, hq.1, hq.2, rfl⟩
    simp only []
    rw [Array.getElem?_eq_getElem hiF]
    simp only [Option.bind_eq_bind, Option.bind_some]
    by_cases hskip : ¬has s.flags[idxOf w x y] fSig = true ∨ has s.flags[idxOf w x y] fVisit = true
    · rw [if_pos hskip]
      refine ⟨s, rfl, hps, id, ?_⟩
      intro _ sd ⟨lev, hL, hM⟩
      rw [hL.fl, Array.getElem?_eq_getElem hiF]
      simp only [Option.bind_some]
      rw [if_pos hskip]
      refine ⟨sd, rfl, lev, hL, hM.vis, fun a ha => hM.todo a (List.mem_cons_of_mem _ ha), ?_, (List.pairwise_cons.mp hM.nd).2⟩
      intro j hj hsj hvj
      rcases hM.done j hj hsj hvj with h1 | ⟨a, ha, rfl⟩
      · exact Or.inl h1
      · rcases List.mem_cons.mp ha with rfl | ha'
        · exfalso
          unfold sigA at hsj; unfold visA at hvj
          rw [hgf] at hsj hvj
          rcases hskip with h1 | h1
          · exact h1 hsj
          · rw [h1] at hvj; exact absurd hvj (by simp)
        · exact Or.inr ⟨a, ha', rfl⟩
    rw [if_neg hskip, Array.getElem?_eq_getElem hiV]
    simp only [Option.bind_some]
    have hsgt : sigA s.flags (idxOf w x y) = true := by
      unfold sigA; rw [hgf]
      cases hh : has s.flags[idxOf w x y] fSig
      · exact absurd (Or.inl (by rw [hh]; simp)) hskip
      · rfl
    have hvsf : visA s.flags (idxOf w x y) = false := by
      unfold visA; rw [hgf]
      cases hh : has s.flags[idxOf w x y] fVisit
      · rfl
      · exact absurd (Or.inr hh) hskip
    have hmr := mrCtx_ok s.flags[idxOf w x y]
    obtain ⟨mq, em, hm⟩ := mqEncode_ok w h V s hps (magBit V[idxOf w x y] bp) (mrCtx s.flags[idxOf w x y]) (by omega)
    rw [em]; simp only [Option.bind_some]
    obtain ⟨fl, efl, sfl⟩ := orAt_ok s.flags (idxOf w x y) fRefine hiF
    rw [efl]
    have hcx : mrCtx s.flags[idxOf w x y] < s.mq.ctx.size := by rw [hps.nctx]; omega
    have hsg1 : ∀ j, sigA fl j = sigA s.flags j := orAt_sig _ _ _ _ efl (by decide)
    have hvs1 : ∀ j, visA fl j = visA s.flags j := orAt_vis _ _ _ _ efl (by decide)
    have hbit : magBit V[idxOf w x y] bp ≤ 1 := by rw [magBit_eq]; omega
    refine ⟨_, rfl, ⟨by show fl.size = _; rw [sfl, hps.fsz], hps.dsz, hm.reg, hm.norm, hm.nctx⟩,
      hC.back s.mq mq _ _ hps.reg hps.norm hcx em, ?_⟩
    intro hF sd ⟨lev, hL, hM⟩
    obtain ⟨d1, hd1, hrel1⟩ := hC.step s.mq mq sd.mq _ _ hps.reg hps.norm hbit hcx hL.rel em hF
    have hiD : idxOf w x y < sd.data.size := by rw [hL.dsz]; exact hi
    rw [hL.fl, Array.getElem?_eq_getElem hiF]
    simp only [Option.bind_some]
    rw [if_neg hskip, hd1]
    simp only [Option.bind_some]
    rw [Array.getElem?_eq_getElem hiD]
    simp only [Option.bind_some]
    rw [efl]
    have hsm := hL.smp _ hinb
    have hlev : lev (idxOf w x y) = bp + 1 := hM.todo (x, y) List.mem_cons_self hsgt hvsf
    have hnz : (gi V (idxOf w x y)).natAbs / 2 ^ (bp + 1) ≠ 0 := by
      have := hsm.s.mp hsgt; rw [hlev] at this; exact this
    have hcur : sd.data[idxOf w x y] = ojv (bp + 1) (gi V (idxOf w x y)) := by
      rw [← gi_get _ _ hiD, hsm.d, hlev]
    have hnd := List.pairwise_cons.mp hM.nd
    refine ⟨_, rfl, upd lev (idxOf w x y) bp, ⟨rfl, by show (sd.data.setIfInBounds _ _).size = _; rw [Array.size_setIfInBounds]; exact hL.dsz, hrel1, ?_⟩, ?_, ?_, ?_, hnd.2⟩
    · intro j hj
      by_cases hji : j = idxOf w x y
      · subst hji
        have hl : upd lev (idxOf w x y) bp (idxOf w x y) = bp := by unfold upd; rw [if_pos rfl]
        refine ⟨Or.inl hl, ?_, ?_⟩
        · show gi (sd.data.setIfInBounds _ _) _ = _
          rw [gi_set _ _ _ _ hiD, if_pos rfl, hl, hcur, ← hgv]
          exact refine_valO _ bp (hV _) hnz
        · show sigA fl _ = true ↔ _
          rw [hl, hsg1, hsgt]
          have : (gi V (idxOf w x y)).natAbs / 2 ^ bp ≠ 0 := by
            rw [div_succ] at hnz; omega
          simp [this]
      · apply (hL.smp j hj).frame
        · unfold upd; rw [if_neg hji]
        · exact hsg1 j
        · show gi (sd.data.setIfInBounds _ _) j = _; rw [gi_set _ _ _ _ hiD, if_neg hji]
    · intro j hj hvj
      have hvj' : visA fl j = true := hvj
      rw [hvs1] at hvj'
      unfold upd
      by_cases hji : j = idxOf w x y
      · rw [if_pos hji]
      · rw [if_neg hji]; exact hM.vis j hj hvj'
    · intro a ha hsa hva
      have hsa' : sigA fl (idxOf w a.1 a.2) = true := hsa
      have hva' : visA fl (idxOf w a.1 a.2) = false := hva
      rw [hsg1] at hsa'; rw [hvs1] at hva'
      have hne : idxOf w a.1 a.2 ≠ idxOf w x y := fun hh => hnd.1 a ha hh.symm
      unfold upd; rw [if_neg hne]
      exact hM.todo a (List.mem_cons_of_mem _ ha) hsa' hva'
    · intro j hj hsj hvj
      have hsj' : sigA fl j = true := hsj
      have hvj' : visA fl j = false := hvj
      rw [hsg1] at hsj'; rw [hvs1] at hvj'
      by_cases hji : j = idxOf w x y
      · left; unfold upd; rw [if_pos hji]
      · rcases hM.done j hj hsj' hvj' with h1 | ⟨a, ha, rfl⟩
        · left; unfold upd; rw [if_neg hji]; exact h1
        · rcases List.mem_cons.mp ha with rfl | ha'
          · exact absurd rfl hji
          · exact Or.inr ⟨a, ha', rfl⟩
  obtain ⟨es', he, hok, hback, hlock⟩ := key
  refine ⟨es', he, hok, hback, ?_⟩
  intro hF ds ⟨lev, hL, hv5, hso⟩
  obtain ⟨ds', hd', lev', hL', hM'⟩ := hlock hF ds ⟨lev, hL, hv5,
    fun a ha hsa hva => hso _ ⟨a.1, a.2, (coords_mem w h a.1 a.2 ha).1, (coords_mem w h a.1 a.2 ha).2, rfl⟩ hsa hva,
    fun j hj _ _ => by
      obtain ⟨x, y, hx, hy, rfl⟩ := hj
      exact Or.inr ⟨(x, y), coords_cover w h x y hx hy, rfl⟩,
    coords_nodup w h⟩
  refine ⟨ds', hd', lev', hL', hM'.vis, ?_⟩
  intro j hj hsj
  cases hvj : visA es'.flags j
  · rcases hM'.done j hj hsj hvj with h1 | ⟨a, ha, _⟩
    · exact h1
    · exact absurd ha (by simp)
  · exact hM'.vis j hj hvj
end Lock

theorem LSO.down {w h : Nat} {V : Array Int} {R : Mqc.Enc → Mqc.Dec → Prop} {bp : Nat} {lev : Nat → Nat} {es : EncSt} {ds : DecSt}
    (hL : LSO w h V R bp lev es ds) (idx : Nat) (hin : InB w h idx) (hns : sigA es.flags idx = false)
    (hb0 : magBit (gi V idx) bp = 0) : LSO w h V R bp (upd lev idx bp) es ds := by
  refine ⟨hL.fl, hL.dsz, hL.rel, ?_⟩
  intro j hj
  by_cases hji : j = idx
  · subst hji
    have hsm := hL.smp j hj
    have hl : upd lev j bp j = bp := by unfold upd; rw [if_pos rfl]
    have hz : (gi V j).natAbs / 2 ^ lev j = 0 := by
      have := hsm.s; rw [hns] at this
      rcases Nat.eq_zero_or_pos ((gi V j).natAbs / 2 ^ lev j) with h0 | h0
      · exact h0
      · exact absurd (this.mpr (by omega)) (by simp)
    have hz' := nonsig_down _ bp _ hsm.l hz (by rw [← magBit_eq]; exact hb0)
    refine ⟨Or.inl hl, ?_, ?_⟩
    · rw [hl, hsm.d, ojv_zero _ _ hz, ojv_zero _ _ hz']
    · rw [hl, hns, hz']; simp
  · exact (hL.smp j hj).frame (by unfold upd; rw [if_neg hji]) rfl rfl

/-- `flags[idx] &^= T1Visit` on both sides, for a sample that is at plane `bp` -/
theorem clear_lockO {w h : Nat} {V : Array Int} {R : Mqc.Enc → Mqc.Dec → Prop} {bp : Nat} {lev : Nat → Nat} {es : EncSt} {ds : DecSt}
    (hL : LSO w h V R bp lev es ds) (idx : Nat) (hi : idx < es.flags.size) (Q : Nat → Prop)
    (hC : CInv w h bp (fun j => j = idx ∨ Q j) lev es.flags) (hlev : lev idx = bp) :
    LSO w h V R bp lev { flags := es.flags.setIfInBounds idx (clr es.flags[idx] fVisit), mq := es.mq }
      { flags := es.flags.setIfInBounds idx (clr es.flags[idx] fVisit), data := ds.data, mq := ds.mq } ∧
    CInv w h bp Q lev (es.flags.setIfInBounds idx (clr es.flags[idx] fVisit)) := by
  obtain ⟨hsg, hvs⟩ := clrvis_eff es.flags idx hi
  refine ⟨⟨rfl, hL.dsz, hL.rel, fun j hj => (hL.smp j hj).frame rfl (hsg j) rfl⟩, ?_, ?_, ?_⟩
  · intro j hj hv
    rw [hvs] at hv
    exact hC.vis j hj (by simp at hv; exact hv.1)
  · intro j hj hv
    rw [hsg] at hv
    exact hC.sig j hj hv
  · intro j hj
    rcases hC.rest j hj with (h1 | h1) | h1
    · right; rw [h1]; exact hlev
    · exact Or.inl h1
    · exact Or.inr h1

section Lock
variable (w h : Nat) (V : Array Int) (F : Mqc.Enc → Prop) (R : Mqc.Enc → Mqc.Dec → Prop)
  (hC : Coder F R) (hV : ∀ j, (gi V j).natAbs < 536870912)
include hC hV

theorem clean_sample_lockO (orient bp : Nat) (es : EncSt) (hs : EncOk w h V es) (x y : Nat) (p : Bool)
    (hx : x < w) (hy : y < h) :
    ∃ r, encCleanSample w orient bp V es x y p = some r ∧ EncOk w h V r.1 ∧
      (F r.1.mq → F es.mq) ∧
      (sigA es.flags (idxOf w x y) = false → visA es.flags (idxOf w x y) = false → r.2 = false) ∧
      (p = false → r.2 = false) ∧
      (F r.1.mq → ∀ (ds : DecSt) (Q : Nat → Prop),
        (∃ lev, LSO w h V R bp lev es ds ∧ CInv w h bp (fun j => j = idxOf w x y ∨ Q j) lev es.flags) →
        (p = true → sigA es.flags (idxOf w x y) = false ∧ visA es.flags (idxOf w x y) = false ∧
          magBit (gi V (idxOf w x y)) bp = 1) →
        ∃ dr, decCleanSampleO w orient (bp + 1) ds x y p = some dr ∧ dr.2 = r.2 ∧
          ∃ lev, LSO w h V R bp lev r.1 dr.1 ∧ CInv w h bp Q lev r.1.flags) := by
  have hi := idx_lt w h x y hx hy
  have hiF : idxOf w x y < es.flags.size := by rw [hs.fsz]; exact hi
  have hiV : idxOf w x y < V.size := by rw [hs.dsz]; exact hi
  have hgf : gf es.flags (idxOf w x y) = es.flags[idxOf w x y] := gf_get _ _ hiF
  have hgv : gi V (idxOf w x y) = V[idxOf w x y] := gi_get _ _ hiV
  have hinb : InB w h (idxOf w x y) := ⟨x, y, hx, hy, rfl⟩
  unfold encCleanSample decCleanSampleO
  simp only []
  rw [Array.getElem?_eq_getElem hiF]
  simp only [Option.bind_eq_bind, Option.bind_some]
  by_cases hskip : has es.flags[idxOf w x y] fVisit = true ∨ has es.flags[idxOf w x y] fSig = true
  · rw [if_pos hskip]
    refine ⟨_, rfl, ⟨by simp [hs.fsz], hs.dsz, hs.reg, hs.norm, hs.nctx⟩, id, ?_, fun hp => hp, ?_⟩
    · intro hns hnv
      unfold sigA at hns; unfold visA at hnv; rw [hgf] at hns hnv
      rcases hskip with h1 | h1
      · rw [h1] at hnv; exact absurd hnv (by simp)
      · rw [h1] at hns; exact absurd hns (by simp)
    · intro _ ds Q ⟨lev, hL, hC⟩ _
      rw [hL.fl, Array.getElem?_eq_getElem hiF]
      simp only [Option.bind_some]
      rw [if_pos hskip]
      have hlev : lev (idxOf w x y) = bp := by
        rcases hskip with h1 | h1
        · exact hC.vis _ hinb (by unfold visA; rw [hgf]; exact h1)
        · exact hC.sig _ hinb (by unfold sigA; rw [hgf]; exact h1)
      obtain ⟨h1, h2⟩ := clear_lockO hL (idxOf w x y) hiF Q hC hlev
      exact ⟨_, rfl, rfl, lev, h1, h2⟩
  have hns : sigA es.flags (idxOf w x y) = false := by
    unfold sigA; rw [hgf]
    cases hh : has es.flags[idxOf w x y] fSig
    · rfl
    · exact absurd (Or.inr hh) hskip
  have updl : ∀ lev : Nat → Nat, upd lev (idxOf w x y) bp (idxOf w x y) = bp := by
    intro lev; unfold upd; rw [if_pos rfl]
  rw [if_neg hskip, Array.getElem?_eq_getElem hiV]
  simp only [Option.bind_some]
  cases p
  · simp only [Bool.false_eq_true, if_false]
    obtain ⟨c, ec, hc⟩ := zcCtx_ok es.flags[idxOf w x y] orient
    rw [ec]; simp only [Option.bind_some]
    obtain ⟨mq, em, hm⟩ := mqEncode_ok w h V es hs (magBit V[idxOf w x y] bp) c (by omega)
    rw [em]; simp only [Option.bind_some]
    have hcx : c < es.mq.ctx.size := by rw [hs.nctx]; omega
    have back1 : F mq → F es.mq := hC.back es.mq mq _ c hs.reg hs.norm hcx em
    have hbit : magBit V[idxOf w x y] bp ≤ 1 := by rw [magBit_eq]; omega
    have hdec : F mq → ∀ (sd : DecSt) (lev : Nat → Nat), LSO w h V R bp lev es sd →
        ∃ d1, Mqc.decode sd.mq c = some (magBit V[idxOf w x y] bp, d1) ∧
          LSO w h V R bp lev { flags := es.flags, mq := mq } { flags := es.flags, data := sd.data, mq := d1 } := by
      intro hF sd lev hL
      obtain ⟨d1, hd1, hrel1⟩ := hC.step es.mq mq sd.mq _ c hs.reg hs.norm hbit hcx hL.rel em hF
      exact ⟨d1, hd1, rfl, hL.dsz, hrel1, fun j hj => (hL.smp j hj).frame rfl rfl rfl⟩
    by_cases hb : magBit V[idxOf w x y] bp ≠ 0
    · rw [if_pos hb]
      obtain ⟨es2, he2, hok2, hback2, hsig2, hvis2, hlock2⟩ :=
        sign_lockO w h V F R hC hV bp { flags := es.flags, mq := mq } hm es.flags[idxOf w x y] x y hx hy
      have hiF2 : idxOf w x y < es2.flags.size := by rw [hok2.fsz]; exact hi
      rw [he2]; simp only [Option.bind_some]
      rw [Array.getElem?_eq_getElem hiF2]; simp only [Option.bind_some]
      refine ⟨_, rfl, ⟨by simp [hok2.fsz], hok2.dsz, hok2.reg, hok2.norm, hok2.nctx⟩,
        fun hF => back1 (hback2 hF), fun _ _ => rfl, fun _ => rfl, ?_⟩
      intro hF ds Q ⟨lev, hL, hC⟩ _
      obtain ⟨d1, hd1, hL1⟩ := hdec (hback2 hF) ds lev hL
      rw [hL.fl, Array.getElem?_eq_getElem hiF]
      simp only [Option.bind_some]
      rw [if_neg hskip, ec]
      simp only [Option.bind_some]
      rw [hd1]; simp only [Option.bind_some]
      rw [if_pos hb]
      obtain ⟨ds2, hd2, hL2⟩ := hlock2 hF _ lev hL1 hns (by rw [hgv]; omega)
      rw [hd2]; simp only [Option.bind_some]
      rw [hL2.fl, Array.getElem?_eq_getElem hiF2]; simp only [Option.bind_some]
      obtain ⟨h1, h2⟩ := clear_lockO hL2 (idxOf w x y) hiF2 Q (hC.afterSign _ hsig2 hvis2) (updl lev)
      exact ⟨_, rfl, rfl, _, h1, h2⟩
    · rw [if_neg hb, Array.getElem?_eq_getElem hiF]
      simp only [Option.bind_some]
      refine ⟨_, rfl, ⟨by simp [hs.fsz], hs.dsz, hm.reg, hm.norm, hm.nctx⟩, back1, fun _ _ => rfl, fun _ => rfl, ?_⟩
      intro hF ds Q ⟨lev, hL, hC⟩ _
      obtain ⟨d1, hd1, hL1⟩ := hdec hF ds lev hL
      rw [hL.fl, Array.getElem?_eq_getElem hiF]
      simp only [Option.bind_some]
      rw [if_neg hskip, ec]
      simp only [Option.bind_some]
      rw [hd1]; simp only [Option.bind_some]
      rw [if_neg hb, Array.getElem?_eq_getElem hiF]
      simp only [Option.bind_some]
      have hL1' := hL1.down (idxOf w x y) hinb hns (by rw [hgv]; omega)
      obtain ⟨h1, h2⟩ := clear_lockO hL1' (idxOf w x y) hiF Q (hC.updLev _) (updl lev)
      exact ⟨_, rfl, rfl, _, h1, h2⟩
  · simp only [if_true, Option.bind_some]
    rw [if_pos (by decide)]
    obtain ⟨es2, he2, hok2, hback2, hsig2, hvis2, hlock2⟩ :=
      sign_lockO w h V F R hC hV bp es hs es.flags[idxOf w x y] x y hx hy
    have hiF2 : idxOf w x y < es2.flags.size := by rw [hok2.fsz]; exact hi
    rw [he2]; simp only [Option.bind_some]
    rw [Array.getElem?_eq_getElem hiF2]; simp only [Option.bind_some]
    refine ⟨_, rfl, ⟨by simp [hok2.fsz], hok2.dsz, hok2.reg, hok2.norm, hok2.nctx⟩,
      hback2, fun _ _ => rfl, fun _ => rfl, ?_⟩
    intro hF ds Q ⟨lev, hL, hC⟩ hp
    obtain ⟨_, _, hmb⟩ := hp True.intro
    rw [hL.fl, Array.getElem?_eq_getElem hiF]
    simp only [Option.bind_some]
    rw [if_neg hskip, if_pos (by decide)]
    obtain ⟨ds2, hd2, hL2⟩ := hlock2 hF _ lev hL hns hmb
    rw [hd2]; simp only [Option.bind_some]
    rw [hL2.fl, Array.getElem?_eq_getElem hiF2]; simp only [Option.bind_some]
    obtain ⟨h1, h2⟩ := clear_lockO hL2 (idxOf w x y) hiF2 Q (hC.afterSign _ hsig2 hvis2) (updl lev)
    exact ⟨_, rfl, rfl, _, h1, h2⟩
end Lock

section Lock
variable (w h : Nat) (V : Array Int) (F : Mqc.Enc → Prop) (R : Mqc.Enc → Mqc.Dec → Prop)
  (hC : Coder F R) (hV : ∀ j, (gi V j).natAbs < 536870912)
include hC hV

/-- the sample loop of a column without run-length mode -/
theorem normal_lockO (orient bp : Nat) (Q : Nat → Prop) (k i : Nat) (hi : i < w) (es : EncSt) (hs : EncOk w h V es) :
    ∃ es', ((List.range 4).filter (fun dy => k + dy < h)).foldlM (fun st dy => do
        let (st, _) ← encCleanSample w orient bp V st i (k + dy) false
        some st) es = some es' ∧ EncOk w h V es' ∧
      (F es'.mq → F es.mq) ∧
      (F es'.mq → ∀ (ds : DecSt),
        (∃ lev, LSO w h V R bp lev es ds ∧ CInv w h bp (fun j => ColS w h k i j ∨ Q j) lev es.flags) →
        ∃ ds', ((List.range 4).filter (fun dy => k + dy < h)).foldlM (fun st dy => do
            let (st, _) ← decCleanSampleO w orient (bp + 1) st i (k + dy) false
            some st) ds = some ds' ∧
          ∃ lev, LSO w h V R bp lev es' ds' ∧ CInv w h bp Q lev es'.flags) := by
  obtain ⟨es', he, hok, hback, hlock⟩ := foldlM_lock
    (fun st dy => do
        let (st, _) ← encCleanSample w orient bp V st i (k + dy) false
        some st)
    (fun st dy => do
        let (st, _) ← decCleanSampleO w orient (bp + 1) st i (k + dy) false
        some st)
    (EncOk w h V) (fun s => F s.mq) (fun dy => dy < 4 ∧ k + dy < h)
    (fun l es ds => ∃ lev, LSO w h V R bp lev es ds ∧
      CInv w h bp (fun j => (∃ dy, dy ∈ l ∧ j = idxOf w i (k + dy)) ∨ Q j) lev es.flags)
    (by
      intro dy l s hps hq
      obtain ⟨r, er, hok, hback, _, _, hlock⟩ :=
        clean_sample_lockO w h V F R hC hV orient bp s hps i (k + dy) false hi hq.2
      simp only [Option.bind_eq_bind]
      rw [er]
      refine ⟨r.1, rfl, hok, hback, ?_⟩
      intro hF sd ⟨lev, hL, hC⟩
      obtain ⟨dr, hdr, _, lev', hL', hC'⟩ := hlock hF sd (fun j => (∃ dy, dy ∈ l ∧ j = idxOf w i (k + dy)) ∨ Q j)
        ⟨lev, hL, hC.mono (by
          intro j hj
          rcases hj with ⟨dy', hdy', rfl⟩ | hq'
          · rcases List.mem_cons.mp hdy' with rfl | h'
            · exact Or.inl rfl
            · exact Or.inr (Or.inl ⟨dy', h', rfl⟩)
          · exact Or.inr (Or.inr hq'))⟩ (fun hh => absurd hh (by simp))
      rw [hdr]
      exact ⟨dr.1, rfl, lev', hL', hC'⟩)
    ((List.range 4).filter (fun dy => k + dy < h)) es
    (by intro a ha; simp only [List.mem_filter, List.mem_range, decide_eq_true_eq] at ha; exact ha) hs
  refine ⟨es', he, hok, hback, ?_⟩
  intro hF ds ⟨lev, hL, hC⟩
  obtain ⟨ds', hd', lev', hL', hC'⟩ := hlock hF ds ⟨lev, hL, hC.mono (by
    intro j hj
    rcases hj with ⟨dy, h1, h2, rfl⟩ | hq'
    · exact Or.inl ⟨dy, by simp only [List.mem_filter, List.mem_range, decide_eq_true_eq]; exact ⟨h1, h2⟩, rfl⟩
    · exact Or.inr hq')⟩
  exact ⟨ds', hd', lev', hL', hC'.mono (by
    intro j hj
    rcases hj with ⟨dy, h1, _⟩ | hq'
    · exact absurd h1 (by simp)
    · exact hq')⟩
end Lock

section Lock
variable (w h : Nat) (V : Array Int) (F : Mqc.Enc → Prop) (R : Mqc.Enc → Mqc.Dec → Prop)
  (hC : Coder F R) (hV : ∀ j, (gi V j).natAbs < 536870912)
include hC hV

/-- the tail of a run-length column: the sample at `pos` becomes significant without a decision, the rest is coded
normally -/
theorem rltail_lockO (orient bp : Nat) (Q : Nat → Prop) (k i pos : Nat) (hi : i < w) (hk : k + 3 < h) (hpos : pos < 4)
    (es : EncSt) (hs : EncOk w h V es)
    (hns : sigA es.flags (idxOf w i (k + pos)) = false) (hnv : visA es.flags (idxOf w i (k + pos)) = false)
    (hmb : magBit (gi V (idxOf w i (k + pos))) bp = 1) :
    ∃ r, ((List.range 4).filter (fun dy => pos ≤ dy)).foldlM (fun (acc : EncSt × Bool) dy =>
        encCleanSample w orient bp V acc.1 i (k + dy) acc.2) (es, true) = some r ∧ EncOk w h V r.1 ∧
      (F r.1.mq → F es.mq) ∧
      (F r.1.mq → ∀ (ds : DecSt),
        (∃ lev, LSO w h V R bp lev es ds ∧
          CInv w h bp (fun j => (∃ dy, pos ≤ dy ∧ dy < 4 ∧ j = idxOf w i (k + dy)) ∨ Q j) lev es.flags) →
        ∃ dr, ((List.range 4).filter (fun dy => pos ≤ dy)).foldlM (fun (acc : DecSt × Bool) dy =>
            decCleanSampleO w orient (bp + 1) acc.1 i (k + dy) acc.2) (ds, true) = some dr ∧
          ∃ lev, LSO w h V R bp lev r.1 dr.1 ∧ CInv w h bp Q lev r.1.flags) := by
  rw [filter_ge pos hpos]
  simp only [List.foldlM_cons]
  obtain ⟨r1, er1, hok1, hback1, hr1f, _, hlock1⟩ :=
    clean_sample_lockO w h V F R hC hV orient bp es hs i (k + pos) true hi (by omega)
  have hr1 : r1.2 = false := hr1f hns hnv
  obtain ⟨r2, er2, hok2, hback2, hlock2⟩ := foldlM_lock
    (fun (acc : EncSt × Bool) dy => encCleanSample w orient bp V acc.1 i (k + dy) acc.2)
    (fun (acc : DecSt × Bool) dy => decCleanSampleO w orient (bp + 1) acc.1 i (k + dy) acc.2)
    (fun acc => EncOk w h V acc.1 ∧ acc.2 = false) (fun acc => F acc.1.mq) (fun dy => dy < 4)
    (fun l acc dacc => dacc.2 = false ∧ ∃ lev, LSO w h V R bp lev acc.1 dacc.1 ∧
      CInv w h bp (fun j => (∃ dy, dy ∈ l ∧ j = idxOf w i (k + dy)) ∨ Q j) lev acc.1.flags)
    (by
      intro dy l s hps hq
      obtain ⟨s1, s2⟩ := s
      obtain ⟨hp1, hp2⟩ := hps
      simp only [] at hp1 hp2 ⊢
      subst hp2
      obtain ⟨r, er, hok, hback, _, hrf, hlock⟩ :=
        clean_sample_lockO w h V F R hC hV orient bp s1 hp1 i (k + dy) false hi (by omega)
      refine ⟨r, er, ⟨hok, hrf rfl⟩, hback, ?_⟩
      intro hF sd ⟨hd2, lev, hL, hC⟩
      obtain ⟨sd1, sd2⟩ := sd
      simp only [] at hd2 hL ⊢
      subst hd2
      obtain ⟨dr, hdr, hdr2, lev', hL', hC'⟩ := hlock hF sd1 (fun j => (∃ dy, dy ∈ l ∧ j = idxOf w i (k + dy)) ∨ Q j)
        ⟨lev, hL, hC.mono (by
          intro j hj
          rcases hj with ⟨dy', hdy', rfl⟩ | hq'
          · rcases List.mem_cons.mp hdy' with rfl | h'
            · exact Or.inl rfl
            · exact Or.inr (Or.inl ⟨dy', h', rfl⟩)
          · exact Or.inr (Or.inr hq'))⟩ (fun hh => absurd hh (by simp))
      exact ⟨dr, hdr, by rw [hdr2]; exact hrf rfl, lev', hL', hC'⟩)
    ((List.range 4).filter (fun dy => pos < dy)) r1
    (by intro a ha; simp only [List.mem_filter, List.mem_range, decide_eq_true_eq] at ha; exact ha.1) ⟨hok1, hr1⟩
  refine ⟨r2, by rw [er1]; exact er2, hok2.1, fun hF => hback1 (hback2 hF), ?_⟩
  intro hF ds ⟨lev, hL, hC⟩
  obtain ⟨dr1, hdr1, hdr12, lev1, hL1, hC1⟩ := hlock1 (hback2 hF) ds
    (fun j => (∃ dy, dy ∈ (List.range 4).filter (fun dy => pos < dy) ∧ j = idxOf w i (k + dy)) ∨ Q j)
    ⟨lev, hL, hC.mono (by
      intro j hj
      rcases hj with ⟨dy, h1, h2, rfl⟩ | hq'
      · rcases Nat.lt_or_ge pos dy with h3 | h3
        · exact Or.inr (Or.inl ⟨dy, by simp only [List.mem_filter, List.mem_range, decide_eq_true_eq]; exact ⟨h2, h3⟩, rfl⟩)
        · have : dy = pos := by omega
          rw [this]; exact Or.inl rfl
      · exact Or.inr (Or.inr hq'))⟩ (fun _ => ⟨hns, hnv, hmb⟩)
  obtain ⟨dr2, hdr2, _, lev2, hL2, hC2⟩ := hlock2 hF dr1 ⟨by rw [hdr12]; exact hr1, lev1, hL1, hC1⟩
  refine ⟨dr2, by rw [hdr1]; exact hdr2, lev2, hL2, hC2.mono (by
    intro j hj
    rcases hj with ⟨dy, h1, _⟩ | hq'
    · exact absurd h1 (by simp)
    · exact hq')⟩
end Lock

theorem down_listO {w h : Nat} {V : Array Int} {R : Mqc.Enc → Mqc.Dec → Prop} {bp : Nat} {es : EncSt} {ds : DecSt}
    (P : Nat → Prop) : ∀ (js : List Nat) (lev : Nat → Nat),
    (∀ j ∈ js, InB w h j ∧ sigA es.flags j = false ∧ magBit (gi V j) bp = 0) →
    LSO w h V R bp lev es ds → CInv w h bp P lev es.flags →
    ∃ lev', LSO w h V R bp lev' es ds ∧ CInv w h bp P lev' es.flags ∧ ∀ j ∈ js, lev' j = bp := by
  intro js
  induction js with
  | nil => intro lev _ hL hC; exact ⟨lev, hL, hC, fun j hj => absurd hj (by simp)⟩
  | cons a js ih =>
    intro lev hjs hL hC
    obtain ⟨ha1, ha2, ha3⟩ := hjs a List.mem_cons_self
    obtain ⟨lev1, hL1, hC1, h1⟩ := ih lev (fun j hj => hjs j (List.mem_cons_of_mem _ hj)) hL hC
    refine ⟨upd lev1 a bp, hL1.down a ha1 ha2 ha3, hC1.updLev a, ?_⟩
    intro j hj
    unfold upd
    split
    · rfl
    · rcases List.mem_cons.mp hj with h' | h'
      · rename_i hne; exact absurd h' hne
      · exact h1 j h'

section Lock
variable (w h : Nat) (V : Array Int) (F : Mqc.Enc → Prop) (R : Mqc.Enc → Mqc.Dec → Prop)
  (hC : Coder F R) (hV : ∀ j, (gi V j).natAbs < 536870912)
include hC hV

omit hV in
/-- one MQ decision on both sides that leaves flags and data alone -/
theorem mqonly_lockO (bp : Nat) (es : EncSt) (hs : EncOk w h V es) (bit cx : Nat) (hbit : bit ≤ 1) (hcx : cx < 19) :
    ∃ mq, Mqc.encode es.mq bit cx = some mq ∧ EncOk w h V { es with mq := mq } ∧
      (F mq → F es.mq) ∧
      (F mq → ∀ (ds : DecSt) (lev : Nat → Nat), LSO w h V R bp lev es ds →
        ∃ d1, Mqc.decode ds.mq cx = some (bit, d1) ∧
          LSO w h V R bp lev { es with mq := mq } { ds with mq := d1 }) := by
  obtain ⟨mq, em, hm⟩ := mqEncode_ok w h V es hs bit cx hcx
  have hcx' : cx < es.mq.ctx.size := by rw [hs.nctx]; exact hcx
  refine ⟨mq, em, hm, hC.back es.mq mq _ cx hs.reg hs.norm hcx' em, ?_⟩
  intro hF ds lev hL
  obtain ⟨d1, hd1, hrel1⟩ := hC.step es.mq mq ds.mq _ cx hs.reg hs.norm hbit hcx' hL.rel em hF
  exact ⟨d1, hd1, hL.fl, hL.dsz, hrel1, hL.smp⟩
end Lock

section Lock
variable (w h : Nat) (V : Array Int) (F : Mqc.Enc → Prop) (R : Mqc.Enc → Mqc.Dec → Prop)
  (hC : Coder F R) (hV : ∀ j, (gi V j).natAbs < 536870912)
include hC hV

theorem cleanup_lockO (orient bp : Nat) (es : EncSt) (hs : EncOk w h V es) :
    ∃ es', encCleanup w h orient bp V es = some es' ∧ EncOk w h V es' ∧
      (F es'.mq → F es.mq) ∧
      (F es'.mq → ∀ (ds : DecSt),
        (∃ lev, LSO w h V R bp lev es ds ∧ VisLev w h bp lev es.flags ∧ SigDone w h bp lev es.flags) →
        ∃ ds', decCleanupO w h orient (bp + 1) ds = some ds' ∧
          ∃ lev, LSO w h V R bp lev es' ds' ∧ ∀ j, InB w h j → lev j = bp) := by
  have key : ∃ es', encCleanup w h orient bp V es = some es' ∧ EncOk w h V es' ∧
      (F es'.mq → F es.mq) ∧
      (F es'.mq → ∀ (ds : DecSt),
        (∃ lev, LSO w h V R bp lev es ds ∧
          CInv w h bp (fun j => ∃ c, c ∈ columns w h ∧ ColS w h c.1 c.2 j) lev es.flags) →
        ∃ ds', decCleanupO w h orient (bp + 1) ds = some ds' ∧
          ∃ lev, LSO w h V R bp lev es' ds' ∧
            CInv w h bp (fun j => ∃ c, c ∈ ([] : List (Nat × Nat)) ∧ ColS w h c.1 c.2 j) lev es'.flags) := by
    unfold encCleanup decCleanupO
    apply foldlM_lock _ _ (EncOk w h V) (fun s => F s.mq) (fun (p : Nat × Nat) => p.2 < w ∧ p.1 < h)
      (fun l es ds => ∃ lev, LSO w h V R bp lev es ds ∧
        CInv w h bp (fun j => ∃ c, c ∈ l ∧ ColS w h c.1 c.2 j) lev es.flags)
      _ (columns w h) es (fun p hp => columns_mem w h p.1 p.2 hp) hs
    intro p l s hps hq
    obtain ⟨k, i⟩ := p
    simp only [] at hq
    simp only [Option.bind_eq_bind]
    -- the invariant handed to the column: its own samples or those of the remaining columns
    have hQ : ∀ (lev : Nat → Nat) (fl : Array Nat),
        CInv w h bp (fun j => ∃ c, c ∈ (k, i) :: l ∧ ColS w h c.1 c.2 j) lev fl →
        CInv w h bp (fun j => ColS w h k i j ∨ ∃ c, c ∈ l ∧ ColS w h c.1 c.2 j) lev fl := by
      intro lev fl hC
      apply hC.mono
      intro j ⟨c, hc, hcs⟩
      rcases List.mem_cons.mp hc with rfl | h'
      · exact Or.inl hcs
      · exact Or.inr ⟨c, h', hcs⟩
    have hnormal := normal_lockO w h V F R hC hV orient bp (fun j => ∃ c, c ∈ l ∧ ColS w h c.1 c.2 j) k i hq.1 s hps
    by_cases hk3 : k + 3 < h
    · simp only [hk3, if_true]
      obtain ⟨can, pos, er, hcan, hpos⟩ := rlScan_spec w h bp V s.flags k i hps.fsz hps.dsz hq.1 hk3
      obtain ⟨can', er', hcan'⟩ := rlScanDec_spec w h s.flags k i hps.fsz hq.1 hk3
      have hcc : can' = can := by
        have h1 : (can' = true) ↔ (can = true) := hcan'.trans hcan.symm
        cases can <;> cases can'
        · rfl
        · exact absurd (h1.mp rfl) (by simp)
        · exact absurd (h1.mpr rfl) (by simp)
        · rfl
      subst hcc
      rw [er]; simp only [Option.bind_some]
      cases can'
      · simp only [Bool.false_eq_true, if_false]
        obtain ⟨es', he, hok, hback, hlock⟩ := hnormal
        refine ⟨es', he, hok, hback, ?_⟩
        intro hF sd ⟨lev, hL, hC⟩
        rw [hL.fl, er']; simp only [Option.bind_some, Bool.false_eq_true, if_false]
        exact hlock hF sd ⟨lev, hL, hQ lev _ hC⟩
      · simp only [if_true]
        have hgood := hcan.mp rfl
        have hdscan : ∀ (sd : DecSt), sd.flags = s.flags → rlScanDec w sd.flags k i = some true := by
          intro sd hfl; rw [hfl]; exact er'
        have hinb : ∀ dy, dy < 4 → InB w h (idxOf w i (k + dy)) := fun dy hdy => ⟨i, k + dy, hq.1, by omega, rfl⟩
        rcases hpos rfl with ⟨hp4, hz⟩ | ⟨hp, hnz, hz⟩
        · -- the whole column is zero at this plane: one decision
          subst hp4
          simp only [show ¬((4 : Nat) < 4) from by decide, if_false]
          obtain ⟨mq, em, hm, hback, hlock⟩ := mqonly_lockO w h V F R hC bp s hps 0 CTXRL (by decide) (by decide)
          rw [em]; simp only [Option.bind_some, if_true]
          refine ⟨_, rfl, hm, hback, ?_⟩
          intro hF sd ⟨lev, hL, hC⟩
          obtain ⟨d1, hd1, hL1⟩ := hlock hF sd lev hL
          rw [hdscan sd hL.fl]; simp only [Option.bind_some, if_true]
          rw [hd1]; simp only [Option.bind_some, if_true]
          obtain ⟨lev', hL', hC', hall⟩ := down_listO (fun j => ColS w h k i j ∨ ∃ c, c ∈ l ∧ ColS w h c.1 c.2 j)
            [idxOf w i (k + 0), idxOf w i (k + 1), idxOf w i (k + 2), idxOf w i (k + 3)] lev
            (by
              intro j hj
              simp only [List.mem_cons, List.mem_nil_iff, or_false] at hj
              rcases hj with rfl | rfl | rfl | rfl
              · exact ⟨hinb 0 (by omega), (hgood 0 (by omega)).2.1, hz 0 (by omega)⟩
              · exact ⟨hinb 1 (by omega), (hgood 1 (by omega)).2.1, hz 1 (by omega)⟩
              · exact ⟨hinb 2 (by omega), (hgood 2 (by omega)).2.1, hz 2 (by omega)⟩
              · exact ⟨hinb 3 (by omega), (hgood 3 (by omega)).2.1, hz 3 (by omega)⟩)
            hL1 (hQ lev _ hC)
          refine ⟨_, rfl, lev', hL', hC'.vis, hC'.sig, ?_⟩
          intro j hj
          rcases hC'.rest j hj with (⟨dy, hdy, _, rfl⟩ | h') | h'
          · right
            apply hall
            have : dy = 0 ∨ dy = 1 ∨ dy = 2 ∨ dy = 3 := by omega
            rcases this with rfl | rfl | rfl | rfl <;> simp
          · exact Or.inl h'
          · exact Or.inr h'
        · -- first significant sample at `pos`: one decision plus two position bits
          simp only [hp, if_true]
          obtain ⟨mq1, em1, hm1, hback1, hlock1⟩ := mqonly_lockO w h V F R hC bp s hps 1 CTXRL (by decide) (by decide)
          rw [em1]; simp only [Option.bind_some]
          rw [if_neg (by decide)]
          obtain ⟨mq2, em2, hm2, hback2, hlock2⟩ := mqonly_lockO w h V F R hC bp { flags := s.flags, mq := mq1 } hm1
            (pos >>> 1 % 2) CTXUNI (by omega) (by decide)
          rw [em2]; simp only [Option.bind_some]
          obtain ⟨mq3, em3, hm3, hback3, hlock3⟩ := mqonly_lockO w h V F R hC bp { flags := s.flags, mq := mq2 } hm2
            (pos % 2) CTXUNI (by omega) (by decide)
          rw [em3]; simp only [Option.bind_some]
          have hmb : magBit (gi V (idxOf w i (k + pos))) bp = 1 := by
            have : magBit (gi V (idxOf w i (k + pos))) bp ≤ 1 := by rw [magBit_eq]; omega
            omega
          obtain ⟨r, er4, hok4, hback4, hlock4⟩ := rltail_lockO w h V F R hC hV orient bp
            (fun j => ∃ c, c ∈ l ∧ ColS w h c.1 c.2 j) k i pos hq.1 hk3 hp { flags := s.flags, mq := mq3 } hm3
            (hgood pos hp).2.1 (hgood pos hp).1 hmb
          rw [er4]; simp only [Option.bind_some]
          refine ⟨_, rfl, hok4, fun hF => hback1 (hback2 (hback3 (hback4 hF))), ?_⟩
          intro hF sd ⟨lev, hL, hC⟩
          have hF3 := hback4 hF
          have hF2 := hback3 hF3
          have hF1 := hback2 hF2
          obtain ⟨d1, hd1, hL1⟩ := hlock1 hF1 sd lev hL
          obtain ⟨d2, hd2, hL2⟩ := hlock2 hF2 _ lev hL1
          obtain ⟨d3, hd3, hL3⟩ := hlock3 hF3 _ lev hL2
          rw [hdscan sd hL.fl]; simp only [Option.bind_some, if_true]
          rw [hd1]; simp only [Option.bind_some]
          rw [if_neg (by decide), hd2]; simp only [Option.bind_some]
          rw [hd3]; simp only [Option.bind_some]
          rw [runlen_eq pos hp]
          obtain ⟨lev', hL', hC', hall⟩ := down_listO (fun j => ColS w h k i j ∨ ∃ c, c ∈ l ∧ ColS w h c.1 c.2 j)
            ((List.range pos).map (fun dy => idxOf w i (k + dy))) lev
            (by
              intro j hj
              simp only [List.mem_map, List.mem_range] at hj
              obtain ⟨dy, hdy, rfl⟩ := hj
              exact ⟨hinb dy (by omega), (hgood dy (by omega)).2.1, hz dy hdy⟩)
            hL3 (hQ lev _ hC)
          obtain ⟨dr, hdr, lev'', hL'', hC''⟩ := hlock4 hF _ ⟨lev', hL', hC'.vis, hC'.sig, by
            intro j hj
            rcases hC'.rest j hj with (⟨dy, hdy, _, rfl⟩ | h') | h'
            · rcases Nat.lt_or_ge dy pos with h1 | h1
              · right
                apply hall
                simp only [List.mem_map, List.mem_range]
                exact ⟨dy, h1, rfl⟩
              · exact Or.inl (Or.inl ⟨dy, h1, hdy, rfl⟩)
            · exact Or.inl (Or.inr h')
            · exact Or.inr h'⟩
          rw [hdr]
          exact ⟨_, rfl, lev'', hL'', hC''⟩
    · simp only [hk3, if_false]
      obtain ⟨es', he, hok, hback, hlock⟩ := hnormal
      refine ⟨es', he, hok, hback, ?_⟩
      intro hF sd ⟨lev, hL, hC⟩
      exact hlock hF sd ⟨lev, hL, hQ lev _ hC⟩
  obtain ⟨es', he, hok, hback, hlock⟩ := key
  refine ⟨es', he, hok, hback, ?_⟩
  intro hF ds ⟨lev, hL, hv5, hsd⟩
  obtain ⟨ds', hd', lev', hL', hC'⟩ := hlock hF ds ⟨lev, hL, hv5, hsd, by
    intro j hj
    obtain ⟨x, y, hx, hy, rfl⟩ := hj
    exact Or.inl (columns_cover w h x y hx hy)⟩
  refine ⟨ds', hd', lev', hL', ?_⟩
  intro j hj
  rcases hC'.rest j hj with ⟨c, hc, _⟩ | h'
  · exact absurd hc (by simp)
  · exact h'
end Lock

theorem LSO.clearVisit {w h : Nat} {V : Array Int} {R : Mqc.Enc → Mqc.Dec → Prop} {bp : Nat} {lev : Nat → Nat} {es : EncSt} {ds : DecSt}
    (hL : LSO w h V R bp lev es ds) :
    LSO w h V R bp lev { es with flags := T1.clearVisit es.flags } { ds with flags := T1.clearVisit ds.flags } := by
  refine ⟨by show T1.clearVisit ds.flags = T1.clearVisit es.flags; rw [hL.fl], hL.dsz, hL.rel, ?_⟩
  intro j hj
  exact (hL.smp j hj).frame rfl ((clearVisit_eff es.flags).1 j) rfl

/-- the end of plane `bp` is the start of plane `bp - 1` -/
theorem LSO.replane {w h : Nat} {V : Array Int} {R : Mqc.Enc → Mqc.Dec → Prop} {bp : Nat} {lev : Nat → Nat} {es : EncSt} {ds : DecSt}
    (hL : LSO w h V R bp lev es ds) (hall : ∀ j, InB w h j → lev j = bp) (hbp : 1 ≤ bp) :
    LSO w h V R (bp - 1) lev es ds := by
  refine ⟨hL.fl, hL.dsz, hL.rel, ?_⟩
  intro j hj
  have := hL.smp j hj
  exact ⟨Or.inr (by rw [hall j hj]; omega), this.d, this.s⟩

/-- invariant between two passes -/
def PInvO (w h : Nat) (V : Array Int) (R : Mqc.Enc → Mqc.Dec → Prop) (bp pi pt : Nat) (es : EncSt) (ds : DecSt) : Prop :=
  ∃ lev, LSO w h V R bp lev es ds ∧
    (pt = 0 → ∀ j, InB w h j → lev j = bp + 1) ∧
    (pt = 1 → VisLev w h bp lev es.flags ∧ SigOld w h bp lev es.flags) ∧
    (pt = 2 → (pi = 0 → (∀ j, InB w h j → lev j = bp + 1) ∧ ∀ j, InB w h j → sigA es.flags j = false) ∧
      (pi ≠ 0 → VisLev w h bp lev es.flags ∧ SigDone w h bp lev es.flags))

section Lock
variable (w h : Nat) (V : Array Int) (F : Mqc.Enc → Prop) (R : Mqc.Enc → Mqc.Dec → Prop)
  (hC : Coder F R) (hV : ∀ j, (gi V j).natAbs < 536870912)
include hC hV

theorem passes_lockO (orient np : Nat) : ∀ (fuel : Nat) (es : EncSt) (bp pi pt : Nat), EncOk w h V es → pt ≤ 2 →
    3 * bp + 3 - pt ≤ fuel →
    ∃ esP, encPasses w h orient V fuel es bp pi pt = some esP ∧ EncOk w h V esP ∧
      (F esP.mq → F es.mq) ∧
      (F esP.mq → ∀ (ds : DecSt), PInvO w h V R bp pi pt es ds → pi + (3 * bp + 3 - pt) = np →
        ∃ ds', decLoopO w h orient 0 np fuel ds ((bp + 1 : Nat) : Int) pi pt = some ds' ∧
          ∃ lev, LSO w h V R 0 lev esP ds' ∧ ∀ j, InB w h j → lev j = 0) := by
  intro fuel
  induction fuel with
  | zero => intro es bp pi pt _ hpt hf; omega
  | succ f ih =>
    intro es bp pi pt hs hpt hf
    have hvis0 : ∀ (lev : Nat → Nat) (fl : Array Nat), VisLev w h bp lev (clearVisit fl) := by
      intro lev fl j _ hv; rw [(clearVisit_eff fl).2] at hv; exact absurd hv (by simp)
    rcases (show pt = 0 ∨ pt = 1 ∨ pt = 2 by omega) with rfl | rfl | rfl
    · -- significance propagation
      have hs1 : EncOk w h V { es with flags := clearVisit es.flags } :=
        ⟨by show (clearVisit es.flags).size = _; unfold clearVisit; rw [Array.size_map]; exact hs.fsz, hs.dsz, hs.reg, hs.norm, hs.nctx⟩
      obtain ⟨es2, he2, hok2, hback2, hlock2⟩ := spp_lockO w h V F R hC hV orient bp _ hs1
      obtain ⟨esP, heP, hokP, hbackP, hlockP⟩ := ih es2 bp (pi + 1) 1 hok2 (by omega) (by omega)
      refine ⟨esP, ?_, hokP, fun hF => hback2 (hbackP hF), ?_⟩
      · unfold encPasses
        simp only [true_or, if_true]
        rw [he2]
        try simp only []
        rw [if_neg (by decide)]
        exact heP
      · intro hF ds ⟨lev, hL, h0, _, _⟩ hnp
        obtain ⟨ds2, hd2, lev2, hL2, hv2, hso2⟩ := hlock2 (hbackP hF) _ ⟨lev, hL.clearVisit, hvis0 lev _, by
          intro j hj _ _; exact h0 rfl j hj⟩
        obtain ⟨ds', hd', hfin⟩ := hlockP hF ds2 ⟨lev2, hL2, fun hh => absurd hh (by decide), fun _ => ⟨hv2, hso2⟩,
          fun hh => absurd hh (by decide)⟩ (by omega)
        refine ⟨ds', ?_, hfin⟩
        unfold decLoopO
        rw [if_pos ⟨by omega, by omega⟩]
        simp only [true_or, if_true, Int.toNat_natCast]
        rw [hd2]
        try simp only []
        rw [if_neg (fun hh => absurd hh.1 (by decide))]
        try simp only []
        rw [if_neg (by decide)]
        exact hd'
    · -- magnitude refinement
      obtain ⟨es2, he2, hok2, hback2, hlock2⟩ := mrp_lockO w h V F R hC hV bp es hs
      obtain ⟨esP, heP, hokP, hbackP, hlockP⟩ := ih es2 bp (pi + 1) 2 hok2 (by omega) (by omega)
      refine ⟨esP, ?_, hokP, fun hF => hback2 (hbackP hF), ?_⟩
      · unfold encPasses
        rw [if_neg (by omega)]
        try simp only []
        rw [he2]
        try simp only []
        rw [if_neg (by decide)]
        exact heP
      · intro hF ds ⟨lev, hL, _, h1, _⟩ hnp
        obtain ⟨ds2, hd2, lev2, hL2, hv2, hsd2⟩ := hlock2 (hbackP hF) ds ⟨lev, hL, (h1 rfl).1, (h1 rfl).2⟩
        obtain ⟨ds', hd', hfin⟩ := hlockP hF ds2 ⟨lev2, hL2, fun hh => absurd hh (by decide), fun hh => absurd hh (by decide),
          fun _ => ⟨fun hh => absurd hh (by omega), fun _ => ⟨hv2, hsd2⟩⟩⟩ (by omega)
        refine ⟨ds', ?_, hfin⟩
        unfold decLoopO
        rw [if_pos ⟨by omega, by omega⟩]
        simp only [Int.toNat_natCast]
        rw [if_neg (by omega)]
        try simp only []
        rw [hd2]
        try simp only []
        rw [if_neg (fun hh => absurd hh.1 (by decide))]
        try simp only []
        rw [if_neg (by decide)]
        exact hd'
    · -- cleanup
      by_cases hpi : pi = 0
      · have hs1 : EncOk w h V { es with flags := clearVisit es.flags } :=
          ⟨by show (clearVisit es.flags).size = _; unfold clearVisit; rw [Array.size_map]; exact hs.fsz, hs.dsz, hs.reg, hs.norm, hs.nctx⟩
        obtain ⟨es2, he2, hok2, hback2, hlock2⟩ := cleanup_lockO w h V F R hC hV orient bp _ hs1
        by_cases hb0 : bp = 0
        · refine ⟨es2, ?_, hok2, hback2, ?_⟩
          · unfold encPasses
            rw [if_pos (by first | exact Or.inr ⟨rfl, hpi⟩ | exact Or.inr ⟨True.intro, hpi⟩)]
            try simp only []
            rw [he2]
            try simp only []
            (first | rw [if_pos rfl] | rw [if_pos True.intro]); rw [if_pos hb0]
          · intro hF ds ⟨lev, hL, _, _, h2⟩ hnp
            obtain ⟨ds2, hd2, lev2, hL2, hall2⟩ := hlock2 hF _ ⟨lev, hL.clearVisit, hvis0 lev _, by
              intro j hj hsj
              rw [(clearVisit_eff es.flags).1] at hsj
              rw [((h2 rfl).1 hpi).2 j hj] at hsj
              exact absurd hsj (by simp)⟩
            refine ⟨ds2, ?_, lev2, by rw [hb0] at hL2; exact hL2, by rw [hb0] at hall2; exact hall2⟩
            unfold decLoopO
            rw [if_pos ⟨by omega, by omega⟩]
            simp only [Int.toNat_natCast]
            rw [if_pos (by first | exact Or.inr ⟨rfl, hpi⟩ | exact Or.inr ⟨True.intro, hpi⟩)]
            try simp only []
            rw [hd2]
            simp only [Option.bind_some]
            rw [if_neg (by decide)]
            try simp only []
            rw [if_neg (fun hh => absurd hh.1 (by decide))]
            try simp only []
            (first | rw [if_pos rfl] | rw [if_pos True.intro])
            exact decLoopO_exitN _ _ _ _ _ _ _ _ _ _ (by omega)
        · obtain ⟨esP, heP, hokP, hbackP, hlockP⟩ := ih es2 (bp - 1) (pi + 1) 0 hok2 (by omega) (by omega)
          refine ⟨esP, ?_, hokP, fun hF => hback2 (hbackP hF), ?_⟩
          · unfold encPasses
            rw [if_pos (by first | exact Or.inr ⟨rfl, hpi⟩ | exact Or.inr ⟨True.intro, hpi⟩)]
            try simp only []
            rw [he2]
            try simp only []
            (first | rw [if_pos rfl] | rw [if_pos True.intro]); rw [if_neg hb0]
            exact heP
          · intro hF ds ⟨lev, hL, _, _, h2⟩ hnp
            obtain ⟨ds2, hd2, lev2, hL2, hall2⟩ := hlock2 (hbackP hF) _ ⟨lev, hL.clearVisit, hvis0 lev _, by
              intro j hj hsj
              rw [(clearVisit_eff es.flags).1] at hsj
              rw [((h2 rfl).1 hpi).2 j hj] at hsj
              exact absurd hsj (by simp)⟩
            obtain ⟨ds', hd', hfin⟩ := hlockP hF ds2 ⟨lev2, hL2.replane hall2 (by omega),
              fun _ j hj => by rw [hall2 j hj]; omega, fun hh => absurd hh (by decide), fun hh => absurd hh (by decide)⟩ (by omega)
            refine ⟨ds', ?_, hfin⟩
            unfold decLoopO
            rw [if_pos ⟨by omega, by omega⟩]
            simp only [Int.toNat_natCast]
            rw [if_pos (by first | exact Or.inr ⟨rfl, hpi⟩ | exact Or.inr ⟨True.intro, hpi⟩)]
            try simp only []
            rw [hd2]
            simp only [Option.bind_some]
            rw [if_neg (by decide)]
            try simp only []
            rw [if_neg (fun hh => absurd hh.1 (by decide))]
            try simp only []
            (first | rw [if_pos rfl] | rw [if_pos True.intro])
            rw [show (((bp + 1 : Nat) : Int) - 1) = ((bp - 1 + 1 : Nat) : Int) by omega]
            exact hd'
      · skip
        obtain ⟨es2, he2, hok2, hback2, hlock2⟩ := cleanup_lockO w h V F R hC hV orient bp es hs
        by_cases hb0 : bp = 0
        · refine ⟨es2, ?_, hok2, hback2, ?_⟩
          · unfold encPasses
            rw [if_neg (by omega)]
            try simp only []
            rw [he2]
            try simp only []
            (first | rw [if_pos rfl] | rw [if_pos True.intro]); rw [if_pos hb0]
          · intro hF ds ⟨lev, hL, _, _, h2⟩ hnp
            obtain ⟨ds2, hd2, lev2, hL2, hall2⟩ := hlock2 hF ds ⟨lev, hL, ((h2 rfl).2 hpi).1, ((h2 rfl).2 hpi).2⟩
            refine ⟨ds2, ?_, lev2, by rw [hb0] at hL2; exact hL2, by rw [hb0] at hall2; exact hall2⟩
            unfold decLoopO
            rw [if_pos ⟨by omega, by omega⟩]
            simp only [Int.toNat_natCast]
            rw [if_neg (by omega)]
            try simp only []
            rw [hd2]
            simp only [Option.bind_some]
            rw [if_neg (by decide)]
            try simp only []
            rw [if_neg (fun hh => absurd hh.1 (by decide))]
            try simp only []
            (first | rw [if_pos rfl] | rw [if_pos True.intro])
            exact decLoopO_exitN _ _ _ _ _ _ _ _ _ _ (by omega)
        · obtain ⟨esP, heP, hokP, hbackP, hlockP⟩ := ih es2 (bp - 1) (pi + 1) 0 hok2 (by omega) (by omega)
          refine ⟨esP, ?_, hokP, fun hF => hback2 (hbackP hF), ?_⟩
          · unfold encPasses
            rw [if_neg (by omega)]
            try simp only []
            rw [he2]
            try simp only []
            (first | rw [if_pos rfl] | rw [if_pos True.intro]); rw [if_neg hb0]
            exact heP
          · intro hF ds ⟨lev, hL, _, _, h2⟩ hnp
            obtain ⟨ds2, hd2, lev2, hL2, hall2⟩ := hlock2 (hbackP hF) ds ⟨lev, hL, ((h2 rfl).2 hpi).1, ((h2 rfl).2 hpi).2⟩
            obtain ⟨ds', hd', hfin⟩ := hlockP hF ds2 ⟨lev2, hL2.replane hall2 (by omega),
              fun _ j hj => by rw [hall2 j hj]; omega, fun hh => absurd hh (by decide), fun hh => absurd hh (by decide)⟩ (by omega)
            refine ⟨ds', ?_, hfin⟩
            unfold decLoopO
            rw [if_pos ⟨by omega, by omega⟩]
            simp only [Int.toNat_natCast]
            rw [if_neg (by omega)]
            try simp only []
            rw [hd2]
            simp only [Option.bind_some]
            rw [if_neg (by decide)]
            try simp only []
            rw [if_neg (fun hh => absurd hh.1 (by decide))]
            try simp only []
            (first | rw [if_pos rfl] | rw [if_pos True.intro])
            rw [show (((bp + 1 : Nat) : Int) - 1) = ((bp - 1 + 1 : Nat) : Int) by omega]
            exact hd'
end Lock

theorem getD_boundO (c : List Int) (k : Nat) (hc : ∀ v ∈ c, v.natAbs < 536870912) : (c.getD k 0).natAbs < 536870912 := by
  rw [List.getD_eq_getElem?_getD]
  by_cases hk : k < c.length
  · rw [List.getElem?_eq_getElem hk]; exact hc _ (List.getElem_mem hk)
  · rw [List.getElem?_eq_none (by omega)]; decide

theorem padBlock_boundO (w h : Nat) (c : List Int) (hc : ∀ v ∈ c, v.natAbs < 536870912) :
    ∀ j, (gi (padBlock w h c) j).natAbs < 536870912 := by
  unfold padBlock
  simp only []
  apply list_foldl_inv (fun (a : Array Int) => ∀ j, (gi a j).natAbs < 536870912)
  · intro a y ha
    apply list_foldl_inv (fun (a : Array Int) => ∀ j, (gi a j).natAbs < 536870912) _ _ _ _ ha
    intro a x ha j
    by_cases hi : idxOf w x y < a.size
    · rw [gi_set _ _ _ _ hi]
      split
      · exact getD_boundO c _ hc
      · exact ha j
    · rw [show a.setIfInBounds (idxOf w x y) (c.getD (y * w + x) 0) = a from by
        apply Array.ext
        · simp
        · intro i h1 h2; rw [Array.getElem_setIfInBounds]; rw [if_neg (by omega)]]
      exact ha j
  · intro j
    unfold gi
    rw [Array.getElem?_replicate]
    split <;> decide

/-- T1 block round trip into the OpenJPEG reconstruction (style 0, all passes): the decoder started one plane index
higher (`maxBitplane = numbps = mb + 1`) returns `ojv 0 c = sign·(2|c| + 1)` for every coefficient -/
theorem t1_roundtrip_ojv (w h orient mb : Nat) (coeffs : List Int) (hlen : coeffs.length = w * h)
    (hbnd : ∀ c ∈ coeffs, c.natAbs < 536870912) (hmb : findMaxBitplane (padBlock w h coeffs) = some mb) :
    ∃ bytes, encodeBlock w h orient 0 coeffs (3 * mb + 1) = .ok bytes ∧
      decodeBlockOJ w h orient 0 (3 * mb + 1) ((mb + 1 : Nat) : Int) bytes =
        .ok ((List.range h).flatMap fun y => (List.range w).map fun x => ojv 0 (coeffs.getD (y * w + x) 0)) := by
  obtain ⟨hVsz, hVget⟩ := padBlock_get w h coeffs
  have hVb := padBlock_boundO w h coeffs hbnd
  have hz := maxbp_zero _ mb hmb
  -- the encoder's start state
  obtain ⟨h0, n0, s0⟩ := Mqc.new_ok NUMCONTEXTS
  have hi0 := initCtx_eq (Mqc.Enc.new NUMCONTEXTS) s0
  obtain ⟨e0, he0, hr0, hn0, hsz0⟩ := initCtx_ok
  have hee : e0 = { Mqc.Enc.new NUMCONTEXTS with ctx := ctx3 (Mqc.Enc.new NUMCONTEXTS).ctx } :=
    Option.some.inj (he0.symm.trans hi0)
  subst hee
  have hs0 : EncOk w h (padBlock w h coeffs)
      { flags := Array.replicate ((w + 2) * (h + 2)) 0,
        mq := { Mqc.Enc.new NUMCONTEXTS with ctx := ctx3 (Mqc.Enc.new NUMCONTEXTS).ctx } } :=
    ⟨by simp, hVsz, hr0, hn0, hsz0⟩
  -- name the result of the passes, then the final buffer
  obtain ⟨esP, hP, hokP, _, _⟩ := passes_lockO w h (padBlock w h coeffs) _ _ (coder_mq _ 1 1 bok_dummy) hVb orient (3 * mb + 1)
    (3 * mb + 1 + 1) _ mb 0 2 hs0 (by omega) (by omega)
  obtain ⟨ef, bytes, last, len, hfl, hB, hfe, hblen, hbytes, _, hl1⟩ := Mqc.flush_facts esP.mq hokP.reg hokP.norm
  obtain ⟨esP', hP', _, hbackP, hlockP⟩ := passes_lockO w h (padBlock w h coeffs) _ _ (coder_mq _ last len hB) hVb orient (3 * mb + 1)
    (3 * mb + 1 + 1) _ mb 0 2 hs0 (by omega) (by omega)
  have hpp : esP' = esP := Option.some.inj (hP'.symm.trans hP)
  subst hpp
  have hflush : Mqc.flushToOutput esP'.mq = some ef ∧ bytes = Mqc.getBuffer ef := by
    unfold Mqc.flush at hfl
    cases hq : Mqc.flushToOutput esP'.mq with
    | none => rw [hq] at hfl; exact absurd hfl (by simp)
    | some e' =>
      rw [hq] at hfl
      simp only [Option.map_some, Option.some.injEq, Prod.mk.injEq] at hfl
      exact ⟨by rw [hfl.1], by rw [← hfl.2, hfl.1]⟩
  refine ⟨bytes, ?_, ?_⟩
  · unfold encodeBlock
    rw [if_neg (by rw [hlen]; exact fun hc => hc rfl)]
    simp only []
    rw [hmb]
    simp only []
    rw [hi0]
    simp only []
    rw [encLoop_split w h orient _ mb (3 * mb + 1) (3 * mb + 1 + 1) _ mb 0 2 (by omega) (by omega) (by omega), hP']
    simp only [Option.bind_some, hflush.1, Option.map_some, if_true]
    rw [hflush.2]
  · have hfe0 : Mqc.FE (Mqc.finalB ef.buf last) last (Mqc.Enc.new NUMCONTEXTS) := hbackP hfe
    obtain ⟨d0, hd0, hrel0⟩ := Mqc.decNew_rel _ last len hB NUMCONTEXTS bytes hblen hbytes hl1 hfe0
    have hd0sz : d0.ctx.size = 19 := by rw [hrel0.ctx]; exact s0
    have hid0 := initCtxDec_eq d0 hd0sz
    have hrel1 : Mqc.Rel (Mqc.finalB ef.buf last) last len
        { Mqc.Enc.new NUMCONTEXTS with ctx := ctx3 (Mqc.Enc.new NUMCONTEXTS).ctx } { d0 with ctx := ctx3 d0.ctx } :=
      ⟨hrel0.a, congrArg ctx3 hrel0.ctx, hrel0.size, hrel0.data, hrel0.bple, hrel0.eos, hrel0.ctlo, hrel0.cthi,
        hrel0.ahead, hrel0.wdeq, hrel0.eq⟩
    have hrep : ∀ j, gi (Array.replicate ((w + 2) * (h + 2)) (0 : Int)) j = 0 := by
      intro j; unfold gi; rw [Array.getElem?_replicate]; split <;> rfl
    have hrepf : ∀ j, sigA (Array.replicate ((w + 2) * (h + 2)) (0 : Nat)) j = false := by
      intro j; unfold sigA gf; rw [Array.getElem?_replicate]; split <;> rfl
    obtain ⟨ds', hd', lev', hL', hall⟩ := hlockP hfe
      { flags := Array.replicate ((w + 2) * (h + 2)) 0, data := Array.replicate ((w + 2) * (h + 2)) 0,
        mq := { d0 with ctx := ctx3 d0.ctx } }
      ⟨fun _ => mb + 1, ⟨rfl, by simp, hrel1, fun j _ =>
          ⟨Or.inr rfl, by show gi (Array.replicate _ 0) j = _; rw [hrep, ojv_zero _ _ (hz j)],
           by show sigA (Array.replicate _ 0) j = true ↔ _; rw [hrepf, hz j]; simp⟩⟩,
        fun hh => absurd hh (by decide), fun hh => absurd hh (by decide),
        fun _ => ⟨fun _ => ⟨fun j _ => rfl, fun j _ => hrepf j⟩, fun hh => absurd rfl hh⟩⟩ (by omega)
    unfold decodeBlockOJ
    rw [if_neg (by omega), hd0]
    simp only []
    rw [hid0]
    simp only []
    rw [hd']
    simp only []
    rw [mapM_get ds'.data _ (by
      intro i hi
      simp only [List.mem_flatMap, List.mem_range, List.mem_map] at hi
      obtain ⟨y, hy, x, hx, rfl⟩ := hi
      rw [hL'.dsz]; exact idx_lt w h x y hx hy)]
    simp only []
    congr 1
    rw [List.map_flatMap]
    apply flatMap_congr'
    intro y hy
    rw [List.map_map]
    apply List.map_congr_left
    intro x hx
    have hy' := List.mem_range.mp hy
    have hx' := List.mem_range.mp hx
    have hin : InB w h (idxOf w x y) := ⟨x, y, hx', hy', rfl⟩
    show gi ds'.data (idxOf w x y) = _
    rw [(hL'.smp _ hin).d, hall _ hin, hVget x y hx' hy']

/-- **pipeline configuration, decoder**: `Encode` (style 0, all passes), then `DecodeWithBitplane` with OpenJPEG
reconstruction at `maxBitplane = numbps = mb + 1`, then `coeffs[i] /= 2`, returns the coefficients
(`|c| < 2^29`; the pipeline has `|c| < 2^25`) -/
theorem t1_roundtrip_oj (w h orient mb : Nat) (coeffs : List Int) (hlen : coeffs.length = w * h)
    (hbnd : ∀ c ∈ coeffs, c.natAbs < 536870912) (hmb : findMaxBitplane (padBlock w h coeffs) = some mb) :
    ∃ bytes out, encodeBlock w h orient 0 coeffs (3 * mb + 1) = .ok bytes ∧
      decodeBlockOJ w h orient 0 (3 * mb + 1) ((mb + 1 : Nat) : Int) bytes = .ok out ∧ out.map halveT = coeffs := by
  obtain ⟨bytes, he, hd⟩ := t1_roundtrip_ojv w h orient mb coeffs hlen hbnd hmb
  refine ⟨bytes, _, he, hd, ?_⟩
  rw [List.map_flatMap]
  conv => rhs; rw [← rows_eq w h coeffs hlen]
  apply flatMap_congr'
  intro y _
  rw [List.map_map]
  apply List.map_congr_left
  intro x _
  exact halve_ojv _

end T1
