import GdcVerif.Model.J2kHeader
/-! Totality of the JPEG 2000 codestream parser model (`J2kH.parse`). -/
namespace J2kH
open PC

def NoPanicE {α : Type} (x : Except Res α) : Prop := ∀ s, x ≠ .error (.panic s)

theorem parseSIZ_total (bs : Bytes) : NoPanicE (parseSIZ bs).1 := by
  intro s
  unfold parseSIZ
  split
  · repeat' split
    all_goals simp
  · simp

theorem parseQCD_total (bs : Bytes) : NoPanicE (parseQCD bs).1 := by
  intro s
  unfold parseQCD
  split
  · rename_i length sqcd _ _
    by_cases h1 : length < 3
    · rw [if_pos h1]; simp
    · rw [if_neg h1]
      have h2 : ¬ ((length : Int) - 3 < 0) := by omega
      rw [if_neg h2]
      split <;> simp
  · simp

theorem parseQCC_total (csiz : Nat) (bs : Bytes) : NoPanicE (parseQCC csiz bs).1 := by
  intro s
  unfold parseQCC
  split
  · rename_i length comp sqcc _ _ _
    by_cases h1 : length < 3 + cidx csiz
    · rw [if_pos h1]; simp
    · rw [if_neg h1]
      have h2 : ¬ ((length : Int) - 3 - (cidx csiz : Int) < 0) := by omega
      rw [if_neg h2]
      simp only
      split <;> simp
  · simp

theorem parseCOM_total (bs : Bytes) : NoPanicE (parseCOM bs).1 := by
  intro s
  unfold parseCOM
  split
  · rename_i length _ _ _
    by_cases h1 : length < 4
    · rw [if_pos h1]; simp
    · rw [if_neg h1]
      have h2 : ¬ ((length : Int) - 4 < 0) := by omega
      rw [if_neg h2]
      split <;> simp
  · simp

theorem parsePOC_total (csiz : Nat) (bs : Bytes) : NoPanicE (parsePOC csiz bs).1 := by
  intro s
  unfold parsePOC
  split
  · simp
  · simp only
    split
    · simp
    · split <;> simp

theorem parseRGN_total (csiz : Nat) (bs : Bytes) : NoPanicE (parseRGN csiz bs).1 := by
  intro s
  unfold parseRGN
  split
  · simp
  · simp only
    repeat' split
    all_goals simp

theorem parseMCT_total (bs : Bytes) : NoPanicE (parseMCT bs).1 := by
  intro s
  unfold parseMCT
  split
  · simp
  · rename_i length _
    by_cases h1 : length < 8
    · rw [if_pos h1]; simp
    · rw [if_neg h1]
      have h2 : ¬ ((length : Int) - 2 - 6 < 0) := by omega
      split
      · split
        · simp
        · split
          · simp
          · first
              | (rw [if_neg h2]; split <;> simp)
              | (split <;> simp)
      · split <;> simp
      · simp

/-- a finishing turn never ends in a panic -/
def DoneOk (x : Step St) : Prop := ∀ st' o, x = .done st' o → ∀ s, o ≠ .panic s

theorem doneOk_done_err (st : St) : DoneOk (.done st .err) := by
  intro st' o h s; injection h with _ h2; subst h2; simp
theorem doneOk_done_ok (st : St) : DoneOk (.done st .ok) := by
  intro st' o h s; injection h with _ h2; subst h2; simp
theorem doneOk_done_beyond (st : St) : DoneOk (.done st .beyond) := by
  intro st' o h s; injection h with _ h2; subst h2; simp
theorem doneOk_more (st : St) (r : Bytes) : DoneOk (.more st r) := by
  intro st' o h; cases h
theorem doneOk_next (st : St) (bs : Bytes) (k : Nat) : DoneOk (next st bs k) := doneOk_more _ _
theorem doneOk_done_e (st : St) (e : Res) (h : ∀ s, e ≠ .panic s) : DoneOk (.done st e) := by
  intro st' o h' s; injection h' with _ h2; subst h2; exact h s

theorem tilesTurn_doneOk (st : St) (bs : Bytes) : DoneOk (tilesTurn st bs) := by
  unfold tilesTurn
  repeat' split
  all_goals first
    | exact doneOk_done_err _
    | exact doneOk_done_ok _
    | exact doneOk_more _ _

macro "done_ok_handler" : tactic =>
  `(tactic| (repeat' split) <;> first
      | exact doneOk_done_err _
      | exact doneOk_done_ok _
      | exact doneOk_done_beyond _
      | exact doneOk_next _ _ _
      | exact doneOk_more _ _)

theorem mSIZ_doneOk (st : St) (bs : Bytes) : DoneOk (mSIZ st bs) := by
  unfold mSIZ
  split
  · exact doneOk_done_err _
  · have ht := parseSIZ_total (bs.drop 2)
    split
    · exact doneOk_next _ _ _
    · rename_i e a he
      apply doneOk_done_e
      intro s hc; subst hc
      exact ht s (by rw [he])

theorem mCOD_doneOk (st : St) (bs : Bytes) : DoneOk (mCOD st bs) := by
  unfold mCOD; done_ok_handler
theorem mCOC_doneOk (st : St) (bs : Bytes) : DoneOk (mCOC st bs) := by
  unfold mCOC; done_ok_handler
theorem mSkip_doneOk (st : St) (bs : Bytes) : DoneOk (mSkip st bs) := by
  unfold mSkip; done_ok_handler

theorem mQCD_doneOk (st : St) (bs : Bytes) : DoneOk (mQCD st bs) := by
  unfold mQCD
  split
  · exact doneOk_done_err _
  · have ht := parseQCD_total (bs.drop 2)
    split
    · exact doneOk_next _ _ _
    · rename_i e a he
      apply doneOk_done_e
      intro s hc; subst hc
      exact ht s (by rw [he])

theorem mQCC_doneOk (st : St) (bs : Bytes) : DoneOk (mQCC st bs) := by
  unfold mQCC
  split
  · exact doneOk_done_err _
  · have ht := parseQCC_total st.csiz (bs.drop 2)
    split
    · split
      · exact doneOk_next _ _ _
      · exact doneOk_done_err _
    · rename_i e a he
      apply doneOk_done_e
      intro s hc; subst hc
      exact ht s (by rw [he])

theorem mPOC_doneOk (st : St) (bs : Bytes) : DoneOk (mPOC st bs) := by
  unfold mPOC
  split
  · exact doneOk_done_err _
  · have ht := parsePOC_total st.csiz (bs.drop 2)
    split
    · exact doneOk_next _ _ _
    · rename_i e a he
      apply doneOk_done_e
      intro s hc; subst hc
      exact ht s (by rw [he])

theorem mRGN_doneOk (st : St) (bs : Bytes) : DoneOk (mRGN st bs) := by
  unfold mRGN
  split
  · exact doneOk_done_err _
  · have ht := parseRGN_total st.csiz (bs.drop 2)
    split
    · exact doneOk_next _ _ _
    · rename_i e a he
      apply doneOk_done_e
      intro s hc; subst hc
      exact ht s (by rw [he])

theorem mCOM_doneOk (st : St) (bs : Bytes) : DoneOk (mCOM st bs) := by
  unfold mCOM
  split
  · exact doneOk_done_err _
  · have ht := parseCOM_total (bs.drop 2)
    split
    · exact doneOk_next _ _ _
    · rename_i e a he
      apply doneOk_done_e
      intro s hc; subst hc
      exact ht s (by rw [he])

theorem mMCT_doneOk (st : St) (bs : Bytes) : DoneOk (mMCT st bs) := by
  unfold mMCT
  split
  · exact doneOk_done_err _
  · have ht := parseMCT_total (bs.drop 2)
    split
    · exact doneOk_next _ _ _
    · rename_i e a he
      apply doneOk_done_e
      intro s hc; subst hc
      exact ht s (by rw [he])

theorem tMCT_doneOk (st : St) (bs : Bytes) : DoneOk (tMCT st bs) := by
  unfold tMCT
  have ht := parseMCT_total (bs.drop 2)
  split
  · exact doneOk_next _ _ _
  · rename_i e a he
    apply doneOk_done_e
    intro s hc; subst hc
    exact ht s (by rw [he])

theorem mMCC_doneOk (st : St) (bs : Bytes) : DoneOk (mMCC st bs) := by
  unfold mMCC
  split
  · exact doneOk_done_err _
  · split
    · exact doneOk_next _ _ _
    · exact doneOk_done_err _
theorem mMCO_doneOk (st : St) (bs : Bytes) : DoneOk (mMCO st bs) := by
  unfold mMCO
  split
  · exact doneOk_done_err _
  · split
    · exact doneOk_next _ _ _
    · exact doneOk_done_err _
theorem tMCC_doneOk (st : St) (bs : Bytes) : DoneOk (tMCC st bs) := by
  unfold tMCC
  split
  · exact doneOk_next _ _ _
  · exact doneOk_done_err _
theorem tMCO_doneOk (st : St) (bs : Bytes) : DoneOk (tMCO st bs) := by
  unfold tMCO
  split
  · exact doneOk_next _ _ _
  · exact doneOk_done_err _

theorem mEnd_doneOk (st : St) (bs : Bytes) : DoneOk (mEnd st bs) := by
  unfold mEnd
  split
  · exact doneOk_done_err _
  · exact tilesTurn_doneOk _ _

theorem mainTurn_doneOk (st : St) (bs : Bytes) (m : Nat) : DoneOk (mainTurn st bs m) := by
  unfold mainTurn
  by_cases hc : m = 0xFF90 ∨ m = 0xFFD9
  · rw [if_pos hc]; exact mEnd_doneOk _ _
  rw [if_neg hc]; clear hc
  by_cases hc : m = 0xFF51
  · rw [if_pos hc]; exact mSIZ_doneOk _ _
  rw [if_neg hc]; clear hc
  by_cases hc : m = 0xFF52
  · rw [if_pos hc]; exact mCOD_doneOk _ _
  rw [if_neg hc]; clear hc
  by_cases hc : m = 0xFF53
  · rw [if_pos hc]; exact mCOC_doneOk _ _
  rw [if_neg hc]; clear hc
  by_cases hc : m = 0xFF5C
  · rw [if_pos hc]; exact mQCD_doneOk _ _
  rw [if_neg hc]; clear hc
  by_cases hc : m = 0xFF5D
  · rw [if_pos hc]; exact mQCC_doneOk _ _
  rw [if_neg hc]; clear hc
  by_cases hc : m = 0xFF5F
  · rw [if_pos hc]; exact mPOC_doneOk _ _
  rw [if_neg hc]; clear hc
  by_cases hc : m = 0xFF5E
  · rw [if_pos hc]; exact mRGN_doneOk _ _
  rw [if_neg hc]; clear hc
  by_cases hc : m = 0xFF64
  · rw [if_pos hc]; exact mCOM_doneOk _ _
  rw [if_neg hc]; clear hc
  by_cases hc : m = 0xFF74
  · rw [if_pos hc]; exact mMCT_doneOk _ _
  rw [if_neg hc]; clear hc
  by_cases hc : m = 0xFF75
  · rw [if_pos hc]; exact mMCC_doneOk _ _
  rw [if_neg hc]; clear hc
  by_cases hc : m = 0xFF77
  · rw [if_pos hc]; exact mMCO_doneOk _ _
  rw [if_neg hc]; clear hc
  exact mSkip_doneOk _ _

theorem sodTurn_doneOk (st : St) (p : Part) (bs : Bytes) : DoneOk (sodTurn st p bs) := by
  unfold sodTurn
  split
  · exact doneOk_more _ _
  · exact doneOk_done_err _

theorem tCOD_doneOk (st : St) (p : Part) (bs : Bytes) : DoneOk (tCOD st p bs) := by
  unfold tCOD; done_ok_handler
theorem tCOC_doneOk (st : St) (p : Part) (bs : Bytes) : DoneOk (tCOC st p bs) := by
  unfold tCOC; done_ok_handler
theorem tSkip_doneOk (st : St) (bs : Bytes) : DoneOk (tSkip st bs) := by
  unfold tSkip; done_ok_handler

theorem tQCD_doneOk (st : St) (p : Part) (bs : Bytes) : DoneOk (tQCD st p bs) := by
  unfold tQCD
  have ht := parseQCD_total (bs.drop 2)
  split
  · exact doneOk_next _ _ _
  · rename_i e a he
    apply doneOk_done_e
    intro s hc; subst hc
    exact ht s (by rw [he])

theorem tQCC_doneOk (st : St) (p : Part) (bs : Bytes) : DoneOk (tQCC st p bs) := by
  unfold tQCC
  have ht := parseQCC_total st.csiz (bs.drop 2)
  split
  · split
    · exact doneOk_next _ _ _
    · exact doneOk_done_err _
  · rename_i e a he
    apply doneOk_done_e
    intro s hc; subst hc
    exact ht s (by rw [he])

theorem tPOC_doneOk (st : St) (p : Part) (bs : Bytes) : DoneOk (tPOC st p bs) := by
  unfold tPOC
  have ht := parsePOC_total st.csiz (bs.drop 2)
  split
  · exact doneOk_next _ _ _
  · rename_i e a he
    apply doneOk_done_e
    intro s hc; subst hc
    exact ht s (by rw [he])

theorem tRGN_doneOk (st : St) (p : Part) (bs : Bytes) : DoneOk (tRGN st p bs) := by
  unfold tRGN
  have ht := parseRGN_total st.csiz (bs.drop 2)
  split
  · exact doneOk_next _ _ _
  · rename_i e a he
    apply doneOk_done_e
    intro s hc; subst hc
    exact ht s (by rw [he])

theorem thdrTurn_doneOk (st : St) (p : Part) (bs : Bytes) (m : Nat) : DoneOk (thdrTurn st p bs m) := by
  unfold thdrTurn
  by_cases hc : m = 0xFF93
  · rw [if_pos hc]; exact sodTurn_doneOk _ _ _
  rw [if_neg hc]; clear hc
  by_cases hc : m = 0xFF52
  · rw [if_pos hc]; exact tCOD_doneOk _ _ _
  rw [if_neg hc]; clear hc
  by_cases hc : m = 0xFF53
  · rw [if_pos hc]; exact tCOC_doneOk _ _ _
  rw [if_neg hc]; clear hc
  by_cases hc : m = 0xFF5C
  · rw [if_pos hc]; exact tQCD_doneOk _ _ _
  rw [if_neg hc]; clear hc
  by_cases hc : m = 0xFF5D
  · rw [if_pos hc]; exact tQCC_doneOk _ _ _
  rw [if_neg hc]; clear hc
  by_cases hc : m = 0xFF5F
  · rw [if_pos hc]; exact tPOC_doneOk _ _ _
  rw [if_neg hc]; clear hc
  by_cases hc : m = 0xFF5E
  · rw [if_pos hc]; exact tRGN_doneOk _ _ _
  rw [if_neg hc]; clear hc
  by_cases hc : m = 0xFF74
  · rw [if_pos hc]; exact tMCT_doneOk _ _
  rw [if_neg hc]; clear hc
  by_cases hc : m = 0xFF75
  · rw [if_pos hc]; exact tMCC_doneOk _ _
  rw [if_neg hc]; clear hc
  by_cases hc : m = 0xFF77
  · rw [if_pos hc]; exact tMCO_doneOk _ _
  rw [if_neg hc]; clear hc
  exact tSkip_doneOk _ _

theorem step_doneOk (st : St) (bs : Bytes) : DoneOk (step st bs) := by
  unfold step
  split
  · exact tilesTurn_doneOk _ _
  · split
    · exact doneOk_done_err _
    · exact mainTurn_doneOk _ _ _
  · split
    · exact thdrTurn_doneOk _ _ _ _
    · exact doneOk_done_err _

/-- FULL: `codestream.Parser.Parse` (main header, tile-part headers, tile-part merging) has no
    panic outcome for any byte string -/
theorem parse_total (bs : Bytes) (s : Site) : (parse bs).2 ≠ .panic s := by
  unfold parse
  split
  · simp
  · split
    · simp
    · exact run_inv step step_lt (fun _ _ => True) (fun p => p.2 ≠ .panic s)
        (fun _ _ _ _ _ _ => trivial)
        (fun st bs st' o _ h => step_doneOk st bs st' o h s) {} _ trivial

theorem parse_eval {bs : Bytes} {x : St × Res} (n : Nat) (h1 : u16 bs 0 = some 0xFF4F)
    (h2 : runN step n {} (bs.drop 2) = some x) : parse bs = x := by
  unfold parse; rw [h1]; simp only [ne_eq, not_true_eq_false, if_false]
  exact run_eq_of_runN _ _ n _ _ _ h2

end J2kH
