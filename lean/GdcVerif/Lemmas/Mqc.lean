import GdcVerif.Model.Mqc
/-!
  MQ encoder (`Model/Mqc.lean`): table well-formedness (by `decide` over the generated tables),
  register invariants, and the byte-stream invariant of the output
  ("a 0xFF is always followed by a byte ≤ 0x8F", hence never trailing) for every decision sequence.
-/
set_option linter.unusedVariables false
namespace Mqc
open Gen.J2kMqc

/-! ### generated tables -/

theorem tables_size : qeTable.size = 47 ∧ nmpsTable.size = 47 ∧ nlpsTable.size = 47 ∧ switchTable.size = 47 := by
  decide

/-- every state `< 47` has a `Qe` in `[1, 0x5601]`, successor states `< 47`, a 0/1 switch flag -/
theorem tables_wf : ∀ s, s < 47 →
    (tab qeTable s).isSome ∧ 1 ≤ (tab qeTable s).getD 0 ∧ (tab qeTable s).getD 0 ≤ 0x5601 ∧
    (tab nmpsTable s).isSome ∧ (tab nmpsTable s).getD 0 < 47 ∧
    (tab nlpsTable s).isSome ∧ (tab nlpsTable s).getD 0 < 47 ∧
    (tab switchTable s).isSome ∧ (tab switchTable s).getD 0 ≤ 1 := by
  decide

/-- the entries are the non-negative literals of the Go tables (no `toNat` truncation) -/
theorem tables_nonneg : ∀ s, s < 47 →
    0 ≤ (qeTable[s]?).getD (-1) ∧ 0 ≤ (nmpsTable[s]?).getD (-1) ∧ 0 ≤ (nlpsTable[s]?).getD (-1) ∧
    0 ≤ (switchTable[s]?).getD (-1) := by
  decide

/-- the MPS/LPS switch happens only in states with `Qe = 0x5601` (T.800 Table C.2: states 0, 6, 14) -/
theorem switch_qe : ∀ s, s < 47 → (tab switchTable s).getD 0 = 1 → (tab qeTable s).getD 0 = 0x5601 := by
  decide

theorem tab_none (tbl : Array Int) (s : Nat) (h : tbl.size ≤ s) : tab tbl s = none := by
  simp [tab, Array.getElem?_eq_none h]

/-! ### byte buffer helpers -/

/-- byte `i` of a buffer (0 beyond its length) -/
def rd (buf : Array Nat) (i : Nat) : Nat := (buf[i]?).getD 0

theorem rd_some (buf : Array Nat) (i : Nat) (h : i < buf.size) : buf[i]? = some (rd buf i) := by
  simp [rd, Array.getElem?_eq_getElem h]

theorem rd_ensure (buf : Array Nat) (idx i : Nat) : rd (ensureIndex buf idx) i = rd buf i := by
  unfold ensureIndex rd
  split
  · rfl
  · rw [Array.getElem?_append]
    split
    · rfl
    · next h =>
      rw [Array.getElem?_replicate, Array.getElem?_eq_none (by omega)]
      split <;> rfl

theorem size_ensure (buf : Array Nat) (idx : Nat) :
    idx < (ensureIndex buf idx).size ∧ buf.size ≤ (ensureIndex buf idx).size := by
  unfold ensureIndex
  split
  · omega
  · simp only [Array.size_append, Array.size_replicate]; omega

theorem rd_set (buf : Array Nat) (j v i : Nat) (hj : j < buf.size) :
    rd (buf.setIfInBounds j v) i = if j = i then v else rd buf i := by
  unfold rd
  rw [Array.getElem?_setIfInBounds]
  split
  · rfl
  · rfl

/-- buffer invariant up to the current byte `bp`: in range, bytes are bytes, and a 0xFF is followed by ≤ 0x8F -/
structure BufOk (buf : Array Nat) (bp : Nat) : Prop where
  inb : bp < buf.size
  bytes : ∀ i, rd buf i < 256
  marker : ∀ i, i < bp → rd buf i = 255 → rd buf (i + 1) ≤ 143

/-- appending the next byte `nb` after position `bp` -/
theorem push_ok (buf : Array Nat) (bp nb : Nat) (hb : BufOk buf bp) (hnb : nb < 256)
    (hm : rd buf bp = 255 → nb ≤ 143) :
    BufOk ((ensureIndex buf (bp + 1)).setIfInBounds (bp + 1) nb) (bp + 1) ∧
    rd ((ensureIndex buf (bp + 1)).setIfInBounds (bp + 1) nb) (bp + 1) = nb ∧
    ∀ i, i ≤ bp → rd ((ensureIndex buf (bp + 1)).setIfInBounds (bp + 1) nb) i = rd buf i := by
  have hs := size_ensure buf (bp + 1)
  have hrd : ∀ i, rd ((ensureIndex buf (bp + 1)).setIfInBounds (bp + 1) nb) i =
      if bp + 1 = i then nb else rd buf i := by
    intro i; rw [rd_set _ _ _ _ hs.1, rd_ensure]
  refine ⟨⟨?_, ?_, ?_⟩, ?_, ?_⟩
  · rw [Array.size_setIfInBounds]; exact hs.1
  · intro i; rw [hrd]; split
    · exact hnb
    · exact hb.bytes i
  · intro i hi h255
    rw [hrd] at h255 ⊢
    rw [if_neg (by omega)] at h255
    split
    · next heq => have : i = bp := by omega
                  subst this; exact hm h255
    · next hne => exact hb.marker i (by omega) h255
  · rw [hrd, if_pos rfl]
  · intro i hi; rw [hrd, if_neg (by omega)]

/-- the carry increment of the current byte -/
theorem inc_ok (buf : Array Nat) (bp b1 : Nat) (hb : BufOk buf bp) (hb1 : b1 < 256)
    (hm : 1 ≤ bp → rd buf (bp - 1) = 255 → b1 ≤ 143) :
    BufOk (buf.setIfInBounds bp b1) bp ∧ rd (buf.setIfInBounds bp b1) bp = b1 ∧
    ∀ i, i < bp → rd (buf.setIfInBounds bp b1) i = rd buf i := by
  have hrd : ∀ i, rd (buf.setIfInBounds bp b1) i = if bp = i then b1 else rd buf i :=
    fun i => rd_set _ _ _ _ hb.inb
  refine ⟨⟨?_, ?_, ?_⟩, ?_, ?_⟩
  · rw [Array.size_setIfInBounds]; exact hb.inb
  · intro i; rw [hrd]; split
    · exact hb1
    · exact hb.bytes i
  · intro i hi h255
    rw [hrd] at h255 ⊢
    rw [if_neg (by omega)] at h255
    split
    · next heq =>
      have h1 : bp - 1 = i := by omega
      exact hm (by omega) (by rw [h1]; exact h255)
    · next hne => exact hb.marker i hi h255
  · rw [hrd, if_pos rfl]
  · intro i hi; rw [hrd, if_neg (by omega)]

theorem pow7 : (2 : Nat) ^ (7 : Int).toNat = 128 := by decide
theorem pow8 : (2 : Nat) ^ (8 : Int).toNat = 256 := by decide

/-- `byteout()` at a point where the code register, at the current scale, satisfies `c + x ≤ 2^27 + 2^24`
(`x ≥ 1` is the width of the remaining interval): it never panics, appends exactly one byte, keeps the
buffer invariant, and re-establishes the register bounds at the new scale `ct ∈ {7, 8}`. -/
theorem byteout_spec (e : Enc) (x : Nat) (hb : BufOk e.buf e.bp) (hx1 : 1 ≤ x) (hx2 : x ≤ 65536)
    (hA : e.c + x ≤ 150994944)
    (hB : 1 ≤ e.bp → rd e.buf (e.bp - 1) = 255 → rd e.buf e.bp * 134217728 + e.c + x ≤ 19327352832) :
    ∃ e', byteout e = some e' ∧ BufOk e'.buf e'.bp ∧ e'.bp = e.bp + 1 ∧ e'.a = e.a ∧ e'.ctx = e.ctx ∧
      (e'.ct = 7 ∨ e'.ct = 8) ∧ (e'.c + x) * 2 ^ e'.ct.toNat ≤ 150994944 ∧
      (rd e'.buf (e'.bp - 1) = 255 →
        rd e'.buf e'.bp * 134217728 + (e'.c + x) * 2 ^ e'.ct.toNat ≤ 19327352832) := by
  have hb256 := hb.bytes e.bp
  unfold byteout
  simp only [if_neg (show ¬ e.bp ≥ e.buf.size from by have := hb.inb; omega), rd_some e.buf e.bp hb.inb]
  by_cases hff : rd e.buf e.bp = 255
  · -- previous byte is 0xFF: 7 bits + carry position
    rw [if_pos hff]
    have hnb : u8 (e.c / 2 ^ 20) = e.c / 2 ^ 20 := by unfold u8; omega
    obtain ⟨hok, hlast, hpre⟩ := push_ok e.buf e.bp (u8 (e.c / 2 ^ 20)) hb (by unfold u8; omega)
      (by intro _; rw [hnb]; omega)
    refine ⟨_, rfl, hok, rfl, rfl, rfl, Or.inl rfl, ?_, ?_⟩
    · simp only [pow7]; omega
    · intro _
      simp only [pow7]; omega
  · rw [if_neg hff]
    by_cases hc : e.c / 2 ^ 27 % 2 = 0
    · -- no carry
      rw [if_pos hc]
      have hnb : u8 (e.c / 2 ^ 19) = e.c / 2 ^ 19 := by unfold u8; omega
      obtain ⟨hok, hlast, hpre⟩ := push_ok e.buf e.bp (u8 (e.c / 2 ^ 19)) hb (by unfold u8; omega)
        (by intro h; exact absurd h hff)
      refine ⟨_, rfl, hok, rfl, rfl, rfl, Or.inr rfl, ?_, ?_⟩
      · simp only [pow8]; omega
      · intro h
        simp only [Nat.add_sub_cancel] at h
        rw [hpre e.bp (Nat.le_refl _)] at h
        exact absurd h hff
    · -- carry into the current byte
      rw [if_neg hc]
      have hb1 : u8 (rd e.buf e.bp + 1) = rd e.buf e.bp + 1 := by unfold u8; omega
      obtain ⟨hok1, hcur1, hpre1⟩ := inc_ok e.buf e.bp (u8 (rd e.buf e.bp + 1)) hb (by unfold u8; omega)
        (by intro h1 h255; have := hB h1 h255; rw [hb1]; omega)
      by_cases hff1 : u8 (rd e.buf e.bp + 1) = 255
      · rw [if_pos hff1]
        have hnb : u8 (e.c % 2 ^ 27 / 2 ^ 20) = e.c % 2 ^ 27 / 2 ^ 20 := by unfold u8; omega
        obtain ⟨hok, hlast, hpre⟩ := push_ok _ e.bp (u8 (e.c % 2 ^ 27 / 2 ^ 20)) hok1 (by unfold u8; omega)
          (by intro _; rw [hnb]; omega)
        refine ⟨_, rfl, hok, rfl, rfl, rfl, Or.inl rfl, ?_, ?_⟩
        · simp only [pow7]; omega
        · intro _
          simp only [pow7]; omega
      · rw [if_neg hff1]
        obtain ⟨hok, hlast, hpre⟩ := push_ok _ e.bp (u8 (e.c / 2 ^ 19)) hok1 (by unfold u8; omega)
          (by intro h; rw [hcur1] at h; exact absurd h hff1)
        refine ⟨_, rfl, hok, rfl, rfl, rfl, Or.inr rfl, ?_, ?_⟩
        · simp only [pow8]; omega
        · intro h
          simp only [Nat.add_sub_cancel] at h
          rw [hpre e.bp (Nat.le_refl _), hcur1] at h
          exact absurd h hff1

/-! ### register invariants -/

/-- every context holds a state `< 47` (bit 7 is the MPS) -/
def CtxOk (ctx : Array Nat) : Prop := ∀ i, rd ctx i % 128 < 47 ∧ rd ctx i < 256

/-- invariant of the encoder registers, also valid in the middle of `renorme`:
`(c + a)·2^ct ≤ 2^27 + 2^24` bounds the code register including every possible future carry;
the second bound says that the byte after a 0xFF can absorb that carry and stay ≤ 0x8F. -/
structure RegOk (e : Enc) : Prop where
  buf : BufOk e.buf e.bp
  apos : 0 < e.a
  ahi : e.a < 65536
  ctlo : 1 ≤ e.ct
  cthi : e.ct ≤ 13
  A : (e.c + e.a) * 2 ^ e.ct.toNat ≤ 150994944
  B : 1 ≤ e.bp → rd e.buf (e.bp - 1) = 255 →
        rd e.buf e.bp * 134217728 + (e.c + e.a) * 2 ^ e.ct.toNat ≤ 19327352832
  ctx : CtxOk e.ctx

theorem scale_step (c a : Nat) (ct : Int) (h : 1 ≤ ct) :
    (c * 2 + a * 2) * 2 ^ (ct - 1).toNat = (c + a) * 2 ^ ct.toNat := by
  have h1 : ct.toNat = (ct - 1).toNat + 1 := by omega
  rw [h1, Nat.pow_succ, ← Nat.add_mul, Nat.mul_assoc, Nat.mul_comm 2]

theorem pow_pos2 (k : Nat) : 0 < 2 ^ k := Nat.two_pow_pos k

theorem c_lt_of_A {c a K : Nat} (hK : 0 < K) (h : (c + a) * K ≤ 150994944) : c + a ≤ 150994944 := by
  have : (c + a) * 1 ≤ (c + a) * K := Nat.mul_le_mul_left _ hK
  omega

/-- `renorme()`: terminates (fuel 16 suffices from `a ≥ 1`), never panics, keeps `RegOk`,
and ends with `0x8000 ≤ a < 0x10000`, `1 ≤ ct ≤ 13` -/
theorem renormeLoop_spec : ∀ (fuel : Nat) (e : Enc), RegOk e → 0x8000 ≤ e.a * 2 ^ fuel →
    ∃ e', renormeLoop fuel e = some e' ∧ RegOk e' ∧ 0x8000 ≤ e'.a ∧ e'.ctx = e.ctx ∧ e.bp ≤ e'.bp := by
  intro fuel
  induction fuel with
  | zero =>
    intro e h ha
    refine ⟨e, ?_, h, by omega, rfl, Nat.le_refl _⟩
    rw [renormeLoop, if_neg (by omega)]
  | succ fuel ih =>
    intro e h ha
    have hap := h.apos; have hah := h.ahi; have hcl := h.ctlo; have hch := h.cthi
    rw [renormeLoop]
    by_cases hlt : e.a < 0x8000
    · rw [if_pos hlt]
      have hcA := c_lt_of_A (pow_pos2 _) h.A
      have ha2 : u32 (e.a * 2) = e.a * 2 := by unfold u32; omega
      have hc2 : u32 (e.c * 2) = e.c * 2 := by unfold u32; omega
      have hA1 : (e.c * 2 + e.a * 2) * 2 ^ (e.ct - 1).toNat ≤ 150994944 := by
        rw [scale_step _ _ _ h.ctlo]; exact h.A
      have hfuel : 0x8000 ≤ e.a * 2 * 2 ^ fuel := by
        rw [Nat.pow_succ] at ha
        rw [Nat.mul_assoc, Nat.mul_comm 2]; exact ha
      simp only [ha2, hc2]
      by_cases hz : e.ct - 1 = 0
      · rw [if_pos hz]
        have hA0 : e.c * 2 + e.a * 2 ≤ 150994944 := by
          rw [hz, show (2:Nat) ^ (0:Int).toNat = 1 from rfl, Nat.mul_one] at hA1; exact hA1
        obtain ⟨e2, he2, hbuf2, hbp2, ha2', hctx2, hct2, hA2, hB2⟩ :=
          byteout_spec { e with a := e.a * 2, c := e.c * 2, ct := e.ct - 1 } (e.a * 2) h.buf
            (by omega) (by omega) hA0
            (by
              intro h1 h255
              have := h.B h1 h255
              rw [← scale_step _ _ _ h.ctlo, hz, show (2:Nat) ^ (0:Int).toNat = 1 from rfl, Nat.mul_one] at this
              have goal : rd e.buf e.bp * 134217728 + e.c * 2 + e.a * 2 ≤ 19327352832 := by
                rw [Nat.add_assoc]; exact this
              exact goal)
        rw [he2]
        simp only [] at hbp2 ha2' hctx2
        have hr2 : RegOk e2 := by
          refine ⟨hbuf2, by omega, by omega, by omega, by omega, ?_, ?_, ?_⟩
          · rw [ha2']; exact hA2
          · intro _ h255; rw [ha2']; exact hB2 h255
          · rw [hctx2]; exact h.ctx
        obtain ⟨e3, he3, hr3, ha3, hctx3, hbp3⟩ := ih e2 hr2 (by rw [ha2']; exact hfuel)
        exact ⟨e3, he3, hr3, ha3, by rw [hctx3, hctx2], by omega⟩
      · rw [if_neg hz]
        have hr1 : RegOk { e with a := e.a * 2, c := e.c * 2, ct := e.ct - 1 } := by
          refine ⟨h.buf, ?_, ?_, ?_, ?_, hA1, ?_, h.ctx⟩
          · show 0 < e.a * 2; have := h.apos; omega
          · show e.a * 2 < 65536; omega
          · show 1 ≤ e.ct - 1; have := h.ctlo; omega
          · show e.ct - 1 ≤ 13; have := h.cthi; omega
          · intro h1 h255
            have := h.B h1 h255
            rw [← scale_step _ _ _ h.ctlo] at this
            exact this
        obtain ⟨e3, he3, hr3, ha3, hctx3, hbp3⟩ := ih _ hr1 hfuel
        exact ⟨e3, he3, hr3, ha3, hctx3, hbp3⟩
    · rw [if_neg hlt]
      exact ⟨e, rfl, h, by omega, rfl, Nat.le_refl _⟩

/-- replacing `(a, c)` by a sub-interval (`c' + a' ≤ c + a`, `a' > 0`) and renormalising -/
theorem renorm_after (e : Enc) (h : RegOk e) (a' c' : Nat) (ctx' : Array Nat) (ha0 : 0 < a') (ha1 : a' < 65536)
    (hsum : c' + a' ≤ e.c + e.a) (hctx : CtxOk ctx') :
    ∃ e', renorme { e with a := a', c := c', ctx := ctx' } = some e' ∧ RegOk e' ∧ 0x8000 ≤ e'.a ∧
      e'.ctx = ctx' ∧ e.bp ≤ e'.bp := by
  have hmono : (c' + a') * 2 ^ e.ct.toNat ≤ (e.c + e.a) * 2 ^ e.ct.toNat := Nat.mul_le_mul_right _ hsum
  have hr : RegOk { e with a := a', c := c', ctx := ctx' } := by
    refine ⟨h.buf, ha0, ha1, h.ctlo, h.cthi, Nat.le_trans hmono h.A, ?_, hctx⟩
    intro h1 h255
    have := h.B h1 h255
    show rd e.buf e.bp * 134217728 + (c' + a') * 2 ^ e.ct.toNat ≤ 19327352832
    omega
  have h16 : (2 : Nat) ^ 16 = 65536 := by decide
  exact renormeLoop_spec 16 _ hr (by show 0x8000 ≤ a' * 2 ^ 16; rw [h16]; omega)

theorem sub32_eq (x y : Nat) (h1 : y ≤ x) (h2 : x < 4294967296) : sub32 x y = x - y := by
  unfold sub32; omega

theorem ctxOk_set (ctx : Array Nat) (cx v : Nat) (h : CtxOk ctx) (hv : v % 128 < 47 ∧ v < 256) :
    CtxOk (ctx.setIfInBounds cx v) := by
  intro i
  by_cases hcx : cx < ctx.size
  · rw [rd_set _ _ _ _ hcx]
    split
    · exact hv
    · exact h i
  · have : ctx.setIfInBounds cx v = ctx := by
      apply Array.ext
      · simp
      · intro j h1 h2
        simp only [Array.setIfInBounds, dif_neg hcx]
    rw [this]; exact h i

/-- Boolean form of "the table reads of state `s` succeed and are in range" -/
def lookupOk (s : Nat) : Bool :=
  match lookup s with
  | some (qe, nmps, nlps, sw) => decide (1 ≤ qe ∧ qe ≤ 0x5601 ∧ nmps < 47 ∧ nlps < 47 ∧ sw ≤ 1)
  | none => false

theorem lookupOk_all : ∀ s, s < 47 → lookupOk s = true := by decide

/-- the table reads of a state `< 47` succeed and are in range -/
theorem lookup_wf (s : Nat) (h : s < 47) :
    ∃ qe nmps nlps sw, lookup s = some (qe, nmps, nlps, sw) ∧
      1 ≤ qe ∧ qe ≤ 0x5601 ∧ nmps < 47 ∧ nlps < 47 ∧ sw ≤ 1 := by
  have hk := lookupOk_all s h
  unfold lookupOk at hk
  cases hl : lookup s with
  | none => rw [hl] at hk; exact absurd hk (by decide)
  | some t =>
    obtain ⟨qe, nmps, nlps, sw⟩ := t
    rw [hl] at hk
    exact ⟨qe, nmps, nlps, sw, rfl, of_decide_eq_true hk⟩

/-- body of `Encode` with table entries in range: never panics, keeps every invariant -/
theorem encodeCore_spec (e : Enc) (bit cx cxv qe nmps nlps sw : Nat) (h : RegOk e) (hn : 0x8000 ≤ e.a)
    (hcxv : cxv < 256) (q2 : 1 ≤ qe) (q3 : qe ≤ 0x5601) (m2 : nmps < 47) (l2 : nlps < 47) (s2 : sw ≤ 1) :
    ∃ e', encodeCore e bit cx cxv qe nmps nlps sw = some e' ∧ RegOk e' ∧ 0x8000 ≤ e'.a ∧
      e'.ctx.size = e.ctx.size ∧ e.bp ≤ e'.bp := by
  have hah := h.ahi
  have hcA := c_lt_of_A (pow_pos2 _) h.A
  have hsub : sub32 e.a qe = e.a - qe := sub32_eq _ _ (by omega) (by omega)
  have hcq : u32 (e.c + qe) = e.c + qe := by unfold u32; omega
  unfold encodeCore
  rw [hsub, hcq]
  by_cases hbit : bit = cxv / 128
  · rw [if_pos hbit]
    have hctx' : CtxOk (e.ctx.setIfInBounds cx (u8 (nmps + u8 (cxv / 128 * 128)))) :=
      ctxOk_set _ _ _ h.ctx (by unfold u8; omega)
    by_cases hren : (e.a - qe) / 0x8000 % 2 = 0
    · rw [if_pos hren]
      by_cases hx : e.a - qe < qe
      · rw [if_pos hx]
        obtain ⟨e', he', hr', ha', hc', hbp'⟩ := renorm_after e h qe e.c _ (by omega) (by omega) (by omega) hctx'
        exact ⟨e', he', hr', ha', by rw [hc', Array.size_setIfInBounds], hbp'⟩
      · rw [if_neg hx]
        obtain ⟨e', he', hr', ha', hc', hbp'⟩ :=
          renorm_after e h (e.a - qe) (e.c + qe) _ (by omega) (by omega) (by omega) hctx'
        exact ⟨e', he', hr', ha', by rw [hc', Array.size_setIfInBounds], hbp'⟩
    · rw [if_neg hren]
      refine ⟨_, rfl, ?_, ?_, rfl, Nat.le_refl _⟩
      · have hsum : e.c + qe + (e.a - qe) = e.c + e.a := by omega
        refine ⟨h.buf, ?_, ?_, h.ctlo, h.cthi, ?_, ?_, h.ctx⟩
        · show 0 < e.a - qe; omega
        · show e.a - qe < 65536; omega
        · show (e.c + qe + (e.a - qe)) * 2 ^ e.ct.toNat ≤ 150994944
          rw [hsum]; exact h.A
        · intro h1 h255
          show rd e.buf e.bp * 134217728 + (e.c + qe + (e.a - qe)) * 2 ^ e.ct.toNat ≤ 19327352832
          rw [hsum]; exact h.B h1 h255
      · show 0x8000 ≤ e.a - qe; omega
  · rw [if_neg hbit]
    have hctx' : CtxOk (e.ctx.setIfInBounds cx
        (u8 (nlps + u8 ((if sw = 1 then 1 - cxv / 128 else cxv / 128) * 128)))) :=
      ctxOk_set _ _ _ h.ctx (by unfold u8; split <;> omega)
    by_cases hx : e.a - qe < qe
    · rw [if_pos hx]
      obtain ⟨e', he', hr', ha', hc', hbp'⟩ :=
        renorm_after e h (e.a - qe) (e.c + qe) _ (by omega) (by omega) (by omega) hctx'
      exact ⟨e', he', hr', ha', by rw [hc', Array.size_setIfInBounds], hbp'⟩
    · rw [if_neg hx]
      obtain ⟨e', he', hr', ha', hc', hbp'⟩ := renorm_after e h qe e.c _ (by omega) (by omega) (by omega) hctx'
      exact ⟨e', he', hr', ha', by rw [hc', Array.size_setIfInBounds], hbp'⟩


theorem encode_eq (e : Enc) (bit cx v qe nmps nlps sw : Nat) (h1 : e.ctx[cx]? = some v)
    (h2 : lookup (v % 128) = some (qe, nmps, nlps, sw)) :
    encode e bit cx = encodeCore e bit cx v qe nmps nlps sw := by
  unfold encode
  rw [h1]
  simp only [h2]

/-- `Encode(bit, contextID)` with a valid context id: never panics, keeps every invariant -/
theorem encode_spec (e : Enc) (bit cx : Nat) (h : RegOk e) (hn : 0x8000 ≤ e.a) (hcx : cx < e.ctx.size) :
    ∃ e', encode e bit cx = some e' ∧ RegOk e' ∧ 0x8000 ≤ e'.a ∧ e'.ctx.size = e.ctx.size ∧ e.bp ≤ e'.bp := by
  obtain ⟨hst, hcx256⟩ := h.ctx cx
  obtain ⟨qe, nmps, nlps, sw, hlk, q2, q3, m2, l2, s2⟩ := lookup_wf (rd e.ctx cx % 128) hst
  rw [encode_eq e bit cx _ qe nmps nlps sw (rd_some e.ctx cx hcx) hlk]
  exact encodeCore_spec e bit cx (rd e.ctx cx) qe nmps nlps sw h hn hcx256 q2 q3 m2 l2 s2


/-- byte-stream invariant of MQ output (what T.800 requires so that no marker code ≥ 0xFF90 can appear
inside coded data): every element is a byte, and a 0xFF is always followed by a byte ≤ 0x8F —
in particular the stream never ends with 0xFF. -/
def StreamOk (bytes : List Nat) : Prop :=
  (∀ (j : Nat) (b : Nat), bytes[j]? = some b → b < 256) ∧
  (∀ j : Nat, bytes[j]? = some 255 → ∃ b, bytes[j + 1]? = some b ∧ b ≤ 143)

theorem mul_succ_le {c K B : Nat} (hK : 0 < K) (h : (c + 1) * K ≤ B) : c * K + 1 ≤ B := by
  rw [Nat.add_mul, Nat.one_mul] at h; omega

/-- the slice `buffer[start:bp]` of a buffer whose bytes up to `bp - 1` satisfy the invariant and which
does not end in 0xFF -/
theorem getBuffer_stream (buf : Array Nat) (bpF : Nat) (h2 : 2 ≤ bpF) (hsz : bpF ≤ buf.size)
    (hbytes : ∀ i, rd buf i < 256)
    (hmarker : ∀ i, i + 1 < bpF → rd buf i = 255 → rd buf (i + 1) ≤ 143)
    (hlast : rd buf (bpF - 1) ≠ 255) :
    StreamOk (buf.extract start bpF).toList := by
  have hget : ∀ j, (buf.extract start bpF).toList[j]? = if j < bpF - 1 then some (rd buf (1 + j)) else none := by
    intro j
    rw [Array.getElem?_toList, Array.getElem?_extract]
    have : min bpF buf.size - start = bpF - 1 := by unfold start; omega
    rw [this]
    split
    · next hj => unfold start; rw [rd_some buf (1 + j) (by omega)]
    · rfl
  refine ⟨?_, ?_⟩
  · intro j b hb
    rw [hget] at hb
    split at hb
    · injection hb with hb; rw [← hb]; exact hbytes _
    · exact absurd hb (by simp)
  · intro j hj
    rw [hget] at hj
    split at hj
    · next hlt =>
      injection hj with hj
      have hne : 1 + j ≠ bpF - 1 := by intro heq; rw [heq] at hj; exact hlast hj
      refine ⟨rd buf (1 + (j + 1)), ?_, ?_⟩
      · rw [hget, if_pos (by omega)]
      · have := hmarker (1 + j) (by omega) hj
        rw [show 1 + (j + 1) = 1 + j + 1 by omega]; exact this
    · exact absurd hj (by simp)

/-- `Flush()` / `FlushToOutput()` from any reachable encoder state: never panics, and the returned slice
satisfies the byte-stream invariant -/
theorem flush_spec (e : Enc) (h : RegOk e) (hn : 0x8000 ≤ e.a) :
    ∃ e' bytes, flush e = some (e', bytes) ∧ StreamOk bytes := by
  have hah := h.ahi; have hcl := h.ctlo; have hch := h.cthi
  have hK := pow_pos2 e.ct.toNat
  have hcA := c_lt_of_A hK h.A
  -- setbits
  have htemp : u32 (e.c + e.a) = e.c + e.a := by unfold u32; omega
  obtain ⟨c2, hc2def, hc2lt⟩ : ∃ c2, (if e.c / 65536 * 65536 + 0xFFFF ≥ e.c + e.a
      then sub32 (e.c / 65536 * 65536 + 0xFFFF) 0x8000 else e.c / 65536 * 65536 + 0xFFFF) = c2 ∧ c2 + 1 ≤ e.c + e.a := by
    refine ⟨_, rfl, ?_⟩
    split
    · rw [sub32_eq _ _ (by omega) (by omega)]; omega
    · omega
  have hmono : (c2 + 1) * 2 ^ e.ct.toNat ≤ (e.c + e.a) * 2 ^ e.ct.toNat := Nat.mul_le_mul_right _ hc2lt
  have hA1 : c2 * 2 ^ e.ct.toNat + 1 ≤ 150994944 := mul_succ_le hK (Nat.le_trans hmono h.A)
  have hshl : shl32 c2 e.ct.toNat = c2 * 2 ^ e.ct.toNat := by
    unfold shl32 u32; rw [if_neg (by omega)]; omega
  obtain ⟨e2, he2, hbuf2, hbp2, ha2, hctx2, hct2, hA2, hB2⟩ :=
    byteout_spec { e with c := c2 * 2 ^ e.ct.toNat } 1 h.buf (by omega) (by omega) hA1
      (by
        intro h1 h255
        have hb := h.B h1 h255
        have : c2 * 2 ^ e.ct.toNat + 1 ≤ (e.c + e.a) * 2 ^ e.ct.toNat := mul_succ_le hK hmono
        show rd e.buf e.bp * 134217728 + c2 * 2 ^ e.ct.toNat + 1 ≤ 19327352832
        exact Nat.le_trans (by rw [Nat.add_assoc]; exact Nat.add_le_add_left this _) hb)
  simp only [] at hbp2
  have hK2 := pow_pos2 e2.ct.toNat
  have hA3 : e2.c * 2 ^ e2.ct.toNat + 1 ≤ 150994944 := mul_succ_le hK2 hA2
  have hshl2 : shl32 e2.c e2.ct.toNat = e2.c * 2 ^ e2.ct.toNat := by
    unfold shl32 u32; rw [if_neg (by omega)]; omega
  obtain ⟨e4, he4, hbuf4, hbp4, ha4, hctx4, hct4, hA4, hB4⟩ :=
    byteout_spec { e2 with c := e2.c * 2 ^ e2.ct.toNat } 1 hbuf2 (by omega) (by omega) hA3
      (by
        intro h1 h255
        have hb := hB2 h255
        have : e2.c * 2 ^ e2.ct.toNat + 1 ≤ (e2.c + 1) * 2 ^ e2.ct.toNat := mul_succ_le hK2 (Nat.le_refl _)
        show rd e2.buf e2.bp * 134217728 + e2.c * 2 ^ e2.ct.toNat + 1 ≤ 19327352832
        exact Nat.le_trans (by rw [Nat.add_assoc]; exact Nat.add_le_add_left this _) hb)
  simp only [] at hbp4
  have hfl : flushToOutput e = some (if rd e4.buf e4.bp ≠ 255 then { e4 with bp := e4.bp + 1 } else e4) := by
    unfold flushToOutput
    simp only [htemp, hc2def, hshl, he2, hshl2, he4, rd_some e4.buf e4.bp hbuf4.inb]
  unfold flush
  rw [hfl]
  refine ⟨_, _, rfl, ?_⟩
  unfold getBuffer
  have hin := hbuf4.inb
  by_cases hff : rd e4.buf e4.bp ≠ 255
  · rw [if_pos hff]
    simp only []
    rw [if_neg (by unfold start; omega)]
    exact getBuffer_stream e4.buf (e4.bp + 1) (by omega) (by omega) hbuf4.bytes
      (fun i hi h255 => hbuf4.marker i (by omega) h255) (by simpa using hff)
  · rw [if_neg hff]
    rw [if_neg (by unfold start; omega)]
    have hff' : rd e4.buf e4.bp = 255 := by
      rcases Nat.lt_trichotomy (rd e4.buf e4.bp) 255 with h1 | h1 | h1
      · exact absurd (by omega) hff
      · exact h1
      · exact absurd (by omega) hff
    exact getBuffer_stream e4.buf e4.bp (by omega) (by omega) hbuf4.bytes
      (fun i hi h255 => hbuf4.marker i (by omega) h255)
      (by
        intro h255
        have := hbuf4.marker (e4.bp - 1) (by omega) h255
        rw [show e4.bp - 1 + 1 = e4.bp by omega, hff'] at this
        omega)

theorem rd_replicate0 (n i : Nat) : rd (Array.replicate n 0) i = 0 := by
  unfold rd; rw [Array.getElem?_replicate]; split <;> rfl

/-- `NewMQEncoder(n)` establishes the invariant -/
theorem new_ok (n : Nat) : RegOk (Enc.new n) ∧ 0x8000 ≤ (Enc.new n).a ∧ (Enc.new n).ctx.size = n := by
  have hrd : ∀ i, rd #[0] i = 0 := by
    intro i; unfold rd
    rcases i with _ | i
    · rfl
    · rfl
  refine ⟨⟨⟨?_, ?_, ?_⟩, ?_, ?_, ?_, ?_, ?_, ?_, ?_⟩, ?_, ?_⟩
  · show 0 < (#[0] : Array Nat).size; decide
  · intro i; show rd #[0] i < 256; rw [hrd]; decide
  · intro i hi; exact absurd hi (Nat.not_lt_zero _)
  · show 0 < 0x8000; decide
  · show 0x8000 < 65536; decide
  · show (1 : Int) ≤ 12; decide
  · show (12 : Int) ≤ 13; decide
  · show (0 + 0x8000) * 2 ^ (12 : Int).toNat ≤ 150994944; decide
  · intro h1; exact absurd h1 (by show ¬ 1 ≤ 0; decide)
  · intro i; show rd (Array.replicate n 0) i % 128 < 47 ∧ rd (Array.replicate n 0) i < 256
    rw [rd_replicate0]; decide
  · show 0x8000 ≤ 0x8000; decide
  · show (Array.replicate n 0).size = n; exact Array.size_replicate

/-- any sequence of `Encode` calls with valid context ids: no panic, invariant kept -/
theorem encodeAll_spec : ∀ (ds : List (Nat × Nat)) (e : Enc), RegOk e → 0x8000 ≤ e.a →
    (∀ d ∈ ds, d.2 < e.ctx.size) →
    ∃ e', encodeAll e ds = some e' ∧ RegOk e' ∧ 0x8000 ≤ e'.a ∧ e'.ctx.size = e.ctx.size := by
  intro ds
  induction ds with
  | nil => intro e h hn _; exact ⟨e, rfl, h, hn, rfl⟩
  | cons d ds ih =>
    intro e h hn hds
    obtain ⟨bit, cx⟩ := d
    obtain ⟨e1, he1, hr1, hn1, hs1, _⟩ := encode_spec e bit cx h hn (hds (bit, cx) (List.mem_cons_self))
    obtain ⟨e2, he2, hr2, hn2, hs2⟩ := ih e1 hr1 hn1
      (by intro d hd; rw [hs1]; exact hds d (List.mem_cons_of_mem _ hd))
    refine ⟨e2, ?_, hr2, hn2, by rw [hs2, hs1]⟩
    rw [encodeAll, he1]; exact he2

/-- **register invariants**: after any decision sequence (context ids `< n`) the encoder is renormalised:
`0x8000 ≤ a < 0x10000`, `1 ≤ ct ≤ 13`, `c < 2^28` -/
theorem encoder_registers (n : Nat) (ds : List (Nat × Nat)) (hds : ∀ d ∈ ds, d.2 < n) :
    ∃ e, encodeAll (Enc.new n) ds = some e ∧ 0x8000 ≤ e.a ∧ e.a < 0x10000 ∧ 1 ≤ e.ct ∧ e.ct ≤ 13 ∧
      e.c < 2 ^ 28 ∧ e.bp < e.buf.size := by
  obtain ⟨h0, hn0, hs0⟩ := new_ok n
  obtain ⟨e, he, hr, hn, _⟩ := encodeAll_spec ds (Enc.new n) h0 hn0 (by rw [hs0]; exact hds)
  have := c_lt_of_A (pow_pos2 _) hr.A
  exact ⟨e, he, hn, hr.ahi, hr.ctlo, hr.cthi, by omega, hr.buf.inb⟩

/-- **byte-stream invariant**: for every decision sequence, `Encode…; Flush()` returns (never panics) a byte
string in which every 0xFF is followed by a byte ≤ 0x8F — so it contains no marker ≥ 0xFF90 and does
not end with 0xFF -/
theorem encoder_stream (n : Nat) (ds : List (Nat × Nat)) (hds : ∀ d ∈ ds, d.2 < n) :
    ∃ bytes, encodeBytes n ds = some bytes ∧ StreamOk bytes := by
  obtain ⟨h0, hn0, hs0⟩ := new_ok n
  obtain ⟨e, he, hr, hn, _⟩ := encodeAll_spec ds (Enc.new n) h0 hn0 (by rw [hs0]; exact hds)
  obtain ⟨e', bytes, hfl, hok⟩ := flush_spec e hr hn
  refine ⟨bytes, ?_, hok⟩
  unfold encodeBytes
  rw [he]
  simp only [hfl, Option.map_some]

/-- a stream satisfying `StreamOk` does not end with 0xFF -/
theorem StreamOk.no_trailing_ff {bytes : List Nat} (h : StreamOk bytes) : bytes.getLast? ≠ some 255 := by
  intro hl
  rcases List.eq_nil_or_concat bytes with hnil | ⟨l, a, rfl⟩
  · rw [hnil] at hl; simp at hl
  · rw [List.concat_eq_append] at h hl
    have ha : a = 255 := by simpa using hl
    subst ha
    have hj : (l ++ [255])[l.length]? = some 255 := by simp
    obtain ⟨b, hb, _⟩ := h.2 l.length hj
    have : (l ++ [255])[l.length + 1]? = none := by
      apply List.getElem?_eq_none; simp
    rw [this] at hb; exact absurd hb (by simp)

end Mqc
