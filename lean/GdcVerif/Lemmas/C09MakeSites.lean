import GdcVerif.Gen.Facts
/-!
  C09: the sized `make`s of the decode path (Gen.Facts.decodeMakes, regenerated from the source by
  gofacts/allocs.go on every run) — every one whose size has the SHAPE of a product of two or more
  non-constant factors is one of the expressions reviewed here, each with the quantity that bounds it:

    dims   width·height(·components·bytes per sample) of the frame header in force: at most c·S
    block  the extent of one code-block / tile-component / sub-band: at most the tile-component area
           (Lemmas/J2kTileClamp.lean bounds that by the declared image area)
    grid   number of code-blocks (or quads) of one precinct / block: the extent above divided by the
           code-block (quad) size, at least 1 per 4×4 samples

  None is a product of header-declared COUNTS (layers, resolutions, components, precincts, tile-parts,
  table counts …) that is unrelated to the input length and to the declared sample count.  A new
  multiplicative allocation size anywhere in the decode path — also through a local variable
  (`n := a*b; make([]T, n)`) — is not in this list, and `c09_make_products_reviewed` stops proving.
-/
set_option maxRecDepth 100000
namespace C09Makes

/-- (package, function, size expression, bound) -/
def reviewed : List (String × String × String × String) := [
  ("jpeg/baseline", "(*Decoder).convertToPixels", "((d.width * d.height) * len(d.components))", "dims"),
  ("jpeg/baseline", "(*Decoder).parseSOF", "((comp.width * comp.height) * 64)", "dims"),
  ("jpeg/extended", "(*sequential12Decoder).parseSOF1", "((d.width * d.height) * 2)", "dims"),
  ("jpeg/extended", "DecodeSimple", "((bounds.Dx(…) * bounds.Dy(…)) * 3)", "dims"),
  ("jpeg/extended", "DecodeSimple", "(bounds.Dx(…) * bounds.Dy(…))", "dims"),
  ("jpeg/lossless", "(*Decoder).decodeScan", "(d.width * d.height)", "dims"),
  ("jpeg/lossless", "(*Decoder).samplesToPixels", "(((d.width * d.height) * d.components) * ((d.precision + 7) / 8))", "dims"),
  ("jpeg/lossless14sv1", "(*Decoder).convertToPixels", "(((d.width * d.height) * len(d.components)) * ((d.precision + 7) / 8))", "dims"),
  ("jpeg/lossless14sv1", "(*Decoder).parseSOF3", "(d.width * d.height)", "dims"),
  ("jpeg2000", "(*Decoder).applyDecoderInverseCustomMCT", "(d.width * d.height)", "dims"),
  ("jpeg2000", "(*Decoder).getGrayscalePixelData", "((d.width * d.height) * 2)", "dims"),
  ("jpeg2000", "(*Decoder).getGrayscalePixelData", "(d.width * d.height)", "dims"),
  ("jpeg2000", "(*Decoder).getInterleavedPixelData", "(((d.width * d.height) * d.components) * 2)", "dims"),
  ("jpeg2000", "(*Decoder).getInterleavedPixelData", "((d.width * d.height) * d.components)", "dims"),
  ("jpeg2000", "NewTileAssembler", "(layout.imageWidth * layout.imageHeight)", "dims"),
  ("jpeg2000", "newROIMask", "(width * height)", "dims"),
  ("jpeg2000/htj2k", "(*HTBlockDecoder).DecodeBlock", "(h.numQX * h.numQY)", "grid"),
  ("jpeg2000/htj2k", "(*QuadPairDecoder).DecodeAllQuadPairs", "(((d.QW + 1) / 2) * heightInQuads)", "grid"),
  ("jpeg2000/htj2k", "NewContextComputer", "(((width + 1) / 2) * ((height + 1) / 2))", "block"),
  ("jpeg2000/htj2k", "NewHTDecoder", "(width * height)", "block"),
  ("jpeg2000/htj2k", "decodeOJPHScratchMagSgn", "(width * height)", "block"),
  ("jpeg2000/htj2k", "decodeOpenJPHCleanup", "(((((width + 2) + 7) &^ 7) * (((height + 1) / 2) + 1)) + 8)", "block"),
  ("jpeg2000/htj2k", "decodeOpenJPHCleanup", "(width * height)", "block"),
  ("jpeg2000/t1", "(*Decoder).GetData", "(t1.width * t1.height)", "block"),
  ("jpeg2000/t1", "NewT1Decoder", "((width + 2) * (height + 2))", "block"),
  ("jpeg2000/t2", "(*TileDecoder).assembleSubbands", "(comp.width * comp.height)", "block"),
  ("jpeg2000/t2", "(*TileDecoder).buildAndDecodeCodeBlocks", "(((bandInfo.offsetX + localX1∈{((cbx * cbWidth) + cbWidth) | bandInfo.width}) - (bandInfo.offsetX + (cbx∈{(cbx + 1) | 0} * cbWidth))) * ((bandInfo.offsetY + localY1∈{((cby * cbHeight) + cbHeight) | bandInfo.height}) - (bandInfo.offsetY + (cby∈{(cby + 1) | 0} * cbHeight))))", "block"),
  ("jpeg2000/t2", "(*TileDecoder).decodeCodeBlock", "(actualWidth * actualHeight)", "block"),
  ("jpeg2000/t2", "NewTagTree", "(tt.levelWidths[i] * tt.levelHeights[i])", "grid"),
  ("jpeg2000/t2", "parsePacketHeaderMulti", "(band.numCBX * band.numCBY)", "grid"),
  ("jpegls/lossless", "(*Decoder).decodeScan", "((dec.width * dec.height) * dec.components)", "dims"),
  ("jpegls/nearlossless", "(*Decoder).decodeScan", "((dec.width * dec.height) * dec.components)", "dims"),
  ("rle", "(*Codec).decodeFrame", "frameSize∈{((((((info.BitsAllocated - 1) / 8) + 1) * info.SamplesPerPixel) * info.Width) * info.Height) | (frameSize + 1)}", "dims")]

/-- **every multiplicative `make` size of the decode path is a reviewed one** (and every reviewed one still exists) -/
theorem c09_make_products_reviewed : Gen.Facts.decodeMakeProducts = reviewed.map (fun r => (r.1, r.2.1, r.2.2.1)) := by decide

/-- the product table is the product part of the full table -/
theorem c09_make_products_complete :
    (Gen.Facts.decodeMakes.filter fun s => s.2.2.2.2.1 == "product").length ≥ Gen.Facts.decodeMakeProducts.length := by decide

/-- none of the reviewed bounds is a product of header-declared counts -/
theorem c09_no_header_count_product : ∀ r ∈ reviewed, r.2.2.2 = "dims" ∨ r.2.2.2 = "block" ∨ r.2.2.2 = "grid" := by decide

/-- the scan is not vacuous: it covers the whole decode path -/
theorem c09_makes_scanned : Gen.Facts.decodeMakes.length ≥ 100 ∧ Gen.Facts.decodePathFunctions ≥ 200 := by decide

end C09Makes
