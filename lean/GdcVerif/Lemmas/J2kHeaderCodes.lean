import GdcVerif.Model.J2kSample
/-! Packet-header codes on bit lists, bit writer invariants (C04; the 0xFF invariant is reused by C16). -/
namespace J2k

/-- encodeNumPasses / decodeNumPasses: every pass count 1..164 comes back, consuming exactly its code,
    whatever follows (one definitional unfolding per value) -/
theorem numPasses_roundtrip' : ∀ (n : Nat) (_ : 1 ≤ n) (_ : n ≤ 164) (rest : List Bool),
    ∃ code, encNumPasses n = some code ∧ decNumPasses (code ++ rest) = some (n, rest)
  | 0, h, _ => absurd h (by decide)
  | 1, _, _ => fun rest => ⟨_, rfl, rfl⟩
  | 2, _, _ => fun rest => ⟨_, rfl, rfl⟩
  | 3, _, _ => fun rest => ⟨_, rfl, rfl⟩
  | 4, _, _ => fun rest => ⟨_, rfl, rfl⟩
  | 5, _, _ => fun rest => ⟨_, rfl, rfl⟩
  | 6, _, _ => fun rest => ⟨_, rfl, rfl⟩
  | 7, _, _ => fun rest => ⟨_, rfl, rfl⟩
  | 8, _, _ => fun rest => ⟨_, rfl, rfl⟩
  | 9, _, _ => fun rest => ⟨_, rfl, rfl⟩
  | 10, _, _ => fun rest => ⟨_, rfl, rfl⟩
  | 11, _, _ => fun rest => ⟨_, rfl, rfl⟩
  | 12, _, _ => fun rest => ⟨_, rfl, rfl⟩
  | 13, _, _ => fun rest => ⟨_, rfl, rfl⟩
  | 14, _, _ => fun rest => ⟨_, rfl, rfl⟩
  | 15, _, _ => fun rest => ⟨_, rfl, rfl⟩
  | 16, _, _ => fun rest => ⟨_, rfl, rfl⟩
  | 17, _, _ => fun rest => ⟨_, rfl, rfl⟩
  | 18, _, _ => fun rest => ⟨_, rfl, rfl⟩
  | 19, _, _ => fun rest => ⟨_, rfl, rfl⟩
  | 20, _, _ => fun rest => ⟨_, rfl, rfl⟩
  | 21, _, _ => fun rest => ⟨_, rfl, rfl⟩
  | 22, _, _ => fun rest => ⟨_, rfl, rfl⟩
  | 23, _, _ => fun rest => ⟨_, rfl, rfl⟩
  | 24, _, _ => fun rest => ⟨_, rfl, rfl⟩
  | 25, _, _ => fun rest => ⟨_, rfl, rfl⟩
  | 26, _, _ => fun rest => ⟨_, rfl, rfl⟩
  | 27, _, _ => fun rest => ⟨_, rfl, rfl⟩
  | 28, _, _ => fun rest => ⟨_, rfl, rfl⟩
  | 29, _, _ => fun rest => ⟨_, rfl, rfl⟩
  | 30, _, _ => fun rest => ⟨_, rfl, rfl⟩
  | 31, _, _ => fun rest => ⟨_, rfl, rfl⟩
  | 32, _, _ => fun rest => ⟨_, rfl, rfl⟩
  | 33, _, _ => fun rest => ⟨_, rfl, rfl⟩
  | 34, _, _ => fun rest => ⟨_, rfl, rfl⟩
  | 35, _, _ => fun rest => ⟨_, rfl, rfl⟩
  | 36, _, _ => fun rest => ⟨_, rfl, rfl⟩
  | 37, _, _ => fun rest => ⟨_, rfl, rfl⟩
  | 38, _, _ => fun rest => ⟨_, rfl, rfl⟩
  | 39, _, _ => fun rest => ⟨_, rfl, rfl⟩
  | 40, _, _ => fun rest => ⟨_, rfl, rfl⟩
  | 41, _, _ => fun rest => ⟨_, rfl, rfl⟩
  | 42, _, _ => fun rest => ⟨_, rfl, rfl⟩
  | 43, _, _ => fun rest => ⟨_, rfl, rfl⟩
  | 44, _, _ => fun rest => ⟨_, rfl, rfl⟩
  | 45, _, _ => fun rest => ⟨_, rfl, rfl⟩
  | 46, _, _ => fun rest => ⟨_, rfl, rfl⟩
  | 47, _, _ => fun rest => ⟨_, rfl, rfl⟩
  | 48, _, _ => fun rest => ⟨_, rfl, rfl⟩
  | 49, _, _ => fun rest => ⟨_, rfl, rfl⟩
  | 50, _, _ => fun rest => ⟨_, rfl, rfl⟩
  | 51, _, _ => fun rest => ⟨_, rfl, rfl⟩
  | 52, _, _ => fun rest => ⟨_, rfl, rfl⟩
  | 53, _, _ => fun rest => ⟨_, rfl, rfl⟩
  | 54, _, _ => fun rest => ⟨_, rfl, rfl⟩
  | 55, _, _ => fun rest => ⟨_, rfl, rfl⟩
  | 56, _, _ => fun rest => ⟨_, rfl, rfl⟩
  | 57, _, _ => fun rest => ⟨_, rfl, rfl⟩
  | 58, _, _ => fun rest => ⟨_, rfl, rfl⟩
  | 59, _, _ => fun rest => ⟨_, rfl, rfl⟩
  | 60, _, _ => fun rest => ⟨_, rfl, rfl⟩
  | 61, _, _ => fun rest => ⟨_, rfl, rfl⟩
  | 62, _, _ => fun rest => ⟨_, rfl, rfl⟩
  | 63, _, _ => fun rest => ⟨_, rfl, rfl⟩
  | 64, _, _ => fun rest => ⟨_, rfl, rfl⟩
  | 65, _, _ => fun rest => ⟨_, rfl, rfl⟩
  | 66, _, _ => fun rest => ⟨_, rfl, rfl⟩
  | 67, _, _ => fun rest => ⟨_, rfl, rfl⟩
  | 68, _, _ => fun rest => ⟨_, rfl, rfl⟩
  | 69, _, _ => fun rest => ⟨_, rfl, rfl⟩
  | 70, _, _ => fun rest => ⟨_, rfl, rfl⟩
  | 71, _, _ => fun rest => ⟨_, rfl, rfl⟩
  | 72, _, _ => fun rest => ⟨_, rfl, rfl⟩
  | 73, _, _ => fun rest => ⟨_, rfl, rfl⟩
  | 74, _, _ => fun rest => ⟨_, rfl, rfl⟩
  | 75, _, _ => fun rest => ⟨_, rfl, rfl⟩
  | 76, _, _ => fun rest => ⟨_, rfl, rfl⟩
  | 77, _, _ => fun rest => ⟨_, rfl, rfl⟩
  | 78, _, _ => fun rest => ⟨_, rfl, rfl⟩
  | 79, _, _ => fun rest => ⟨_, rfl, rfl⟩
  | 80, _, _ => fun rest => ⟨_, rfl, rfl⟩
  | 81, _, _ => fun rest => ⟨_, rfl, rfl⟩
  | 82, _, _ => fun rest => ⟨_, rfl, rfl⟩
  | 83, _, _ => fun rest => ⟨_, rfl, rfl⟩
  | 84, _, _ => fun rest => ⟨_, rfl, rfl⟩
  | 85, _, _ => fun rest => ⟨_, rfl, rfl⟩
  | 86, _, _ => fun rest => ⟨_, rfl, rfl⟩
  | 87, _, _ => fun rest => ⟨_, rfl, rfl⟩
  | 88, _, _ => fun rest => ⟨_, rfl, rfl⟩
  | 89, _, _ => fun rest => ⟨_, rfl, rfl⟩
  | 90, _, _ => fun rest => ⟨_, rfl, rfl⟩
  | 91, _, _ => fun rest => ⟨_, rfl, rfl⟩
  | 92, _, _ => fun rest => ⟨_, rfl, rfl⟩
  | 93, _, _ => fun rest => ⟨_, rfl, rfl⟩
  | 94, _, _ => fun rest => ⟨_, rfl, rfl⟩
  | 95, _, _ => fun rest => ⟨_, rfl, rfl⟩
  | 96, _, _ => fun rest => ⟨_, rfl, rfl⟩
  | 97, _, _ => fun rest => ⟨_, rfl, rfl⟩
  | 98, _, _ => fun rest => ⟨_, rfl, rfl⟩
  | 99, _, _ => fun rest => ⟨_, rfl, rfl⟩
  | 100, _, _ => fun rest => ⟨_, rfl, rfl⟩
  | 101, _, _ => fun rest => ⟨_, rfl, rfl⟩
  | 102, _, _ => fun rest => ⟨_, rfl, rfl⟩
  | 103, _, _ => fun rest => ⟨_, rfl, rfl⟩
  | 104, _, _ => fun rest => ⟨_, rfl, rfl⟩
  | 105, _, _ => fun rest => ⟨_, rfl, rfl⟩
  | 106, _, _ => fun rest => ⟨_, rfl, rfl⟩
  | 107, _, _ => fun rest => ⟨_, rfl, rfl⟩
  | 108, _, _ => fun rest => ⟨_, rfl, rfl⟩
  | 109, _, _ => fun rest => ⟨_, rfl, rfl⟩
  | 110, _, _ => fun rest => ⟨_, rfl, rfl⟩
  | 111, _, _ => fun rest => ⟨_, rfl, rfl⟩
  | 112, _, _ => fun rest => ⟨_, rfl, rfl⟩
  | 113, _, _ => fun rest => ⟨_, rfl, rfl⟩
  | 114, _, _ => fun rest => ⟨_, rfl, rfl⟩
  | 115, _, _ => fun rest => ⟨_, rfl, rfl⟩
  | 116, _, _ => fun rest => ⟨_, rfl, rfl⟩
  | 117, _, _ => fun rest => ⟨_, rfl, rfl⟩
  | 118, _, _ => fun rest => ⟨_, rfl, rfl⟩
  | 119, _, _ => fun rest => ⟨_, rfl, rfl⟩
  | 120, _, _ => fun rest => ⟨_, rfl, rfl⟩
  | 121, _, _ => fun rest => ⟨_, rfl, rfl⟩
  | 122, _, _ => fun rest => ⟨_, rfl, rfl⟩
  | 123, _, _ => fun rest => ⟨_, rfl, rfl⟩
  | 124, _, _ => fun rest => ⟨_, rfl, rfl⟩
  | 125, _, _ => fun rest => ⟨_, rfl, rfl⟩
  | 126, _, _ => fun rest => ⟨_, rfl, rfl⟩
  | 127, _, _ => fun rest => ⟨_, rfl, rfl⟩
  | 128, _, _ => fun rest => ⟨_, rfl, rfl⟩
  | 129, _, _ => fun rest => ⟨_, rfl, rfl⟩
  | 130, _, _ => fun rest => ⟨_, rfl, rfl⟩
  | 131, _, _ => fun rest => ⟨_, rfl, rfl⟩
  | 132, _, _ => fun rest => ⟨_, rfl, rfl⟩
  | 133, _, _ => fun rest => ⟨_, rfl, rfl⟩
  | 134, _, _ => fun rest => ⟨_, rfl, rfl⟩
  | 135, _, _ => fun rest => ⟨_, rfl, rfl⟩
  | 136, _, _ => fun rest => ⟨_, rfl, rfl⟩
  | 137, _, _ => fun rest => ⟨_, rfl, rfl⟩
  | 138, _, _ => fun rest => ⟨_, rfl, rfl⟩
  | 139, _, _ => fun rest => ⟨_, rfl, rfl⟩
  | 140, _, _ => fun rest => ⟨_, rfl, rfl⟩
  | 141, _, _ => fun rest => ⟨_, rfl, rfl⟩
  | 142, _, _ => fun rest => ⟨_, rfl, rfl⟩
  | 143, _, _ => fun rest => ⟨_, rfl, rfl⟩
  | 144, _, _ => fun rest => ⟨_, rfl, rfl⟩
  | 145, _, _ => fun rest => ⟨_, rfl, rfl⟩
  | 146, _, _ => fun rest => ⟨_, rfl, rfl⟩
  | 147, _, _ => fun rest => ⟨_, rfl, rfl⟩
  | 148, _, _ => fun rest => ⟨_, rfl, rfl⟩
  | 149, _, _ => fun rest => ⟨_, rfl, rfl⟩
  | 150, _, _ => fun rest => ⟨_, rfl, rfl⟩
  | 151, _, _ => fun rest => ⟨_, rfl, rfl⟩
  | 152, _, _ => fun rest => ⟨_, rfl, rfl⟩
  | 153, _, _ => fun rest => ⟨_, rfl, rfl⟩
  | 154, _, _ => fun rest => ⟨_, rfl, rfl⟩
  | 155, _, _ => fun rest => ⟨_, rfl, rfl⟩
  | 156, _, _ => fun rest => ⟨_, rfl, rfl⟩
  | 157, _, _ => fun rest => ⟨_, rfl, rfl⟩
  | 158, _, _ => fun rest => ⟨_, rfl, rfl⟩
  | 159, _, _ => fun rest => ⟨_, rfl, rfl⟩
  | 160, _, _ => fun rest => ⟨_, rfl, rfl⟩
  | 161, _, _ => fun rest => ⟨_, rfl, rfl⟩
  | 162, _, _ => fun rest => ⟨_, rfl, rfl⟩
  | 163, _, _ => fun rest => ⟨_, rfl, rfl⟩
  | 164, _, _ => fun rest => ⟨_, rfl, rfl⟩
  | n + 165, _, h => absurd h (by omega)

theorem numPasses_none (n : Nat) (h : 164 < n) : encNumPasses n = none := by
  unfold encNumPasses
  have c1 : (n == 1) = false := by simp; omega
  have c2 : (n == 2) = false := by simp; omega
  have c3 : ¬ n ≤ 5 := by omega
  have c4 : ¬ n ≤ 36 := by omega
  have c5 : ¬ n ≤ 164 := by omega
  simp [c1, c2, c3, c4, c5]

theorem comma_roundtrip' (n : Nat) (rest : List Bool) : decComma (encComma n ++ rest) = some (n, rest) := by
  induction n with
  | zero => rfl
  | succ n ih => simp only [encComma, List.cons_append, decComma, ih]

theorem bits_roundtrip_acc (n : Nat) : ∀ (acc v : Nat) (rest : List Bool),
    readBitsL n acc (writeBitsL v n ++ rest) = some (acc * 2 ^ n + v % 2 ^ n, rest) := by
  induction n with
  | zero => intro acc v rest; simp [readBitsL, writeBitsL, Nat.mod_one]
  | succ n ih =>
    intro acc v rest
    simp only [writeBitsL, List.cons_append, readBitsL]
    rw [ih]
    congr 2
    have hm := Nat.mod_pow_succ (x := v) (b := 2) (k := n)
    have hb : v / 2 ^ n % 2 = 0 ∨ v / 2 ^ n % 2 = 1 := by omega
    have hp : 2 ^ (n + 1) = 2 * 2 ^ n := by rw [Nat.pow_succ]; omega
    rw [hm, hp]
    generalize 2 ^ n = p at hb ⊢
    have e2 : acc * (2 * p) = 2 * (acc * p) := by rw [Nat.mul_left_comm]
    rcases hb with hb | hb
    · rw [hb]
      simp only [Nat.reduceBEq, Bool.false_eq_true, if_false]
      rw [e2, Nat.add_zero, Nat.mul_zero, Nat.mul_assoc]; omega
    · rw [hb]
      simp only [BEq.rfl, if_true]
      rw [e2, Nat.add_mul, Nat.mul_assoc]; omega

/-- writeBits(value, n) / readBits(n): any value that fits n bits comes back -/
theorem bits_roundtrip' (n v : Nat) (hv : v < 2 ^ n) (rest : List Bool) :
    readBitsL n 0 (writeBitsL v n ++ rest) = some (v, rest) := by
  rw [bits_roundtrip_acc, Nat.mod_eq_of_lt hv]; simp

/-! ### bioWriter -/

/-- byteOut leaves 7 usable bits exactly when the byte it has just emitted is 0xFF -/
theorem byteOut_ct' (w : BioW) :
    (w.byteOut.ct = 7 ↔ w.byteOut.buf.getLast? = some 255) ∧ (w.byteOut.ct = 7 ∨ w.byteOut.ct = 8) := by
  unfold BioW.byteOut
  simp only [List.getLast?_append, List.getLast?_singleton, Option.some_or]
  by_cases h : (w.out * 256) % 65536 = 0xff00
  · simp [h]
  · have : ¬ ((w.out * 256) % 65536 / 256 % 256 = 255) := by omega
    simp [h, this]

/-- flush never ends on 0xFF: the codestream byte after a packet header is never misread as a marker tail -/
theorem flush_last_not_FF' (w : BioW) : w.flush.getLast? ≠ some 255 := by
  unfold BioW.flush BioW.byteOut
  simp only
  by_cases h : (w.out * 256) % 65536 = 0xff00
  · simp [h]
  · have : ¬ ((w.out * 256) % 65536 / 256 % 256 = 255) := by omega
    simp [h, this]

theorem flush_nonempty' (w : BioW) : w.flush ≠ [] := by
  unfold BioW.flush BioW.byteOut
  simp only
  split <;> simp

/-! ### Lblock length coding -/

theorem lt_pow_floorLog2F : ∀ (f n : Nat), n ≤ f → n < 2 ^ (floorLog2F f n + 1) := by
  intro f
  induction f with
  | zero => intro n h; have : n = 0 := by omega
            subst this; decide
  | succ f ih =>
    intro n h
    unfold floorLog2F
    by_cases h1 : n ≤ 1
    · simp only [h1, if_true]; omega
    · simp only [h1, if_false]
      have := ih (n / 2) (by omega)
      have e : 2 ^ (1 + floorLog2F f (n / 2) + 1) = 2 * 2 ^ (floorLog2F f (n / 2) + 1) := by
        rw [show 1 + floorLog2F f (n / 2) + 1 = (floorLog2F f (n / 2) + 1) + 1 by omega, Nat.pow_succ]; omega
      rw [e]; omega

theorem lt_pow_floorLog2 (n : Nat) : n < 2 ^ (floorLog2 n + 1) := lt_pow_floorLog2F n n (Nat.le_refl _)

theorem two_pow_mono {a b : Nat} (h : a ≤ b) : 2 ^ a ≤ 2 ^ b := Nat.pow_le_pow_right (by decide) h

/-- the Lblock rule makes the length field wide enough, and the decoder reads it back with the same state -/
theorem lblock_roundtrip' (numLenBits dataLen newPasses : Nat) (rest : List Bool)
    (hw : (encLen numLenBits dataLen newPasses).1 + floorLog2 newPasses ≤ 32) :
    decLen numLenBits newPasses ((encLen numLenBits dataLen newPasses).2 ++ rest) =
      some (dataLen, (encLen numLenBits dataLen newPasses).1, rest) ∧
    dataLen < 2 ^ ((encLen numLenBits dataLen newPasses).1 + floorLog2 newPasses) := by
  unfold encLen decLen at *
  simp only [] at *
  generalize hl : (if (numLenBits == 0) = true then 3 else numLenBits) = l at *
  have hl3 : 1 ≤ l := by
    rw [← hl]; split
    · omega
    · next h => simp at h; omega
  generalize hinc : floorLog2 dataLen + 1 - (l + floorLog2 newPasses) = inc at *
  have hwide : floorLog2 dataLen + 1 ≤ l + inc + floorLog2 newPasses := by omega
  have hlt : dataLen < 2 ^ (l + inc + floorLog2 newPasses) :=
    Nat.lt_of_lt_of_le (lt_pow_floorLog2 dataLen) (two_pow_mono hwide)
  refine ⟨?_, hlt⟩
  rw [List.append_assoc, comma_roundtrip']
  simp only []
  have c : (l + inc + floorLog2 newPasses == 0 || decide (l + inc + floorLog2 newPasses > 32)) = false := by
    simp; omega
  simp only [c, Bool.false_eq_true, if_false]
  rw [bits_roundtrip' _ _ hlt]

end J2k
