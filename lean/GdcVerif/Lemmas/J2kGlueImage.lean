import GdcVerif.Model.J2kGlueImage
import GdcVerif.Lemmas.J2kGlueTile
import GdcVerif.Lemmas.Dwt53Int32
import GdcVerif.Lemmas.Rct
/-! image level: RCT + DWT around `tile_planes_roundtrip` -/
namespace J2kGlue
open Dwt53 Gen.J2kColor

/-! ### planes and vectors -/

theorem getD_toFn {n : Nat} (v : Vector Int n) (i : Nat) : (v.toArray[i]?).getD 0 = toFn v i := by
  unfold toFn
  by_cases h : i < n
  · simp [h]
  · simp [h]

theorem idx_mod (W x y : Nat) (hx : x < W) : (y * W + x) % W = x := by
  rw [Nat.mul_comm, Nat.mul_add_mod]; exact Nat.mod_eq_of_lt hx

theorem idx_div (W x y : Nat) (hx : x < W) : (y * W + x) / W = y := by
  rw [Nat.mul_comm, Nat.mul_add_div (by omega), Nat.div_eq_of_lt hx]; simp

theorem idx_lt (W H x y : Nat) (hx : x < W) (hy : y < H) : y * W + x < H * W := by
  have : (y + 1) * W ≤ H * W := Nat.mul_le_mul_right W hy
  rw [Nat.succ_mul] at this; omega

theorem toFn_vecOfPlane (W H : Nat) (f : Plane) (i : Nat) (hi : i < H * W) :
    toFn (vecOfPlane W H f) i = f (i % W) (i / W) := by
  unfold toFn vecOfPlane
  simp [hi]

theorem planeOfVec_vecOfPlane (W H : Nat) (f : Plane) (x y : Nat) (hx : x < W) (hy : y < H) :
    planeOfVec W H (vecOfPlane W H f) x y = f x y := by
  unfold planeOfVec
  simp only [hx, hy, and_self, if_true]
  rw [getD_toFn, toFn_vecOfPlane W H f _ (idx_lt W H x y hx hy), idx_mod W x y hx, idx_div W x y hx]

theorem vecOfPlane_congr (W H : Nat) (f g : Plane) (h : ∀ x y, x < W → y < H → f x y = g x y) :
    vecOfPlane W H f = vecOfPlane W H g := by
  apply ext_toFn
  intro i hi
  rw [toFn_vecOfPlane W H f i hi, toFn_vecOfPlane W H g i hi]
  have hW : 0 < W := by
    cases W with
    | zero => simp at hi
    | succ _ => omega
  exact h _ _ (Nat.mod_lt _ hW) ((Nat.div_lt_iff_lt_mul hW).mpr hi)

theorem vecOfPlane_planeOfVec (W H : Nat) (v : Vector Int (H * W)) : vecOfPlane W H (planeOfVec W H v) = v := by
  apply ext_toFn
  intro i hi
  rw [toFn_vecOfPlane W H _ i hi]
  have hW : 0 < W := by
    cases W with
    | zero => simp at hi
    | succ _ => omega
  have h1 : i % W < W := Nat.mod_lt _ hW
  have h2 : i / W < H := (Nat.div_lt_iff_lt_mul hW).mpr hi
  unfold planeOfVec
  simp only [h1, h2, and_self, if_true]
  rw [getD_toFn]
  have : i / W * W + i % W = i := by rw [Nat.mul_comm]; exact Nat.div_add_mod i W
  rw [this]

theorem planeOfVec_bnd (W H : Nat) (v : Vector Int (H * W)) (M : Int) (hM : 0 ≤ M) (hb : Bnd M (toFn v)) (x y : Nat) :
    -M ≤ planeOfVec W H v x y ∧ planeOfVec W H v x y ≤ M := by
  unfold planeOfVec
  split
  · rw [getD_toFn]; exact hb _
  · omega

/-! ### the level loop keeps `bndL` -/

theorem bnd_mono {M M' : Int} (h : M ≤ M') (f : Nat → Int) (hb : Bnd M f) : Bnd M' f := by
  intro k; have := hb k; omega

theorem forwardLevels_bnd {n : Nat} (stride : Nat) (levels : Nat) :
    ∀ (win : Window) (data dF : Vector Int n) (M : Int), WinOk n stride win → 0 ≤ M → bndL levels M ≤ 536870911 →
      Bnd M (toFn data) → forwardLevels id stride levels data win = some dF → Bnd (bndL levels M) (toFn dF) := by
  induction levels with
  | zero =>
    intro win data dF M _ _ _ hd hfw
    rw [forwardLevels] at hfw; injection hfw with hfw; subst hfw; exact hd
  | succ L ih =>
    intro win data dF M hok hM0 hML hd hfw
    obtain ⟨cw, ch, cx, cy⟩ := win
    have hmono := bndL_mono L (4 * M + 3) (by omega)
    simp only [bndL] at hML ⊢
    rw [forwardLevels] at hfw
    by_cases hs : cw ≤ 1 ∧ ch ≤ 1
    · rw [if_pos hs] at hfw
      injection hfw with hfw; subst hfw
      exact bnd_mono (by omega) _ hd
    · rw [if_neg hs] at hfw
      have h2 := forward53_2d_int32 data cw.toNat ch.toNat stride (Gen.J2kWavelet.isEven cx) (Gen.J2kWavelet.isEven cy)
        hok.2.1 hM0 (by omega) hd
      cases hfw2 : forward53_2d id data cw.toNat ch.toNat stride (Gen.J2kWavelet.isEven cx) (Gen.J2kWavelet.isEven cy) with
      | none => rw [hfw2] at hfw; exact absurd hfw (by simp)
      | some d1 =>
        rw [hfw2] at hfw
        simp only [] at hfw
        exact ih (nextWindow (cw, ch, cx, cy)) d1 dF (4 * M + 3) (winOk_next hok) (by omega) hML (h2.2 d1 hfw2) hfw

/-- one component through the int32 transform: it succeeds, is undone by the int32 inverse, and its coefficients
    are bounded by `bndL levels M` -/
theorem dwt_component {n : Nat} (data : Vector Int n) (width height levels : Nat) (hn : height * width ≤ n)
    {M : Int} (hM0 : 0 ≤ M) (hML : bndL levels M ≤ 536870911) (hd : Bnd M (toFn data)) :
    ∃ dF, forwardMultilevel Go.wrap32 data width height levels 0 0 = some dF ∧
      inverseMultilevel Go.wrap32 dF width height levels 0 0 = some data ∧ Bnd (bndL levels M) (toFn dF) := by
  have hok : WinOk n width ((width : Int), (height : Int), 0, 0) := ⟨by simp, by simp, by simp, by simpa using hn⟩
  have hrt := inverse53_forward53_multilevel_int32 data width height levels 0 0 hn hM0 hML hd
  cases hf : forwardMultilevel Go.wrap32 data width height levels 0 0 with
  | none => rw [hf] at hrt; exact absurd hrt (by simp)
  | some dF =>
    rw [hf, Option.bind_some] at hrt
    refine ⟨dF, rfl, hrt, ?_⟩
    unfold forwardMultilevel at hf
    rw [forwardLevels_int32 width levels _ data M hok hM0 hML hd] at hf
    exact forwardLevels_bnd width levels _ data dF M hok hM0 hML hd hf

/-! ### RCT -/

theorem rct_bound (r g b M : Int) (hr : -M ≤ r ∧ r < M) (hg : -M ≤ g ∧ g < M) (hb : -M ≤ b ∧ b < M) :
    (-(2 * M) ≤ (RCTForward r g b).1 ∧ (RCTForward r g b).1 ≤ 2 * M) ∧
    (-(2 * M) ≤ (RCTForward r g b).2.1 ∧ (RCTForward r g b).2.1 ≤ 2 * M) ∧
    (-(2 * M) ≤ (RCTForward r g b).2.2 ∧ (RCTForward r g b).2.2 ≤ 2 * M) := by
  simp only [RCTForward, Rct.shr2]
  omega

/-! ### composition -/

theorem mapM_some_map {α β : Type} (f : α → Option β) (g : α → β) : ∀ (l : List α), (∀ a ∈ l, f a = some (g a)) →
    l.mapM f = some (l.map g) := by
  intro l
  induction l with
  | nil => intro _; rfl
  | cons a l ih =>
    intro h
    exact mapM_cons_some f a l (g a) (l.map g) (h a (by simp)) (ih (fun a' ha' => h a' (by simp [ha'])))

theorem planesOf_map (c : ICfg) (g : Nat → Vector Int (c.H * c.W)) (k : Nat) (hk : k < c.C) :
    planesOf c ((List.range c.C).map g) k = planeOfVec c.W c.H (g k) := by
  unfold planesOf
  have : ((List.range c.C).map g)[k]? = some (g k) := by simp [hk]
  rw [this]

theorem planesOf_none (c : ICfg) (g : Nat → Vector Int (c.H * c.W)) (k : Nat) (hk : ¬ k < c.C) :
    planesOf c ((List.range c.C).map g) k = fun _ _ => 0 := by
  unfold planesOf
  have : ((List.range c.C).map g)[k]? = none := by simp; omega
  rw [this]

theorem pow_split (P : Nat) (hP : 1 ≤ P) : (2 : Int) ^ P = 2 * 2 ^ (P - 1) := by
  have : P = (P - 1) + 1 := by omega
  rw [this, Int.pow_succ]; simp; omega

/-- THE CORE OF THE REVERSIBLE PIPELINE, single tile: the DC-shifted component planes the encoder transforms, cuts,
    codes and packs into the tile-part body are exactly the planes the decoder unpacks, decodes, pastes and
    inverse-transforms — for every body suffix `tail` (the EOC marker follows the body in the codestream) -/
theorem image_core_roundtrip (c : ICfg) (v : Nat → Plane) (tail : List Nat)
    (hw : 0 < c.cbw) (hh : 0 < c.cbh) (hP1 : 1 ≤ c.P) (hP2 : c.P ≤ 16)
    (hL : bndL c.L (2 ^ c.P) < 2 ^ 25)
    (hv : ∀ k x y, -(2 ^ (c.P - 1)) ≤ v k x y ∧ v k x y < 2 ^ (c.P - 1))
    (hs : SegmentLenHyp) :
    ∃ body, encodeBody c v = some body ∧ ∃ v', decodeBody c (body ++ tail) = some v' ∧
      ∀ k x y, k < c.C → x < c.W → y < c.H → v' k x y = v k x y := by
  have hM0 : (0 : Int) ≤ 2 ^ c.P := Int.le_of_lt (Int.pow_pos (by decide))
  have hsplit := pow_split c.P hP1
  have hpos : (0 : Int) < 2 ^ (c.P - 1) := Int.pow_pos (by decide)
  -- the planes entering the wavelet transform, bounded by 2^P
  let p : Nat → Plane := if c.useRct then rctFwd v else v
  have hp : ∀ k x y, -(2 ^ c.P) ≤ p k x y ∧ p k x y ≤ 2 ^ c.P := by
    intro k x y
    show -(2 ^ c.P) ≤ (if c.useRct then rctFwd v else v) k x y ∧ (if c.useRct then rctFwd v else v) k x y ≤ 2 ^ c.P
    by_cases hr : c.useRct = true
    · simp only [hr, if_true]
      have hb := rct_bound (v 0 x y) (v 1 x y) (v 2 x y) (2 ^ (c.P - 1)) (hv 0 x y) (hv 1 x y) (hv 2 x y)
      rw [← hsplit] at hb
      unfold rctFwd
      simp only []
      have h3 := hv k x y
      split
      · exact hb.1
      · split
        · exact hb.2.1
        · split
          · exact hb.2.2
          · omega
    · simp only [hr, Bool.false_eq_true, if_false]
      have := hv k x y; omega
  have hML : bndL c.L (2 ^ c.P) ≤ 536870911 := by
    have : (2 : Int) ^ 25 = 33554432 := by decide
    omega
  -- every component through the transform
  have hcomp : ∀ k, ∃ dF, forwardMultilevel Go.wrap32 (vecOfPlane c.W c.H (p k)) c.W c.H c.L 0 0 = some dF ∧
      inverseMultilevel Go.wrap32 dF c.W c.H c.L 0 0 = some (vecOfPlane c.W c.H (p k)) ∧ Bnd (bndL c.L (2 ^ c.P)) (toFn dF) := by
    intro k
    apply dwt_component _ c.W c.H c.L (Nat.le_refl _) hM0 hML
    intro i
    unfold toFn
    split
    · rename_i hi
      have := toFn_vecOfPlane c.W c.H (p k) i hi
      unfold toFn at this
      simp only [hi, dif_pos] at this
      rw [this]; exact hp _ _ _
    · omega
  let dF : Nat → Vector Int (c.H * c.W) := fun k => Classical.choose (hcomp k)
  have hdF : ∀ k, forwardMultilevel Go.wrap32 (vecOfPlane c.W c.H (p k)) c.W c.H c.L 0 0 = some (dF k) ∧
      inverseMultilevel Go.wrap32 (dF k) c.W c.H c.L 0 0 = some (vecOfPlane c.W c.H (p k)) ∧
      Bnd (bndL c.L (2 ^ c.P)) (toFn (dF k)) := fun k => Classical.choose_spec (hcomp k)
  have hfwd : dwtFwd c p = some ((List.range c.C).map dF) := mapM_some_map _ dF _ (fun k _ => (hdF k).1)
  -- the transformed planes: bounded below 2^25
  have hBL0 : (0 : Int) ≤ bndL c.L (2 ^ c.P) := Int.le_trans hM0 (bndL_mono c.L _ hM0)
  have hpl : ∀ k x y, (planesOf c ((List.range c.C).map dF) k x y).natAbs < 2 ^ 25 := by
    intro k x y
    have h25 : ((2 : Nat) ^ 25 : Nat) = 33554432 := by decide
    have h25i : (2 : Int) ^ 25 = 33554432 := by decide
    by_cases hk : k < c.C
    · rw [planesOf_map c dF k hk]
      have := planeOfVec_bnd c.W c.H (dF k) _ hBL0 (hdF k).2.2 x y
      omega
    · rw [planesOf_none c dF k hk]; simp
  have hnb : ∀ r b, c.tcfg.nb r b < 32 := by
    intro r b
    show c.P + gain r b + 1 < 32
    unfold gain; split <;> (try split) <;> omega
  obtain ⟨bytes, out, henc, hdec, hpaste⟩ := tile_planes_roundtrip c.tcfg c.C c.prog (planesOf c ((List.range c.C).map dF)) tail
    hw hh hnb hpl hs
  refine ⟨bytes, ?_, ?_⟩
  · show (match dwtFwd c (if c.useRct then rctFwd v else v) with | none => none | some vs => _) = _
    rw [show (if c.useRct then rctFwd v else v) = p from rfl, hfwd]
    exact henc
  · -- decoder
    have hinv : dwtInv c (pasteTile c.tcfg c.C c.prog out) = some ((List.range c.C).map fun k => vecOfPlane c.W c.H (p k)) := by
      apply mapM_some_map
      intro k hk
      have hkC : k < c.C := List.mem_range.mp hk
      have : vecOfPlane c.W c.H (pasteTile c.tcfg c.C c.prog out k) = dF k := by
        rw [← vecOfPlane_planeOfVec c.W c.H (dF k)]
        apply vecOfPlane_congr
        intro x y hx hy
        rw [hpaste k x y hkC hx hy, planesOf_map c dF k hkC]
      rw [this]
      exact (hdF k).2.1
    refine ⟨_, by unfold decodeBody; rw [hdec]; simp only []; rw [hinv], ?_⟩
    intro k x y hk hx hy
    have hq : ∀ j, j < c.C → planesOf c ((List.range c.C).map fun k => vecOfPlane c.W c.H (p k)) j x y = p j x y := by
      intro j hj
      rw [planesOf_map c (fun k => vecOfPlane c.W c.H (p k)) j hj]
      exact planeOfVec_vecOfPlane c.W c.H (p j) x y hx hy
    by_cases hr : c.useRct = true
    · simp only [hr, if_true]
      have hC3 : c.C = 3 := by
        unfold ICfg.useRct at hr
        simp only [Bool.and_eq_true, beq_iff_eq] at hr
        exact hr.2
      have hpr : p = rctFwd v := by show (if c.useRct then rctFwd v else v) = _; simp [hr]
      unfold rctInv
      simp only []
      rw [hq 0 (by omega), hq 1 (by omega), hq 2 (by omega), hpr]
      have hrt := Rct.inverse_forward (v 0 x y) (v 1 x y) (v 2 x y)
      have e0 : rctFwd v 0 x y = (RCTForward (v 0 x y) (v 1 x y) (v 2 x y)).1 := by simp [rctFwd]
      have e1 : rctFwd v 1 x y = (RCTForward (v 0 x y) (v 1 x y) (v 2 x y)).2.1 := by simp [rctFwd]
      have e2 : rctFwd v 2 x y = (RCTForward (v 0 x y) (v 1 x y) (v 2 x y)).2.2 := by simp [rctFwd]
      rw [e0, e1, e2, hrt]
      have : k = 0 ∨ k = 1 ∨ k = 2 := by omega
      rcases this with rfl | rfl | rfl <;> simp
    · simp only [hr, Bool.false_eq_true, if_false]
      rw [hq k hk]
      show (if c.useRct then rctFwd v else v) k x y = v k x y
      simp [hr]

end J2kGlue
