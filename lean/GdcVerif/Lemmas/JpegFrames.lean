import GdcVerif.Lemmas.JpegContainer
/-!
  C16, JPEG family: each encoder's header model, followed by ANY marker-free entropy-coded
  segment and EOI, is accepted by the strict reader, which recovers exactly the arguments.
-/
namespace JpegC
open StrictJpeg Gen.C16Jpeg

/-- a Huffman table specification that a DHT segment can carry (T.81 B.2.4.2, Annex C): sixteen counts
    that fit a byte, as many values as the counts announce, at most 256, a prefix code with the
    all-ones word free, no value twice.  (That `BuildOptimalHuffmanTable` produces such tables is
    C02's subject; the property search checks it on every real stream.) -/
structure TableOk (t : HuffTable) : Prop where
  len : t.bits.length = 16
  range : ∀ b ∈ t.bits, 0 ≤ b ∧ b ≤ 255
  total : (t.bits.map byteOf).sum = t.values.length
  le256 : t.values.length ≤ 256
  kraft : StrictJpeg.kraft (t.bits.map byteOf) < 65536
  nodup : t.values.Nodup

/-- a quantisation table a baseline DQT segment can carry: 64 entries in 1..255 (B.2.4.1, Pq = 0) -/
def QOk (q : List Int) : Prop := q.length = 64 ∧ ∀ x ∈ q, 1 ≤ x ∧ x ≤ 255

theorem sum_bits (bits : List Int) (h : ∀ b ∈ bits, 0 ≤ b ∧ b ≤ 255) : bits.sum = ((bits.map byteOf).sum : Nat) := by
  induction bits with
  | nil => simp
  | cons b r ih =>
    have hb := h b (by simp)
    have := ih (fun x hx => h x (by simp [hx]))
    simp only [List.sum_cons, List.map_cons, this, Int.natCast_add]
    unfold byteOf; omega

theorem dhtPayload_ok (cls id : Nat) (t : HuffTable) (ht : TableOk t) :
    dhtPayload cls id t = .ok ((((cls <<< 4) % 256) ||| id) :: (t.bits.map byteOf ++ t.values)) := by
  unfold dhtPayload
  have hs := sum_bits t.bits ht.range
  simp only [hs, ht.total]
  have : ¬ ((t.values.length : Int) < 0) := by omega
  simp [this, copyInto]

theorem dht_len (t : HuffTable) (ht : TableOk t) (b : Nat) : (b :: (t.bits.map byteOf ++ t.values)).length + 2 < 65536 := by
  have := ht.le256; have := ht.len
  simp; omega

theorem dht_len_exact (t : HuffTable) (ht : TableOk t) (b : Nat) :
    (b :: (t.bits.map byteOf ++ t.values)).length = 17 + t.values.length := by
  have := ht.len
  simp; omega

theorem step_dht (st : St) (b tc th : Nat) (t : HuffTable) (ht : TableOk t) (hb1 : b / 16 = tc) (hb2 : b % 16 = th)
    (htc : tc ≤ 1) (hth : th ≤ 3) :
    step st 0xC4 (b :: (t.bits.map byteOf ++ t.values)) =
      some { st with dht := st.dht ++ [{ tc := tc, th := th, bits := t.bits.map byteOf, vals := t.values }] } := by
  have hl : (b :: (t.bits.map byteOf ++ t.values)).length = (t.bits.length + t.values.length) + 1 := by simp
  simp only [step, hl]
  rw [parseDht_single _ b tc th _ _ hb1 hb2 htc hth (by simp [ht.len]) ht.total ht.le256 ht.kraft ht.nodup]
  simp

/-- the 64 bytes `writeDQT` emits after `Pq|Tq` -/
def zq (q : List Int) : List Nat := (List.range 64).map fun j => byteOf (q.getD (ZigZag.getD j 0).toNat 0)

theorem zigzag_lt : ∀ j < 64, (ZigZag.getD j 0).toNat < 64 := by decide

theorem getD_mem (q : List Int) (k : Nat) (h : k < q.length) : q.getD k 0 ∈ q := by
  simp [List.getD, List.getElem?_eq_getElem h]

theorem zq_ok (q : List Int) (hq : QOk q) : (zq q).length = 64 ∧ ∀ x ∈ zq q, x ≠ 0 := by
  refine ⟨by simp [zq], ?_⟩
  intro x hx
  simp only [zq, List.mem_map, List.mem_range] at hx
  obtain ⟨j, hj, rfl⟩ := hx
  have hk := zigzag_lt j hj
  have hmem : q.getD (ZigZag.getD j 0).toNat 0 ∈ q := by
    have hk' : (ZigZag.getD j 0).toNat < q.length := by rw [hq.1]; exact hk
    exact getD_mem q _ hk'
  have := hq.2 _ hmem
  unfold byteOf; omega

theorem dqtPayload_eq (i : Nat) (q : List Int) : dqtPayload i q = byteOf i :: zq q := rfl

theorem step_dqt (st : St) (b tq : Nat) (q : List Int) (hq : QOk q) (hb1 : b / 16 = 0) (hb2 : b % 16 = tq) (htq : tq ≤ 3) :
    step st 0xDB (b :: zq q) = some { st with dqt := st.dqt ++ [{ pq := 0, tq := tq, q := zq q }] } := by
  have hz := zq_ok q hq
  have hl : (b :: zq q).length = 64 + 1 := by simp [hz.1]
  simp only [step, hl]
  rw [parseDqt_single _ b tq _ hb1 hb2 htq hz.1 hz.2]
  simp

theorem step_sof (st : St) (m : Nat) (pl : List Nat) (f : Frame) (hst : st.frame = none) (hm : isSOF m = true)
    (h : parseSof m pl = some f) : step st m pl = some { st with frame := some f } := by
  have hm' := hm
  simp only [isSOF, Bool.or_eq_true, Bool.and_eq_true, decide_eq_true_eq] at hm'
  have h0 : ¬ ((0xE0 ≤ m ∧ m ≤ 0xEF) ∨ m = 0xFE) := by omega
  have h1 : m ≠ 0xDB := by omega
  have h2 : m ≠ 0xC4 := by omega
  have h3 : m ≠ 0xDD := by omega
  have h4 : m ≠ 0xF8 := by omega
  simp only [step, if_neg h0, if_neg h1, if_neg h2, if_neg h3, if_neg h4, hm, if_true, hst, h, Option.map]

theorem byteOf_0 : byteOf 0 = 0 := by decide
theorem byteOf_1 : byteOf 1 = 1 := by decide
theorem byteOf_2 : byteOf 2 = 2 := by decide
theorem byteOf_3 : byteOf 3 = 3 := by decide
theorem byteOf_8 : byteOf 8 = 8 := by decide
theorem mSOI : writeMarker MarkerSOI = [0xFF, 0xD8] := by decide
theorem mEOI : writeMarker MarkerEOI = [0xFF, 0xD9] := by decide
theorem mAPP0 : writeMarker MarkerAPP0 = [0xFF, 0xE0] := by decide
theorem mSOF0 : writeMarker MarkerSOF0 = [0xFF, 0xC0] := by decide
theorem mSOF1 : writeMarker MarkerSOF1 = [0xFF, 0xC1] := by decide
theorem mSOF3 : writeMarker MarkerSOF3 = [0xFF, 0xC3] := by decide
theorem mDHT : writeMarker MarkerDHT = [0xFF, 0xC4] := by decide
theorem mDQT : writeMarker MarkerDQT = [0xFF, 0xDB] := by decide
theorem mSOS : writeMarker MarkerSOS = [0xFF, 0xDA] := by decide
theorem mSOF55 : writeMarker 0xFFF7 = [0xFF, 0xF7] := by decide

def jfifData : List Nat := [0x4A, 0x46, 0x49, 0x46, 0x00, 0x01, 0x01, 0x00, 0x00, 0x01, 0x00, 0x01, 0x00, 0x00]
theorem jfif_encSeg : jfifApp0 = encSeg 0xE0 jfifData := by decide

theorem sofFixed_nat (P H W c : Nat) (hP : P < 256) (hH : H < 65536) (hW : W < 65536) (hc : c < 256) :
    sofFixed (P : Int) (H : Int) (W : Int) c = [P, H / 256, H % 256, W / 256, W % 256, c] := by
  simp only [sofFixed, shr8_natCast, byteOf_natCast]
  have : H / 256 % 256 = H / 256 := by omega
  have : W / 256 % 256 = W / 256 := by omega
  have : P % 256 = P := by omega
  have : c % 256 = c := by omega
  simp [*]

theorem sofFixedLS_nat (P H W c : Nat) (hP : P < 256) (hH : H < 65536) (hW : W < 65536) (hc : c < 256) :
    sofFixedLS (P : Int) (H : Int) (W : Int) c = [P, H / 256, H % 256, W / 256, W % 256, c] := by
  simp only [sofFixedLS, shr8_natCast, byteOf_natCast, byteOf_and255]
  have : H / 256 % 256 = H / 256 := by omega
  have : W / 256 % 256 = W / 256 := by omega
  have : P % 256 = P := by omega
  have : c % 256 = c := by omega
  simp [*]

/-- components 1..c, sampled 1×1, table selector 0 (lossless, SV1, JPEG-LS) -/
def comps111 (c : Nat) : List Comp := (List.range c).map fun i => { id := i + 1, h := 1, v := 1, tq := 0 }

/-- GENERIC FRAME THEOREM: when a header model evaluates to SOI, segments the strict reader accepts and
    an SOS it accepts, the frame with ANY admissible entropy-coded segment parses to exactly that state. -/
theorem frame_roundtrip (hdr : Outcome (List Nat)) (segs : List (Nat × List Nat)) (sos scan : List Nat)
    (st : St) (sh : ScanHdr) (f : Frame)
    (hhdr : hdr = .ok ([0xFF, 0xD8] ++ encSegs segs ++ encSeg 0xDA sos))
    (hsegs : ∀ s ∈ segs, SegOk s) (hfold : foldSteps {} segs = some st)
    (hsosl : sos.length + 2 < 65536) (hsos : parseSos st sos = some sh)
    (hf : st.frame = some f) (hdri : st.dri = 0) (hscan : ScanOk f.sof scan) (hne : scan ≠ []) :
    ∃ bytes r, withScan hdr scan = .ok bytes ∧ StrictJpeg.parse bytes = some r ∧
      r.frame = f ∧ r.scan = sh ∧ r.dqt = st.dqt ∧ r.dht = st.dht ∧
      r.scanEnd + 2 = bytes.length ∧ r.hdrEnd + scan.length = r.scanEnd ∧
      bytes.drop r.scanEnd = [0xFF, 0xD9] := by
  have hp := parse_stream segs sos scan st sh f hsegs hfold hsosl hsos hf hdri hscan hne
  refine ⟨_, _, by rw [hhdr]; simp only [withScan, Outcome.map, mEOI], hp, rfl, rfl, rfl, rfl, ?_, rfl, ?_⟩
  · simp [encSegs_length, encSeg]
    omega
  · have e : [0xFF, 0xD8] ++ encSegs segs ++ encSeg 0xDA sos ++ scan ++ [0xFF, 0xD9]
        = ([0xFF, 0xD8] ++ encSegs segs ++ encSeg 0xDA sos ++ scan) ++ [0xFF, 0xD9] := by simp
    rw [e]
    apply drop_len_append
    simp [encSegs_length, encSeg]; try omega

/-! ## lossless (SOF3) -/

theorem lossless_frame (w h p pred : Int) (c : Nat) (t : HuffTable) (scan : List Nat)
    (hw : 0 < w ∧ w ≤ 65535) (hh : 0 < h ∧ h ≤ 65535) (hc : c = 1 ∨ c = 3) (hp : 2 ≤ p ∧ p ≤ 16)
    (hpred : 1 ≤ pred ∧ pred ≤ 7) (ht : TableOk t) (hs : NoMarker scan = true) (hne : scan ≠ []) :
    ∃ bytes r, withScan (losslessHeader w h c p pred t) scan = .ok bytes ∧ StrictJpeg.parse bytes = some r ∧
      r.frame = { sof := 0xC3, p := p.toNat, y := h.toNat, x := w.toNat, comps := comps111 c } ∧
      r.scan = { sels := (List.range c).map (fun i => ⟨i + 1, 0, 0⟩), ss := pred.toNat, se := 0, ah := 0, al := 0 } ∧
      r.dqt = [] ∧ r.dht = [{ tc := 0, th := 0, bits := t.bits.map byteOf, vals := t.values }] ∧
      r.scanEnd + 2 = bytes.length ∧ r.hdrEnd + scan.length = r.scanEnd ∧ bytes.drop r.scanEnd = [0xFF, 0xD9] := by
  obtain ⟨W, rfl⟩ : ∃ W : Nat, w = W := ⟨w.toNat, by omega⟩
  obtain ⟨H, rfl⟩ : ∃ H : Nat, h = H := ⟨h.toNat, by omega⟩
  obtain ⟨P, rfl⟩ : ∃ P : Nat, p = P := ⟨p.toNat, by omega⟩
  obtain ⟨S, rfl⟩ : ∃ S : Nat, pred = S := ⟨pred.toNat, by omega⟩
  have g1 : ¬ ((W : Int) ≤ 0 ∨ (H : Int) ≤ 0 ∨ (W : Int) > 65535 ∨ (H : Int) > 65535) := by omega
  have g2 : ¬ (c ≠ 1 ∧ c ≠ 3) := by omega
  have g3 : ¬ ((P : Int) < 2 ∨ (P : Int) > 16) := by omega
  have g4 : ¬ ((S : Int) < 0 ∨ (S : Int) > 7) := by omega
  have hfix := sofFixed_nat P H W c (by omega) (by omega) (by omega) (by omega)
  have hS : byteOf (S : Int) = S := by rw [byteOf_natCast]; omega
  have hprec : precisionOk 0xC3 P = true := by simp [precisionOk]; omega
  have s1 : step {} 0xE0 jfifData = some {} := by decide
  simp only [Int.toNat_natCast]
  rcases hc with rfl | rfl
  · have s2 : parseSof 0xC3 [P, H / 256, H % 256, W / 256, W % 256, 1, 1, 0x11, 0]
        = some { sof := 0xC3, p := P, y := H, x := W, comps := [⟨1, 1, 1, 0⟩] } :=
      parseSof_ok 0xC3 P H W [⟨1, 1, 1, 0⟩] [1, 0x11, 0] (by decide) (by decide) hprec (by omega) (by omega)
    have s3 := step_dht { frame := some { sof := 0xC3, p := P, y := H, x := W, comps := [⟨1, 1, 1, 0⟩] } }
      0 0 0 t ht (by decide) (by decide) (by decide) (by decide)
    refine frame_roundtrip _
      [(0xE0, jfifData), (0xC3, [P, H / 256, H % 256, W / 256, W % 256, 1, 1, 0x11, 0]),
       (0xC4, 0 :: (t.bits.map byteOf ++ t.values))]
      [1, 1, 0, S, 0, 0] scan
      { frame := some { sof := 0xC3, p := P, y := H, x := W, comps := [⟨1, 1, 1, 0⟩] },
        dht := [{ tc := 0, th := 0, bits := t.bits.map byteOf, vals := t.values }] }
      _ _ ?_ ?_ ?_ (by simp) ?_ rfl rfl (by simp [ScanOk, hs]) hne
    · simp only [losslessHeader, if_neg g1, if_neg g2, if_neg g3, if_neg g4, dhtSegment, dhtPayload_ok 0 0 t ht, Outcome.map]
      rw [writeSegment_encSeg _ _ mSOF3 _ (by simp [sof3Payload, sofFixed]),
        writeSegment_encSeg _ _ mDHT _ (dht_len t ht _), writeSegment_encSeg _ _ mSOS _ (by simp [sosLosslessPayload]),
        mSOI, jfif_encSeg]
      simp [encSegs, sof3Payload, hfix, sosLosslessPayload, hS, byteOf_1]
    · intro s hs
      simp only [List.mem_cons, List.not_mem_nil, or_false] at hs
      rcases hs with rfl | rfl | rfl
      · decide
      · exact ⟨by simp [standalone], by simp, by simp⟩
      · exact ⟨by simp [standalone], by simp, dht_len t ht _⟩
    · have s2' := step_sof {} _ _ _ rfl (by decide) s2
      simp only [foldSteps, s1, s2', s3, Option.bind]
      rfl
    · simp [parseSos, parseSels, scanOk, hasDht]
      omega
  · have s2 : parseSof 0xC3 [P, H / 256, H % 256, W / 256, W % 256, 3, 1, 0x11, 0, 2, 0x11, 0, 3, 0x11, 0]
        = some { sof := 0xC3, p := P, y := H, x := W, comps := [⟨1, 1, 1, 0⟩, ⟨2, 1, 1, 0⟩, ⟨3, 1, 1, 0⟩] } :=
      parseSof_ok 0xC3 P H W [⟨1, 1, 1, 0⟩, ⟨2, 1, 1, 0⟩, ⟨3, 1, 1, 0⟩] [1, 0x11, 0, 2, 0x11, 0, 3, 0x11, 0]
        (by decide) (by decide) hprec (by omega) (by omega)
    have s3 := step_dht { frame := some { sof := 0xC3, p := P, y := H, x := W, comps := [⟨1, 1, 1, 0⟩, ⟨2, 1, 1, 0⟩, ⟨3, 1, 1, 0⟩] } }
      0 0 0 t ht (by decide) (by decide) (by decide) (by decide)
    have hcs : compSpecs 3 = [1, 0x11, 0, 2, 0x11, 0, 3, 0x11, 0] := by decide
    have hss : scanSels 3 = [1, 0, 2, 0, 3, 0] := by decide
    refine frame_roundtrip _
      [(0xE0, jfifData), (0xC3, [P, H / 256, H % 256, W / 256, W % 256, 3, 1, 0x11, 0, 2, 0x11, 0, 3, 0x11, 0]),
       (0xC4, 0 :: (t.bits.map byteOf ++ t.values))]
      [3, 1, 0, 2, 0, 3, 0, S, 0, 0] scan
      { frame := some { sof := 0xC3, p := P, y := H, x := W, comps := [⟨1, 1, 1, 0⟩, ⟨2, 1, 1, 0⟩, ⟨3, 1, 1, 0⟩] },
        dht := [{ tc := 0, th := 0, bits := t.bits.map byteOf, vals := t.values }] }
      _ _ ?_ ?_ ?_ (by simp) ?_ rfl rfl (by simp [ScanOk, hs]) hne
    · simp only [losslessHeader, if_neg g1, if_neg g2, if_neg g3, if_neg g4, dhtSegment, dhtPayload_ok 0 0 t ht, Outcome.map]
      rw [writeSegment_encSeg _ _ mSOF3 _ (by simp [sof3Payload, sofFixed, hcs]),
        writeSegment_encSeg _ _ mDHT _ (dht_len t ht _), writeSegment_encSeg _ _ mSOS _ (by simp [sosLosslessPayload, hss]),
        mSOI, jfif_encSeg]
      simp [encSegs, sof3Payload, hfix, sosLosslessPayload, hS, byteOf_3, hcs, hss]
    · intro s hs
      simp only [List.mem_cons, List.not_mem_nil, or_false] at hs
      rcases hs with rfl | rfl | rfl
      · decide
      · exact ⟨by simp [standalone], by simp, by simp⟩
      · exact ⟨by simp [standalone], by simp, dht_len t ht _⟩
    · have s2' := step_sof {} _ _ _ rfl (by decide) s2
      simp only [foldSteps, s1, s2', s3, Option.bind]
      rfl
    · simp [parseSos, parseSels, scanOk, hasDht]
      exact ⟨by omega, by decide⟩

/-! ## JPEG-LS (SOF55), lossless (`near = 0`) and near-lossless -/

theorem jpegls_frame (w h p near : Int) (c : Nat) (scan : List Nat)
    (hw : 0 < w ∧ w ≤ 65535) (hh : 0 < h ∧ h ≤ 65535) (hc : c = 1 ∨ c = 3) (hp : 2 ≤ p ∧ p ≤ 16)
    (hnear : 0 ≤ near ∧ near.toNat ≤ min 255 ((2 ^ p.toNat - 1) / 2))
    (hs : NoMarkerLS scan = true) (hne : scan ≠ []) :
    ∃ bytes r, withScan (jpeglsHeader w h c p near) scan = .ok bytes ∧ StrictJpeg.parse bytes = some r ∧
      r.frame = { sof := 0xF7, p := p.toNat, y := h.toNat, x := w.toNat, comps := comps111 c } ∧
      r.scan = { sels := (List.range c).map (fun i => ⟨i + 1, 0, 0⟩), ss := near.toNat,
                 se := if c = 1 then 0 else 2, ah := 0, al := 0 } ∧
      r.dqt = [] ∧ r.dht = [] ∧
      r.scanEnd + 2 = bytes.length ∧ r.hdrEnd + scan.length = r.scanEnd ∧ bytes.drop r.scanEnd = [0xFF, 0xD9] := by
  obtain ⟨W, rfl⟩ : ∃ W : Nat, w = W := ⟨w.toNat, by omega⟩
  obtain ⟨H, rfl⟩ : ∃ H : Nat, h = H := ⟨h.toNat, by omega⟩
  obtain ⟨P, rfl⟩ : ∃ P : Nat, p = P := ⟨p.toNat, by omega⟩
  obtain ⟨N, rfl⟩ : ∃ N : Nat, near = N := ⟨near.toNat, by omega⟩
  simp only [Int.toNat_natCast] at hnear ⊢
  have hN : N ≤ 255 := by have := hnear.2; omega
  have g1 : ¬ ((W : Int) ≤ 0 ∨ (H : Int) ≤ 0 ∨ (W : Int) > 65535 ∨ (H : Int) > 65535) := by omega
  have g2 : ¬ (c ≠ 1 ∧ c ≠ 3) := by omega
  have g3 : ¬ ((P : Int) < 2 ∨ (P : Int) > 16) := by omega
  have g4 : ¬ ((N : Int) < 0 ∨ (N : Int) > 255) := by omega
  have hfix := sofFixedLS_nat P H W c (by omega) (by omega) (by omega) (by omega)
  have hNb : byteOf (N : Int) = N := by rw [byteOf_natCast]; omega
  have hprec : precisionOk 0xF7 P = true := by simp [precisionOk]; omega
  rcases hc with rfl | rfl
  · have hcs : compSpecs 1 = [1, 0x11, 0] := by decide
    have hss : scanSels 1 = [1, 0] := by decide
    have s2 : parseSof 0xF7 [P, H / 256, H % 256, W / 256, W % 256, 1, 1, 0x11, 0]
        = some { sof := 0xF7, p := P, y := H, x := W, comps := [⟨1, 1, 1, 0⟩] } :=
      parseSof_ok 0xF7 P H W [⟨1, 1, 1, 0⟩] [1, 0x11, 0] (by decide) (by decide) hprec (by omega) (by omega)
    refine frame_roundtrip _
      [(0xF7, [P, H / 256, H % 256, W / 256, W % 256, 1, 1, 0x11, 0])]
      [1, 1, 0, N, 0, 0] scan
      { frame := some { sof := 0xF7, p := P, y := H, x := W, comps := [⟨1, 1, 1, 0⟩] } }
      _ _ ?_ ?_ ?_ (by simp) ?_ rfl rfl (by simp [ScanOk, hs]) hne
    · simp only [jpeglsHeader, if_neg g1, if_neg g2, if_neg g3, if_neg g4]
      rw [writeSegment_encSeg _ _ mSOF55 _ (by simp [sofFixedLS, hcs]),
        writeSegment_encSeg _ _ mSOS _ (by simp [sosLSPayload, hss]), mSOI]
      simp [encSegs, hfix, sosLSPayload, hNb, byteOf_1, hcs, hss]
    · intro s hs
      simp only [List.mem_cons, List.not_mem_nil, or_false] at hs
      subst hs
      exact ⟨by simp [standalone], by simp, by simp⟩
    · have s2' := step_sof {} _ _ _ rfl (by decide) s2
      simp only [foldSteps, s2', Option.bind]
    · simp [parseSos, parseSels, scanOk]
      exact hnear.2
  · have hcs : compSpecs 3 = [1, 0x11, 0, 2, 0x11, 0, 3, 0x11, 0] := by decide
    have hss : scanSels 3 = [1, 0, 2, 0, 3, 0] := by decide
    have s2 : parseSof 0xF7 [P, H / 256, H % 256, W / 256, W % 256, 3, 1, 0x11, 0, 2, 0x11, 0, 3, 0x11, 0]
        = some { sof := 0xF7, p := P, y := H, x := W, comps := [⟨1, 1, 1, 0⟩, ⟨2, 1, 1, 0⟩, ⟨3, 1, 1, 0⟩] } :=
      parseSof_ok 0xF7 P H W [⟨1, 1, 1, 0⟩, ⟨2, 1, 1, 0⟩, ⟨3, 1, 1, 0⟩] [1, 0x11, 0, 2, 0x11, 0, 3, 0x11, 0]
        (by decide) (by decide) hprec (by omega) (by omega)
    refine frame_roundtrip _
      [(0xF7, [P, H / 256, H % 256, W / 256, W % 256, 3, 1, 0x11, 0, 2, 0x11, 0, 3, 0x11, 0])]
      [3, 1, 0, 2, 0, 3, 0, N, 2, 0] scan
      { frame := some { sof := 0xF7, p := P, y := H, x := W, comps := [⟨1, 1, 1, 0⟩, ⟨2, 1, 1, 0⟩, ⟨3, 1, 1, 0⟩] } }
      _ _ ?_ ?_ ?_ (by simp) ?_ rfl rfl (by simp [ScanOk, hs]) hne
    · simp only [jpeglsHeader, if_neg g1, if_neg g2, if_neg g3, if_neg g4]
      rw [writeSegment_encSeg _ _ mSOF55 _ (by simp [sofFixedLS, hcs]),
        writeSegment_encSeg _ _ mSOS _ (by simp [sosLSPayload, hss]), mSOI]
      simp [encSegs, hfix, sosLSPayload, hNb, byteOf_3, hcs, hss]
    · intro s hs
      simp only [List.mem_cons, List.not_mem_nil, or_false] at hs
      subst hs
      exact ⟨by simp [standalone], by simp, by simp⟩
    · have s2' := step_sof {} _ _ _ rfl (by decide) s2
      simp only [foldSteps, s2', Option.bind]
    · simp [parseSos, parseSels, scanOk]
      exact ⟨hnear.2, by decide⟩

/-! ## baseline (SOF0) and 12-bit extended sequential (SOF1) -/

structure BaseOk (c : Nat) (t : BaseTables) : Prop where
  q0 : QOk t.q0
  dc0 : TableOk t.dc0
  ac0 : TableOk t.ac0
  q1 : c = 3 → QOk t.q1
  dc1 : c = 3 → TableOk t.dc1
  ac1 : c = 3 → TableOk t.ac1

def dhtOf (tc th : Nat) (t : HuffTable) : Dht := { tc := tc, th := th, bits := t.bits.map byteOf, vals := t.values }

theorem dqt_segok (b : Nat) (q : List Int) (hq : QOk q) : SegOk (0xDB, b :: zq q) :=
  ⟨by simp [standalone], by simp, by simp [(zq_ok q hq).1]⟩

theorem baseline_frame (w h : Int) (c : Nat) (t : BaseTables) (scan : List Nat)
    (hw : 0 < w ∧ w ≤ 65535) (hh : 0 < h ∧ h ≤ 65535) (hc : c = 1 ∨ c = 3) (ht : BaseOk c t)
    (hs : NoMarker scan = true) (hne : scan ≠ []) :
    ∃ bytes r, withScan (baselineHeader w h c t) scan = .ok bytes ∧ StrictJpeg.parse bytes = some r ∧
      r.frame.sof = 0xC0 ∧ r.frame.p = 8 ∧ r.frame.y = h.toNat ∧ r.frame.x = w.toNat ∧ r.frame.comps.length = c ∧
      (∀ k ∈ r.frame.comps, k.h = 1 ∧ k.v = 1) ∧
      r.scan.ss = 0 ∧ r.scan.se = 63 ∧ r.scan.ah = 0 ∧ r.scan.al = 0 ∧
      r.dqt.length = (if c = 1 then 1 else 2) ∧ r.dht.length = (if c = 1 then 2 else 4) ∧
      r.scanEnd + 2 = bytes.length ∧ r.hdrEnd + scan.length = r.scanEnd ∧ bytes.drop r.scanEnd = [0xFF, 0xD9] := by
  obtain ⟨W, rfl⟩ : ∃ W : Nat, w = W := ⟨w.toNat, by omega⟩
  obtain ⟨H, rfl⟩ : ∃ H : Nat, h = H := ⟨h.toNat, by omega⟩
  simp only [Int.toNat_natCast]
  have g1 : ¬ ((W : Int) ≤ 0 ∨ (H : Int) ≤ 0 ∨ (W : Int) > 65535 ∨ (H : Int) > 65535) := by omega
  have g2 : ¬ (c ≠ 1 ∧ c ≠ 3) := by omega
  have hfix : sofFixed 8 (H : Int) (W : Int) c = [8, H / 256, H % 256, W / 256, W % 256, c] := by
    simpa using sofFixed_nat 8 H W c (by omega) (by omega) (by omega) (by omega)
  have hprec : precisionOk 0xC0 8 = true := by decide
  rcases hc with rfl | rfl
  · have s2 : parseSof 0xC0 [8, H / 256, H % 256, W / 256, W % 256, 1, 0, 0x11, 0]
        = some { sof := 0xC0, p := 8, y := H, x := W, comps := [⟨0, 1, 1, 0⟩] } :=
      parseSof_ok 0xC0 8 H W [⟨0, 1, 1, 0⟩] [0, 0x11, 0] (by decide) (by decide) hprec (by omega) (by omega)
    have s1 := step_dqt {} 0 0 t.q0 ht.q0 (by decide) (by decide) (by decide)
    have s2' := step_sof { dqt := [{ pq := 0, tq := 0, q := zq t.q0 }] } _ _ _ rfl (by decide) s2
    have s3 := step_dht { frame := some { sof := 0xC0, p := 8, y := H, x := W, comps := [⟨0, 1, 1, 0⟩] },
                          dqt := [{ pq := 0, tq := 0, q := zq t.q0 }] } 0 0 0 t.dc0 ht.dc0 (by decide) (by decide) (by decide) (by decide)
    have s4 := step_dht { frame := some { sof := 0xC0, p := 8, y := H, x := W, comps := [⟨0, 1, 1, 0⟩] },
                          dqt := [{ pq := 0, tq := 0, q := zq t.q0 }], dht := [dhtOf 0 0 t.dc0] }
                        16 1 0 t.ac0 ht.ac0 (by decide) (by decide) (by decide) (by decide)
    obtain ⟨bytes, r, h1, h2, h3, h4, h5, h6, h7, h8, h9⟩ := frame_roundtrip (baselineHeader W H 1 t)
      [(0xDB, 0 :: zq t.q0), (0xC0, [8, H / 256, H % 256, W / 256, W % 256, 1, 0, 0x11, 0]),
       (0xC4, 0 :: (t.dc0.bits.map byteOf ++ t.dc0.values)), (0xC4, 16 :: (t.ac0.bits.map byteOf ++ t.ac0.values))]
      [1, 0, 0, 0, 63, 0] scan
      { frame := some { sof := 0xC0, p := 8, y := H, x := W, comps := [⟨0, 1, 1, 0⟩] },
        dqt := [{ pq := 0, tq := 0, q := zq t.q0 }], dht := [dhtOf 0 0 t.dc0, dhtOf 1 0 t.ac0] }
      { sels := [⟨0, 0, 0⟩], ss := 0, se := 63, ah := 0, al := 0 }
      { sof := 0xC0, p := 8, y := H, x := W, comps := [⟨0, 1, 1, 0⟩] }
      (by
        simp only [baselineHeader, if_neg g1, if_neg g2, dhtSegment, dhtPayload_ok _ _ _ ht.dc0, dhtPayload_ok _ _ _ ht.ac0,
          Outcome.map, Outcome.bind, dqtPayload_eq]
        rw [writeSegment_encSeg _ _ mDQT _ (dqt_segok _ _ ht.q0).2.2,
          writeSegment_encSeg _ _ mSOF0 _ (by simp [sofFixed, sof0Comps]),
          writeSegment_encSeg _ _ mDHT _ (dht_len _ ht.dc0 _), writeSegment_encSeg _ _ mDHT _ (dht_len _ ht.ac0 _),
          writeSegment_encSeg _ _ mSOS _ (by simp [sosBaselinePayload]), mSOI]
        simp [encSegs, hfix, sof0Comps, sosBaselinePayload, byteOf_0, byteOf_1])
      (by
        intro s hs
        simp only [List.mem_cons, List.not_mem_nil, or_false] at hs
        rcases hs with rfl | rfl | rfl | rfl
        · exact dqt_segok _ _ ht.q0
        · exact ⟨by simp [standalone], by simp, by simp⟩
        · exact ⟨by simp [standalone], by simp, dht_len _ ht.dc0 _⟩
        · exact ⟨by simp [standalone], by simp, dht_len _ ht.ac0 _⟩)
      (by
        simp only [List.nil_append, List.cons_append, dhtOf] at s1 s2' s3 s4
        simp only [foldSteps, s1, s2', s3, s4, Option.bind, dhtOf])
      (by simp) (by simp [parseSos, parseSels, scanOk, hasDht, findDqt, dhtOf]) rfl rfl (by simp [ScanOk, hs]) hne
    refine ⟨bytes, r, h1, h2, ?_⟩
    simp [h3, h4, h5, h6, h7, h8, h9]
  · have hq1 := ht.q1 rfl
    have hd1 := ht.dc1 rfl
    have ha1 := ht.ac1 rfl
    have s2 : parseSof 0xC0 [8, H / 256, H % 256, W / 256, W % 256, 3, 1, 0x11, 0, 2, 0x11, 1, 3, 0x11, 1]
        = some { sof := 0xC0, p := 8, y := H, x := W, comps := [⟨1, 1, 1, 0⟩, ⟨2, 1, 1, 1⟩, ⟨3, 1, 1, 1⟩] } :=
      parseSof_ok 0xC0 8 H W [⟨1, 1, 1, 0⟩, ⟨2, 1, 1, 1⟩, ⟨3, 1, 1, 1⟩] [1, 0x11, 0, 2, 0x11, 1, 3, 0x11, 1]
        (by decide) (by decide) hprec (by omega) (by omega)
    have s0 := step_dqt {} 0 0 t.q0 ht.q0 (by decide) (by decide) (by decide)
    have s1 := step_dqt { dqt := [{ pq := 0, tq := 0, q := zq t.q0 }] } 1 1 t.q1 hq1 (by decide) (by decide) (by decide)
    have s2' := step_sof { dqt := [{ pq := 0, tq := 0, q := zq t.q0 }, { pq := 0, tq := 1, q := zq t.q1 }] } _ _ _ rfl (by decide) s2
    have s3 := step_dht { frame := some { sof := 0xC0, p := 8, y := H, x := W, comps := [⟨1, 1, 1, 0⟩, ⟨2, 1, 1, 1⟩, ⟨3, 1, 1, 1⟩] },
                          dqt := [{ pq := 0, tq := 0, q := zq t.q0 }, { pq := 0, tq := 1, q := zq t.q1 }] }
                        0 0 0 t.dc0 ht.dc0 (by decide) (by decide) (by decide) (by decide)
    have s4 := step_dht { frame := some { sof := 0xC0, p := 8, y := H, x := W, comps := [⟨1, 1, 1, 0⟩, ⟨2, 1, 1, 1⟩, ⟨3, 1, 1, 1⟩] },
                          dqt := [{ pq := 0, tq := 0, q := zq t.q0 }, { pq := 0, tq := 1, q := zq t.q1 }], dht := [dhtOf 0 0 t.dc0] }
                        16 1 0 t.ac0 ht.ac0 (by decide) (by decide) (by decide) (by decide)
    have s5 := step_dht { frame := some { sof := 0xC0, p := 8, y := H, x := W, comps := [⟨1, 1, 1, 0⟩, ⟨2, 1, 1, 1⟩, ⟨3, 1, 1, 1⟩] },
                          dqt := [{ pq := 0, tq := 0, q := zq t.q0 }, { pq := 0, tq := 1, q := zq t.q1 }],
                          dht := [dhtOf 0 0 t.dc0, dhtOf 1 0 t.ac0] }
                        1 0 1 t.dc1 hd1 (by decide) (by decide) (by decide) (by decide)
    have s6 := step_dht { frame := some { sof := 0xC0, p := 8, y := H, x := W, comps := [⟨1, 1, 1, 0⟩, ⟨2, 1, 1, 1⟩, ⟨3, 1, 1, 1⟩] },
                          dqt := [{ pq := 0, tq := 0, q := zq t.q0 }, { pq := 0, tq := 1, q := zq t.q1 }],
                          dht := [dhtOf 0 0 t.dc0, dhtOf 1 0 t.ac0, dhtOf 0 1 t.dc1] }
                        17 1 1 t.ac1 ha1 (by decide) (by decide) (by decide) (by decide)
    obtain ⟨bytes, r, h1, h2, h3, h4, h5, h6, h7, h8, h9⟩ := frame_roundtrip (baselineHeader W H 3 t)
      [(0xDB, 0 :: zq t.q0), (0xDB, 1 :: zq t.q1),
       (0xC0, [8, H / 256, H % 256, W / 256, W % 256, 3, 1, 0x11, 0, 2, 0x11, 1, 3, 0x11, 1]),
       (0xC4, 0 :: (t.dc0.bits.map byteOf ++ t.dc0.values)), (0xC4, 16 :: (t.ac0.bits.map byteOf ++ t.ac0.values)),
       (0xC4, 1 :: (t.dc1.bits.map byteOf ++ t.dc1.values)), (0xC4, 17 :: (t.ac1.bits.map byteOf ++ t.ac1.values))]
      [3, 1, 0, 2, 0x11, 3, 0x11, 0, 63, 0] scan
      { frame := some { sof := 0xC0, p := 8, y := H, x := W, comps := [⟨1, 1, 1, 0⟩, ⟨2, 1, 1, 1⟩, ⟨3, 1, 1, 1⟩] },
        dqt := [{ pq := 0, tq := 0, q := zq t.q0 }, { pq := 0, tq := 1, q := zq t.q1 }],
        dht := [dhtOf 0 0 t.dc0, dhtOf 1 0 t.ac0, dhtOf 0 1 t.dc1, dhtOf 1 1 t.ac1] }
      { sels := [⟨1, 0, 0⟩, ⟨2, 1, 1⟩, ⟨3, 1, 1⟩], ss := 0, se := 63, ah := 0, al := 0 }
      { sof := 0xC0, p := 8, y := H, x := W, comps := [⟨1, 1, 1, 0⟩, ⟨2, 1, 1, 1⟩, ⟨3, 1, 1, 1⟩] }
      (by
        simp only [baselineHeader, if_neg g1, if_neg g2, dhtSegment, dhtPayload_ok _ _ _ ht.dc0, dhtPayload_ok _ _ _ ht.ac0,
          dhtPayload_ok _ _ _ hd1, dhtPayload_ok _ _ _ ha1, Outcome.map, Outcome.bind, dqtPayload_eq, if_true]
        rw [writeSegment_encSeg _ _ mDQT _ (dqt_segok _ _ ht.q0).2.2, writeSegment_encSeg _ _ mDQT _ (dqt_segok _ _ hq1).2.2,
          writeSegment_encSeg _ _ mSOF0 _ (by simp [sofFixed, sof0Comps]),
          writeSegment_encSeg _ _ mDHT _ (dht_len _ ht.dc0 _), writeSegment_encSeg _ _ mDHT _ (dht_len _ ht.ac0 _),
          writeSegment_encSeg _ _ mDHT _ (dht_len _ hd1 _), writeSegment_encSeg _ _ mDHT _ (dht_len _ ha1 _),
          writeSegment_encSeg _ _ mSOS _ (by simp [sosBaselinePayload]), mSOI]
        simp [encSegs, hfix, sof0Comps, sosBaselinePayload, byteOf_0, byteOf_1, byteOf_3])
      (by
        intro s hs
        simp only [List.mem_cons, List.not_mem_nil, or_false] at hs
        rcases hs with rfl | rfl | rfl | rfl | rfl | rfl | rfl
        · exact dqt_segok _ _ ht.q0
        · exact dqt_segok _ _ hq1
        · exact ⟨by simp [standalone], by simp, by simp⟩
        · exact ⟨by simp [standalone], by simp, dht_len _ ht.dc0 _⟩
        · exact ⟨by simp [standalone], by simp, dht_len _ ht.ac0 _⟩
        · exact ⟨by simp [standalone], by simp, dht_len _ hd1 _⟩
        · exact ⟨by simp [standalone], by simp, dht_len _ ha1 _⟩)
      (by
        simp only [List.nil_append, List.cons_append, dhtOf] at s0 s1 s2' s3 s4 s5 s6
        simp only [foldSteps, s0, s1, s2', s3, s4, s5, s6, Option.bind, dhtOf])
      (by simp) (by simp [parseSos, parseSels, scanOk, hasDht, findDqt, dhtOf]) rfl rfl (by simp [ScanOk, hs]) hne
    refine ⟨bytes, r, h1, h2, ?_⟩
    simp [h3, h4, h5, h6, h7, h8, h9]

theorem ext12_frame (w h : Int) (q : List Int) (dc ac : HuffTable) (scan : List Nat)
    (hw : 0 < w ∧ w ≤ 65535) (hh : 0 < h ∧ h ≤ 65535) (hq : QOk q) (hdc : TableOk dc) (hac : TableOk ac)
    (hs : NoMarker scan = true) (hne : scan ≠ []) :
    ∃ bytes r, withScan (ext12Header w h q dc ac) scan = .ok bytes ∧ StrictJpeg.parse bytes = some r ∧
      r.frame = { sof := 0xC1, p := 12, y := h.toNat, x := w.toNat, comps := [⟨1, 1, 1, 0⟩] } ∧
      r.scan = { sels := [⟨1, 0, 0⟩], ss := 0, se := 63, ah := 0, al := 0 } ∧
      r.dqt = [{ pq := 0, tq := 0, q := zq q }] ∧ r.dht = [dhtOf 0 0 dc, dhtOf 1 0 ac] ∧
      r.scanEnd + 2 = bytes.length ∧ r.hdrEnd + scan.length = r.scanEnd ∧ bytes.drop r.scanEnd = [0xFF, 0xD9] := by
  obtain ⟨W, rfl⟩ : ∃ W : Nat, w = W := ⟨w.toNat, by omega⟩
  obtain ⟨H, rfl⟩ : ∃ H : Nat, h = H := ⟨h.toNat, by omega⟩
  simp only [Int.toNat_natCast]
  have g1 : ¬ ((W : Int) ≤ 0 ∨ (H : Int) ≤ 0 ∨ (W : Int) > 65535 ∨ (H : Int) > 65535) := by omega
  have hb : [12, byteOf (Go.shr (H : Int) 8), byteOf (H : Int), byteOf (Go.shr (W : Int) 8), byteOf (W : Int), 1, 1, 0x11, 0]
      = [12, H / 256, H % 256, W / 256, W % 256, 1, 1, 0x11, 0] := by
    simp only [shr8_natCast, byteOf_natCast]
    have : H / 256 % 256 = H / 256 := by omega
    have : W / 256 % 256 = W / 256 := by omega
    simp [*]
  have s0 : step {} 0xE0 jfifData = some {} := by decide
  have s1 := step_dqt {} 0 0 q hq (by decide) (by decide) (by decide)
  have s2 : parseSof 0xC1 [12, H / 256, H % 256, W / 256, W % 256, 1, 1, 0x11, 0]
      = some { sof := 0xC1, p := 12, y := H, x := W, comps := [⟨1, 1, 1, 0⟩] } :=
    parseSof_ok 0xC1 12 H W [⟨1, 1, 1, 0⟩] [1, 0x11, 0] (by decide) (by decide) (by decide) (by omega) (by omega)
  have s2' := step_sof { dqt := [{ pq := 0, tq := 0, q := zq q }] } _ _ _ rfl (by decide) s2
  have s3 := step_dht { frame := some { sof := 0xC1, p := 12, y := H, x := W, comps := [⟨1, 1, 1, 0⟩] },
                        dqt := [{ pq := 0, tq := 0, q := zq q }] } 0 0 0 dc hdc (by decide) (by decide) (by decide) (by decide)
  have s4 := step_dht { frame := some { sof := 0xC1, p := 12, y := H, x := W, comps := [⟨1, 1, 1, 0⟩] },
                        dqt := [{ pq := 0, tq := 0, q := zq q }], dht := [dhtOf 0 0 dc] }
                      16 1 0 ac hac (by decide) (by decide) (by decide) (by decide)
  exact frame_roundtrip (ext12Header W H q dc ac)
    [(0xE0, jfifData), (0xDB, 0 :: zq q), (0xC1, [12, H / 256, H % 256, W / 256, W % 256, 1, 1, 0x11, 0]),
     (0xC4, 0 :: (dc.bits.map byteOf ++ dc.values)), (0xC4, 16 :: (ac.bits.map byteOf ++ ac.values))]
    [1, 1, 0, 0, 63, 0] scan
    { frame := some { sof := 0xC1, p := 12, y := H, x := W, comps := [⟨1, 1, 1, 0⟩] },
      dqt := [{ pq := 0, tq := 0, q := zq q }], dht := [dhtOf 0 0 dc, dhtOf 1 0 ac] }
    { sels := [⟨1, 0, 0⟩], ss := 0, se := 63, ah := 0, al := 0 }
    { sof := 0xC1, p := 12, y := H, x := W, comps := [⟨1, 1, 1, 0⟩] }
    (by
      simp only [ext12Header, if_neg g1, dhtSegment, dhtPayload_ok _ _ _ hdc, dhtPayload_ok _ _ _ hac,
        Outcome.map, Outcome.bind, dqtPayload_eq, hb]
      rw [writeSegment_encSeg _ _ mDQT _ (dqt_segok _ _ hq).2.2,
        writeSegment_encSeg _ _ mSOF1 _ (by simp),
        writeSegment_encSeg _ _ mDHT _ (dht_len _ hdc _), writeSegment_encSeg _ _ mDHT _ (dht_len _ hac _),
        writeSegment_encSeg _ _ mSOS _ (by simp), mSOI, jfif_encSeg]
      simp [encSegs, byteOf_0])
    (by
      intro s hs
      simp only [List.mem_cons, List.not_mem_nil, or_false] at hs
      rcases hs with rfl | rfl | rfl | rfl | rfl
      · decide
      · exact dqt_segok _ _ hq
      · exact ⟨by simp [standalone], by simp, by simp⟩
      · exact ⟨by simp [standalone], by simp, dht_len _ hdc _⟩
      · exact ⟨by simp [standalone], by simp, dht_len _ hac _⟩)
    (by
      simp only [List.nil_append, List.cons_append, dhtOf] at s1 s2' s3 s4
      simp only [foldSteps, s0, s1, s2', s3, s4, Option.bind, dhtOf])
    (by simp) (by simp [parseSos, parseSels, scanOk, hasDht, findDqt, dhtOf]) rfl rfl (by simp [ScanOk, hs]) hne

/-! ## bridge to C03's GolombWriter theorem -/

/-- the shape of C03's `Golomb.Stuffed` (every 0xFF that has a successor is followed by a byte < 0x80) -/
def PairStuffed : List Nat → Prop
  | a :: b :: rest => (a = 255 → b < 128) ∧ PairStuffed (b :: rest)
  | _ => True

/-- BRIDGE to C03: pairwise stuffing + all bytes < 256 + "does not end on 0xFF" is `NoMarkerLS`. -/
theorem noMarkerLS_of_pairStuffed : ∀ (out : List Nat), PairStuffed out → (∀ b ∈ out, b < 256) →
    out.getLast? ≠ some 255 → NoMarkerLS out = true := by
  intro out
  induction out using NoMarkerLS.induct with
  | case1 => intros; rfl
  | case2 => intro _ _ h; simp at h
  | case3 b2 rest ih =>
    intro hs hb hl
    have h1 : b2 < 128 := hs.1 rfl
    cases rest with
    | nil => simp [NoMarkerLS, h1]
    | cons c r =>
      have hs2 : PairStuffed (c :: r) := hs.2.2
      have := ih hs2 (fun x hx => hb x (by simp [hx])) (by simpa [List.getLast?_cons_cons] using hl)
      simp [NoMarkerLS, h1, this]
  | case4 b rest hb' ih =>
    intro hs hb hl
    have hb256 : b < 256 := hb b (by simp)
    cases rest with
    | nil => simp [NoMarkerLS, hb', hb256]
    | cons c r =>
      have hs2 : PairStuffed (c :: r) := hs.2
      have := ih hs2 (fun x hx => hb x (by simp [hx])) (by simpa [List.getLast?_cons_cons] using hl)
      rw [NoMarkerLS.eq_def]
      simp [hb', hb256]
      cases r <;> simpa [NoMarkerLS] using this

end JpegC
