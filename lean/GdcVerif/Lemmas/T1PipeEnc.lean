import GdcVerif.Lemmas.T1LayeredLock
import GdcVerif.Model.T1Pipe
/-!
  C20 / pipeline configuration, encoder side: `Encode` with `SetNMSEDecFractionalBits(fb)` on the block scaled by
  `2^fb` emits the bytes of the plain `Encode` on the block itself (styles without LAZY, TERMALL, PTERM, RESET).
-/
namespace T1
open Gen

theorem magBit_scale (v : Int) (fb bp : Nat) : magBit (v * ((2 ^ fb : Nat) : Int)) (bp + fb) = magBit v bp := by
  unfold magBit
  rw [Int.natAbs_mul, Int.natAbs_natCast, Nat.shiftRight_eq_div_pow, Nat.shiftRight_eq_div_pow, Nat.pow_add,
    Nat.mul_div_mul_right _ _ (Nat.pow_pos (by omega))]

theorem neg_scale (v : Int) (fb : Nat) : (v * ((2 ^ fb : Nat) : Int) < 0) ↔ v < 0 := by
  have hp : (0 : Int) < ((2 ^ fb : Nat) : Int) := by
    have : 0 < 2 ^ fb := Nat.pow_pos (by omega)
    omega
  constructor
  · intro h
    rcases Int.lt_or_le v 0 with h' | h'
    · exact h'
    · have := Int.mul_nonneg h' (Int.le_of_lt hp); omega
  · intro h; exact Int.mul_neg_of_neg_of_pos h hp

/-- the scaled data array, as seen by the coding passes -/
def Scaled (fb : Nat) (V V' : Array Int) : Prop := ∀ i : Nat, V'[i]? = (V[i]?).map (fun v => v * ((2 ^ fb : Nat) : Int))

theorem encSign_scale (fb w : Nat) (V V' : Array Int) (hS : Scaled fb V V') (st : EncSt) (f x y idx : Nat) :
    encSign w V' st f x y idx = encSign w V st f x y idx := by
  unfold encSign
  rw [hS idx]
  cases V[idx]? with
  | none => simp only [Option.map_none, Option.bind_none]
  | some v =>
    simp only [Option.map_some, Option.bind_eq_bind, Option.bind_some, neg_scale]

theorem encSigProp_scale (fb w h orient bp : Nat) (V V' : Array Int) (hS : Scaled fb V V') (st : EncSt) :
    encSigProp w h orient (bp + fb) V' st = encSigProp w h orient bp V st := by
  unfold encSigProp
  congr 1
  funext st p
  obtain ⟨x, y⟩ := p
  simp only []
  rw [hS (idxOf w x y)]
  cases st.flags[idxOf w x y]? with
  | none => rfl
  | some f =>
    simp only [Option.bind_eq_bind, Option.bind_some]
    split
    · rfl
    · split
      · rfl
      · cases V[idxOf w x y]? with
        | none => simp only [Option.map_none, Option.bind_none]
        | some v =>
          simp only [Option.map_some, Option.bind_some]
          rw [magBit_scale]
          simp only [encSign_scale fb w V V' hS]

theorem encMagRef_scale (fb w h bp : Nat) (V V' : Array Int) (hS : Scaled fb V V') (st : EncSt) :
    encMagRef w h (bp + fb) V' st = encMagRef w h bp V st := by
  unfold encMagRef
  congr 1
  funext st p
  obtain ⟨x, y⟩ := p
  simp only []
  rw [hS (idxOf w x y)]
  cases st.flags[idxOf w x y]? with
  | none => rfl
  | some f =>
    simp only [Option.bind_eq_bind, Option.bind_some]
    split
    · rfl
    · cases V[idxOf w x y]? with
      | none => simp only [Option.map_none, Option.bind_none]
      | some v =>
        simp only [Option.map_some, Option.bind_some]
        rw [magBit_scale]

theorem encCleanSample_scale (fb w orient bp : Nat) (V V' : Array Int) (hS : Scaled fb V V') (st : EncSt) (x y : Nat) (p : Bool) :
    encCleanSample w orient (bp + fb) V' st x y p = encCleanSample w orient bp V st x y p := by
  unfold encCleanSample
  simp only []
  rw [hS (idxOf w x y)]
  cases st.flags[idxOf w x y]? with
  | none => rfl
  | some f =>
    simp only [Option.bind_eq_bind, Option.bind_some]
    split
    · rfl
    · cases V[idxOf w x y]? with
      | none => simp only [Option.map_none, Option.bind_none]
      | some v =>
        simp only [Option.map_some, Option.bind_some]
        rw [magBit_scale]
        simp only [encSign_scale fb w V V' hS]

theorem rlScan_scale (fb w bp : Nat) (V V' : Array Int) (hS : Scaled fb V V') (fl : Array Nat) (k i : Nat) :
    rlScan w (bp + fb) V' fl k i = rlScan w bp V fl k i := by
  unfold rlScan
  congr 2
  funext acc dy
  obtain ⟨can, pos, stopped⟩ := acc
  simp only []
  split
  · rfl
  · rw [hS (idxOf w i (k + dy))]
    cases fl[idxOf w i (k + dy)]? with
    | none => rfl
    | some f =>
      simp only [Option.bind_eq_bind, Option.bind_some]
      split
      · rfl
      · split
        · rfl
        · cases V[idxOf w i (k + dy)]? with
          | none => simp only [Option.map_none, Option.bind_none]
          | some v =>
            simp only [Option.map_some, Option.bind_some]
            rw [magBit_scale]

theorem encCleanup_scale (fb w h orient bp : Nat) (V V' : Array Int) (hS : Scaled fb V V') (st : EncSt) :
    encCleanup w h orient (bp + fb) V' st = encCleanup w h orient bp V st := by
  unfold encCleanup
  congr 1
  funext st p
  obtain ⟨k, i⟩ := p
  simp only [rlScan_scale fb w bp V V' hS, encCleanSample_scale fb w orient bp V V' hS]

/-! ### the scaled block -/

theorem map_set (a : Array Int) (g : Int → Int) (i : Nat) (v : Int) :
    (a.setIfInBounds i v).map g = (a.map g).setIfInBounds i (g v) := by
  apply Array.ext_getElem?
  intro j
  rw [Array.getElem?_map, Array.getElem?_setIfInBounds, Array.getElem?_setIfInBounds, Array.size_map, Array.getElem?_map]
  split
  · split <;> rfl
  · rfl

theorem getD_map0 (c : List Int) (g : Int → Int) (hg : g 0 = 0) (k : Nat) : (c.map g).getD k 0 = g (c.getD k 0) := by
  rw [List.getD_eq_getElem?_getD, List.getD_eq_getElem?_getD, List.getElem?_map]
  cases c[k]? with
  | none => exact hg.symm
  | some v => rfl

theorem padBlock_map (w h : Nat) (c : List Int) (g : Int → Int) (hg : g 0 = 0) :
    padBlock w h (c.map g) = (padBlock w h c).map g := by
  unfold padBlock
  simp only []
  have inner : ∀ (y : Nat) (l : List Nat) (a : Array Int),
      l.foldl (fun a x => a.setIfInBounds (idxOf w x y) ((c.map g).getD (y * w + x) 0)) (a.map g) =
        (l.foldl (fun a x => a.setIfInBounds (idxOf w x y) (c.getD (y * w + x) 0)) a).map g := by
    intro y l
    induction l with
    | nil => intro a; rfl
    | cons x l ih =>
      intro a
      rw [List.foldl_cons, List.foldl_cons, getD_map0 c g hg, ← map_set, ih]
  have outer : ∀ (l : List Nat) (a : Array Int),
      l.foldl (fun a y => (List.range w).foldl (fun a x => a.setIfInBounds (idxOf w x y) ((c.map g).getD (y * w + x) 0)) a) (a.map g) =
        (l.foldl (fun a y => (List.range w).foldl (fun a x => a.setIfInBounds (idxOf w x y) (c.getD (y * w + x) 0)) a) a).map g := by
    intro l
    induction l with
    | nil => intro a; rfl
    | cons y l ih =>
      intro a
      rw [List.foldl_cons, List.foldl_cons, inner, ih]
  have hrep : (Array.replicate ((w + 2) * (h + 2)) (0 : Int)) = (Array.replicate ((w + 2) * (h + 2)) (0 : Int)).map g := by
    rw [Array.map_replicate, hg]
  conv => lhs; rw [hrep]
  exact outer _ _

theorem scaled_map (fb : Nat) (V : Array Int) : Scaled fb V (V.map (fun v => v * ((2 ^ fb : Nat) : Int))) := by
  intro i; rw [Array.getElem?_map]

theorem max_mul (a b S : Nat) : max (a * S) (b * S) = max a b * S := by
  rcases Nat.le_total a b with hab | hab
  · rw [Nat.max_eq_right hab, Nat.max_eq_right (Nat.mul_le_mul_right S hab)]
  · rw [Nat.max_eq_left hab, Nat.max_eq_left (Nat.mul_le_mul_right S hab)]

theorem foldmax_scale (S : Nat) : ∀ (l : List Int) (a : Nat),
    l.foldl (fun m v => max m (v * (S : Int)).natAbs) (a * S) = (l.foldl (fun m v => max m v.natAbs) a) * S := by
  intro l
  induction l with
  | nil => intro a; rfl
  | cons v l ih =>
    intro a
    rw [List.foldl_cons, List.foldl_cons, Int.natAbs_mul, Int.natAbs_natCast, max_mul, ih]

theorem log2_scale (m fb : Nat) (hm : m ≠ 0) : Nat.log2 (m * 2 ^ fb) = Nat.log2 m + fb := by
  have h1 := Nat.log2_self_le hm
  have h2 := Nat.lt_log2_self (n := m)
  have hp : 0 < 2 ^ fb := Nat.pow_pos (by omega)
  have hm' : m * 2 ^ fb ≠ 0 := Nat.mul_ne_zero hm (by omega)
  have lo : 2 ^ (Nat.log2 m + fb) ≤ m * 2 ^ fb := by rw [Nat.pow_add]; exact Nat.mul_le_mul_right _ h1
  have hi : m * 2 ^ fb < 2 ^ (Nat.log2 m + fb + 1) := by
    rw [show Nat.log2 m + fb + 1 = (Nat.log2 m + 1) + fb by omega, Nat.pow_add]
    exact Nat.mul_lt_mul_of_pos_right h2 hp
  have a1 : Nat.log2 (m * 2 ^ fb) < Nat.log2 m + fb + 1 := (Nat.log2_lt hm').mpr hi
  have a2 : ¬ Nat.log2 (m * 2 ^ fb) < Nat.log2 m + fb := by
    intro hh
    have := (Nat.log2_lt hm').mp hh
    omega
  omega

theorem findMax_scale (fb : Nat) (V : Array Int) :
    findMaxBitplane (V.map (fun v => v * ((2 ^ fb : Nat) : Int))) = (findMaxBitplane V).map (· + fb) := by
  unfold findMaxBitplane
  simp only []
  rw [← Array.foldl_toList, ← Array.foldl_toList, Array.toList_map, List.foldl_map]
  have := foldmax_scale (2 ^ fb) V.toList 0
  rw [Nat.zero_mul] at this
  rw [this]
  by_cases h0 : List.foldl (fun m v => max m v.natAbs) 0 V.toList = 0
  · rw [h0, Nat.zero_mul]; rfl
  · rw [if_neg h0, if_neg (Nat.mul_ne_zero h0 (by have := Nat.pow_pos (n := fb) (show 0 < 2 by omega); omega))]
    simp only [Option.map_some]
    rw [log2_scale _ fb h0]

/-- one iteration of the encoder's pass loop (no pending restart) -/
theorem encLoopF_step (fb w h orient style : Nat) (V : Array Int) (mb np f : Nat) (es : EncSt) (bp pi pt : Nat)
    (hpt : pt ≤ 2) (hc : pi < np) (hfb : fb ≤ bp) :
    encLoopF fb w h orient style V mb np (f + 1) es (bp : Int) pi pt false =
      (passE w h orient V bp pt (cvE pi pt es)).bind fun st =>
        (segE style pt st).bind fun st =>
          (if J2kT1.isTerminatingPass (bp : Int) (mb : Int) (pt : Int) (style : Int) = true then
              (if styPterm style = true then Mqc.ertermEnc st.mq else Mqc.flushToOutput st.mq).map
                (fun m => ({ st with mq := m } : EncSt))
            else some st).bind fun st =>
            (resetE style st).bind fun st =>
              if pt = 2 then encLoopF fb w h orient style V mb np f st ((bp : Int) - 1) (pi + 1) 0
                (J2kT1.isTerminatingPass (bp : Int) (mb : Int) (pt : Int) (style : Int))
              else encLoopF fb w h orient style V mb np f st (bp : Int) (pi + 1) (pt + 1)
                (J2kT1.isTerminatingPass (bp : Int) (mb : Int) (pt : Int) (style : Int)) := by
  conv => lhs; unfold encLoopF
  rw [if_pos ⟨by omega, hc⟩]
  simp only [Int.toNat_natCast, Bool.false_eq_true, if_false]
  rcases (show pt = 0 ∨ pt = 1 ∨ pt = 2 by omega) with rfl | rfl | rfl
  · unfold passE segE cvE resetE
    simp only [true_or, if_true, show ¬(0 = 2 ∧ stySegsym style = true) from fun hh => absurd hh.1 (by decide), if_false]
    cases encSigProp w h orient bp V { flags := clearVisit es.flags, mq := es.mq } with
    | none => rfl
    | some st =>
      simp only [Option.bind_some]
      cases (if J2kT1.isTerminatingPass (bp : Int) (mb : Int) ((0 : Nat) : Int) (style : Int) = true then
          Option.map (fun m => ({ flags := st.flags, mq := m } : EncSt))
            (if styPterm style = true then Mqc.ertermEnc st.mq else Mqc.flushToOutput st.mq) else some st) with
      | none => rfl
      | some st1 =>
        simp only [Option.bind_some]
        cases (if styReset style = true then Option.map (fun m => ({ flags := st1.flags, mq := m } : EncSt)) (initCtx (Mqc.resetContexts st1.mq)) else some st1) with
        | none => rfl
        | some st2 => rfl
  · unfold passE segE cvE resetE
    simp only [show ¬(1 = 0 ∨ 1 = 2 ∧ pi = 0) from by omega, if_false, show ¬(1 = 2 ∧ stySegsym style = true) from fun hh => absurd hh.1 (by decide)]
    cases encMagRef w h bp V es with
    | none => rfl
    | some st =>
      simp only [Option.bind_some]
      cases (if J2kT1.isTerminatingPass (bp : Int) (mb : Int) ((1 : Nat) : Int) (style : Int) = true then
          Option.map (fun m => ({ flags := st.flags, mq := m } : EncSt))
            (if styPterm style = true then Mqc.ertermEnc st.mq else Mqc.flushToOutput st.mq) else some st) with
      | none => rfl
      | some st1 =>
        simp only [Option.bind_some]
        cases (if styReset style = true then Option.map (fun m => ({ flags := st1.flags, mq := m } : EncSt)) (initCtx (Mqc.resetContexts st1.mq)) else some st1) with
        | none => rfl
        | some st2 => rfl
  · unfold passE segE cvE resetE
    simp only []
    generalize (if 2 = 0 ∨ True ∧ pi = 0 then ({ flags := clearVisit es.flags, mq := es.mq } : EncSt) else es) = es1
    cases encCleanup w h orient bp V es1 with
    | none => rfl
    | some st =>
      simp only [Option.bind_some, true_and]
      cases (if stySegsym style = true then Option.map (fun m => ({ flags := st.flags, mq := m } : EncSt)) (Mqc.segmarkEnc st.mq) else some st) with
      | none => rfl
      | some st0 =>
        simp only [Option.bind_some]
        cases (if J2kT1.isTerminatingPass (bp : Int) (mb : Int) ((2 : Nat) : Int) (style : Int) = true then
            Option.map (fun m => ({ flags := st0.flags, mq := m } : EncSt))
              (if styPterm style = true then Mqc.ertermEnc st0.mq else Mqc.flushToOutput st0.mq) else some st0) with
        | none => rfl
        | some st1 =>
          simp only [Option.bind_some]
          cases (if styReset style = true then Option.map (fun m => ({ flags := st1.flags, mq := m } : EncSt)) (initCtx (Mqc.resetContexts st1.mq)) else some st1) with
          | none => rfl
          | some st2 => rfl


theorem passE_scale (fb w h orient bp pt : Nat) (V V' : Array Int) (hS : Scaled fb V V') (st : EncSt) :
    passE w h orient V' (bp + fb) pt st = passE w h orient V bp pt st := by
  unfold passE
  match pt with
  | 0 => exact encSigProp_scale fb w h orient bp V V' hS st
  | 1 => exact encMagRef_scale fb w h bp V V' hS st
  | _ + 2 => exact encCleanup_scale fb w h orient bp V V' hS st

theorem encLoopF_exitF (fb w h orient style : Nat) (data : Array Int) (mb np fuel : Nat) (st : EncSt) (bp : Int) (pi pt : Nat) (t : Bool)
    (hbp : bp < (fb : Int)) : encLoopF fb w h orient style data mb np fuel st bp pi pt t = some (st, t) := by
  cases fuel with
  | zero => rfl
  | succ f => unfold encLoopF; rw [if_neg (by omega)]

/-- what `Encode` returns after its loop -/
def finishE (r : EncSt × Bool) : Option (List Nat) :=
  if r.2 = true then some (Mqc.getBuffer r.1.mq) else (Mqc.flush r.1.mq).map (·.2)

theorem encLoopF_eq (fb w h orient style : Nat) (V V' : Array Int) (hS : Scaled fb V V') (mb np : Nat) (hfb : 1 ≤ fb)
    (hT : Go.and (style : Int) J2kT1.CblkStyleTermAll = 0) (hL : Go.and (style : Int) J2kT1.CblkStyleLazy = 0)
    (hP : styPterm style = false) (hR : styReset style = false) :
    ∀ (fuel : Nat) (es : EncSt) (n pi pt : Nat), pt ≤ 2 →
      (encLoopF fb w h orient style V' (mb + fb) np fuel es ((n + fb : Nat) : Int) pi pt false).bind finishE =
        (encLoop w h orient style V mb np fuel es (n : Int) pi pt false).bind finishE := by
  intro fuel
  induction fuel with
  | zero => intro es n pi pt _; rfl
  | succ f ih =>
    intro es n pi pt hpt
    by_cases hc : pi < np
    · rw [encLoopF_step fb w h orient style V' (mb + fb) np f es (n + fb) pi pt hpt hc (by omega),
        encLoop_step w h orient style V mb np f es n pi pt hpt hc, passE_scale fb w h orient n pt V V' hS]
      cases passE w h orient V n pt (cvE pi pt es) with
      | none => rfl
      | some st =>
        simp only [Option.bind_some]
        cases segE style pt st with
        | none => rfl
        | some st1 =>
          simp only [Option.bind_some]
          rw [nontermS _ _ _ _ hT hL (show ¬(((pt : Nat) : Int) = 2 ∧ (((n + fb : Nat) : Nat) : Int) = 0) by omega)]
          have hre : ∀ (x : EncSt), resetE style x = some x := by
            intro x; unfold resetE; rw [if_neg (by rw [hR]; simp)]
          simp only [Bool.false_eq_true, if_false, Option.bind_some, hre]
          by_cases hfin : pt = 2 ∧ n = 0
          · obtain ⟨rfl, rfl⟩ := hfin
            rw [show J2kT1.isTerminatingPass ((0 : Nat) : Int) (mb : Int) ((2 : Nat) : Int) (style : Int) = true from
              terminating_last _ _]
            simp only [if_true, hP, Bool.false_eq_true, if_false]
            rw [encLoopF_exitF _ _ _ _ _ _ _ _ _ _ _ _ _ _ (by omega)]
            simp only [Option.bind_some]
            cases hfl : Mqc.flushToOutput st1.mq with
            | none =>
              simp only [Option.map_none, Option.bind_none]
              unfold finishE Mqc.flush
              simp only [Bool.false_eq_true, if_false, hfl, Option.map_none]
            | some m =>
              simp only [Option.map_some, Option.bind_some, hre]
              rw [encLoop_exit _ _ _ _ _ _ _ _ _ _ _ _ _ (by omega)]
              simp only [Option.bind_some]
              unfold finishE Mqc.flush
              simp only [Bool.false_eq_true, if_false, if_true, hfl, Option.map_some]
          · rw [nontermS _ _ _ _ hT hL (show ¬(((pt : Nat) : Int) = 2 ∧ ((n : Nat) : Int) = 0) by omega)]
            simp only [Bool.false_eq_true, if_false, Option.bind_some, hre]
            by_cases hp2 : pt = 2
            · rw [if_pos hp2, if_pos hp2, show (((n + fb : Nat) : Int) - 1) = (((n - 1) + fb : Nat) : Int) by omega,
                show ((n : Int) - 1) = ((n - 1 : Nat) : Int) by omega]
              exact ih st1 (n - 1) (pi + 1) 0 (by omega)
            · rw [if_neg hp2, if_neg hp2]
              exact ih st1 n (pi + 1) (pt + 1) (by omega)
    · have h1 : encLoopF fb w h orient style V' (mb + fb) np (f + 1) es ((n + fb : Nat) : Int) pi pt false = some (es, false) := by
        unfold encLoopF; rw [if_neg (fun hh => hc hh.2)]
      have h2 : encLoop w h orient style V mb np (f + 1) es (n : Int) pi pt false = some (es, false) := by
        unfold encLoop; rw [if_neg (fun hh => hc hh.2)]
      rw [h1, h2]

/-- **pipeline configuration, encoder**: `Encode` with `SetNMSEDecFractionalBits(fb)` (`fb ≥ 1`) on the block scaled by
`2^fb` emits exactly the bytes of the plain `Encode` on the block, for every pass count (styles without LAZY,
TERMALL, PTERM, RESET) -/
theorem encodeBlockF_scale (fb w h orient style : Nat) (coeffs : List Int) (np : Nat) (hfb : 1 ≤ fb)
    (hT : Go.and (style : Int) J2kT1.CblkStyleTermAll = 0) (hL : Go.and (style : Int) J2kT1.CblkStyleLazy = 0)
    (hP : styPterm style = false) (hR : styReset style = false) :
    encodeBlockF fb w h orient style (coeffs.map (fun c => c * ((2 ^ fb : Nat) : Int))) np =
      encodeBlock w h orient style coeffs np := by
  unfold encodeBlockF encodeBlock
  rw [List.length_map]
  by_cases hl : coeffs.length ≠ w * h
  · rw [if_pos hl, if_pos hl]
  · rw [if_neg hl, if_neg hl]
    simp only []
    rw [padBlock_map w h coeffs _ (by simp), findMax_scale]
    cases findMaxBitplane (padBlock w h coeffs) with
    | none => rfl
    | some mb =>
      simp only [Option.map_some]
      rw [if_neg (by omega)]
      cases initCtx (Mqc.Enc.new NUMCONTEXTS) with
      | none => rfl
      | some mq =>
        simp only []
        have key := encLoopF_eq fb w h orient style (padBlock w h coeffs) _ (scaled_map fb (padBlock w h coeffs)) mb np hfb hT hL hP hR
          (np + 1) { flags := Array.replicate ((w + 2) * (h + 2)) 0, mq := mq } mb 0 2 (by omega)
        have tail : ∀ (r : Option (EncSt × Bool)),
            (match r with
              | none => Outcome.panic
              | some (st, prevTerminated) =>
                if prevTerminated = true then Outcome.ok (Mqc.getBuffer st.mq)
                else match Mqc.flush st.mq with
                  | some (_, bytes) => Outcome.ok bytes
                  | none => Outcome.panic) =
            (match r.bind finishE with
              | none => Outcome.panic
              | some b => Outcome.ok b) := by
          intro r
          cases r with
          | none => rfl
          | some r =>
            obtain ⟨st, t⟩ := r
            cases t with
            | true => rfl
            | false =>
              simp only [Option.bind_some]
              unfold finishE
              simp only [Bool.false_eq_true, if_false]
              cases Mqc.flush st.mq with
              | none => rfl
              | some fb' => rfl
        exact ((tail _).trans (by rw [key])).trans (tail _).symm

end T1
