import GdcVerif.Model.Rle
import GdcVerif.Spec.PackBits
import GdcVerif.Lemmas.RleGeom
/-! Helper lemmas and the proofs behind `Props/C01.lean`. -/
namespace Rle

/-- the frame descriptions the property quantifies over -/
def Info.Accepted (i : Info) : Prop :=
  (i.bitsAllocated = 8 ∨ i.bitsAllocated = 16 ∨ i.bitsAllocated = 32) ∧
  (i.spp = 1 ∨ i.spp = 3) ∧ (i.planar = 0 ∨ i.planar = 1) ∧ 1 ≤ i.width ∧ 1 ≤ i.height

/-- The segment offsets are stored in 32-bit fields; the format (and the code) cannot
    describe a frame whose encoding exceeds 4 GiB.  The theorems carry this bound
    explicitly: native frames up to 2 GiB − 50 bytes. -/
def Info.Fits32 (i : Info) : Prop := 2 * i.nativeLen + 100 < 4294967296

instance (i : Info) : Decidable i.Accepted := by unfold Info.Accepted; infer_instance
instance (i : Info) : Decidable i.Fits32 := by unfold Info.Fits32; infer_instance

/-- what `Accepted` gives, in the vocabulary of `RleGeom` -/
structure Info.Geo (i : Info) : Prop where
  hba : i.bytesAllocated = 1 ∨ i.bytesAllocated = 2 ∨ i.bytesAllocated = 4
  hspp : i.spp = 1 ∨ i.spp = 3
  hpl : i.planar = 0 ∨ i.planar = 1
  hpc : 1 ≤ i.pixelCount
  hnat : i.nativeLen = i.bytesAllocated * i.spp * i.pixelCount

theorem Info.Accepted.geo {i : Info} (hi : i.Accepted) : i.Geo := by
  obtain ⟨hb, hspp, hpl, hw, hh⟩ := hi
  refine ⟨?_, hspp, hpl, Nat.mul_pos hw hh, ?_⟩
  · unfold Info.bytesAllocated
    rcases hb with h | h | h <;> rw [h] <;> simp
  · simp only [Info.nativeLen, Info.pixelCount, Nat.mul_assoc]

theorem segStart_eq (i : Info) (s : Nat) :
    i.segStart s = gStart i.bytesAllocated i.pixelCount i.planar s := rfl
theorem segStride_eq (i : Info) :
    i.segStride = gStride i.bytesAllocated i.spp i.planar := rfl

/-- the byte plane of segment `t` -/
def planeP (i : Info) (src : Array Byte) (t : Nat) : List Byte :=
  (List.range i.pixelCount).map fun q => cell src (i.segStart t + q * i.segStride)

/-- the chunks (segment + pad) of the encoded frame -/
def chunksOf (i : Info) (src : Array Byte) : List (List Byte) :=
  (List.range' 0 i.numberOfSegments).map fun t => chunkOf (planeP i src t)

theorem Info.Geo.nseg_le {i : Info} (g : i.Geo) : i.numberOfSegments ≤ 12 := by
  unfold Info.numberOfSegments
  rcases g.hba with h | h | h <;> rcases g.hspp with h' | h' <;> rw [h, h'] <;> omega

theorem Info.Geo.nseg_pos {i : Info} (g : i.Geo) : 1 ≤ i.numberOfSegments := by
  unfold Info.numberOfSegments
  rcases g.hba with h | h | h <;> rcases g.hspp with h' | h' <;> rw [h, h'] <;> omega

theorem Info.Geo.inb {i : Info} (g : i.Geo) {t q : Nat} (ht : t < i.numberOfSegments)
    (hq : q < i.pixelCount) : i.segStart t + q * i.segStride < i.nativeLen := by
  rw [g.hnat, segStart_eq, segStride_eq]
  exact geo_inb _ _ _ _ _ _ g.hba g.hspp g.hpl ht hq

/-- the encoded frame (64-byte header + padded segments) is at most `maxEncodedFrameLength` = 0xFFFFFFFE bytes
    long: exactly the frames `encodeFrame` does not refuse (see `encodeFrame_chunks` / `encodeFrame_tooBig`) -/
def EncFits (i : Info) (src : Array Byte) : Prop :=
  64 + (chunksOf i src).flatten.length ≤ maxEncodedFrameLength

instance (i : Info) (src : Array Byte) : Decidable (EncFits i src) := by unfold EncFits; infer_instance

theorem encodeFrame_chunks (i : Info) (g : i.Geo) (src : Array Byte)
    (hlen : src.size = i.nativeLen) (hfit : EncFits i src) :
    encodeFrame i src = .ok (mkStream (chunksOf i src)) := by
  have hn := g.nseg_le
  have hpos : 1 ≤ i.nativeLen := by
    rw [g.hnat]; exact Nat.mul_pos g.nseg_pos g.hpc
  apply encodeFrame_eq i src (planeP i src) (by omega) (by omega) g.nseg_pos g.hpc
  · intro t ht
    exact readPlane_eq src _ _ _ (fun k hk => by rw [hlen]; exact g.inb ht hk)
  · exact hfit

/-- a frame whose encoding would pass 0xFFFFFFFE bytes is refused with an error (not truncated offsets) -/
theorem encodeFrame_tooBig (i : Info) (g : i.Geo) (src : Array Byte)
    (hlen : src.size = i.nativeLen) (hbig : ¬ EncFits i src) : encodeFrame i src = .err := by
  have hn := g.nseg_le
  have hpos : 1 ≤ i.nativeLen := by
    rw [g.hnat]; exact Nat.mul_pos g.nseg_pos g.hpc
  apply encodeFrame_reject i src (planeP i src) (by omega) (by omega) g.nseg_pos g.hpc
  · intro t ht
    exact readPlane_eq src _ _ _ (fun k hk => by rw [hlen]; exact g.inb ht hk)
  · unfold EncFits chunksOf at hbig; omega


theorem chunksOf_length (i : Info) (src : Array Byte) :
    (chunksOf i src).length = i.numberOfSegments := by simp [chunksOf]

theorem chunksOf_get (i : Info) (src : Array Byte) (k : Nat) (hk : k < (chunksOf i src).length) :
    (chunksOf i src)[k] = chunkOf (planeP i src k) := by simp [chunksOf]

theorem planeP_length (i : Info) (src : Array Byte) (t : Nat) :
    (planeP i src t).length = i.pixelCount := by simp [planeP]

theorem chunkOf_facts (plane : List Byte) (h : 1 ≤ plane.length) :
    (chunkOf plane).length % 2 = 0 ∧ 2 ≤ (chunkOf plane).length ∧
      (chunkOf plane).length ≤ 2 * plane.length + 1 := by
  have henc := (encodeSegment_spec plane).1
  have h1 := henc.length_le
  have h2 := padOf_length_le (encodeSegment plane).1
  refine ⟨chunk_even _, ?_, ?_⟩
  · rcases henc.shape with ⟨_, hd⟩ | ⟨ho, _⟩
    · rw [hd] at h; simp at h
    · simp only [chunkOf, List.length_append]; omega
  · simp only [chunkOf, List.length_append]; omega

theorem flatten_length_le (L : List (List Byte)) (M : Nat) (hL : ∀ c, c ∈ L → c.length ≤ M) :
    L.flatten.length ≤ L.length * M := by
  induction L with
  | nil => simp
  | cons c L ih =>
    have h1 := hL c (by simp)
    have h2 := ih (fun c hc => hL c (by simp [hc]))
    simp only [List.flatten_cons, List.length_append, List.length_cons, Nat.add_mul, Nat.one_mul]
    omega

theorem chunksOf_mem (i : Info) (g : i.Geo) (src : Array Byte) (c : List Byte)
    (hc : c ∈ chunksOf i src) :
    c.length % 2 = 0 ∧ 2 ≤ c.length ∧ c.length ≤ 2 * i.pixelCount + 1 := by
  simp only [chunksOf, List.mem_map] at hc
  obtain ⟨t, _, rfl⟩ := hc
  have := chunkOf_facts (planeP i src t) (by rw [planeP_length]; exact g.hpc)
  rwa [planeP_length] at this

theorem chunksOf_bound (i : Info) (g : i.Geo) (hf : i.Fits32) (src : Array Byte) :
    64 + (chunksOf i src).flatten.length < 4294967296 := by
  have h1 := flatten_length_le (chunksOf i src) (2 * i.pixelCount + 1)
    (fun c hc => (chunksOf_mem i g src c hc).2.2)
  rw [chunksOf_length] at h1
  have h2 : i.numberOfSegments * (2 * i.pixelCount + 1) = 2 * i.nativeLen + i.numberOfSegments := by
    rw [g.hnat, Nat.mul_add, Nat.mul_one, Nat.mul_left_comm]; rfl
  have := g.nseg_le
  unfold Info.Fits32 at hf
  omega


theorem fits32_encFits (i : Info) (g : i.Geo) (hf : i.Fits32) (src : Array Byte) : EncFits i src := by
  have h1 := flatten_length_le (chunksOf i src) (2 * i.pixelCount + 1)
    (fun c hc => (chunksOf_mem i g src c hc).2.2)
  rw [chunksOf_length] at h1
  have h2 : i.numberOfSegments * (2 * i.pixelCount + 1) = 2 * i.nativeLen + i.numberOfSegments := by
    rw [g.hnat, Nat.mul_add, Nat.mul_one, Nat.mul_left_comm]; rfl
  have := g.nseg_le
  unfold Info.Fits32 at hf
  unfold EncFits maxEncodedFrameLength
  omega

theorem encFits_bound (i : Info) (src : Array Byte) (h : EncFits i src) :
    64 + (chunksOf i src).flatten.length < 4294967296 := by
  unfold EncFits maxEncodedFrameLength at h; omega

/-- what an accepted encode tells: the frame fits and the stream is the chunk stream -/
theorem encodeFrame_ok_inv (i : Info) (g : i.Geo) (src : Array Byte) (hlen : src.size = i.nativeLen)
    (enc : List Byte) (he : encodeFrame i src = .ok enc) :
    EncFits i src ∧ enc = mkStream (chunksOf i src) := by
  by_cases hfit : EncFits i src
  · rw [encodeFrame_chunks i g src hlen hfit] at he
    injection he with he
    exact ⟨hfit, he.symm⟩
  · rw [encodeFrame_tooBig i g src hlen hfit] at he
    cases he

theorem Info.Geo.cover {i : Info} (g : i.Geo) {j : Nat} (hj : j < i.nativeLen) :
    ∃ s q, s < i.numberOfSegments ∧ q < i.pixelCount ∧ i.segStart s + q * i.segStride = j := by
  rw [g.hnat] at hj
  simp only [segStart_eq, segStride_eq]
  rcases g.hpl with h | h <;> rw [h]
  · exact geo_cover0 _ _ _ _ g.hba g.hspp hj
  · exact geo_cover1 _ _ _ _ g.hba g.hspp hj

theorem cell_of_lt (a : Array Byte) (j : Nat) (h : j < a.size) : cell a j = a[j] := by
  simp [cell, h]

theorem cell_of_ge (a : Array Byte) (j : Nat) (h : a.size ≤ j) : cell a j = 0 := by
  simp [cell, h]

theorem array_eq_of_cell (A B : Array Byte) (hs : A.size = B.size)
    (h : ∀ j, j < A.size → cell A j = cell B j) : A = B := by
  apply Array.ext hs
  intro j h1 h2
  rw [← cell_of_lt A j h1, ← cell_of_lt B j h2]
  exact h j h1

theorem cell_append_pad (src : Array Byte) (c : Prop) [Decidable c] (j : Nat) :
    cell (src ++ (if c then #[0] else #[])) j = cell src j := by
  unfold cell
  rw [Array.getElem?_append]
  split
  · rfl
  · next h =>
    have : src[j]? = none := by simp; omega
    rw [this]
    split
    · by_cases h0 : j - src.size = 0 <;> simp [h0]
    · simp

theorem decode_chunks (i : Info) (g : i.Geo) (src : Array Byte)
    (hlen : src.size = i.nativeLen) (hfit : EncFits i src) :
    decodeFrame i (mkStream (chunksOf i src)) =
      .ok (src ++ (if i.nativeLen % 2 = 1 then #[0] else #[])) := by
  have hcl := chunksOf_length i src
  have h1 : 1 ≤ (chunksOf i src).length := by rw [hcl]; exact g.nseg_pos
  have h15 : (chunksOf i src).length ≤ 15 := by rw [hcl]; have := g.nseg_le; omega
  have hb := encFits_bound i src hfit
  obtain ⟨offs, hph, hoffs⟩ := parseHeader_stream _ h1 h15 hb
  have hfs : i.frameSize = i.nativeLen + (if i.nativeLen % 2 = 1 then 1 else 0) := by
    unfold Info.frameSize; split <;> rename_i h <;> simp [h]
  have hfs' : i.nativeLen ≤ i.frameSize := by omega
  obtain ⟨F, hF, hu, hd⟩ := decodeSegments_upd i (cell src) (mkStream (chunksOf i src))
    (chunksOf i src).length offs (planeP i src) (chunksOf i src).length 0
    (Array.replicate i.frameSize 0)
    (by
      intro t _ ht b hbs
      have ht' : t < (chunksOf i src).length := by omega
      rw [segmentSlice_stream _ h15 offs hoffs t ht', chunksOf_get]
      apply decodeLoop_enc (encodeSegment_spec _).1 _ _ _ _ (padOf_length_le _)
      · rw [planeP_length]; exact g.hpc
      · rw [planeP_length, hbs, Array.size_replicate]
        have := g.inb (t := t) (q := i.pixelCount - 1) (by omega) (by have := g.hpc; omega)
        omega)
    (by
      intro t _ ht q hq
      rw [planeP_length] at hq
      refine ⟨by simp [planeP], ?_⟩
      rw [Array.size_replicate]
      have := g.inb (t := t) (q := q) (by omega) hq
      omega)
  have hFeq : F = src ++ (if i.nativeLen % 2 = 1 then #[0] else #[]) := by
    apply array_eq_of_cell
    · rw [hu.1, Array.size_replicate, Array.size_append, hlen, hfs]
      split <;> simp
    · intro j hj
      rw [cell_append_pad]
      by_cases hjn : j < i.nativeLen
      · obtain ⟨s, q, hs, hq, he⟩ := g.cover hjn
        have := hd s (Nat.zero_le _) (by omega) q (by rw [planeP_length]; exact hq)
        rwa [he] at this
      · have h0 : cell src j = 0 := cell_of_ge _ _ (by omega)
        rcases hu.2 j with h | h
        · rw [h, h0]
          unfold cell
          rw [Array.getElem?_replicate]
          split <;> rfl
        · exact h
  unfold decodeFrame
  have hl : ¬ ((mkStream (chunksOf i src)).length = 0) := by rw [mkStream_length _ h15]; omega
  have hg : ¬ (i.bitsAllocated = 0 ∨ i.numberOfSegments < 1 ∨ i.numberOfSegments > 15) := by
    have h1 := g.nseg_pos
    have h2 := g.nseg_le
    have hb := g.hba
    unfold Info.bytesAllocated at hb
    omega
  simp only [hl, hg, ↓reduceIte, hph, hcl, ne_eq, not_true_eq_false]
  rw [hcl] at hF
  rw [hF, hFeq]


theorem planeP_eq_planeOf (i : Info) (g : i.Geo) (src : Array Byte) (k : Nat)
    (hk : k < i.numberOfSegments) :
    planeP i src k = AnnexG.planeOf src.toList i.bytesAllocated i.spp i.pixelCount i.planar k := by
  simp only [planeP, AnnexG.planeOf]
  apply List.map_congr_left
  intro q _
  rw [geo_plane _ _ _ _ _ _ g.hba g.hspp g.hpl hk, ← segStart_eq, ← segStride_eq]
  simp [cell, List.getD_eq_getElem?_getD]

theorem rle_encode_ok' (i : Info) (hi : i.Accepted) (hf : i.Fits32) (src : Array Byte)
    (hlen : src.size = i.nativeLen) :
    ∃ enc, encodeFrame i src = .ok enc :=
  ⟨_, encodeFrame_chunks i hi.geo src hlen (fits32_encFits i hi.geo hf src)⟩

/-- the size guard, both directions: refused exactly when the encoding would pass 0xFFFFFFFE bytes; never a panic -/
theorem rle_encode_guard' (i : Info) (hi : i.Accepted) (src : Array Byte) (hlen : src.size = i.nativeLen) :
    (encodeFrame i src = .err ↔ ¬ EncFits i src) ∧ encodeFrame i src ≠ .panic ∧
    (∀ enc, encodeFrame i src = .ok enc → enc.length ≤ maxEncodedFrameLength ∧ enc.length % 2 = 0) := by
  have g := hi.geo
  by_cases hfit : EncFits i src
  · have he := encodeFrame_chunks i g src hlen hfit
    refine ⟨?_, ?_, ?_⟩
    · rw [he]; constructor
      · intro h; cases h
      · intro h; exact absurd hfit h
    · rw [he]; intro h; cases h
    · intro enc h
      rw [he] at h
      injection h with h
      subst h
      have hcl := chunksOf_length i src
      have h15 : (chunksOf i src).length ≤ 15 := by rw [hcl]; have := g.nseg_le; omega
      rw [mkStream_length _ h15]
      refine ⟨hfit, ?_⟩
      have hev : ∀ (L : List (List Byte)), (∀ c, c ∈ L → c.length % 2 = 0) → L.flatten.length % 2 = 0 := by
        intro L
        induction L with
        | nil => intro _; rfl
        | cons c L ih =>
          intro h
          have h1 := h c (by simp)
          have h2 := ih (fun c hc => h c (by simp [hc]))
          simp only [List.flatten_cons, List.length_append]
          omega
      have := hev (chunksOf i src) (fun c hc => (chunksOf_mem i g src c hc).1)
      omega
  · have he := encodeFrame_tooBig i g src hlen hfit
    refine ⟨?_, ?_, ?_⟩
    · rw [he]; exact ⟨fun _ => hfit, fun _ => rfl⟩
    · rw [he]; intro h; cases h
    · intro enc h; rw [he] at h; cases h

theorem rle_roundtrip' (i : Info) (hi : i.Accepted) (src : Array Byte)
    (hlen : src.size = i.nativeLen) (enc : List Byte) (he : encodeFrame i src = .ok enc) :
    decodeFrame i enc = .ok (src ++ (if i.nativeLen % 2 = 1 then #[0] else #[])) := by
  obtain ⟨hfit, rfl⟩ := encodeFrame_ok_inv i hi.geo src hlen enc he
  exact decode_chunks i hi.geo src hlen hfit

theorem rle_stream_wf' (i : Info) (hi : i.Accepted) (src : Array Byte)
    (hlen : src.size = i.nativeLen) (enc : List Byte) (he : encodeFrame i src = .ok enc) :
    AnnexG.headerOk enc i.numberOfSegments = true := by
  have g := hi.geo
  obtain ⟨hfit, rfl⟩ := encodeFrame_ok_inv i g src hlen enc he
  have hcl := chunksOf_length i src
  have := headerOk_stream (chunksOf i src) (by rw [hcl]; exact g.nseg_pos)
    (by rw [hcl]; have := g.nseg_le; omega) (encFits_bound i src hfit)
    (fun c hc => ⟨(chunksOf_mem i g src c hc).1, (chunksOf_mem i g src c hc).2.1⟩)
  rwa [hcl] at this

theorem rle_spec_agrees' (i : Info) (hi : i.Accepted) (src : Array Byte)
    (hlen : src.size = i.nativeLen) (enc : List Byte) (he : encodeFrame i src = .ok enc) :
    AnnexG.readPlanes enc i.numberOfSegments i.pixelCount =
      some ((List.range i.numberOfSegments).map
        (AnnexG.planeOf src.toList i.bytesAllocated i.spp i.pixelCount i.planar)) := by
  have g := hi.geo
  obtain ⟨hfit, rfl⟩ := encodeFrame_ok_inv i g src hlen enc he
  have hcl := chunksOf_length i src
  have := readPlanes_stream (chunksOf i src) (by rw [hcl]; exact g.nseg_pos)
    (by rw [hcl]; have := g.nseg_le; omega) (encFits_bound i src hfit)
    (fun c hc => ⟨(chunksOf_mem i g src c hc).1, (chunksOf_mem i g src c hc).2.1⟩)
    i.pixelCount (AnnexG.planeOf src.toList i.bytesAllocated i.spp i.pixelCount i.planar)
    (by
      intro k hk
      rw [chunksOf_get, ← planeP_eq_planeOf i g src k (by rwa [hcl] at hk)]
      have := unpack_enc (encodeSegment_spec (planeP i src k)).1
        (padOf (encodeSegment (planeP i src k)).1)
      rwa [planeP_length] at this)
  rwa [hcl] at this

end Rle
