import GdcVerif.Model.Rle
import GdcVerif.Spec.PackBits
/-! Helper lemmas and the proofs behind `Props/C01.lean`. -/
namespace Rle

/-- the frame descriptions the property quantifies over -/
def Info.Accepted (i : Info) : Prop :=
  (i.bitsAllocated = 8 ∨ i.bitsAllocated = 16 ∨ i.bitsAllocated = 32) ∧
  (i.spp = 1 ∨ i.spp = 3) ∧ (i.planar = 0 ∨ i.planar = 1) ∧ 1 ≤ i.width ∧ 1 ≤ i.height

/-- The segment offsets are stored in 32-bit fields; the format (and the code) cannot
    describe a frame whose encoding exceeds 4 GiB.  The theorems carry this bound
    explicitly: native frames up to 2 GiB − 50 bytes. -/
def Info.Fits32 (i : Info) : Prop := 2 * i.nativeLen + 100 < 4294967296

instance (i : Info) : Decidable i.Accepted := by unfold Info.Accepted; infer_instance
instance (i : Info) : Decidable i.Fits32 := by unfold Info.Fits32; infer_instance

theorem rle_encode_ok' (i : Info) (hi : i.Accepted) (src : Array Byte) (hlen : src.size = i.nativeLen) :
    ∃ enc, encodeFrame i src = .ok enc := by
  sorry

theorem rle_roundtrip' (i : Info) (hi : i.Accepted) (hf : i.Fits32) (src : Array Byte)
    (hlen : src.size = i.nativeLen) :
    ∃ enc, encodeFrame i src = .ok enc ∧
      decodeFrame i enc = .ok (src ++ (if i.nativeLen % 2 = 1 then #[0] else #[])) := by
  sorry

theorem rle_stream_wf' (i : Info) (hi : i.Accepted) (hf : i.Fits32) (src : Array Byte)
    (hlen : src.size = i.nativeLen) (enc : List Byte) (he : encodeFrame i src = .ok enc) :
    AnnexG.headerOk enc i.numberOfSegments = true := by
  sorry

theorem rle_spec_agrees' (i : Info) (hi : i.Accepted) (hf : i.Fits32) (src : Array Byte)
    (hlen : src.size = i.nativeLen) (enc : List Byte) (he : encodeFrame i src = .ok enc) :
    AnnexG.readPlanes enc i.numberOfSegments i.pixelCount =
      some ((List.range i.numberOfSegments).map
        (AnnexG.planeOf src.toList i.bytesAllocated i.spp i.pixelCount i.planar)) := by
  sorry

end Rle
