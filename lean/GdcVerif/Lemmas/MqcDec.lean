import GdcVerif.Lemmas.Mqc
/-!
  MQ decoder (`Model/Mqc.lean`, `mqc/mqc.go`): robustness invariants that hold for EVERY byte string —
  the decoder never panics, never reads outside `data` (the bytes plus the two sentinel bytes),
  always terminates its renormalisation loop, and keeps `0x8000 ≤ a < 0x10000`, `0 ≤ ct ≤ 8`, `c < 2^32`.
-/
set_option linter.unusedVariables false
namespace Mqc
open Gen.J2kMqc

/-- decoder invariant (also valid in the middle of `renormd`) -/
structure DecOk (d : Dec) : Prop where
  bpin : d.bp < d.data.size
  apos : 0 < d.a
  ahi : d.a < 65536
  ctlo : 0 ≤ d.ct
  cthi : d.ct ≤ 8
  chi : d.c < 4294967296
  ctx : CtxOk d.ctx

theorem u32_lt (x : Nat) : u32 x < 4294967296 := by unfold u32; omega
theorem sub32_lt (x y : Nat) : sub32 x y < 4294967296 := by unfold sub32; omega

theorem c08 : (0 : Int) ≤ 8 := by decide
theorem c88 : (8 : Int) ≤ 8 := by decide
theorem c07 : (0 : Int) ≤ 7 := by decide
theorem c78 : (7 : Int) ≤ 8 := by decide

/-- `bytein()` never fails and never moves `bp` outside `data` -/
theorem bytein_spec (d : Dec) (h : DecOk d) :
    ∃ d', bytein d = some d' ∧ DecOk d' ∧ d'.a = d.a ∧ d'.ctx = d.ctx ∧ d'.data = d.data ∧
      (d'.ct = 7 ∨ d'.ct = 8) ∧ d.bp ≤ d'.bp := by
  unfold bytein
  by_cases hg : d.bp + 1 ≥ d.data.size
  · rw [if_pos hg]
    exact ⟨_, rfl, ⟨h.bpin, h.apos, h.ahi, c08, c88, u32_lt _, h.ctx⟩, rfl, rfl, rfl, Or.inr rfl, Nat.le_refl _⟩
  · rw [if_neg hg]
    have h1 : d.bp + 1 < d.data.size := by omega
    rw [rd_some d.data (d.bp + 1) h1, rd_some d.data d.bp h.bpin]
    simp only []
    by_cases hff : rd d.data d.bp = 255
    · rw [if_pos hff]
      by_cases hn : rd d.data (d.bp + 1) > 143
      · rw [if_pos hn]
        exact ⟨_, rfl, ⟨h.bpin, h.apos, h.ahi, c08, c88, u32_lt _, h.ctx⟩, rfl, rfl, rfl, Or.inr rfl, Nat.le_refl _⟩
      · rw [if_neg hn]
        exact ⟨_, rfl, ⟨h1, h.apos, h.ahi, c07, c78, u32_lt _, h.ctx⟩, rfl, rfl, rfl, Or.inl rfl, Nat.le_succ _⟩
    · rw [if_neg hff]
      exact ⟨_, rfl, ⟨h1, h.apos, h.ahi, c08, c88, u32_lt _, h.ctx⟩, rfl, rfl, rfl, Or.inr rfl, Nat.le_succ _⟩

/-- `renormd()`: terminates, never fails, ends with `0x8000 ≤ a` -/
theorem renormdLoop_spec : ∀ (fuel : Nat) (d : Dec), DecOk d → 0x8000 ≤ d.a * 2 ^ fuel →
    ∃ d', renormdLoop fuel d = some d' ∧ DecOk d' ∧ 0x8000 ≤ d'.a ∧ d'.ctx = d.ctx ∧ d'.data = d.data := by
  intro fuel
  induction fuel with
  | zero =>
    intro d h ha
    refine ⟨d, ?_, h, by omega, rfl, rfl⟩
    rw [renormdLoop, if_neg (by omega)]
  | succ fuel ih =>
    intro d h ha
    have hap := h.apos; have hah := h.ahi; have hcl := h.ctlo; have hch := h.cthi
    rw [renormdLoop]
    by_cases hlt : d.a < 0x8000
    · rw [if_pos hlt]
      -- the state after the optional bytein
      obtain ⟨d1, hd1, hok1, ha1, hctx1, hdata1, hct1⟩ : ∃ d1, (if d.ct = 0 then bytein d else some d) = some d1 ∧
          DecOk d1 ∧ d1.a = d.a ∧ d1.ctx = d.ctx ∧ d1.data = d.data ∧ 1 ≤ d1.ct := by
        by_cases hz : d.ct = 0
        · rw [if_pos hz]
          obtain ⟨d', hb, hok, ha', hc', hd', hct', _⟩ := bytein_spec d h
          exact ⟨d', hb, hok, ha', hc', hd', by omega⟩
        · rw [if_neg hz]
          exact ⟨d, rfl, h, rfl, rfl, rfl, by omega⟩
      rw [hd1]
      simp only []
      have ha2 : u32 (d1.a * 2) = d1.a * 2 := by unfold u32; omega
      have hfuel : 0x8000 ≤ d1.a * 2 * 2 ^ fuel := by
        rw [Nat.pow_succ] at ha
        rw [ha1, Nat.mul_assoc, Nat.mul_comm 2]; exact ha
      have hr : DecOk { d1 with a := u32 (d1.a * 2), c := u32 (d1.c * 2), ct := d1.ct - 1 } := by
        have := hok1.cthi
        refine ⟨hok1.bpin, ?_, ?_, ?_, ?_, u32_lt _, hok1.ctx⟩
        · show 0 < u32 (d1.a * 2); rw [ha2]; omega
        · show u32 (d1.a * 2) < 65536; rw [ha2]; omega
        · show 0 ≤ d1.ct - 1; omega
        · show d1.ct - 1 ≤ 8; omega
      obtain ⟨d3, hd3, hok3, ha3, hctx3, hdata3⟩ := ih _ hr (by show 0x8000 ≤ u32 (d1.a * 2) * 2 ^ fuel; rw [ha2]; exact hfuel)
      exact ⟨d3, hd3, hok3, ha3, by rw [hctx3]; exact hctx1, by rw [hdata3]; exact hdata1⟩
    · rw [if_neg hlt]
      exact ⟨d, rfl, h, by omega, rfl, rfl⟩

/-- renormalising a decoder whose `a` was replaced by a positive value below 2^16 -/
theorem renormd_after (d : Dec) (h : DecOk d) (a' c' : Nat) (ctx' : Array Nat) (ha0 : 0 < a') (ha1 : a' < 65536)
    (hc : c' < 4294967296) (hctx : CtxOk ctx') :
    ∃ d', renormd { d with a := a', c := c', ctx := ctx' } = some d' ∧ DecOk d' ∧ 0x8000 ≤ d'.a ∧
      d'.ctx = ctx' ∧ d'.data = d.data := by
  have h16 : (2 : Nat) ^ 16 = 65536 := by decide
  exact renormdLoop_spec 16 _ ⟨h.bpin, ha0, ha1, h.ctlo, h.cthi, hc, hctx⟩
    (by show 0x8000 ≤ a' * 2 ^ 16; rw [h16]; omega)

theorem mpsCx_ok (cx nmps : Nat) (h1 : cx < 256) (h2 : nmps < 47) : mpsCx cx nmps % 128 < 47 ∧ mpsCx cx nmps < 256 := by
  unfold mpsCx u8; omega
theorem lpsCx_ok (cx nlps sw : Nat) (h1 : cx < 256) (h2 : nlps < 47) : lpsCx cx nlps sw % 128 < 47 ∧ lpsCx cx nlps sw < 256 := by
  unfold lpsCx u8; split <;> omega

/-- body of `Decode` with table entries in range: returns a bit, keeps the invariant -/
theorem decodeCore_spec (d : Dec) (cx cxv qe nmps nlps sw : Nat) (h : DecOk d) (hn : 0x8000 ≤ d.a)
    (hcxv : cxv < 256) (q2 : 1 ≤ qe) (q3 : qe ≤ 0x5601) (m2 : nmps < 47) (l2 : nlps < 47) :
    ∃ bit d', decodeCore d cx cxv qe nmps nlps sw = some (bit, d') ∧ bit ≤ 1 ∧ DecOk d' ∧ 0x8000 ≤ d'.a ∧
      d'.ctx.size = d.ctx.size ∧ d'.data = d.data := by
  have hah := h.ahi
  have hsub : sub32 d.a qe = d.a - qe := sub32_eq _ _ (by omega) (by omega)
  have hm := ctxOk_set d.ctx cx _ h.ctx (mpsCx_ok cxv nmps hcxv m2)
  have hl := ctxOk_set d.ctx cx _ h.ctx (lpsCx_ok cxv nlps sw hcxv l2)
  unfold decodeCore
  rw [hsub]
  by_cases hlps : d.c / 2 ^ 16 < qe
  · rw [if_pos hlps]
    by_cases hx : d.a - qe < qe
    · rw [if_pos hx]
      obtain ⟨d', hd', hok, ha, hc, hdat⟩ := renormd_after d h qe d.c _ (by omega) (by omega) h.chi hm
      exact ⟨_, d', by rw [hd']; rfl, by omega, hok, ha, by rw [hc, Array.size_setIfInBounds], hdat⟩
    · rw [if_neg hx]
      obtain ⟨d', hd', hok, ha, hc, hdat⟩ := renormd_after d h qe d.c _ (by omega) (by omega) h.chi hl
      exact ⟨_, d', by rw [hd']; rfl, by omega, hok, ha, by rw [hc, Array.size_setIfInBounds], hdat⟩
  · rw [if_neg hlps]
    by_cases hbig : (d.a - qe) / 0x8000 % 2 ≠ 0
    · rw [if_pos hbig]
      refine ⟨_, _, rfl, by omega, ⟨h.bpin, ?_, ?_, h.ctlo, h.cthi, sub32_lt _ _, h.ctx⟩, ?_, rfl, rfl⟩
      · show 0 < d.a - qe; omega
      · show d.a - qe < 65536; omega
      · show 0x8000 ≤ d.a - qe; omega
    · rw [if_neg hbig]
      by_cases hx : d.a - qe < qe
      · rw [if_pos hx]
        obtain ⟨d', hd', hok, ha, hc, hdat⟩ := renormd_after d h (d.a - qe) (sub32 d.c (u32 (qe * 2 ^ 16))) _
          (by omega) (by omega) (sub32_lt _ _) hl
        exact ⟨_, d', by rw [hd']; rfl, by omega, hok, ha, by rw [hc, Array.size_setIfInBounds], hdat⟩
      · rw [if_neg hx]
        obtain ⟨d', hd', hok, ha, hc, hdat⟩ := renormd_after d h (d.a - qe) (sub32 d.c (u32 (qe * 2 ^ 16))) _
          (by omega) (by omega) (sub32_lt _ _) hm
        exact ⟨_, d', by rw [hd']; rfl, by omega, hok, ha, by rw [hc, Array.size_setIfInBounds], hdat⟩

theorem decode_eq (d : Dec) (cx v qe nmps nlps sw : Nat) (h1 : d.ctx[cx]? = some v)
    (h2 : lookup (v % 128) = some (qe, nmps, nlps, sw)) :
    decode d cx = decodeCore d cx v qe nmps nlps sw := by
  unfold decode
  rw [h1]
  simp only [h2]

/-- `Decode(contextID)` with a valid context id: never panics, returns a bit, keeps the invariant -/
theorem decode_spec (d : Dec) (cx : Nat) (h : DecOk d) (hn : 0x8000 ≤ d.a) (hcx : cx < d.ctx.size) :
    ∃ bit d', decode d cx = some (bit, d') ∧ bit ≤ 1 ∧ DecOk d' ∧ 0x8000 ≤ d'.a ∧
      d'.ctx.size = d.ctx.size ∧ d'.data = d.data := by
  obtain ⟨hst, hcx256⟩ := h.ctx cx
  obtain ⟨qe, nmps, nlps, sw, hlk, q2, q3, m2, l2, s2⟩ := lookup_wf (rd d.ctx cx % 128) hst
  rw [decode_eq d cx _ qe nmps nlps sw (rd_some d.ctx cx hcx) hlk]
  exact decodeCore_spec d cx (rd d.ctx cx) qe nmps nlps sw h hn hcx256 q2 q3 m2 l2

/-- `NewMQDecoder(data, n)` never fails (any byte string, also the empty one) and establishes the invariant -/
theorem decNew_spec (bytes : List Nat) (n : Nat) :
    ∃ d, Dec.new bytes n = some d ∧ DecOk d ∧ 0x8000 ≤ d.a ∧ d.ctx.size = n ∧ d.data.size = bytes.length + 2 := by
  unfold Dec.new Dec.init
  have hsz : (bytes ++ [0xFF, 0xFF]).toArray.size = bytes.length + 2 := by simp
  -- the first byte (or 0xFF for an empty segment)
  obtain ⟨b0, hb0⟩ : ∃ b0, (if bytes.length = 0 then some 0xFF else (bytes ++ [0xFF, 0xFF]).toArray[0]?) = some b0 := by
    by_cases h0 : bytes.length = 0
    · exact ⟨_, by rw [if_pos h0]⟩
    · rw [if_neg h0]
      exact ⟨_, rd_some _ 0 (by rw [hsz]; omega)⟩
  simp only [hb0]
  have hok0 : DecOk (Dec.mk (bytes ++ [0xFF, 0xFF]).toArray 0 bytes.length 0x8000 (u32 (b0 * 2 ^ 16)) 0 0 (Array.replicate n 0)) := by
    refine ⟨?_, ?_, ?_, ?_, ?_, u32_lt _, ?_⟩
    · show 0 < (bytes ++ [0xFF, 0xFF]).toArray.size; rw [hsz]; omega
    · show 0 < 0x8000; decide
    · show 0x8000 < 65536; decide
    · show (0 : Int) ≤ 0; decide
    · show (0 : Int) ≤ 8; decide
    · intro i; show rd (Array.replicate n 0) i % 128 < 47 ∧ rd (Array.replicate n 0) i < 256
      rw [rd_replicate0]; decide
  obtain ⟨d1, hd1, hok1, ha1, hctx1, hdata1, hct1, _⟩ := bytein_spec _ hok0
  rw [hd1]
  simp only []
  refine ⟨_, rfl, ⟨hok1.bpin, ?_, ?_, ?_, ?_, u32_lt _, hok1.ctx⟩, ?_, ?_, ?_⟩
  · show 0 < 0x8000; decide
  · show 0x8000 < 65536; decide
  · show 0 ≤ d1.ct - 7; omega
  · show d1.ct - 7 ≤ 8; omega
  · show 0x8000 ≤ 0x8000; decide
  · show d1.ctx.size = n; rw [hctx1]; exact Array.size_replicate
  · show d1.data.size = bytes.length + 2; rw [hdata1]; exact hsz

/-- any sequence of `Decode` calls with valid context ids: no panic, one bit each, invariant kept -/
theorem decodeAll_spec : ∀ (cxs : List Nat) (d : Dec), DecOk d → 0x8000 ≤ d.a → (∀ cx ∈ cxs, cx < d.ctx.size) →
    ∃ bits d', decodeAll d cxs = some (bits, d') ∧ bits.length = cxs.length ∧ (∀ b ∈ bits, b ≤ 1) ∧
      DecOk d' ∧ 0x8000 ≤ d'.a ∧ d'.data = d.data := by
  intro cxs
  induction cxs with
  | nil => intro d h hn _; exact ⟨[], d, rfl, rfl, fun b hb => absurd hb (by simp), h, hn, rfl⟩
  | cons cx cxs ih =>
    intro d h hn hcx
    obtain ⟨bit, d1, hd1, hb1, hok1, hn1, hs1, hdat1⟩ := decode_spec d cx h hn (hcx cx List.mem_cons_self)
    obtain ⟨bits, d2, hd2, hlen, hbits, hok2, hn2, hdat2⟩ := ih d1 hok1 hn1
      (by intro c hc; rw [hs1]; exact hcx c (List.mem_cons_of_mem _ hc))
    refine ⟨bit :: bits, d2, ?_, by simp [hlen], ?_, hok2, hn2, by rw [hdat2, hdat1]⟩
    · rw [decodeAll, hd1]; simp only [hd2, Option.map_some]
    · intro b hb
      rcases List.mem_cons.mp hb with rfl | hb'
      · exact hb1
      · exact hbits b hb'

/-- **decoder robustness**: for EVERY byte string and every sequence of context ids `< n` the MQ decoder
returns normally with one bit per request, is renormalised (`0x8000 ≤ a < 0x10000`, `0 ≤ ct ≤ 8`,
`c < 2^32`) and its read position is still inside `data ++ [0xFF, 0xFF]` -/
theorem decoder_total (bytes : List Nat) (n : Nat) (cxs : List Nat) (hcx : ∀ cx ∈ cxs, cx < n) :
    ∃ d0 bits d, Dec.new bytes n = some d0 ∧ decodeAll d0 cxs = some (bits, d) ∧
      bits.length = cxs.length ∧ (∀ b ∈ bits, b ≤ 1) ∧
      0x8000 ≤ d.a ∧ d.a < 0x10000 ∧ 0 ≤ d.ct ∧ d.ct ≤ 8 ∧ d.c < 2 ^ 32 ∧ d.bp < bytes.length + 2 := by
  obtain ⟨d0, hd0, hok0, hn0, hs0, hsz0⟩ := decNew_spec bytes n
  obtain ⟨bits, d, hd, hlen, hbits, hok, hn, hdat⟩ := decodeAll_spec cxs d0 hok0 hn0 (by rw [hs0]; exact hcx)
  refine ⟨d0, bits, d, hd0, hd, hlen, hbits, hn, hok.ahi, hok.ctlo, hok.cthi, hok.chi, ?_⟩
  have := hok.bpin
  rw [hdat, hsz0] at this
  exact this

theorem decodeBits_total (bytes : List Nat) (n : Nat) (cxs : List Nat) (hcx : ∀ cx ∈ cxs, cx < n) :
    ∃ bits, decodeBits bytes n cxs = some bits ∧ bits.length = cxs.length ∧ (∀ b ∈ bits, b ≤ 1) := by
  obtain ⟨d0, bits, d, hd0, hd, hlen, hbits, _⟩ := decoder_total bytes n cxs hcx
  refine ⟨bits, ?_, hlen, hbits⟩
  unfold decodeBits
  rw [hd0]
  simp only [hd, Option.map_some]

end Mqc
