import GdcVerif.Lemmas.GolombExact
import GdcVerif.Lemmas.GolombCode
/-!
  Content exactness of the `GolombWriter` model: the bytes written, read back with the T.87 bit
  un-stuffing rule (`Golomb.destuff`), are exactly the bits of the `WriteBits` calls, followed by
  zero padding.  Proof: the 32-bit buffer is a window onto the list `P` of pending bits (also while
  `WriteBits` holds more than 32 pending bits in its overflow branch).
-/
namespace Golomb

/-- pending bit `j`, zero beyond the end -/
def pg (P : List Bool) (j : Nat) : Bool := P.getD j false

/-- the buffer shows the first `m` pending bits (bit 31 first) and is zero below -/
def Win (buf : Nat) (P : List Bool) (m : Nat) : Prop :=
  ∀ q, q < 32 → buf.testBit q = (decide (31 - q < m) && pg P (31 - q))

/-- the first `t` pending bits, zero-padded -/
def takeZ (P : List Bool) (t : Nat) : List Bool := (List.range t).map (pg P)

theorem getD_bitsOf (v : Nat) : ∀ (n i : Nat), (bitsOf v n).getD i false = (decide (i < n) && v.testBit (n - 1 - i))
  | 0, i => by simp [bitsOf]
  | n + 1, 0 => by simp [bitsOf]
  | n + 1, i + 1 => by
    simp only [bitsOf, List.getD_cons_succ]
    rw [getD_bitsOf v n i]
    have e : n + 1 - 1 - (i + 1) = n - 1 - i := by omega
    rw [e]
    by_cases h : i < n <;> simp [h]

theorem ext_getD (l1 l2 : List Bool) (hl : l1.length = l2.length)
    (h : ∀ i, i < l1.length → l1.getD i false = l2.getD i false) : l1 = l2 := by
  apply List.ext_getElem hl
  intro i h1 h2
  have := h i h1
  rw [← List.getElem_eq_getD (h := h1) false, ← List.getElem_eq_getD (h := h2) false] at this
  exact this

theorem length_takeZ (P : List Bool) (t : Nat) : (takeZ P t).length = t := by simp [takeZ]

theorem getD_takeZ (P : List Bool) (t i : Nat) (h : i < t) : (takeZ P t).getD i false = pg P i := by
  unfold takeZ
  have hl : i < ((List.range t).map (pg P)).length := by simpa using h
  rw [← List.getElem_eq_getD (h := hl) false]
  simp

theorem takeZ_eq_take (P : List Bool) (t : Nat) (h : t ≤ P.length) : takeZ P t = P.take t := by
  apply ext_getD
  · simp [length_takeZ, List.length_take]; omega
  · intro i hi
    rw [length_takeZ] at hi
    rw [getD_takeZ P t i hi]
    unfold pg
    have h1 : i < P.length := by omega
    have h2 : i < (P.take t).length := by simp [List.length_take]; omega
    rw [← List.getElem_eq_getD (h := h1) false, ← List.getElem_eq_getD (h := h2) false]
    simp

theorem takeZ_pad (P : List Bool) (t : Nat) (h : P.length ≤ t) :
    takeZ P t = P ++ List.replicate (t - P.length) false := by
  apply ext_getD
  · simp [length_takeZ]; omega
  · intro i hi
    rw [length_takeZ] at hi
    rw [getD_takeZ P t i hi]
    unfold pg
    simp only [List.getD_eq_getElem?_getD]
    by_cases h1 : i < P.length
    · rw [List.getElem?_append_left h1]
    · have h2 : P.length ≤ i := by omega
      rw [List.getElem?_append_right h2, List.getElem?_eq_none h2]
      simp only [List.getElem?_replicate]
      split <;> rfl

theorem pg_drop (P : List Bool) (t j : Nat) : pg (P.drop t) j = pg P (j + t) := by
  unfold pg
  simp only [List.getD_eq_getElem?_getD, List.getElem?_drop]
  rw [Nat.add_comm]

/-- the byte a flush step emits shows the first `t` pending bits -/
theorem emitted_bits (buf : Nat) (P : List Bool) (m t : Nat) (hw : Win buf P m) (ht : t ≤ 8) (htm : t ≤ m)
    (ht1 : 1 ≤ t) : bitsOf ((buf >>> (32 - t)) % 256) t = takeZ P t := by
  apply ext_getD
  · rw [length_bitsOf, length_takeZ]
  · intro i hi
    rw [length_bitsOf] at hi
    rw [getD_bitsOf, getD_takeZ P t i hi]
    have e : (256 : Nat) = 2 ^ 8 := by decide
    rw [e, Nat.testBit_mod_two_pow, Nat.testBit_shiftRight]
    have hq := hw (32 - t + (t - 1 - i)) (by omega)
    rw [hq]
    have e2 : 31 - (32 - t + (t - 1 - i)) = i := by omega
    rw [e2]
    have h1 : decide (i < t) = true := by simpa using hi
    have h2 : decide (t - 1 - i < 8) = true := by simp; omega
    have h3 : decide (i < m) = true := by simp; omega
    simp [h1, h2, h3]

/-- after shifting the emitted bits out, the window has moved on by `t` -/
theorem win_shift (buf : Nat) (P : List Bool) (m t : Nat) (hw : Win buf P m) (hm : m ≤ 32) (htm : t ≤ m) :
    Win ((buf <<< t) % M32) (P.drop t) (m - t) := by
  intro q hq
  rw [testBit_shl_mod, pg_drop]
  by_cases h1 : q ≥ t
  · have := hw (q - t) (by omega)
    rw [this]
    have e : 31 - (q - t) = 31 - q + t := by omega
    rw [e]
    have hq32 : decide (q < 32) = true := by simpa using hq
    have hd : decide (31 - q + t < m) = decide (31 - q < m - t) := by
      by_cases hx : 31 - q + t < m
      · have : 31 - q < m - t := by omega
        simp [hx, this]
      · have : ¬ 31 - q < m - t := by omega
        simp [hx, this]
    simp [h1, hq32, hd]
  · have : ¬ 31 - q < m - t := by omega
    simp [h1, this]

/-- does the byte sequence end on 0xFF (initial state `a` for the empty sequence)? -/
def endsFF (l : List Nat) (a : Bool) : Bool :=
  match l.getLast? with
  | none => a
  | some x => x == 255

theorem destuff_snoc : ∀ (l : List Nat) (a : Bool) (b : Nat),
    destuff (l ++ [b]) a = destuff l a ++ (if endsFF l a then bitsOf b 7 else bitsOf b 8)
  | [], a, b => by cases a <;> simp [destuff, endsFF]
  | [x], a, b => by
    cases a <;> by_cases hx : x = 255 <;> simp [destuff, endsFF, hx]
  | x :: y :: l, a, b => by
    have ih := destuff_snoc (y :: l) (x == 255) b
    have he : endsFF (x :: y :: l) a = endsFF (y :: l) (x == 255) := by
      cases hgl : (y :: l).getLast? with
      | none => simp at hgl
      | some z => simp [endsFF, List.getLast?_cons_cons, hgl]
    simp only [List.cons_append, destuff] at ih ⊢
    rw [ih, he]
    simp [List.append_assoc]

/-- the writer state as a window onto the pending bits `Q`; `B` = everything written so far -/
def Xinv (w : Writer) (Q : List Bool) (m : Nat) (B : List Bool) : Prop :=
  J w ∧ Win w.buf Q m ∧ destuff w.out false ++ Q = B ∧ m ≤ 32

theorem endsFF_eq_ff (w : Writer) (h : J w) : endsFF w.out false = w.ff := by
  obtain ⟨hi, _, hf, _⟩ := h
  unfold endsFF
  cases hl : w.out.getLast? with
  | none =>
    by_cases hff : w.ff = true
    · have := hf hff; rw [hl] at this; exact absurd this (by simp)
    · simp at hff; simp [hff]
  | some x =>
    simp only
    by_cases hx : x = 255
    · subst hx
      have := hi.2.2.1 hl
      simp [this]
    · by_cases hff : w.ff = true
      · have := hf hff; rw [hl] at this
        simp at this; exact absurd this hx
      · simp at hff; simp [hff, hx]

/-- one emitting iteration of `flush()` -/
theorem X_flushStep (w : Writer) (Q : List Bool) (m : Nat) (B : List Bool) (h : Xinv w Q m B)
    (hfree : w.free < 32) (hm : 8 ≤ m) (hq : 8 ≤ Q.length) :
    Xinv (flushStep w).1 (Q.drop (if w.ff then 7 else 8)) (m - (if w.ff then 7 else 8)) B ∧
    (flushStep w).1.free = w.free + (if w.ff then 7 else 8) := by
  obtain ⟨hJ, hW, hD, hm32⟩ := h
  have hJ' := J_flushStep w hJ
  have hends := endsFF_eq_ff w hJ
  have hge : ¬ w.free ≥ 32 := by omega
  by_cases hff : w.ff = true
  · simp only [hff, if_true]
    have hstep : flushStep w = (Writer.mk ((w.buf <<< 7) % M32) (w.free + 7)
        ((w.buf >>> 25) % 256 == 255) (w.out ++ [(w.buf >>> 25) % 256]), true) := by
      unfold flushStep; simp only [hge, if_false, hff, if_true]
    rw [hstep] at hJ' ⊢
    refine ⟨⟨hJ', win_shift w.buf Q m 7 hW hm32 (by omega), ?_, by omega⟩, rfl⟩
    simp only
    rw [destuff_snoc, hends, hff]
    simp only [if_true]
    have := emitted_bits w.buf Q m 7 hW (by omega) (by omega) (by omega)
    simp only [show (32 : Nat) - 7 = 25 from rfl] at this
    rw [this, takeZ_eq_take Q 7 (by omega), List.append_assoc, List.take_append_drop]
    exact hD
  · have hff' : w.ff = false := by simpa using hff
    simp only [hff', Bool.false_eq_true, if_false]
    have hstep : flushStep w = (Writer.mk ((w.buf <<< 8) % M32) (w.free + 8)
        ((w.buf >>> 24) % 256 == 255) (w.out ++ [(w.buf >>> 24) % 256]), true) := by
      unfold flushStep; simp only [hge, if_false, hff', Bool.false_eq_true]
    rw [hstep] at hJ' ⊢
    refine ⟨⟨hJ', win_shift w.buf Q m 8 hW hm32 (by omega), ?_, by omega⟩, rfl⟩
    simp only
    rw [destuff_snoc, hends, hff']
    simp only [Bool.false_eq_true, if_false]
    have := emitted_bits w.buf Q m 8 hW (by omega) (by omega) (by omega)
    simp only [show (32 : Nat) - 8 = 24 from rfl] at this
    rw [this, takeZ_eq_take Q 8 (by omega), List.append_assoc, List.take_append_drop]
    exact hD

/-- `n` iterations of `flush()` (with its break) as seen through the window -/
theorem X_flushN : ∀ (n : Nat) (w : Writer) (Q : List Bool) (m : Nat) (B : List Bool), Xinv w Q m B →
    8 * n ≤ m → 8 * n ≤ Q.length →
    ∃ s : Nat, s ≤ 8 * n ∧ Xinv (flushN n w) (Q.drop s) (m - s) B ∧ (flushN n w).free ≤ w.free + s ∧
      (w.free + 8 * ((n : Int) - 1) < 32 → (flushN n w).free = w.free + s ∧ 7 * n ≤ s)
  | 0, w, Q, m, B, h, _, _ => ⟨0, by simp, by simpa [flushN] using h, by simp [flushN], fun _ => by simp [flushN]⟩
  | n + 1, w, Q, m, B, h, hm, hq => by
    unfold flushN
    rw [(step_free w).2]
    by_cases hlt : w.free < 32
    · simp only [hlt, decide_true, if_true]
      obtain ⟨t, ht78, hX1, hf1⟩ : ∃ t : Nat, (t = 7 ∨ t = 8) ∧ Xinv (flushStep w).1 (Q.drop t) (m - t) B ∧
          (flushStep w).1.free = w.free + (t : Int) := by
        obtain ⟨hX1, hf1⟩ := X_flushStep w Q m B h hlt (by omega) (by omega)
        by_cases hff : w.ff = true
        · simp only [hff, if_true] at hX1 hf1
          exact ⟨7, Or.inl rfl, hX1, by rw [hf1]; rfl⟩
        · simp only [hff, if_false] at hX1 hf1
          exact ⟨8, Or.inr rfl, hX1, by rw [hf1]; rfl⟩
      obtain ⟨s', hs', hX2, hle2, hall2⟩ := X_flushN n (flushStep w).1 (Q.drop t) (m - t) B hX1
        (by omega) (by simp [List.length_drop]; omega)
      refine ⟨t + s', by omega, ?_, ?_, ?_⟩
      · have e1 : (Q.drop t).drop s' = Q.drop (t + s') := by rw [List.drop_drop]
        have e2 : m - t - s' = m - (t + s') := by omega
        rw [e1, e2] at hX2; exact hX2
      · rw [hf1] at hle2; push_cast; omega
      · intro hall
        have := hall2 (by rw [hf1]; push_cast at hall ⊢; omega)
        rw [hf1] at this
        push_cast
        constructor <;> omega
    · simp only [hlt, decide_false, Bool.false_eq_true, if_false]
      have hge : w.free ≥ 32 := by omega
      have hs : (flushStep w).1 = { w with free := 32 } := by unfold flushStep; simp only [hge, if_true]
      refine ⟨0, by omega, ?_, ?_, ?_⟩
      · rw [hs]
        obtain ⟨hJ, hW, hD, hm32⟩ := h
        have hJ' := J_flushStep w hJ
        rw [hs] at hJ'
        exact ⟨hJ', by simpa using hW, by simpa using hD, by omega⟩
      · rw [hs]; simp; omega
      · intro hall
        have : (0 : Int) ≤ (n : Int) := Int.natCast_nonneg n
        push_cast at hall; omega

/-! ### OR-ing a value into the buffer at its place in the pending list -/

theorem testBit_shl32 (v : Nat) (f : Int) (q : Nat) (hf : 0 ≤ f) (hq : q < 32) :
    (shl32 v f).testBit q = (decide (f.toNat ≤ q) && v.testBit (q - f.toNat)) := by
  unfold shl32
  split
  · rename_i h
    have : ¬ f.toNat ≤ q := by omega
    simp [this]
  · rw [testBit_shl_mod]
    simp [hq]

theorem testBit_shr32 (v : Nat) (k : Int) (q : Nat) (hk : 0 ≤ k) (hv : v < M32) (hq : q < 32) :
    (shr32 v k).testBit q = v.testBit (k.toNat + q) := by
  unfold shr32
  split
  · rename_i h
    rw [Nat.zero_testBit]
    have h32 : 32 ≤ k.toNat + q := by omega
    have : v < 2 ^ (k.toNat + q) := Nat.lt_of_lt_of_le (by rw [← m32_eq]; exact hv) (Nat.pow_le_pow_right (by decide) h32)
    rw [Nat.testBit_lt_two_pow this]
  · rw [Nat.testBit_shiftRight]

/-- the pending list `Q` ends with the `n` bits of `v`, which start at index `a` (possibly negative:
    part of them already consumed) -/
def VSpec (Q : List Bool) (a : Int) (v n : Nat) : Prop :=
  (Q.length : Int) = a + n ∧
  ∀ j : Nat, a ≤ (j : Int) → pg Q j = (decide ((j : Int) - a < n) && v.testBit ((n : Int) - 1 - ((j : Int) - a)).toNat)

theorem pg_zero_beyond (Q : List Bool) (j : Nat) (h : Q.length ≤ j) : pg Q j = false := by
  unfold pg; rw [List.getD_eq_getElem?_getD, List.getElem?_eq_none h]; rfl

/-- OR of `v << f` (f = 32 − |Q| ≥ 0) completes the window -/
theorem win_or_shl (buf : Nat) (Q : List Bool) (m : Nat) (a : Int) (v n : Nat) (hw : Win buf Q m) (hm : m ≤ 32)
    (ham : a ≤ m) (hs : VSpec Q a v n) (hv : v < 2 ^ n) (hf : 0 ≤ 32 - (Q.length : Int)) :
    Win (buf ||| shl32 v (32 - (Q.length : Int))) Q 32 := by
  intro q hq
  rw [Nat.testBit_or, hw q hq, testBit_shl32 v _ q hf hq]
  have hj32 : decide (31 - q < 32) = true := decide_eq_true (by omega)
  rw [hj32, Bool.true_and]
  obtain ⟨hlen, hspec⟩ := hs
  by_cases hja : ((31 - q : Nat) : Int) < a
  · -- a bit before the bits of v: already in the window, and v contributes nothing there
    have hjm : decide (31 - q < m) = true := decide_eq_true (by omega)
    rw [hjm, Bool.true_and]
    by_cases hfq : (32 - (Q.length : Int)).toNat ≤ q
    · have hbig : n ≤ q - (32 - (Q.length : Int)).toNat := by omega
      have : v < 2 ^ (q - (32 - (Q.length : Int)).toNat) := Nat.lt_of_lt_of_le hv (Nat.pow_le_pow_right (by decide) hbig)
      rw [Nat.testBit_lt_two_pow this, Bool.and_false, Bool.or_false]
    · rw [decide_eq_false hfq, Bool.false_and, Bool.or_false]
  · have hja' : a ≤ ((31 - q : Nat) : Int) := by omega
    rw [hspec (31 - q) hja']
    by_cases hx : (((31 - q : Nat) : Int)) - a < n
    · have hfq : (32 - (Q.length : Int)).toNat ≤ q := by omega
      have e : q - (32 - (Q.length : Int)).toNat = ((n : Int) - 1 - (((31 - q : Nat) : Int) - a)).toNat := by omega
      rw [decide_eq_true hfq, decide_eq_true hx, e, Bool.true_and]
      cases v.testBit ((n : Int) - 1 - (((31 - q : Nat) : Int) - a)).toNat <;> cases decide (31 - q < m) <;> rfl
    · have hfq : ¬ (32 - (Q.length : Int)).toNat ≤ q := by omega
      rw [decide_eq_false hfq, decide_eq_false hx, Bool.false_and, Bool.false_and, Bool.and_false, Bool.or_false]

/-- OR of `v >> k` (k = |Q| − 32 > 0) completes the window -/
theorem win_or_shr (buf : Nat) (Q : List Bool) (m : Nat) (a : Int) (v n : Nat) (hw : Win buf Q m) (hm : m ≤ 32)
    (ham : a ≤ m) (hs : VSpec Q a v n) (hv : v < 2 ^ n) (hn : n ≤ 32) (hk : 0 < (Q.length : Int) - 32) :
    Win (buf ||| shr32 v ((Q.length : Int) - 32)) Q 32 := by
  intro q hq
  have hv32 : v < M32 := Nat.lt_of_lt_of_le hv (by rw [m32_eq]; exact Nat.pow_le_pow_right (by decide) hn)
  rw [Nat.testBit_or, hw q hq, testBit_shr32 v _ q (by omega) hv32 hq]
  have hj32 : decide (31 - q < 32) = true := decide_eq_true (by omega)
  rw [hj32, Bool.true_and]
  obtain ⟨hlen, hspec⟩ := hs
  by_cases hja : ((31 - q : Nat) : Int) < a
  · have hjm : decide (31 - q < m) = true := decide_eq_true (by omega)
    rw [hjm, Bool.true_and]
    have hbig : n ≤ ((Q.length : Int) - 32).toNat + q := by omega
    have : v < 2 ^ (((Q.length : Int) - 32).toNat + q) := Nat.lt_of_lt_of_le hv (Nat.pow_le_pow_right (by decide) hbig)
    rw [Nat.testBit_lt_two_pow this, Bool.or_false]
  · have hja' : a ≤ ((31 - q : Nat) : Int) := by omega
    rw [hspec (31 - q) hja']
    have hx : (((31 - q : Nat) : Int)) - a < n := by omega
    have e : ((Q.length : Int) - 32).toNat + q = ((n : Int) - 1 - (((31 - q : Nat) : Int) - a)).toNat := by omega
    rw [e, decide_eq_true hx, Bool.true_and]
    cases v.testBit ((n : Int) - 1 - (((31 - q : Nat) : Int) - a)).toNat <;> cases decide (31 - q < m) <;> rfl

theorem pg_append_left (P X : List Bool) (j : Nat) (h : j < P.length) : pg (P ++ X) j = pg P j := by
  unfold pg; simp only [List.getD_eq_getElem?_getD]; rw [List.getElem?_append_left h]

theorem pg_append_right (P X : List Bool) (j : Nat) (h : P.length ≤ j) : pg (P ++ X) j = pg X (j - P.length) := by
  unfold pg; simp only [List.getD_eq_getElem?_getD]; rw [List.getElem?_append_right h]

/-- dropping `s` bits from `P ++ bits(v, n)` leaves a list that ends with the bits of `v`, starting at `|P| − s` -/
theorem vspec_drop (P : List Bool) (v n s : Nat) (hs : s ≤ P.length + n) :
    VSpec ((P ++ bitsOf v n).drop s) ((P.length : Int) - s) v n := by
  constructor
  · simp only [List.length_drop, List.length_append, length_bitsOf]; omega
  · intro j hj
    rw [pg_drop, pg_append_right P _ (j + s) (by omega)]
    unfold pg
    rw [getD_bitsOf]
    by_cases hx : j + s - P.length < n
    · have hx' : (j : Int) - ((P.length : Int) - s) < n := by omega
      have e : n - 1 - (j + s - P.length) = ((n : Int) - 1 - ((j : Int) - ((P.length : Int) - s))).toNat := by omega
      rw [decide_eq_true hx, decide_eq_true hx', e]
    · have hx' : ¬ (j : Int) - ((P.length : Int) - s) < n := by omega
      rw [decide_eq_false hx, decide_eq_false hx', Bool.false_and, Bool.false_and]

/-- a resting window, seen as a window onto a longer pending list -/
theorem win_restrict (buf : Nat) (P X : List Bool) (hw : Win buf P 32) : Win buf (P ++ X) P.length := by
  intro q hq
  rw [hw q hq]
  by_cases hj : 31 - q < P.length
  · rw [decide_eq_true hj, pg_append_left P X _ hj]
    have : decide (31 - q < 32) = true := decide_eq_true (by omega)
    rw [this]
  · rw [decide_eq_false hj, Bool.false_and, pg_zero_beyond P _ (by omega), Bool.and_false]

/-- resting state: `P` = the pending bits, `B` = everything written so far -/
def Rest (w : Writer) (B : List Bool) : Prop :=
  ∃ P : List Bool, K w ∧ Xinv w P 32 B ∧ w.free = 32 - (P.length : Int)

theorem rest_new : Rest Writer.new [] :=
  ⟨[], K_new, ⟨J_new, fun q _ => by simp [Writer.new, pg], rfl, by decide⟩, rfl⟩

end Golomb
