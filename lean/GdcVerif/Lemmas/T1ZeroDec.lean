import GdcVerif.Lemmas.T1Lock
import GdcVerif.Model.T1Pipe
/-!
  C20 / pipeline configuration, the all-zero block: `Encode` emits FF 7F (the flush of a fresh coder) and the pipeline
  still sends ONE pass; the decoder then runs a cleanup pass over these two bytes.  Every decision it reads is 0:
  behind FF 7F the reader feeds 1-bits, the code register stays at the top of the interval, and the two contexts
  involved (run-length, zero coding with no significant neighbour) only walk the MPS chain of states with small Qe.
-/
namespace Mqc

/-- probability states reached from the initial states 3 (run-length) and 4 (zero coding) along MPS transitions -/
def Safe (s : Nat) : Prop := s = 3 ∨ s = 4 ∨ s = 5 ∨ s = 38 ∨ s = 39 ∨ s = 40 ∨ s = 41 ∨ s = 42 ∨ s = 43 ∨ s = 44 ∨ s = 45

theorem safe_lookup (s : Nat) (hs : Safe s) :
    ∃ qe nmps nlps sw, lookup s = some (qe, nmps, nlps, sw) ∧ 1 ≤ qe ∧ qe ≤ 0x0AC1 ∧ Safe nmps := by
  unfold Safe at hs
  rcases hs with rfl | rfl | rfl | rfl | rfl | rfl | rfl | rfl | rfl | rfl | rfl
  all_goals exact ⟨_, _, _, _, rfl, by decide, by decide, by unfold Safe; decide⟩

/-- the decoder behind the stream FF 7F: the code register is `a·2^16 - 2^(16-ct)` -/
structure ZInv (d : Dec) : Prop where
  data : d.data = #[255, 127, 255, 255]
  bp : d.bp = 1 ∨ d.bp = 2
  ctlo : 0 ≤ d.ct
  cthi : d.ct ≤ 8
  alo : 0x8000 ≤ d.a
  ahi : d.a < 0x10000
  c : d.c + 2 ^ (16 - d.ct.toNat) = d.a * 65536
  csz : d.ctx.size = 19
  c0 : ∃ s, d.ctx[0]? = some s ∧ Safe s
  c17 : ∃ s, d.ctx[17]? = some s ∧ Safe s

theorem zbytein (d : Dec) (hdata : d.data = #[255, 127, 255, 255]) (hbp : d.bp = 1 ∨ d.bp = 2) :
    ∃ d', bytein d = some d' ∧ d'.data = d.data ∧ d'.bp = 2 ∧ d'.c = u32 (d.c + 0xFF00) ∧ d'.ct = 8 ∧ d'.a = d.a ∧
      d'.ctx = d.ctx := by
  unfold bytein
  rw [hdata]
  rcases hbp with hb | hb
  · rw [hb]
    exact ⟨_, rfl, rfl, rfl, rfl, rfl, rfl, rfl⟩
  · rw [hb]
    exact ⟨_, rfl, rfl, rfl, rfl, rfl, rfl, rfl⟩

theorem renormd_stop (n : Nat) (d : Dec) (h : ¬ d.a < 0x8000) : renormdLoop (n + 1) d = some d := by
  unfold renormdLoop; rw [if_neg h]

theorem renormd_one (d1 d2 : Dec) (hlt : d1.a < 0x8000) (h2 : (if d1.ct = 0 then bytein d1 else some d1) = some d2)
    (hge : 0x4000 ≤ d2.a) (h16 : d2.a < 0x10000) :
    renormd d1 = some { d2 with a := u32 (d2.a * 2), c := u32 (d2.c * 2), ct := d2.ct - 1 } := by
  unfold renormd
  conv => lhs; unfold renormdLoop
  rw [if_pos hlt, h2]
  have hstop : ¬ ({ d2 with a := u32 (d2.a * 2), c := u32 (d2.c * 2), ct := d2.ct - 1 } : Dec).a < 0x8000 := by
    show ¬ u32 (d2.a * 2) < 0x8000; unfold u32; omega
  exact renormd_stop 14 _ hstop

/-- behind FF 7F every decision in a safe context is the MPS 0 -/
theorem zdecode (d : Dec) (hz : ZInv d) (cx : Nat) (hcx : cx = 0 ∨ cx = 17) :
    ∃ d', decode d cx = some (0, d') ∧ ZInv d' := by
  obtain ⟨s, hs, hsafe⟩ : ∃ s, d.ctx[cx]? = some s ∧ Safe s := by
    rcases hcx with rfl | rfl
    · exact hz.c0
    · exact hz.c17
  have hs45 : s ≤ 45 := by unfold Safe at hsafe; omega
  obtain ⟨qe, nmps, nlps, sw, hlk, hq1, hq2, hnm⟩ := safe_lookup s hsafe
  have hnm45 : nmps ≤ 45 := by unfold Safe at hnm; omega
  unfold decode
  rw [hs]
  simp only []
  rw [Nat.mod_eq_of_lt (by omega), hlk]
  simp only []
  obtain ⟨k, hk, hk8⟩ : ∃ k : Nat, d.ct = (k : Int) ∧ k ≤ 8 := ⟨d.ct.toNat, by have := hz.ctlo; omega, by have := hz.cthi; omega⟩
  have hct : k = 0 ∨ k = 1 ∨ k = 2 ∨ k = 3 ∨ k = 4 ∨ k = 5 ∨ k = 6 ∨ k = 7 ∨ k = 8 := by omega
  have halo := hz.alo
  have hahi := hz.ahi
  have hc := hz.c
  rw [hk, Int.toNat_natCast] at hc
  have hs0 : s / 128 = 0 := by omega
  -- the new context value
  have hmps : mpsCx s nmps = nmps := by
    unfold mpsCx u8; rw [hs0]; simp only [Nat.zero_mul, Nat.zero_mod, Nat.add_zero]; omega
  have hcxlt : cx < d.ctx.size := by rw [hz.csz]; omega
  have hctx' : ∀ (C : Array Nat), C = d.ctx.setIfInBounds cx nmps → C.size = 19 ∧
      (∃ s, C[0]? = some s ∧ Safe s) ∧ (∃ s, C[17]? = some s ∧ Safe s) := by
    intro C hC
    subst hC
    refine ⟨by rw [Array.size_setIfInBounds]; exact hz.csz, ?_, ?_⟩
    · rw [Array.getElem?_setIfInBounds]
      by_cases h0 : cx = 0
      · rw [if_pos h0, if_pos (by rw [hz.csz]; omega)]; exact ⟨nmps, rfl, hnm⟩
      · rw [if_neg h0]; exact hz.c0
    · rw [Array.getElem?_setIfInBounds]
      by_cases h0 : cx = 17
      · rw [if_pos h0, if_pos (by rw [hz.csz]; omega)]; exact ⟨nmps, rfl, hnm⟩
      · rw [if_neg h0]; exact hz.c17
  unfold decodeCore
  have hsub : sub32 d.a qe = d.a - qe := by unfold sub32; omega
  have hu : u32 (qe * 2 ^ 16) = qe * 65536 := by unfold u32; omega
  have hchigh : ¬ (d.c / 2 ^ 16 < qe) := by
    rcases hct with h | h | h | h | h | h | h | h | h <;> rw [h] at hc <;>
      simp only [Nat.sub_zero, Nat.reduceSub, Nat.reducePow] at hc ⊢ <;> omega
  rw [if_neg hchigh, hsub, hu]
  have hsubc : sub32 d.c (qe * 65536) = d.c - qe * 65536 := by
    unfold sub32
    rcases hct with h | h | h | h | h | h | h | h | h <;> rw [h] at hc <;>
      simp only [Nat.sub_zero, Nat.reduceSub, Nat.reducePow] at hc <;> omega
  rw [hsubc]
  have hcge : qe * 65536 ≤ d.c := by
    rcases hct with h | h | h | h | h | h | h | h | h <;> rw [h] at hc <;>
      simp only [Nat.sub_zero, Nat.reduceSub, Nat.reducePow] at hc <;> omega
  by_cases hbig : (d.a - qe) / 0x8000 % 2 ≠ 0
  · rw [if_pos hbig]
    refine ⟨_, by rw [hs0], ?_⟩
    refine ⟨hz.data, hz.bp, hz.ctlo, hz.cthi, by show 0x8000 ≤ d.a - qe; omega, by show d.a - qe < 0x10000; omega, ?_,
      hz.csz, hz.c0, hz.c17⟩
    show d.c - qe * 65536 + 2 ^ (16 - d.ct.toNat) = (d.a - qe) * 65536
    have : (d.a - qe) * 65536 = d.a * 65536 - qe * 65536 := Nat.sub_mul _ _ _
    rw [hk, Int.toNat_natCast]
    omega
  · rw [if_neg hbig, if_neg (by omega), hmps]
    have hasm : d.a - qe < 0x8000 := by omega
    have hage : 0x753F ≤ d.a - qe := by omega
    obtain ⟨hC1, hC2, hC3⟩ := hctx' _ rfl
    -- one renormalisation step
    by_cases hc0 : d.ct = 0
    · have hk0 : k = 0 := by omega
      subst hk0
      obtain ⟨d2, hb2, hd2, hbp2, hc2, hct2, ha2, hx2⟩ := zbytein
        { d with a := d.a - qe, c := d.c - qe * 65536, ctx := d.ctx.setIfInBounds cx nmps } hz.data hz.bp
      have ha2' : d2.a = d.a - qe := ha2
      have hc2' : d2.c = u32 (d.c - qe * 65536 + 0xFF00) := hc2
      have hx2' : d2.ctx = d.ctx.setIfInBounds cx nmps := hx2
      have hr := renormd_one { d with a := d.a - qe, c := d.c - qe * 65536, ctx := d.ctx.setIfInBounds cx nmps } d2 hasm
        (by show (if d.ct = 0 then _ else _) = _; rw [if_pos hc0]; exact hb2) (by rw [ha2']; omega) (by rw [ha2']; omega)
      rw [hr]
      simp only [Option.map_some]
      simp only [Nat.sub_zero, Nat.reducePow] at hc
      have hc2v : d2.c = d.c - qe * 65536 + 0xFF00 := by rw [hc2']; unfold u32; omega
      refine ⟨_, by rw [hs0], ?_⟩
      refine ⟨hd2 ▸ hz.data, Or.inr hbp2, by show 0 ≤ d2.ct - 1; omega, by show d2.ct - 1 ≤ 8; omega,
        by show 0x8000 ≤ u32 (d2.a * 2); rw [ha2']; unfold u32; omega,
        by show u32 (d2.a * 2) < 0x10000; rw [ha2']; unfold u32; omega, ?_, by rw [hx2']; exact hC1, by rw [hx2']; exact hC2,
        by rw [hx2']; exact hC3⟩
      show u32 (d2.c * 2) + 2 ^ (16 - (d2.ct - 1).toNat) = u32 (d2.a * 2) * 65536
      rw [hct2, ha2', hc2v]
      have : (d.a - qe) * 65536 = d.a * 65536 - qe * 65536 := Nat.sub_mul _ _ _
      unfold u32
      simp only [show ((8 : Int) - 1).toNat = 7 from rfl, Nat.reduceSub, Nat.reducePow]
      omega
    · have hr := renormd_one { d with a := d.a - qe, c := d.c - qe * 65536, ctx := d.ctx.setIfInBounds cx nmps } _ hasm
        (by show (if d.ct = 0 then _ else _) = _; rw [if_neg hc0]) (by show 0x4000 ≤ d.a - qe; omega) (by show d.a - qe < 0x10000; omega)
      rw [hr]
      simp only [Option.map_some]
      refine ⟨_, by rw [hs0], ?_⟩
      refine ⟨hz.data, hz.bp, by show 0 ≤ d.ct - 1; have := hz.ctlo; omega, by show d.ct - 1 ≤ 8; have := hz.cthi; omega,
        by show 0x8000 ≤ u32 ((d.a - qe) * 2); unfold u32; omega,
        by show u32 ((d.a - qe) * 2) < 0x10000; unfold u32; omega, ?_, hC1, hC2, hC3⟩
      show u32 ((d.c - qe * 65536) * 2) + 2 ^ (16 - (d.ct - 1).toNat) = u32 ((d.a - qe) * 2) * 65536
      have : (d.a - qe) * 65536 = d.a * 65536 - qe * 65536 := Nat.sub_mul _ _ _
      unfold u32
      have hk1 : 1 ≤ k := by
        rcases Nat.eq_zero_or_pos k with h0 | h0
        · exact absurd (by rw [hk, h0]; rfl) hc0
        · exact h0
      rw [hk, show ((k : Int) - 1).toNat = k - 1 by omega]
      rcases hct with h | h | h | h | h | h | h | h | h
      · omega
      all_goals (rw [h] at hc ⊢; simp only [Nat.reduceSub, Nat.reducePow] at hc ⊢; omega)

end Mqc

namespace T1
open Gen

theorem has0 (m : Nat) : has 0 m = false := by unfold has; simp

set_option maxRecDepth 100000 in
theorem zc_zero : tabN J2kT1.lutCtxnoZc 0 = some 0 ∧ tabN J2kT1.lutCtxnoZc 512 = some 0 ∧
    tabN J2kT1.lutCtxnoZc 1024 = some 0 ∧ tabN J2kT1.lutCtxnoZc 1536 = some 0 := by decide

theorem zcCtx0 (orient : Nat) : zcCtx 0 orient = some 0 := by
  unfold zcCtx bit
  simp only [has0, Bool.false_eq_true, if_false, Nat.mul_zero, Nat.add_zero]
  by_cases h : orient > 3
  · rw [if_pos h]; exact zc_zero.1
  · rw [if_neg h]
    have : orient = 0 ∨ orient = 1 ∨ orient = 2 ∨ orient = 3 := by omega
    rcases this with rfl | rfl | rfl | rfl
    · exact zc_zero.1
    · exact zc_zero.2.1
    · exact zc_zero.2.2.1
    · exact zc_zero.2.2.2

/-- a decoder state without significant samples, reading behind FF 7F -/
def ZSt (w h : Nat) (st : DecSt) : Prop :=
  st.flags.size = (w + 2) * (h + 2) ∧ (∀ j, gf st.flags j = 0) ∧ Mqc.ZInv st.mq

/-- one sample of the cleanup pass on a block without significant samples, behind FF 7F -/
theorem zsample (w h orient bp : Nat) (st : DecSt) (hz : ZSt w h st) (x y : Nat) (hx : x < w) (hy : y < h) :
    ∃ st', decCleanSample w orient bp st x y false = some (st', false) ∧ ZSt w h st' ∧ st'.data = st.data := by
  obtain ⟨hsz, hzero, hmq⟩ := hz
  have hi := idx_lt w h x y hx hy
  have hiF : idxOf w x y < st.flags.size := by rw [hsz]; exact hi
  have hf0 : st.flags[idxOf w x y]? = some 0 := by
    rw [Array.getElem?_eq_getElem hiF, ← gf_get _ _ hiF, hzero]
  obtain ⟨d', hd', hz'⟩ := Mqc.zdecode st.mq hmq 0 (Or.inl rfl)
  unfold decCleanSample
  simp only [Option.bind_eq_bind, hf0, Option.bind_some, has0, Bool.false_eq_true, or_self, if_false, zcCtx0, hd']
  refine ⟨_, rfl, ⟨by show (st.flags.setIfInBounds _ _).size = _; rw [Array.size_setIfInBounds]; exact hsz, ?_, hz'⟩, rfl⟩
  intro j
  show gf (st.flags.setIfInBounds (idxOf w x y) (clr 0 fVisit)) j = 0
  rw [gf_set _ _ _ _ hiF]
  split
  · rfl
  · exact hzero j

/-- the cleanup pass on a block without significant samples, behind FF 7F: nothing becomes significant -/
theorem zcleanup (w h orient bp : Nat) (st : DecSt) (hz : ZSt w h st) :
    ∃ st', decCleanup w h orient bp st = some st' ∧ ZSt w h st' ∧ st'.data = st.data := by
  unfold decCleanup
  refine (fun (hstep : _) => (foldlM_inv (fun (s : DecSt) => ZSt w h s ∧ s.data = st.data) (fun (p : Nat × Nat) => p.2 < w ∧ p.1 < h) _
    (columns w h) (fun p hp => columns_mem w h p.1 p.2 hp) hstep st ⟨hz, rfl⟩).elim
      (fun st' hst' => ⟨st', hst'.1, hst'.2.1, hst'.2.2⟩)) ?_
  intro s p hs hq
  obtain ⟨k, i⟩ := p
  obtain ⟨hzs, hds⟩ := hs
  have hnormal : ∃ s', ((List.range 4).filter (fun dy => k + dy < h)).foldlM (fun st dy => do
        let (st, _) ← decCleanSample w orient bp st i (k + dy) false
        some st) s = some s' ∧ (ZSt w h s' ∧ s'.data = st.data) := by
    apply foldlM_inv (fun (s : DecSt) => ZSt w h s ∧ s.data = st.data) (fun dy => k + dy < h) _ _
      (fun dy hdy => by simpa using (List.mem_filter.mp hdy).2) ?_ s ⟨hzs, hds⟩
    intro s1 dy hs1 hdy
    obtain ⟨s2, he2, hz2, hd2⟩ := zsample w h orient bp s1 hs1.1 i (k + dy) hq.1 hdy
    exact ⟨s2, by simp only [Option.bind_eq_bind, he2, Option.bind_some], hz2, by rw [hd2]; exact hs1.2⟩
  simp only []
  by_cases hk : k + 3 < h
  · rw [if_pos hk]
    obtain ⟨can, ecan, hcan⟩ := rlScanDec_spec w h s.flags k i hzs.1 hq.1 hk
    have hct : can = true := by
      rw [hcan]
      intro dy _
      unfold RlGood visA sigA
      rw [hzs.2.1]
      exact ⟨has0 _, has0 _, has0 _⟩
    subst hct
    obtain ⟨d', hd', hz'⟩ := Mqc.zdecode s.mq hzs.2.2 17 (Or.inr rfl)
    simp only [Option.bind_eq_bind, ecan, Option.bind_some, if_true]
    have hd17 : Mqc.decode s.mq CTXRL = some (0, d') := hd'
    rw [hd17]
    simp only [Option.bind_some, if_true]
    exact ⟨_, rfl, ⟨hzs.1, hzs.2.1, hz'⟩, hds⟩
  · rw [if_neg hk]
    exact hnormal

/-- one sample of the cleanup pass on a block without significant samples, behind FF 7F -/
theorem zsampleO (w h orient bp : Nat) (st : DecSt) (hz : ZSt w h st) (x y : Nat) (hx : x < w) (hy : y < h) :
    ∃ st', decCleanSampleO w orient bp st x y false = some (st', false) ∧ ZSt w h st' ∧ st'.data = st.data := by
  obtain ⟨hsz, hzero, hmq⟩ := hz
  have hi := idx_lt w h x y hx hy
  have hiF : idxOf w x y < st.flags.size := by rw [hsz]; exact hi
  have hf0 : st.flags[idxOf w x y]? = some 0 := by
    rw [Array.getElem?_eq_getElem hiF, ← gf_get _ _ hiF, hzero]
  obtain ⟨d', hd', hz'⟩ := Mqc.zdecode st.mq hmq 0 (Or.inl rfl)
  unfold decCleanSampleO
  simp only [Option.bind_eq_bind, hf0, Option.bind_some, has0, Bool.false_eq_true, or_self, if_false, zcCtx0, hd']
  refine ⟨_, rfl, ⟨by show (st.flags.setIfInBounds _ _).size = _; rw [Array.size_setIfInBounds]; exact hsz, ?_, hz'⟩, rfl⟩
  intro j
  show gf (st.flags.setIfInBounds (idxOf w x y) (clr 0 fVisit)) j = 0
  rw [gf_set _ _ _ _ hiF]
  split
  · rfl
  · exact hzero j

/-- the cleanup pass on a block without significant samples, behind FF 7F: nothing becomes significant -/
theorem zcleanupO (w h orient bp : Nat) (st : DecSt) (hz : ZSt w h st) :
    ∃ st', decCleanupO w h orient bp st = some st' ∧ ZSt w h st' ∧ st'.data = st.data := by
  unfold decCleanupO
  refine (fun (hstep : _) => (foldlM_inv (fun (s : DecSt) => ZSt w h s ∧ s.data = st.data) (fun (p : Nat × Nat) => p.2 < w ∧ p.1 < h) _
    (columns w h) (fun p hp => columns_mem w h p.1 p.2 hp) hstep st ⟨hz, rfl⟩).elim
      (fun st' hst' => ⟨st', hst'.1, hst'.2.1, hst'.2.2⟩)) ?_
  intro s p hs hq
  obtain ⟨k, i⟩ := p
  obtain ⟨hzs, hds⟩ := hs
  have hnormal : ∃ s', ((List.range 4).filter (fun dy => k + dy < h)).foldlM (fun st dy => do
        let (st, _) ← decCleanSampleO w orient bp st i (k + dy) false
        some st) s = some s' ∧ (ZSt w h s' ∧ s'.data = st.data) := by
    apply foldlM_inv (fun (s : DecSt) => ZSt w h s ∧ s.data = st.data) (fun dy => k + dy < h) _ _
      (fun dy hdy => by simpa using (List.mem_filter.mp hdy).2) ?_ s ⟨hzs, hds⟩
    intro s1 dy hs1 hdy
    obtain ⟨s2, he2, hz2, hd2⟩ := zsampleO w h orient bp s1 hs1.1 i (k + dy) hq.1 hdy
    exact ⟨s2, by simp only [Option.bind_eq_bind, he2, Option.bind_some], hz2, by rw [hd2]; exact hs1.2⟩
  simp only []
  by_cases hk : k + 3 < h
  · rw [if_pos hk]
    obtain ⟨can, ecan, hcan⟩ := rlScanDec_spec w h s.flags k i hzs.1 hq.1 hk
    have hct : can = true := by
      rw [hcan]
      intro dy _
      unfold RlGood visA sigA
      rw [hzs.2.1]
      exact ⟨has0 _, has0 _, has0 _⟩
    subst hct
    obtain ⟨d', hd', hz'⟩ := Mqc.zdecode s.mq hzs.2.2 17 (Or.inr rfl)
    simp only [Option.bind_eq_bind, ecan, Option.bind_some, if_true]
    have hd17 : Mqc.decode s.mq CTXRL = some (0, d') := hd'
    rw [hd17]
    simp only [Option.bind_some, if_true]
    exact ⟨_, rfl, ⟨hzs.1, hzs.2.1, hz'⟩, hds⟩
  · rw [if_neg hk]
    exact hnormal

theorem flat_replicate (w : Nat) : ∀ (h : Nat), (List.range h).flatMap (fun _ => List.replicate w (0 : Int)) = List.replicate (w * h) 0 := by
  intro h
  induction h with
  | zero => rfl
  | succ h ih =>
    rw [List.range_succ, List.flatMap_append, ih]
    simp only [List.flatMap_cons, List.flatMap_nil, List.append_nil]
    rw [List.replicate_append_replicate, Nat.mul_succ]

/-- the MQ decoder on FF 7F after `init` and the three `SetContextState` calls -/
def zdec : Mqc.Dec := Mqc.Dec.mk #[255, 127, 255, 255] 1 2 0x8000 0x7FFF0000 0 0 (ctx3 (Array.replicate 19 0))

theorem zdec_inv : Mqc.ZInv zdec :=
  ⟨rfl, Or.inl rfl, by decide, by decide, by decide, by decide, by decide, by decide,
    ⟨4, by decide, by unfold Mqc.Safe; decide⟩, ⟨3, by decide, by unfold Mqc.Safe; decide⟩⟩

theorem zst0 (w h : Nat) : ZSt w h (DecSt.mk (clearVisit (Array.replicate ((w + 2) * (h + 2)) 0)) (Array.replicate ((w + 2) * (h + 2)) 0) zdec) := by
  refine ⟨by unfold clearVisit; simp, ?_, zdec_inv⟩
  intro j
  unfold gf clearVisit
  rw [Array.getElem?_map, Array.getElem?_replicate]
  split <;> rfl

/-- **the all-zero block as the pipeline sends it**: one cleanup pass over FF 7F (the flush of a fresh coder) decodes
to zeros, at any start plane (styles without SEGSYM) -/
theorem decodeBlock_zero (w h orient style mbd : Nat) (hS : stySegsym style = false) :
    decodeBlock w h orient style 1 (mbd : Int) [255, 127] = .ok (List.replicate (w * h) 0) := by
  have hd0 : Mqc.Dec.new [255, 127] NUMCONTEXTS =
      some (Mqc.Dec.mk #[255, 127, 255, 255] 1 2 0x8000 0x7FFF0000 0 0 (Array.replicate 19 0)) := by rfl
  unfold decodeBlock
  rw [if_neg (by decide), hd0]
  simp only []
  rw [initCtxDec_eq _ (by simp)]
  simp only []
  obtain ⟨st', he, hz', hd'⟩ := zcleanup w h orient mbd _ (zst0 w h)
  have hloop : ∀ (st0 : DecSt), st0 = DecSt.mk (Array.replicate ((w + 2) * (h + 2)) 0) (Array.replicate ((w + 2) * (h + 2)) 0) zdec →
      decLoop w h orient style 1 (1 + 1) st0 (mbd : Int) 0 2 = some st' := by
    intro st0 h0
    subst h0
    conv => lhs; unfold decLoop
    rw [if_pos ⟨by omega, by omega⟩]
    simp only [Int.toNat_natCast]
    rw [if_pos (Or.inr ⟨True.intro, True.intro⟩), he]
    have hex : ∀ (st : DecSt), decLoop w h orient style 1 1 st ((mbd : Int) - 1) (0 + 1) 0 = some st := by
      intro st; unfold decLoop; rw [if_neg (by omega)]
    simp only [Option.bind_some, hS, Bool.false_eq_true, if_false, hex]
    rw [if_neg (fun hh => absurd hh.2 (by omega))]
    simp only [if_true]
  have hl := hloop _ rfl
  unfold zdec at hl
  rw [hl]
  simp only []
  rw [mapM_get st'.data _ (by
    intro i hi
    simp only [List.mem_flatMap, List.mem_range, List.mem_map] at hi
    obtain ⟨y, hy, x, hx, rfl⟩ := hi
    rw [hd']; simp only [Array.size_replicate]; exact idx_lt w h x y hx hy)]
  simp only []
  congr 1
  rw [List.map_flatMap]
  have hrow : ∀ y, List.map (fun i => gi st'.data i) (List.map (fun x => idxOf w x y) (List.range w)) = List.replicate w 0 := by
    intro y
    rw [List.map_map]
    apply List.ext_getElem
    · simp
    · intro k h1 h2
      simp only [List.getElem_map, List.getElem_range, List.getElem_replicate, Function.comp]
      rw [hd']; unfold gi; rw [Array.getElem?_replicate]; split <;> rfl
  simp only [hrow]
  exact flat_replicate w h

/-- **the all-zero block as the pipeline sends it**: one cleanup pass over FF 7F (the flush of a fresh coder) decodes
to zeros, at any start plane (styles without SEGSYM) -/
theorem decodeBlockOJ_zero (w h orient style mbd : Nat) (hS : stySegsym style = false) :
    decodeBlockOJ w h orient style 1 (mbd : Int) [255, 127] = .ok (List.replicate (w * h) 0) := by
  have hd0 : Mqc.Dec.new [255, 127] NUMCONTEXTS =
      some (Mqc.Dec.mk #[255, 127, 255, 255] 1 2 0x8000 0x7FFF0000 0 0 (Array.replicate 19 0)) := by rfl
  unfold decodeBlockOJ
  rw [if_neg (by decide), hd0]
  simp only []
  rw [initCtxDec_eq _ (by simp)]
  simp only []
  obtain ⟨st', he, hz', hd'⟩ := zcleanupO w h orient mbd _ (zst0 w h)
  have hloop : ∀ (st0 : DecSt), st0 = DecSt.mk (Array.replicate ((w + 2) * (h + 2)) 0) (Array.replicate ((w + 2) * (h + 2)) 0) zdec →
      decLoopO w h orient style 1 (1 + 1) st0 (mbd : Int) 0 2 = some st' := by
    intro st0 h0
    subst h0
    conv => lhs; unfold decLoopO
    rw [if_pos ⟨by omega, by omega⟩]
    simp only [Int.toNat_natCast]
    rw [if_pos (Or.inr ⟨True.intro, True.intro⟩), he]
    have hex : ∀ (st : DecSt), decLoopO w h orient style 1 1 st ((mbd : Int) - 1) (0 + 1) 0 = some st := by
      intro st; unfold decLoopO; rw [if_neg (by omega)]
    simp only [Option.bind_some, hS, Bool.false_eq_true, if_false, hex]
    rw [if_neg (fun hh => absurd hh.2 (by omega))]
    simp only [if_true]
  have hl := hloop _ rfl
  unfold zdec at hl
  rw [hl]
  simp only []
  rw [mapM_get st'.data _ (by
    intro i hi
    simp only [List.mem_flatMap, List.mem_range, List.mem_map] at hi
    obtain ⟨y, hy, x, hx, rfl⟩ := hi
    rw [hd']; simp only [Array.size_replicate]; exact idx_lt w h x y hx hy)]
  simp only []
  congr 1
  rw [List.map_flatMap]
  have hrow : ∀ y, List.map (fun i => gi st'.data i) (List.map (fun x => idxOf w x y) (List.range w)) = List.replicate w 0 := by
    intro y
    rw [List.map_map]
    apply List.ext_getElem
    · simp
    · intro k h1 h2
      simp only [List.getElem_map, List.getElem_range, List.getElem_replicate, Function.comp]
      rw [hd']; unfold gi; rw [Array.getElem?_replicate]; split <;> rfl
  simp only [hrow]
  exact flat_replicate w h

end T1
