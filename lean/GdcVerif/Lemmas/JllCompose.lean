import GdcVerif.Lemmas.JllScan
import GdcVerif.Lemmas.JllOptimal
/-! Glue between L6 (optimal table) and L5/L7 (canonical tables, whole scan). -/
namespace JLL
open JLL.Opt

theorem kraft_bridge : ∀ (bits : List Int) (l : Nat), (∀ x ∈ bits, 0 ≤ x) →
    ((kraft (bits.map Int.toNat) l : Nat) : Int) = wsum (fun l => ((2 ^ (15 - l) : Nat) : Int)) bits l
  | [], _, _ => by simp [kraft, wsum]
  | x :: xs, l, h => by
    have hx : 0 ≤ x := h x (by simp)
    have ih := kraft_bridge xs (l + 1) (fun y hy => h y (by simp [hy]))
    simp only [List.map_cons, kraft, wsum]
    rw [← ih]
    have : ((x.toNat : Nat) : Int) = x := Int.toNat_of_nonneg hx
    simp [this]

/-- frequency vector (256 entries) of a list of categories: what the frequency pass
    `optimizeHuffmanTables` accumulates (`frequencies[diffCategory(diff)]++`) -/
def catFreq (cats : List Nat) : List Nat := (List.range 256).map fun k => cats.count k

theorem catFreq_lossless (cats : List Nat) (h : ∀ k ∈ cats, k ≤ 16) : LosslessFreq (catFreq cats) := by
  refine ⟨by simp [catFreq], ?_⟩
  intro i hi
  by_cases h256 : i < 256
  · simp only [catFreq]
    rw [List.getElem?_map, List.getElem?_range h256]
    simp only [Option.map_some, Option.getD_some]
    apply List.count_eq_zero.mpr
    intro hm; have := h i hm; omega
  · simp only [catFreq]
    rw [List.getElem?_eq_none (by simp; omega)]
    rfl

theorem catFreq_mem (cats : List Nat) (k : Nat) (hk : k ∈ cats) (h16 : k ≤ 16) :
    (catFreq cats)[k]?.getD 0 ≠ 0 := by
  have h256 : k < 256 := by omega
  simp only [catFreq]
  rw [List.getElem?_map, List.getElem?_range h256]
  simp only [Option.map_some, Option.getD_some]
  exact Nat.ne_of_gt (List.count_pos_iff.mpr hk)

/-- L6 in the vocabulary of L5: the optimal table of any lossless frequency vector is a
    `ValidTable` with strict Kraft inequality, containing exactly the symbols that occur -/
theorem optimal_table_valid' (f : List Nat) (hf : LosslessFreq f) :
    ∃ bits values, buildOptimal f = .ok (bits, values) ∧
      ValidTable (bits.map Int.toNat) values.toArray = true ∧
      KraftStrict (bits.map Int.toNat) = true ∧
      (∀ i, i ∈ values ↔ i < 256 ∧ f[i]?.getD 0 ≠ 0) := by
  obtain ⟨bits, values, hb, hlen, hnn, hsum, hnd, hmem, hk⟩ := buildOptimal_lossless_valid f hf
  refine ⟨bits, values, hb, ?_, ?_, hmem⟩
  · have hkr : kraft (bits.map Int.toNat) 0 < 65536 := by
      have := kraft_bridge bits 0 hnn
      unfold kraft16 at hk
      omega
    have hall : ∀ v ∈ values, v < 256 := fun v hv => ((hmem v).mp hv).1
    simp only [ValidTable, Bool.and_eq_true, beq_iff_eq, decide_eq_true_eq, List.length_map,
      List.all_eq_true, List.size_toArray]
    refine ⟨⟨⟨⟨hlen, hsum⟩, by simpa using hnd⟩, ?_⟩, by omega⟩
    intro v hv
    exact hall v (by simpa using hv)
  · have := kraft_bridge bits 0 hnn
    unfold kraft16 at hk
    simp only [KraftStrict, decide_eq_true_eq]
    omega

/-- L6 + L7: with the per-image optimal table, the whole scan round-trips — no hypothesis on
    the table is left -/
theorem lossless_scan_roundtrip_optimal' (sv1 : Bool) (P predictor w h nc : Nat) (s : Array (Array Int))
    (hP : 2 ≤ P ∧ P ≤ 16)
    (hsz : s.size = nc ∧ ∀ c (hc : c < s.size), s[c].size = w * h)
    (hrng : ∀ c (hc : c < s.size) i (hi : i < s[c].size), 0 ≤ s[c][i] ∧ s[c][i] < Go.shl 1 P) :
    ∃ bits values t scan,
      buildOptimal (catFreq (emittedCats sv1 P predictor w h nc s)) = .ok (bits, values) ∧
      Table.build (bits.map Int.toNat) values.toArray = .ok t ∧
      encodeScan sv1 P predictor w h nc (buildHuffmanCodes (bits.map Int.toNat) values.toArray) s = .ok scan ∧
      StuffOk scan = true ∧ decodeScan sv1 P predictor w h nc t scan = .ok s := by
  have hle := emittedCats_le sv1 P predictor w h nc s
  obtain ⟨bits, values, hb, hv, _, hmem⟩ :=
    optimal_table_valid' _ (catFreq_lossless _ (fun k hk => hle k hk))
  obtain ⟨t, ht, _, _⟩ := build_ok _ _ hv
  have hcat : ∀ k ∈ emittedCats sv1 P predictor w h nc s, k ∈ values.toArray.toList := by
    intro k hk
    have h16 := hle k hk
    simpa using (hmem k).mpr ⟨by omega, catFreq_mem _ k hk h16⟩
  obtain ⟨scan, h1, h2, h3⟩ := lossless_scan_roundtrip_emitted sv1 P predictor w h nc _ _ t s hP hv ht hcat hsz hrng
  exact ⟨bits, values, t, scan, hb, ht, h1, h2, h3⟩

end JLL
